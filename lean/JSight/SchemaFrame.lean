import JSight.SchemaStep
/-! Frame properties of the transitions: what they do to `index` and how many lexemes they queue. -/
namespace SchemaScan

/-- `index` unchanged, at most `k` more queued lexemes -/
def F (k : Nat) (s s' : Sc) : Prop := s'.index = s.index ∧ s'.finds.length ≤ s.finds.length + k

theorem F.refl (k : Nat) (s : Sc) : F k s s := ⟨rfl, Nat.le_add_right _ _⟩
theorem F.mono {a b s s'} (h : F a s s') (hab : a ≤ b) : F b s s' := ⟨h.1, by have := h.2; omega⟩
theorem F.trans {a b s s1 s2} (h1 : F a s s1) (h2 : F b s1 s2) : F (a + b) s s2 :=
  ⟨h2.1.trans h1.1, by have := h1.2; have := h2.2; omega⟩

@[simp] theorem found_index (s : Sc) (t : LexT) : (found s t).index = s.index := rfl
@[simp] theorem found_finds_length (s : Sc) (t : LexT) : (found s t).finds.length = s.finds.length + 1 := by
  simp [found]
@[simp] theorem setContext_index (s : Sc) (c : Ctx) : (setContext s c).index = s.index := rfl
@[simp] theorem setContext_finds (s : Sc) (c : Ctx) : (setContext s c).finds = s.finds := rfl

/-- closes `F k s s'` for an explicit `s'` -/
macro "fr" : tactic => `(tactic| (refine ⟨?_, ?_⟩ <;> simp <;> omega))

theorem switchToAnnotation_F {s s'} (h : switchToAnnotation s = .ok s') : F 0 s s' := by
  unfold switchToAnnotation at h
  split at h
  · cases h
  · dsimp only at h
    split at h <;> cases h <;> fr


theorem switchToComment_F {s s'} (h : switchToComment s = .ok s') : F 0 s s' := by
  unfold switchToComment at h
  split at h <;> cases h <;> fr

theorem isNewLineM_ok {s c b} (h : isNewLineM s c = .ok b) : b = c.isNewLine := by
  rcases isNewLineM_cases s c with h' | ⟨e, h', _⟩ <;> rw [h'] at h <;> cases h
  rfl

theorem beginValue_F {s c r s'} (h : beginValue s c = .ok (r, s')) : F 1 s s' := by
  unfold beginValue at h
  simp only [bind, Except.bind, pure, Except.pure] at h
  split at h
  · cases h
  split at h
  · cases h; fr
  split at h
  · cases h; fr
  split at h
  · split at h
    · cases h
    · cases h
      exact (switchToAnnotation_F ‹_›).mono (by omega)
  · split at h <;> cases h <;> fr

theorem restoreContext_F {s s'} (h : restoreContext s = .ok s') : F 0 s s' := by
  unfold restoreContext at h
  split at h <;> cases h <;> fr

theorem popRet_F {s r s'} (h : popRet s = .ok (r, s')) : F 0 s s' := by
  unfold popRet at h
  split at h <;> cases h <;> fr

theorem foundObjectEnd_F {s s'} (h : foundObjectEnd s = .ok s') : F 1 s s' := by
  unfold foundObjectEnd at h
  simp only [bind, Except.bind, pure, Except.pure] at h
  split at h
  · cases h
  · have h0 := restoreContext_F ‹_›
    have h1 : F 1 s (found s .objE) := by fr
    have h2 := h1.trans h0
    split at h
    · cases h; exact ⟨h2.1, h2.2⟩
    · split at h <;> cases h <;> exact ⟨h2.1, h2.2⟩

theorem foundArrayEnd_F {s s'} (h : foundArrayEnd s = .ok s') : F 1 s s' := by
  unfold foundArrayEnd at h
  simp only [bind, Except.bind, pure, Except.pure] at h
  split at h
  · cases h
  · have h0 := restoreContext_F ‹_›
    cases h
    refine ⟨h0.1.trans ?_, Nat.le_trans h0.2 ?_⟩
    · split <;> rfl
    · split <;> simp

theorem finishShortcut_F {s s'} (h : finishShortcut s = .ok s') : F 3 s s' := by
  unfold finishShortcut at h
  simp only [bind, Except.bind, pure, Except.pure] at h
  split at h
  · cases h; fr
  · cases h; fr
  · have h0 := restoreContext_F h
    refine ⟨h0.1, Nat.le_trans h0.2 ?_⟩
    simp
  · cases h

theorem beginKeyShortcut_F {s s'} (h : beginKeyShortcut s = .ok s') : F 1 s s' := by
  unfold beginKeyShortcut at h
  split at h <;> cases h <;> fr

theorem beginString_F {s c s'} (h : beginString s c = .ok s') : F 0 s s' := by
  unfold beginString at h
  split at h <;> cases h <;> fr

theorem beginAnnKeyOrEmpty_F {s c s'} (h : beginAnnKeyOrEmpty s c = .ok s') : F 1 s s' := by
  unfold beginAnnKeyOrEmpty at h
  simp only [bind, Except.bind, pure, Except.pure] at h
  split at h
  · exact foundObjectEnd_F h
  split at h
  · cases h; fr
  split at h <;> cases h <;> fr

theorem arrItemFinds_F {r s s'} (h : arrItemFinds r s = .ok s') : F 3 s s' := by
  unfold arrItemFinds at h
  split at h <;> cases h <;> fr

theorem hexStep_F {s c nx s'} (h : hexStep s c nx = .ok s') : F 0 s s' := by
  unfold hexStep at h
  split at h <;> cases h <;> fr

theorem expect_F {s c w nx b m s'} (h : expect s c w nx b m = .ok s') : F 0 s s' := by
  unfold expect at h
  split at h <;> cases h <;> fr


/-- closes a frame goal from the frame facts of the helper calls found in the context -/
macro "frc" : tactic => `(tactic| (
  try (have hb := beginValue_F ‹beginValue _ _ = Except.ok _›)
  try (have hp := popRet_F ‹popRet _ = Except.ok _›)
  try (have hbs := beginString_F ‹beginString _ _ = Except.ok _›)
  try (have hfs := finishShortcut_F ‹finishShortcut _ = Except.ok _›)
  simp only [F] at *
  refine ⟨?_, ?_⟩ <;> simp [apply_ite Sc.index, apply_ite Sc.finds] at * <;> omega))

/-- frame property of a leaf transition given as `h : dispatch (f+1) .X s c p1 p2 = .ok s'` -/
macro "leafF" h:ident : tactic => `(tactic| (
  unfold dispatch at $h:ident; dsimp only at $h:ident
  try simp only [bind, Except.bind, pure, Except.pure] at $h:ident
  repeat' split at $h:ident
  all_goals (first
    | (cases $h:ident; done)
    | (have hx := switchToAnnotation_F $h:ident; frc)
    | (have hx := switchToComment_F $h:ident; frc)
    | (have hx := foundObjectEnd_F $h:ident; frc)
    | (have hx := foundArrayEnd_F $h:ident; frc)
    | (have hx := beginKeyShortcut_F $h:ident; frc)
    | (have hx := beginAnnKeyOrEmpty_F $h:ident; frc)
    | (have hx := hexStep_F $h:ident; frc)
    | (have hx := expect_F $h:ident; frc)
    | (have ha := arrItemFinds_F $h:ident; frc)
    | (have hx := beginString_F $h:ident; frc)
    | (cases $h:ident; frc))))

end SchemaScan
