import JSight.SchemaEventsBase
/-!
Single-byte behaviour of the schema scanner model on plain JSON: `dispatch` at concrete states
(three layers: post-value state → `endValue` → after-state), then the same facts as `Steps`.
-/
namespace SchemaScan

/-- a scanner state outside annotations/comments; `cx`, `al` (context record, allowAnnotation) are bookkeeping -/
def cfg (st : St) (ret : List St) (K : List (LexT × Nat)) (u : Bool) (i : Nat) (CS : List Ctx) (cx : Ctx)
    (al : Bool) : Sc :=
  { step := st, ret := ret, stack := K, ctxStack := CS, ctx := cx, finds := [], index := i, ann := .none, unf := u,
    lengthComputing := false, boundaryQuote := false, allowAnnotation := al, hasTrailing := false }

/-- states in which a value has just been read (its literal end may still be pending) -/
def PV : St → Bool
  | .endValue | .d0 | .d1 | .dot0 => true
  | _ => false

def Cls.isDelim : Cls → Bool | .sp | .tab | .nl | .comma | .rbrack | .rbrace | .colon => true | _ => false

/-! ### layer 1: a post-value state on a delimiter is `stateEndValue` -/

theorem pv_dispatch (f : Nat) (st : St) (h : PV st = true) (c : Cls) (hc : c.isDelim = true) (s : Sc)
    (p1 p2 : Option Cls) : dispatch (f + 1) st s c p1 p2 = endValue f s c p1 p2 := by
  cases st <;> simp [PV] at h <;> cases c <;> simp [Cls.isDelim] at hc <;>
    (unfold dispatch; try unfold state0) <;> rfl

/-! ### layer 2: `stateEndValue` closes the pending pairs and hands the byte to the after-state -/

/-- what is closed when a value ends: an array item, an object member value, an object key -/
inductive CK | item | val | key
  deriving DecidableEq

def CK.B : CK → LexT | .item => .itemB | .val => .valB | .key => .keyB
def CK.E : CK → LexT | .item => .itemE | .val => .valE | .key => .keyE
def CK.aft : CK → St | .item => .afterItem | .val => .afterValue | .key => .afterKey
/-- the separator that may follow, and the state it leads to -/
def CK.sep : CK → Cls | .item => .comma | .val => .comma | .key => .colon
def CK.nxt : CK → St | .item => .arrItem | .val => .objKey | .key => .objValue

def pendOf (lit : Bool) (o : Nat) : List (LexT × Nat) := if lit then [(.litB, o)] else []
def closeTys (lit : Bool) (ck : CK) : List LexT := (if lit then [.litE] else []) ++ [ck.E]

theorem ev_close (f : Nat) (st : St) (lit : Bool) (ck : CK) (b b2 : Nat) (R : List (LexT × Nat)) (i : Nat)
    (CS : List Ctx) (cx : Ctx) (al : Bool) (c : Cls) (p1 p2 : Option Cls) :
    endValue f (cfg st [] (pendOf lit b ++ (ck.B, b2) :: R) false i CS cx al) c p1 p2
      = dispatch f ck.aft
          { cfg ck.aft [] (pendOf lit b ++ (ck.B, b2) :: R) false i CS cx al with finds := closeTys lit ck } c p1 p2 := by
  cases lit <;> cases ck <;> (unfold endValue dispatch'; rfl)

theorem ev_root (f : Nat) (st : St) (lit : Bool) (b : Nat) (i : Nat)
    (CS : List Ctx) (cx : Ctx) (al : Bool) (c : Cls) (p1 p2 : Option Cls) :
    endValue f (cfg st [] (pendOf lit b) false i CS cx al) c p1 p2
      = dispatch f .endTop
          { cfg .endTop [] (pendOf lit b) false i CS cx al with finds := if lit then [.litE] else [] } c p1 p2 := by
  cases lit <;> (unfold endValue dispatch'; rfl)

/-! ### layer 3: the after-states (with lexemes already queued) and the other white-space loops -/

def Cls.isSpTab : Cls → Bool | .sp | .tab => true | _ => false

def wsLoop : St → Bool
  | .foundRoot | .objKeyOrEmpty | .objKey | .objKeyAfterNL | .objValue | .arrItemOrEmpty | .arrItem
  | .afterKey | .afterValue | .afterItem | .endTop => true
  | _ => false

theorem loop_sp (f : Nat) (st : St) (h : wsLoop st = true) (c : Cls) (hc : c.isSpTab = true)
    (K : List (LexT × Nat)) (i : Nat) (CS : List Ctx) (cx : Ctx) (al : Bool) (fs : List LexT) (p1 p2 : Option Cls) :
    dispatch (f + 1) st { cfg st [] K false i CS cx al with finds := fs } c p1 p2
      = .ok { cfg st [] K false i CS cx al with finds := fs } := by
  cases st <;> simp [wsLoop] at h <;> cases c <;> simp [Cls.isSpTab] at hc <;> (unfold dispatch; rfl)

/-- the state after a line break: only `objKey` moves (to `objKeyAfterNL`) -/
def nlSt : St → St | .objKey => .objKeyAfterNL | st => st
/-- `allowAnnotation` after a line break -/
def nlAl : St → Bool → Bool | .objKey, _ => true | .arrItem, _ => true | _, al => al

theorem loop_nl (f : Nat) (st : St) (h : wsLoop st = true)
    (K : List (LexT × Nat)) (i : Nat) (CS : List Ctx) (cx : Ctx) (al : Bool) (fs : List LexT) (p1 p2 : Option Cls) :
    dispatch (f + 1) st { cfg st [] K false i CS cx al with finds := fs } .nl p1 p2
      = .ok { cfg (nlSt st) [] K false i CS cx (nlAl st al) with finds := fs ++ [.newLine] } := by
  cases st <;> simp [wsLoop] at h <;> (unfold dispatch; rfl)

theorem aft_sep (f : Nat) (ck : CK)
    (K : List (LexT × Nat)) (i : Nat) (CS : List Ctx) (cx : Ctx) (al : Bool) (fs : List LexT) (p1 p2 : Option Cls) :
    dispatch (f + 1) ck.aft { cfg ck.aft [] K false i CS cx al with finds := fs } ck.sep p1 p2
      = .ok { cfg ck.nxt [] K false i CS cx al with finds := fs } := by
  cases ck <;> (unfold dispatch; rfl)

theorem aft_rbrack (f : Nat) (x : LexT × Nat)
    (K : List (LexT × Nat)) (i : Nat) (c0 : Ctx) (CS : List Ctx) (cx : Ctx) (al : Bool) (fs : List LexT) (p1 p2 : Option Cls) :
    dispatch (f + 1) .afterItem { cfg .afterItem [] (x :: K) false i (c0 :: CS) cx al with finds := fs } .rbrack p1 p2
      = .ok { cfg .endValue [] (x :: K) false i CS c0 (!cx.arrayHasItem) with finds := fs ++ [.arrE] } := by
  unfold dispatch; rfl

theorem aft_rbrace (f : Nat)
    (K : List (LexT × Nat)) (i : Nat) (c0 : Ctx) (CS : List Ctx) (cx : Ctx) (al : Bool) (fs : List LexT) (p1 p2 : Option Cls) :
    dispatch (f + 1) .afterValue { cfg .afterValue [] K false i (c0 :: CS) cx al with finds := fs } .rbrace p1 p2
      = .ok { cfg .endValue [] K false i CS c0 al with finds := fs ++ [.objE] } := by
  unfold dispatch; rfl

/-! ### tokens: bytes inside a scalar or a key queue nothing and leave the stack alone -/

def silent : St → List St → Bool → Cls → Option (St × List St × Bool)
  | .inString, r, unf, c => match c with
      | .quote => some (.endValue, r, false)
      | .bslash => some (.esc, r, unf)
      | .tab | .nl | .ctrl => none
      | _ => some (.inString, r, unf)
  | .esc, r, unf, c => match c with
      | .lb | .lf | .ln | .lr | .lt | .bslash | .slash | .quote => some (.inString, r, unf)
      | .lu => some (.u0, .inString :: r, unf)
      | _ => none
  | .u0, r, unf, c => if c.isHex then some (.u1, r, unf) else none
  | .u1, r, unf, c => if c.isHex then some (.u2, r, unf) else none
  | .u2, r, unf, c => if c.isHex then some (.u3, r, unf) else none
  | .u3, r0 :: r, unf, c => if c.isHex then some (r0, r, unf) else none
  | .neg, r, _, c => match c with | .zero => some (.d0, r, false) | .d19 => some (.d1, r, false) | _ => none
  | .d1, r, unf, c => match c with
      | .zero | .d19 => some (.d1, r, unf) | .dot => some (.dot, r, true) | _ => none
  | .d0, r, _, c => match c with | .dot => some (.dot, r, true) | _ => none
  | .dot, r, _, c => match c with | .zero | .d19 => some (.dot0, r, false) | _ => none
  | .dot0, r, unf, c => match c with | .zero | .d19 => some (.dot0, r, unf) | _ => none
  | .t, r, unf, c => match c with | .lr => some (.tr, r, unf) | _ => none
  | .tr, r, unf, c => match c with | .lu => some (.tru, r, unf) | _ => none
  | .tru, r, _, c => match c with | .le => some (.endValue, r, false) | _ => none
  | .f, r, unf, c => match c with | .la => some (.fa, r, unf) | _ => none
  | .fa, r, unf, c => match c with | .ll => some (.fal, r, unf) | _ => none
  | .fal, r, unf, c => match c with | .ls => some (.fals, r, unf) | _ => none
  | .fals, r, _, c => match c with | .le => some (.endValue, r, false) | _ => none
  | .n, r, unf, c => match c with | .lu => some (.nu, r, unf) | _ => none
  | .nu, r, unf, c => match c with | .ll => some (.nul, r, unf) | _ => none
  | .nul, r, _, c => match c with | .ll => some (.endValue, r, false) | _ => none
  | _, _, _, _ => none

theorem silent_dispatch (f : Nat) (st : St) (r : List St) (u : Bool) (c : Cls) (st' : St) (r' : List St) (u' : Bool)
    (h : silent st r u c = some (st', r', u'))
    (K : List (LexT × Nat)) (i : Nat) (CS : List Ctx) (cx : Ctx) (al : Bool) (p1 p2 : Option Cls) :
    dispatch (f + 1) st (cfg st r K u i CS cx al) c p1 p2 = .ok (cfg st' r' K u' i CS cx al) := by
  by_cases h3 : st = .u3
  · subst h3
    cases r with
    | nil => simp [silent] at h
    | cons r0 r =>
      cases c <;> simp [silent, Cls.isHex] at h <;>
        (obtain ⟨rfl, rfl, rfl⟩ := h; unfold dispatch; rfl)
  · cases st <;> (try exact absurd rfl h3) <;> simp only [silent, reduceCtorEq] at h <;> cases c <;>
      simp [Cls.isHex] at h <;>
      (obtain ⟨rfl, rfl, rfl⟩ := h; unfold dispatch; try unfold state0) <;> rfl

/-! ### value and key starts, empty containers -/

/-- the positions at which a value may start -/
inductive VCtx | root | item0 | item1 | objv

def VCtx.st : VCtx → St
  | .root => .foundRoot | .item0 => .arrItemOrEmpty | .item1 => .arrItem | .objv => .objValue
def VCtx.preTys : VCtx → List LexT
  | .root => [] | .objv => [.valB] | _ => [.itemB]
def VCtx.pre (o : Nat) : VCtx → List (LexT × Nat)
  | .root => [] | .objv => [(.valB, o)] | _ => [(.itemB, o)]
def VCtx.preEvs (o : Nat) : VCtx → List Ev
  | .root => [] | .objv => [⟨.valB, o, o⟩] | _ => [⟨.itemB, o, o⟩]
/-- the context record after the first byte of a value (`arrayHasItem`, F-13) -/
def VCtx.cx' : VCtx → Ctx → Ctx
  | .item0, cx => { cx with arrayHasItem := true }
  | _, cx => cx

/-- first byte of a scalar token -/
def litStart : Cls → Option (St × Bool)
  | .quote => some (.inString, true)
  | .minus => some (.neg, true)
  | .zero => some (.d0, false)
  | .d19 => some (.d1, false)
  | .lt => some (.t, true)
  | .lf => some (.f, true)
  | .ln => some (.n, true)
  | _ => none

theorem start_scalar_d (f : Nat) (c : Cls) (st0 : St) (u0 : Bool) (h : litStart c = some (st0, u0)) (ctx : VCtx)
    (K : List (LexT × Nat)) (i : Nat) (CS : List Ctx) (cx : Ctx) (al : Bool) (p1 p2 : Option Cls) :
    dispatch (f + 1) ctx.st (cfg ctx.st [] K false i CS cx al) c p1 p2
      = .ok { cfg st0 [] K u0 i CS (ctx.cx' cx) al with finds := ctx.preTys ++ [.litB] } := by
  cases c <;> simp [litStart] at h <;> obtain ⟨rfl, rfl⟩ := h <;> cases ctx <;> (unfold dispatch; rfl)

theorem start_array_d (f : Nat) (ctx : VCtx)
    (K : List (LexT × Nat)) (i : Nat) (CS : List Ctx) (cx : Ctx) (al : Bool) (p1 p2 : Option Cls) :
    dispatch (f + 1) ctx.st (cfg ctx.st [] K false i CS cx al) .lbrack p1 p2
      = .ok { cfg .arrItemOrEmpty [] K false i (ctx.cx' cx :: CS) { ty := .array } al with
                finds := ctx.preTys ++ [.arrB] } := by
  cases ctx <;> (unfold dispatch; rfl)

theorem start_object_d (f : Nat) (ctx : VCtx)
    (K : List (LexT × Nat)) (i : Nat) (CS : List Ctx) (cx : Ctx) (al : Bool) (p1 p2 : Option Cls) :
    dispatch (f + 1) ctx.st (cfg ctx.st [] K false i CS cx al) .lbrace p1 p2
      = .ok { cfg .objKeyOrEmpty [] K false i (ctx.cx' cx :: CS) { ty := .object } al with
                finds := ctx.preTys ++ [.objB] } := by
  cases ctx <;> (unfold dispatch; rfl)

def keySt : St → Bool
  | .objKeyOrEmpty | .objKey | .objKeyAfterNL => true
  | _ => false
def keyAl : St → Bool → Bool | .objKeyOrEmpty, _ => true | _, al => al

theorem key_start_d (f : Nat) (st : St) (h : keySt st = true)
    (K : List (LexT × Nat)) (i : Nat) (CS : List Ctx) (cx : Ctx) (al : Bool) (p1 p2 : Option Cls) :
    dispatch (f + 1) st (cfg st [] K false i CS cx al) .quote p1 p2
      = .ok { cfg .inString [] K false i CS cx (keyAl st al) with finds := [.keyB] } := by
  cases st <;> simp [keySt] at h <;> (unfold dispatch; rfl)

theorem empty_arr_d (f : Nat) (x : LexT × Nat)
    (K : List (LexT × Nat)) (i : Nat) (c0 : Ctx) (CS : List Ctx) (cx : Ctx) (al : Bool) (p1 p2 : Option Cls) :
    dispatch (f + 1) .arrItemOrEmpty (cfg .arrItemOrEmpty [] (x :: K) false i (c0 :: CS) cx al) .rbrack p1 p2
      = .ok { cfg .endValue [] (x :: K) false i CS c0 (!cx.arrayHasItem) with finds := [.arrE] } := by
  unfold dispatch; rfl

theorem empty_obj_d (f : Nat)
    (K : List (LexT × Nat)) (i : Nat) (c0 : Ctx) (CS : List Ctx) (cx : Ctx) (al : Bool) (p1 p2 : Option Cls) :
    dispatch (f + 1) .objKeyOrEmpty (cfg .objKeyOrEmpty [] K false i (c0 :: CS) cx al) .rbrace p1 p2
      = .ok { cfg .endValue [] K false i CS c0 true with finds := [.objE] } := by
  unfold dispatch; rfl

/-! ### the same facts as `Steps` -/

section steps
variable {data : Array Cls}

theorem cfg_byte {st : St} {r : List St} {K : List (LexT × Nat)} {u : Bool} {i : Nat} {CS : List Ctx} {cx : Ctx}
    {al : Bool} {c : Cls} {s1 s2 : Sc} {evs : List Ev} (hc : data[i]? = some c)
    (hd : ∀ p1 p2, dispatch 8 st (cfg st r K u (i + 1) CS cx al) c p1 p2 = .ok s1)
    (hi : s1.index = i + 1) (hdr : drainL data s1.finds s1 = .ok (s2, evs)) :
    Steps data (cfg st r K u i CS cx al) evs s2 :=
  Steps.byte (s := cfg st r K u i CS cx al) rfl hc hd hi hdr

theorem S_silent {st : St} {r : List St} {u : Bool} {c : Cls} {st' : St} {r' : List St} {u' : Bool}
    (h : silent st r u c = some (st', r', u'))
    (K : List (LexT × Nat)) (i : Nat) (CS : List Ctx) (cx : Ctx) (al : Bool) (hc : data[i]? = some c) :
    Steps data (cfg st r K u i CS cx al) [] (cfg st' r' K u' (i + 1) CS cx al) :=
  cfg_byte hc (fun p1 p2 => silent_dispatch 7 st r u c st' r' u' h K (i + 1) CS cx al p1 p2) rfl rfl

theorem S_sp {st : St} (h : wsLoop st = true) {c : Cls} (hs : c.isSpTab = true)
    (K : List (LexT × Nat)) (i : Nat) (CS : List Ctx) (cx : Ctx) (al : Bool) (hc : data[i]? = some c) :
    Steps data (cfg st [] K false i CS cx al) [] (cfg st [] K false (i + 1) CS cx al) :=
  cfg_byte hc (fun p1 p2 => loop_sp 7 st h c hs K (i + 1) CS cx al [] p1 p2) rfl rfl

theorem S_nl {st : St} (h : wsLoop st = true)
    (K : List (LexT × Nat)) (i : Nat) (CS : List Ctx) (cx : Ctx) (al : Bool) (hc : data[i]? = some .nl) :
    Steps data (cfg st [] K false i CS cx al) [⟨.newLine, i, i⟩] (cfg (nlSt st) [] K false (i + 1) CS cx (nlAl st al)) :=
  cfg_byte hc (fun p1 p2 => loop_nl 7 st h K (i + 1) CS cx al [] p1 p2) rfl rfl

end steps

end SchemaScan
