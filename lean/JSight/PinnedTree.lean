import JSight.ValidateTProofs
/-!
The validator tree of the *pinned* code: a finished child puts its parent into `leaves` under its own index, so a
parent whose alternatives both accept is a leaf twice and is fed every lexeme twice (finding (a) of C03).
`live` counts the leaf entries that point to the validator object.
-/
namespace VN
variable {L D : Type}

inductive TP (L : Type)
  | node (f : Frame L) (live : Nat) (kids : List (TP L))

def leafTP (f : Frame L) : TP L := .node f 1 []

/-- the validator object is fed once per leaf entry: (object, remaining entries, new children, finished entries) -/
def ownN (litOK : L → D → Bool) : Nat → Frame L → Ev D → Frame L × Nat × List (Frame L) × Nat
  | 0, f, _ => (f, 0, [], 0)
  | n + 1, f, e =>
    match feed1 litOK f e with
    | .fail => ownN litOK n f e
    | .done => let r := ownN litOK n f e; (r.1, r.2.1, r.2.2.1, r.2.2.2 + 1)
    | .stay f' => let r := ownN litOK n f' e; (r.1, r.2.1 + 1, r.2.2.1, r.2.2.2)
    | .kids f' hs => let r := ownN litOK n f' e; (r.1, r.2.1, hs ++ r.2.2.1, r.2.2.2)

def assembleP (o : Frame L × Nat × List (Frame L) × Nat) (k : List (TP L) × Nat) : Option (TP L) × Nat :=
  if o.2.1 + k.2 == 0 && (k.1 ++ o.2.2.1.map leafTP).isEmpty then (none, o.2.2.2)
  else (some (.node o.1 (o.2.1 + k.2) (k.1 ++ o.2.2.1.map leafTP)), o.2.2.2)

mutual
def stepTP (litOK : L → D → Bool) : TP L → Ev D → Option (TP L) × Nat
  | .node f live kids, e => assembleP (ownN litOK live f e) (stepGP litOK kids e)
def stepGP (litOK : L → D → Bool) : List (TP L) → Ev D → List (TP L) × Nat
  | [], _ => ([], 0)
  | t :: ts, e =>
    ((match (stepTP litOK t e).1 with | some x => x :: (stepGP litOK ts e).1 | none => (stepGP litOK ts e).1),
      (stepTP litOK t e).2 + (stepGP litOK ts e).2)
end

/-- accepted iff some root alternative finishes on the last lexeme -/
def runP (litOK : L → D → Bool) : List (TP L) → List (Ev D) → Bool
  | _, [] => false
  | g, [e] => (stepGP litOK g e).2 > 0
  | g, e :: es => runP litOK (stepGP litOK g e).1 es

def validateTP (litOK : L → D → Bool) (s : S L) (d : J D) : Bool :=
  runP litOK ((heads s).map leafTP) (evs d)

/-! witness: `[ @A | @B, "s", 1 ]` with `@A = 1.5`, `@B = 2.5` and the document `[1, 1]` -/
inductive K | i | f | s deriving DecidableEq
def okK (l : K) (d : K) : Bool := d == l || (d == .i && l == .f)

def wS : S K := .arr [.alt [.lit .f, .lit .f], .lit .s, .lit .i]
def wD : J K := .arr [.lit .i, .lit .i]

/-- the specification rejects the document, and so does the tree with F-11 … -/
theorem wShape : shape okK wS wD = false := by
  simp [wS, wD, shape, shapeItems, shapeAlts, childAt, okK]
example : validateT okK wS wD = false := by rw [C03_shared_tree]; exact wShape
/-- … the pinned tree accepts it: `C03_full` is false of the pinned code -/
theorem C03_full_false : validateTP okK wS wD = true ∧ shape okK wS wD = false := by
  refine ⟨?_, wShape⟩
  simp [validateTP, wS, wD, heads, evs, evsItems, runP, stepGP, stepTP, assembleP, ownN, feed1, leafTP, childAt,
    headsList, okK]

end VN
