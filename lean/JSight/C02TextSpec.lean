import JSight.E2E
/-!
C02 at TEXT level, spec side (core only: the driver evaluates `closed`).

A top-level scalar EXAMPLE `ex` with the annotation `// {n1: v1, …}` is, for the property, the list of pairs
`(name, value token)` in written order. This file states, on that list and independently of positions and layout:

* `rawOf` / `specOfRules` — the pairs as `RulesF.RawRule`s and the compiled scalar node `RulesF.compile` makes of them
  (exclusive flags folded into the bounds, false-valued `nullable` / `const` dropped, `type: "uuid" | "date"` a format
  constraint, any other `type` nothing): the `RulesF.LitSpecF` of `C02_accept_iff_full`;
* `okCreate` — the constraint constructors accept every rule (known name, well-formed value, no duplicate):
  `Compile.createRules` on the rules at position 0;
* `okBasic` — the conditions `compileNode` (`compiler_basic.go`) puts on the set, in the order of the code;
* `okRules` — both, plus the kind of the EXAMPLE can be guessed;
* `closed` — the outcome the theorems state for the schema text and a document token: the first stage's error code,
  else the EXAMPLE's own verdict (`Compile.litErr`: `CheckRootSchema` validates the example), else accept / reject by
  `RulesF.litOKFull`.

The class: the rules with LITERAL values the C02 model knows — `min`, `max`, `exclusiveMinimum`, `exclusiveMaximum`,
`minLength`, `maxLength`, `precision`, `type` (a JSON kind name, `decimal`, `uuid`, `date`), `nullable`, `const`.
(`enum` needs an array value, `regex` / `email` / `uri` / `datetime` the standard library: `Compile` answers
`unsupported` for the latter; `okBasic` excludes all of them.)
-/
namespace C02T
open Compile
open Rules (Kind)

abbrev Pair := Bytes × Bytes

/-- the rules as `Compile` reads them, all positions 0 -/
def mk (ps : List Pair) : List Rule :=
  ps.map fun p => { name := p.1, gen := false, val := some p.2, pos := 0, npos := 0 }

/-- the resolved node of a top-level scalar -/
def node (ex : Bytes) (rs : List Rule) : RNode :=
  { kind := .lit, children := [], keys := [], value := some ex, rules := rs }

/-! ### the spec of the written rules -/

def rawOf (p : Pair) : Option RulesF.RawRule :=
  if p.1 == sb "min" then some (.min p.2)
  else if p.1 == sb "max" then some (.max p.2)
  else if p.1 == sb "exclusiveMinimum" then (parseBool p.2).map .exclusiveMinimum
  else if p.1 == sb "exclusiveMaximum" then (parseBool p.2).map .exclusiveMaximum
  else if p.1 == sb "nullable" then (parseBool p.2).map .nullable
  else if p.1 == sb "const" then (parseBool p.2).map .const
  else if p.1 == sb "minLength" then (parseUint p.2).map .minLength
  else if p.1 == sb "maxLength" then (parseUint p.2).map .maxLength
  else if p.1 == sb "precision" then (parseUint p.2).map .precision
  else if p.1 == sb "type" then
    some (match fmtOfType (unq p.2) with | some f => .typeFmt f | none => .typeOther)
  else if p.1 == sb "enum" then (scalarItems p.2).map .enum
  else none

def kindOf (ex : Bytes) : Kind := (RulesF.kindOfTok ex).getD .n

/-- **the scalar node the written rules describe** -/
def specOfRules (ex : Bytes) (ps : List Pair) : RulesF.LitSpecF :=
  RulesF.compile (kindOf ex) ex (ps.filterMap rawOf)

/-! ### the stages' conditions -/

def isOk : Except Err Unit → Bool
  | .ok _ => true
  | .error _ => false

/-- `NewConstraintFromRule` + `AddConstraint` accept every rule, in written order -/
def okCreate (ps : List Pair) : Bool := isOk (createRules .lit [] (mk ps))

/-- `falseConstraints` -/
def filt (rs : List Rule) : List Rule :=
  rs.filter fun r => !((r.name == sb "nullable" || r.name == sb "const") && r.val.bind parseBool == some false)

def typeVal (frs : List Rule) : Option Bytes := (findRule frs "type").map fun t => unq (t.val.getD [])

def isPlainType (v : Bytes) : Bool :=
  v == sb "object" || v == sb "array" || v == sb "string" || v == sb "integer" || v == sb "float" || v == sb "boolean"
    || v == sb "null"

/-- `typeConstraint`: the value is a JSON kind name equal to the example's, `decimal` next to `precision` on a float,
or `uuid` / `date` on a string -/
def typeOK (frs : List Rule) (jt : JT) : Bool :=
  match typeVal frs with
  | none => true
  | some v =>
    !isUserTypeName v && !(v == sb "mixed") && !(v == sb "enum") && !(v == sb "any") &&
    (if v == sb "decimal" then hasRule frs "precision" && jt == .flt
     else if (fmtOfType v).isSome then
       (fmtOfType v == some .uuid || fmtOfType v == some .date) && jt == .str
         && !(hasRule frs "minLength" || hasRule frs "maxLength")
     else isPlainType v && v == jt.name)

/-- `precisionConstraint`: next to `precision` a `type` rule says `decimal` -/
def precOK (frs : List Rule) : Bool :=
  !hasRule frs "precision" ||
    (match findRule frs "type" with
     | some t => t.val.map unq == some (sb "decimal")
     | none => true)

def exMinOf (frs : List Rule) : Bool := boolRule frs "exclusiveMinimum" == some true
def exMaxOf (frs : List Rule) : Bool := boolRule frs "exclusiveMaximum" == some true

/-- `checkMinAndMax` -/
def minMaxOK (frs : List Rule) : Bool :=
  match findRule frs "min", findRule frs "max" with
  | some a, some b =>
    (match cmpNum (a.val.getD []) (b.val.getD []) with
     | some c => if exMinOf frs || exMaxOf frs then c == .lt else !(c == .gt)
     | none => true)
  | _, _ => true

/-- `checkMinLengthAndMaxLength` -/
def lenOK (frs : List Rule) : Bool :=
  match findRule frs "minLength", findRule frs "maxLength" with
  | some a, some b =>
    (match parseUint (a.val.getD []), parseUint (b.val.getD []) with
     | some x, some y => !decide (x > y)
     | _, _ => true)
  | _, _ => true

/-- `compileNode` raises nothing, and no constraint is left that the JSON type of the example does not admit -/
def okBasicR (rs : List Rule) (jt : JT) : Bool :=
  let frs := filt rs
  !hasRule frs "or" && !hasRule frs "enum" && !hasRule frs "optional" && !hasRule frs "additionalProperties"
    && precOK frs && typeOK frs jt
    && !(hasRule frs "exclusiveMinimum" && !hasRule frs "min")
    && !(hasRule frs "exclusiveMaximum" && !hasRule frs "max")
    && minMaxOK frs && lenOK frs && !(frs.any fun r => incompatible jt r.name)

def okBasic (ex : Bytes) (ps : List Pair) : Bool := okBasicR (mk ps) (JT.ofKind (kindOf ex))

/-- **the rule set passes the creation and the basic-compile stage** -/
def okRules (ex : Bytes) (ps : List Pair) : Bool :=
  (RulesF.kindOfTok ex).isSome && okCreate ps && okBasic ex ps

/-- the literal validators `compileNode` leaves, in written order; the format last -/
def litsOf (frs : List Rule) : List RulesF.Rule :=
  (frs.filterMap fun r =>
    let v := r.val.getD []
    if r.name == sb "min" then some (.min v (exMinOf frs))
    else if r.name == sb "max" then some (.max v (exMaxOf frs))
    else if r.name == sb "minLength" then (parseUint v).map .minLength
    else if r.name == sb "maxLength" then (parseUint v).map .maxLength
    else if r.name == sb "precision" then (parseUint v).map .precision
    else if r.name == sb "const" then some .const
    else if r.name == sb "enum" then (scalarItems v).map .enum
    else none) ++
  (match (typeVal frs).bind fmtOfType with | some f => [.fmt f] | none => [])

/-- the node `compileNode` makes, as the code computes it -/
def compiledOf (ex : Bytes) (rs : List Rule) : RulesF.LitSpecF :=
  { kind := kindOf ex, ex := ex, nul := hasRule (filt rs) "nullable", rules := litsOf (filt rs) }

/-! ### the closed form -/

/-- creation and `CompileBasic` on the one-node table of the pairs (positions 0) -/
def stages (ex : Bytes) (ps : List Pair) : Except Err CN :=
  match creation [node ex (mk ps)] with
  | .error e => .error e
  | .ok () =>
    match compileNode #[node ex (mk ps)] false 2 0 false with
    | .error e => .error e
    | .ok (cn, _) => .ok cn

/-- what the library answers for the schema `ex // {ps}` and the document token `doc` (white space around it):
the first failing stage's error, else the verdict of the compiled node -/
def closed (ex : Bytes) (ps : List Pair) (doc : Bytes) : E2E.Outcome :=
  match stages ex ps with
  | .error e => E2E.errOut e
  | .ok cn =>
    match check cn [] with
    | .error e => E2E.errOut e
    | .ok () =>
      match cn with
      | .lit _ _ => if RulesF.litOKFull noOracles (specOfRules ex ps) doc then .acc else .rej
      | .any _ _ => .acc                       -- `type: "any"`: outside the class of the theorems
      | _ => .unsupported "not a literal node"

end C02T
