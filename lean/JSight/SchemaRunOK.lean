import JSight.SchemaNextA
/-! `events` / `lengthLoop` / `scanAll` / `length` never crash, assuming `DispatchQ`. -/
namespace SchemaScan

/-- run invariant with a bound `m` on the number of `next` calls still needed -/
def RunInv (N : Nat) (s : Sc) (m : Nat) : Prop :=
  (Inv s ∧ s.index ≤ N ∧ Phi N s + 3 ≤ m) ∨
  (PB N s ∧ muB s.finds (s.stack.map (·.1)) + 1 ≤ m)

theorem next_run (hQ : DispatchQ) {data : Array Cls} {s : Sc} {m : Nat}
    (h : RunInv data.size s (m + 1)) :
    NPost (fun s' => RunInv data.size s' m) (next data (3 * data.size + 16) s) := by
  rcases h with ⟨hI, hidx, hm⟩ | ⟨hP, hm⟩
  · have := next_A hQ (3 * data.size + 16) s hI hidx (by omega)
    revert this
    cases next data (3 * data.size + 16) s with
    | error e => exact id
    | ok r =>
      cases r with
      | none => exact id
      | some r =>
        obtain ⟨s', e⟩ := r
        rintro (⟨h1, h2, h3⟩ | ⟨h1, h2⟩)
        · exact Or.inl ⟨h1, h2, by omega⟩
        · exact Or.inr ⟨h1, by omega⟩
  · have := next_B (fuel := 3 * data.size + 15) hP
    revert this
    cases next data (3 * data.size + 15 + 1) s with
    | error e => exact id
    | ok r =>
      cases r with
      | none => exact id
      | some r =>
        obtain ⟨s', e⟩ := r
        rintro ⟨h1, h2⟩
        exact Or.inr ⟨h1, by omega⟩

theorem RunInv.pos {N s} (h : RunInv N s 0) : False := by
  rcases h with ⟨_, _, h⟩ | ⟨_, h⟩ <;> omega

theorem events_ok (hQ : DispatchQ) {data : Array Cls} : ∀ (fuel : Nat) (s : Sc) (acc : List Ev),
    RunInv data.size s fuel → ∀ e, events data fuel s acc = .error e → e.isCrash = false := by
  intro fuel
  induction fuel with
  | zero => intro s acc h; exact absurd h.pos id
  | succ fuel ih =>
    intro s acc h e he
    have hn := next_run hQ h
    unfold events at he
    simp only [bind, Except.bind, pure, Except.pure] at he
    cases hnx : next data (3 * data.size + 16) s with
    | error e' =>
      rw [hnx] at hn he
      cases he
      exact hn
    | ok r =>
      rw [hnx] at hn he
      cases r with
      | none => cases he
      | some r =>
        obtain ⟨s', ev⟩ := r
        exact ih s' _ hn e he

theorem lengthLoop_ok (hQ : DispatchQ) {data : Array Cls} : ∀ (fuel : Nat) (s : Sc) (len : Nat),
    RunInv data.size s fuel → ∀ e, lengthLoop data fuel s len = .error e → e.isCrash = false := by
  intro fuel
  induction fuel with
  | zero => intro s acc h; exact absurd h.pos id
  | succ fuel ih =>
    intro s len h e he
    have hn := next_run hQ h
    unfold lengthLoop at he
    simp only [bind, Except.bind, pure, Except.pure] at he
    cases hnx : next data (3 * data.size + 16) s with
    | error e' =>
      rw [hnx] at hn he
      cases he
      exact hn
    | ok r =>
      rw [hnx] at hn he
      cases r with
      | none => cases he
      | some r =>
        obtain ⟨s', ev⟩ := r
        dsimp only at he
        split at he
        · cases he
        · exact ih s' _ hn e he

theorem Inv_init (lc : Bool) : Inv { lengthComputing := lc } :=
  ⟨[], ⟨rfl, rfl⟩, Good.foundRoot⟩

theorem RunInv_init (N : Nat) (lc : Bool) : RunInv N { lengthComputing := lc } (8 * N + 16) := by
  refine Or.inl ⟨Inv_init lc, Nat.zero_le _, ?_⟩
  show 8 * (N + 1 - 0) + 0 + 0 + 3 ≤ 8 * N + 16
  omega

/-- no-crash for all byte strings, modulo the frame property of `dispatch` -/
theorem scanAll_no_crash_of (hQ : DispatchQ) (bs : List UInt8) :
    ∀ e, scanAll bs = .error e → e.isCrash = false := by
  intro e he
  unfold scanAll at he
  exact events_ok hQ _ _ _ (RunInv_init _ false) e he

theorem length_no_crash_of (hQ : DispatchQ) (bs : List UInt8) :
    ∀ e, length bs = .error e → e.isCrash = false := by
  intro e he
  unfold length at he
  simp only [bind, Except.bind, pure, Except.pure] at he
  cases hl : lengthLoop (bs.map classify).toArray (8 * (bs.map classify).toArray.size + 16)
      { lengthComputing := true } 0 with
  | error e' =>
    rw [hl] at he
    have := lengthLoop_ok hQ _ _ _ (RunInv_init _ true) e' hl
    cases he
    exact this
  | ok n => rw [hl] at he; cases he

end SchemaScan
