import JSight.SchemaLenAnnObj
import JSight.CommentRun
/-!
C14, schemas with annotations and user comments: single-byte behaviour of the scanner model at the places between
tokens ("slots"), with the step FIELD of the state (`x`) independent of the state function that is run (`st`): after an
inline annotation with a note the step field is the closure `guard st`, which runs `st` on every byte but `/`.
-/
namespace SchemaScan
namespace Len

variable {lc : Bool} {data : Array Cls}

/-- the closure installed behind an inline annotation with a note passes every byte but `/` to the inner state -/
theorem guard_pass (f : Nat) (inner : St) (s : Sc) (c : Cls) (hc : c ≠ .slash) (p1 p2 : Option Cls) :
    dispatch (f + 1) (.guard inner) s c p1 p2 = dispatch f inner s c p1 p2 := by
  cases c <;> first | exact absurd rfl hc | ((conv => lhs; unfold dispatch); rfl)

/-- the step field after a line break: only `objKey` assigns a new one -/
def nlX : St → St → St | .objKey, _ => .objKeyAfterNL | _, x => x

theorem d_sp (f : Nat) (st : St) (h : wsLoop st = true) (c : Cls) (hc : c.isSpTab = true) (x : St)
    (K : List (LexT × Nat)) (i : Nat) (CS : List Ctx) (cx : Ctx) (al : Bool) (fs : List LexT) (p1 p2 : Option Cls) :
    dispatch (f + 1) st { cfgL lc x [] K false i CS cx al with finds := fs } c p1 p2
      = .ok { cfgL lc x [] K false i CS cx al with finds := fs } := by
  cases st <;> simp [wsLoop] at h <;> cases c <;> simp [Cls.isSpTab] at hc <;> (unfold dispatch; rfl)

theorem d_nl (f : Nat) (st : St) (h : wsLoop st = true) (x : St)
    (K : List (LexT × Nat)) (i : Nat) (CS : List Ctx) (cx : Ctx) (al : Bool) (fs : List LexT) (p1 p2 : Option Cls) :
    dispatch (f + 1) st { cfgL lc x [] K false i CS cx al with finds := fs } .nl p1 p2
      = .ok { cfgL lc (nlX st x) [] K false i CS cx (nlAl st al) with finds := fs ++ [.newLine] } := by
  cases st <;> simp [wsLoop] at h <;> (unfold dispatch; rfl)

theorem d_hash (f : Nat) (st : St) (h : cmtLoop st = true) (x : St)
    (K : List (LexT × Nat)) (i : Nat) (CS : List Ctx) (cx : Ctx) (al : Bool) (fs : List LexT) (p1 p2 : Option Cls) :
    dispatch (f + 1) st { cfgL lc x [] K false i CS cx al with finds := fs } .hash p1 p2
      = .ok { cfgL lc .anyCommentStart [x] K false i CS cx al with finds := fs } := by
  cases st <;> simp [cmtLoop] at h <;> (unfold dispatch; rfl)

/-- states in which `/` starts an annotation -/
def annLoop : St → Bool
  | .foundRoot | .objKeyOrEmpty | .objKey | .objValue | .arrItemOrEmpty | .arrItem
  | .afterKey | .afterValue | .afterItem | .endTop => true
  | _ => false

/-- the context record after `/` (`arrayHasItem`, F-13) -/
def cxA : St → Ctx → Ctx
  | .arrItemOrEmpty, cx => { cx with arrayHasItem := true }
  | _, cx => cx

theorem d_slash (f : Nat) (st : St) (h : annLoop st = true) (x : St)
    (K : List (LexT × Nat)) (i : Nat) (CS : List Ctx) (cx : Ctx) (fs : List LexT) (p1 p2 : Option Cls) :
    dispatch (f + 1) st { cfgL lc x [] K false i CS cx true with finds := fs } .slash p1 p2
      = .ok { cfgL lc .anyAnnStart [x] K false i CS (cxA st cx) true with finds := fs } := by
  cases st <;> simp [annLoop] at h <;> (unfold dispatch; rfl)

theorem d_sep (f : Nat) (ck : CK) (x : St)
    (K : List (LexT × Nat)) (i : Nat) (CS : List Ctx) (cx : Ctx) (al : Bool) (fs : List LexT) (p1 p2 : Option Cls) :
    dispatch (f + 1) ck.aft { cfgL lc x [] K false i CS cx al with finds := fs } ck.sep p1 p2
      = .ok { cfgL lc ck.nxt [] K false i CS cx al with finds := fs } := by
  cases ck <;> (unfold dispatch; rfl)

theorem d_rbrack (f : Nat) (x : St) (y : LexT × Nat)
    (K : List (LexT × Nat)) (i : Nat) (c0 : Ctx) (CS : List Ctx) (cx : Ctx) (al : Bool) (fs : List LexT) (p1 p2 : Option Cls) :
    dispatch (f + 1) .afterItem { cfgL lc x [] (y :: K) false i (c0 :: CS) cx al with finds := fs } .rbrack p1 p2
      = .ok { cfgL lc .endValue [] (y :: K) false i CS c0 (!cx.arrayHasItem) with finds := fs ++ [.arrE] } := by
  unfold dispatch; rfl

theorem d_rbrace (f : Nat) (x : St)
    (K : List (LexT × Nat)) (i : Nat) (c0 : Ctx) (CS : List Ctx) (cx : Ctx) (al : Bool) (fs : List LexT) (p1 p2 : Option Cls) :
    dispatch (f + 1) .afterValue { cfgL lc x [] K false i (c0 :: CS) cx al with finds := fs } .rbrace p1 p2
      = .ok { cfgL lc .endValue [] K false i CS c0 al with finds := fs ++ [.objE] } := by
  unfold dispatch; rfl

theorem d_scalar (f : Nat) (c : Cls) (st0 : St) (u0 : Bool) (h : litStart c = some (st0, u0)) (ctx : VCtx) (x : St)
    (K : List (LexT × Nat)) (i : Nat) (CS : List Ctx) (cx : Ctx) (al : Bool) (p1 p2 : Option Cls) :
    dispatch (f + 1) ctx.st (cfgL lc x [] K false i CS cx al) c p1 p2
      = .ok { cfgL lc st0 [] K u0 i CS (ctx.cx' cx) al with finds := ctx.preTys ++ [.litB] } := by
  cases c <;> simp [litStart] at h <;> obtain ⟨rfl, rfl⟩ := h <;> cases ctx <;> (unfold dispatch; rfl)

theorem d_array (f : Nat) (ctx : VCtx) (x : St)
    (K : List (LexT × Nat)) (i : Nat) (CS : List Ctx) (cx : Ctx) (al : Bool) (p1 p2 : Option Cls) :
    dispatch (f + 1) ctx.st (cfgL lc x [] K false i CS cx al) .lbrack p1 p2
      = .ok { cfgL lc .arrItemOrEmpty [] K false i (ctx.cx' cx :: CS) { ty := .array } al with
                finds := ctx.preTys ++ [.arrB] } := by
  cases ctx <;> (unfold dispatch; rfl)

theorem d_object (f : Nat) (ctx : VCtx) (x : St)
    (K : List (LexT × Nat)) (i : Nat) (CS : List Ctx) (cx : Ctx) (al : Bool) (p1 p2 : Option Cls) :
    dispatch (f + 1) ctx.st (cfgL lc x [] K false i CS cx al) .lbrace p1 p2
      = .ok { cfgL lc .objKeyOrEmpty [] K false i (ctx.cx' cx :: CS) { ty := .object } al with
                finds := ctx.preTys ++ [.objB] } := by
  cases ctx <;> (unfold dispatch; rfl)

theorem d_key (f : Nat) (st : St) (h : keySt st = true) (x : St)
    (K : List (LexT × Nat)) (i : Nat) (CS : List Ctx) (cx : Ctx) (al : Bool) (p1 p2 : Option Cls) :
    dispatch (f + 1) st (cfgL lc x [] K false i CS cx al) .quote p1 p2
      = .ok { cfgL lc .inString [] K false i CS cx (keyAl st al) with finds := [.keyB] } := by
  cases st <;> simp [keySt] at h <;> (unfold dispatch; rfl)

theorem d_empty_arr (f : Nat) (x : St) (y : LexT × Nat)
    (K : List (LexT × Nat)) (i : Nat) (c0 : Ctx) (CS : List Ctx) (cx : Ctx) (al : Bool) (p1 p2 : Option Cls) :
    dispatch (f + 1) .arrItemOrEmpty (cfgL lc x [] (y :: K) false i (c0 :: CS) cx al) .rbrack p1 p2
      = .ok { cfgL lc .endValue [] (y :: K) false i CS c0 (!cx.arrayHasItem) with finds := [.arrE] } := by
  unfold dispatch; rfl

theorem d_empty_obj (f : Nat) (x : St)
    (K : List (LexT × Nat)) (i : Nat) (c0 : Ctx) (CS : List Ctx) (cx : Ctx) (al : Bool) (p1 p2 : Option Cls) :
    dispatch (f + 1) .objKeyOrEmpty (cfgL lc x [] K false i (c0 :: CS) cx al) .rbrace p1 p2
      = .ok { cfgL lc .endValue [] K false i CS c0 true with finds := [.objE] } := by
  unfold dispatch; rfl

end Len
end SchemaScan
