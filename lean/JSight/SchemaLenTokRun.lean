import JSight.SchemaLenTokStep
/-!
C14, schemas with annotations and user comments: `#` line comments and inline annotations as `Path`s, for an arbitrary
`lengthComputing` flag, from ANY state that was pushed on the return stack (`r0`) and with any lexeme stack.
-/
namespace SchemaScan
namespace Len

variable {lc : Bool} {data : Array Cls}

/-- the step function at a place between tokens: `guard st` behind an inline annotation with a note -/
def gst : Bool → St → St | true, st => .guard st | false, st => st

theorem gdispatch (g : Bool) (st : St) (s s1 : Sc) (c : Cls) (hc : c ≠ .slash) (p1 p2 : Option Cls)
    (h : ∀ f, dispatch (f + 1) st s c p1 p2 = .ok s1) : dispatch 8 (gst g st) s c p1 p2 = .ok s1 := by
  cases g
  · exact h 7
  · exact (guard_pass 7 st s c hc p1 p2).trans (h 6)

/-- one byte is read and queues at least one lexeme: `Next()` returns it at once, wherever the index is left -/
theorem Path.emit1 {s s1 s2 : Sc} {c : Cls} {t : LexT} {rest : List LexT} {e : Ev}
    (hf : s.finds = []) (hc : data[s.index]? = some c)
    (hd : dispatch 8 s.step { s with index := s.index + 1 } c data[s.index + 1]? data[s.index + 1 + 1]? = .ok s1)
    (h1 : s1.finds = t :: rest) (hp : processFound data { s1 with finds := rest } t = .ok (s2, e)) :
    Path data s [e] s2 := by
  obtain ⟨hlt, hget⟩ := Array.getElem?_eq_some_iff.mp hc
  have hbang : data[s.index]! = c := by rw [getElem!_pos data s.index hlt]; exact hget
  have hn : NextOk data s (some (s2, e)) := by
    refine ⟨1, by omega, ?_⟩
    rw [next_succ]
    unfold nextBody
    have hs : shiftFound data s = .ok none := by unfold shiftFound; rw [hf]; rfl
    rw [hs]
    simp only [hlt, if_true, hbang, hd]
    have hs1 : shiftFound data s1 = .ok (some (s2, e)) := by
      unfold shiftFound
      rw [h1]
      simp only [bind, Except.bind, hp]
      rfl
    rw [hs1]
  exact Path.ev hn (Path.refl _)

/-! ### `#` line comments -/

theorem acs_text (f : Nat) (c : Cls) (hh : c ≠ .hash) (hn : c ≠ .nl) (r : List St)
    (K : List (LexT × Nat)) (i : Nat) (CS : List Ctx) (cx : Ctx) (al : Bool) (p1 p2 : Option Cls) :
    dispatch (f + 1) .anyCommentStart (cfgL lc .anyCommentStart r K false i CS cx al) c p1 p2
      = .ok (cfgL lc .inlineComment r K false i CS cx al) := by
  cases c <;> first | exact absurd rfl hh | exact absurd rfl hn | (unfold dispatch; rfl)

theorem acs_nl (f : Nat) (r0 : St) (rs : List St)
    (K : List (LexT × Nat)) (j : Nat) (CS : List Ctx) (cx : Ctx) (al : Bool) (p1 p2 : Option Cls) :
    dispatch (f + 1) .anyCommentStart (cfgL lc .anyCommentStart (r0 :: rs) K false (j + 1) CS cx al) .nl p1 p2
      = .ok { cfgL lc r0 rs K false j CS cx al with finds := [.newLine] } := by
  unfold dispatch; rfl

theorem inl_text (f : Nat) (c : Cls) (hn : c ≠ .nl) (r : List St)
    (K : List (LexT × Nat)) (i : Nat) (CS : List Ctx) (cx : Ctx) (al : Bool) (p1 p2 : Option Cls) :
    dispatch (f + 1) .inlineComment (cfgL lc .inlineComment r K false i CS cx al) c p1 p2
      = .ok (cfgL lc .inlineComment r K false i CS cx al) := by
  cases c <;> first | exact absurd rfl hn | (unfold dispatch; rfl)

theorem inl_nl (f : Nat) (r0 : St) (rs : List St)
    (K : List (LexT × Nat)) (j : Nat) (CS : List Ctx) (cx : Ctx) (al : Bool) (p1 p2 : Option Cls) :
    dispatch (f + 1) .inlineComment (cfgL lc .inlineComment (r0 :: rs) K false (j + 1) CS cx al) .nl p1 p2
      = .ok { cfgL lc r0 rs K false j CS cx al with finds := [.newLine] } := by
  unfold dispatch; rfl

/-- the text of a line comment after its first byte, up to the line break (which is left unread) -/
theorem inl_run : ∀ (text : List Cls), (∀ c ∈ text, c ≠ .nl) → ∀ (r0 : St)
    (K : List (LexT × Nat)) (m : Nat) (CS : List Ctx) (cx : Ctx) (al : Bool), At data (m + 1) (text ++ [.nl]) →
    Path data (cfgL lc .inlineComment [r0] K false (m + 1) CS cx al) [⟨.newLine, m + text.length, m + text.length⟩]
      (cfgL lc r0 [] K false (m + 1 + text.length) CS cx al)
  | [], _, r0, K, m, CS, cx, al, hat => by
    have hc : data[m + 1]? = some .nl := hat.1
    exact Path.emit1 (s := cfgL lc .inlineComment [r0] K false (m + 1) CS cx al) rfl hc
      (inl_nl 7 r0 [] K (m + 1) CS cx al _ _) rfl rfl
  | c :: cs, hne, r0, K, m, CS, cx, al, hat => by
    obtain ⟨hc, hat'⟩ := hat
    have h1 : Path data (cfgL lc .inlineComment [r0] K false (m + 1) CS cx al) []
        (cfgL lc .inlineComment [r0] K false (m + 1 + 1) CS cx al) :=
      cfg_byte hc (fun p1 p2 => inl_text 7 c (hne c (by simp)) [r0] K (m + 1 + 1) CS cx al p1 p2) rfl rfl
    have h2 := inl_run cs (fun x hx => hne x (by simp [hx])) r0 K (m + 1) CS cx al hat'
    have := Path.trans h1 h2
    simp only [List.nil_append, List.length_cons] at this ⊢
    rw [show m + (cs.length + 1) = m + 1 + cs.length by omega, show m + 1 + (cs.length + 1) = m + 1 + 1 + cs.length by omega]
    exact this

/-- a line comment behind its `#` (at offset `h`): one `newLine`, the state is restored, the line break is unread -/
theorem cmt_line_run (text : List Cls) (hne : ∀ c ∈ text, c ≠ .nl) (hh : text.head? ≠ some .hash) (r0 : St)
    (K : List (LexT × Nat)) (h : Nat) (CS : List Ctx) (cx : Ctx) (al : Bool) (hat : At data (h + 1) (text ++ [.nl])) :
    Path data (cfgL lc .anyCommentStart [r0] K false (h + 1) CS cx al) [⟨.newLine, h + text.length, h + text.length⟩]
      (cfgL lc r0 [] K false (h + 1 + text.length) CS cx al) := by
  cases text with
  | nil =>
    have hc : data[h + 1]? = some .nl := hat.1
    exact Path.emit1 (s := cfgL lc .anyCommentStart [r0] K false (h + 1) CS cx al) rfl hc
      (acs_nl 7 r0 [] K (h + 1) CS cx al _ _) rfl rfl
  | cons c cs =>
    obtain ⟨hc, hat'⟩ := hat
    have hch : c ≠ .hash := by intro e; subst e; simp at hh
    have h1 : Path data (cfgL lc .anyCommentStart [r0] K false (h + 1) CS cx al) []
        (cfgL lc .inlineComment [r0] K false (h + 1 + 1) CS cx al) :=
      cfg_byte hc (fun p1 p2 => acs_text 7 c hch (hne c (by simp)) [r0] K (h + 1 + 1) CS cx al p1 p2) rfl rfl
    have h2 := inl_run (lc := lc) cs (fun x hx => hne x (by simp [hx])) r0 K (h + 1) CS cx al hat'
    have := Path.trans h1 h2
    simp only [List.nil_append, List.length_cons] at this ⊢
    rw [show h + (cs.length + 1) = h + 1 + cs.length by omega, show h + 1 + (cs.length + 1) = h + 1 + 1 + cs.length by omega]
    exact this

end Len
end SchemaScan
