import JSight.DocCursorFuel
import JSight.DocCursorThm
import JSight.TreeEvents
import JSight.JsonBridge
/-!
Link of the incremental `Document` scanner (`DocCursor.Scn.next`) to the whole-text scanner model (`JsonScan.events`,
the model of C05 / C06 / C07 / C14 / C17) on ACCEPTED texts: when `events o t = .ok evs`, the deliveries of a fresh
document are exactly `evs`, `checkText` is `OK` / `Empty JSON` and `lenText` is `lengthS`.
-/
namespace DocCursor
open JsonScan

def pre (acc : List Ev) (r : List (LexT × Nat) × List Ev × Bool) : List (LexT × Nat) × List Ev × Bool :=
  (r.1, acc.reverse ++ r.2.1, r.2.2)

theorem applyFindsS_acc (i : Nat) : ∀ (fs : List LexT) (S : List (LexT × Nat)) (acc : List Ev),
    applyFindsS i S fs acc = (applyFindsS i S fs []).map (pre acc) := by
  intro fs
  induction fs with
  | nil => intro S acc; simp [applyFindsS, Except.map, pre]
  | cons f fs ih =>
    intro S acc
    unfold applyFindsS
    split
    · simp [Except.map, pre]
    · split
      · rw [ih _ (_ :: acc), ih _ [_]]
        cases applyFindsS i ((f, i) :: S) fs [] <;> simp [Except.map, pre]
      · cases S with
        | nil => simp [Except.map]
        | cons p rest =>
          obtain ⟨p, b⟩ := p
          simp only
          split
          · rw [ih _ (_ :: acc), ih _ [_]]
            cases applyFindsS i rest fs [] <;> simp [Except.map, pre]
          · split
            · rw [ih _ (_ :: acc), ih _ [_]]
              cases applyFindsS i rest fs [] <;> simp [Except.map, pre]
            · simp [Except.map]

/-- the rest of the whole-text scan behind the finds of the current byte -/
def fin (cls : List Cls) (a : Bool) (idx : Nat) (st : St) (unf : Bool) :
    Except ErrS (List (LexT × Nat) × List Ev × Bool) → Except ErrS (List Ev)
  | .error e => .error e
  | .ok (stk, evs, stop) =>
    if stop then .ok evs else (evsFrom a cls.length (cls.drop idx) idx ⟨st, stk, unf⟩).map (evs ++ ·)

/-- what is still to come from a scanner state, by the whole-text model -/
def rem (cls : List Cls) (s : Scn) : Except ErrS (List Ev) :=
  fin cls s.allow s.index s.st s.unf (applyFindsS (s.index - 1) s.stack s.finds [])

theorem fin_pre (cls : List Cls) (a : Bool) (idx : Nat) (st : St) (unf : Bool) (ev : Ev)
    (X : Except ErrS (List (LexT × Nat) × List Ev × Bool)) :
    fin cls a idx st unf (X.map (pre [ev])) = (fin cls a idx st unf X).map (ev :: ·) := by
  cases X with
  | error e => rfl
  | ok r =>
    obtain ⟨stk, evs, stop⟩ := r
    simp only [Except.map, pre, fin, List.reverse_cons, List.reverse_nil, List.nil_append]
    split
    · rfl
    · cases evsFrom a cls.length (cls.drop idx) idx ⟨st, stk, unf⟩ <;> simp [Except.map]

def WF (n : Nat) (s : Scn) : Prop := s.index ≤ n ∨ (s.stack = [] ∧ s.finds = [])

/-- one delivery against the model's remaining events -/
def Spec (cls : List Cls) (L : List Ev) (r : NextRes × Scn) : Prop :=
  match r.1 with
  | .lex ev => ev.ty ≠ .endTop ∧ ∃ L', L = ev :: L' ∧ rem cls r.2 = .ok L' ∧ WF cls.length r.2
  | .eofLex ev => ev.ty = .endTop ∧ L = [ev]
  | .eof => L = []
  | _ => False

theorem map_ok {x : Except ErrS (List Ev)} {ev : Ev} {L : List Ev} (h : x.map (ev :: ·) = .ok L) :
    ∃ L', L = ev :: L' ∧ x = .ok L' := by
  cases x with
  | error e => simp [Except.map] at h
  | ok M => simp [Except.map] at h; exact ⟨M, h.symm, rfl⟩

theorem spec_found (cls : List Cls) (s : Scn) (f : LexT) (rest : List LexT) (hf : s.finds = f :: rest)
    (L : List Ev) (hL : rem cls s = .ok L) (hw : WF cls.length s) :
    Spec cls L (processFound { s with finds := rest } f) := by
  have hi : s.index ≤ cls.length := by
    rcases hw with h | ⟨_, h⟩
    · exact h
    · rw [hf] at h; cases h
  unfold rem at hL
  rw [hf] at hL
  unfold applyFindsS at hL
  unfold processFound
  simp only
  by_cases h1 : (f == .endTop) = true
  · simp only [h1, Bool.false_eq_true, ↓reduceIte] at hL ⊢
    simp only [fin, if_true, List.reverse_cons, List.reverse_nil, List.nil_append] at hL
    cases hL
    have : f = .endTop := by simpa using h1
    exact ⟨rfl, rfl⟩
  · have hne : f ≠ .endTop := by simpa using h1
    simp only [h1, Bool.false_eq_true, ↓reduceIte] at hL ⊢
    by_cases h2 : f.isOpening = true
    · simp only [h2, Bool.false_eq_true, ↓reduceIte] at hL ⊢
      rw [applyFindsS_acc, fin_pre] at hL
      obtain ⟨L', e1, e2⟩ := map_ok hL
      exact ⟨hne, L', e1, e2, Or.inl hi⟩
    · simp only [h2, Bool.false_eq_true, ↓reduceIte] at hL ⊢
      cases hs : s.stack with
      | nil => rw [hs] at hL; simp [fin] at hL
      | cons p S =>
        obtain ⟨p, b⟩ := p
        rw [hs] at hL
        simp only at hL ⊢
        by_cases h3 : ((p == .objB && f == .objE) || (p == .arrB && f == .arrE)) = true
        · simp only [h3, Bool.false_eq_true, ↓reduceIte] at hL ⊢
          rw [applyFindsS_acc, fin_pre] at hL
          obtain ⟨L', e1, e2⟩ := map_ok hL
          exact ⟨hne, L', e1, e2, Or.inl hi⟩
        · simp only [h3, Bool.false_eq_true, ↓reduceIte] at hL ⊢
          by_cases h4 : pairs p f = true
          · simp only [h4, Bool.false_eq_true, ↓reduceIte] at hL ⊢
            rw [applyFindsS_acc, fin_pre] at hL
            obtain ⟨L', e1, e2⟩ := map_ok hL
            exact ⟨hne, L', e1, e2, Or.inl hi⟩
          · simp only [h4, Bool.false_eq_true, ↓reduceIte] at hL
            simp [fin] at hL

theorem rem_nofinds (cls : List Cls) (s : Scn) (hf : s.finds = []) :
    rem cls s = evsFrom s.allow cls.length (cls.drop s.index) s.index ⟨s.st, s.stack, s.unf⟩ := by
  unfold rem
  rw [hf]
  simp only [applyFindsS, fin, List.reverse_nil, Bool.false_eq_true, ↓reduceIte]
  exact map_append_nil _

theorem spec_atEnd (cls : List Cls) (s : Scn) (hf : s.finds = []) (hd : cls.length ≤ s.index)
    (L : List Ev) (hL : rem cls s = .ok L) (hw : WF cls.length s) : Spec cls L (atEnd cls.length s) := by
  rw [rem_nofinds cls s hf, List.drop_eq_nil_of_le hd] at hL
  unfold evsFrom at hL
  cases hs : s.stack with
  | nil =>
    rw [hs] at hL; simp only at hL; cases hL
    have heq : atEnd cls.length s = (.eof, s) := by simp [atEnd, hs]
    rw [heq]; exact rfl
  | cons pb rest =>
    obtain ⟨p, b⟩ := pb
    have hidx : s.index = cls.length := by
      rcases hw with h | ⟨h, _⟩
      · omega
      · rw [hs] at h; cases h
    rw [hs] at hL
    cases rest with
    | cons q r => cases p <;> simp at hL
    | nil =>
      cases p <;> simp only at hL <;> try (simp at hL; done)
      cases hu : s.unf with
      | true => rw [hu] at hL; simp at hL
      | false =>
        rw [hu] at hL
        simp only [Bool.false_eq_true, ↓reduceIte] at hL
        cases hL
        have heq : atEnd cls.length s =
            (.lex ⟨.litE, b, s.index + 1 - 1 - 1⟩, { s with index := s.index + 1, stack := [] }) := by
          simp [atEnd, hs, hu, processFound, LexT.isOpening, pairs]
        rw [heq]
        refine ⟨by simp, [], ?_, ?_, Or.inr ⟨rfl, hf⟩⟩
        · simp [hidx]
        · rw [rem_nofinds cls { s with index := s.index + 1, stack := [] } hf,
            List.drop_eq_nil_of_le (by simp only; omega)]
          simp [evsFrom]

theorem spec_scanLoop (cls : List Cls) (fuel : Nat) : ∀ s : Scn, s.finds = [] → cls.length - s.index ≤ fuel →
    ∀ L, rem cls s = .ok L → WF cls.length s → Spec cls L (scanLoop cls fuel s) := by
  induction fuel with
  | zero =>
    intro s hf hfu L hL hw
    simp only [scanLoop]
    exact spec_atEnd cls s hf (by omega) L hL hw
  | succ fu ih =>
    intro s hf hfu L hL hw
    simp only [scanLoop]
    cases hc : cls[s.index]? with
    | none =>
      simp only
      exact spec_atEnd cls s hf (by simpa using hc) L hL hw
    | some c =>
      simp only
      have hlt : s.index < cls.length := (List.getElem?_eq_some_iff.mp hc).1
      have hce : cls[s.index] = c := (List.getElem?_eq_some_iff.mp hc).2
      have hdrop : cls.drop s.index = c :: cls.drop (s.index + 1) := by
        rw [List.drop_eq_getElem_cons hlt, hce]
      rw [rem_nofinds cls s hf, hdrop] at hL
      unfold evsFrom at hL
      cases hst : step s.allow s.st (s.stack.map (·.1)) s.unf c with
      | error e => rw [hst] at hL; simp at hL
      | ok r =>
        obtain ⟨st', unf', fs⟩ := r
        rw [hst] at hL
        simp only at hL ⊢
        cases fs with
        | nil =>
          simp only
          refine ih { s with index := s.index + 1, st := st', unf := unf' } hf (by simp only; omega) L ?_
            (Or.inl (by simp only; omega))
          rw [rem_nofinds cls { s with index := s.index + 1, st := st', unf := unf' } hf]
          simp only [applyFindsS, List.reverse_nil, Bool.false_eq_true, ↓reduceIte] at hL
          rw [map_append_nil] at hL
          exact hL
        | cons f rest =>
          simp only
          have hr : rem cls { s with index := s.index + 1, st := st', unf := unf', finds := f :: rest } = .ok L := by
            rw [← hL]
            unfold rem fin
            simp only [Nat.add_sub_cancel]
            cases applyFindsS s.index s.stack (f :: rest) [] <;> rfl
          exact spec_found cls { s with index := s.index + 1, st := st', unf := unf', finds := f :: rest } f rest rfl L hr
            (Or.inl (by simp only; omega))

theorem spec_next (cls : List Cls) (s : Scn) (L : List Ev) (hL : rem cls s = .ok L) (hw : WF cls.length s) :
    Spec cls L (s.next cls) := by
  unfold Scn.next
  split
  · rename_i f rest hf
    exact spec_found cls s f rest hf L hL hw
  · rename_i hf
    exact spec_scanLoop cls _ s hf (Nat.le_refl _) L hL hw

theorem checkLoop_ok (cls : List Cls) (fuel : Nat) : ∀ (s : Scn) (seen : Bool) (L : List Ev),
    mu cls.length s < fuel → WF cls.length s → rem cls s = .ok L →
    checkLoop cls fuel s seen = if seen || !(nonTop L).isEmpty then .ok else .err 203 0 := by
  induction fuel with
  | zero => intro s seen L h; omega
  | succ f ih =>
    intro s seen L hmu hw hL
    have hsp := spec_next cls s L hL hw
    simp only [checkLoop]
    cases hn : s.next cls with
    | mk r s' =>
      rw [hn] at hsp
      cases r with
      | lex ev =>
        obtain ⟨hne, L', e1, e2, hw'⟩ := hsp
        have h1 : (s.next cls).1 = .lex ev := by rw [hn]
        have h2 := next_lex h1
        rw [hn] at h2
        simp only
        rw [ih s' true L' (by simp only at h2; omega) hw' e2, e1]
        have : (ev.ty != .endTop) = true := by simpa using hne
        simp [nonTop, List.filter_cons, this]
      | eofLex ev =>
        obtain ⟨ht, e1⟩ := hsp
        simp only
        rw [e1]
        simp [nonTop, List.filter_cons, ht]
      | eof =>
        have e1 : L = [] := hsp
        simp only
        rw [e1]
        simp [nonTop]
      | err c p => exact absurd hsp id
      | crash w => exact absurd hsp id

def lenStep (_ : Nat) (e : Ev) : Nat := if e.ty == .endTop then e.e else e.e + 1

theorem lenLoop_ok (cls : List Cls) (fuel : Nat) : ∀ (s : Scn) (len : Nat) (L : List Ev),
    mu cls.length s < fuel → WF cls.length s → rem cls s = .ok L →
    lenLoop cls fuel s len = .ok (L.foldl lenStep len) := by
  induction fuel with
  | zero => intro s len L h; omega
  | succ f ih =>
    intro s len L hmu hw hL
    have hsp := spec_next cls s L hL hw
    simp only [lenLoop]
    cases hn : s.next cls with
    | mk r s' =>
      rw [hn] at hsp
      cases r with
      | lex ev =>
        obtain ⟨hne, L', e1, e2, hw'⟩ := hsp
        have h1 : (s.next cls).1 = .lex ev := by rw [hn]
        have h2 := next_lex h1
        rw [hn] at h2
        simp only
        rw [ih s' _ L' (by simp only at h2; omega) hw' e2, e1]
        have : (ev.ty == .endTop) = false := by simpa using hne
        simp [lenStep, this]
      | eofLex ev =>
        obtain ⟨ht, e1⟩ := hsp
        simp only
        rw [e1]
        simp [lenStep, ht]
      | eof =>
        have e1 : L = [] := hsp
        simp only
        rw [e1]
        simp
      | err c p => exact absurd hsp id
      | crash w => exact absurd hsp id

theorem rem_init (t : List UInt8) (o : Bool) : rem (clsOf t) { allow := o } = events o t := by
  rw [rem_nofinds _ _ rfl]
  unfold events
  rw [eventsLoop_eq, map_append_nil]
  simp [clsOf]

/-- accepted texts: `Check` of a fresh document is the whole-text model's `checkS` -/
theorem checkText_of_events (t : List UInt8) (o : Bool) (evs : List Ev) (h : events o t = .ok evs) :
    checkText t o = if (nonTop evs).isEmpty then .err 203 0 else .ok := by
  rw [checkText_eq, checkLoop_ok (clsOf t) (fuelOf t) { allow := o } false evs (by simp [mu, clsOf, fuelOf])
    (Or.inl (Nat.zero_le _)) (by rw [rem_init]; exact h)]
  cases (nonTop evs).isEmpty <;> simp

/-- accepted texts: `Len` of a fresh document is the whole-text model's `lengthS` -/
theorem lenText_of_lengthS (t : List UInt8) (o : Bool) (n : Nat) (h : lengthS o t = .ok n) :
    lenText t o = .ok n := by
  unfold lengthS at h
  cases he : events o t with
  | error e => rw [he] at h; simp at h
  | ok evs =>
    rw [he] at h
    simp only at h
    rw [lenText_eq, lenLoop_ok (clsOf t) (fuelOf t) { allow := o } 0 evs (by simp [mu, clsOf, fuelOf])
      (Or.inl (Nat.zero_le _)) (by rw [rem_init]; exact he)]
    simp only
    cases h
    rfl

/-- the deliveries that a list of events stands for: `EndTop` comes with EOF and ends the list, plain EOF otherwise -/
def conv : List Ev → List NextRes
  | [] => [.eof]
  | e :: es => if e.ty == .endTop then [.eofLex e] else .lex e :: conv es

theorem nextL_of_none (cls : List Cls) (p : Rd) (hp : p.2 = none) (x : NextRes) (s' : Scn)
    (hn : p.1.next cls = (x, s')) (hx : ∀ c q, x ≠ .err c q) : nextL cls p = (x, (s', none)) := by
  obtain ⟨sc, le⟩ := p
  simp only at hp hn
  subst hp
  simp only [nextL, hn]

theorem stream_of_rem (t : List UInt8) (o : Bool) : ∀ (L : List Ev) (k : Nat),
    rem (clsOf t) (scanAt t o k).1 = .ok L → WF (clsOf t).length (scanAt t o k).1 → (scanAt t o k).2 = none →
    (List.range' k (conv L).length).map (lexAt t o) = conv L := by
  intro L
  induction L with
  | nil =>
    intro k hL hw hnone
    have hsp := spec_next (clsOf t) (scanAt t o k).1 [] hL hw
    unfold Spec at hsp
    cases hn : (scanAt t o k).1.next (clsOf t) with
    | mk r s' =>
      rw [hn] at hsp
      cases r with
      | lex ev => obtain ⟨_, L', e1, _⟩ := hsp; cases e1
      | eofLex ev => obtain ⟨_, e1⟩ := hsp; cases e1
      | eof =>
        have := nextL_of_none _ _ hnone _ _ hn (by intro c q h; cases h)
        simp [conv, lexAt, this]
      | err c p => exact absurd hsp id
      | crash w => exact absurd hsp id
  | cons e es ih =>
    intro k hL hw hnone
    have hsp := spec_next (clsOf t) (scanAt t o k).1 (e :: es) hL hw
    unfold Spec at hsp
    cases hn : (scanAt t o k).1.next (clsOf t) with
    | mk r s' =>
      rw [hn] at hsp
      cases r with
      | lex ev =>
        obtain ⟨hne, L', e1, e2, hw'⟩ := hsp
        cases e1
        have hnl := nextL_of_none _ _ hnone _ _ hn (by intro c q h; cases h)
        have hs' : scanAt t o (k + 1) = (s', none) := by simp [scanAt, hnl]
        have hb : (e.ty == .endTop) = false := by simpa using hne
        have := ih (k + 1) (by rw [hs']; exact e2) (by rw [hs']; exact hw') (by rw [hs'])
        simp only [conv, hb, Bool.false_eq_true, ↓reduceIte, List.length_cons, List.range'_succ, List.map_cons, this]
        simp [lexAt, hnl]
      | eofLex ev =>
        obtain ⟨ht, e1⟩ := hsp
        cases e1
        have hnl := nextL_of_none _ _ hnone _ _ hn (by intro c q h; cases h)
        simp [conv, ht, lexAt, hnl]
      | eof => cases hsp
      | err c p => exact absurd hsp id
      | crash w => exact absurd hsp id

/-- accepted texts: the deliveries of a fresh document are the events of the whole-text model -/
theorem scanAll_of_events (t : List UInt8) (o : Bool) (evs : List Ev) (h : events o t = .ok evs) :
    scanAll t o (conv evs).length = conv evs := by
  have := stream_of_rem t o evs 0 (by rw [← h]; exact rem_init t o) (Or.inl (Nat.zero_le _)) rfl
  unfold scanAll
  rw [List.range_eq_range']
  exact this

theorem conv_no_crash : ∀ (L : List Ev) (x : NextRes), x ∈ conv L → ∀ w, x ≠ .crash w := by
  intro L
  induction L with
  | nil => intro x hx w; simp [conv] at hx; subst hx; exact fun e => nomatch e
  | cons e es ih =>
    intro x hx w
    unfold conv at hx
    split at hx
    · simp at hx; subst hx; exact fun e => nomatch e
    · rcases List.mem_cons.mp hx with h | h
      · subst h; exact fun e => nomatch e
      · exact ih x h w

/-- accepted texts: no delivery up to and including the end of the stream is a panic -/
theorem lexAt_no_crash_of_events (t : List UInt8) (o : Bool) (evs : List Ev) (h : events o t = .ok evs)
    (k : Nat) (hk : k < (conv evs).length) (w : String) : lexAt t o k ≠ .crash w := by
  have hs := scanAll_of_events t o evs h
  have hm : lexAt t o k ∈ conv evs := by
    rw [← hs]
    unfold scanAll
    exact List.mem_map.mpr ⟨k, List.mem_range.mpr hk, rfl⟩
  exact conv_no_crash evs _ hm w

theorem checkText_no_crash_of_events (t : List UInt8) (o : Bool) (evs : List Ev) (h : events o t = .ok evs) :
    ∀ w, checkText t o ≠ .crash w := by
  intro w
  rw [checkText_of_events t o evs h]
  split <;> exact fun e => nomatch e

theorem lenText_no_crash_of_events (t : List UInt8) (o : Bool) (evs : List Ev) (h : events o t = .ok evs) :
    ∀ w, lenText t o ≠ .crash w := by
  intro w
  have : lengthS o t = .ok (trimBlank t.toArray (evs.foldl (fun _ e => if e.ty == .endTop then e.e else e.e + 1) 0)) := by
    unfold lengthS; rw [h]
  rw [lenText_of_lengthS t o _ this]
  exact fun e => nomatch e

end DocCursor
