import JSight.SchemaLeafA
/-! Transitions that read the not-yet-updated stack: object end, array end, type-shortcut end. -/
namespace SchemaScan

def lastObjAnn (S : List LexT) : Option LexT :=
  let isAnn (t : Option LexT) := t == some .inlAnnB || t == some .mlAnnB
  if S[0]? == some .tsB && S[1]? == some .mixB && S[2]? == some .valB && S[3]? == some .objB && isAnn S[4]? then S[4]?
  else if S[0]? == some .litB && S[1]? == some .valB && S[2]? == some .objB && isAnn S[3]? then S[3]?
  else if S[0]? == some .valB && S[1]? == some .objB && isAnn S[2]? then S[2]?
  else if S[0]? == some .objB && isAnn S[1]? then S[1]?
  else none

theorem isFoundLast_eq (s : Sc) :
    isFoundLastObjectEndOnAnnotation s = lastObjAnn (s.stack.map (·.1)) := by
  unfold isFoundLastObjectEndOnAnnotation lastObjAnn stackTy
  simp only [List.getElem?_map]

/-- soundness of the stack pattern used at an object end: a reported marker really lies under the object -/
def PatOK (S V : List LexT) : Prop :=
  ∀ m, lastObjAnn S = some m → m.isMarker = true ∧ ∃ σ, V = m :: σ

theorem patOK0 (V) : PatOK (.objB :: V) V := by
  intro m h
  cases V with
  | nil => simp [lastObjAnn] at h
  | cons a V' => cases a <;> simp_all [lastObjAnn, LexT.isMarker] <;> (subst h; rfl)

theorem patOK1 (V) : PatOK (.valB :: .objB :: V) V := by
  intro m h
  cases V with
  | nil => simp [lastObjAnn] at h
  | cons a V' => cases a <;> simp_all [lastObjAnn, LexT.isMarker] <;> (subst h; rfl)

theorem patOK2 (V) : PatOK (.litB :: .valB :: .objB :: V) V := by
  intro m h
  cases V with
  | nil => simp [lastObjAnn] at h
  | cons a V' => cases a <;> simp_all [lastObjAnn, LexT.isMarker] <;> (subst h; rfl)

theorem patOK3 (V) : PatOK (.tsB :: .mixB :: .valB :: .objB :: V) V := by
  intro m h
  cases V with
  | nil => simp [lastObjAnn] at h
  | cons a V' => cases a <;> simp_all [lastObjAnn, LexT.isMarker] <;> (subst h; rfl)

theorem CH.marker_inv {m σ ret} (hm : m.isMarker = true) (h : CH (m :: σ) ret) :
    ∃ r ret', ret = r :: ret' ∧ r.annRet = true ∧ Good r σ ret' := by
  cases h with
  | vh hv => cases hv <;> simp [LexT.isMarker] at hm
  | marker _ hr hg => exact ⟨_, _, rfl, hr, hg⟩

theorem foundObjectEnd_ok {s V} (hE : Eff s (.objB :: V)) (hV : CH V s.ret)
    (hp : PatOK (s.stack.map (·.1)) V) : OKRes Inv (foundObjectEnd s) := by
  have hc : (found s .objE).ctx.ty :: (found s .objE).ctxStack.map (·.ty) = .object :: ctxsOf V := hE.2
  obtain ⟨c, rest, heq, hcr⟩ := restoreContext_ok hc
  have hE' : Eff { found s .objE with ctx := c, ctxStack := rest } V := by
    refine ⟨?_, hcr⟩
    show applyFinds (s.finds ++ [.objE]) (s.stack.map (·.1)) = some V
    rw [applyFinds_append, hE.1]; rfl
  unfold foundObjectEnd
  simp only [bind, Except.bind, pure, Except.pure, heq]
  split
  · exact ⟨_, hE', Good.done hV⟩
  · generalize hL : isFoundLastObjectEndOnAnnotation _ = L
    rw [isFoundLast_eq] at hL
    change lastObjAnn (s.stack.map (·.1)) = L at hL
    cases L with
    | none => exact ⟨_, hE', Good.done hV⟩
    | some m =>
      obtain ⟨hm, σ, rfl⟩ := hp m hL
      obtain ⟨r, ret', hret, hr, hGr⟩ := hV.marker_inv hm
      cases m <;> simp [LexT.isMarker] at hm
      · refine ⟨_, hE', ?_⟩
        show Good .inlTxtPrefix _ s.ret
        rw [hret]; exact Good.inl rfl hr hGr
      · refine ⟨_, hE', ?_⟩
        show Good .mlTxtPrefix _ s.ret
        rw [hret]; exact Good.ml rfl hr hGr


theorem Eff.stack_eq {s eff} (hE : Eff s eff) (hf : s.finds = []) : s.stack.map (·.1) = eff := by
  have h := hE.1
  rw [hf] at h
  exact Option.some.inj h

theorem foundArrayEnd_core {s V} (hE : Eff s (.arrB :: V)) (hV : CH V s.ret) (hne : s.stack ≠ []) :
    OKRes Inv (Except.bind (restoreContext (found s .arrE)) (fun s =>
      Except.ok { s with step := if s.stack.isEmpty then .endTop else .endValue })) := by
  have hc : (found s .arrE).ctx.ty :: (found s .arrE).ctxStack.map (·.ty) = .array :: ctxsOf V := hE.2
  obtain ⟨c, rest, heq, hcr⟩ := restoreContext_ok hc
  have hE' : Eff { found s .arrE with ctx := c, ctxStack := rest } V := by
    refine ⟨?_, hcr⟩
    show applyFinds (s.finds ++ [.arrE]) (s.stack.map (·.1)) = some V
    rw [applyFinds_append, hE.1]; rfl
  rw [heq]
  have he : s.stack.isEmpty = false := by
    cases hs : s.stack with
    | nil => exact absurd hs hne
    | cons a l => rfl
  refine ⟨_, hE', ?_⟩
  show Good (if s.stack.isEmpty then St.endTop else St.endValue) V s.ret
  rw [he]; exact Good.done hV

theorem foundArrayEnd_ok {s V} (hE : Eff s (.arrB :: V)) (hV : CH V s.ret) (hne : s.stack ≠ []) :
    OKRes Inv (foundArrayEnd s) := by
  unfold foundArrayEnd
  simp only [bind, pure, Except.pure]
  by_cases hc : (s.ann == Ann.none) = true <;> simp only [hc, ↓reduceIte]
  · exact foundArrayEnd_core (s := { s with allowAnnotation := !s.ctx.arrayHasItem }) hE hV hne
  · exact foundArrayEnd_core hE hV hne

end SchemaScan
