import JSight.TreeEvents
/-!
C06, nesting: the events a JSON tree denotes form a properly nested begin/end sequence in which every
closing event carries the begin offset of its opening partner.
-/
namespace JsonScan

/-- stack discipline check: an opening event pushes (type, begin); a closing event must pair with the top
entry and carry its begin offset -/
def wn : List Ev → List (LexT × Nat) → Bool
  | [], stk => stk.isEmpty
  | e :: es, stk =>
    if e.ty.isOpening then wn es ((e.ty, e.b) :: stk)
    else match stk with
      | [] => false
      | (p, b) :: rest => pairs p e.ty && b == e.b && wn es rest

/-- running the check over `evs ++ rest` when `evs` is balanced -/
def Balanced (evs : List Ev) : Prop := ∀ rest stk, wn (evs ++ rest) stk = wn rest stk

theorem balanced_nil : Balanced [] := fun _ _ => rfl

theorem balanced_append {a b : List Ev} (ha : Balanced a) (hb : Balanced b) : Balanced (a ++ b) := by
  intro rest stk
  rw [List.append_assoc, ha, hb]

mutual
theorem evsAt_balanced : (o : Nat) → (v : JA) → Balanced (evsAt o v)
  | o, .scalar tok => by
    intro rest stk
    simp [evsAt, wn, LexT.isOpening, pairs]
  | o, .arr ws0 items => by
    intro rest stk
    simp only [evsAt, List.cons_append, wn, LexT.isOpening, if_true]
    exact evsItems_balanced o (o + 1 + ws0.length) items rest stk
  | o, .obj ws0 members => by
    intro rest stk
    simp only [evsAt, List.cons_append, wn, LexT.isOpening, if_true]
    exact evsMembers_balanced o (o + 1 + ws0.length) members rest stk
/-- the items close the array opened at `a` -/
theorem evsItems_balanced : (a o : Nat) → (its : List (List Cls × JA × List Cls)) →
    ∀ rest stk, wn (evsItems a o its ++ rest) ((.arrB, a) :: stk) = wn rest stk
  | a, o, [] => by
    intro rest stk
    simp [evsItems, wn, LexT.isOpening, pairs]
  | a, o, (w1, v, w2) :: its => by
    intro rest stk
    simp only [evsItems, List.cons_append, List.append_assoc, wn, LexT.isOpening, if_true]
    rw [evsAt_balanced (o + w1.length) v]
    simp only [List.cons_append, wn, LexT.isOpening, Bool.false_eq_true, if_false, pairs, beq_self_eq_true, Bool.true_and]
    exact evsItems_balanced a _ its rest stk
theorem evsMembers_balanced : (a o : Nat) → (ms : List (List Cls × List Cls × List Cls × List Cls × JA × List Cls)) →
    ∀ rest stk, wn (evsMembers a o ms ++ rest) ((.objB, a) :: stk) = wn rest stk
  | a, o, [] => by
    intro rest stk
    simp [evsMembers, wn, LexT.isOpening, pairs]
  | a, o, (w1, k, w2, w3, v, w4) :: ms => by
    intro rest stk
    simp only [evsMembers, List.cons_append, List.append_assoc, wn, LexT.isOpening, if_true, Bool.false_eq_true, if_false,
      pairs, beq_self_eq_true, Bool.true_and]
    rw [evsAt_balanced _ v]
    simp only [List.cons_append, wn, LexT.isOpening, Bool.false_eq_true, if_false, pairs, beq_self_eq_true, Bool.true_and]
    exact evsMembers_balanced a _ ms rest stk
end

/-- the events of a tree are properly nested and every closer carries its opener's offset -/
theorem evsAt_wellNested (o : Nat) (v : JA) : wn (evsAt o v) [] = true := by
  have := evsAt_balanced o v [] []
  simpa [wn] using this

end JsonScan
