import JSight.EnumC
/-!
C18, comments in enum rules: duplicates, exponents, `Len` — for the text grammar of `EnumC` (layout with comments).

* `enumC_duplicate`: the first item whose key repeats an earlier one is rejected with error 810 at the first byte of
  its token, whatever comments stand between the items.
* `enumC_exponent`: an `e` / `E` directly behind a number token (number of the grammar: no exponent) is rejected
  with error 301 at that byte — the enum scanner has NO exponent form.
* `enumC_length`: `Len` is the length of the text without its trailing blanks: a trailing comment is INSIDE.
-/
set_option linter.unusedSimpArgs false
set_option linter.unusedVariables false
namespace EnumScan
open SchemaScan (Cls classify)

/-! ### a prefix of items, each followed by its comma -/

def renderInitC : List ItemC → List UInt8
  | [] => []
  | (l1, t, l2) :: its => LayB.render l1 ++ (t ++ (LayB.render l2 ++ (44 :: renderInitC its)))

def evsInitC : Nat → List ItemC → List Ev
  | _, [] => []
  | o, (l1, t, l2) :: its =>
    layEvsB o l1 ++ (itemEvs (o + (LayB.render l1).length) (o + (LayB.render l1).length + t.length) ++
      (layEvsB (o + (LayB.render l1).length + t.length) l2 ++
        evsInitC (o + (LayB.render l1).length + t.length + (LayB.render l2).length + 1) its))

theorem renderItemsC_append (its1 rest : List ItemC) (h : rest ≠ []) :
    renderItemsC (its1 ++ rest) = renderInitC its1 ++ renderItemsC rest := by
  induction its1 with
  | nil => rfl
  | cons it its ih =>
    obtain ⟨l1, t, l2⟩ := it
    have hne : (its ++ rest).isEmpty = false := by
      cases its <;> cases rest <;> simp at h ⊢
    simp only [List.cons_append, renderItemsC, renderInitC, hne, Bool.false_eq_true, if_false, ih, List.append_assoc]
    simp

theorem evsInitC_length_le (its : List ItemC) : ∀ (o : Nat), ValidItemsC its →
    (evsInitC o its).length ≤ 4 * (renderInitC its).length := by
  induction its with
  | nil => intro o _; simp [evsInitC, renderInitC]
  | cons it its ih =>
    intro o hv
    obtain ⟨l1, t, l2⟩ := it
    obtain ⟨hl1, htk, hl2⟩ : LayB.Valid l1 ∧ IsTok (t.map classify) ∧ LayB.Valid l2 := hv (l1, t, l2) (by simp)
    have ht := htk.length_pos
    simp only [List.length_map] at ht
    have h1 := layEvsB_length_le o l1 hl1
    have h2 := layEvsB_length_le (o + (LayB.render l1).length + t.length) l2 hl2
    have h3 := ih (o + (LayB.render l1).length + t.length + (LayB.render l2).length + 1)
      (fun x hx => hv x (by simp [hx]))
    simp only [evsInitC, renderInitC, itemEvs, List.length_append, List.length_cons, List.length_nil]
    omega

theorem itemsC_prefix (bs : List UInt8) (a : Nat) (lc : Bool) : ∀ (its : List ItemC) (first : Bool)
    (uq : List (List UInt8 × Bool)) (front back : List UInt8) (o : Nat),
    ValidItemsC its → bs = front ++ (renderInitC its ++ back) → front.length = o → FreshAllC uq its →
    PreT bs.toArray (bs.map classify).toArray
      ⟨stFirst first, [], [(.arrB, a)], [], o, false, false, lc, false, uq⟩ (evsInitC o its)
      ⟨stFirst (first && its.isEmpty), [], [(.arrB, a)], [], o + (renderInitC its).length, false, false, lc, false,
        (its.map itemKeyC).reverse ++ uq⟩ := by
  intro its
  induction its with
  | nil =>
    intro first uq front back o _ _ _ _
    simp only [List.isEmpty_nil, Bool.and_true, renderInitC, List.length_nil, Nat.add_zero, List.map_nil,
      List.reverse_nil, List.nil_append, evsInitC]
    exact PreT.refl _
  | cons it its ih =>
    intro first uq front back o hv hbs ho hfr
    obtain ⟨l1, t, l2⟩ := it
    obtain ⟨hl1, htk, hl2⟩ : LayB.Valid l1 ∧ IsTok (t.map classify) ∧ LayB.Valid l2 := hv (l1, t, l2) (by simp)
    have hv' : ValidItemsC its := fun x hx => hv x (by simp [hx])
    obtain ⟨hk, hfr'⟩ := hfr
    have hst : stFirst first = .arrItemOrEmpty ∨ stFirst first = .arrItem := by cases first <;> simp [stFirst]
    have len1 := LayB.render_length l1 hl1
    have len2 := LayB.render_length l2 hl2
    have hkey : keyAt bs.toArray (o + (LayB.render l1).length) t.length = tokKey t :=
      keyAt_of_split bs t (front ++ LayB.render l1) (LayB.render l2 ++ (44 :: renderInitC its) ++ back) _
        (by rw [hbs]; simp [renderInitC, List.append_assoc]) (by simp [ho]) htk
    have hs := segA_of_split' bs (LayB.render l1 ++ (t ++ (LayB.render l2 ++ [44]))) _
      (item_seg_map l1 t l2 44 hl1 hl2) front (renderInitC its ++ back) o
      (by rw [hbs]; simp [renderInitC, List.append_assoc]) ho
    rw [classify_comma] at hs
    have h := itemC_pre (content := bs.toArray) hst l1.cls (t.map classify) l2.cls (LayB.cls_valid l1 hl1) htk
      (LayB.cls_valid l2 hl2) (Or.inl rfl) a o lc uq hs
      (by simp only [List.length_map, len1]; rw [hkey]; exact contains_false_of_not_mem hk)
    simp only [List.length_map, len1, len2] at h
    rw [hkey] at h
    have h2 := ih false (tokKey t :: uq) (front ++ (LayB.render l1 ++ (t ++ (LayB.render l2 ++ [44])))) back
      (o + (LayB.render l1).length + t.length + (LayB.render l2).length + 1) hv'
      (by rw [hbs]; simp [renderInitC, List.append_assoc]) (by simp [ho]; omega) hfr'
    have e : o + (renderInitC ((l1, t, l2) :: its)).length
        = o + (LayB.render l1).length + t.length + (LayB.render l2).length + 1 + (renderInitC its).length := by
      simp [renderInitC]; omega
    rw [e]
    refine (h.trans h2).cast ?_ |>.castS ?_
    · simp [evsInitC, layEvsB, delimEvs, List.append_assoc]
    · simp only [Bool.false_and, List.isEmpty_cons, Bool.and_false, List.map_cons, List.reverse_cons,
        List.append_assoc, List.cons_append, List.nil_append]
      rfl

/-! ### duplicates -/

theorem classify_47_delim : isDelimC (classify 47) = true := by rw [classify_slash]; rfl

theorem PieceB.head_delim (p : PieceB) (hv : p.Valid) : ∃ x rest, p.render = x :: rest ∧ isDelimC (classify x) = true := by
  cases p with
  | blank c =>
    refine ⟨c, [], rfl, ?_⟩
    have hb : (classify c).isBlank = true := hv.1
    cases h : classify c <;> rw [h] at hb <;> simp [Cls.isBlank, Cls.isSpace, Cls.isNewLine] at hb <;> rfl
  | inl sp txt nl => exact ⟨47, _, rfl, classify_47_delim⟩
  | ml ws txt => exact ⟨47, _, rfl, classify_47_delim⟩

theorem after_tok_delimC (l2 : LayB) (hl2 : l2.Valid) (its2 : List ItemC) :
    ∃ x rest, LayB.render l2 ++ ((if its2.isEmpty then [] else [44]) ++ renderItemsC its2) = x :: rest ∧
      isDelimC (classify x) = true := by
  cases l2 with
  | nil =>
    cases its2 with
    | nil => exact ⟨93, [], rfl, by rw [classify_rbrack]; rfl⟩
    | cons it its => exact ⟨44, renderItemsC (it :: its), rfl, by rw [classify_comma]; rfl⟩
  | cons p L =>
    obtain ⟨x, rest, hx, hd⟩ := p.head_delim (hl2 p (by simp))
    exact ⟨x, rest ++ (LayB.render L ++ ((if its2.isEmpty then [] else [44]) ++ renderItemsC its2)),
      by simp [LayB.render, hx], hd⟩

theorem mem_reverse_append_contains {k : List UInt8 × Bool} {l uq : List (List UInt8 × Bool)} (h : k ∈ l) :
    (l.reverse ++ uq).contains k = true := by
  simp [h]

/-- the prefix `pre [ ws0 items…` up to the state in which the next item starts -/
theorem enumC_prefix (lc : Bool) (pre : List UInt8) (ws0 : LayB) (its1 : List ItemC) (tailB : List UInt8)
    (hpre : IsWsB pre) (hws0 : ws0.Valid) (hv : ValidItemsC its1) (hnd : (its1.map itemKeyC).Nodup) :
    ∃ evs, evs.length ≤ 4 * (pre.length + 1 + (LayB.render ws0).length + (renderInitC its1).length) ∧
      PreT (pre ++ (91 :: (LayB.render ws0 ++ (renderInitC its1 ++ tailB)))).toArray
        ((pre ++ (91 :: (LayB.render ws0 ++ (renderInitC its1 ++ tailB)))).map classify).toArray
        ⟨.begin, [], [], [], 0, false, false, lc, false, []⟩ evs
        ⟨stFirst its1.isEmpty, [], [(.arrB, pre.length)], [],
          pre.length + 1 + (LayB.render ws0).length + (renderInitC its1).length, false, false, lc, false,
          (its1.map itemKeyC).reverse⟩ := by
  generalize hbs : pre ++ (91 :: (LayB.render ws0 ++ (renderInitC its1 ++ tailB))) = bs
  have hbs' := hbs.symm
  have s1 := segA_of_split bs pre [] (91 :: (LayB.render ws0 ++ (renderInitC its1 ++ tailB))) 0
    (by simpa using hbs') rfl
  have h1 := preT_ws_begin (content := bs.toArray) lc false [] (pre.map classify) hpre 0 s1
  have s2 := segA_of_split bs [91] pre (LayB.render ws0 ++ (renderInitC its1 ++ tailB)) pre.length
    (by simpa using hbs') rfl
  have s2' : ((bs.map classify).toArray)[pre.length]? = some .lbrack := by
    have := s2.1; rw [classify_lbrack] at this; exact this
  have h2 := preT_lbrack (content := bs.toArray) pre.length lc false [] s2'
  have s3 := segA_of_split' bs (LayB.render ws0) _ (LayB.render_map ws0 hws0) (pre ++ [91])
    (renderInitC its1 ++ tailB) (pre.length + 1) (by simpa using hbs') (by simp)
  have h3 := preT_lay_loop (content := bs.toArray) (st := .arrItemOrEmpty) (Or.inl rfl) pre.length lc false []
    ws0.cls (LayB.cls_valid ws0 hws0) (pre.length + 1) s3
  have h4 := itemsC_prefix bs pre.length lc its1 true [] (pre ++ 91 :: LayB.render ws0) tailB
    (pre.length + 1 + (LayB.render ws0).length) hv (by simpa using hbs') (by simp; omega)
    (freshAllC_of_nodup its1 [] (by simp) hnd)
  simp only [List.length_map, Nat.zero_add, LayB.render_length ws0 hws0, Bool.true_and, List.append_nil] at h1 h3 h4
  have l3 := layEvsB_length_le (pre.length + 1) ws0 hws0
  have l4 := evsInitC_length_le its1 (pre.length + 1 + (LayB.render ws0).length) hv
  refine ⟨_, ?_, ((h1.trans h2).trans h3).trans h4⟩
  simp only [List.length_append, List.length_cons, List.length_nil, layEvsB] at l3 ⊢
  omega

/-- **duplicates**, automaton tokens -/
theorem enumC_duplicate' (pre : List UInt8) (ws0 post : LayB) (its1 : List ItemC) (dup : ItemC) (its2 : List ItemC)
    (hpre : IsWsB pre) (hws0 : ws0.Valid) (hv : ValidItemsC (its1 ++ dup :: its2))
    (hnd : (its1.map itemKeyC).Nodup) (hdup : itemKeyC dup ∈ its1.map itemKeyC) :
    scanAll (renderEnumC pre ws0 (its1 ++ dup :: its2) post)
      = .error (.duplicate (pre.length + 1 + (LayB.render ws0).length + (renderInitC its1).length
          + (LayB.render dup.1).length)) := by
  obtain ⟨dl1, dt, dl2⟩ := dup
  obtain ⟨hdl1, hdt, hdl2⟩ : LayB.Valid dl1 ∧ IsTok (dt.map classify) ∧ LayB.Valid dl2 := hv (dl1, dt, dl2) (by simp)
  have hv1 : ValidItemsC its1 := fun x hx => hv x (by simp [hx])
  obtain ⟨x, rest, hx, hxd⟩ := after_tok_delimC dl2 hdl2 its2
  -- the text, split at the offending token
  have htext : renderEnumC pre ws0 (its1 ++ (dl1, dt, dl2) :: its2) post
      = pre ++ (91 :: (LayB.render ws0 ++ (renderInitC its1 ++
          (LayB.render dl1 ++ (dt ++ (x :: (rest ++ LayB.render post))))))) := by
    have hri : renderItemsC ((dl1, dt, dl2) :: its2) = LayB.render dl1 ++ (dt ++ (x :: rest)) := by
      simp only [renderItemsC]; rw [hx]
    rw [renderEnumC, renderItemsC_append its1 _ (by simp), hri]
    simp [List.append_assoc]
  obtain ⟨evs, hlen, hp⟩ := enumC_prefix false pre ws0 its1
    (LayB.render dl1 ++ (dt ++ (x :: (rest ++ LayB.render post)))) hpre hws0 hv1 hnd
  rw [htext]
  generalize hbs : pre ++ (91 :: (LayB.render ws0 ++ (renderInitC its1 ++
      (LayB.render dl1 ++ (dt ++ (x :: (rest ++ LayB.render post))))))) = bs at hp ⊢
  have len1 := LayB.render_length dl1 hdl1
  have hs := segA_of_split' bs (LayB.render dl1 ++ (dt ++ [x])) (Lay.render dl1.cls ++ (dt.map classify ++ [classify x]))
    (by simp [LayB.render_map dl1 hdl1]) (pre ++ 91 :: (LayB.render ws0 ++ renderInitC its1)) (rest ++ LayB.render post)
    (pre.length + 1 + (LayB.render ws0).length + (renderInitC its1).length)
    (by rw [← hbs]; simp [List.append_assoc]) (by simp; omega)
  have hkey : keyAt bs.toArray (pre.length + 1 + (LayB.render ws0).length + (renderInitC its1).length
      + (LayB.render dl1).length) dt.length = tokKey dt :=
    keyAt_of_split bs dt (pre ++ 91 :: (LayB.render ws0 ++ (renderInitC its1 ++ LayB.render dl1)))
      (x :: (rest ++ LayB.render post)) _ (by rw [← hbs]; simp [List.append_assoc]) (by simp; omega) hdt
  have hst : stFirst its1.isEmpty = .arrItemOrEmpty ∨ stFirst its1.isEmpty = .arrItem := by
    cases its1.isEmpty <;> simp [stFirst]
  obtain ⟨n, hn, h⟩ := itemC_dup (content := bs.toArray) hst dl1.cls (dt.map classify) (LayB.cls_valid dl1 hdl1) hdt hxd
    pre.length (pre.length + 1 + (LayB.render ws0).length + (renderInitC its1).length) false
    ((its1.map itemKeyC).reverse) hs
    (by
      simp only [List.length_map, len1]
      rw [hkey]
      have := mem_reverse_append_contains (uq := []) hdup
      simpa [itemKeyC] using this)
  simp only [List.length_map, len1] at h hn
  have hfin := hp _ _ h
  unfold scanAll
  refine OutT_events _ _ hfin _ ?_
  have hsz : bs.length = pre.length + 1 + (LayB.render ws0).length + (renderInitC its1).length
      + (LayB.render dl1).length + dt.length + 1 + rest.length + (LayB.render post).length := by
    rw [← hbs]; simp; omega
  simp only [List.size_toArray, List.length_map]
  omega

/-- **duplicates** for the token grammar -/
theorem enumC_duplicate (pre : List UInt8) (ws0 post : LayB) (its1 : List ItemC) (dup : ItemC) (its2 : List ItemC)
    (hpre : IsWsB pre) (hws0 : ws0.Valid) (hv : GValidItemsC (its1 ++ dup :: its2))
    (hnd : (its1.map itemKeyC).Nodup) (hdup : itemKeyC dup ∈ its1.map itemKeyC) :
    scanAll (renderEnumC pre ws0 (its1 ++ dup :: its2) post)
      = .error (.duplicate (pre.length + 1 + (LayB.render ws0).length + (renderInitC its1).length
          + (LayB.render dup.1).length)) :=
  enumC_duplicate' pre ws0 post its1 dup its2 hpre hws0 hv.valid hnd hdup

/-! ### exponents -/

theorem tail_runN (t : NumTok) (wf : t.WF) (s : St) (hs : s = .d0 ∨ s = .d1) :
    ∃ sE, NumEnd sE = true ∧ silentRun s [] false t.tail = some (sE, [], false) := by
  obtain ⟨neg, int, frac⟩ := t
  have hf := wf.frac
  simp only [NumTok.tail] at *
  cases frac with
  | none => exact ⟨s, by rcases hs with rfl | rfl <;> rfl, rfl⟩
  | some p =>
    obtain ⟨fd, fds⟩ := p
    obtain ⟨g1, g2⟩ := hf fd fds rfl
    exact ⟨.dot0, rfl, frac_run s hs fd fds g1 g2⟩

/-- a number of the grammar (`[-] int [frac]`, no exponent) ends in one of the three number states -/
theorem number_isNumTok (t : NumTok) (wf : t.WF) : IsNumTok t.render := by
  unfold NumTok.render
  rcases wf.int with hz | ⟨ds, hi, hds⟩
  · obtain ⟨sE, hp, hrun⟩ := tail_runN t wf .d0 (Or.inl rfl)
    rw [hz]
    cases t.neg
    · exact ⟨.zero, t.tail, .d0, false, sE, by simp, rfl, hrun, hp⟩
    · refine ⟨.minus, .zero :: t.tail, .neg, true, sE, by simp, rfl, ?_, hp⟩
      have a : silent .neg [] true .zero = some (.d0, [], false) := rfl
      simp only [silentRun, a]; exact hrun
  · obtain ⟨sE, hp, hrun⟩ := tail_runN t wf .d1 (Or.inr rfl)
    have hdig := digits_run .d1 (Or.inl rfl) ds hds
    rw [hi]
    cases t.neg
    · refine ⟨.d19, ds ++ t.tail, .d1, false, sE, by simp, rfl, ?_, hp⟩
      rw [silentRun_append _ _ _ _ _ _ _ _ hdig]; exact hrun
    · refine ⟨.minus, .d19 :: (ds ++ t.tail), .neg, true, sE, by simp, rfl, ?_, hp⟩
      have a : silent .neg [] true .d19 = some (.d1, [], false) := rfl
      simp only [silentRun, a]
      rw [silentRun_append _ _ _ _ _ _ _ _ hdig]; exact hrun

theorem classify_e : classify 101 = .le := by decide
theorem classify_E : classify 69 = .uE := by decide

/-- **no exponent form**: behind any prefix of valid items, layout, a number of the grammar and then `e` or `E`,
the scan fails with error 301 (`invalidChar`) at the exponent letter, whatever follows -/
theorem enumC_exponent' (pre : List UInt8) (ws0 : LayB) (its1 : List ItemC) (l1 : LayB) (num : List UInt8) (x : UInt8)
    (rest : List UInt8) (hpre : IsWsB pre) (hws0 : ws0.Valid) (hv : ValidItemsC its1)
    (hnd : (its1.map itemKeyC).Nodup) (hl1 : l1.Valid) (hnum : IsNumTok (num.map classify)) (hx : x = 101 ∨ x = 69) :
    scanAll (pre ++ (91 :: (LayB.render ws0 ++ (renderInitC its1 ++ (LayB.render l1 ++ (num ++ (x :: rest)))))))
      = .error (.invalidChar (pre.length + 1 + (LayB.render ws0).length + (renderInitC its1).length
          + (LayB.render l1).length + num.length) "isn't allowed 'cause not obvious it's a float or an integer") := by
  obtain ⟨evs, hlen, hp⟩ := enumC_prefix false pre ws0 its1 (LayB.render l1 ++ (num ++ (x :: rest))) hpre hws0 hv hnd
  generalize hbs : pre ++ (91 :: (LayB.render ws0 ++ (renderInitC its1 ++ (LayB.render l1 ++ (num ++ (x :: rest)))))) = bs
    at hp ⊢
  have len1 := LayB.render_length l1 hl1
  have hs := segA_of_split' bs (LayB.render l1 ++ (num ++ [x])) (Lay.render l1.cls ++ (num.map classify ++ [classify x]))
    (by simp [LayB.render_map l1 hl1]) (pre ++ 91 :: (LayB.render ws0 ++ renderInitC its1)) rest
    (pre.length + 1 + (LayB.render ws0).length + (renderInitC its1).length)
    (by rw [← hbs]; simp [List.append_assoc]) (by simp; omega)
  have hxc : classify x = .le ∨ classify x = .uE := by
    rcases hx with rfl | rfl
    · exact Or.inl classify_e
    · exact Or.inr classify_E
  have hst : stFirst its1.isEmpty = .arrItemOrEmpty ∨ stFirst its1.isEmpty = .arrItem := by
    cases its1.isEmpty <;> simp [stFirst]
  obtain ⟨n, hn, h⟩ := itemC_exp (content := bs.toArray) hst l1.cls (num.map classify) (LayB.cls_valid l1 hl1) hnum hxc
    pre.length (pre.length + 1 + (LayB.render ws0).length + (renderInitC its1).length) false
    ((its1.map itemKeyC).reverse) hs
  simp only [List.length_map, len1] at h hn
  have hfin := hp _ _ h
  unfold scanAll
  refine OutT_events _ _ hfin _ ?_
  have hsz : bs.length = pre.length + 1 + (LayB.render ws0).length + (renderInitC its1).length
      + (LayB.render l1).length + num.length + 1 + rest.length := by
    rw [← hbs]; simp; omega
  simp only [List.size_toArray, List.length_map]
  omega

/-- the same for the number grammar -/
theorem enumC_exponent (pre : List UInt8) (ws0 : LayB) (its1 : List ItemC) (l1 : LayB) (t : NumTok) (num : List UInt8)
    (x : UInt8) (rest : List UInt8) (hpre : IsWsB pre) (hws0 : ws0.Valid) (hv : GValidItemsC its1)
    (hnd : (its1.map itemKeyC).Nodup) (hl1 : l1.Valid) (hwf : t.WF) (hnum : num.map classify = t.render)
    (hx : x = 101 ∨ x = 69) :
    scanAll (pre ++ (91 :: (LayB.render ws0 ++ (renderInitC its1 ++ (LayB.render l1 ++ (num ++ (x :: rest)))))))
      = .error (.invalidChar (pre.length + 1 + (LayB.render ws0).length + (renderInitC its1).length
          + (LayB.render l1).length + num.length) "isn't allowed 'cause not obvious it's a float or an integer") :=
  enumC_exponent' pre ws0 its1 l1 num x rest hpre hws0 hv.valid hnd hl1 (by rw [hnum]; exact number_isNumTok t hwf) hx

/-! ### Len -/

/-- from `b` up to `o` every byte is a blank -/
def BlankFrom (data : Array Cls) (b o : Nat) : Prop :=
  b ≤ o ∧ ∀ j, b ≤ j → j < o → (data[j]?.map Cls.isBlank) = some true

theorem BlankFrom.refl (data : Array Cls) (o : Nat) : BlankFrom data o o := ⟨Nat.le_refl _, fun j h1 h2 => by omega⟩

theorem trimBlank_blankFrom (data : Array Cls) : ∀ (n b : Nat), BlankFrom data b n →
    SchemaScan.trimBlank data n = SchemaScan.trimBlank data b := by
  intro n
  induction n with
  | zero => intro b h; have := h.1; have : b = 0 := by omega
            subst this; rfl
  | succ m ih =>
    intro b h
    rcases Nat.eq_or_lt_of_le h.1 with he | hlt
    · rw [he]
    · have hb := h.2 m (by omega) (by omega)
      have e : SchemaScan.trimBlank data (m + 1)
          = if (data[m]?.map Cls.isBlank) == some true then SchemaScan.trimBlank data m else m + 1 := rfl
      rw [e, hb]
      simp only [beq_self_eq_true, if_true]
      exact ih b ⟨by omega, fun j h1 h2 => h.2 j h1 (by omega)⟩

theorem foldl_lenF_last (size : Nat) (l : List Ev) (x : Ev) (b : Nat) :
    (l ++ [x]).foldl (lenF size) b = lenF size 0 x := by
  simp [List.foldl_append, lenF]

/-- the `Len` fold over a layout: afterwards only blanks lie between the value and the end of the layout -/
theorem lenF_lay (data : Array Cls) (L : Lay) (hv : L.Valid) : ∀ (o b : Nat), SegA data o (Lay.render L) →
    o + (Lay.render L).length ≤ data.size → BlankFrom data b o →
    BlankFrom data ((layEvs o L).foldl (lenF data.size) b) (o + (Lay.render L).length) := by
  induction L with
  | nil => intro o b _ _ h; simpa [layEvs, Lay.render] using h
  | cons p L ih =>
    intro o b hseg hsz hb
    obtain ⟨hp, hL⟩ := SegA_append (show SegA data o (p.render ++ Lay.render L) from hseg)
    simp only [Lay.render, List.length_append] at hsz
    have hstep : BlankFrom data ((p.evs o).foldl (lenF data.size) b) (o + p.render.length) := by
      cases p with
      | blank c =>
        have hc : c.isBlank = true := hv (.blank c) (by simp)
        simp only [Piece.render, List.length_cons, List.length_nil] at hsz ⊢
        simp only [Piece.evs, nlEvs, List.append_nil]
        split
        · simp only [List.foldl_cons, List.foldl_nil, lenF]
          have : ¬ o ≥ data.size := by omega
          simp only [this, if_false]
          exact BlankFrom.refl data (o + 1)
        · simp only [List.foldl_nil]
          refine ⟨by have := hb.1; omega, fun j h1 h2 => ?_⟩
          rcases Nat.lt_or_ge j o with h | h
          · exact hb.2 j h1 h
          · have : j = o := by omega
            subst this
            rw [hp.1]; simp [hc]
      | inl sp txt =>
        rw [Piece.render_length_inl] at hsz ⊢
        simp only [Piece.evs, inlEvs, List.foldl_cons, List.foldl_nil, lenF]
        have : ¬ o + 1 + 1 + sp.length + txt.length ≥ data.size := by omega
        simp only [this, if_false]
        rw [show o + 1 + 1 + sp.length + txt.length + 1 = o + (2 + sp.length + txt.length + 1) by omega]
        exact BlankFrom.refl data _
      | ml ws txt =>
        rw [Piece.render_length_ml] at hsz ⊢
        simp only [Piece.evs, mlEvs, List.foldl_cons, List.foldl_append, List.foldl_nil, lenF]
        have : ¬ o + 1 + 1 + ws.length + txt.length + 1 ≥ data.size := by omega
        simp only [this, if_false]
        rw [show o + 1 + 1 + ws.length + txt.length + 1 + 1 = o + (2 + ws.length + txt.length + 2) by omega]
        exact BlankFrom.refl data _
    have := ih (fun x hx => hv x (by simp [hx])) (o + p.render.length) _ hL (by omega) hstep
    simp only [layEvs, List.foldl_append, Lay.render, List.length_append]
    rw [show o + (p.render.length + (Lay.render L).length) = o + p.render.length + (Lay.render L).length by omega]
    exact this

theorem renderItemsC_last (its : List ItemC) : ∃ init, renderItemsC its = init ++ [93] := by
  induction its with
  | nil => exact ⟨[], rfl⟩
  | cons it its ih =>
    obtain ⟨l1, t, l2⟩ := it
    obtain ⟨init, h⟩ := ih
    exact ⟨LayB.render l1 ++ (t ++ (LayB.render l2 ++ ((if its.isEmpty then [] else [44]) ++ init))),
      by simp [renderItemsC, h]⟩

theorem evsItemsC_last (a : Nat) (its : List ItemC) : ∀ (o : Nat),
    ∃ init, evsItemsC a o its = init ++ [⟨.arrE, a, o + (renderItemsC its).length - 1⟩] := by
  induction its with
  | nil => intro o; exact ⟨[], by simp [evsItemsC, renderItemsC]⟩
  | cons it its ih =>
    intro o
    obtain ⟨l1, t, l2⟩ := it
    obtain ⟨init, h⟩ := ih (o + (LayB.render l1).length + t.length + (LayB.render l2).length + (if its.isEmpty then 0 else 1))
    refine ⟨layEvsB o l1 ++ (itemEvs (o + (LayB.render l1).length) (o + (LayB.render l1).length + t.length) ++
      (layEvsB (o + (LayB.render l1).length + t.length) l2 ++ init)), ?_⟩
    simp only [evsItemsC, h, List.append_assoc, renderItemsC, List.length_append]
    congr 6
    cases its <;> simp <;> omega

/-- the text without its trailing blanks -/
def rtrimB (bs : List UInt8) : List UInt8 := (bs.reverse.dropWhile Render.isBlank).reverse

theorem trimBlank_congr (d1 d2 : Array Cls) : ∀ (n : Nat), (∀ j, j < n → d1[j]? = d2[j]?) →
    SchemaScan.trimBlank d1 n = SchemaScan.trimBlank d2 n := by
  intro n
  induction n with
  | zero => intro _; rfl
  | succ m ih =>
    intro h
    unfold SchemaScan.trimBlank
    rw [h m (by omega), ih (fun j hj => h j (by omega))]

theorem trimBlank_rtrim_rev (r : List UInt8) :
    SchemaScan.trimBlank (r.reverse.map classify).toArray r.length = (rtrimB r.reverse).length := by
  induction r with
  | nil => rfl
  | cons x r ih =>
    have e : SchemaScan.trimBlank (((x :: r).reverse).map classify).toArray (r.length + 1)
        = if ((((x :: r).reverse).map classify).toArray[r.length]?.map Cls.isBlank) == some true
          then SchemaScan.trimBlank (((x :: r).reverse).map classify).toArray r.length else r.length + 1 := rfl
    rw [List.length_cons, e]
    have hx : ((((x :: r).reverse).map classify).toArray)[r.length]? = some (classify x) := by
      simp [List.getElem?_append_right]
    rw [hx]
    simp only [Option.map_some]
    have hcongr : SchemaScan.trimBlank (((x :: r).reverse).map classify).toArray r.length
        = SchemaScan.trimBlank (r.reverse.map classify).toArray r.length := by
      apply trimBlank_congr
      intro j hj
      simp [List.getElem?_append_left, hj]
    unfold rtrimB
    simp only [List.reverse_reverse, List.dropWhile_cons]
    rw [isBlank_classify x]
    by_cases hb : (classify x).isBlank = true
    · simp only [hb, beq_self_eq_true, if_true]
      rw [hcongr, ih]
      unfold rtrimB
      simp
    · have hb' : (classify x).isBlank = false := by simpa using hb
      simp [hb']

theorem trimBlank_rtrim (bs : List UInt8) :
    SchemaScan.trimBlank (bs.map classify).toArray bs.length = (rtrimB bs).length := by
  have := trimBlank_rtrim_rev bs.reverse
  simpa using this

/-- **Len**, automaton tokens: the length of the text without its trailing blanks — a comment behind the closing
bracket (and everything up to the last non-blank byte) is inside -/
theorem enumC_length' (pre : List UInt8) (ws0 post : LayB) (items : List ItemC)
    (hpre : IsWsB pre) (hws0 : ws0.Valid) (hpost : post.Valid) (hv : ValidItemsC items)
    (hnd : (items.map itemKeyC).Nodup) :
    length (renderEnumC pre ws0 items post) = .ok (rtrimB (renderEnumC pre ws0 items post)).length := by
  have h := enumC_out true pre ws0 post items hpre hws0 hpost hv hnd
  have hle := enumEvsC_length_le pre ws0 post items hws0 hpost hv
  have hlen := renderEnumC_length pre ws0 post items
  rw [← trimBlank_rtrim]
  generalize hbs : renderEnumC pre ws0 items post = bs at h hle hlen
  obtain ⟨ri, hri⟩ := renderItemsC_last items
  have hril : (renderItemsC items).length = ri.length + 1 := by rw [hri]; simp
  have hbs' : bs = pre ++ (91 :: (LayB.render ws0 ++ (renderItemsC items ++ LayB.render post))) := by rw [← hbs]; rfl
  unfold length
  have hinit : ({ lengthComputing := true } : Sc) = ⟨.begin, [], [], [], 0, false, false, true, false, []⟩ := rfl
  simp only [bind, Except.bind, hinit]
  rw [OutT_lengthLoop bs.toArray (bs.map classify).toArray h _ (by
    simp only [List.size_toArray, List.length_map]; omega) 0]
  simp only [Except.map, pure, Except.pure]
  congr 1
  have hsize : ((bs.map classify).toArray).size
      = pre.length + 1 + (LayB.render ws0).length + ri.length + 1 + (Lay.render post.cls).length := by
    rw [LayB.render_length post hpost]
    simp only [List.size_toArray, List.length_map]; omega
  -- the fold: only the events behind the closing bracket matter
  obtain ⟨ei, hei⟩ := evsItemsC_last pre.length items (pre.length + 1 + (LayB.render ws0).length)
  have hfold : (enumEvsC pre ws0 items post).foldl (lenF ((bs.map classify).toArray).size) 0
      = (layEvs (pre.length + 1 + (LayB.render ws0).length + ri.length + 1) post.cls).foldl
          (lenF ((bs.map classify).toArray).size) (pre.length + 1 + (LayB.render ws0).length + ri.length + 1) := by
    simp only [enumEvsC, hei, layEvsB, List.foldl_cons, List.foldl_append, List.foldl_nil, hril]
    congr 1
    simp only [lenF, hsize]
    have : ¬ (pre.length + 1 + (LayB.render ws0).length + (ri.length + 1) - 1
        ≥ pre.length + 1 + (LayB.render ws0).length + ri.length + 1 + (Lay.render post.cls).length) := by omega
    simp only [this, if_false]
    omega
  have sP := segA_of_split' bs (LayB.render post) _ (LayB.render_map post hpost)
    (pre ++ 91 :: (LayB.render ws0 ++ renderItemsC items)) []
    (pre.length + 1 + (LayB.render ws0).length + ri.length + 1) (by simpa using hbs') (by simp [hril]; omega)
  have hb := lenF_lay (bs.map classify).toArray post.cls (LayB.cls_valid post hpost)
    (pre.length + 1 + (LayB.render ws0).length + ri.length + 1) (pre.length + 1 + (LayB.render ws0).length + ri.length + 1)
    sP (by rw [hsize]; omega) (BlankFrom.refl _ _)
  show SchemaScan.trimBlank _ ((enumEvsC pre ws0 items post).foldl (lenF ((bs.map classify).toArray).size) 0) = _
  rw [hfold]
  have hsz2 : bs.length = pre.length + 1 + (LayB.render ws0).length + ri.length + 1 + (Lay.render post.cls).length := by
    rw [← hsize]; simp
  rw [hsz2]
  exact (trimBlank_blankFrom _ _ _ hb).symm

/-- **Len** for the token grammar -/
theorem enumC_length (pre : List UInt8) (ws0 post : LayB) (items : List ItemC)
    (hpre : IsWsB pre) (hws0 : ws0.Valid) (hpost : post.Valid) (hv : GValidItemsC items)
    (hnd : (items.map itemKeyC).Nodup) :
    length (renderEnumC pre ws0 items post) = .ok (rtrimB (renderEnumC pre ws0 items post)).length :=
  enumC_length' pre ws0 post items hpre hws0 hpost hv.valid hnd

end EnumScan

#print axioms EnumScan.enumC_events
#print axioms EnumScan.enumC_filter
#print axioms EnumScan.enumC_values
#print axioms EnumScan.enumC_duplicate
#print axioms EnumScan.enumC_exponent
#print axioms EnumScan.enumC_length
