import JSight.CommentRun
/-!
C13, user comments: the scanner model over a whole layout (`List Lay.LI`: blanks, line comments, block comments),
and the closing phase after a value when the layout that follows starts with a comment.
-/
namespace Lay
open SchemaScan

/-! ### bytes and byte classes -/

theorem cls_nl (c : UInt8) : (classify c == Cls.nl) = isNlB c := by
  have := Bytes.forall_uint8 (fun c => (classify c == Cls.nl) == isNlB c) (by decide +kernel) c
  simpa using this

theorem cls_hash (c : UInt8) : (classify c == Cls.hash) = (c == 35) := by
  have := Bytes.forall_uint8 (fun c => (classify c == Cls.hash) == (c == 35)) (by decide +kernel) c
  simpa using this

theorem cls_sptab (c : UInt8) (hb : isBlankB c = true) (hn : isNlB c = false) : (classify c).isSpTab = true := by
  simp only [isBlankB, Bool.or_eq_true, beq_iff_eq] at hb
  rcases hb with ((rfl | rfl) | rfl) | rfl
  · rfl
  · rfl
  · simp [isNlB] at hn
  · simp [isNlB] at hn

theorem cls_eq_nl {c : UInt8} (h : isNlB c = true) : classify c = .nl := by
  have := cls_nl c; rw [h] at this; simpa using this

theorem cls_ne_nl {c : UInt8} (h : isNlB c = false) : classify c ≠ .nl := by
  have := cls_nl c; rw [h] at this; simpa using this

theorem noTriple_cls : ∀ (l : List UInt8), noTripleC (l.map classify) = noTriple l
  | [] => by simp [noTripleC, noTriple]
  | [_] => by simp [noTripleC, noTriple]
  | [_, _] => by simp [noTripleC, noTriple]
  | a :: b :: c :: rest => by
    have ih := noTriple_cls (b :: c :: rest)
    simp only [List.map_cons] at ih
    simp only [List.map_cons, noTripleC, noTriple, cls_hash, ih]

/-! ### what a layout delivers -/

/-- the lexical events of a layout item at offset `o`: a line break gives one `newLine`; a line comment one for the
comment (at its last byte) and one for its line break; a block comment none -/
def LI.evs (o : Nat) : LI → List Ev
  | .blank b => if isNlB b then [⟨.newLine, o, o⟩] else []
  | .line text _ => [⟨.newLine, o + text.length, o + text.length⟩, ⟨.newLine, o + text.length + 1, o + text.length + 1⟩]
  | .block _ => []

/-- the scanner state after the item (only `objKey` is changed by a line end) -/
def LI.st (st : St) : LI → St
  | .blank b => if isNlB b then nlSt st else st
  | .line _ _ => nlSt st
  | .block _ => st

def layEvs : Nat → List LI → List Ev
  | _, [] => []
  | o, it :: w => it.evs o ++ layEvs (o + it.render.length) w

def laySt : St → List LI → St
  | st, [] => st
  | st, it :: w => laySt (it.st st) w

theorem renderL_cons_length (it : LI) (w : List LI) : (renderL (it :: w)).length = it.render.length + (renderL w).length := by
  simp [renderL]

theorem clsL_cons (it : LI) (w : List LI) : clsL (it :: w) = it.render.map classify ++ clsL w := by
  simp [clsL, renderL]

theorem nlSt_of_ne {st : St} (h : st ≠ .objKey) : nlSt st = st := by
  cases st <;> first | rfl | exact absurd rfl h

theorem LI.st_eq {st : St} (h : st ≠ .objKey) (it : LI) : it.st st = st := by
  cases it <;> simp [LI.st, nlSt_of_ne h]

theorem laySt_eq {st : St} (h : st ≠ .objKey) : ∀ (w : List LI), laySt st w = st
  | [] => rfl
  | it :: w => by simp only [laySt, LI.st_eq h]; exact laySt_eq h w

theorem cmtLoop_itSt {st : St} (h : cmtLoop st = true) (it : LI) : cmtLoop (it.st st) = true := by
  cases it with
  | blank b => simp only [LI.st]; split; exact cmtLoop_nlSt h; exact h
  | line _ _ => exact cmtLoop_nlSt h
  | block _ => exact h

theorem keySt_nlSt {st : St} (h : keySt st = true) : keySt (nlSt st) = true := by
  cases st <;> simp [keySt] at h <;> rfl

theorem keySt_laySt {st : St} (h : keySt st = true) : ∀ (w : List LI), keySt (laySt st w) = true
  | [] => h
  | it :: w => by
    simp only [laySt]
    apply keySt_laySt
    cases it with
    | blank b => simp only [LI.st]; split; exact keySt_nlSt h; exact h
    | line _ _ => exact keySt_nlSt h
    | block _ => exact h

/-- a layout without comments is white space, with the events of white space -/
theorem layEvs_plain : ∀ (w : List LI), PlainL w → ∀ (o : Nat), layEvs o w = nlEvs o (clsL w)
  | [], _, _ => rfl
  | it :: w, hp, o => by
    have ih := layEvs_plain w (fun x hx => hp x (by simp [hx])) (o + 1)
    have hpl := hp it (by simp)
    cases it with
    | blank b =>
      simp only [layEvs, LI.evs, LI.render, List.length_cons, List.length_nil, clsL_cons, List.map_cons, List.map_nil,
        List.cons_append, List.nil_append, nlEvs, ih]
      congr 1
      cases hb : isNlB b
      · simp [cls_ne_nl hb]
      · simp [cls_eq_nl hb]
    | line _ _ => simp [LI.isBlank] at hpl
    | block _ => simp [LI.isBlank] at hpl

variable {data : Array Cls}

/-! ### a comment behind its first `#` -/

/-- the rest of a comment item after its first byte `#` at offset `h`, in the state that was pushed -/
theorem cmt_tail (it : LI) (hv : it.Valid) (hc : it.isBlank = false) {r0 : St} (hl : cmtLoop r0 = true)
    (K : List (LexT × Nat)) (h : Nat) (CS : List Ctx) (cx : Ctx) (al : Bool)
    (hat : At data h (it.render.map classify)) :
    ∃ al', Steps data (cfg .anyCommentStart [r0] K false (h + 1) CS cx al) (it.evs h)
      (cfg (it.st r0) [] K false (h + it.render.length) CS cx al') := by
  cases it with
  | blank b => simp [LI.isBlank] at hc
  | line text nl =>
    obtain ⟨hne, hhd, hnl⟩ := hv
    simp only [LI.render, List.map_cons, List.map_append, List.map_nil, cls_eq_nl hnl] at hat
    obtain ⟨_, hat'⟩ := hat
    have h1 := cmt_line_run (text.map classify)
      (by intro c hc; obtain ⟨b, hb, rfl⟩ := List.mem_map.1 hc; exact cls_ne_nl (hne b hb))
      (by
        cases text with
        | nil => simp
        | cons b bs =>
          simp only [List.map_cons, List.head?_cons, ne_eq, Option.some.injEq] at hhd ⊢
          intro e
          have := cls_hash b
          rw [e] at this
          simp at this
          exact hhd this)
      r0 K h CS cx al hat'
    simp only [List.length_map] at h1
    have hnlat : data[h + 1 + text.length]? = some .nl := by
      rw [At_append] at hat'
      simpa using hat'.2.1
    have h2 := S_nl (cmtLoop_wsLoop hl) K (h + 1 + text.length) CS cx al hnlat
    refine ⟨nlAl r0 al, (Steps.trans h1 h2).cast ?_ (cfg_congr rfl ?_)⟩
    · simp only [LI.evs, List.cons_append, List.nil_append]
      rw [show h + 1 + text.length = h + text.length + 1 by omega]
    · simp only [LI.render, List.length_cons, List.length_append, List.length_nil]; omega
  | block body =>
    obtain ⟨hhd, hnt⟩ := hv
    simp only [LI.render, List.map_cons, List.map_append, List.map_nil] at hat
    obtain ⟨_, hat'⟩ := hat
    have e35 : classify 35 = Cls.hash := rfl
    rw [e35] at hat'
    have h1 := cmt_block_run (body.map classify)
      (by
        cases body with
        | nil => rfl
        | cons b bs =>
          simp only [List.cons_append, List.head?_cons, Option.some.injEq] at hhd
          subst hhd
          rfl)
      (by
        have := noTriple_cls (body ++ [35, 35])
        simp only [List.map_append, List.map_cons, List.map_nil, e35] at this
        rw [this]; exact hnt)
      r0 K h CS cx al hat'
    simp only [List.length_map] at h1
    refine ⟨al, h1.cast rfl (cfg_congr rfl ?_)⟩
    simp only [LI.render, List.length_cons, List.length_append, List.length_nil]; omega

/-! ### one item, a whole layout -/

theorem comment_head {it : LI} (hc : it.isBlank = false) : ∃ rest, it.render.map classify = .hash :: rest := by
  cases it with
  | blank b => simp [LI.isBlank] at hc
  | line text nl => exact ⟨_, rfl⟩
  | block body => exact ⟨_, rfl⟩

theorem item_run (it : LI) (hv : it.Valid) {st : St} (hl : cmtLoop st = true)
    (K : List (LexT × Nat)) (i : Nat) (CS : List Ctx) (cx : Ctx) (al : Bool)
    (hat : At data i (it.render.map classify)) :
    ∃ al', Steps data (cfg st [] K false i CS cx al) (it.evs i)
      (cfg (it.st st) [] K false (i + it.render.length) CS cx al') := by
  cases hb : it.isBlank with
  | true =>
    cases it with
    | blank b =>
      have hc : data[i]? = some (classify b) := hat.1
      have hvb : isBlankB b = true := hv
      cases hn : isNlB b with
      | false =>
        refine ⟨al, (S_sp (cmtLoop_wsLoop hl) (cls_sptab b hvb hn) K i CS cx al hc).cast ?_ ?_⟩
        · simp [LI.evs, hn]
        · simp [LI.st, hn, LI.render]
      | true =>
        rw [cls_eq_nl hn] at hc
        refine ⟨nlAl st al, (S_nl (cmtLoop_wsLoop hl) K i CS cx al hc).cast ?_ ?_⟩
        · simp [LI.evs, hn]
        · simp [LI.st, hn, LI.render]
    | line _ _ => simp [LI.isBlank] at hb
    | block _ => simp [LI.isBlank] at hb
  | false =>
    obtain ⟨rest, hr⟩ := comment_head hb
    have hc : data[i]? = some .hash := by rw [hr] at hat; exact hat.1
    obtain ⟨al', h2⟩ := cmt_tail it hv hb hl K i CS cx al hat
    exact ⟨al', by simpa using Steps.trans (S_hash hl K i CS cx al hc) h2⟩

/-- a layout in a state where comments may start -/
theorem lay_run : ∀ (w : List LI), ValidL w → ∀ (st : St), cmtLoop st = true →
    ∀ (K : List (LexT × Nat)) (i : Nat) (CS : List Ctx) (cx : Ctx) (al : Bool), At data i (clsL w) →
    ∃ al', Steps data (cfg st [] K false i CS cx al) (layEvs i w)
      (cfg (laySt st w) [] K false (i + (renderL w).length) CS cx al')
  | [], _, st, _, K, i, CS, cx, al, _ => ⟨al, Steps.refl _ _⟩
  | it :: w, hv, st, hl, K, i, CS, cx, al, hat => by
    rw [clsL_cons, At_append] at hat
    obtain ⟨al1, h1⟩ := item_run it (hv it (by simp)) hl K i CS cx al hat.1
    rw [List.length_map] at hat
    obtain ⟨al2, h2⟩ := lay_run w (fun x hx => hv x (by simp [hx])) (it.st st) (cmtLoop_itSt hl it) K
      (i + it.render.length) CS cx al1 hat.2
    refine ⟨al2, (Steps.trans h1 h2).cast rfl (cfg_congr rfl ?_)⟩
    rw [renderL_cons_length]; omega

/-! ### the closing phase after a value, the following layout first -/

theorem pv_byte_hash {st : St} (hst : PV st = true)
    {K : List (LexT × Nat)} {i : Nat} {CS : List Ctx} {cx : Ctx} {al : Bool} {s1 s2 : Sc} {evs : List Ev}
    (hc : data[i]? = some .hash)
    (he : ∀ p1 p2, endValue 7 (cfg st [] K false (i + 1) CS cx al) .hash p1 p2 = .ok s1)
    (hi : s1.index = i + 1) (hdr : drainL data s1.finds s1 = .ok (s2, evs)) :
    Steps data (cfg st [] K false i CS cx al) evs s2 :=
  cfg_byte hc (fun p1 p2 => (pv_dispatch_hash 7 st hst _ p1 p2).trans (he p1 p2)) hi hdr

/-- `#` right behind an array item or a member value: the pending pairs are closed, then the comment starts -/
theorem S_close_hash {st : St} (hst : PV st = true) (lit : Bool) (ck : CK) (hck : cmtLoop ck.aft = true) (b b2 : Nat)
    (R : List (LexT × Nat)) (i : Nat) (CS : List Ctx) (cx : Ctx) (al : Bool) (hc : data[i]? = some .hash) :
    Steps data (cfg st [] (pendOf lit b ++ (ck.B, b2) :: R) false i CS cx al) (closersOf lit ck b b2 (i - 1))
      (cfg .anyCommentStart [ck.aft] R false (i + 1) CS cx al) := by
  refine pv_byte_hash hst hc
    (fun p1 p2 => (ev_close 7 st lit ck b b2 R (i + 1) CS cx al .hash p1 p2).trans
      (loop_hash 6 ck.aft hck _ (i + 1) CS cx al _ p1 p2)) rfl ?_
  cases lit <;> cases ck <;> first | rfl | (simp [CK.aft, cmtLoop] at hck)

/-- `#` right behind the top-level value -/
theorem S_root_hash {st : St} (hst : PV st = true) (lit : Bool) (b : Nat)
    (i : Nat) (CS : List Ctx) (cx : Ctx) (al : Bool) (hc : data[i]? = some .hash) :
    Steps data (cfg st [] (pendOf lit b) false i CS cx al) (rootClosers lit b (i - 1))
      (cfg .anyCommentStart [.endTop] [] false (i + 1) CS cx al) := by
  refine pv_byte_hash hst hc
    (fun p1 p2 => (ev_root 7 st lit b (i + 1) CS cx al .hash p1 p2).trans
      (loop_hash 6 .endTop rfl _ (i + 1) CS cx al _ p1 p2)) rfl ?_
  cases lit <;> rfl

theorem aft_ne (ck : CK) : ck.aft ≠ .objKey := by cases ck <;> simp [CK.aft]

/-- a non-empty layout after an array item or a member value: its first byte closes the pending pairs -/
theorem close_lay {st : St} (hst : PV st = true) (lit : Bool) (ck : CK) (hck : cmtLoop ck.aft = true) (b b2 : Nat)
    (R : List (LexT × Nat)) (it : LI) (w : List LI) (hw : ValidL (it :: w)) (i : Nat) (CS : List Ctx) (cx : Ctx)
    (al : Bool) (hat : At data i (clsL (it :: w))) :
    ∃ al', Steps data (cfg st [] (pendOf lit b ++ (ck.B, b2) :: R) false i CS cx al)
      (closersOf lit ck b b2 (i - 1) ++ layEvs i (it :: w))
      (cfg ck.aft [] R false (i + (renderL (it :: w)).length) CS cx al') := by
  rw [clsL_cons, At_append, List.length_map] at hat
  obtain ⟨hat1, hat2⟩ := hat
  have hvi := hw it (by simp)
  -- the first item, from the post-value state
  have first : ∃ al1, Steps data (cfg st [] (pendOf lit b ++ (ck.B, b2) :: R) false i CS cx al)
      (closersOf lit ck b b2 (i - 1) ++ it.evs i) (cfg ck.aft [] R false (i + it.render.length) CS cx al1) := by
    cases hb : it.isBlank with
    | true =>
      cases it with
      | blank bb =>
        have hc : data[i]? = some (classify bb) := hat1.1
        have hvb : isBlankB bb = true := hvi
        cases hn : isNlB bb with
        | false =>
          refine ⟨al, (S_close_sp hst (cls_sptab bb hvb hn) lit ck b b2 R i CS cx al hc).cast ?_ ?_⟩
          · simp [LI.evs, hn]
          · simp [LI.render]
        | true =>
          rw [cls_eq_nl hn] at hc
          refine ⟨al, (S_close_nl hst lit ck b b2 R i CS cx al hc).cast ?_ ?_⟩
          · simp [LI.evs, hn]
          · simp [LI.render]
      | line _ _ => simp [LI.isBlank] at hb
      | block _ => simp [LI.isBlank] at hb
    | false =>
      obtain ⟨rest, hr⟩ := comment_head hb
      have hc : data[i]? = some .hash := by rw [hr] at hat1; exact hat1.1
      obtain ⟨al', h2⟩ := cmt_tail it hvi hb hck R i CS cx al hat1
      rw [LI.st_eq (aft_ne ck)] at h2
      exact ⟨al', Steps.trans (S_close_hash hst lit ck hck b b2 R i CS cx al hc) h2⟩
  obtain ⟨al1, h1⟩ := first
  obtain ⟨al2, h2⟩ := lay_run w (fun x hx => hw x (by simp [hx])) ck.aft hck R (i + it.render.length) CS cx al1 hat2
  rw [laySt_eq (aft_ne ck)] at h2
  refine ⟨al2, (Steps.trans h1 h2).cast ?_ (cfg_congr rfl ?_)⟩
  · simp [layEvs, List.append_assoc]
  · rw [renderL_cons_length]; omega

/-- layout, then `,` after an array item or a member value -/
theorem close_sep_lay {st : St} (hst : PV st = true) (lit : Bool) (ck : CK) (hck : cmtLoop ck.aft = true) (b b2 : Nat)
    (R : List (LexT × Nat)) (w : List LI) (hw : ValidL w) (i : Nat) (CS : List Ctx) (cx : Ctx) (al : Bool)
    (hat : At data i (clsL w ++ [ck.sep])) :
    ∃ al', Steps data (cfg st [] (pendOf lit b ++ (ck.B, b2) :: R) false i CS cx al)
      (closersOf lit ck b b2 (i - 1) ++ layEvs i w) (cfg ck.nxt [] R false (i + (renderL w).length + 1) CS cx al') := by
  cases w with
  | nil =>
    refine ⟨al, ?_⟩
    simp only [layEvs, List.append_nil, renderL, List.length_nil, Nat.add_zero]
    exact S_close_sep hst lit ck b b2 R i CS cx al hat.1
  | cons it w =>
    rw [At_append, clsL_length] at hat
    obtain ⟨al', h1⟩ := close_lay hst lit ck hck b b2 R it w hw i CS cx al hat.1
    have h2 := S_aft_sep ck R (i + (renderL (it :: w)).length) CS cx al' hat.2.1
    refine ⟨al', ?_⟩
    have := Steps.trans h1 h2
    rw [List.append_nil] at this
    exact this

/-- layout, then `]` -/
theorem close_rbrack_lay {st : St} (hst : PV st = true) (lit : Bool) (b b2 a : Nat) (K : List (LexT × Nat))
    (w : List LI) (hw : ValidL w) (i : Nat) (c0 : Ctx) (CS : List Ctx) (cx : Ctx) (al : Bool)
    (hat : At data i (clsL w ++ [.rbrack])) :
    ∃ al', Steps data (cfg st [] (pendOf lit b ++ (.itemB, b2) :: (.arrB, a) :: K) false i (c0 :: CS) cx al)
      (closersOf lit .item b b2 (i - 1) ++ (layEvs i w ++ [⟨.arrE, a, i + (renderL w).length⟩]))
      (cfg .endValue [] K false (i + (renderL w).length + 1) CS c0 al') := by
  cases w with
  | nil =>
    refine ⟨!cx.arrayHasItem, ?_⟩
    simp only [layEvs, List.nil_append, renderL, List.length_nil, Nat.add_zero]
    exact S_close_rbrack hst lit b b2 a K i c0 CS cx al hat.1
  | cons it w =>
    rw [At_append, clsL_length] at hat
    obtain ⟨al', h1⟩ := close_lay hst lit .item rfl b b2 ((.arrB, a) :: K) it w hw i (c0 :: CS) cx al hat.1
    have h2 := S_aft_rbrack a K (i + (renderL (it :: w)).length) c0 CS cx al' hat.2.1
    refine ⟨!cx.arrayHasItem, ?_⟩
    have := Steps.trans h1 h2
    rw [List.append_assoc] at this
    exact this

/-- layout, then `}` -/
theorem close_rbrace_lay {st : St} (hst : PV st = true) (lit : Bool) (b b2 a : Nat) (K : List (LexT × Nat))
    (w : List LI) (hw : ValidL w) (i : Nat) (c0 : Ctx) (CS : List Ctx) (cx : Ctx) (al : Bool)
    (hat : At data i (clsL w ++ [.rbrace])) :
    ∃ al', Steps data (cfg st [] (pendOf lit b ++ (.valB, b2) :: (.objB, a) :: K) false i (c0 :: CS) cx al)
      (closersOf lit .val b b2 (i - 1) ++ (layEvs i w ++ [⟨.objE, a, i + (renderL w).length⟩]))
      (cfg .endValue [] K false (i + (renderL w).length + 1) CS c0 al') := by
  cases w with
  | nil =>
    refine ⟨al, ?_⟩
    simp only [layEvs, List.nil_append, renderL, List.length_nil, Nat.add_zero]
    exact S_close_rbrace hst lit b b2 a K i c0 CS cx al hat.1
  | cons it w =>
    rw [At_append, clsL_length] at hat
    obtain ⟨al', h1⟩ := close_lay hst lit .val rfl b b2 ((.objB, a) :: K) it w hw i (c0 :: CS) cx al hat.1
    have h2 := S_aft_rbrace a K (i + (renderL (it :: w)).length) c0 CS cx al' hat.2.1
    refine ⟨al', ?_⟩
    have := Steps.trans h1 h2
    rw [List.append_assoc] at this
    exact this

/-! ### the end of the text -/

/-- what may stand at the very end: nothing, or a line comment that is not ended by a line break -/
def IsFin (fin : List UInt8) : Prop :=
  fin = [] ∨ ∃ text, fin = 35 :: text ∧ (∀ c ∈ text, isNlB c = false) ∧ text.head? ≠ some (35 : UInt8)

theorem fin_cls {text : List UInt8} (hne : ∀ c ∈ text, isNlB c = false) (hhd : text.head? ≠ some (35 : UInt8)) :
    (∀ c ∈ text.map classify, c ≠ Cls.nl) ∧ (text.map classify).head? ≠ some Cls.hash := by
  constructor
  · intro c hc; obtain ⟨b, hb, rfl⟩ := List.mem_map.1 hc; exact cls_ne_nl (hne b hb)
  · cases text with
    | nil => simp
    | cons b bs =>
      simp only [List.map_cons, List.head?_cons, ne_eq, Option.some.injEq] at hhd ⊢
      intro e
      have := cls_hash b
      rw [e] at this
      simp at this
      exact hhd this

/-- in `endTop` with nothing open: an unterminated line comment up to the end of input delivers nothing -/
theorem fin_run (fin : List UInt8) (hf : IsFin fin) (i : Nat) (CS : List Ctx) (cx : Ctx) (al : Bool)
    (hat : At data i (fin.map classify)) (hn : data.size = i + fin.length) :
    Emits data (cfg .endTop [] [] false i CS cx al) [] := by
  rcases hf with rfl | ⟨text, rfl, hne, hhd⟩
  · exact Emits.done rfl (by simp only [cfg]; simp at hn; omega) rfl
  · obtain ⟨h1, h2⟩ := fin_cls hne hhd
    simp only [List.map_cons] at hat
    obtain ⟨hc, hat'⟩ := hat
    have e35 : classify 35 = Cls.hash := rfl
    rw [e35] at hc
    have s1 := S_hash (st := .endTop) rfl [] i CS cx al hc
    have s2 := cmt_eof (text.map classify) h1 h2 [.endTop] (i + 1) CS cx al hat'
      (by simp only [List.length_cons, List.length_map] at hn ⊢; omega)
    exact s1.emits s2

/-- trailing layout and the end of the text after the top-level value -/
theorem close_root_lay {st : St} (hst : PV st = true) (lit : Bool) (b : Nat)
    (w : List LI) (hw : ValidL w) (fin : List UInt8) (hf : IsFin fin) (i : Nat) (CS : List Ctx) (cx : Ctx) (al : Bool)
    (hat : At data i (clsL w ++ fin.map classify)) (hn : data.size = i + (renderL w).length + fin.length) :
    Emits data (cfg st [] (pendOf lit b) false i CS cx al) (rootClosers lit b (i - 1) ++ layEvs i w) := by
  rw [At_append, clsL_length] at hat
  obtain ⟨hatw, hatf⟩ := hat
  cases w with
  | nil =>
    simp only [renderL, List.length_nil, Nat.add_zero] at hn hatf
    simp only [layEvs, List.append_nil]
    rcases hf with rfl | ⟨text, rfl, hne, hhd⟩
    · simp only [List.length_nil, Nat.add_zero] at hn
      cases lit
      · exact Emits.done rfl (by simp only [cfg]; omega) rfl
      · exact Emits.eofLit (s := cfg st [] (pendOf true b) false i CS cx al) rfl (by simp only [cfg]; omega) rfl rfl
    · obtain ⟨h1, h2⟩ := fin_cls hne hhd
      simp only [List.map_cons] at hatf
      obtain ⟨hc, hat'⟩ := hatf
      have e35 : classify 35 = Cls.hash := rfl
      rw [e35] at hc
      have s1 := S_root_hash hst lit b i CS cx al hc
      have s2 := cmt_eof (text.map classify) h1 h2 [.endTop] (i + 1) CS cx al hat'
        (by simp only [List.length_cons, List.length_map] at hn ⊢; omega)
      have := s1.emits s2
      rw [List.append_nil] at this
      exact this
  | cons it w =>
    rw [clsL_cons, At_append, List.length_map] at hatw
    obtain ⟨hat1, hat2⟩ := hatw
    have hvi := hw it (by simp)
    have first : ∃ al1, Steps data (cfg st [] (pendOf lit b) false i CS cx al)
        (rootClosers lit b (i - 1) ++ it.evs i) (cfg .endTop [] [] false (i + it.render.length) CS cx al1) := by
      cases hb : it.isBlank with
      | true =>
        cases it with
        | blank bb =>
          have hc : data[i]? = some (classify bb) := hat1.1
          have hvb : isBlankB bb = true := hvi
          cases hnb : isNlB bb with
          | false =>
            refine ⟨al, (S_root_sp hst (cls_sptab bb hvb hnb) lit b i CS cx al hc).cast ?_ ?_⟩
            · simp [LI.evs, hnb]
            · simp [LI.render]
          | true =>
            rw [cls_eq_nl hnb] at hc
            refine ⟨al, (S_root_nl hst lit b i CS cx al hc).cast ?_ ?_⟩
            · simp [LI.evs, hnb]
            · simp [LI.render]
        | line _ _ => simp [LI.isBlank] at hb
        | block _ => simp [LI.isBlank] at hb
      | false =>
        obtain ⟨rest, hr⟩ := comment_head hb
        have hc : data[i]? = some .hash := by rw [hr] at hat1; exact hat1.1
        obtain ⟨al', h2⟩ := cmt_tail it hvi hb (r0 := .endTop) rfl [] i CS cx al hat1
        rw [LI.st_eq (by simp)] at h2
        exact ⟨al', Steps.trans (S_root_hash hst lit b i CS cx al hc) h2⟩
    obtain ⟨al1, h1⟩ := first
    obtain ⟨al2, h2⟩ := lay_run w (fun x hx => hw x (by simp [hx])) .endTop rfl [] (i + it.render.length) CS cx al1 hat2
    rw [laySt_eq (by simp)] at h2
    have hend := fin_run fin hf (i + it.render.length + (renderL w).length) CS cx al2
      (by rw [renderL_cons_length] at hatf; rw [Nat.add_assoc]; exact hatf)
      (by rw [renderL_cons_length] at hn; omega)
    have := (Steps.trans h1 h2).emits hend
    simp only [List.append_nil] at this
    simpa [layEvs, List.append_assoc] using this

end Lay
