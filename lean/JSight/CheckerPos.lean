import JSight.CheckerTraverse
/-!
# C04 — where the error of a node-local check sits

Every panic that leaves `checkNode` because of the node's own checks is a `DocumentError` at the node's basis lexeme
(file, `Begin()`): the first byte of a literal, the `{` / `[` of a container — except the two errors of
`ensureShortcutKeysAreValid` (1302, 1304), which sit at the lexeme of the offending KEY (a key shortcut `@name`).
-/
namespace CK
open RulesF (Oracles)

/-- a panic that already carries a position -/
def Panic.isDoc : Panic → Bool
  | .doc _ _ _ => true
  | _ => false

theorem catchLex_of_not_doc (lex : Lex) (p : Panic) (h : p.isDoc = false) :
    (∃ c, catchLex lex p = .doc c lex.file lex.begin) ∨ (∃ w, catchLex lex p = .crash w) := by
  cases p with
  | raw c => exact .inl ⟨c, rfl⟩
  | other => exact .inl ⟨0, rfl⟩
  | crash w => exact .inr ⟨w, rfl⟩
  | doc c f q => simp [Panic.isDoc] at h

theorem compatErr_not_doc (i : Info) (p : Panic) (h : compatErr i = some p) : p.isDoc = false := by
  unfold compatErr at h
  split at h
  · simp at h
  · split at h
    · cases h; rfl
    · simp at h

theorem collectNames_not_doc (rec : List Name → Info → List JT → Except Panic (List JT)) (env : Env)
    (hrec : ∀ f i a p, rec f i a = .error p → p.isDoc = false) (found : List Name) :
    ∀ (ns : List Name) (acc : List JT) (p : Panic), collectNames rec env found ns acc = .error p → p.isDoc = false
  | [], acc, p, h => by simp [collectNames] at h
  | n :: ns, acc, p, h => by
    unfold collectNames at h
    split at h
    · cases h; rfl
    · split at h
      · cases h; rfl
      · rename_i t _
        split at h
        · rename_i e he
          cases h; exact hrec _ _ _ _ he
        · exact collectNames_not_doc rec env hrec found ns _ p h

theorem collect_not_doc (env : Env) :
    ∀ (fuel : Nat) (found : List Name) (i : Info) (acc : List JT) (p : Panic),
      collect env fuel found i acc = .error p → p.isDoc = false
  | 0, _, _, _, p, h => by cases h; rfl
  | f + 1, found, i, acc, p, h => by
    unfold collect at h
    split at h
    · split at h
      · split at h
        · cases h; rfl
        · simp at h
      · simp at h
    · split at h
      · simp at h
      · exact collectNames_not_doc _ env (collect_not_doc env f) found _ acc p h

theorem linksErr_not_doc (env : Env) (i : Info) (p : Panic) (h : linksErr env i = some p) : p.isDoc = false := by
  unfold linksErr at h
  split at h
  · simp at h
  · split at h
    · rename_i e he
      cases h; exact collect_not_doc env _ _ _ _ _ he
    · split at h
      · simp at h
      · split at h
        · simp at h
        · cases h; rfl

theorem buildNames_not_doc (rec : Info → List Name × List Chk → Except Panic (List Name × List Chk)) (env : Env)
    (hrec : ∀ i st p, rec i st = .error p → p.isDoc = false) :
    ∀ (ns : List Name) (st : List Name × List Chk) (p : Panic), buildNames rec env ns st = .error p → p.isDoc = false
  | [], st, p, h => by simp [buildNames] at h
  | n :: ns, (added, l), p, h => by
    unfold buildNames at h
    split at h
    · exact buildNames_not_doc rec env hrec ns _ p h
    · split at h
      · cases h; rfl
      · split at h
        · rename_i e he
          cases h; exact hrec _ _ _ he
        · exact buildNames_not_doc rec env hrec ns _ p h

theorem build_not_doc (env : Env) :
    ∀ (fuel : Nat) (i : Info) (st : List Name × List Chk) (p : Panic), build env fuel i st = .error p → p.isDoc = false
  | 0, _, _, p, h => by cases h; rfl
  | f + 1, i, (added, l), p, h => by
    unfold build at h
    split at h
    · exact buildNames_not_doc _ env (build_not_doc env f) _ _ p h
    · split at h
      · simp at h
      · cases h; rfl

theorem literalVerdict_pos (o : Oracles) (lex : Lex) (l : List Chk) (p : Panic) (h : literalVerdict o lex l = some p) :
    ∃ c, p = .doc c lex.file lex.begin := by
  unfold literalVerdict at h
  split at h
  · split at h
    · rename_i c _
      cases hc : c.check o lex with
      | none => simp [hc] at h
      | some code => simp [hc] at h; exact ⟨code, h.symm⟩
    · cases h; exact ⟨204, rfl⟩
  · simp at h

theorem literalErr_pos (o : Oracles) (env : Env) (i : Info) (p : Panic) (h : literalErr o env i = some p) :
    p.isDoc = false ∨ ∃ c, p = .doc c i.lex.file i.lex.begin := by
  unfold literalErr checkerList at h
  split at h
  · rename_i e he
    split at he
    · rename_i e' he'
      cases he; cases h
      exact .inl (build_not_doc env _ _ _ _ he')
    · simp at he
  · exact .inr (literalVerdict_pos o _ _ p h)

theorem arrayItemsNames_not_doc (rec : Hd → Option Panic) (env : Env)
    (hrec : ∀ h p, rec h = some p → p.isDoc = false) :
    ∀ (ns : List Name) (p : Panic), arrayItemsNames rec env ns = some p → p.isDoc = false
  | [], p, h => by simp [arrayItemsNames] at h
  | n :: ns, p, h => by
    unfold arrayItemsNames at h
    split at h
    · cases h; rfl
    · split at h
      · split at h
        · rename_i q hq
          cases h; exact hrec _ _ hq
        · exact arrayItemsNames_not_doc rec env hrec ns p h
      · exact arrayItemsNames_not_doc rec env hrec ns p h

theorem arrayItems_not_doc (env : Env) :
    ∀ (fuel : Nat) (h : Hd) (p : Panic), arrayItems env fuel h = some p → p.isDoc = false
  | 0, _, p, h => by cases h; rfl
  | f + 1, hd, p, h => by
    unfold arrayItems at h
    split at h
    · simp at h
    · split at h
      · simp at h
      · split at h
        · simp at h
        · exact arrayItemsNames_not_doc _ env (arrayItems_not_doc env f) _ p h

theorem arrayNodeErr_not_doc (h : Hd) (p : Panic) (hp : arrayNodeErr h = some p) : p.isDoc = false := by
  unfold arrayNodeErr at hp
  repeat' split at hp
  all_goals first | (cases hp; rfl) | simp at hp

theorem addPropsErr_not_doc (env : Env) (i : Info) (p : Panic) (hp : addPropsErr env i = some p) : p.isDoc = false := by
  unfold addPropsErr at hp
  split at hp
  · split at hp
    · cases hp; rfl
    · simp at hp
  · simp at hp

/-- the errors of `ensureShortcutKeysAreValid` sit at the lexeme of a key shortcut -/
theorem keysErr_pos (env : Env) : ∀ (ks : List Key) (p : Panic), keysErr env ks = some p →
    (∃ k ∈ ks, k.shortcut = true ∧ ∃ c, (c = 1302 ∨ c = 1304) ∧ p = .doc c k.lex.file k.lex.begin) ∨ (∃ w, p = .crash w)
  | [], p, h => by simp [keysErr] at h
  | k :: ks, p, h => by
    unfold keysErr at h
    split at h
    · rcases keysErr_pos env ks p h with ⟨k', hk', r⟩ | r
      · exact .inl ⟨k', List.mem_cons_of_mem _ hk', r⟩
      · exact .inr r
    · rename_i hs
      have hs' : k.shortcut = true := by simpa using hs
      split at h
      · cases h; exact .inl ⟨k, List.mem_cons_self, hs', 1302, .inl rfl, rfl⟩
      · split at h
        · cases h; exact .inr ⟨_, rfl⟩
        · split at h
          · cases h; exact .inl ⟨k, List.mem_cons_self, hs', 1304, .inr rfl, rfl⟩
          · rcases keysErr_pos env ks p h with ⟨k', hk', r⟩ | r
            · exact .inl ⟨k', List.mem_cons_of_mem _ hk', r⟩
            · exact .inr r

theorem orElse_some (a : Option Panic) (b : Unit → Option Panic) (p : Panic) (h : orElse a b = some p) :
    a = some p ∨ (a = none ∧ b () = some p) := by
  cases a with
  | some q => exact .inl h
  | none => exact .inr ⟨rfl, h⟩

/-- POSITION: the error of a node's own check sits at the node's basis lexeme — or, for the two key-shortcut errors of an
object, at the lexeme of that key -/
theorem nodeErr_pos (o : Oracles) (env : Env) (hd : Hd) (p : Panic) (h : nodeErr o env hd = some p) :
    (∃ c, p = .doc c hd.info.lex.file hd.info.lex.begin) ∨
    (hd.info.nk = .obj ∧ ∃ k ∈ hd.info.keys, k.shortcut = true ∧ ∃ c, (c = 1302 ∨ c = 1304) ∧ p = .doc c k.lex.file k.lex.begin) ∨
    (∃ w, p = .crash w) := by
  unfold nodeErr at h
  simp only [Option.map_eq_some_iff] at h
  obtain ⟨q, hq, rfl⟩ := h
  have fromNotDoc : ∀ {P : Prop}, q.isDoc = false →
      (∃ c, catchLex hd.info.lex q = .doc c hd.info.lex.file hd.info.lex.begin) ∨ P ∨
      (∃ w, catchLex hd.info.lex q = .crash w) := fun hnd => by
    rcases catchLex_of_not_doc hd.info.lex q hnd with r | r
    · exact .inl r
    · exact .inr (.inr r)
  rcases orElse_some _ _ _ hq with h1 | ⟨_, h2⟩
  · exact fromNotDoc (compatErr_not_doc _ _ h1)
  · rcases orElse_some _ _ _ h2 with h3 | ⟨_, h4⟩
    · exact fromNotDoc (linksErr_not_doc _ _ _ h3)
    · cases hk : hd.info.nk with
      | lit =>
        rw [hk] at h4
        rcases literalErr_pos o env _ _ h4 with r | ⟨c, rfl⟩
        · exact fromNotDoc r
        · exact .inl ⟨c, rfl⟩
      | arr =>
        rw [hk] at h4
        rcases orElse_some _ _ _ h4 with h5 | ⟨_, h6⟩
        · exact fromNotDoc (arrayItems_not_doc _ _ _ _ h5)
        · exact fromNotDoc (arrayNodeErr_not_doc _ _ h6)
      | obj =>
        rw [hk] at h4
        rcases orElse_some _ _ _ h4 with h5 | ⟨_, h6⟩
        · rcases keysErr_pos env _ _ h5 with ⟨k, hkm, hs, c, hc, rfl⟩ | ⟨w, rfl⟩
          · exact .inr (.inl ⟨rfl, k, hkm, hs, c, hc, rfl⟩)
          · exact .inr (.inr ⟨w, rfl⟩)
        · exact fromNotDoc (addPropsErr_not_doc _ _ _ h6)
      | mixed => rw [hk] at h4; simp at h4
      | mixedValue => rw [hk] at h4; simp at h4

end CK
