import JSight.AnnotQList
/-!
Annotations with QUOTED rule names and LIST values, scanner level: the rule object and the whole annotated scalar.
`QRule` = a `CRule` whose `name` field is a bare name or a quoted token (`qn`) and whose `val` field is a literal token
or a list `[ items ]` of literal tokens (`v`); `QObj`; `annEvsQ`; `annot_emitsQ`: the events of `value // {rules}` /
`value /* {rules} */` for this grammar.
-/
namespace SchemaScan

variable {data : Array Cls}

/-- the kind of a rule value -/
inductive QV
  | lit
  | list (w0 : List Cls) (items : List CItem)

structure QRule where
  c : CRule
  /-- the name is a quoted token (`c.name` holds it with its quotes) -/
  qn : Bool
  /-- what `c.val` is -/
  v : QV

def QV.Valid (a : Ann) (val : List Cls) : QV → Prop
  | .lit => IsScalar val
  | .list w0 items => val = Cls.lbrack :: (w0 ++ renderCItems items) ∧ ABlank a w0 ∧ CItemsValid a items

def QRule.Valid (a : Ann) (r : QRule) : Prop :=
  ABlank a r.c.b1 ∧ ((r.qn = true → IsKey r.c.name) ∧ (r.qn = false → IsName r.c.name)) ∧ ABlank a r.c.b3 ∧
    r.v.Valid a r.c.val ∧ ABlank a r.c.b4

/-- last offset of the key-end event: the closing quote, or the byte before the colon -/
def QRule.keyEnd (r : QRule) (p : Nat) : Nat :=
  cond r.qn (r.c.nameOff p + r.c.name.length - 1) (r.c.nameOff p + r.c.name.length + r.c.n2 - 1)

/-- the lexemes still open behind the last byte of the value -/
def QV.pend (vo : Nat) : QV → List (LexT × Nat)
  | .lit => [(.litB, vo), (.valB, vo)]
  | .list _ _ => [(.valB, vo)]

/-- the scanner's state behind the last byte of the value -/
def QV.PendSt : QV → St → Prop
  | .lit, st => PV st = true
  | .list _ _, st => st = .endValue

/-- events from the value-begin to the last byte of the value -/
def QV.openEvs (vo : Nat) : QV → List Ev
  | .lit => [⟨.valB, vo, vo⟩, ⟨.litB, vo, vo⟩]
  | .list w0 items =>
    ⟨.valB, vo, vo⟩ :: ⟨.arrB, vo, vo⟩ :: (nlEvs (vo + 1) w0 ++ citemsEvs vo (vo + 1 + w0.length) items)

/-- the events the byte behind the value delivers -/
def QV.closeEvs (vo e : Nat) : QV → List Ev
  | .lit => [⟨.litE, vo, e⟩, ⟨.valE, vo, e⟩]
  | .list _ _ => [⟨.valE, vo, e⟩]

def QRule.openEvs (r : QRule) (p : Nat) : List Ev :=
  nlEvs p r.c.b1 ++ (⟨.keyB, r.c.nameOff p, r.c.nameOff p⟩ :: ⟨.keyE, r.c.nameOff p, r.keyEnd p⟩ ::
    (nlEvs (r.c.nameOff p + r.c.name.length + r.c.n2 + 1) r.c.b3 ++ r.v.openEvs (r.c.valOff p)))

def QRule.closeEvs (r : QRule) (p : Nat) : List Ev :=
  r.v.closeEvs (r.c.valOff p) (r.c.valOff p + r.c.val.length - 1) ++ nlEvs (r.c.valOff p + r.c.val.length) r.c.b4

def QRule.evs (r : QRule) (p : Nat) : List Ev := r.openEvs p ++ r.closeEvs p

/-- for a bare name and a literal value these are the events of the first grammar -/
theorem QRule.evs_bare (c : CRule) (p : Nat) : (QRule.mk c false .lit).evs p = c.evs p := rfl

theorem qclose_comma (a : Ann) (ha : a.isAnn = true) (q : Bool) (v : QV) {st : St} (hst : v.PendSt st) (b4 : List Cls)
    (hb4 : ABlank a b4) (x : St) (vo : Nat) (K : List (LexT × Nat)) (i : Nat) (CS : List Ctx) (cx : Ctx) (al : Bool)
    (hat : At data i (b4 ++ [Cls.comma])) :
    Steps data (cfgQ a q st [x] (v.pend vo ++ K) false i CS cx al) (v.closeEvs vo (i - 1) ++ nlEvs i b4)
      (cfgQ a q .objKey [x] K false (i + b4.length + 1) CS cx al) := by
  cases v with
  | lit => exact rule_close_commaQ a ha q hst b4 hb4 x vo vo K i CS cx al hat
  | list w0 items =>
    simp only [QV.PendSt] at hst
    subst hst
    exact arr_close_commaQ a ha q b4 hb4 x vo K i CS cx al hat

theorem qclose_rbrace (a : Ann) (ha : a.isAnn = true) (q : Bool) (v : QV) {st : St} (hst : v.PendSt st) (b4 : List Cls)
    (hb4 : ABlank a b4) (x : St) (vo o y : Nat) (R : List (LexT × Nat)) (i : Nat) (c0 : Ctx) (CS : List Ctx) (cx : Ctx)
    (al : Bool) (hat : At data i (b4 ++ [Cls.rbrace])) :
    Steps data (cfgQ a q st [x] (v.pend vo ++ ((.objB, o) :: (a.B, y) :: R)) false i (c0 :: CS) cx al)
      (v.closeEvs vo (i - 1) ++ (nlEvs i b4 ++ [⟨.objE, o, i + b4.length⟩]))
      (cfgQ a q a.prefixSt [x] ((a.B, y) :: R) false (i + b4.length + 1) CS c0 al) := by
  cases v with
  | lit => exact rule_close_rbraceQ a ha q hst b4 hb4 x vo vo o y R i c0 CS cx al hat
  | list w0 items =>
    simp only [QV.PendSt] at hst
    subst hst
    exact arr_close_rbraceQ a ha q b4 hb4 x vo o y R i c0 CS cx al hat

theorem rule_openQ (a : Ann) (ha : a.isAnn = true) (q : Bool) (r : QRule) (hv : r.Valid a) {st : St}
    (hst : keySt st = true)
    (x : St) (K : List (LexT × Nat)) (p : Nat) (CS : List Ctx) (cx : Ctx) (al : Bool)
    (hat : At data p (r.c.b1 ++ (r.c.name ++ (List.replicate r.c.n2 Cls.sp ++ (Cls.colon :: (r.c.b3 ++ r.c.val)))))) :
    ∃ stE, r.v.PendSt stE ∧
      Steps data (cfgQ a q st [x] K false p CS cx al) (r.openEvs p)
        (cfgQ a r.qn stE [x] (r.v.pend (r.c.valOff p) ++ K) false (r.c.valOff p + r.c.val.length) CS cx al) := by
  obtain ⟨hb1, ⟨hq, hb⟩, hb3, hval, _⟩ := hv
  have e : r.c.b1 ++ (r.c.name ++ (List.replicate r.c.n2 Cls.sp ++ (Cls.colon :: (r.c.b3 ++ r.c.val))))
      = (r.c.b1 ++ (r.c.name ++ (List.replicate r.c.n2 Cls.sp ++ [Cls.colon]))) ++ (r.c.b3 ++ r.c.val) := by simp
  rw [e, At_append] at hat
  obtain ⟨hk, hv'⟩ := hat
  have hlen : p + (r.c.b1 ++ (r.c.name ++ (List.replicate r.c.n2 Cls.sp ++ [Cls.colon]))).length
      = p + r.c.b1.length + r.c.name.length + r.c.n2 + 1 := by
    simp only [List.length_append, List.length_cons, List.length_replicate, List.length_nil]; omega
  rw [hlen] at hv'
  -- the name
  have hkey : Steps data (cfgQ a q st [x] K false p CS cx al)
      (nlEvs p r.c.b1 ++ [⟨.keyB, p + r.c.b1.length, p + r.c.b1.length⟩, ⟨.keyE, p + r.c.b1.length, r.keyEnd p⟩])
      (cfgQ a r.qn .objValue [x] K false (p + r.c.b1.length + r.c.name.length + r.c.n2 + 1) CS cx al) := by
    cases hqn : r.qn with
    | false =>
      have s1 := key_run_bare a ha q r.c.b1 r.c.name r.c.n2 hb1 (hb hqn) hst x K p CS cx al hk
      exact s1.cast (by simp [QRule.keyEnd, hqn, CRule.nameOff]) rfl
    | true =>
      have s1 := key_run_quoted a ha q r.c.b1 r.c.name r.c.n2 hb1 (hq hqn) hst x K p CS cx al hk
      exact s1.cast (by simp [QRule.keyEnd, hqn, CRule.nameOff]) rfl
  -- the value
  cases hvk : r.v with
  | lit =>
    rw [hvk] at hval
    obtain ⟨stE, hp, s2⟩ := val_runQ a ha r.qn r.c.b3 r.c.val hb3 hval x K
      (p + r.c.b1.length + r.c.name.length + r.c.n2 + 1) CS cx al hv'
    refine ⟨stE, hp, (Steps.trans hkey s2).cast ?_ (cfgQ_congr ?_ ?_)⟩
    · simp [QRule.openEvs, hvk, QV.openEvs, CRule.nameOff, CRule.valOff]
    · simp [QV.pend, CRule.valOff]
    · simp only [CRule.valOff]
  | list w0 items =>
    rw [hvk] at hval
    obtain ⟨hve, hw0, hits⟩ := hval
    rw [hve] at hv'
    have s2 := list_runQ a ha r.qn r.c.b3 w0 items hb3 hw0 hits x K
      (p + r.c.b1.length + r.c.name.length + r.c.n2 + 1) CS cx al hv'
    refine ⟨.endValue, rfl, (Steps.trans hkey s2).cast ?_ (cfgQ_congr ?_ ?_)⟩
    · simp [QRule.openEvs, hvk, QV.openEvs, CRule.nameOff, CRule.valOff]
    · simp [QV.pend, CRule.valOff]
    · simp only [CRule.valOff, hve, List.length_cons, List.length_append]; omega

/-! ### the rules of an object -/

inductive QObj
  | empty (b0 : List Cls)
  | rules (r : QRule) (rs : List QRule) (tc : Option (List Cls))

/-- the same text, the names read as plain class lists -/
def QObj.c : QObj → CObj
  | .empty b0 => .empty b0
  | .rules r rs tc => .rules r.c (rs.map QRule.c) tc

def rulesEvsQ : Nat → QRule → List QRule → List Ev
  | p, r, [] => r.evs p
  | p, r, r' :: rs => r.evs p ++ rulesEvsQ (p + r.c.render.length + 1) r' rs

def QObj.evs (o : Nat) : QObj → List Ev
  | .empty b0 => nlEvs (o + 1) b0 ++ [⟨.objE, o, o + 1 + b0.length⟩]
  | .rules r rs tc =>
    rulesEvsQ (o + 1) r rs ++ (tcEvs (o + 1 + (renderRules r.c (rs.map QRule.c)).length) tc ++
      [⟨.objE, o, o + 1 + (renderRules r.c (rs.map QRule.c) ++ renderTc tc).length⟩])

def ValidRulesQ (a : Ann) (r : QRule) (rs : List QRule) : Prop := r.Valid a ∧ ∀ x ∈ rs, x.Valid a

def QObj.Valid (a : Ann) : QObj → Prop
  | .empty b0 => ABlank a b0
  | .rules r rs tc => ValidRulesQ a r rs ∧ (∀ b5, tc = some b5 → ABlank a b5)

/-- the flag behind the rules: set by the last name -/
def lastQ : QRule → List QRule → Bool
  | r, [] => r.qn
  | _, r' :: rs => lastQ r' rs

def QObj.endQ : QObj → Bool
  | .empty _ => false
  | .rules r rs _ => lastQ r rs

theorem rules_runQ (a : Ann) (ha : a.isAnn = true) : ∀ (rs : List QRule) (r : QRule), ValidRulesQ a r rs →
    ∀ (tc : Option (List Cls)), (∀ b5, tc = some b5 → ABlank a b5) → ∀ {st : St}, keySt st = true →
    ∀ (q : Bool) (x : St) (o y : Nat) (R : List (LexT × Nat)) (p : Nat) (c0 : Ctx) (CS : List Ctx) (cx : Ctx) (al : Bool),
    At data p (renderRules r.c (rs.map QRule.c) ++ (renderTc tc ++ [Cls.rbrace])) →
    Steps data (cfgQ a q st [x] ((.objB, o) :: (a.B, y) :: R) false p (c0 :: CS) cx al)
      (rulesEvsQ p r rs ++ (tcEvs (p + (renderRules r.c (rs.map QRule.c)).length) tc ++
        [⟨.objE, o, p + (renderRules r.c (rs.map QRule.c) ++ renderTc tc).length⟩]))
      (cfgQ a (lastQ r rs) a.prefixSt [x] ((a.B, y) :: R) false
        (p + (renderRules r.c (rs.map QRule.c) ++ renderTc tc).length + 1) CS c0 al)
  | [], r, hv, tc, htc, st, hst, q, x, o, y, R, p, c0, CS, cx, al, hat => by
    simp only [List.map_nil, renderRules, lastQ] at hat ⊢
    cases tc with
    | none =>
      simp only [renderTc, List.nil_append, List.append_nil] at hat ⊢
      obtain ⟨h1, h2, _⟩ := rule_at_split r.c .rbrace [] p hat
      obtain ⟨stE, hp, s1⟩ := rule_openQ a ha q r hv.1 hst x ((.objB, o) :: (a.B, y) :: R) p (c0 :: CS) cx al h1
      have s2 := qclose_rbrace a ha r.qn r.v hp r.c.b4 hv.1.2.2.2.2 x (r.c.valOff p) o y R
        (r.c.valOff p + r.c.val.length) c0 CS cx al h2
      refine (Steps.trans s1 s2).cast ?_ (cfgQ_congr rfl ?_)
      · simp only [rulesEvsQ, tcEvs, QRule.evs, QRule.closeEvs, List.nil_append, List.append_assoc, List.cons_append,
          CRule.render_length, CRule.valOff]
        simp only [Nat.add_assoc, Nat.add_comm, Nat.add_left_comm]
      · simp only [CRule.render_length, CRule.valOff]; omega
    | some b5 =>
      simp only [renderTc, List.cons_append] at hat ⊢
      obtain ⟨h1, h2, h3⟩ := rule_at_split r.c .comma (b5 ++ [.rbrace]) p hat
      obtain ⟨stE, hp, s1⟩ := rule_openQ a ha q r hv.1 hst x ((.objB, o) :: (a.B, y) :: R) p (c0 :: CS) cx al h1
      have s2 := qclose_comma a ha r.qn r.v hp r.c.b4 hv.1.2.2.2.2 x (r.c.valOff p)
        ((.objB, o) :: (a.B, y) :: R) (r.c.valOff p + r.c.val.length) (c0 :: CS) cx al h2
      rw [At_append] at h3
      have s3 := ablank_runQ a ha r.qn b5 (htc b5 rfl) .objKey rfl [x] ((.objB, o) :: (a.B, y) :: R)
        (r.c.valOff p + r.c.val.length + r.c.b4.length + 1) (c0 :: CS) cx al (by
          rw [show r.c.valOff p + r.c.val.length + r.c.b4.length + 1 = p + r.c.render.length + 1 by
            simp only [CRule.render_length, CRule.valOff]; omega]
          exact h3.1)
      have s4 : Steps data (cfgQ a r.qn (wsSt .objKey b5) [x] ((.objB, o) :: (a.B, y) :: R) false
          (r.c.valOff p + r.c.val.length + r.c.b4.length + 1 + b5.length) (c0 :: CS) cx al)
          [⟨.objE, o, r.c.valOff p + r.c.val.length + r.c.b4.length + 1 + b5.length⟩]
          (cfgQ a r.qn a.prefixSt [x] ((a.B, y) :: R) false
            (r.c.valOff p + r.c.val.length + r.c.b4.length + 1 + b5.length + 1) CS c0 al) :=
        cfgQ_byte (by
            rw [show r.c.valOff p + r.c.val.length + r.c.b4.length + 1 + b5.length = p + r.c.render.length + 1 + b5.length by
              simp only [CRule.render_length, CRule.valOff]; omega]
            exact h3.2.1)
          (fun p1 p2 => aobj_rbraceQ 7 r.qn a ha _ (Or.inl (keySt_wsSt rfl b5)) [x] o y R _ c0 CS cx al p1 p2) rfl rfl
      refine (Steps.trans (Steps.trans (Steps.trans s1 s2) s3) s4).cast ?_ (cfgQ_congr rfl ?_)
      · simp only [rulesEvsQ, tcEvs, QRule.evs, QRule.closeEvs, List.append_assoc, List.cons_append,
          List.length_append, List.length_cons, CRule.render_length, CRule.valOff]
        simp only [Nat.add_assoc, Nat.add_comm, Nat.add_left_comm]
      · simp only [List.length_append, List.length_cons, CRule.render_length, CRule.valOff]; omega
  | r' :: rs, r, hv, tc, htc, st, hst, q, x, o, y, R, p, c0, CS, cx, al, hat => by
    simp only [List.map_cons, renderRules, List.cons_append, List.append_assoc] at hat
    obtain ⟨h1, h2, h3⟩ := rule_at_split r.c .comma _ p hat
    obtain ⟨stE, hp, s1⟩ := rule_openQ a ha q r hv.1 hst x ((.objB, o) :: (a.B, y) :: R) p (c0 :: CS) cx al h1
    have s2 := qclose_comma a ha r.qn r.v hp r.c.b4 hv.1.2.2.2.2 x (r.c.valOff p)
      ((.objB, o) :: (a.B, y) :: R) (r.c.valOff p + r.c.val.length) (c0 :: CS) cx al h2
    have hoff : r.c.valOff p + r.c.val.length + r.c.b4.length + 1 = p + r.c.render.length + 1 := by
      simp only [CRule.render_length, CRule.valOff]; omega
    have ih := rules_runQ a ha rs r' ⟨hv.2 r' (by simp), fun z hz => hv.2 z (by simp [hz])⟩ tc htc (st := .objKey) rfl
      r.qn x o y R (p + r.c.render.length + 1) c0 CS cx al h3
    rw [← hoff] at ih
    refine (Steps.trans (Steps.trans s1 s2) ih).cast ?_ (cfgQ_congr rfl ?_)
    · simp only [rulesEvsQ, QRule.evs, QRule.closeEvs, renderRules, List.map_cons, List.append_assoc, List.cons_append,
        List.length_append, List.length_cons, hoff]
      simp only [Nat.add_assoc, Nat.add_comm, Nat.add_left_comm]
    · simp only [renderRules, List.map_cons, List.length_append, List.length_cons, hoff]; omega

theorem obj_runQ (a : Ann) (ha : a.isAnn = true) (ob : QObj) (hv : ob.Valid a)
    (x : St) (o y : Nat) (R : List (LexT × Nat)) (c0 : Ctx) (CS : List Ctx) (cx : Ctx) (al : Bool)
    (hat : At data (o + 1) (ob.c.body ++ [Cls.rbrace])) :
    Steps data (cfgQ a false .objKeyOrEmpty [x] ((.objB, o) :: (a.B, y) :: R) false (o + 1) (c0 :: CS) cx al) (ob.evs o)
      (cfgQ a ob.endQ a.prefixSt [x] ((a.B, y) :: R) false (o + 1 + ob.c.body.length + 1) CS c0 al) := by
  cases ob with
  | empty b0 =>
    simp only [QObj.c, CObj.body, QObj.endQ] at hat ⊢
    rw [At_append] at hat
    have s1 := ablank_runQ a ha false b0 hv .objKeyOrEmpty rfl [x] ((.objB, o) :: (a.B, y) :: R) (o + 1) (c0 :: CS) cx al
      hat.1
    have s2 : Steps data (cfgQ a false (wsSt .objKeyOrEmpty b0) [x] ((.objB, o) :: (a.B, y) :: R) false (o + 1 + b0.length)
        (c0 :: CS) cx al) [⟨.objE, o, o + 1 + b0.length⟩]
        (cfgQ a false a.prefixSt [x] ((a.B, y) :: R) false (o + 1 + b0.length + 1) CS c0 al) :=
      cfgQ_byte hat.2.1 (fun p1 p2 => aobj_rbraceQ 7 false a ha _ (Or.inl (keySt_wsSt rfl b0)) [x] o y R _ c0 CS cx al
        p1 p2) rfl rfl
    exact (Steps.trans s1 s2).cast (by simp [QObj.evs]) rfl
  | rules r rs tc =>
    simp only [QObj.c, CObj.body, List.append_assoc, QObj.endQ] at hat ⊢
    have := rules_runQ a ha rs r hv.1 tc hv.2 (st := .objKeyOrEmpty) rfl false x o y R (o + 1) c0 CS cx al hat
    exact this.cast (by simp [QObj.evs]) rfl

/-! ### the tail of the annotation and the white space behind it, with the flag -/

theorem ws_endQ (q : Bool) {CS : List Ctx} {cx : Ctx} {al : Bool} : ∀ (w : List Cls) (i : Nat), IsWs w → At data i w →
    data.size = i + w.length → Emits data (cfgQ .none q .endTop [] [] false i CS cx al) (nlEvs i w)
  | [], i, _, _, hn => Emits.done rfl (by simp only [cfgQ, List.length_nil] at hn ⊢; omega) rfl
  | c :: w, i, hw, hat, hn => by
    obtain ⟨hc, hat'⟩ := hat
    have ih := ws_endQ q (CS := CS) (cx := cx) (al := al) w (i + 1) hw.tail hat'
      (by simp only [List.length_cons] at hn; omega)
    rcases blank_cases hw.head with hs | rfl
    · have h1 : Steps data (cfgQ .none q .endTop [] [] false i CS cx al) []
          (cfgQ .none q .endTop [] [] false (i + 1) CS cx al) :=
        cfgQ_byte hc (fun p1 p2 => top_spQ 7 q c hs [] (i + 1) CS cx al p1 p2) rfl rfl
      have := h1.emits ih
      simpa [nlEvs, sptab_ne_nl hs] using this
    · have h1 : Steps data (cfgQ .none q .endTop [] [] false i CS cx al) [⟨.newLine, i, i⟩]
          (cfgQ .none q .endTop [] [] false (i + 1) CS cx al) :=
        cfgQ_byte hc (fun p1 p2 => top_nlQ 7 q [] (i + 1) CS cx al p1 p2) rfl rfl
      have := h1.emits ih
      simpa [nlEvs] using this

theorem Emits.eofInlQ {q : Bool} {r : List St} {y i : Nat} {CS : List Ctx} {cx : Ctx} {al : Bool} (hi : data.size ≤ i) :
    Emits data (cfgQ .inline q .inlTxtPrefix r [(.inlAnnB, y)] false i CS cx al) [⟨.inlAnnE, y, i - 1⟩] := by
  have hn : NextOk data (cfgQ .inline q .inlTxtPrefix r [(.inlAnnB, y)] false i CS cx al)
      (some ({ cfgQ .inline q .inlTxtPrefix r [] false (i + 1) CS cx al with stack := [] }, ⟨.inlAnnE, y, i - 1⟩)) := by
    refine ⟨1, by omega, ?_⟩
    rw [next_succ]
    unfold nextBody shiftFound eofStep
    simp only [cfgQ, show ¬ i < data.size by omega, if_false]
    rfl
  exact Emits.cons hn (Emits.done rfl (by simp only [cfgQ]; omega) rfl)

theorem atail_runQ (a : Ann) (q : Bool) (tl : List Cls) (ht : ATail a tl) (y t : Nat) (CS : List Ctx) (cx : Ctx)
    (al : Bool) (hat : At data t tl) (hn : data.size = t + tl.length) :
    Emits data (cfgQ a q a.prefixSt [.endTop] [(a.B, y)] false t CS cx al) (tailEvs y t a tl) := by
  cases ht with
  | eof => exact Emits.eofInlQ (by simp at hn; omega)
  | nl w hw =>
    obtain ⟨hc, hatw⟩ := hat
    have s1 : Steps data (cfgQ .inline q .inlTxtPrefix [.endTop] [(.inlAnnB, y)] false t CS cx al)
        [⟨.inlAnnE, y, t - 1⟩, ⟨.newLine, t, t⟩] (cfgQ .none q .endTop [] [] false (t + 1) CS cx al) := by
      refine (cfgQ_byte hc (fun p1 p2 => inlpre_nlQ 7 q .endTop [] y (t + 1) CS cx al p1 p2) rfl rfl).cast ?_ rfl
      show [(⟨LexT.inlAnnE, y, t + 1 - 1 - 1⟩ : Ev), ⟨LexT.newLine, t + 1 - 1, t + 1 - 1⟩] = _
      simp
    exact s1.emits (ws_endQ q w (t + 1) hw hatw (by simp only [List.length_cons] at hn; omega))
  | close w hw =>
    obtain ⟨hc1, hc2, hatw⟩ := hat
    have s1 : Steps data (cfgQ .multi q .mlTxtPrefix [.endTop] [(.mlAnnB, y)] false t CS cx al) []
        (cfgQ .multi q .mlAnnEnd [.endTop] [(.mlAnnB, y)] false (t + 1) CS cx al) :=
      cfgQ_byte hc1 (fun p1 p2 => mlpre_starQ 7 q [.endTop] _ (t + 1) CS cx al p1 p2) rfl rfl
    have s2 : Steps data (cfgQ .multi q .mlAnnEnd [.endTop] [(.mlAnnB, y)] false (t + 1) CS cx al)
        [⟨.mlAnnE, y, t + 1⟩] (cfgQ .none q .endTop [] [] false (t + 1 + 1) CS cx al) :=
      cfgQ_byte hc2 (fun p1 p2 => mlend_slashQ 7 q .endTop [] _ (t + 1 + 1) CS cx al p1 p2) rfl rfl
    have e := ws_endQ q (CS := CS) (cx := cx) (al := al) w (t + 1 + 1) hw hatw
      (by simp only [List.length_cons] at hn; omega)
    have := (Steps.trans s1 s2).emits e
    simp only [List.nil_append, List.cons_append] at this
    simp only [tailEvs, List.drop_succ_cons, List.drop_zero]
    exact this

/-! ### the whole annotated scalar -/

/-- its events: as `annEvs`, with the key-end spans of quoted names -/
def annEvsQ (a : Ann) (tok s1 s2 : List Cls) (ob : QObj) (s3 tl : List Cls) : List Ev :=
  ⟨.litB, 0, 0⟩ :: ⟨.litE, 0, tok.length - 1⟩ :: ⟨a.B, annOff tok s1, annOff tok s1 + 1⟩ ::
    (nlEvs (annOff tok s1 + 2) s2 ++ (⟨.objB, objOff tok s1 s2, objOff tok s1 s2⟩ ::
      (ob.evs (objOff tok s1 s2) ++ (nlEvs (objOff tok s1 s2 + 1 + ob.c.body.length + 1) s3 ++
        tailEvs (annOff tok s1) (tailOff tok s1 s2 ob.c s3) a tl))))

/-- **the events of an annotated top-level scalar whose rule names are bare or quoted** -/
theorem annot_emitsQ (a : Ann) (ha : a.isAnn = true) (tok : List Cls) (htok : IsScalar tok) (s1 : List Cls)
    (hs1 : IsSpTabs s1) (s2 : List Cls) (hs2 : ABlank a s2) (ob : QObj) (hob : ob.Valid a) (s3 : List Cls)
    (hs3 : ABlank a s3) (tl : List Cls) (htl : ATail a tl) :
    Emits (annText a tok s1 s2 ob.c s3 tl).toArray {} (annEvsQ a tok s1 s2 ob s3 tl) := by
  obtain ⟨D, hD⟩ : ∃ D, D = (annText a tok s1 s2 ob.c s3 tl).toArray := ⟨_, rfl⟩
  rw [← hD]
  have hsize : D.size = (annText a tok s1 s2 ob.c s3 tl).length := by rw [hD]; simp
  have hat : At D 0 (annText a tok s1 s2 ob.c s3 tl) := hD ▸ At_toArray _ [] _ rfl
  have e : annText a tok s1 s2 ob.c s3 tl
      = (tok ++ (s1 ++ [Cls.slash, a.mark])) ++ (s2 ++ (Cls.lbrace :: ((ob.c.body ++ [Cls.rbrace]) ++ (s3 ++ tl)))) := by
    simp [annText]
  rw [e, At_append] at hat
  obtain ⟨hat1, hat2⟩ := hat
  have hlen : (tok ++ (s1 ++ [Cls.slash, a.mark])).length = annOff tok s1 + 2 := by
    simp only [annOff, List.length_append, List.length_cons, List.length_nil]; omega
  rw [hlen, Nat.zero_add, At_append] at hat2
  obtain ⟨hats2, hlb, hat3⟩ := hat2
  rw [At_append] at hat3
  obtain ⟨hatob, hat4⟩ := hat3
  rw [At_append] at hat4
  obtain ⟨hats3, hattl⟩ := hat4
  have r1 := ann_open_run a ha tok htok s1 hs1 hat1
  have r2 := ablank_run a ha s2 hs2 a.startSt (by cases a <;> simp [Ann.isAnn] at ha <;> rfl) [.endTop]
    [(a.B, annOff tok s1)] (annOff tok s1 + 2) [] { ty := .initial } true hats2
  rw [wsSt_eq (by cases a <;> simp [Ann.startSt])] at r2
  have r3 : Steps D
      (cfgA a a.startSt [.endTop] [(a.B, annOff tok s1)] false (annOff tok s1 + 2 + s2.length) [] { ty := .initial } true)
      [⟨.objB, annOff tok s1 + 2 + s2.length, annOff tok s1 + 2 + s2.length⟩]
      (cfgQ a false .objKeyOrEmpty [.endTop] [(.objB, annOff tok s1 + 2 + s2.length), (a.B, annOff tok s1)] false
        (annOff tok s1 + 2 + s2.length + 1) [{ ty := .initial }] { ty := .object } true) :=
    cfgA_byte hlb (fun p1 p2 => ann_lbrace 6 a ha [.endTop] _ _ [] _ true p1 p2) rfl rfl
  have r4 := obj_runQ a ha ob hob .endTop (annOff tok s1 + 2 + s2.length) (annOff tok s1) [] { ty := .initial } []
    { ty := .object } true hatob
  have hl2 : annOff tok s1 + 2 + s2.length + 1 + (ob.c.body ++ [Cls.rbrace]).length
      = annOff tok s1 + 2 + s2.length + 1 + ob.c.body.length + 1 := by
    simp only [List.length_append, List.length_cons, List.length_nil]; omega
  rw [hl2] at hats3 hattl
  have r5 := ablank_runQ a ha ob.endQ s3 hs3 a.prefixSt (by cases a <;> simp [Ann.isAnn] at ha <;> rfl) [.endTop]
    [(a.B, annOff tok s1)] (annOff tok s1 + 2 + s2.length + 1 + ob.c.body.length + 1) [] { ty := .initial } true hats3
  rw [wsSt_eq (by cases a <;> simp [Ann.prefixSt])] at r5
  have r6 := atail_runQ a ob.endQ tl htl (annOff tok s1)
    (annOff tok s1 + 2 + s2.length + 1 + ob.c.body.length + 1 + s3.length)
    [] { ty := .initial } true hattl
    (by
      rw [hsize]
      simp only [annText, annOff, List.length_append, List.length_cons]
      omega)
  have := (Steps.trans (Steps.trans (Steps.trans (Steps.trans r1 r2) r3) r4) r5).emits r6
  simpa [annEvsQ, objOff, tailOff, annOff, Nat.add_assoc] using this

end SchemaScan
