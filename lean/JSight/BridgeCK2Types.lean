import JSight.BridgeCK2NoRef
/-!
Bridge (A)∩(C), second part: the TYPE TABLE of the reference-free class — same "is it defined" (`envRel`), same
visiting order (`sortTs`: `sort_entries`), same first error — and the theorem `agree_noref`.
-/
namespace BridgeCK
open Compile

mutual
theorem orShorts_nil (path : String) : (cn : CN) → nr cn = true → orShorts path cn = []
  | .lit _ _, _ => rfl
  | .any _ _, _ => rfl
  | .arr items _ _, h => by simp only [orShorts]; exact orShortsItems_nil path 0 items (by simpa [nr] using h)
  | .obj props _ _ _, h => by
    simp only [nr, Bool.and_eq_true] at h
    simp only [orShorts]; exact orShortsProps_nil path 0 props h.1
  | .ref _ _ _ _ orShort, h => by
    simp only [nr, Bool.and_eq_true, Bool.not_eq_true'] at h
    rw [h.1.2]
    rfl
theorem orShortsItems_nil (path : String) : (i : Nat) → (items : List CN) → nrItems items = true →
    orShortsItems path i items = []
  | _, [], _ => rfl
  | i, x :: xs, h => by
    simp only [nrItems, Bool.and_eq_true] at h
    simp [orShortsItems, orShorts_nil _ x h.1, orShortsItems_nil path (i + 1) xs h.2]
theorem orShortsProps_nil (path : String) : (i : Nat) → (props : List (String × Bool × Bool × Bool × CN)) →
    nrProps props = true → orShortsProps path i props = []
  | _, [], _ => rfl
  | i, (_, _, _, _, x) :: xs, h => by
    simp only [nrProps, Bool.and_eq_true] at h
    simp [orShortsProps, orShorts_nil _ x h.1.2, orShortsProps_nil path (i + 1) xs h.2]
end

mutual
theorem orShortsOK_nr (ts : Types) : (cn : CN) → nr cn = true → orShortsOK ts cn = true
  | .lit _ _, _ => rfl
  | .any _ _, _ => rfl
  | .arr items _ _, h => by simp only [orShortsOK]; exact orShortsOK_items ts items (by simpa [nr] using h)
  | .obj props _ _ _, h => by
    simp only [nr, Bool.and_eq_true] at h
    simp only [orShortsOK]; exact orShortsOK_props ts props h.1
  | .ref _ _ _ _ orShort, h => by
    simp only [nr, Bool.and_eq_true, Bool.not_eq_true'] at h
    simp [orShortsOK, h.1.2]
theorem orShortsOK_items (ts : Types) : (items : List CN) → nrItems items = true → Compile.orShortsItems ts items = true
  | [], _ => rfl
  | x :: xs, h => by
    simp only [nrItems, Bool.and_eq_true] at h
    simp [Compile.orShortsItems, orShortsOK_nr ts x h.1, orShortsOK_items ts xs h.2]
theorem orShortsOK_props (ts : Types) : (props : List (String × Bool × Bool × Bool × CN)) → nrProps props = true →
    Compile.orShortsProps ts props = true
  | [], _ => rfl
  | (_, _, _, _, x) :: xs, h => by
    simp only [nrProps, Bool.and_eq_true] at h
    simp [Compile.orShortsProps, orShortsOK_nr ts x h.1.2, orShortsOK_props ts xs h.2]
end

/-! ### the visiting order, on entries -/

def insT (t : String × CN) : Types → Types
  | [] => [t]
  | u :: us => if strLt u.1 t.1 then u :: insT t us else t :: u :: us

/-- the type table in (A)'s visiting order -/
def sortTs : Types → Types
  | [] => []
  | t :: ts => insT t (sortTs ts)

theorem insT_names (t : String × CN) : (L : Types) → (insT t L).map (·.1) = sortNames.ins t.1 (L.map (·.1))
  | [] => rfl
  | u :: us => by
    unfold insT sortNames.ins
    simp only [List.map_cons]
    split
    · simp [insT_names t us]
    · rfl

theorem sortTs_names : (ts : Types) → (sortTs ts).map (·.1) = sortNames (ts.map (·.1))
  | [] => rfl
  | t :: ts => by simp [sortTs, sortNames, insT_names, sortTs_names ts]

theorem mem_insT (t : String × CN) : (L : Types) → ∀ u, u ∈ insT t L ↔ u = t ∨ u ∈ L
  | [], u => by simp [insT]
  | v :: vs, u => by
    unfold insT
    split
    · simp only [List.mem_cons, mem_insT t vs u]
      constructor
      · rintro (h | h | h)
        · exact Or.inr (Or.inl h)
        · exact Or.inl h
        · exact Or.inr (Or.inr h)
      · rintro (h | h | h)
        · exact Or.inr (Or.inl h)
        · exact Or.inl h
        · exact Or.inr (Or.inr h)
    · simp

theorem mem_sortTs : (ts : Types) → ∀ u, u ∈ sortTs ts ↔ u ∈ ts
  | [], u => by simp [sortTs]
  | t :: ts, u => by
    unfold sortTs
    rw [mem_insT, mem_sortTs ts u]
    simp

theorem insT_entries (t : String × CN) (ht : byteChars t.1) (hnamed : CK.isUnnamed (name t.1) = false) :
    (L : Types) → (∀ u ∈ L, byteChars u.1 ∧ u.1 ≠ t.1) →
    CK.insertType (typeEntry t) (L.map typeEntry) = (insT t L).map typeEntry
  | [], _ => rfl
  | u :: us, hu => by
    obtain ⟨hub, hut⟩ := hu u List.mem_cons_self
    have hne : name t.1 ≠ name u.1 := fun e => hut (name_inj t.1 u.1 ht hub e).symm
    have hgf : CK.typeGoesFirst (typeEntry t) (typeEntry u) = CK.bytesLt (name t.1) (name u.1) := by
      unfold CK.typeGoesFirst
      show (if !CK.isUnnamed (name t.1) || !CK.isUnnamed (name u.1) then CK.bytesLt (name t.1) (name u.1) else _) = _
      rw [hnamed]
      simp
    have hlt : strLt u.1 t.1 = !CK.bytesLt (name t.1) (name u.1) := by
      rw [strLt_bytesLt u.1 t.1 hub ht, bytesLt_total (name t.1) (name u.1) hne]
      simp
    simp only [List.map_cons]
    unfold CK.insertType insT
    rw [hgf, hlt]
    cases hb : CK.bytesLt (name t.1) (name u.1)
    · simp only [Bool.not_false, if_true, Bool.false_eq_true, if_false, List.map_cons]
      rw [insT_entries t ht hnamed us (fun z hz => hu z (List.mem_cons_of_mem _ hz))]
    · simp

/-- **(C) visits the entries in (A)'s order** -/
theorem sort_entries : (ts : Types) → (ts.map (·.1)).Nodup →
    (∀ t ∈ ts, byteChars t.1 ∧ CK.isUnnamed (name t.1) = false) →
    CK.sortTypes (ts.map typeEntry) = (sortTs ts).map typeEntry
  | [], _, _ => rfl
  | t :: ts, hn, hb => by
    simp only [List.map_cons, List.nodup_cons] at hn
    have ih := sort_entries ts hn.2 (fun u hu => hb u (List.mem_cons_of_mem _ hu))
    obtain ⟨hbt, hnt⟩ := hb t List.mem_cons_self
    simp only [List.map_cons, CK.sortTypes, sortTs, ih]
    refine insT_entries t hbt hnt _ ?_
    intro u hu
    rw [mem_sortTs] at hu
    exact ⟨(hb u (List.mem_cons_of_mem _ hu)).1, fun e => hn.1 (by rw [← e]; exact List.mem_map_of_mem hu)⟩

/-! ### the tables -/

theorem find_entries (n : String) (hn : byteChars n) : (ts : Types) → (∀ t ∈ ts, byteChars t.1) →
    (((ts.map typeEntry).map fun t => (t.name, t.root.hd)).find? (·.1 == name n)).map (·.2) =
      ((ts.find? (·.1 == n)).map (·.2)).map fun cn => (dumpNode cn).hd
  | [], _ => rfl
  | t :: ts, hb => by
    have ih := find_entries n hn ts (fun u hu => hb u (List.mem_cons_of_mem _ hu))
    simp only [List.map_cons, List.find?_cons]
    by_cases e : t.1 = n
    · have e' : (typeEntry t).name = name n := by rw [← e]; rfl
      simp [e, e', typeEntry]
    · have e' : ¬ (typeEntry t).name = name n := fun x => e (name_inj t.1 n (hb t List.mem_cons_self) hn x)
      have b1 : (t.1 == n) = false := beq_eq_false_iff_ne.2 e
      have b2 : ((typeEntry t).name == name n) = false := beq_eq_false_iff_ne.2 e'
      simp only [b1, b2]
      exact ih

theorem envRel (ts : Types) (hb : ∀ t ∈ ts, byteChars t.1) :
    EnvRel ts ⟨(ts.map typeEntry).map fun t => (t.name, t.root.hd)⟩ := by
  intro n hn
  unfold CK.Env.lookup lookupT
  exact find_entries n hn ts hb

theorem lookup_mem : (ts : Types) → (ts.map (·.1)).Nodup → ∀ t ∈ ts, lookupT ts t.1 = some t.2
  | [], _, _, h => by simp at h
  | u :: us, hn, t, ht => by
    simp only [List.map_cons, List.nodup_cons] at hn
    unfold lookupT
    rcases List.mem_cons.1 ht with e | ht'
    · subst e; simp
    · have hne : ¬ u.1 = t.1 := fun e => hn.1 (by rw [e]; exact List.mem_map_of_mem ht')
      have := lookup_mem us hn.2 t ht'
      unfold lookupT at this
      simp [List.find?_cons, hne, this]

section
variable (ts : Types) (env : CK.Env) (hE : EnvRel ts env) (hT : ∀ n cn, lookupT ts n = some cn → nr cn = true ∧ notRef cn = true)
  (fuel : Nat) (hf : ∃ f, fuel = f + 1) (hnd : (ts.map (·.1)).Nodup)
include hE hT hf hnd

/-- type by type: the first error of the visit -/
theorem types_agree : (L : Types) → (∀ t ∈ L, t ∈ ts ∧ nr t.2 = true) →
    resOf (CK.checkTypes noOracles env (L.map typeEntry)) = some (Compile.checkTypes ts fuel (L.map (·.1)))
  | [], _ => rfl
  | t :: L, h => by
    obtain ⟨htm, htn⟩ := h t List.mem_cons_self
    have ih := types_agree L (fun u hu => h u (List.mem_cons_of_mem _ hu))
    have hnode := node_agree ts env fuel hE hT hf t.2 htn
    simp only [List.map_cons, CK.checkTypes, Compile.checkTypes, lookup_mem ts hnd t htm, CK.checkType]
    show resOf (match (CK.checkNode noOracles env (dumpNode t.2)).map _ with | some r => r | none => _) = _
    rw [hnode]
    cases hx : Compile.checkNode ts fuel t.2 with
    | ok u => cases u; simpa [panicOf] using ih
    | error e =>
      obtain ⟨c, rfl⟩ := nr_pos ts fuel t.2 htn e hx
      simp [panicOf, CK.panicRes, resOf, typeEntry]

end

/-- **C04_models_agree on the reference-free, validator-free class**: the two checkers give the same outcome — verdict
and first error code — for any root and any type table of the class -/
theorem agree_noref (root : Option CN) (ts : Types) (hroot : ∀ r, root = some r → nr r = true)
    (hts : ∀ t ∈ ts, nr t.2 = true ∧ byteChars t.1 ∧ CK.isUnnamed (name t.1) = false ∧ notRef t.2 = true)
    (hnd : (ts.map (·.1)).Nodup) :
    resOf (checkC root ts) = some (checkA root ts) := by
  have hun : unnamed ts = [] := by
    unfold unnamed
    have : (ts.flatMap fun t => orShorts ("#" ++ t.1) t.2) = [] := by
      rw [List.flatMap_eq_nil_iff]
      intro t ht
      exact orShorts_nil _ t.2 (hts t ht).1
    rw [this]; rfl
  have hall : (ts.all fun t => orShortsOK ts t.2) = true := by
    rw [List.all_eq_true]
    intro t ht
    exact orShortsOK_nr ts t.2 (hts t ht).1
  have hE := envRel ts (fun t ht => (hts t ht).2.1)
  have hT : ∀ n cn, lookupT ts n = some cn → nr cn = true ∧ notRef cn = true := by
    intro n cn h
    unfold lookupT at h
    cases hf : ts.find? (·.1 == n) with
    | none => rw [hf] at h; cases h
    | some t =>
      rw [hf] at h
      simp only [Option.map_some, Option.some.injEq] at h
      rw [← h]
      exact ⟨(hts t (List.mem_of_find?_eq_some hf)).1, (hts t (List.mem_of_find?_eq_some hf)).2.2.2⟩
  have hfuel : ∀ r, ∃ f, checkFuel r ts = f + 1 := fun r => ⟨checkFuel r ts - 1, by
    have : 0 < checkFuel r ts := by unfold checkFuel; omega
    omega⟩
  have hvis := sort_entries ts hnd (fun t ht => ⟨(hts t ht).2.1, (hts t ht).2.2.1⟩)
  have hL : ∀ t ∈ sortTs ts, t ∈ ts ∧ nr t.2 = true := fun t ht =>
    ⟨(mem_sortTs ts t).1 ht, (hts t ((mem_sortTs ts t).1 ht)).1⟩
  unfold checkC CK.checkSchema dumpOf
  simp only [hun, List.append_nil, CK.Schema.visit, CK.Schema.env, hvis]
  cases root with
  | none =>
    simp only [Option.map_none, checkA, checkNoRoot, hall, Bool.not_true, Bool.false_eq_true, if_false, ← sortTs_names]
    exact types_agree ts _ hE hT _ (hfuel none) hnd (sortTs ts) hL
  | some r =>
    have hr := hroot r rfl
    have hnode := node_agree ts _ (checkFuel (some r) ts) hE hT (hfuel (some r)) r hr
    simp only [Option.map_some, checkA, hall, Bool.not_true, Bool.false_eq_true, if_false, ← sortTs_names, hnode]
    cases hx : Compile.checkNode ts (checkFuel (some r) ts) r with
    | ok u =>
      cases u
      simp only [panicOf]
      exact types_agree ts _ hE hT _ (hfuel (some r)) hnd (sortTs ts) hL
    | error e =>
      obtain ⟨c, rfl⟩ := nr_pos ts _ r hr e hx
      simp [panicOf, CK.panicRes, resOf]

end BridgeCK
