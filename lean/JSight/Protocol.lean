/-!
C11 / C12 protocol models (the parts of "deterministic, history-independent, shareable" that are logic):
* `Once`: the `sync.Once` wrappers of `internal/sync/erronce.go` — the first result is cached forever.
* `Pool`: the buffer pool of `notations/jschema/example.go` with the copy-out of fix F-5a, and the pinned
  variant that returned the pooled buffer itself.
* `Race`: n goroutines racing to the first use of one `Once` cell under an arbitrary schedule.
-/
namespace Protocol

/-! ### Once -/
structure Once (α : Type) where
  cell : Option α := none

/-- `ErrOnce.Do(f)`: run `f` the first time, return the cached result afterwards -/
def Once.run {α : Type} (o : Once α) (f : Unit → α) : Once α × α :=
  match o.cell with
  | some v => (o, v)
  | none => let v := f (); ({ cell := some v }, v)

/-- a history of calls with arbitrary functions -/
def Once.runAll {α : Type} (o : Once α) : List (Unit → α) → Once α × List α
  | [] => (o, [])
  | f :: fs => let (o', v) := o.run f; let (o'', vs) := Once.runAll o' fs; (o'', v :: vs)

/-! ### buffer pool and Example() -/
structure Heap where
  bufs : List (List Nat)          -- buffer id = index; content
  pool : List Nat                 -- ids currently in the pool
  handed : List Nat               -- ids handed out to callers

def Heap.init : Heap := { bufs := [], pool := [], handed := [] }

def Heap.read (h : Heap) (id : Nat) : Option (List Nat) := h.bufs[id]?

/-- take a buffer from the pool (or allocate one), write `content` into it -/
def Heap.getAndWrite (h : Heap) (content : List Nat) : Heap × Nat :=
  match h.pool with
  | id :: rest => ({ h with bufs := h.bufs.set id content, pool := rest }, id)
  | [] => ({ h with bufs := h.bufs ++ [content] }, h.bufs.length)

/-- `Example()` with fix F-5a: assemble in a pooled buffer, return a fresh copy, put the buffer back -/
def Heap.example (h : Heap) (content : List Nat) : Heap × Nat :=
  let (h1, id) := h.getAndWrite content
  let copy := h1.bufs.length
  ({ h1 with bufs := h1.bufs ++ [content], pool := id :: h1.pool, handed := copy :: h1.handed }, copy)

/-- the pinned tree: the pooled buffer itself is returned after it was put back -/
def Heap.examplePinned (h : Heap) (content : List Nat) : Heap × Nat :=
  let (h1, id) := h.getAndWrite content
  ({ h1 with pool := id :: h1.pool, handed := id :: h1.handed }, id)

def Heap.examples (h : Heap) : List (List Nat) → Heap
  | [] => h
  | c :: cs => Heap.examples (h.example c).1 cs

/-! ### racing to the first use -/
inductive PC | start | inF | done deriving DecidableEq, Repr

structure Race where
  cell : Option Nat := none        -- cached result
  running : Bool := false          -- some goroutine is inside f (others block: sync.Once holds its mutex)
  count : Nat := 0                 -- how often f was started
  pcs : List PC
  res : List (Nat × Nat) := []     -- (goroutine, value it returned)

/-- one step of goroutine `g`; `f g` is what the compile would produce if `g` ran it -/
def Race.step (f : Nat → Nat) (s : Race) (g : Nat) : Race :=
  match s.pcs[g]? with
  | some .start =>
    match s.cell with
    | some v => { s with pcs := s.pcs.set g .done, res := (g, v) :: s.res }
    | none => if s.running then s                                   -- blocked on the Once mutex
              else { s with running := true, count := s.count + 1, pcs := s.pcs.set g .inF }
  | some .inF => { s with cell := some (f g), running := false, pcs := s.pcs.set g .done, res := (g, f g) :: s.res }
  | _ => s

def Race.run (f : Nat → Nat) (s : Race) (sched : List Nat) : Race := sched.foldl (Race.step f) s

def Race.init (n : Nat) : Race := { pcs := List.replicate n .start }

end Protocol
