import JSight.BridgeCRBasics
/-!
Bridge (A)∩(B), the annotation-reading phase: `Compile.createRule` (constraint constructor + `AddConstraint`) against
`CR.loadRule` on the translated rule, rule by rule, under the invariant "the constraint map has a constraint exactly
for the names read so far".
-/
namespace BridgeCR
open Compile

/-- the rule name a constraint type comes from (`typesList` comes with `or`) -/
def ctName : CR.CT → Option Bytes
  | .minLength => some CR.n_minLength | .maxLength => some CR.n_maxLength | .min => some CR.n_min | .max => some CR.n_max
  | .exclusiveMinimum => some CR.n_exclusiveMinimum | .exclusiveMaximum => some CR.n_exclusiveMaximum
  | .type => some CR.n_type | .precision => some CR.n_precision | .optional => some CR.n_optional
  | .minItems => some CR.n_minItems | .maxItems => some CR.n_maxItems
  | .additionalProperties => some CR.n_additionalProperties | .nullable => some CR.n_nullable | .regex => some CR.n_regex
  | .const => some CR.n_const | .or => some CR.n_or | .enum => some CR.n_enum | .allOf => some CR.n_allOf
  | .typesList => some CR.n_or
  | _ => none

/-- the constraint map holds a constraint exactly for the rule names read so far -/
def Inv (seen : List Bytes) (m : CR.CMap) : Prop :=
  ∀ k, m.has k = (match ctName k with | some nm => seen.contains nm | none => false)

theorem inv_step (seen : List Bytes) (m m' : CR.CMap) (nm0 : Bytes) (h1 : Inv seen m)
    (h2 : ∀ k, m'.has k = (m.has k || (ctName k == some nm0))) : Inv (nm0 :: seen) m' := by
  intro k
  rw [h2 k, h1 k]
  cases hk : ctName k with
  | none => simp
  | some nm =>
    simp only [List.contains_cons, Option.some_beq_some]
    rw [Bool.or_comm]

theorem ctName_single (rn : CR.RName) (hne : rn ≠ .or) (k : CR.CT) :
    (ctName k == some (rbytes rn)) = decide (k = rn.ct) := by
  cases rn <;> first | exact absurd rfl hne | (cases k <;> decide +kernel)

theorem ctName_or (k : CR.CT) : (ctName k == some CR.n_or) = (decide (k = .or) || decide (k = .typesList)) := by
  cases k <;> decide +kernel

theorem has_set (m : CR.CMap) (k0 : CR.CT) (v : CR.CV) (k : CR.CT) :
    (m.set k0 v).has k = (m.has k || decide (k = k0)) := by
  unfold CR.CMap.has CR.CMap.set
  by_cases h : k = k0 <;> simp [h]

theorem addC_base (c : CR.Ctx) (m : CR.CMap) (k : CR.CT) (v : CR.CV)
    (h : c.cls ≠ .mixedValue ∨ (k ≠ .type ∧ k ≠ .or)) : CR.addC c m k v = CR.addBase m k v := by
  unfold CR.addC
  rcases h with h | ⟨h1, h2⟩
  · simp [h]
  · split
    · cases k <;> first | rfl | exact absurd rfl h1 | exact absurd rfl h2
    · rfl

/-- how a step of the two models may end: both accept (invariant for the longer list), or both fail with one code -/
def StepOK (seen : List Bytes) (nm : Bytes) (a : Except Err Unit) (b : Except CR.Code CR.CMap) : Prop :=
  match a, b with
  | .ok _, .ok m' => Inv (nm :: seen) m'
  | .error (.code ca _), .error cb => ca = cb
  | _, _ => False

/-- a plain insertion: duplicate (501) or the invariant for the longer list -/
theorem dup_step (seen : List Bytes) (m : CR.CMap) (rn : CR.RName) (hne : rn ≠ .or) (v : CR.CV) (pos : Nat)
    (hI : Inv seen m) :
    StepOK seen (rbytes rn)
      (if seen.contains (rbytes rn) then .error (.code 501 pos) else .ok ())
      (CR.addBase m rn.ct v) := by
  unfold CR.addBase
  have hh : m.has rn.ct = seen.contains (rbytes rn) := by
    rw [hI rn.ct]
    cases rn <;> rfl
  rw [hh]
  cases hs : seen.contains (rbytes rn)
  · simp only [StepOK, Bool.false_eq_true, ↓reduceIte]
    exact inv_step seen m _ _ hI (fun k => by rw [has_set, ctName_single rn hne])
  · simp [StepOK]

end BridgeCR

namespace BridgeCR
open Compile

theorem rbytes_ne (rn : CR.RName) (h1 : rn ≠ .or) (h2 : rn ≠ .enum) (h3 : rn ≠ .allOf) :
    rbytes rn ≠ CR.n_or ∧ rbytes rn ≠ CR.n_enum ∧ rbytes rn ≠ CR.n_allOf := by
  cases rn <;> first | exact absurd rfl h1 | exact absurd rfl h2 | exact absurd rfl h3 | decide +kernel

/-- a literal-valued rule in (B): the constructor, then the insertion -/
theorem loadRule_lit (env : CR.Env) (c : CR.Ctx) (m : CR.CMap) (rn : CR.RName) (v : Bytes)
    (h1 : rn ≠ .or) (h2 : rn ≠ .enum) (h3 : rn ≠ .allOf) :
    CR.loadRule env c m (rbytes rn, .lit v) = CR.mkLit env (rbytes rn) v >>= fun kv => CR.addC c m kv.1 kv.2 := by
  obtain ⟨a, b, d⟩ := rbytes_ne rn h1 h2 h3
  unfold CR.loadRule
  simp [a, b, d]

theorem valOf_lit (nm : Bytes) (gen : Bool) (v : Bytes) (pos npos : Nat) (h1 : nm ≠ CR.n_or) (h2 : nm ≠ CR.n_enum) :
    valOf { name := nm, gen := gen, val := some v, pos := pos, npos := npos } = .lit v := by
  unfold valOf
  simp [sb_or, sb_enum, h1, h2]

end BridgeCR
