import JSight.LoaderTreeBase
/-!
C16 (loader part): `GetAST` mirrors the schema text. For a schema that is plain JSON (no annotations) the loader
builds one node per value of the text, numbered in pre-order (the order in which `newNode` allocates them), of the
value's kind, children in source order, object keys in source order with the key tokens' spans, literal values with
the literal tokens' spans, no rules, no comment — for every `SchemaScan.Tree` (any nesting, width and layout incl.
line breaks), provided the keys of every object are pairwise distinct after decoding (`keyText`); otherwise the
loader stops with error 402 at the first repeated key.

* `nodesOf parent first o v` — the expected node table of the value `v` rendered at offset `o`, its root node
  getting index `first` and parent `parent`;
* `C16_load_mirrors_tree` — `load` on the events of the tree (form: fold of `step` over the event list);
* `C16_scan_load_mirrors_tree` — end to end: `scanAll bs` gives events on which `load bs.toArray` builds `nodesOf`;
* `C16_loadText_mirrors_tree` — the same for the interleaved loop `loadText`;
* `C16_load_duplicate_key` — the duplicate-key case.
-/
namespace Loader
open SchemaScan (Ev LexT Cls Tree nlEvs schemaEvsAt evsItems evsMembers renderItems renderMembers)

abbrev Item := List Cls × Tree × List Cls
abbrev Member := List Cls × List Cls × List Cls × List Cls × Tree × List Cls

/-! ### the expected node table -/

mutual
/-- number of values (= nodes) of a tree -/
def nodeCount : Tree → Nat
  | .scalar _ => 1
  | .arr _ its => 1 + countItems its
  | .obj _ ms => 1 + countMembers ms
def countItems : List Item → Nat
  | [] => 0
  | (_, v, _) :: its => nodeCount v + countItems its
def countMembers : List Member → Nat
  | [] => 0
  | (_, _, _, _, v, _) :: ms => nodeCount v + countMembers ms
end

/-- node indices of the items when the first item gets index `n` -/
def idxItems : Nat → List Item → List Nat
  | _, [] => []
  | n, (_, v, _) :: its => n :: idxItems (n + nodeCount v) its

def idxMembers : Nat → List Member → List Nat
  | _, [] => []
  | n, (_, _, _, _, v, _) :: ms => n :: idxMembers (n + nodeCount v) ms

/-- offset of the member value -/
def valOff (o : Nat) (w1 k w2 w3 : List Cls) : Nat := o + w1.length + k.length + w2.length + 1 + w3.length

/-- offset of the next member / the closing brace -/
def nextMember (o : Nat) (w1 k w2 w3 : List Cls) (v : Tree) (w4 : List Cls) (ms : List Member) : Nat :=
  valOff o w1 k w2 w3 + v.render.length + w4.length + (if ms.isEmpty then 0 else 1)

def nextItem (o : Nat) (w1 : List Cls) (v : Tree) (w2 : List Cls) (its : List Item) : Nat :=
  o + w1.length + v.render.length + w2.length + (if its.isEmpty then 0 else 1)

/-- the key entries of an object whose first member (with its leading white space) starts at `o`:
span of each key token, not a shortcut -/
def keysMembers : Nat → List Member → List (Nat × Nat × Bool)
  | _, [] => []
  | o, (w1, k, w2, w3, v, w4) :: ms =>
    (o + w1.length, o + w1.length + k.length - 1, false) :: keysMembers (nextMember o w1 k w2 w3 v w4 ms) ms

mutual
/-- the node table of `v` rendered at offset `o`: pre-order, the root of `v` at index `n` with parent `parent` -/
def nodesOf (parent : Option Nat) : Nat → Nat → Tree → List Node
  | _, o, .scalar tok => [{ kind := .lit, parent := parent, value := some (o, o + tok.length - 1) }]
  | n, o, .arr ws0 its =>
    { kind := .arr, parent := parent, children := idxItems (n + 1) its } ::
      nodesItems n (n + 1) (o + 1 + ws0.length) its
  | n, o, .obj ws0 ms =>
    { kind := .obj, parent := parent, children := idxMembers (n + 1) ms,
      keys := keysMembers (o + 1 + ws0.length) ms } ::
      nodesMembers n (n + 1) (o + 1 + ws0.length) ms
/-- nodes of the items of the array node `a`; first free index `n`, items start at offset `o` -/
def nodesItems (a : Nat) : Nat → Nat → List Item → List Node
  | _, _, [] => []
  | n, o, (w1, v, w2) :: its =>
    nodesOf (some a) n (o + w1.length) v ++ nodesItems a (n + nodeCount v) (nextItem o w1 v w2 its) its
def nodesMembers (a : Nat) : Nat → Nat → List Member → List Node
  | _, _, [] => []
  | n, o, (w1, k, w2, w3, v, w4) :: ms =>
    nodesOf (some a) n (valOff o w1 k w2 w3) v ++
      nodesMembers a (n + nodeCount v) (nextMember o w1 k w2 w3 v w4 ms) ms
end

mutual
/-- the keys of every object are pairwise distinct after decoding, in the loader's own terms (`keyText`) -/
def KeysDistinct (src : Array UInt8) : Nat → Tree → Prop
  | _, .scalar _ => True
  | o, .arr ws0 its => DistinctItems src (o + 1 + ws0.length) its
  | o, .obj ws0 ms =>
    ((keysMembers (o + 1 + ws0.length) ms).map (keyText src)).Nodup ∧ DistinctMembers src (o + 1 + ws0.length) ms
def DistinctItems (src : Array UInt8) : Nat → List Item → Prop
  | _, [] => True
  | o, (w1, v, w2) :: its => KeysDistinct src (o + w1.length) v ∧ DistinctItems src (nextItem o w1 v w2 its) its
def DistinctMembers (src : Array UInt8) : Nat → List Member → Prop
  | _, [] => True
  | o, (w1, k, w2, w3, v, w4) :: ms =>
    KeysDistinct src (valOff o w1 k w2 w3) v ∧ DistinctMembers src (nextMember o w1 k w2 w3 v w4 ms) ms
end

mutual
theorem nodesOf_length (parent : Option Nat) : (v : Tree) → (n o : Nat) → (nodesOf parent n o v).length = nodeCount v
  | .scalar _, _, _ => by simp [nodesOf, nodeCount]
  | .arr ws0 its, n, o => by
    simp only [nodesOf, nodeCount, List.length_cons, nodesItems_length n its]; omega
  | .obj ws0 ms, n, o => by
    simp only [nodesOf, nodeCount, List.length_cons, nodesMembers_length n ms]; omega
theorem nodesItems_length (a : Nat) : (its : List Item) → (n o : Nat) → (nodesItems a n o its).length = countItems its
  | [], _, _ => by simp [nodesItems, countItems]
  | (w1, v, w2) :: its, n, o => by
    simp only [nodesItems, countItems, List.length_append, nodesOf_length (some a) v, nodesItems_length a its]
theorem nodesMembers_length (a : Nat) : (ms : List Member) → (n o : Nat) →
    (nodesMembers a n o ms).length = countMembers ms
  | [], _, _ => by simp [nodesMembers, countMembers]
  | (w1, k, w2, w3, v, w4) :: ms, n, o => by
    simp only [nodesMembers, countMembers, List.length_append, nodesOf_length (some a) v, nodesMembers_length a ms]
end

/-! ### the events of a value: the opening event creates the node, the rest fills it -/

def kindOf : Tree → NK
  | .scalar _ => .lit
  | .arr _ _ => .arr
  | .obj _ _ => .obj

def openEv (o : Nat) : Tree → Ev
  | .scalar _ => ⟨.litB, o, o⟩
  | .arr _ _ => ⟨.arrB, o, o⟩
  | .obj _ _ => ⟨.objB, o, o⟩

def bodyEvs (o : Nat) : Tree → List Ev
  | .scalar tok => [⟨.litE, o, o + tok.length - 1⟩]
  | .arr ws0 its => nlEvs (o + 1) ws0 ++ evsItems o (o + 1 + ws0.length) its
  | .obj ws0 ms => nlEvs (o + 1) ws0 ++ evsMembers o (o + 1 + ws0.length) ms

theorem schemaEvsAt_eq (o : Nat) (v : Tree) : schemaEvsAt o v = openEv o v :: bodyEvs o v := by
  cases v <;> simp [schemaEvsAt, openEv, bodyEvs]

theorem openEv_plain (o : Nat) (v : Tree) : plainTy (openEv o v).ty = true := by cases v <;> rfl
theorem openEv_kind (o : Nat) (v : Tree) : kindOfLex (openEv o v).ty = some (kindOf v) := by cases v <;> rfl

theorem R_nl (src : Array UInt8) (L : List Node) (l r : Option Nat) : (ws : List Cls) → (o : Nat) →
    Run src (nlEvs o ws) L l r L l r
  | [], _ => Run.nil src L l r
  | c :: cs, o => by
    simp only [nlEvs]
    split
    · exact Run.trans (step_newLine src o o L l r) (R_nl src L l r cs (o + 1))
    · exact Run.trans (Run.nil src L l r) (R_nl src L l r cs (o + 1))

theorem set_last {α : Type} (L0 : List α) (x y : α) : (L0 ++ [x]).set L0.length y = L0 ++ [y] := by
  induction L0 with
  | nil => rfl
  | cons a l ih => simp only [List.cons_append, List.length_cons, List.set_cons_succ, ih]

theorem getElem?_last {α : Type} (L0 : List α) (x : α) : (L0 ++ [x])[L0.length]? = some x := by
  simp

theorem node_wait_eta (na : Node) (hw : na.waiting = false) (c : List Nat) :
    ({ ({ na with waiting := true } : Node) with waiting := false, children := na.children ++ c } : Node)
      = { na with children := na.children ++ c } := by
  cases na; simp only at hw; subst hw; rfl

theorem node_wait_eta2 (na : Node) (hw : na.waiting = false) (c : List Nat) (ks : List (Nat × Nat × Bool)) :
    ({ ({ ({ na with keys := ks } : Node) with waiting := true } : Node) with
        waiting := false, children := na.children ++ c } : Node)
      = { na with children := na.children ++ c, keys := ks } := by
  cases na; simp only at hw; subst hw; rfl

theorem nodup_any_false (src : Array UInt8) (ks rest : List (Nat × Nat × Bool)) (kk : Nat × Nat × Bool)
    (h : ((ks ++ kk :: rest).map (keyText src)).Nodup) :
    ks.any (fun k' => keyText src k' == keyText src kk) = false := by
  rw [List.any_eq_false]
  intro k' hk' heq
  rw [List.map_append, List.nodup_append] at h
  exact h.2.2 (keyText src k') (List.mem_map_of_mem hk') (keyText src kk) (List.mem_map_of_mem List.mem_cons_self)
    (by simpa using heq)

/-- the key entry the loader records for the member key `k` after white space `w1` at offset `o` -/
abbrev kspan (o : Nat) (w1 k : List Cls) : Nat × Nat × Bool := (o + w1.length, o + w1.length + k.length - 1, false)

/-- the array node after one more child `c` -/
abbrev addChild (na : Node) (c : Nat) : Node := { na with children := na.children ++ [c] }
/-- the object node after one more member: key entry `kk`, child `c` -/
abbrev addMember (na : Node) (c : Nat) (kk : Nat × Nat × Bool) : Node :=
  { na with children := na.children ++ [c], keys := na.keys ++ [kk] }

/-! ### one item / one member: up to the creation of the child node, and after the child is complete -/

theorem item_open_run (src : Array UInt8) (v : Tree) (w1 : List Cls) (a : Nat) (na : Node) (L : List Node) (o : Nat)
    (r : Option Nat) (hn : L[a]? = some na) (hk : na.kind = .arr) (hw : na.waiting = false) :
    Run src (nlEvs o w1 ++ [⟨.itemB, o + w1.length, o + w1.length⟩, openEv (o + w1.length) v]) L (some a) r
      (L.set a (addChild na L.length) ++ [fresh (kindOf v) (some a)])
      (some (L.set a (addChild na L.length)).length) r := by
  obtain ⟨hlt, _⟩ := List.getElem?_eq_some_iff.mp hn
  have s1 := R_nl src L (some a) r w1 o
  have s2 := R_itemB src (o + w1.length) (o + w1.length) a na L r hn hk hw
  have s3 := R_create src (openEv (o + w1.length) v) (kindOf v) a { na with waiting := true }
    (L.set a { na with waiting := true }) r (openEv_plain _ _) (openEv_kind _ _) (by simp [hlt]) (Or.inl hk) rfl
  exact (Run.trans s1 (Run.cons s2 s3)).cast rfl
    (by rw [List.set_set, List.length_set, node_wait_eta na hw]) (by simp)

theorem item_close_run (src : Array UInt8) (w2 : List Cls) (a x y p : Nat) (na : Node) (L : List Node)
    (r : Option Nat) (hn : L[a]? = some na) (hk : na.kind = .arr) (hw : na.waiting = false) :
    Run src (⟨.itemE, x, y⟩ :: nlEvs p w2) L (some a) r L (some a) r :=
  Run.cons (R_itemE src x y a na L r hn hk hw) (R_nl src L (some a) r w2 p)

/-- a member up to the creation of the value node; the key must differ from the keys recorded so far -/
theorem member_open_run (src : Array UInt8) (v : Tree) (w1 k w2 w3 : List Cls) (a : Nat) (na : Node) (L : List Node)
    (o : Nat) (r : Option Nat) (hn : L[a]? = some na) (hk : na.kind = .obj) (hw : na.waiting = false)
    (hany : na.keys.any (fun k' => keyText src k' == keyText src (kspan o w1 k)) = false) :
    Run src (nlEvs o w1 ++ (⟨.keyB, o + w1.length, o + w1.length⟩ :: ⟨.keyE, o + w1.length, o + w1.length + k.length - 1⟩ ::
        (nlEvs (o + w1.length + k.length) w2 ++ (nlEvs (o + w1.length + k.length + w2.length + 1) w3 ++
          [⟨.valB, valOff o w1 k w2 w3, valOff o w1 k w2 w3⟩, openEv (valOff o w1 k w2 w3) v]))))
      L (some a) r
      (L.set a (addMember na L.length (kspan o w1 k)) ++ [fresh (kindOf v) (some a)])
      (some (L.set a (addMember na L.length (kspan o w1 k))).length) r := by
  obtain ⟨hlt, _⟩ := List.getElem?_eq_some_iff.mp hn
  have s1 := R_nl src L (some a) r w1 o
  have s2 := R_keyB src (o + w1.length) (o + w1.length) a na L r hn hk hw
  have s3 := R_keyE src (o + w1.length) (o + w1.length + k.length - 1) a na L r hn hk hw hany
  have hn1 : (L.set a { na with keys := na.keys ++ [kspan o w1 k] })[a]?
      = some { na with keys := na.keys ++ [kspan o w1 k] } := by
    simp [hlt]
  have s4 := R_nl src (L.set a { na with keys := na.keys ++ [kspan o w1 k] })
    (some a) r w2 (o + w1.length + k.length)
  have s5 := R_nl src (L.set a { na with keys := na.keys ++ [kspan o w1 k] })
    (some a) r w3 (o + w1.length + k.length + w2.length + 1)
  have s6 := R_valB src (valOff o w1 k w2 w3) (valOff o w1 k w2 w3) a _ _ r hn1 hk hw
  have s7 := R_create src (openEv (valOff o w1 k w2 w3) v) (kindOf v) a
    { ({ na with keys := na.keys ++ [kspan o w1 k] } : Node) with waiting := true }
    ((L.set a { na with keys := na.keys ++ [kspan o w1 k] }).set a
      { ({ na with keys := na.keys ++ [kspan o w1 k] } : Node) with waiting := true })
    r (openEv_plain _ _) (openEv_kind _ _)
    (List.getElem?_set_self (by simpa using hlt)) (Or.inr hk) rfl
  refine (Run.trans s1 (Run.cons s2 (Run.cons s3 (Run.trans s4 (Run.trans s5 (Run.cons s6 s7)))))).cast ?_ ?_ ?_
  · simp
  · rw [List.set_set, List.set_set, List.length_set, List.length_set]
    exact congrArg (fun z => L.set a z ++ [fresh (kindOf v) (some a)]) (node_wait_eta2 na hw _ _)
  · simp

theorem member_close_run (src : Array UInt8) (w4 : List Cls) (a x y p : Nat) (na : Node) (L : List Node)
    (r : Option Nat) (hn : L[a]? = some na) (hk : na.kind = .obj) (hw : na.waiting = false) :
    Run src (⟨.valE, x, y⟩ :: nlEvs p w4) L (some a) r L (some a) r :=
  Run.cons (R_valE src x y a na L r hn hk hw) (R_nl src L (some a) r w4 p)

theorem getElem?_set_append {α : Type} (L M : List α) (a : Nat) (x : α) (h : a < L.length) :
    (L.set a x ++ M)[a]? = some x := by
  rw [List.getElem?_append_left (by simpa using h)]; simp [h]

/-! ### the main induction -/

mutual
theorem body_run (src : Array UInt8) : (v : Tree) → (par : Option Nat) → (L0 : List Node) → (o : Nat) →
    (r : Option Nat) → KeysDistinct src o v →
    Run src (bodyEvs o v) (L0 ++ [fresh (kindOf v) par]) (some L0.length) r
      (L0 ++ nodesOf par L0.length o v) par r
  | .scalar tok, par, L0, o, r, _ => by
    have h := R_litE src o (o + tok.length - 1) L0.length (fresh .lit par) (L0 ++ [fresh .lit par]) r
      (getElem?_last _ _) rfl
    exact h.cast rfl (by rw [set_last]; rfl) rfl
  | .arr ws0 its, par, L0, o, r, hd => by
    have hd' : DistinctItems src (o + 1 + ws0.length) its := by simpa [KeysDistinct] using hd
    have h1 := R_nl src (L0 ++ [fresh .arr par]) (some L0.length) r ws0 (o + 1)
    have h2 := items_run src its o L0.length (fresh .arr par) (L0 ++ [fresh .arr par]) (o + 1 + ws0.length) r
      (getElem?_last _ _) rfl rfl hd'
    exact (Run.trans h1 h2).cast rfl (by rw [set_last]; simp [nodesOf, fresh]) rfl
  | .obj ws0 ms, par, L0, o, r, hd => by
    obtain ⟨hk, hd'⟩ : ((keysMembers (o + 1 + ws0.length) ms).map (keyText src)).Nodup ∧
        DistinctMembers src (o + 1 + ws0.length) ms := by simpa [KeysDistinct] using hd
    have h1 := R_nl src (L0 ++ [fresh .obj par]) (some L0.length) r ws0 (o + 1)
    have h2 := members_run src ms o L0.length (fresh .obj par) (L0 ++ [fresh .obj par]) (o + 1 + ws0.length) r
      (getElem?_last _ _) rfl rfl (by simpa [fresh] using hk) hd'
    exact (Run.trans h1 h2).cast rfl (by rw [set_last]; simp [nodesOf, fresh]) rfl
theorem items_run (src : Array UInt8) : (its : List Item) → (x a : Nat) → (na : Node) → (L : List Node) → (o : Nat) →
    (r : Option Nat) → L[a]? = some na → na.kind = .arr → na.waiting = false → DistinctItems src o its →
    Run src (evsItems x o its) L (some a) r
      (L.set a { na with children := na.children ++ idxItems L.length its } ++ nodesItems a L.length o its)
      na.parent r
  | [], x, a, na, L, o, r, hn, hk, hw, _ => by
    have h := R_arrE src x o a na L r hn hk hw
    exact h.cast rfl (by simp [idxItems, nodesItems, set_same L a na hn]) rfl
  | (w1, v, w2) :: its, x, a, na, L, o, r, hn, hk, hw, hd => by
    obtain ⟨hdv, hdi⟩ : KeysDistinct src (o + w1.length) v ∧ DistinctItems src (nextItem o w1 v w2 its) its := by
      simpa [DistinctItems] using hd
    obtain ⟨hlt, _⟩ := List.getElem?_eq_some_iff.mp hn
    have h1 := item_open_run src v w1 a na L o r hn hk hw
    have h2 := body_run src v (some a) (L.set a (addChild na L.length)) (o + w1.length) r hdv
    have hn2 := getElem?_set_append L
      (nodesOf (some a) (L.set a (addChild na L.length)).length (o + w1.length) v) a (addChild na L.length) hlt
    have h3 := item_close_run src w2 a (o + w1.length) (o + w1.length + v.render.length - 1)
      (o + w1.length + v.render.length) _ _ r hn2 hk hw
    have h4 := items_run src its x a _ _ (nextItem o w1 v w2 its) r hn2 hk hw hdi
    refine (Run.trans h1 (Run.trans h2 (Run.trans h3 h4))).cast ?_ ?_ rfl
    · simp [evsItems, schemaEvsAt_eq, nextItem]
    · rw [List.set_append_left _ _ (by simp [hlt]), List.set_set]
      simp only [addChild, List.length_append, List.length_set, nodesOf_length, idxItems, nodesItems,
        List.append_assoc, List.cons_append, List.nil_append]
theorem members_run (src : Array UInt8) : (ms : List Member) → (x a : Nat) → (na : Node) → (L : List Node) →
    (o : Nat) → (r : Option Nat) → L[a]? = some na → na.kind = .obj → na.waiting = false →
    ((na.keys ++ keysMembers o ms).map (keyText src)).Nodup → DistinctMembers src o ms →
    Run src (evsMembers x o ms) L (some a) r
      (L.set a { na with children := na.children ++ idxMembers L.length ms, keys := na.keys ++ keysMembers o ms }
        ++ nodesMembers a L.length o ms)
      na.parent r
  | [], x, a, na, L, o, r, hn, hk, hw, _, _ => by
    have h := R_objE src x o a na L r hn hk hw
    exact h.cast rfl (by simp [idxMembers, nodesMembers, keysMembers, set_same L a na hn]) rfl
  | (w1, k, w2, w3, v, w4) :: ms, x, a, na, L, o, r, hn, hk, hw, hnd, hd => by
    obtain ⟨hdv, hdi⟩ : KeysDistinct src (valOff o w1 k w2 w3) v ∧
        DistinctMembers src (nextMember o w1 k w2 w3 v w4 ms) ms := by
      simpa [DistinctMembers] using hd
    obtain ⟨hlt, _⟩ := List.getElem?_eq_some_iff.mp hn
    have hany := nodup_any_false src na.keys (keysMembers (nextMember o w1 k w2 w3 v w4 ms) ms)
      (kspan o w1 k) (by simpa [keysMembers] using hnd)
    have h1 := member_open_run src v w1 k w2 w3 a na L o r hn hk hw hany
    have h2 := body_run src v (some a) (L.set a (addMember na L.length (kspan o w1 k))) (valOff o w1 k w2 w3) r hdv
    have hn2 := getElem?_set_append L
      (nodesOf (some a) (L.set a (addMember na L.length (kspan o w1 k))).length (valOff o w1 k w2 w3) v) a
      (addMember na L.length (kspan o w1 k)) hlt
    have h3 := member_close_run src w4 a (valOff o w1 k w2 w3) (valOff o w1 k w2 w3 + v.render.length - 1)
      (valOff o w1 k w2 w3 + v.render.length) _ _ r hn2 hk hw
    have h4 := members_run src ms x a _ _ (nextMember o w1 k w2 w3 v w4 ms) r hn2 hk hw
      (by simpa [keysMembers] using hnd) hdi
    refine (Run.trans h1 (Run.trans h2 (Run.trans h3 h4))).cast ?_ ?_ rfl
    · simp [evsMembers, schemaEvsAt_eq, nextMember, valOff]
    · rw [List.set_append_left _ _ (by simp [hlt]), List.set_set]
      simp only [addMember, List.length_append, List.length_set, nodesOf_length, idxMembers, nodesMembers, keysMembers,
        List.append_assoc, List.cons_append, List.nil_append]
end

/-! ### the whole document -/

/-- a value at the top level: the opening event creates the root node 0 -/
theorem value_run_root (src : Array UInt8) (v : Tree) (o : Nat) (hd : KeysDistinct src o v) :
    Run src (schemaEvsAt o v) [] none none (nodesOf none 0 o v) none (some 0) := by
  have h1 := R_root src (openEv o v) (kindOf v) (openEv_plain o v) (openEv_kind o v) [] none
  have h2 := body_run src v none [] o (some 0) hd
  exact (Run.cons h1 h2).cast (schemaEvsAt_eq o v).symm (by simp) rfl

theorem doc_run (src : Array UInt8) (v : Tree) (ws0 ws1 : List Cls) (hd : KeysDistinct src ws0.length v) :
    Run src (nlEvs 0 ws0 ++ (schemaEvsAt ws0.length v ++ nlEvs (ws0.length + v.render.length) ws1))
      [] none none (nodesOf none 0 ws0.length v) none (some 0) :=
  Run.trans (R_nl src [] none none ws0 0) (Run.trans (value_run_root src v ws0.length hd) (R_nl src _ none (some 0) ws1 _))

theorem core_init : Core {} [] none none := ⟨rfl, rfl, rfl, rfl⟩

/-- **C16 (loader), event-list form.** On the events of a plain-JSON value tree `v` (any nesting, width, layout with
line breaks; leading / trailing white space `ws0` / `ws1`) whose objects have pairwise distinct decoded keys, `load`
(the fold of `step` over the event list) succeeds; the root is node 0 and the node table is exactly `nodesOf`:
one node per value in pre-order, kinds, parents, children and keys in source order, key and literal spans,
no rules, no comment. (No validity assumption on the tokens is needed on the loader's side.) -/
theorem C16_load_mirrors_tree (src : Array UInt8) (v : Tree) (ws0 ws1 : List Cls)
    (hd : KeysDistinct src ws0.length v) :
    ∃ st, load src (nlEvs 0 ws0 ++ (schemaEvsAt ws0.length v ++ nlEvs (ws0.length + v.render.length) ws1)) = .ok st ∧
      st.root = some 0 ∧ st.nodes.toList = nodesOf none 0 ws0.length v ∧ st.leaf = none := by
  obtain ⟨st, h, hn, hl, hr, _⟩ := doc_run src v ws0 ws1 hd {} core_init
  exact ⟨st, h, hr, hn, hl⟩

/-- **C16, end to end (scanner model, then loader model).** A schema text `bs` that is the rendering of a valid
plain-JSON tree is scanned by `scanAll` into events on which `load` builds exactly `nodesOf` of the tree. -/
theorem C16_scan_load_mirrors_tree (v : Tree) (hv : v.Valid) (ws0 ws1 : List Cls)
    (h0 : SchemaScan.IsWs ws0) (h1 : SchemaScan.IsWs ws1)
    (bs : List UInt8) (hbs : bs.map SchemaScan.classify = ws0 ++ (v.render ++ ws1))
    (hd : KeysDistinct bs.toArray ws0.length v) :
    ∃ evs st, SchemaScan.scanAll bs = .ok evs ∧ load bs.toArray evs = .ok st ∧
      st.root = some 0 ∧ st.nodes.toList = nodesOf none 0 ws0.length v := by
  obtain ⟨st, h, hr, hn, _⟩ := C16_load_mirrors_tree bs.toArray v ws0 ws1 hd
  exact ⟨_, st, SchemaScan.C06_schema_events_of_tree v hv ws0 ws1 h0 h1 bs hbs, h, hr, hn⟩

/-! ### the interleaved loop `loadLoop` / `loadText` -/

theorem loadLoop_of_emits (src : Array UInt8) {data : Array Cls} {sc : SchemaScan.Sc} {evs : List Ev}
    (h : SchemaScan.Emits data sc evs) :
    ∀ (fuel : Nat) (st st' : St), evs.length < fuel → evs.foldlM (step src) st = .ok st' →
      loadLoop src data fuel sc st = .ok st' := by
  induction h with
  | nil hn =>
    intro fuel st st' hf hfold
    cases fuel with
    | zero => cases hf
    | succ f =>
      rw [loadLoop]
      simp only [hn.next]
      simp only [List.foldlM_nil, pure, Except.pure] at hfold
      cases hfold; rfl
  | cons hn _ ih =>
    intro fuel st st' hf hfold
    cases fuel with
    | zero => cases hf
    | succ f =>
      rw [loadLoop]
      simp only [hn.next]
      simp only [List.foldlM_cons, bind, Except.bind] at hfold
      split at hfold
      · cases hfold
      · rename_i st1 hs
        simp only [hs]
        exact ih f st1 st' (by simpa using hf) hfold

/-- **C16, end to end (interleaved form).** `loadText` — `Scanner.Next()` and the loader step by step, as
`doLoad` runs them — on the rendering of a valid plain-JSON tree builds exactly `nodesOf` of the tree. -/
theorem C16_loadText_mirrors_tree (v : Tree) (hv : v.Valid) (ws0 ws1 : List Cls)
    (h0 : SchemaScan.IsWs ws0) (h1 : SchemaScan.IsWs ws1)
    (bs : List UInt8) (hbs : bs.map SchemaScan.classify = ws0 ++ (v.render ++ ws1))
    (hd : KeysDistinct bs.toArray ws0.length v) :
    ∃ st, loadText bs = .ok st ∧ st.root = some 0 ∧ st.nodes.toList = nodesOf none 0 ws0.length v := by
  obtain ⟨st, h, hr, hn, _⟩ := C16_load_mirrors_tree bs.toArray v ws0 ws1 hd
  refine ⟨st, ?_, hr, hn⟩
  unfold loadText
  simp only [hbs]
  refine loadLoop_of_emits bs.toArray (SchemaScan.emits_of_tree v hv ws0 ws1 h0 h1) _ {} st ?_ h
  have a := SchemaScan.nlEvs_length 0 ws0
  have b := SchemaScan.nlEvs_length (ws0.length + v.render.length) ws1
  have c := SchemaScan.evs_length v hv ws0.length
  simp only [List.length_append, List.size_toArray]
  omega

#print axioms C16_load_mirrors_tree
#print axioms C16_scan_load_mirrors_tree
#print axioms C16_loadText_mirrors_tree

end Loader
