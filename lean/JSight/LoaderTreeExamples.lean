import JSight.LoaderTreeMirrors
/-!
Non-vacuity of the C16 loader theorems: the general theorems instantiated on concrete schema texts (the sample of
`SchemaEventsTree` with nesting, line breaks, tabs, escapes; and a text with a key repeated after decoding), next to
the values the executable model computes.
-/
namespace Loader
open SchemaScan (Cls Tree sampleBytes sampleTree sampleTree_valid sample_classes)

theorem sample_keys_distinct : KeysDistinct sampleBytes.toArray 1 sampleTree := by
  simp only [sampleTree, KeysDistinct, DistinctMembers, DistinctItems, keysMembers, nextMember, valOff,
    Tree.render, SchemaScan.renderItems, and_true, true_and]
  decide

/-- the general theorem, instantiated: ` {⏎"a\n" :⏎ [1, true,␍⏎⇥-0.50 ] ,⏎⏎ "é": { }⏎}⏎ ` -/
theorem sample_loaded :
    ∃ st, loadText sampleBytes = .ok st ∧ st.root = some 0 ∧ st.nodes.toList = nodesOf none 0 1 sampleTree :=
  C16_loadText_mirrors_tree sampleTree sampleTree_valid [.sp] [.nl, .sp]
    (by simp [SchemaScan.IsWs, Cls.isBlank, Cls.isSpace]) (by simp [SchemaScan.IsWs, Cls.isBlank, Cls.isSpace, Cls.isNewLine])
    sampleBytes sample_classes sample_keys_distinct

#eval (loadText sampleBytes).map (fun st => (st.root, st.nodes.toList))
#eval nodesOf none 0 1 sampleTree

/-- `{"a":1,"a":2}`: the second key repeats the first after decoding -/
def dupBytes : List UInt8 := [123, 34, 97, 34, 58, 49, 44, 34, 92, 117, 48, 48, 54, 49, 34, 58, 50, 125]

def dupTree : Tree :=
  .obj [] [([], [.quote, .la, .quote], [], [], .scalar [.d19], []),
           ([], [.quote, .bslash, .lu, .zero, .zero, .d19, .d19, .quote], [], [], .scalar [.d19], [])]

theorem dup_classes : dupBytes.map SchemaScan.classify = [] ++ (dupTree.render ++ []) := by decide

theorem dupTree_valid : dupTree.Valid := by
  have k1 : SchemaScan.IsKey [.quote, .la, .quote] := SchemaScan.string_isKey [.la] (.plain _ _ rfl .nil)
  have k2 : SchemaScan.IsKey [.quote, .bslash, .lu, .zero, .zero, .d19, .d19, .quote] :=
    SchemaScan.string_isKey [.bslash, .lu, .zero, .zero, .d19, .d19] (.uni _ _ _ _ _ rfl rfl rfl rfl .nil)
  have n1 : SchemaScan.IsScalar [.d19] := ⟨.d19, [], .d1, false, .d1, rfl, rfl, rfl, rfl⟩
  simp [dupTree, Tree.Valid, SchemaScan.ValidMembers, SchemaScan.IsWs, k1, k2, n1]

theorem dup_at : DupAt dupBytes.toArray 7 0 dupTree := by
  simp only [dupTree, DupAt, DupMembers, KeysDistinct, nextMember, valOff, Tree.render]
  decide

/-- the general duplicate-key theorem, instantiated: error 402 at offset 7, the second key -/
theorem dup_reported : loadText dupBytes = .error "ERR 402 7" :=
  C16_loadText_duplicate_key dupTree dupTree_valid [] [] (by simp [SchemaScan.IsWs]) (by simp [SchemaScan.IsWs])
    dupBytes dup_classes 7 dup_at

#eval loadText dupBytes |>.map (fun st => st.nodes.toList)

#print axioms sample_loaded
#print axioms dup_reported

end Loader
