import JSight.BridgeCK
/-!
Bridge (A)∩(C), second part: the ORDER in which the two checkers visit the named types.
(A) sorts the type names with Lean's `String <` (`Compile.sortNames`: `sort.Strings`), (C) sorts the entries with
`CK.typeGoesFirst` (bytewise `<` on the names, fix F-34). On names whose characters are single bytes (every type name
the scanner lets through is ASCII) that are pairwise different and named (`@…`, not `#…`), the two visiting orders are
the same list of names (`sort_agree`).
-/
namespace BridgeCK
open Compile

/-- every character of the string is one byte (code point < 256; ASCII type names are) -/
def byteChars (s : String) : Prop := ∀ c ∈ s.toList, c.toNat < 256

instance (s : String) : Decidable (byteChars s) := by unfold byteChars; infer_instance

def toByte (c : Char) : UInt8 := UInt8.ofNat c.toNat

theorem strBytes_eq (s : String) : strBytes s = s.toList.map toByte := rfl

theorem toByte_toNat (c : Char) (h : c.toNat < 256) : (toByte c).toNat = c.toNat := by
  unfold toByte
  simp [UInt8.toNat_ofNat, Nat.mod_eq_of_lt h]

theorem char_lt_iff (a b : Char) (ha : a.toNat < 256) (hb : b.toNat < 256) : a < b ↔ toByte a < toByte b := by
  rw [Char.lt_def, UInt8.lt_iff_toNat_lt, toByte_toNat a ha, toByte_toNat b hb, UInt32.lt_iff_toNat_lt]
  rfl

theorem char_eq_iff (a b : Char) (ha : a.toNat < 256) (hb : b.toNat < 256) : a = b ↔ toByte a = toByte b := by
  constructor
  · intro h; rw [h]
  · intro h
    have : (toByte a).toNat = (toByte b).toNat := by rw [h]
    rw [toByte_toNat a ha, toByte_toNat b hb] at this
    exact Char.toNat_inj.1 this

theorem list_lt_iff : (l1 l2 : List Char) → (∀ c ∈ l1, c.toNat < 256) → (∀ c ∈ l2, c.toNat < 256) →
    (l1 < l2 ↔ CK.bytesLt (l1.map toByte) (l2.map toByte) = true)
  | [], [], _, _ => by simp [CK.bytesLt, List.not_lt_nil]
  | [], b :: bs, _, _ => by simp [CK.bytesLt, List.nil_lt_cons]
  | a :: as, [], _, _ => by simp [CK.bytesLt, List.not_lt_nil]
  | a :: as, b :: bs, h1, h2 => by
    have ha := h1 a List.mem_cons_self
    have hb := h2 b List.mem_cons_self
    have ih := list_lt_iff as bs (fun c hc => h1 c (List.mem_cons_of_mem _ hc)) (fun c hc => h2 c (List.mem_cons_of_mem _ hc))
    rw [List.cons_lt_cons_iff, char_lt_iff a b ha hb, char_eq_iff a b ha hb, ih]
    simp [CK.bytesLt]

/-- (A)'s comparison of two type names is (C)'s -/
theorem strLt_bytesLt (a b : String) (ha : byteChars a) (hb : byteChars b) :
    strLt a b = CK.bytesLt (name a) (name b) := by
  unfold strLt name
  rw [strBytes_eq, strBytes_eq, Bool.eq_iff_iff, decide_eq_true_iff]
  exact list_lt_iff a.toList b.toList ha hb

theorem list_map_inj : (l1 l2 : List Char) → (∀ c ∈ l1, c.toNat < 256) → (∀ c ∈ l2, c.toNat < 256) →
    l1.map toByte = l2.map toByte → l1 = l2
  | [], [], _, _, _ => rfl
  | [], _ :: _, _, _, h => by simp at h
  | _ :: _, [], _, _, h => by simp at h
  | a :: as, b :: bs, h1, h2, h => by
    simp only [List.map_cons, List.cons.injEq] at h
    have e := (char_eq_iff a b (h1 a List.mem_cons_self) (h2 b List.mem_cons_self)).2 h.1
    rw [e, list_map_inj as bs (fun c hc => h1 c (List.mem_cons_of_mem _ hc)) (fun c hc => h2 c (List.mem_cons_of_mem _ hc)) h.2]

theorem name_inj (a b : String) (ha : byteChars a) (hb : byteChars b) (h : name a = name b) : a = b := by
  unfold name at h
  rw [strBytes_eq, strBytes_eq] at h
  exact String.toList_inj.1 (list_map_inj a.toList b.toList ha hb h)

/-- bytewise `<` is a strict total order: of two different names exactly one goes first -/
theorem bytesLt_total : (a b : List UInt8) → a ≠ b → CK.bytesLt a b = !CK.bytesLt b a
  | [], [], h => absurd rfl h
  | [], _ :: _, _ => rfl
  | _ :: _, [], _ => rfl
  | a :: as, b :: bs, h => by
    simp only [CK.bytesLt]
    by_cases e : a = b
    · subst e
      have hne : as ≠ bs := fun x => h (by rw [x])
      have ih := bytesLt_total as bs hne
      have : ¬ a < a := by
        intro hlt
        exact absurd (UInt8.lt_iff_toNat_lt.1 hlt) (Nat.lt_irrefl _)
      simp [this, ih]
    · have e' : ¬ b = a := fun x => e x.symm
      have hab : (a == b) = false := by simpa using e
      have hba : (b == a) = false := by simpa using e'
      have : a < b ↔ ¬ b < a := by
        rw [UInt8.lt_iff_toNat_lt, UInt8.lt_iff_toNat_lt]
        have : a.toNat ≠ b.toNat := fun x => e (UInt8.toNat_inj.1 x)
        omega
      by_cases hlt : a < b
      · simp [hlt, this.1 hlt, hab, hba]
      · have : b < a := by
          rw [UInt8.lt_iff_toNat_lt] at hlt ⊢
          have : a.toNat ≠ b.toNat := fun x => e (UInt8.toNat_inj.1 x)
          omega
        simp [hlt, this, hab, hba]

theorem mem_ins (x : String) : (ys : List String) → ∀ y, y ∈ sortNames.ins x ys ↔ y = x ∨ y ∈ ys
  | [], y => by simp [sortNames.ins]
  | z :: zs, y => by
    unfold sortNames.ins
    split
    · simp only [List.mem_cons, mem_ins x zs y]
      constructor
      · rintro (h | h | h)
        · exact Or.inr (Or.inl h)
        · exact Or.inl h
        · exact Or.inr (Or.inr h)
      · rintro (h | h | h)
        · exact Or.inr (Or.inl h)
        · exact Or.inl h
        · exact Or.inr (Or.inr h)
    · simp

theorem mem_sortNames : (l : List String) → ∀ y, y ∈ sortNames l ↔ y ∈ l
  | [], y => by simp [sortNames]
  | x :: xs, y => by
    unfold sortNames
    rw [mem_ins, mem_sortNames xs y]
    simp

/-- inserting one named type: (C)'s `insertType` and (A)'s `ins` put it at the same place -/
theorem ins_agree (x : String) (hx : byteChars x) (e : CK.TypeEntry) (he : e.name = name x)
    (hnamed : CK.isUnnamed (name x) = false) :
    (ys : List String) → (us : List CK.TypeEntry) → us.map (·.name) = ys.map name →
    (∀ y ∈ ys, byteChars y ∧ y ≠ x) →
    (CK.insertType e us).map (·.name) = (sortNames.ins x ys).map name
  | [], [], _, _ => by simp [CK.insertType, sortNames.ins, he]
  | [], _ :: _, h, _ => by simp at h
  | _ :: _, [], h, _ => by simp at h
  | y :: ys, u :: us, h, hy => by
    simp only [List.map_cons, List.cons.injEq] at h
    obtain ⟨hu, hrest⟩ := h
    obtain ⟨hyb, hyx⟩ := hy y List.mem_cons_self
    have hne : name x ≠ name y := fun e => hyx (name_inj x y hx hyb e).symm
    have hgf : CK.typeGoesFirst e u = CK.bytesLt (name x) (name y) := by
      unfold CK.typeGoesFirst
      rw [he, hu, hnamed]
      simp
    have hlt : strLt y x = !CK.bytesLt (name x) (name y) := by
      rw [strLt_bytesLt y x hyb hx, bytesLt_total (name x) (name y) hne]
      simp
    unfold CK.insertType sortNames.ins
    rw [hgf, hlt]
    cases hb : CK.bytesLt (name x) (name y)
    · simp only [Bool.not_false, if_true, Bool.false_eq_true, if_false, List.map_cons, hu]
      rw [ins_agree x hx e he hnamed ys us hrest (fun z hz => hy z (List.mem_cons_of_mem _ hz))]
    · simp [he, hu, hrest]

/-- **the visiting orders agree**: on pairwise different, named (`@…`), single-byte type names, the names in the order
(C) visits the table (`CK.sortTypes` by `typeGoesFirst`) are the names in the order (A) visits it (`sortNames`) -/
theorem sort_agree : (ts : Types) → (ts.map (·.1)).Nodup → (∀ t ∈ ts, byteChars t.1 ∧ CK.isUnnamed (name t.1) = false) →
    (CK.sortTypes (ts.map typeEntry)).map (·.name) = (sortNames (ts.map (·.1))).map name
  | [], _, _ => rfl
  | t :: ts, hn, hb => by
    simp only [List.map_cons, List.nodup_cons] at hn
    have ih := sort_agree ts hn.2 (fun u hu => hb u (List.mem_cons_of_mem _ hu))
    obtain ⟨hbt, hnt⟩ := hb t List.mem_cons_self
    simp only [List.map_cons, CK.sortTypes, sortNames]
    refine ins_agree t.1 hbt (typeEntry t) rfl hnt _ _ ih ?_
    intro y hy
    rw [mem_sortNames] at hy
    obtain ⟨u, hu, rfl⟩ := List.mem_map.1 hy
    exact ⟨(hb u (List.mem_cons_of_mem _ hu)).1, fun e => hn.1 (by rw [← e]; exact List.mem_map_of_mem hu)⟩

end BridgeCK
