import JSight.LoaderShortcut
import JSight.ShortcutTreeDoc
/-!
C09 / C16 (loader part) for trees whose leaves are scalars or TYPE SHORTCUTS (`SchemaScan.STree`): the loader model
builds one node per value of the text in pre-order — `LoaderS.nodesOf` —: a shortcut leaf becomes a `mixed` node whose
value span is the `mixed-value-end` lexeme and whose only rule is the synthesised `type` (for `@A`) / `or` (for
`@A | @B`) with the shortcut's span as its value (`Loader.shortNode`).  `LoaderTree` restated for `STree`, same proofs,
one more case.
-/
namespace LoaderS
open Loader
open SchemaScan (Ev LexT Cls STree nlEvs sEvsAt sEvsItems sEvsMembers sRenderItems sRenderMembers)

/-- the rule a shortcut gets: `type` for `@A`, `or` for `@A | @B | …` -/
def ruleOf (sc : SchemaScan.Len.Shortcut) : String := if sc.alts.isEmpty then "type" else "or"

abbrev Item := List Cls × STree × List Cls
abbrev Member := List Cls × List Cls × List Cls × List Cls × STree × List Cls

/-! ### the expected node table -/

mutual
/-- number of values (= nodes) of a tree -/
def nodeCount : STree → Nat
  | .scalar _ => 1
  | .short _ _ => 1
  | .arr _ its => 1 + countItems its
  | .obj _ ms => 1 + countMembers ms
def countItems : List Item → Nat
  | [] => 0
  | (_, v, _) :: its => nodeCount v + countItems its
def countMembers : List Member → Nat
  | [] => 0
  | (_, _, _, _, v, _) :: ms => nodeCount v + countMembers ms
end

/-- node indices of the items when the first item gets index `n` -/
def idxItems : Nat → List Item → List Nat
  | _, [] => []
  | n, (_, v, _) :: its => n :: idxItems (n + nodeCount v) its

def idxMembers : Nat → List Member → List Nat
  | _, [] => []
  | n, (_, _, _, _, v, _) :: ms => n :: idxMembers (n + nodeCount v) ms

/-- offset of the next member / the closing brace -/
def nextMember (o : Nat) (w1 k w2 w3 : List Cls) (v : STree) (w4 : List Cls) (ms : List Member) : Nat :=
  valOff o w1 k w2 w3 + v.render.length + w4.length + (if ms.isEmpty then 0 else 1)

def nextItem (o : Nat) (w1 : List Cls) (v : STree) (w2 : List Cls) (its : List Item) : Nat :=
  o + w1.length + v.render.length + w2.length + (if its.isEmpty then 0 else 1)

/-- the key entries of an object whose first member (with its leading white space) starts at `o`:
span of each key token, not a shortcut -/
def keysMembers : Nat → List Member → List (Nat × Nat × Bool)
  | _, [] => []
  | o, (w1, k, w2, w3, v, w4) :: ms =>
    (o + w1.length, o + w1.length + k.length - 1, false) :: keysMembers (nextMember o w1 k w2 w3 v w4 ms) ms

mutual
/-- the node table of `v` rendered at offset `o`: pre-order, the root of `v` at index `n` with parent `parent` -/
def nodesOf (parent : Option Nat) : Nat → Nat → STree → List Node
  | _, o, .scalar tok => [{ kind := .lit, parent := parent, value := some (o, o + tok.length - 1) }]
  | _, o, .short sc sps =>
    [shortNode parent o (o + (sc.render ++ sps).length - 1)
      (SchemaScan.mixEndOf (o + (sc.render ++ sps).length - 1) (sc.render ++ sps)) (ruleOf sc)]
  | n, o, .arr ws0 its =>
    { kind := .arr, parent := parent, children := idxItems (n + 1) its } ::
      nodesItems n (n + 1) (o + 1 + ws0.length) its
  | n, o, .obj ws0 ms =>
    { kind := .obj, parent := parent, children := idxMembers (n + 1) ms,
      keys := keysMembers (o + 1 + ws0.length) ms } ::
      nodesMembers n (n + 1) (o + 1 + ws0.length) ms
/-- nodes of the items of the array node `a`; first free index `n`, items start at offset `o` -/
def nodesItems (a : Nat) : Nat → Nat → List Item → List Node
  | _, _, [] => []
  | n, o, (w1, v, w2) :: its =>
    nodesOf (some a) n (o + w1.length) v ++ nodesItems a (n + nodeCount v) (nextItem o w1 v w2 its) its
def nodesMembers (a : Nat) : Nat → Nat → List Member → List Node
  | _, _, [] => []
  | n, o, (w1, k, w2, w3, v, w4) :: ms =>
    nodesOf (some a) n (valOff o w1 k w2 w3) v ++
      nodesMembers a (n + nodeCount v) (nextMember o w1 k w2 w3 v w4 ms) ms
end

mutual
/-- the keys of every object are pairwise distinct after decoding, in the loader's own terms (`keyText`) -/
def KeysDistinct (src : Array UInt8) : Nat → STree → Prop
  | _, .scalar _ => True
  | o, .short sc sps => hasPipe (slice src o (o + (sc.render ++ sps).length - 1)) = !sc.alts.isEmpty
  | o, .arr ws0 its => DistinctItems src (o + 1 + ws0.length) its
  | o, .obj ws0 ms =>
    ((keysMembers (o + 1 + ws0.length) ms).map (keyText src)).Nodup ∧ DistinctMembers src (o + 1 + ws0.length) ms
def DistinctItems (src : Array UInt8) : Nat → List Item → Prop
  | _, [] => True
  | o, (w1, v, w2) :: its => KeysDistinct src (o + w1.length) v ∧ DistinctItems src (nextItem o w1 v w2 its) its
def DistinctMembers (src : Array UInt8) : Nat → List Member → Prop
  | _, [] => True
  | o, (w1, k, w2, w3, v, w4) :: ms =>
    KeysDistinct src (valOff o w1 k w2 w3) v ∧ DistinctMembers src (nextMember o w1 k w2 w3 v w4 ms) ms
end

mutual
theorem nodesOf_length (parent : Option Nat) : (v : STree) → (n o : Nat) → (nodesOf parent n o v).length = nodeCount v
  | .scalar _, _, _ => by simp [nodesOf, nodeCount]
  | .short _ _, _, _ => by simp [nodesOf, nodeCount]
  | .arr ws0 its, n, o => by
    simp only [nodesOf, nodeCount, List.length_cons, nodesItems_length n its]; omega
  | .obj ws0 ms, n, o => by
    simp only [nodesOf, nodeCount, List.length_cons, nodesMembers_length n ms]; omega
theorem nodesItems_length (a : Nat) : (its : List Item) → (n o : Nat) → (nodesItems a n o its).length = countItems its
  | [], _, _ => by simp [nodesItems, countItems]
  | (w1, v, w2) :: its, n, o => by
    simp only [nodesItems, countItems, List.length_append, nodesOf_length (some a) v, nodesItems_length a its]
theorem nodesMembers_length (a : Nat) : (ms : List Member) → (n o : Nat) →
    (nodesMembers a n o ms).length = countMembers ms
  | [], _, _ => by simp [nodesMembers, countMembers]
  | (w1, k, w2, w3, v, w4) :: ms, n, o => by
    simp only [nodesMembers, countMembers, List.length_append, nodesOf_length (some a) v, nodesMembers_length a ms]
end

/-! ### the events of a value: the opening event creates the node, the rest fills it -/

def kindOf : STree → NK
  | .scalar _ => .lit
  | .short _ _ => .mixed
  | .arr _ _ => .arr
  | .obj _ _ => .obj

def openEv (o : Nat) : STree → Ev
  | .scalar _ => ⟨.litB, o, o⟩
  | .short _ _ => ⟨.mixB, o, o⟩
  | .arr _ _ => ⟨.arrB, o, o⟩
  | .obj _ _ => ⟨.objB, o, o⟩

def bodyEvs (o : Nat) : STree → List Ev
  | .scalar tok => [⟨.litE, o, o + tok.length - 1⟩]
  | .short sc sps => [⟨.tsB, o, o⟩, ⟨.tsE, o, o + (sc.render ++ sps).length - 1⟩,
      ⟨.mixE, o, SchemaScan.mixEndOf (o + (sc.render ++ sps).length - 1) (sc.render ++ sps)⟩]
  | .arr ws0 its => nlEvs (o + 1) ws0 ++ sEvsItems o (o + 1 + ws0.length) its
  | .obj ws0 ms => nlEvs (o + 1) ws0 ++ sEvsMembers o (o + 1 + ws0.length) ms

theorem sEvsAt_eq (o : Nat) (v : STree) : sEvsAt o v = openEv o v :: bodyEvs o v := by
  cases v <;> simp [sEvsAt, openEv, bodyEvs]

theorem openEv_plain (o : Nat) (v : STree) (h : v.isShort = false) : plainTy (openEv o v).ty = true := by
  cases v <;> first | rfl | cases h
theorem openEv_kind (o : Nat) (v : STree) : kindOfLex (openEv o v).ty = some (kindOf v) := by cases v <;> rfl

/-! ### a value behind `item-begin` / `value-begin`: the child node and everything below it -/

theorem getElem?_set_append' {α : Type} (L M : List α) (a : Nat) (x : α) (h : a < L.length) :
    (L.set a x ++ M)[a]? = some x := by
  rw [List.getElem?_append_left (by simpa using h)]; simp [h]

theorem item_close_run (src : Array UInt8) (w2 : List Cls) (a x y p : Nat) (na : Node) (L : List Node)
    (r : Option Nat) (hn : L[a]? = some na) (hk : na.kind = .arr) (hw : na.waiting = false) :
    Run src (⟨.itemE, x, y⟩ :: nlEvs p w2) L (some a) r L (some a) r :=
  Run.cons (R_itemE src x y a na L r hn hk hw) (R_nl src L (some a) r w2 p)

theorem member_close_run (src : Array UInt8) (w4 : List Cls) (a x y p : Nat) (na : Node) (L : List Node)
    (r : Option Nat) (hn : L[a]? = some na) (hk : na.kind = .obj) (hw : na.waiting = false) :
    Run src (⟨.valE, x, y⟩ :: nlEvs p w4) L (some a) r L (some a) r :=
  Run.cons (R_valE src x y a na L r hn hk hw) (R_nl src L (some a) r w4 p)

/-- an item up to `item-begin` -/
theorem item_pre_run (src : Array UInt8) (w1 : List Cls) (a : Nat) (na : Node) (L : List Node) (o : Nat)
    (r : Option Nat) (hn : L[a]? = some na) (hk : na.kind = .arr) (hw : na.waiting = false) :
    Run src (nlEvs o w1 ++ [⟨.itemB, o + w1.length, o + w1.length⟩]) L (some a) r
      (L.set a { na with waiting := true }) (some a) r :=
  Run.trans (R_nl src L (some a) r w1 o) (R_itemB src (o + w1.length) (o + w1.length) a na L r hn hk hw)

/-- a member up to `value-begin`; the key must differ from the keys recorded so far -/
theorem member_pre_run (src : Array UInt8) (w1 k w2 w3 : List Cls) (a : Nat) (na : Node) (L : List Node)
    (o : Nat) (r : Option Nat) (hn : L[a]? = some na) (hk : na.kind = .obj) (hw : na.waiting = false)
    (hany : na.keys.any (fun k' => keyText src k' == keyText src (kspan o w1 k)) = false) :
    Run src (nlEvs o w1 ++ (⟨.keyB, o + w1.length, o + w1.length⟩ :: ⟨.keyE, o + w1.length, o + w1.length + k.length - 1⟩ ::
        (nlEvs (o + w1.length + k.length) w2 ++ (nlEvs (o + w1.length + k.length + w2.length + 1) w3 ++
          [⟨.valB, valOff o w1 k w2 w3, valOff o w1 k w2 w3⟩]))))
      L (some a) r
      (L.set a { ({ na with keys := na.keys ++ [kspan o w1 k] } : Node) with waiting := true }) (some a) r := by
  obtain ⟨hlt, _⟩ := List.getElem?_eq_some_iff.mp hn
  have s1 := R_nl src L (some a) r w1 o
  have s2 := R_keyB src (o + w1.length) (o + w1.length) a na L r hn hk hw
  have s3 := R_keyE src (o + w1.length) (o + w1.length + k.length - 1) a na L r hn hk hw hany
  have hn1 : (L.set a { na with keys := na.keys ++ [kspan o w1 k] })[a]?
      = some { na with keys := na.keys ++ [kspan o w1 k] } := by
    simp [hlt]
  have s4 := R_nl src (L.set a { na with keys := na.keys ++ [kspan o w1 k] })
    (some a) r w2 (o + w1.length + k.length)
  have s5 := R_nl src (L.set a { na with keys := na.keys ++ [kspan o w1 k] })
    (some a) r w3 (o + w1.length + k.length + w2.length + 1)
  have s6 := R_valB src (valOff o w1 k w2 w3) (valOff o w1 k w2 w3) a _ _ r hn1 hk hw
  refine (Run.trans s1 (Run.cons s2 (Run.cons s3 (Run.trans s4 (Run.trans s5 s6))))).cast ?_ ?_ rfl
  · simp
  · rw [List.set_set]

/-! ### the main induction -/

mutual
/-- the events of a value, from the array / object `a` that waits for it -/
theorem child_run (src : Array UInt8) : (v : STree) → (a : Nat) → (nw : Node) → (L : List Node) → (o : Nat) →
    (r : Option Nat) → L[a]? = some nw → (nw.kind = .arr ∨ nw.kind = .obj) → nw.waiting = true →
    KeysDistinct src o v →
    Run src (sEvsAt o v) L (some a) r
      (L.set a { nw with waiting := false, children := nw.children ++ [L.length] } ++ nodesOf (some a) L.length o v)
      (some a) r
  | .short sc sps, a, nw, L, o, r, hn, hk, hw, hd => by
    have hd' : hasPipe (slice src o (o + (sc.render ++ sps).length - 1)) = !sc.alts.isEmpty := by
      simpa [KeysDistinct] using hd
    have h := short_nested_run src o (o + (sc.render ++ sps).length - 1)
      (SchemaScan.mixEndOf (o + (sc.render ++ sps).length - 1) (sc.render ++ sps)) a nw L r hn hk hw
    refine h.cast (by simp [sEvsAt]) ?_ rfl
    simp only [nodesOf, shortRule, ruleOf, hd']
    cases sc.alts.isEmpty <;> rfl
  | .scalar tok, a, nw, L, o, r, hn, hk, hw, hd => by
    obtain ⟨hlt, _⟩ := List.getElem?_eq_some_iff.mp hn
    have h1 := R_create src (openEv o (.scalar tok)) .lit a nw L r rfl rfl hn hk hw
    have h2 := body_run src (.scalar tok) rfl (some a)
      (L.set a { nw with waiting := false, children := nw.children ++ [L.length] }) o r hd
    rw [List.length_set] at h2
    exact (Run.cons h1 h2).cast (sEvsAt_eq o _).symm rfl rfl
  | .arr ws0 its, a, nw, L, o, r, hn, hk, hw, hd => by
    obtain ⟨hlt, _⟩ := List.getElem?_eq_some_iff.mp hn
    have h1 := R_create src (openEv o (.arr ws0 its)) .arr a nw L r rfl rfl hn hk hw
    have h2 := body_run src (.arr ws0 its) rfl (some a)
      (L.set a { nw with waiting := false, children := nw.children ++ [L.length] }) o r hd
    rw [List.length_set] at h2
    exact (Run.cons h1 h2).cast (sEvsAt_eq o _).symm rfl rfl
  | .obj ws0 ms, a, nw, L, o, r, hn, hk, hw, hd => by
    obtain ⟨hlt, _⟩ := List.getElem?_eq_some_iff.mp hn
    have h1 := R_create src (openEv o (.obj ws0 ms)) .obj a nw L r rfl rfl hn hk hw
    have h2 := body_run src (.obj ws0 ms) rfl (some a)
      (L.set a { nw with waiting := false, children := nw.children ++ [L.length] }) o r hd
    rw [List.length_set] at h2
    exact (Run.cons h1 h2).cast (sEvsAt_eq o _).symm rfl rfl
theorem body_run (src : Array UInt8) : (v : STree) → v.isShort = false → (par : Option Nat) → (L0 : List Node) →
    (o : Nat) → (r : Option Nat) → KeysDistinct src o v →
    Run src (bodyEvs o v) (L0 ++ [fresh (kindOf v) par]) (some L0.length) r
      (L0 ++ nodesOf par L0.length o v) par r
  | .short _ _, h, _, _, _, _, _ => by cases h
  | .scalar tok, _, par, L0, o, r, _ => by
    have h := R_litE src o (o + tok.length - 1) L0.length (fresh .lit par) (L0 ++ [fresh .lit par]) r
      (getElem?_last _ _) rfl
    exact h.cast rfl (by rw [set_last]; rfl) rfl
  | .arr ws0 its, _, par, L0, o, r, hd => by
    have hd' : DistinctItems src (o + 1 + ws0.length) its := by simpa [KeysDistinct] using hd
    have h1 := R_nl src (L0 ++ [fresh .arr par]) (some L0.length) r ws0 (o + 1)
    have h2 := items_run src its o L0.length (fresh .arr par) (L0 ++ [fresh .arr par]) (o + 1 + ws0.length) r
      (getElem?_last _ _) rfl rfl hd'
    exact (Run.trans h1 h2).cast rfl (by rw [set_last]; simp [nodesOf, fresh]) rfl
  | .obj ws0 ms, _, par, L0, o, r, hd => by
    obtain ⟨hk, hd'⟩ : ((keysMembers (o + 1 + ws0.length) ms).map (keyText src)).Nodup ∧
        DistinctMembers src (o + 1 + ws0.length) ms := by simpa [KeysDistinct] using hd
    have h1 := R_nl src (L0 ++ [fresh .obj par]) (some L0.length) r ws0 (o + 1)
    have h2 := members_run src ms o L0.length (fresh .obj par) (L0 ++ [fresh .obj par]) (o + 1 + ws0.length) r
      (getElem?_last _ _) rfl rfl (by simpa [fresh] using hk) hd'
    exact (Run.trans h1 h2).cast rfl (by rw [set_last]; simp [nodesOf, fresh]) rfl
theorem items_run (src : Array UInt8) : (its : List Item) → (x a : Nat) → (na : Node) → (L : List Node) → (o : Nat) →
    (r : Option Nat) → L[a]? = some na → na.kind = .arr → na.waiting = false → DistinctItems src o its →
    Run src (sEvsItems x o its) L (some a) r
      (L.set a { na with children := na.children ++ idxItems L.length its } ++ nodesItems a L.length o its)
      na.parent r
  | [], x, a, na, L, o, r, hn, hk, hw, _ => by
    have h := R_arrE src x o a na L r hn hk hw
    exact h.cast rfl (by simp [idxItems, nodesItems, set_same L a na hn]) rfl
  | (w1, v, w2) :: its, x, a, na, L, o, r, hn, hk, hw, hd => by
    obtain ⟨hdv, hdi⟩ : KeysDistinct src (o + w1.length) v ∧ DistinctItems src (nextItem o w1 v w2 its) its := by
      simpa [DistinctItems] using hd
    obtain ⟨hlt, _⟩ := List.getElem?_eq_some_iff.mp hn
    have h1 := item_pre_run src w1 a na L o r hn hk hw
    have h2 := child_run src v a { na with waiting := true } (L.set a { na with waiting := true }) (o + w1.length) r
      (by simp [hlt]) (Or.inl hk) rfl hdv
    rw [List.set_set, List.length_set, node_wait_eta na hw] at h2
    have hn2 := getElem?_set_append' L
      (nodesOf (some a) L.length (o + w1.length) v) a (addChild na L.length) hlt
    have h3 := item_close_run src w2 a (o + w1.length) (o + w1.length + v.render.length - 1)
      (o + w1.length + v.render.length) _ _ r hn2 hk hw
    have h4 := items_run src its x a _ _ (nextItem o w1 v w2 its) r hn2 hk hw hdi
    refine (Run.trans h1 (Run.trans h2 (Run.trans h3 h4))).cast ?_ ?_ rfl
    · simp [sEvsItems, nextItem]
    · rw [List.set_append_left _ _ (by simp [hlt]), List.set_set]
      simp only [addChild, List.length_append, List.length_set, nodesOf_length, idxItems, nodesItems,
        List.append_assoc, List.cons_append, List.nil_append]
theorem members_run (src : Array UInt8) : (ms : List Member) → (x a : Nat) → (na : Node) → (L : List Node) →
    (o : Nat) → (r : Option Nat) → L[a]? = some na → na.kind = .obj → na.waiting = false →
    ((na.keys ++ keysMembers o ms).map (keyText src)).Nodup → DistinctMembers src o ms →
    Run src (sEvsMembers x o ms) L (some a) r
      (L.set a { na with children := na.children ++ idxMembers L.length ms, keys := na.keys ++ keysMembers o ms }
        ++ nodesMembers a L.length o ms)
      na.parent r
  | [], x, a, na, L, o, r, hn, hk, hw, _, _ => by
    have h := R_objE src x o a na L r hn hk hw
    exact h.cast rfl (by simp [idxMembers, nodesMembers, keysMembers, set_same L a na hn]) rfl
  | (w1, k, w2, w3, v, w4) :: ms, x, a, na, L, o, r, hn, hk, hw, hnd, hd => by
    obtain ⟨hdv, hdi⟩ : KeysDistinct src (valOff o w1 k w2 w3) v ∧
        DistinctMembers src (nextMember o w1 k w2 w3 v w4 ms) ms := by
      simpa [DistinctMembers] using hd
    obtain ⟨hlt, _⟩ := List.getElem?_eq_some_iff.mp hn
    have hany := nodup_any_false src na.keys (keysMembers (nextMember o w1 k w2 w3 v w4 ms) ms)
      (kspan o w1 k) (by simpa [keysMembers] using hnd)
    have h1 := member_pre_run src w1 k w2 w3 a na L o r hn hk hw hany
    have h2 := child_run src v a { ({ na with keys := na.keys ++ [kspan o w1 k] } : Node) with waiting := true }
      (L.set a { ({ na with keys := na.keys ++ [kspan o w1 k] } : Node) with waiting := true })
      (valOff o w1 k w2 w3) r (by simp [hlt]) (Or.inr hk) rfl hdv
    rw [List.set_set, List.length_set, node_wait_eta2 na hw] at h2
    have hn2 := getElem?_set_append' L
      (nodesOf (some a) L.length (valOff o w1 k w2 w3) v) a
      (addMember na L.length (kspan o w1 k)) hlt
    have h3 := member_close_run src w4 a (valOff o w1 k w2 w3) (valOff o w1 k w2 w3 + v.render.length - 1)
      (valOff o w1 k w2 w3 + v.render.length) _ _ r hn2 hk hw
    have h4 := members_run src ms x a _ _ (nextMember o w1 k w2 w3 v w4 ms) r hn2 hk hw
      (by simpa [keysMembers] using hnd) hdi
    refine (Run.trans h1 (Run.trans h2 (Run.trans h3 h4))).cast ?_ ?_ rfl
    · simp [sEvsMembers, nextMember, valOff]
    · rw [List.set_append_left _ _ (by simp [hlt]), List.set_set]
      simp only [addMember, List.length_append, List.length_set, nodesOf_length, idxMembers, nodesMembers, keysMembers,
        List.append_assoc, List.cons_append, List.nil_append]
end

/-! ### the whole document -/

/-- a value at the top level: the opening event creates the root node 0 -/
theorem value_run_root (src : Array UInt8) (v : STree) (o : Nat) (hd : KeysDistinct src o v) :
    Run src (sEvsAt o v) [] none none (nodesOf none 0 o v) none (some 0) := by
  by_cases hs : v.isShort = true
  · cases v with
    | short sc sps =>
      have hd' : hasPipe (slice src o (o + (sc.render ++ sps).length - 1)) = !sc.alts.isEmpty := by
        simpa [KeysDistinct] using hd
      have h := short_root_run src o (o + (sc.render ++ sps).length - 1)
        (SchemaScan.mixEndOf (o + (sc.render ++ sps).length - 1) (sc.render ++ sps))
      refine h.cast (by simp [sEvsAt]) ?_ rfl
      simp only [nodesOf, shortRule, ruleOf, hd']
      cases sc.alts.isEmpty <;> rfl
    | scalar _ => cases hs
    | arr _ _ => cases hs
    | obj _ _ => cases hs
  · have hs' : v.isShort = false := by simpa using hs
    have h1 := R_root src (openEv o v) (kindOf v) (openEv_plain o v hs') (openEv_kind o v) [] none
    have h2 := body_run src v hs' none [] o (some 0) hd
    exact (Run.cons h1 h2).cast (sEvsAt_eq o v).symm (by simp) rfl

theorem doc_run (src : Array UInt8) (v : STree) (ws0 ws1 : List Cls) (hd : KeysDistinct src ws0.length v) :
    Run src (nlEvs 0 ws0 ++ (sEvsAt ws0.length v ++ nlEvs (ws0.length + v.render.length) ws1))
      [] none none (nodesOf none 0 ws0.length v) none (some 0) :=
  Run.trans (R_nl src [] none none ws0 0) (Run.trans (value_run_root src v ws0.length hd) (R_nl src _ none (some 0) ws1 _))

/-- **C16 (loader), trees with shortcut leaves, interleaved form**: `loadText` — `Scanner.Next()` and the loader step
by step — on the rendering of a valid tree whose leaves are scalars or type shortcuts builds exactly `nodesOf`. -/
theorem loadText_mirrors_stree (v : STree) (hv : v.Valid) (ws0 ws1 : List Cls)
    (h0 : SchemaScan.IsWs ws0) (h1 : SchemaScan.IsWs ws1) (hf : SchemaScan.Follow v ws1)
    (bs : List UInt8) (hbs : bs.map SchemaScan.classify = ws0 ++ (v.render ++ ws1))
    (hd : KeysDistinct bs.toArray ws0.length v) :
    ∃ st, loadText bs = .ok st ∧ st.root = some 0 ∧ st.nodes.toList = nodesOf none 0 ws0.length v := by
  obtain ⟨st, h, hn, hl, hr, _⟩ := doc_run bs.toArray v ws0 ws1 hd {} core_init
  refine ⟨st, ?_, hr, hn⟩
  unfold loadText
  simp only [hbs]
  refine loadLoop_of_emits bs.toArray (SchemaScan.Len.emits_of_stree v hv ws0 ws1 h0 h1 hf) _ {} st ?_ h
  have a := SchemaScan.nlEvs_length 0 ws0
  have b := SchemaScan.nlEvs_length (ws0.length + v.render.length) ws1
  have c := SchemaScan.Len.sevs_length v hv ws0.length
  simp only [List.length_append, List.size_toArray]
  omega

#print axioms loadText_mirrors_stree

end LoaderS

namespace LoaderS
/-- the object node of `nodesOf` -/
def objNodeS (par : Option Nat) (cs : List Nat) (ks : List (Nat × Nat × Bool)) : Loader.Node :=
  { kind := .obj, parent := par, children := cs, keys := ks }
end LoaderS
