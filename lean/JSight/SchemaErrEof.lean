import JSight.SchemaErrPrefix
import JSight.SchemaLenErr
/-!
C17, schema scanner, input ends early (ordinary mode, `scanAll`): the token-boundary and open-string cases of
`C14_schema_len_error_*` transported from `Length()` to the event stream through `Fails`.
-/
namespace SchemaScan
open Len

theorem errRun_fails {data : Array Cls} {s : Sc} {e : Err} {k : Nat} (h : ErrRun data s e k) (hc : e.isCrash = false) :
    Fails data s e := by
  induction h with
  | err hn =>
    obtain ⟨_, nf, _, hx⟩ := hn
    exact (next_fails data nf _).1 _ hx hc
  | ev hn _ _ ih =>
    obtain ⟨nf, _, hx⟩ := hn
    exact (next_fails data nf _).2 _ _ hx _ (ih hc)

/-- **C17, input ends early at a token boundary (ordinary mode)**: the input is the text of a token list accepted from
the initial state, and behind it an object, an array, a key, a member value or an array item is still open (`eofErrK`):
the scanner reports "unexpected end of file" (303) at the last byte. -/
theorem scanAll_eof_tokens (toks : List Tok) (hw : ∀ t ∈ toks, t.WF) (c' : TC) (evs : List Ev)
    (h : trun TC.init toks = some (c', evs)) (hopen : eofErrK c'.K = true)
    (bs : List UInt8) (hbs : bs.map classify = renderToks toks) :
    scanAll bs = .error (.unexpectedEOF (bs.length - 1)) := by
  have hat : At (bs.map classify).toArray 0 (renderToks toks) := At_toArray _ [] _ (by rw [hbs]; simp)
  have hsize : (bs.map classify).toArray.size = (renderToks toks).length := by rw [hbs]; simp
  have hsz2 : (bs.map classify).toArray.size = bs.length := by simp
  have P := sim_run (lc := false) toks TC.init c' evs h hw hat
  rw [TC.init_sc] at P
  have hi := trun_index toks TC.init c' evs h
  have hi' : c'.i = (renderToks toks).length := by rw [hi]; simp [TC.init]
  obtain ⟨hnt, hlen⟩ := trun_evs toks TC.init c' evs h hw
  obtain ⟨k, hk, r⟩ := errRun_eof_tc (data := (bs.map classify).toArray) false c' (by rw [hi', hsize]; exact Nat.le_refl _) hopen
  have R := P.errRun hnt _ k r
  have F := errRun_fails R rfl
  rw [hsz2] at F
  exact fails_scanAll F rfl

/-- **C17, input ends inside a string (ordinary mode)**: an accepted token list that ends where a value may start, then
`"` and string characters (plain bytes and complete escapes) up to the end of input: 303 at the last byte. -/
theorem scanAll_eof_string (toks : List Tok) (hw : ∀ t ∈ toks, t.WF) (c' : TC) (evs : List Ev)
    (h : trun TC.init toks = some (c', evs)) (ctx : VCtx) (hctx : vctxOf c'.st = some ctx) (body : List Cls)
    (hb : StrBody body) (bs : List UInt8) (hbs : bs.map classify = renderToks toks ++ (Cls.quote :: body)) :
    scanAll bs = .error (.unexpectedEOF (bs.length - 1)) := by
  have hat : At (bs.map classify).toArray 0 (renderToks toks ++ (Cls.quote :: body)) := At_toArray _ [] _ (by rw [hbs]; simp)
  have hsize : (bs.map classify).toArray.size = (renderToks toks).length + (body.length + 1) := by rw [hbs]; simp
  have hsz2 : (bs.map classify).toArray.size = bs.length := by simp
  rw [At_append] at hat
  obtain ⟨hat0, hq, hatb⟩ := hat
  simp only [Nat.zero_add] at hq hatb
  have P := sim_run (lc := false) toks TC.init c' evs h hw hat0
  rw [TC.init_sc] at P
  have hi := trun_index toks TC.init c' evs h
  have hi' : c'.i = (renderToks toks).length := by rw [hi]; simp [TC.init]
  obtain ⟨hnt, hlen⟩ := trun_evs toks TC.init c' evs h hw
  obtain ⟨st, g, K, i, CS, cx, al⟩ := c'
  simp only at hi' hctx
  subst hi'
  have hst := vctxOf_st hctx
  subst hst
  have s1 : Path (bs.map classify).toArray (TC.sc false ⟨ctx.st, g, K, (renderToks toks).length, CS, cx, al⟩)
      (ctx.preEvs (renderToks toks).length ++ [⟨.litB, (renderToks toks).length, (renderToks toks).length⟩])
      (cfgL false .inString [] ((.litB, (renderToks toks).length) :: (ctx.pre (renderToks toks).length ++ K)) true
        ((renderToks toks).length + 1) CS (ctx.cx' cx) al) := by
    refine slot_byte ⟨ctx.st, g, K, _, CS, cx, al⟩ .quote (by simp) hq
      (fun f p1 p2 => d_scalar f .quote .inString true rfl ctx _ K _ CS cx al p1 p2) rfl ?_
    cases ctx <;> rfl
  have s2 := Len.tok_run (lc := false) body _ _ _ _ _ _ (strBody_open body hb)
    ((.litB, (renderToks toks).length) :: (ctx.pre (renderToks toks).length ++ K)) ((renderToks toks).length + 1) CS
    (ctx.cx' cx) al hatb
  have P2 := Path.trans P (Path.trans s1 s2)
  have hpre := preEvs_facts ctx (renderToks toks).length
  have hnt2 : noTop (evs ++ ((ctx.preEvs (renderToks toks).length ++
      [⟨.litB, (renderToks toks).length, (renderToks toks).length⟩]) ++ [])) = true := by
    rw [noTop_append, hnt, noTop_append, noTop_append, hpre.1]; rfl
  have r := ErrRun.err (nextErr_eof_unf (data := (bs.map classify).toArray)
    (cfgL false .inString [] ((.litB, (renderToks toks).length) :: (ctx.pre (renderToks toks).length ++ K)) true
      ((renderToks toks).length + 1 + body.length) CS (ctx.cx' cx) al) rfl (by simp only [cfgL]; omega) _ _ rfl rfl)
  have R := P2.errRun hnt2 _ 1 r
  have F := errRun_fails R rfl
  rw [hsz2] at F
  exact fails_scanAll F rfl

end SchemaScan
