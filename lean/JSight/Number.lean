/-
C10 prototype: internal/json number scanner + normal form + Cmp, against an integer-scaled spec.
Digits are `Nat` (0..9); characters are abstracted to a small alphabet.
-/
namespace Num

/-- characters that matter to `internal/json/scanner.go` -/
inductive Ch
  | minus | plus | dot | e    -- `e` stands for both 'e' and 'E'
  | d (n : Nat)               -- digit 0..9
  | other
  deriving DecidableEq, Repr

/-! ### the model (mirrors `scanner.Scan`, fixed by F-3: zero has no sign) -/

inductive St | start | minusFound | firstZero | intFound | pointFound | fracFound | expFound | expSign | expNum
  deriving DecidableEq, Repr

structure Sc where
  st : St := .start
  intLen : Int := 0
  fraLen : Int := 0
  neg : Bool := false
  expNeg : Bool := false
  expDigits : List Nat := []     -- exponent digits, most significant first
  digits : List Nat := []        -- mantissa digits in order (what appendDigits collects)
  finished : Bool := true
  deriving Repr

/-- one character; `none` = "Incorrect number value" -/
def Sc.step (s0 : Sc) (c : Ch) : Option Sc :=
  let s := { s0 with finished := true }
  match s0.st, c with
  | .start, .minus => some { s with neg := true, finished := false, st := .minusFound }
  | .start, .d n => some { s with intLen := s.intLen + 1, digits := s.digits ++ [n], st := if n = 0 then .firstZero else .intFound }
  | .minusFound, .d n => some { s with intLen := s.intLen + 1, digits := s.digits ++ [n], st := if n = 0 then .firstZero else .intFound }
  | .firstZero, .dot => some { s with st := .pointFound }
  | .intFound, .d n => some { s with intLen := s.intLen + 1, digits := s.digits ++ [n] }
  | .intFound, .dot => some { s with st := .pointFound }
  | .intFound, .e => some { s with st := .expFound }
  | .pointFound, .d n => some { s with fraLen := s.fraLen + 1, digits := s.digits ++ [n], st := .fracFound }
  | .fracFound, .d n => some { s with fraLen := s.fraLen + 1, digits := s.digits ++ [n] }
  | .fracFound, .e => some { s with st := .expFound }
  | .expFound, .plus => some { s with st := .expSign }
  | .expFound, .minus => some { s with expNeg := true, st := .expSign }
  | .expFound, .d n => some { s with expDigits := s.expDigits ++ [n], st := .expNum }   -- (Go stays in stateExpFound; a later sign makes ParseInt fail: same verdict)
  | .expSign, .d n => some { s with expDigits := s.expDigits ++ [n], st := .expNum }
  | .expNum, .d n => some { s with expDigits := s.expDigits ++ [n] }
  | _, _ => none

def natVal (ds : List Nat) : Nat := ds.foldl (fun a d => a * 10 + d) 0

/-- normal form: sign, digit string, number of fractional digits -/
structure N where
  neg : Bool
  nat : List Nat
  exp : Nat
  deriving DecidableEq, Repr

def zeros (n : Nat) : List Nat := List.replicate n 0

def trimLeading (nat : List Nat) (intLen : Nat) : List Nat :=
  match intLen, nat with
  | 0, _ => nat
  | _, [] => []
  | n+1, d :: ds => if d == 0 then trimLeading ds n else d :: ds

def trimTrailing (nat : List Nat) (exp : Nat) : List Nat × Nat :=
  match exp with
  | 0 => (nat, 0)
  | n+1 => match nat.getLast? with
    | some 0 => trimTrailing nat.dropLast n
    | _ => (nat, n+1)

def finish (s : Sc) : Option N :=
  if !s.finished then none else
  if s.expNeg && s.expDigits.isEmpty then none else      -- ParseInt("-") fails: "not enough data in ParseUint"
  let e : Int := (if s.expNeg then -1 else 1) * (natVal s.expDigits : Int)
  let intLen := s.intLen + e
  let fraLen := s.fraLen - e
  let (nat, fra) : List Nat × Nat :=
    if intLen < 0 then (zeros intLen.natAbs ++ s.digits, fraLen.toNat)
    else if fraLen < 0 then (s.digits ++ zeros fraLen.natAbs, 0)
    else (s.digits, fraLen.toNat)
  let nat := trimLeading nat (nat.length - fra)
  let (nat, fra) := trimTrailing nat fra
  some { neg := s.neg && !nat.isEmpty, nat := nat, exp := fra }

def scan (cs : List Ch) : Option N :=
  match cs.foldlM Sc.step ({} : Sc) with
  | some s => finish s
  | none => none

/-- `Number.Cmp` -/
def cmpDigits : List Nat → List Nat → Ordering
  | [], [] => .eq
  | [], _ => .eq       -- unreachable for equal lengths
  | _, [] => .eq
  | x :: xs, y :: ys => if x < y then .lt else if x > y then .gt else cmpDigits xs ys

def cmpInt (x y : List Nat) : Ordering :=
  if x.length < y.length then .lt else if x.length > y.length then .gt else cmpDigits x y

def cmpFra : List Nat → List Nat → Ordering
  | [], [] => .eq
  | [], y :: ys => if 0 < y then .lt else cmpFra [] ys
  | x :: xs, [] => if 0 < x then .gt else cmpFra xs []
  | x :: xs, y :: ys => if x < y then .lt else if x > y then .gt else cmpFra xs ys

def N.int (n : N) : List Nat := n.nat.take (n.nat.length - n.exp)
def N.fra (n : N) : List Nat := n.nat.drop (n.nat.length - n.exp)

def cmpAbs (a b : N) : Ordering :=
  match cmpInt a.int b.int with
  | .eq => cmpFra a.fra b.fra
  | o => o

def N.cmp (a b : N) : Ordering :=
  if a.neg == b.neg then (if a.neg then (cmpAbs a b).swap else cmpAbs a b)
  else if a.neg then .lt else .gt

/-- value of a normal form as a pair (signed mantissa, number of fractional digits) -/
def N.mant (n : N) : Int := (if n.neg then -1 else 1) * (natVal n.nat : Int)

/-- spec comparison: cross-scale to a common number of fractional digits -/
def cmpVal (a b : N) : Ordering :=
  compare (a.mant * (10 : Int) ^ b.exp) (b.mant * (10 : Int) ^ a.exp)

end Num
