import JSight.SchemaTokViable
import JSight.SchemaErrExamples
/-! Concrete instances for the token-level viability theorems (non-vacuity). -/
namespace SchemaScan
namespace ErrEx
open Len Len.Ex

/-- behind `[1, {"a":` the closing text is `1}]` -/
theorem ex_closers3 : closerBytes res3.1 = b "1}]" := by decide

/-- `[1, {"a":` is a viable prefix: `[1, {"a":1}]` is accepted -/
theorem ex_viable3 : ∃ evs', scanAll (b "[1, {\"a\":" ++ b "1}]") = .ok evs' := by
  rw [← ex_closers3]
  exact bytes_viable (toks3.map ATok.base)
    (by intro t ht; obtain ⟨x, hx, rfl⟩ := List.mem_map.mp ht; exact toks3_wf x hx) res3.1 res3.2
    (by rw [arun_base]; exact run3) (b "[1, {\"a\":") (by rw [renderAToks_base]; decide)

/-- `[x` : invalid character at offset 1, behind the accepted token `[` -/
theorem ex_brack_x : scanAll [91, 120] = .error (.invalidChar 1 "looking for beginning of value") := by
  apply fails_scanAll _ rfl
  have hd : ([91, 120].map classify).toArray = #[Cls.lbrack, Cls.nameo] := by decide
  rw [hd]
  have h1 : readStep #[Cls.lbrack, Cls.nameo] {} =
      .ok { step := .arrItemOrEmpty, finds := [.arrB], ctxStack := [{ ty := .initial }], ctx := { ty := .array }, index := 1 } := by
    unfold readStep
    simp only [dispatch]
    rfl
  have h2 : shiftFound #[Cls.lbrack, Cls.nameo]
      { step := .arrItemOrEmpty, finds := [.arrB], ctxStack := [{ ty := .initial }], ctx := { ty := .array }, index := 1 } =
      .ok (some ({ step := .arrItemOrEmpty, stack := [(.arrB, 0)], ctxStack := [{ ty := .initial }],
                   ctx := { ty := .array }, index := 1 }, ⟨.arrB, 0, 0⟩)) := rfl
  refine Fails.read rfl (by decide) h1 (Fails.shift h2 ?_)
  refine Fails.readErr rfl (by decide) ?_
  unfold readStep
  simp only [dispatch]
  rfl

end ErrEx
end SchemaScan
