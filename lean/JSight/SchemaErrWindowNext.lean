import JSight.SchemaErrWindow
/-!
The error "after first #" (the only one with look-ahead window 1) is raised only where the byte behind the offending one is
not `#`: `dispatch_w`, `Fails.window_next`, `scanAll_window_next`.
-/
namespace SchemaScan

/-- the window of a helper's error is 0 -/
abbrev W0 (e : Err) : Prop := e.window = 0

theorem w0_errChar (s : Sc) (m : String) (h : (m == "after first #") = false) : W0 (errChar s m) := by
  simp only [W0, errChar, Err.window, h, Bool.false_eq_true, if_false]

theorem isNewLineM_w {s c e} (h : isNewLineM s c = .error e) : W0 e := by
  unfold isNewLineM at h
  repeat' split at h
  all_goals first | (cases h; done) | (cases h; exact w0_errChar _ _ (by decide))

theorem switchToComment_w {s e} (h : switchToComment s = .error e) : W0 e := by
  unfold switchToComment at h
  repeat' split at h
  all_goals first | (cases h; done) | (cases h; exact w0_errChar _ _ (by decide))

theorem switchToAnnotation_w {s e} (h : switchToAnnotation s = .error e) : W0 e := by
  unfold switchToAnnotation at h
  split at h
  · cases h; rfl
  · dsimp only at h
    split at h
    all_goals first | (cases h; done) | (cases h; exact w0_errChar _ _ (by decide))

theorem beginValue_w {s c e} (h : beginValue s c = .error e) : W0 e := by
  unfold beginValue at h
  simp only [bind, Except.bind, pure, Except.pure] at h
  split at h
  · cases h; exact isNewLineM_w ‹_›
  split at h
  · cases h
  split at h
  · cases h
  split at h
  · split at h
    · cases h; exact switchToAnnotation_w ‹_›
    · cases h
  · split at h
    all_goals first | (cases h; done) | (cases h; exact w0_errChar _ _ (by decide))

theorem restoreContext_w {s e} (h : restoreContext s = .error e) : W0 e := by
  unfold restoreContext at h
  split at h <;> cases h
  rfl

theorem popRet_w {s e} (h : popRet s = .error e) : W0 e := by
  unfold popRet at h
  split at h <;> cases h
  rfl

theorem foundObjectEnd_w {s e} (h : foundObjectEnd s = .error e) : W0 e := by
  unfold foundObjectEnd at h
  simp only [bind, Except.bind, pure, Except.pure] at h
  split at h
  · cases h; exact restoreContext_w ‹_›
  · repeat' split at h
    all_goals first | (cases h; done) | (cases h; rfl)

theorem foundArrayEnd_w {s e} (h : foundArrayEnd s = .error e) : W0 e := by
  unfold foundArrayEnd at h
  simp only [bind, Except.bind, pure, Except.pure] at h
  split at h
  · cases h; exact restoreContext_w ‹_›
  · cases h

theorem finishShortcut_w {s e} (h : finishShortcut s = .error e) : W0 e := by
  unfold finishShortcut at h
  simp only [bind, Except.bind, pure, Except.pure] at h
  split at h
  · cases h
  · cases h
  · exact restoreContext_w h
  · cases h; rfl

theorem beginKeyShortcut_w {s e} (h : beginKeyShortcut s = .error e) : W0 e := by
  unfold beginKeyShortcut at h
  split at h
  all_goals first | (cases h; done) | (cases h; exact w0_errChar _ _ (by decide))

theorem beginString_w {s c e} (h : beginString s c = .error e) : W0 e := by
  unfold beginString at h
  split at h
  all_goals first | (cases h; done) | (cases h; exact w0_errChar _ _ (by decide))

theorem beginAnnKeyOrEmpty_w {s c e} (h : beginAnnKeyOrEmpty s c = .error e) : W0 e := by
  unfold beginAnnKeyOrEmpty at h
  simp only [bind, Except.bind, pure, Except.pure] at h
  split at h
  · exact foundObjectEnd_w h
  repeat' split at h
  all_goals first | (cases h; done) | (cases h; rfl)

theorem arrItemFinds_w {r s e} (h : arrItemFinds r s = .error e) : W0 e := by
  unfold arrItemFinds at h
  split at h <;> cases h

theorem hexStep_w {s c nx e} (h : hexStep s c nx = .error e) : W0 e := by
  unfold hexStep at h
  split at h
  all_goals first | (cases h; done) | (cases h; exact w0_errChar _ _ (by decide))

theorem expect_w {s c w nx b m e} (h : expect s c w nx b m = .error e) : e = errChar s m := by
  unfold expect at h
  split at h <;> cases h
  rfl

/-- the goal `e.window = 1 → p ≠ some #` from `W0 e` -/
theorem of_w0 {e : Err} {p : Option Cls} (h : W0 e) : e.window = 1 → p ≠ some Cls.hash := by
  intro hw; rw [h] at hw; cases hw

/-- closes the goal from the window facts of the helper calls found in the context -/
macro "wcc" : tactic => `(tactic| (first
  | exact of_w0 (by assumption)
  | exact of_w0 (isNewLineM_w ‹isNewLineM _ _ = Except.error _›)
  | exact of_w0 (beginValue_w ‹beginValue _ _ = Except.error _›)
  | exact of_w0 (popRet_w ‹popRet _ = Except.error _›)
  | exact of_w0 (beginString_w ‹beginString _ _ = Except.error _›)
  | exact of_w0 (finishShortcut_w ‹finishShortcut _ = Except.error _›)
  | exact of_w0 (w0_errChar _ _ (by decide))
  | exact of_w0 rfl))

macro "leafW" h:ident ihD:ident ihE:ident ihS:ident : tactic => `(tactic| (
  try simp only [bind, Except.bind, pure, Except.pure] at $h:ident
  repeat' split at $h:ident
  all_goals (first
    | (cases $h:ident; done)
    | (exact $ihD _ _ _ $h:ident)
    | (exact $ihE _ _ $h:ident)
    | (exact $ihS _ _ $h:ident)
    | (exact of_w0 (switchToAnnotation_w $h:ident))
    | (exact of_w0 (switchToComment_w $h:ident))
    | (exact of_w0 (foundObjectEnd_w $h:ident))
    | (exact of_w0 (foundArrayEnd_w $h:ident))
    | (exact of_w0 (beginKeyShortcut_w $h:ident))
    | (exact of_w0 (beginAnnKeyOrEmpty_w $h:ident))
    | (exact of_w0 (hexStep_w $h:ident))
    | (exact of_w0 (arrItemFinds_w $h:ident))
    | (exact of_w0 (beginString_w $h:ident))
    | (have hx := expect_w $h:ident; subst hx; exact of_w0 (w0_errChar _ _ (by decide)))
    | (have hx := ‹throw _ = Except.ok _›; cases hx)
    | (cases $h:ident; have hx := ‹throw _ = Except.error _›; cases hx; exact of_w0 (w0_errChar _ _ (by decide)))
    | (cases $h:ident; wcc))))

abbrev WD (c : Cls) (p1 p2 : Option Cls) (f : Nat) : Prop :=
  ∀ (st : St) (s : Sc) (e : Err), dispatch f st s c p1 p2 = .error e → e.window = 1 → p1 ≠ some Cls.hash
abbrev WE (c : Cls) (p1 p2 : Option Cls) (f : Nat) : Prop :=
  ∀ (s : Sc) (e : Err), endValue f s c p1 p2 = .error e → e.window = 1 → p1 ≠ some Cls.hash
abbrev WS (c : Cls) (p1 p2 : Option Cls) (f : Nat) : Prop :=
  ∀ (s : Sc) (e : Err), state0 f s c p1 p2 = .error e → e.window = 1 → p1 ≠ some Cls.hash

theorem wE_of {c p1 p2 f} (ihD : WD c p1 p2 f) : WE c p1 p2 f := by
  intro s e h
  unfold endValue dispatch' at h
  leafW h ihD ihD ihD

theorem wS_of {c p1 p2 f} (ihD : WD c p1 p2 f) (ihE : WE c p1 p2 f) : WS c p1 p2 f := by
  intro s e h
  unfold state0 at h
  leafW h ihD ihE ihE

theorem w_foundRoot {c p1 p2 f} (ihD : WD c p1 p2 f) (ihE : WE c p1 p2 f) (ihS : WS c p1 p2 f) {s : Sc} {e : Err}
    (h : dispatch (f + 1) .foundRoot s c p1 p2 = .error e) : e.window = 1 → p1 ≠ some Cls.hash := by
  unfold dispatch at h; dsimp only at h
  leafW h ihD ihE ihS

theorem w_objKeyOrEmpty {c p1 p2 f} (ihD : WD c p1 p2 f) (ihE : WE c p1 p2 f) (ihS : WS c p1 p2 f) {s : Sc} {e : Err}
    (h : dispatch (f + 1) .objKeyOrEmpty s c p1 p2 = .error e) : e.window = 1 → p1 ≠ some Cls.hash := by
  unfold dispatch at h; dsimp only at h
  leafW h ihD ihE ihS

theorem w_objKey {c p1 p2 f} (ihD : WD c p1 p2 f) (ihE : WE c p1 p2 f) (ihS : WS c p1 p2 f) {s : Sc} {e : Err}
    (h : dispatch (f + 1) .objKey s c p1 p2 = .error e) : e.window = 1 → p1 ≠ some Cls.hash := by
  unfold dispatch at h; dsimp only at h
  leafW h ihD ihE ihS

theorem w_objKeyAfterNL {c p1 p2 f} (ihD : WD c p1 p2 f) (ihE : WE c p1 p2 f) (ihS : WS c p1 p2 f) {s : Sc} {e : Err}
    (h : dispatch (f + 1) .objKeyAfterNL s c p1 p2 = .error e) : e.window = 1 → p1 ≠ some Cls.hash := by
  unfold dispatch at h; dsimp only at h
  leafW h ihD ihE ihS

theorem w_objValue {c p1 p2 f} (ihD : WD c p1 p2 f) (ihE : WE c p1 p2 f) (ihS : WS c p1 p2 f) {s : Sc} {e : Err}
    (h : dispatch (f + 1) .objValue s c p1 p2 = .error e) : e.window = 1 → p1 ≠ some Cls.hash := by
  unfold dispatch at h; dsimp only at h
  leafW h ihD ihE ihS

theorem w_arrItemOrEmpty {c p1 p2 f} (ihD : WD c p1 p2 f) (ihE : WE c p1 p2 f) (ihS : WS c p1 p2 f) {s : Sc} {e : Err}
    (h : dispatch (f + 1) .arrItemOrEmpty s c p1 p2 = .error e) : e.window = 1 → p1 ≠ some Cls.hash := by
  unfold dispatch at h; dsimp only at h
  leafW h ihD ihE ihS

theorem w_arrItem {c p1 p2 f} (ihD : WD c p1 p2 f) (ihE : WE c p1 p2 f) (ihS : WS c p1 p2 f) {s : Sc} {e : Err}
    (h : dispatch (f + 1) .arrItem s c p1 p2 = .error e) : e.window = 1 → p1 ≠ some Cls.hash := by
  unfold dispatch at h; dsimp only at h
  leafW h ihD ihE ihS

theorem w_keyShortcut {c p1 p2 f} (ihD : WD c p1 p2 f) (ihE : WE c p1 p2 f) (ihS : WS c p1 p2 f) {s : Sc} {e : Err}
    (h : dispatch (f + 1) .keyShortcut s c p1 p2 = .error e) : e.window = 1 → p1 ≠ some Cls.hash := by
  unfold dispatch at h; dsimp only at h
  leafW h ihD ihE ihS

theorem w_endValue {c p1 p2 f} (ihD : WD c p1 p2 f) (ihE : WE c p1 p2 f) (ihS : WS c p1 p2 f) {s : Sc} {e : Err}
    (h : dispatch (f + 1) .endValue s c p1 p2 = .error e) : e.window = 1 → p1 ≠ some Cls.hash := by
  unfold dispatch at h; dsimp only at h
  leafW h ihD ihE ihS

theorem w_afterKey {c p1 p2 f} (ihD : WD c p1 p2 f) (ihE : WE c p1 p2 f) (ihS : WS c p1 p2 f) {s : Sc} {e : Err}
    (h : dispatch (f + 1) .afterKey s c p1 p2 = .error e) : e.window = 1 → p1 ≠ some Cls.hash := by
  unfold dispatch at h; dsimp only at h
  leafW h ihD ihE ihS

theorem w_afterValue {c p1 p2 f} (ihD : WD c p1 p2 f) (ihE : WE c p1 p2 f) (ihS : WS c p1 p2 f) {s : Sc} {e : Err}
    (h : dispatch (f + 1) .afterValue s c p1 p2 = .error e) : e.window = 1 → p1 ≠ some Cls.hash := by
  unfold dispatch at h; dsimp only at h
  leafW h ihD ihE ihS

theorem w_afterItem {c p1 p2 f} (ihD : WD c p1 p2 f) (ihE : WE c p1 p2 f) (ihS : WS c p1 p2 f) {s : Sc} {e : Err}
    (h : dispatch (f + 1) .afterItem s c p1 p2 = .error e) : e.window = 1 → p1 ≠ some Cls.hash := by
  unfold dispatch at h; dsimp only at h
  leafW h ihD ihE ihS

theorem w_endTop {c p1 p2 f} (ihD : WD c p1 p2 f) (ihE : WE c p1 p2 f) (ihS : WS c p1 p2 f) {s : Sc} {e : Err}
    (h : dispatch (f + 1) .endTop s c p1 p2 = .error e) : e.window = 1 → p1 ≠ some Cls.hash := by
  unfold dispatch at h; dsimp only at h
  leafW h ihD ihE ihS

theorem w_inString {c p1 p2 f} (ihD : WD c p1 p2 f) (ihE : WE c p1 p2 f) (ihS : WS c p1 p2 f) {s : Sc} {e : Err}
    (h : dispatch (f + 1) .inString s c p1 p2 = .error e) : e.window = 1 → p1 ≠ some Cls.hash := by
  unfold dispatch at h; dsimp only at h
  leafW h ihD ihE ihS

theorem w_esc {c p1 p2 f} (ihD : WD c p1 p2 f) (ihE : WE c p1 p2 f) (ihS : WS c p1 p2 f) {s : Sc} {e : Err}
    (h : dispatch (f + 1) .esc s c p1 p2 = .error e) : e.window = 1 → p1 ≠ some Cls.hash := by
  unfold dispatch at h; dsimp only at h
  leafW h ihD ihE ihS

theorem w_u0 {c p1 p2 f} (ihD : WD c p1 p2 f) (ihE : WE c p1 p2 f) (ihS : WS c p1 p2 f) {s : Sc} {e : Err}
    (h : dispatch (f + 1) .u0 s c p1 p2 = .error e) : e.window = 1 → p1 ≠ some Cls.hash := by
  unfold dispatch at h; dsimp only at h
  leafW h ihD ihE ihS

theorem w_u1 {c p1 p2 f} (ihD : WD c p1 p2 f) (ihE : WE c p1 p2 f) (ihS : WS c p1 p2 f) {s : Sc} {e : Err}
    (h : dispatch (f + 1) .u1 s c p1 p2 = .error e) : e.window = 1 → p1 ≠ some Cls.hash := by
  unfold dispatch at h; dsimp only at h
  leafW h ihD ihE ihS

theorem w_u2 {c p1 p2 f} (ihD : WD c p1 p2 f) (ihE : WE c p1 p2 f) (ihS : WS c p1 p2 f) {s : Sc} {e : Err}
    (h : dispatch (f + 1) .u2 s c p1 p2 = .error e) : e.window = 1 → p1 ≠ some Cls.hash := by
  unfold dispatch at h; dsimp only at h
  leafW h ihD ihE ihS

theorem w_u3 {c p1 p2 f} (ihD : WD c p1 p2 f) (ihE : WE c p1 p2 f) (ihS : WS c p1 p2 f) {s : Sc} {e : Err}
    (h : dispatch (f + 1) .u3 s c p1 p2 = .error e) : e.window = 1 → p1 ≠ some Cls.hash := by
  unfold dispatch at h; dsimp only at h
  leafW h ihD ihE ihS

theorem w_neg {c p1 p2 f} (ihD : WD c p1 p2 f) (ihE : WE c p1 p2 f) (ihS : WS c p1 p2 f) {s : Sc} {e : Err}
    (h : dispatch (f + 1) .neg s c p1 p2 = .error e) : e.window = 1 → p1 ≠ some Cls.hash := by
  unfold dispatch at h; dsimp only at h
  leafW h ihD ihE ihS

theorem w_d1 {c p1 p2 f} (ihD : WD c p1 p2 f) (ihE : WE c p1 p2 f) (ihS : WS c p1 p2 f) {s : Sc} {e : Err}
    (h : dispatch (f + 1) .d1 s c p1 p2 = .error e) : e.window = 1 → p1 ≠ some Cls.hash := by
  unfold dispatch at h; dsimp only at h
  leafW h ihD ihE ihS

theorem w_d0 {c p1 p2 f} (ihD : WD c p1 p2 f) (ihE : WE c p1 p2 f) (ihS : WS c p1 p2 f) {s : Sc} {e : Err}
    (h : dispatch (f + 1) .d0 s c p1 p2 = .error e) : e.window = 1 → p1 ≠ some Cls.hash := by
  unfold dispatch at h; dsimp only at h
  leafW h ihD ihE ihS

theorem w_dot {c p1 p2 f} (ihD : WD c p1 p2 f) (ihE : WE c p1 p2 f) (ihS : WS c p1 p2 f) {s : Sc} {e : Err}
    (h : dispatch (f + 1) .dot s c p1 p2 = .error e) : e.window = 1 → p1 ≠ some Cls.hash := by
  unfold dispatch at h; dsimp only at h
  leafW h ihD ihE ihS

theorem w_dot0 {c p1 p2 f} (ihD : WD c p1 p2 f) (ihE : WE c p1 p2 f) (ihS : WS c p1 p2 f) {s : Sc} {e : Err}
    (h : dispatch (f + 1) .dot0 s c p1 p2 = .error e) : e.window = 1 → p1 ≠ some Cls.hash := by
  unfold dispatch at h; dsimp only at h
  leafW h ihD ihE ihS

theorem w_t {c p1 p2 f} (ihD : WD c p1 p2 f) (ihE : WE c p1 p2 f) (ihS : WS c p1 p2 f) {s : Sc} {e : Err}
    (h : dispatch (f + 1) .t s c p1 p2 = .error e) : e.window = 1 → p1 ≠ some Cls.hash := by
  unfold dispatch at h; dsimp only at h
  leafW h ihD ihE ihS

theorem w_tr {c p1 p2 f} (ihD : WD c p1 p2 f) (ihE : WE c p1 p2 f) (ihS : WS c p1 p2 f) {s : Sc} {e : Err}
    (h : dispatch (f + 1) .tr s c p1 p2 = .error e) : e.window = 1 → p1 ≠ some Cls.hash := by
  unfold dispatch at h; dsimp only at h
  leafW h ihD ihE ihS

theorem w_tru {c p1 p2 f} (ihD : WD c p1 p2 f) (ihE : WE c p1 p2 f) (ihS : WS c p1 p2 f) {s : Sc} {e : Err}
    (h : dispatch (f + 1) .tru s c p1 p2 = .error e) : e.window = 1 → p1 ≠ some Cls.hash := by
  unfold dispatch at h; dsimp only at h
  leafW h ihD ihE ihS

theorem w_f {c p1 p2 f} (ihD : WD c p1 p2 f) (ihE : WE c p1 p2 f) (ihS : WS c p1 p2 f) {s : Sc} {e : Err}
    (h : dispatch (f + 1) .f s c p1 p2 = .error e) : e.window = 1 → p1 ≠ some Cls.hash := by
  unfold dispatch at h; dsimp only at h
  leafW h ihD ihE ihS

theorem w_fa {c p1 p2 f} (ihD : WD c p1 p2 f) (ihE : WE c p1 p2 f) (ihS : WS c p1 p2 f) {s : Sc} {e : Err}
    (h : dispatch (f + 1) .fa s c p1 p2 = .error e) : e.window = 1 → p1 ≠ some Cls.hash := by
  unfold dispatch at h; dsimp only at h
  leafW h ihD ihE ihS

theorem w_fal {c p1 p2 f} (ihD : WD c p1 p2 f) (ihE : WE c p1 p2 f) (ihS : WS c p1 p2 f) {s : Sc} {e : Err}
    (h : dispatch (f + 1) .fal s c p1 p2 = .error e) : e.window = 1 → p1 ≠ some Cls.hash := by
  unfold dispatch at h; dsimp only at h
  leafW h ihD ihE ihS

theorem w_fals {c p1 p2 f} (ihD : WD c p1 p2 f) (ihE : WE c p1 p2 f) (ihS : WS c p1 p2 f) {s : Sc} {e : Err}
    (h : dispatch (f + 1) .fals s c p1 p2 = .error e) : e.window = 1 → p1 ≠ some Cls.hash := by
  unfold dispatch at h; dsimp only at h
  leafW h ihD ihE ihS

theorem w_n {c p1 p2 f} (ihD : WD c p1 p2 f) (ihE : WE c p1 p2 f) (ihS : WS c p1 p2 f) {s : Sc} {e : Err}
    (h : dispatch (f + 1) .n s c p1 p2 = .error e) : e.window = 1 → p1 ≠ some Cls.hash := by
  unfold dispatch at h; dsimp only at h
  leafW h ihD ihE ihS

theorem w_nu {c p1 p2 f} (ihD : WD c p1 p2 f) (ihE : WE c p1 p2 f) (ihS : WS c p1 p2 f) {s : Sc} {e : Err}
    (h : dispatch (f + 1) .nu s c p1 p2 = .error e) : e.window = 1 → p1 ≠ some Cls.hash := by
  unfold dispatch at h; dsimp only at h
  leafW h ihD ihE ihS

theorem w_nul {c p1 p2 f} (ihD : WD c p1 p2 f) (ihE : WE c p1 p2 f) (ihS : WS c p1 p2 f) {s : Sc} {e : Err}
    (h : dispatch (f + 1) .nul s c p1 p2 = .error e) : e.window = 1 → p1 ≠ some Cls.hash := by
  unfold dispatch at h; dsimp only at h
  leafW h ihD ihE ihS

theorem w_tsBeginName {c p1 p2 f} (ihD : WD c p1 p2 f) (ihE : WE c p1 p2 f) (ihS : WS c p1 p2 f) {s : Sc} {e : Err}
    (h : dispatch (f + 1) .tsBeginName s c p1 p2 = .error e) : e.window = 1 → p1 ≠ some Cls.hash := by
  unfold dispatch at h; dsimp only at h
  leafW h ihD ihE ihS

theorem w_tsName {c p1 p2 f} (ihD : WD c p1 p2 f) (ihE : WE c p1 p2 f) (ihS : WS c p1 p2 f) {s : Sc} {e : Err}
    (h : dispatch (f + 1) .tsName s c p1 p2 = .error e) : e.window = 1 → p1 ≠ some Cls.hash := by
  unfold dispatch at h; dsimp only at h
  leafW h ihD ihE ihS

theorem w_tsBeforePipe {c p1 p2 f} (ihD : WD c p1 p2 f) (ihE : WE c p1 p2 f) (ihS : WS c p1 p2 f) {s : Sc} {e : Err}
    (h : dispatch (f + 1) .tsBeforePipe s c p1 p2 = .error e) : e.window = 1 → p1 ≠ some Cls.hash := by
  unfold dispatch at h; dsimp only at h
  leafW h ihD ihE ihS

theorem w_tsAfterPipe {c p1 p2 f} (ihD : WD c p1 p2 f) (ihE : WE c p1 p2 f) (ihS : WS c p1 p2 f) {s : Sc} {e : Err}
    (h : dispatch (f + 1) .tsAfterPipe s c p1 p2 = .error e) : e.window = 1 → p1 ≠ some Cls.hash := by
  unfold dispatch at h; dsimp only at h
  leafW h ihD ihE ihS

theorem w_inlineComment {c p1 p2 f} (ihD : WD c p1 p2 f) (ihE : WE c p1 p2 f) (ihS : WS c p1 p2 f) {s : Sc} {e : Err}
    (h : dispatch (f + 1) .inlineComment s c p1 p2 = .error e) : e.window = 1 → p1 ≠ some Cls.hash := by
  unfold dispatch at h; dsimp only at h
  leafW h ihD ihE ihS

theorem w_multiLineComment {c p1 p2 f} (ihD : WD c p1 p2 f) (ihE : WE c p1 p2 f) (ihS : WS c p1 p2 f) {s : Sc} {e : Err}
    (h : dispatch (f + 1) .multiLineComment s c p1 p2 = .error e) : e.window = 1 → p1 ≠ some Cls.hash := by
  unfold dispatch at h; dsimp only at h
  leafW h ihD ihE ihS

theorem w_anyAnnStart {c p1 p2 f} (ihD : WD c p1 p2 f) (ihE : WE c p1 p2 f) (ihS : WS c p1 p2 f) {s : Sc} {e : Err}
    (h : dispatch (f + 1) .anyAnnStart s c p1 p2 = .error e) : e.window = 1 → p1 ≠ some Cls.hash := by
  unfold dispatch at h; dsimp only at h
  leafW h ihD ihE ihS

theorem w_inlAnnStart {c p1 p2 f} (ihD : WD c p1 p2 f) (ihE : WE c p1 p2 f) (ihS : WS c p1 p2 f) {s : Sc} {e : Err}
    (h : dispatch (f + 1) .inlAnnStart s c p1 p2 = .error e) : e.window = 1 → p1 ≠ some Cls.hash := by
  unfold dispatch at h; dsimp only at h
  leafW h ihD ihE ihS

theorem w_inlAnn {c p1 p2 f} (ihD : WD c p1 p2 f) (ihE : WE c p1 p2 f) (ihS : WS c p1 p2 f) {s : Sc} {e : Err}
    (h : dispatch (f + 1) .inlAnn s c p1 p2 = .error e) : e.window = 1 → p1 ≠ some Cls.hash := by
  unfold dispatch at h; dsimp only at h
  leafW h ihD ihE ihS

theorem w_inlTxtPrefix {c p1 p2 f} (ihD : WD c p1 p2 f) (ihE : WE c p1 p2 f) (ihS : WS c p1 p2 f) {s : Sc} {e : Err}
    (h : dispatch (f + 1) .inlTxtPrefix s c p1 p2 = .error e) : e.window = 1 → p1 ≠ some Cls.hash := by
  unfold dispatch at h; dsimp only at h
  leafW h ihD ihE ihS

theorem w_inlTxtPrefix2 {c p1 p2 f} (ihD : WD c p1 p2 f) (ihE : WE c p1 p2 f) (ihS : WS c p1 p2 f) {s : Sc} {e : Err}
    (h : dispatch (f + 1) .inlTxtPrefix2 s c p1 p2 = .error e) : e.window = 1 → p1 ≠ some Cls.hash := by
  unfold dispatch at h; dsimp only at h
  leafW h ihD ihE ihS

theorem w_inlTxt {c p1 p2 f} (ihD : WD c p1 p2 f) (ihE : WE c p1 p2 f) (ihS : WS c p1 p2 f) {s : Sc} {e : Err}
    (h : dispatch (f + 1) .inlTxt s c p1 p2 = .error e) : e.window = 1 → p1 ≠ some Cls.hash := by
  unfold dispatch at h; dsimp only at h
  leafW h ihD ihE ihS

theorem w_inlTxtSkip {c p1 p2 f} (ihD : WD c p1 p2 f) (ihE : WE c p1 p2 f) (ihS : WS c p1 p2 f) {s : Sc} {e : Err}
    (h : dispatch (f + 1) .inlTxtSkip s c p1 p2 = .error e) : e.window = 1 → p1 ≠ some Cls.hash := by
  unfold dispatch at h; dsimp only at h
  leafW h ihD ihE ihS

theorem w_mlAnn {c p1 p2 f} (ihD : WD c p1 p2 f) (ihE : WE c p1 p2 f) (ihS : WS c p1 p2 f) {s : Sc} {e : Err}
    (h : dispatch (f + 1) .mlAnn s c p1 p2 = .error e) : e.window = 1 → p1 ≠ some Cls.hash := by
  unfold dispatch at h; dsimp only at h
  leafW h ihD ihE ihS

theorem w_mlTxtPrefix {c p1 p2 f} (ihD : WD c p1 p2 f) (ihE : WE c p1 p2 f) (ihS : WS c p1 p2 f) {s : Sc} {e : Err}
    (h : dispatch (f + 1) .mlTxtPrefix s c p1 p2 = .error e) : e.window = 1 → p1 ≠ some Cls.hash := by
  unfold dispatch at h; dsimp only at h
  leafW h ihD ihE ihS

theorem w_mlTxtPrefix2 {c p1 p2 f} (ihD : WD c p1 p2 f) (ihE : WE c p1 p2 f) (ihS : WS c p1 p2 f) {s : Sc} {e : Err}
    (h : dispatch (f + 1) .mlTxtPrefix2 s c p1 p2 = .error e) : e.window = 1 → p1 ≠ some Cls.hash := by
  unfold dispatch at h; dsimp only at h
  leafW h ihD ihE ihS

theorem w_mlAnnEnd {c p1 p2 f} (ihD : WD c p1 p2 f) (ihE : WE c p1 p2 f) (ihS : WS c p1 p2 f) {s : Sc} {e : Err}
    (h : dispatch (f + 1) .mlAnnEnd s c p1 p2 = .error e) : e.window = 1 → p1 ≠ some Cls.hash := by
  unfold dispatch at h; dsimp only at h
  leafW h ihD ihE ihS

theorem w_mlTxt {c p1 p2 f} (ihD : WD c p1 p2 f) (ihE : WE c p1 p2 f) (ihS : WS c p1 p2 f) {s : Sc} {e : Err}
    (h : dispatch (f + 1) .mlTxt s c p1 p2 = .error e) : e.window = 1 → p1 ≠ some Cls.hash := by
  unfold dispatch at h; dsimp only at h
  leafW h ihD ihE ihS

theorem w_annKeyFirst {c p1 p2 f} (ihD : WD c p1 p2 f) (ihE : WE c p1 p2 f) (ihS : WS c p1 p2 f) {s : Sc} {e : Err}
    (h : dispatch (f + 1) .annKeyFirst s c p1 p2 = .error e) : e.window = 1 → p1 ≠ some Cls.hash := by
  unfold dispatch at h; dsimp only at h
  leafW h ihD ihE ihS

theorem w_annKey {c p1 p2 f} (ihD : WD c p1 p2 f) (ihE : WE c p1 p2 f) (ihS : WS c p1 p2 f) {s : Sc} {e : Err}
    (h : dispatch (f + 1) .annKey s c p1 p2 = .error e) : e.window = 1 → p1 ≠ some Cls.hash := by
  unfold dispatch at h; dsimp only at h
  leafW h ihD ihE ihS

theorem w_annKeyAfter {c p1 p2 f} (ihD : WD c p1 p2 f) (ihE : WE c p1 p2 f) (ihS : WS c p1 p2 f) {s : Sc} {e : Err}
    (h : dispatch (f + 1) .annKeyAfter s c p1 p2 = .error e) : e.window = 1 → p1 ≠ some Cls.hash := by
  unfold dispatch at h; dsimp only at h
  leafW h ihD ihE ihS

theorem w_anyCommentStart {c p1 p2 f} {s : Sc} {e : Err}
    (h : dispatch (f + 1) .anyCommentStart s c p1 p2 = .error e) : e.window = 1 → p1 ≠ some Cls.hash := by
  unfold dispatch at h; dsimp only at h
  simp only [bind, Except.bind, pure, Except.pure] at h
  repeat' split at h
  all_goals first
    | (cases h; done)
    | (cases h; exact of_w0 (popRet_w ‹popRet _ = Except.error _›))
    | (cases h; intro _; simpa using ‹¬ (p1 == some Cls.hash) = true›)

theorem w_guard {c p1 p2 f} (ihD : WD c p1 p2 f) {x : St} {s : Sc} {e : Err}
    (h : dispatch (f + 1) (.guard x) s c p1 p2 = .error e) : e.window = 1 → p1 ≠ some Cls.hash := by
  unfold dispatch at h; dsimp only at h
  split at h
  · cases h; exact of_w0 (w0_errChar _ _ (by decide))
  · exact ihD _ _ _ h

/-- **the error "after first #" is raised only where the next byte is not `#`** -/
theorem dispatch_w (c : Cls) (p1 p2 : Option Cls) : ∀ (f : Nat), WD c p1 p2 f
  | 0, st, s, e, h => by rw [dispatch_zero] at h; cases h; exact of_w0 rfl
  | f + 1, st, s, e, h => by
    have ihD := dispatch_w c p1 p2 f
    have ihE := wE_of ihD
    have ihS := wS_of ihD ihE
    cases st with
    | foundRoot => exact w_foundRoot ihD ihE ihS h
    | objKeyOrEmpty => exact w_objKeyOrEmpty ihD ihE ihS h
    | objKey => exact w_objKey ihD ihE ihS h
    | objKeyAfterNL => exact w_objKeyAfterNL ihD ihE ihS h
    | objValue => exact w_objValue ihD ihE ihS h
    | arrItemOrEmpty => exact w_arrItemOrEmpty ihD ihE ihS h
    | arrItem => exact w_arrItem ihD ihE ihS h
    | keyShortcut => exact w_keyShortcut ihD ihE ihS h
    | endValue => exact w_endValue ihD ihE ihS h
    | afterKey => exact w_afterKey ihD ihE ihS h
    | afterValue => exact w_afterValue ihD ihE ihS h
    | afterItem => exact w_afterItem ihD ihE ihS h
    | endTop => exact w_endTop ihD ihE ihS h
    | inString => exact w_inString ihD ihE ihS h
    | esc => exact w_esc ihD ihE ihS h
    | u0 => exact w_u0 ihD ihE ihS h
    | u1 => exact w_u1 ihD ihE ihS h
    | u2 => exact w_u2 ihD ihE ihS h
    | u3 => exact w_u3 ihD ihE ihS h
    | neg => exact w_neg ihD ihE ihS h
    | d1 => exact w_d1 ihD ihE ihS h
    | d0 => exact w_d0 ihD ihE ihS h
    | dot => exact w_dot ihD ihE ihS h
    | dot0 => exact w_dot0 ihD ihE ihS h
    | t => exact w_t ihD ihE ihS h
    | tr => exact w_tr ihD ihE ihS h
    | tru => exact w_tru ihD ihE ihS h
    | f => exact w_f ihD ihE ihS h
    | fa => exact w_fa ihD ihE ihS h
    | fal => exact w_fal ihD ihE ihS h
    | fals => exact w_fals ihD ihE ihS h
    | n => exact w_n ihD ihE ihS h
    | nu => exact w_nu ihD ihE ihS h
    | nul => exact w_nul ihD ihE ihS h
    | tsBeginName => exact w_tsBeginName ihD ihE ihS h
    | tsName => exact w_tsName ihD ihE ihS h
    | tsBeforePipe => exact w_tsBeforePipe ihD ihE ihS h
    | tsAfterPipe => exact w_tsAfterPipe ihD ihE ihS h
    | inlineComment => exact w_inlineComment ihD ihE ihS h
    | multiLineComment => exact w_multiLineComment ihD ihE ihS h
    | anyAnnStart => exact w_anyAnnStart ihD ihE ihS h
    | inlAnnStart => exact w_inlAnnStart ihD ihE ihS h
    | inlAnn => exact w_inlAnn ihD ihE ihS h
    | inlTxtPrefix => exact w_inlTxtPrefix ihD ihE ihS h
    | inlTxtPrefix2 => exact w_inlTxtPrefix2 ihD ihE ihS h
    | inlTxt => exact w_inlTxt ihD ihE ihS h
    | inlTxtSkip => exact w_inlTxtSkip ihD ihE ihS h
    | mlAnn => exact w_mlAnn ihD ihE ihS h
    | mlTxtPrefix => exact w_mlTxtPrefix ihD ihE ihS h
    | mlTxtPrefix2 => exact w_mlTxtPrefix2 ihD ihE ihS h
    | mlAnnEnd => exact w_mlAnnEnd ihD ihE ihS h
    | mlTxt => exact w_mlTxt ihD ihE ihS h
    | annKeyFirst => exact w_annKeyFirst ihD ihE ihS h
    | annKey => exact w_annKey ihD ihE ihS h
    | annKeyAfter => exact w_annKeyAfter ihD ihE ihS h
    | anyCommentStart => exact w_anyCommentStart h
    | guard x => exact w_guard ihD h

theorem Fails.window_next {data : Array Cls} {s : Sc} {e : Err} (h : Fails data s e) (hc : e.isCrash = false)
    (hw : e.window = 1) : data[e.idx + 1]? ≠ some Cls.hash := by
  induction h with
  | shiftErr h1 => rw [shiftFound_err h1] at hc; cases hc
  | shift _ _ ih => exact ih hc hw
  | @readErr s e _ _ hr =>
    obtain ⟨hidx, _⟩ := readStep_err hr hc
    rw [hidx]
    unfold readStep at hr
    exact dispatch_w _ _ _ 8 _ _ _ hr hw
  | read _ _ _ _ ih => exact ih hc hw
  | eofErr _ _ h2 =>
    rcases eofStep_err h2 with h | h
    · rw [h] at hw; cases hw
    · rw [h] at hc; cases hc
  | eof _ _ _ _ ih => exact ih hc hw

/-- the error "after first #" stands in front of a byte other than `#` (or of the end of input) -/
theorem scanAll_window_next (bs : List UInt8) (e : Err) (h : scanAll bs = .error e) (hw : e.window = 1) :
    bs[e.idx + 1]? ≠ some 35 := by
  have := (scanAll_fails h).window_next (scanAll_no_crash bs e h) hw
  intro hb
  apply this
  simp only [List.getElem?_toArray, List.getElem?_map, hb, Option.map_some]
  rfl

/-- "nothing behind the EXACT look-ahead window can repair the text" -/
theorem scanAll_error_window_exact (bs : List UInt8) (e : Err) (h : scanAll bs = .error e) (he : e.isEOF = false)
    (hw : e.idx + 1 + e.window ≤ bs.length) (ext : List UInt8) :
    scanAll (bs.take (e.idx + 1 + e.window) ++ ext) = .error e := by
  refine scanAll_error_exact bs e h he _ ?_ ?_
  · intro k hk
    rw [List.getElem?_append_left (by rw [List.length_take]; omega), List.getElem?_take_of_lt (by omega)]
  · intro hw1
    rw [hw1] at hw ⊢
    rw [List.getElem?_append_left (by rw [List.length_take]; omega), List.getElem?_take_of_lt (by omega)]
    exact scanAll_window_next bs e h hw1

/-- a rejected cut of an accepted text is rejected exactly at its last byte -/
theorem scanAll_prefix_of_accepted_exact (t : List UInt8) (evs : List Ev) (ht : scanAll t = .ok evs) (n : Nat) (e : Err)
    (h : scanAll (t.take n) = .error e) : e.idx = (t.take n).length - 1 := by
  by_cases he : e.isEOF = true
  · rw [scanAll_eof_idx _ e h he]; rfl
  · have he' : e.isEOF = false := by simpa using he
    have hlt := (scanAll_error_prefix _ e h he').1
    apply Nat.le_antisymm (by omega)
    apply Nat.le_of_not_lt
    intro hlt2
    have hn : e.idx + 1 < n := by
      have : (t.take n).length ≤ n := List.length_take_le n t
      omega
    have : scanAll t = .error e := by
      refine scanAll_error_exact _ e h he' t ?_ ?_
      · intro k hk
        rw [List.getElem?_take_of_lt (by omega)]
      · intro hw1
        have := scanAll_window_next _ e h hw1
        rw [List.getElem?_take_of_lt hn] at this
        exact this
    rw [ht] at this
    cases this

#print axioms scanAll_error_window_exact
#print axioms scanAll_prefix_of_accepted_exact

end SchemaScan
