import JSight.AstTextThm
import JSight.AnnotQThm
/-!
C16 at text level, QUOTED rule names: `astOfText` on an annotated top-level scalar of the extended grammar `Lay.GObj` whose
values are literals — the rule nodes carry the DECODED names, as `GetAST` shows them.
-/
namespace AstText
open SchemaScan Lay
open Loader (NK Node St slice trimSpaces nameOf keyText)

theorem spans_rulesQ (src : Array UInt8) (a : Ann) : ∀ (rs : List GRule) (r : GRule), (r.Valid a ∧ ∀ x ∈ rs, x.Valid a) →
    ∀ (p : Nat) (rest : List UInt8), AtB src p (renderGRules r rs ++ rest) →
    (spansRulesQ p r.cls (rs.map GRule.cls)).map (nameOf src) = r.name.meaning :: rs.map (·.name.meaning) ∧
    (vspansRules p r.cls.c ((rs.map GRule.cls).map QRule.c)).map (fun q => slice src q.1 q.2)
      = r.val.spell :: rs.map (·.val.spell)
  | [], r, hv, p, rest, hat => by
    simp only [renderGRules] at hat
    rw [AtB_append] at hat
    simp [spansRulesQ, vspansRules, nameOf_ruleQ src r hv.1.2.1 p hat.1, valOf_ruleQ src a r hv.1.2.2.2.1 p hat.1]
  | r' :: rs, r, hv, p, rest, hat => by
    simp only [renderGRules, List.append_assoc, List.cons_append] at hat
    rw [AtB_append] at hat
    obtain ⟨h1, _, h3⟩ := hat
    obtain ⟨ih1, ih2⟩ := spans_rulesQ src a rs r' ⟨hv.2 r' (by simp), fun z hz => hv.2 z (by simp [hz])⟩
      (p + r.render.length + 1) rest h3
    simp only [List.map_cons, spansRulesQ, vspansRules, GRule.cls_render_length] at ih1 ih2 ⊢
    rw [ih1, ih2]
    simp [nameOf_ruleQ src r hv.1.2.1 p h1, valOf_ruleQ src a r hv.1.2.2.2.1 p h1]

theorem spansQ_length : ∀ (rs : List QRule) (r : QRule) (p : Nat),
    (spansRulesQ p r rs).length = (vspansRules p r.c (rs.map QRule.c)).length
  | [], r, p => rfl
  | r' :: rs, r, p => by simp [spansRulesQ, vspansRules, spansQ_length rs r' _]

/-- **annotated scalar with quoted / bare rule names and literal values, no note** -/
theorem ast_gannot (a : Ann) (ha : a.isAnn = true) (tok s1 s2 : List UInt8) (ob : GObj) (s3 tl : List UInt8)
    (hv : GAnnValid a tok s1 s2 ob s3 tl) (hl : ob.literalValues) (he : ∀ p ∈ ob.pairs, p.1 ∉ embNames) :
    astOfText (gannText a tok s1 s2 ob s3 tl) = astOfScalar tok ob.pairs [] := by
  have hvo := GObj.valid_cls a ob hv.ob
  have hle : ob.listsEmb := by
    intro r hr b0 items hval
    obtain ⟨v, hv'⟩ := hl r hr
    rw [hv'] at hval
    cases hval
  have hat : AtB (gannText a tok s1 s2 ob s3 tl).toArray 0 (gannText a tok s1 s2 ob s3 tl) :=
    AtB_toArray _ [] _ rfl
  have htok : AtB (gannText a tok s1 s2 ob s3 tl).toArray 0 tok := by
    simp only [gannText] at hat ⊢
    rw [AtB_append] at hat
    exact hat.1
  have hval : slice (gannText a tok s1 s2 ob s3 tl).toArray 0 ((tok.map classify).length - 1) = tok := by
    have := slice_tok _ tok 0 htok (scalar_ne hv.tok)
    simpa using this
  have hbody : ∀ r rs tc, ob = .rules r rs tc →
      AtB (gannText a tok s1 s2 ob s3 tl).toArray (objOff (tok.map classify) (s1.map classify) (s2.map classify) + 1)
        (renderGRules r rs ++ (renderTcB tc ++ (125 :: (s3 ++ tl)))) := by
    intro r rs tc hob
    subst hob
    have e : gannText a tok s1 s2 (.rules r rs tc) s3 tl
        = (tok ++ (s1 ++ (47 :: markB a :: (s2 ++ [123])))) ++ (renderGRules r rs ++ (renderTcB tc ++ (125 :: (s3 ++ tl)))) := by
      simp [gannText, GObj.body]
    have hat' := hat
    rw [e, AtB_append] at hat'
    have hoff : 0 + (tok ++ (s1 ++ (47 :: markB a :: (s2 ++ [123])))).length
        = objOff (tok.map classify) (s1.map classify) (s2.map classify) + 1 := by
      simp only [objOff, List.length_append, List.length_cons, List.length_nil, List.length_map]; omega
    rw [hoff] at hat'
    rw [← e] at hat'
    exact hat'.2
  have hemb : Loader.embOKObj (gannText a tok s1 s2 ob s3 tl).toArray
      (objOff (tok.map classify) (s1.map classify) (s2.map classify)) ob.cls := by
    cases hob : ob with
    | empty b0 => trivial
    | rules r rs tc =>
      have hb := hbody r rs tc hob
      rw [hob] at hv hle
      exact embOK_rules _ a rs r hv.ob.1
        ⟨hle r (by simp [GObj.allRules]), fun x hx => hle x (by simp [GObj.allRules, hx])⟩ _ _ (hob ▸ hb)
  obtain ⟨st, hfold, hr, hn⟩ := Loader.annot_foldQ (gannText a tok s1 s2 ob s3 tl).toArray a ha (tok.map classify)
    (s1.map classify) (s2.map classify) ob.cls hvo hemb (s3.map classify) (tl.map classify)
  have hload : Loader.loadText (gannText a tok s1 s2 ob s3 tl) = .ok st := by
    unfold Loader.loadText
    simp only [gannText_cls a ha]
    refine Loader.loadLoop_of_emits _ (annot_emitsQ a ha _ hv.tok _ hv.s1 _ hv.s2 _ hvo _ hv.s3 _ hv.tl) _ {} st ?_ hfold
    have := annEvsQ_length a (tok.map classify) (s1.map classify) (s2.map classify) ob.cls hvo (s3.map classify)
      (tl.map classify)
    simp only [List.size_toArray]
    omega
  have hsp : (ob.cls.spans (objOff (tok.map classify) (s1.map classify) (s2.map classify))).map
        (nameOf (gannText a tok s1 s2 ob s3 tl).toArray) = ob.pairs.map (·.1) ∧
      (ob.cls.c.vspans (objOff (tok.map classify) (s1.map classify) (s2.map classify))).map
        (fun q => slice (gannText a tok s1 s2 ob s3 tl).toArray q.1 q.2) = ob.pairs.map (·.2) := by
    cases hob : ob with
    | empty b0 => exact ⟨rfl, rfl⟩
    | rules r rs tc =>
      have hb := hbody r rs tc hob
      rw [hob] at hv
      have := spans_rulesQ _ a rs r hv.ob.1 _ _ (hob ▸ hb)
      simpa [GObj.cls, QObj.spans, QObj.c, CObj.vspans, GObj.pairs, Function.comp_def] using this
  have hlen : (ob.cls.spans (objOff (tok.map classify) (s1.map classify) (s2.map classify))).length
      = (ob.cls.c.vspans (objOff (tok.map classify) (s1.map classify) (s2.map classify))).length := by
    cases ob with
    | empty b0 => rfl
    | rules r rs tc => exact spansQ_length _ _ _
  unfold astOfText
  rw [hload]
  exact astOfTable_single _ _ st 0 _ _ _ none tok ob.pairs [] hr hn hlen hval hsp.1 hsp.2 he rfl

/-- quoting / escaping rule names, the annotation's form and layout do not show in the AST -/
theorem ast_quoting (a a' : Ann) (ha : a.isAnn = true) (ha' : a'.isAnn = true) (tok : List UInt8)
    (s1 s2 : List UInt8) (ob : GObj) (s3 tl : List UInt8) (s1' s2' : List UInt8) (ob' : GObj) (s3' tl' : List UInt8)
    (hv : GAnnValid a tok s1 s2 ob s3 tl) (hv' : GAnnValid a' tok s1' s2' ob' s3' tl')
    (hl : ob.literalValues) (hl' : ob'.literalValues)
    (hsame : ob.pairs = ob'.pairs) (he : ∀ p ∈ ob.pairs, p.1 ∉ embNames) :
    astOfText (gannText a tok s1 s2 ob s3 tl) = astOfText (gannText a' tok s1' s2' ob' s3' tl') := by
  rw [ast_gannot a ha tok s1 s2 ob s3 tl hv hl he, ast_gannot a' ha' tok s1' s2' ob' s3' tl' hv' hl' (hsame ▸ he), hsame]

end AstText
