import JSight.SchemaLen
/-!
C14 (schema scanner): `Len` of a schema whose root is a TYPE SHORTCUT `@name` or `@a | @b | …`.

Single-byte behaviour of the scanner model inside a root shortcut (states `tsBeginName`, `tsName`, `tsBeforePipe`,
`tsAfterPipe` of scanner.go), for an arbitrary `lengthComputing` flag, as `Path`s; the three ways a root shortcut ends
(line break, foreign byte with the deferred `end-top`, end of input); `Len`.
-/
namespace SchemaScan
namespace Len

variable {lc : Bool} {data : Array Cls}

/-! ### the token automaton of a shortcut -/

/-- bytes inside a shortcut queue nothing: `(state, unfinished)` after one byte -/
def tsSilent : St → Bool → Cls → Option (St × Bool)
  | .tsBeginName, _, c => if c.isName then some (.tsName, false) else none
  | .tsName, u, c =>
    if c.isName then some (.tsName, u) else if c.isSpTab then some (.tsBeforePipe, u)
    else if c == .pipe then some (.tsAfterPipe, true) else none
  | .tsBeforePipe, u, c =>
    if c.isSpTab then some (.tsBeforePipe, u) else if c == .pipe then some (.tsAfterPipe, true) else none
  | .tsAfterPipe, u, c =>
    if c.isSpTab then some (.tsAfterPipe, u) else if c == .at then some (.tsBeginName, u) else none
  | _, _, _ => none

theorem ts_dispatch (f : Nat) (st : St) (u : Bool) (c : Cls) (st' : St) (u' : Bool)
    (h : tsSilent st u c = some (st', u'))
    (K : List (LexT × Nat)) (i : Nat) (CS : List Ctx) (cx : Ctx) (al : Bool) (p1 p2 : Option Cls) :
    dispatch (f + 1) st (cfgL lc st [] K u i CS cx al) c p1 p2 = .ok (cfgL lc st' [] K u' i CS cx al) := by
  cases st <;> simp only [tsSilent, reduceCtorEq] at h <;> cases c <;>
    simp [Cls.isName, Cls.isSpTab] at h <;>
    (obtain ⟨rfl, rfl⟩ := h; unfold dispatch; rfl)

def tsRun : St → Bool → List Cls → Option (St × Bool)
  | st, u, [] => some (st, u)
  | st, u, c :: cs => match tsSilent st u c with
    | some (st', u') => tsRun st' u' cs
    | none => none

theorem tsRun_append (st : St) (u : Bool) (xs ys : List Cls) (st' : St) (u' : Bool)
    (h : tsRun st u xs = some (st', u')) : tsRun st u (xs ++ ys) = tsRun st' u' ys := by
  induction xs generalizing st u with
  | nil => simp [tsRun] at h; obtain ⟨rfl, rfl⟩ := h; rfl
  | cons c cs ih =>
    simp only [tsRun, List.cons_append] at h ⊢
    cases hs : tsSilent st u c with
    | none => rw [hs] at h; simp at h
    | some p => obtain ⟨a, b⟩ := p; rw [hs] at h; simp only [] at h ⊢; exact ih a b h

theorem S_ts {st : St} {u : Bool} {c : Cls} {st' : St} {u' : Bool} (h : tsSilent st u c = some (st', u'))
    (K : List (LexT × Nat)) (i : Nat) (CS : List Ctx) (cx : Ctx) (al : Bool) (hc : data[i]? = some c) :
    Path data (cfgL lc st [] K u i CS cx al) [] (cfgL lc st' [] K u' (i + 1) CS cx al) :=
  cfg_byte hc (fun p1 p2 => ts_dispatch 7 st u c st' u' h K (i + 1) CS cx al p1 p2) rfl rfl

theorem ts_run : ∀ (tok : List Cls) (st : St) (u : Bool) (st' : St) (u' : Bool),
    tsRun st u tok = some (st', u') →
    ∀ (K : List (LexT × Nat)) (i : Nat) (CS : List Ctx) (cx : Ctx) (al : Bool), At data i tok →
    Path data (cfgL lc st [] K u i CS cx al) [] (cfgL lc st' [] K u' (i + tok.length) CS cx al)
  | [], st, u, st', u', h, K, i, CS, cx, al, _ => by
    simp only [tsRun, Option.some.injEq, Prod.mk.injEq] at h
    obtain ⟨rfl, rfl⟩ := h
    exact Path.refl _
  | c :: cs, st, u, st', u', h, K, i, CS, cx, al, hat => by
    obtain ⟨hc, hat'⟩ := hat
    simp only [tsRun] at h
    cases hs : tsSilent st u c with
    | none => rw [hs] at h; cases h
    | some p =>
      obtain ⟨s1, u1⟩ := p
      rw [hs] at h
      have h1 := S_ts (lc := lc) hs K i CS cx al hc
      have h2 := ts_run cs s1 u1 st' u' h K (i + 1) CS cx al hat'
      have := Path.trans h1 h2
      simp only [List.length_cons]
      rw [show i + (cs.length + 1) = i + 1 + cs.length by omega]
      exact this

/-! ### the grammar of a type shortcut -/

/-- a user type name behind its `@`: at least one byte, letters / digits / `-` / `_` -/
def IsTypeName (n : List Cls) : Prop := n ≠ [] ∧ ∀ c ∈ n, c.isName = true

def IsSpTabs (w : List Cls) : Prop := ∀ c ∈ w, c.isSpTab = true

/-- `@first` followed by alternatives `spaces | spaces @name` -/
structure Shortcut where
  first : List Cls
  alts : List (List Cls × List Cls × List Cls)

def renderAlts : List (List Cls × List Cls × List Cls) → List Cls
  | [] => []
  | (s1, s2, n) :: r => s1 ++ (Cls.pipe :: (s2 ++ (Cls.at :: (n ++ renderAlts r))))

def Shortcut.render (sc : Shortcut) : List Cls := Cls.at :: (sc.first ++ renderAlts sc.alts)

def ValidAlts : List (List Cls × List Cls × List Cls) → Prop
  | [] => True
  | (s1, s2, n) :: r => IsSpTabs s1 ∧ IsSpTabs s2 ∧ IsTypeName n ∧ ValidAlts r

def Shortcut.Valid (sc : Shortcut) : Prop := IsTypeName sc.first ∧ ValidAlts sc.alts

theorem name_tsRun (n : List Cls) (hn : IsTypeName n) (u : Bool) :
    tsRun .tsBeginName u n = some (.tsName, false) := by
  obtain ⟨hne, hall⟩ := hn
  cases n with
  | nil => exact absurd rfl hne
  | cons c cs =>
    have h0 : tsSilent .tsBeginName u c = some (.tsName, false) := by simp [tsSilent, hall c (by simp)]
    simp only [tsRun, h0]
    have : ∀ (l : List Cls), (∀ x ∈ l, x.isName = true) → tsRun .tsName false l = some (.tsName, false) := by
      intro l hl
      induction l with
      | nil => rfl
      | cons d ds ih =>
        have hd : tsSilent .tsName false d = some (.tsName, false) := by simp [tsSilent, hl d (by simp)]
        simp only [tsRun, hd]
        exact ih (fun x hx => hl x (by simp [hx]))
    exact this cs (fun x hx => hall x (by simp [hx]))

theorem sptab_not_name {c : Cls} (h : c.isSpTab = true) : c.isName = false := by
  cases c <;> simp [Cls.isSpTab] at h <;> rfl

theorem sp_tsRun (st : St) (hst : st = .tsName ∨ st = .tsBeforePipe) (w : List Cls) (hw : IsSpTabs w) (u : Bool) :
    tsRun st u w = some (if w.isEmpty then st else .tsBeforePipe, u) := by
  induction w generalizing st with
  | nil => rfl
  | cons c cs ih =>
    have hc := hw c (by simp)
    have h0 : tsSilent st u c = some (.tsBeforePipe, u) := by
      rcases hst with rfl | rfl <;> simp [tsSilent, hc, sptab_not_name hc]
    simp only [tsRun, h0, List.isEmpty_cons]
    rw [ih .tsBeforePipe (Or.inr rfl) (fun x hx => hw x (by simp [hx]))]
    cases cs <;> rfl

theorem sp_afterPipe_tsRun (w : List Cls) (hw : IsSpTabs w) (u : Bool) :
    tsRun .tsAfterPipe u w = some (.tsAfterPipe, u) := by
  induction w with
  | nil => rfl
  | cons c cs ih =>
    have hc := hw c (by simp)
    have h0 : tsSilent .tsAfterPipe u c = some (.tsAfterPipe, u) := by simp [tsSilent, hc]
    simp only [tsRun, h0]
    exact ih (fun x hx => hw x (by simp [hx]))

theorem alts_tsRun : ∀ (alts : List (List Cls × List Cls × List Cls)), ValidAlts alts →
    tsRun .tsName false (renderAlts alts) = some (.tsName, false)
  | [], _ => rfl
  | (s1, s2, n) :: r, hv => by
    obtain ⟨h1, h2, hn, hr⟩ := hv
    simp only [renderAlts]
    rw [tsRun_append _ _ _ _ _ _ (sp_tsRun .tsName (Or.inl rfl) s1 h1 false)]
    have hp : ∀ st, st = .tsName ∨ st = .tsBeforePipe → tsSilent st false .pipe = some (.tsAfterPipe, true) := by
      intro st h; rcases h with rfl | rfl <;> rfl
    have hst : (if s1.isEmpty then St.tsName else St.tsBeforePipe) = .tsName ∨
        (if s1.isEmpty then St.tsName else St.tsBeforePipe) = .tsBeforePipe := by
      cases s1.isEmpty <;> simp
    simp only [tsRun, hp _ hst]
    rw [tsRun_append _ _ _ _ _ _ (sp_afterPipe_tsRun s2 h2 true)]
    have ha : tsSilent .tsAfterPipe true .at = some (.tsBeginName, true) := rfl
    simp only [tsRun, ha]
    rw [tsRun_append _ _ _ _ _ _ (name_tsRun n hn true)]
    exact alts_tsRun r hr

/-- the bytes behind the leading `@` drive the automaton from `tsBeginName` to `tsName` -/
theorem shortcut_tsRun (sc : Shortcut) (hv : sc.Valid) :
    tsRun .tsBeginName true (sc.first ++ renderAlts sc.alts) = some (.tsName, false) := by
  rw [tsRun_append _ _ _ _ _ _ (name_tsRun sc.first hv.1 true)]
  exact alts_tsRun sc.alts hv.2

theorem exists_snoc : ∀ (l : List Cls), l ≠ [] → ∃ pre d, l = pre ++ [d]
  | [], h => absurd rfl h
  | [c], _ => ⟨[], c, rfl⟩
  | c :: d :: l, _ => by
    obtain ⟨pre, e, he⟩ := exists_snoc (d :: l) (by simp)
    exact ⟨c :: pre, e, by rw [he]; rfl⟩

theorem renderAlts_last : ∀ (alts : List (List Cls × List Cls × List Cls)), ValidAlts alts → alts ≠ [] →
    ∃ pre d, renderAlts alts = pre ++ [d] ∧ d.isName = true
  | [], _, h => absurd rfl h
  | (s1, s2, n) :: r, hv, _ => by
    obtain ⟨_, _, hn, hr⟩ := hv
    cases r with
    | nil =>
      obtain ⟨hne, hall⟩ := hn
      obtain ⟨pre, d, hd⟩ := exists_snoc n hne
      refine ⟨s1 ++ (Cls.pipe :: (s2 ++ (Cls.at :: pre))), d, ?_, hall d (by rw [hd]; simp)⟩
      simp [renderAlts, hd]
    | cons a r' =>
      obtain ⟨pre, d, he, hd⟩ := renderAlts_last (a :: r') hr (by simp)
      refine ⟨s1 ++ (Cls.pipe :: (s2 ++ (Cls.at :: (n ++ pre)))), d, ?_, hd⟩
      simp only [renderAlts] at he ⊢
      rw [he]; simp

/-- the last byte of a shortcut is a name byte -/
theorem Shortcut.render_last (sc : Shortcut) (hv : sc.Valid) :
    ∃ pre d, sc.render = pre ++ [d] ∧ d.isName = true := by
  cases ha : sc.alts with
  | nil =>
    obtain ⟨hne, hall⟩ := hv.1
    obtain ⟨pre, d, hd⟩ := exists_snoc sc.first hne
    refine ⟨Cls.at :: pre, d, ?_, hall d (by rw [hd]; simp)⟩
    simp [Shortcut.render, ha, renderAlts, hd]
  | cons a r =>
    obtain ⟨pre, d, he, hd⟩ := renderAlts_last (a :: r) (ha ▸ hv.2) (by simp)
    refine ⟨Cls.at :: (sc.first ++ pre), d, ?_, hd⟩
    simp [Shortcut.render, ha, he]

/-! ### the start and the three ends of a root shortcut -/

/-- the lexeme stack inside a root shortcut opened at `o` -/
def K2 (o : Nat) : List (LexT × Nat) := [(.tsB, o), (.mixB, o)]
def sctx : Ctx := { ty := .shortcut }

theorem root_at_d (f : Nat) (K : List (LexT × Nat)) (i : Nat) (CS : List Ctx) (cx : Ctx) (al : Bool) (p1 p2 : Option Cls) :
    dispatch (f + 1) .foundRoot (cfgL lc .foundRoot [] K false i CS cx al) .at p1 p2
      = .ok { cfgL lc .tsBeginName [] K true i (cx :: CS) sctx al with finds := [.mixB, .tsB] } := by
  unfold dispatch; rfl

theorem S_root_at (o : Nat) (CS : List Ctx) (cx : Ctx) (al : Bool) (hc : data[o]? = some .at) :
    Path data (cfgL lc .foundRoot [] [] false o CS cx al) [⟨.mixB, o, o⟩, ⟨.tsB, o, o⟩]
      (cfgL lc .tsBeginName [] (K2 o) true (o + 1) (cx :: CS) sctx al) :=
  cfg_byte hc (fun p1 p2 => root_at_d 7 [] (o + 1) CS cx al p1 p2) rfl rfl

/-- the states in which a shortcut may end: behind a name (`nm = true`), or behind spaces that follow a name -/
def tsSt : Bool → St | true => .tsName | false => .tsBeforePipe

def _root_.SchemaScan.Cls.isPipe : Cls → Bool | .pipe => true | _ => false

/-- foreign bytes that end a root shortcut: not layout, not `/`, not `#`, not `|`, and directly behind the name
(`nm = true`) not a name byte -/
def tsForeignOk (nm : Bool) (x : Cls) : Bool := x.isForeign && !x.isPipe && (!nm || !x.isName)

/-- bytes that end a root shortcut: a line break or a foreign byte -/
def tsDelim (nm : Bool) (x : Cls) : Bool := x.isNewLine || tsForeignOk nm x

/-- step 1: directly behind a name, a delimiter is handed to `stateEndValue` -/
theorem tsName_delim (f : Nat) (x : Cls) (h : tsDelim true x = true)
    (K : List (LexT × Nat)) (i : Nat) (CS : List Ctx) (cx : Ctx) (al : Bool) (p1 p2 : Option Cls) :
    dispatch (f + 1) .tsName (cfgL lc .tsName [] K false i CS cx al) x p1 p2
      = endValue f (cfgL lc .tsName [] K false i CS cx al) x p1 p2 := by
  cases x <;> first
    | exact absurd h (by decide)
    | (unfold dispatch; rfl)

/-- step 1: behind spaces that follow a name, a delimiter is handed to `stateEndValue` -/
theorem tsBeforePipe_delim (f : Nat) (x : Cls) (h : tsDelim false x = true)
    (K : List (LexT × Nat)) (i : Nat) (CS : List Ctx) (cx : Ctx) (al : Bool) (p1 p2 : Option Cls) :
    dispatch (f + 2) .tsBeforePipe (cfgL lc .tsBeforePipe [] K false i CS cx al) x p1 p2
      = endValue f (cfgL lc .endValue [] K false i CS cx al) x p1 p2 := by
  cases x <;> first
    | exact absurd h (by decide)
    | (unfold dispatch; unfold dispatch; rfl)

/-- step 2: `stateEndValue` closes the root shortcut and hands the byte to `stateEndTop` -/
theorem ev_ts (g : Nat) (st : St) (o i : Nat) (c0 : Ctx) (al : Bool) (x : Cls) (p1 p2 : Option Cls) :
    endValue g (cfgL lc st [] (K2 o) false i [c0] sctx al) x p1 p2
      = dispatch g .endTop { cfgL lc .endTop [] (K2 o) false i [] c0 al with finds := [.tsE, .mixE] } x p1 p2 := by
  unfold endValue dispatch'; rfl

theorem ts_end_nl_d (f : Nat) (nm : Bool) (o i : Nat) (c0 : Ctx) (al : Bool) (p1 p2 : Option Cls) :
    dispatch (f + 4) (tsSt nm) (cfgL lc (tsSt nm) [] (K2 o) false i [c0] sctx al) .nl p1 p2
      = .ok { cfgL lc .endTop [] (K2 o) false i [] c0 al with finds := [.tsE, .mixE, .newLine] } := by
  cases nm
  · exact (tsBeforePipe_delim (f + 2) .nl rfl _ i _ _ al p1 p2).trans
      ((ev_ts (f + 2) .endValue o i c0 al .nl p1 p2).trans (loop_nl (f + 1) .endTop rfl _ i [] c0 al _ p1 p2))
  · exact (tsName_delim (f + 3) .nl rfl _ i _ _ al p1 p2).trans
      ((ev_ts (f + 3) .tsName o i c0 al .nl p1 p2).trans (loop_nl (f + 2) .endTop rfl _ i [] c0 al _ p1 p2))

theorem foreign_of_ts {nm : Bool} {x : Cls} (h : tsForeignOk nm x = true) : x.isForeign = true := by
  unfold tsForeignOk at h
  simp only [Bool.and_eq_true] at h
  exact h.1.1

theorem ts_end_foreign_d (f : Nat) (nm : Bool) (x : Cls) (h : tsForeignOk nm x = true) (o i : Nat) (c0 : Ctx) (al : Bool)
    (p1 p2 : Option Cls) :
    dispatch (f + 4) (tsSt nm) (cfgL true (tsSt nm) [] (K2 o) false i [c0] sctx al) x p1 p2
      = .ok { cfgL true .endTop [] (K2 o) false i [] c0 al with finds := [.tsE, .mixE], hasTrailing := true } := by
  have hd : tsDelim nm x = true := by unfold tsDelim; rw [h]; simp
  have hx := foreign_of_ts h
  cases nm
  · exact (tsBeforePipe_delim (f + 2) x hd _ i _ _ al p1 p2).trans
      ((ev_ts (f + 2) .endValue o i c0 al x p1 p2).trans
        (endTop_foreign_open (f + 1) x hx (.tsB, o) [(.mixB, o)] i [] c0 al _ p1 p2))
  · exact (tsName_delim (f + 3) x hd _ i _ _ al p1 p2).trans
      ((ev_ts (f + 3) .tsName o i c0 al x p1 p2).trans
        (endTop_foreign_open (f + 2) x hx (.tsB, o) [(.mixB, o)] i [] c0 al _ p1 p2))

/-- the end of the `mixed-value-end` event delivered at index `P` (one space before it is not counted) -/
def mixEnd (data : Array Cls) (P : Nat) : Nat := (if data[P - 1]? == some Cls.sp then P - 1 else P) - 1

theorem mixEnd_le (P : Nat) : mixEnd data P ≤ P - 1 := by
  unfold mixEnd; split <;> omega

theorem mixEnd_ge (P : Nat) : P - 2 ≤ mixEnd data P := by
  unfold mixEnd; split <;> omega

theorem mixEnd_eq (P : Nat) (h : data[P - 1]? ≠ some Cls.sp) : mixEnd data P = P - 1 := by
  unfold mixEnd
  have : (data[P - 1]? == some Cls.sp) = false := by simpa using h
  simp [this]

/-- a line break ends the shortcut -/
theorem S_ts_nl (nm : Bool) (o i : Nat) (c0 : Ctx) (al : Bool) (hc : data[i]? = some .nl) :
    Path data (cfgL lc (tsSt nm) [] (K2 o) false i [c0] sctx al)
      [⟨.tsE, o, i - 1⟩, ⟨.mixE, o, mixEnd data i⟩, ⟨.newLine, i, i⟩]
      (cfgL lc .endTop [] [] false (i + 1) [] c0 al) :=
  cfg_byte hc (fun p1 p2 => ts_end_nl_d 4 nm o (i + 1) c0 al p1 p2) rfl rfl

theorem upd_lt (t : LexT) (b e : Nat) (h : e < data.size) : upd data ⟨t, b, e⟩ = e + 1 := by
  unfold upd
  have : (e == data.size) = false := by simp; omega
  simp [this]

/-- a foreign byte ends the shortcut: both closing lexemes are delivered, `end-top` is deferred to the next byte (or
the end of input) -/
theorem foreign_after_ts {nm : Bool} {x : Cls} (h : tsForeignOk nm x = true) (o i : Nat) (c0 : Ctx) (al : Bool)
    (len : Nat) (hi : 1 ≤ i) (hc : data[i]? = some x) :
    ∃ L k, k ≤ 3 ∧ LenRun data (cfgL true (tsSt nm) [] (K2 o) false i [c0] sctx al) len L k ∧ i - 1 ≤ L ∧ L ≤ i ∧
      (data[i - 1]? ≠ some Cls.sp → L = i) := by
  have hlt : i < data.size := (Array.getElem?_eq_some_iff.mp hc).1
  have lift := nextOk_read (s := cfgL true (tsSt nm) [] (K2 o) false i [c0] sctx al) rfl hc
    (ts_end_foreign_d 4 nm x h o (i + 1) c0 al _ _) rfl
  have hn1 : NextOk data
      { cfgL true .endTop [] (K2 o) false (i + 1) [] c0 al with finds := [.tsE, .mixE], hasTrailing := true }
      (some ({ cfgL true .endTop [] [(.mixB, o)] false (i + 1) [] c0 al with finds := [.mixE], hasTrailing := true },
        ⟨.tsE, o, i - 1⟩)) := nextOk_shift rfl rfl
  have hn2 : NextOk data
      { cfgL true .endTop [] [(.mixB, o)] false (i + 1) [] c0 al with finds := [.mixE], hasTrailing := true }
      (some ({ cfgL true .endTop [] [] false (i + 1) [] c0 al with hasTrailing := true }, ⟨.mixE, o, mixEnd data i⟩)) :=
    nextOk_shift rfl rfl
  have hle := mixEnd_le (data := data) i
  have hge := mixEnd_ge (data := data) i
  by_cases h2 : i + 1 < data.size
  · obtain ⟨c2, hc2⟩ : ∃ c2, data[i + 1]? = some c2 := ⟨data[i + 1], by simp [h2]⟩
    have lift2 := nextOk_read (s := { cfgL true .endTop [] [] false (i + 1) [] c0 al with hasTrailing := true }) rfl hc2
      (endTop_trailing 7 c2 (i + 1 + 1) [] c0 al _ _) rfl
    have hn3 : NextOk data
        { cfgL true .endTop [] [] false (i + 1 + 1) [] c0 al with hasTrailing := true, finds := [.endTop] }
        (some ({ cfgL true .endTop [] [] false (i + 1 + 1) [] c0 al with hasTrailing := true }, ⟨.endTop, i + 1, i + 1⟩)) :=
      nextOk_shift rfl rfl
    have r3 : LenRun data
        { cfgL true .endTop [] [] false (i + 1 + 1) [] c0 al with hasTrailing := true, finds := [.endTop] }
        (upd data ⟨.mixE, o, mixEnd data i⟩) i 1 := LenRun.top hn3 rfl
    refine ⟨i, 1 + 1 + 1, by omega, ?_, by omega, Nat.le_refl _, fun _ => rfl⟩
    exact (LenRun.ev hn1 (by intro h; cases h) (LenRun.ev hn2 (by intro h; cases h) (r3.lift lift2))).lift lift
  · have hn3 : NextOk data { cfgL true .endTop [] [] false (i + 1) [] c0 al with hasTrailing := true } none :=
      nextOk_done rfl (by simp only [cfgL]; omega) rfl
    have r3 : LenRun data { cfgL true .endTop [] [] false (i + 1) [] c0 al with hasTrailing := true }
        (upd data ⟨.mixE, o, mixEnd data i⟩) (upd data ⟨.mixE, o, mixEnd data i⟩) 1 := LenRun.eof hn3
    have hu : upd data ⟨.mixE, o, mixEnd data i⟩ = mixEnd data i + 1 := upd_lt _ _ _ (by omega)
    refine ⟨_, 1 + 1 + 1, by omega,
      (LenRun.ev hn1 (by intro h; cases h) (LenRun.ev hn2 (by intro h; cases h) r3)).lift lift, ?_, ?_, ?_⟩
    · rw [hu]; omega
    · rw [hu]; omega
    · intro hsp; rw [hu, mixEnd_eq i hsp]; omega

/-- the end of input ends the shortcut -/
theorem eof_after_ts (nm : Bool) (o i : Nat) (c0 : Ctx) (al : Bool) (len : Nat) (hi : 1 ≤ i)
    (hsz : data.size = i) :
    ∃ L, LenRun data (cfgL lc (tsSt nm) [] (K2 o) false i [c0] sctx al) len L 3 ∧ i - 1 ≤ L ∧ L ≤ i ∧
      (data[i - 1]? ≠ some Cls.sp → L = i) := by
  have hn1 : NextOk data (cfgL lc (tsSt nm) [] (K2 o) false i [c0] sctx al)
      (some ({ cfgL lc (tsSt nm) [] [(.mixB, o)] false (i + 1) [c0] sctx al with finds := [.mixE] }, ⟨.tsE, o, i - 1⟩)) := by
    refine ⟨1, by omega, ?_⟩
    rw [next_succ]
    unfold nextBody shiftFound eofStep
    simp only [cfgL, show ¬ i < data.size by omega, if_false]
    cases nm <;> rfl
  have hn2 : NextOk data { cfgL lc (tsSt nm) [] [(.mixB, o)] false (i + 1) [c0] sctx al with finds := [.mixE] }
      (some (cfgL lc (tsSt nm) [] [] false (i + 1) [c0] sctx al, ⟨.mixE, o, mixEnd data i⟩)) := nextOk_shift rfl rfl
  have hn3 : NextOk data (cfgL lc (tsSt nm) [] [] false (i + 1) [c0] sctx al) none :=
    nextOk_done rfl (by simp only [cfgL]; omega) rfl
  have hle := mixEnd_le (data := data) i
  have hge := mixEnd_ge (data := data) i
  have hu : upd data ⟨.mixE, o, mixEnd data i⟩ = mixEnd data i + 1 := upd_lt _ _ _ (by omega)
  refine ⟨_, LenRun.ev hn1 (by intro h; cases h) (LenRun.ev hn2 (by intro h; cases h) (LenRun.eof hn3)), ?_, ?_, ?_⟩
  · rw [hu]; omega
  · rw [hu]; omega
  · intro hsp; rw [hu, mixEnd_eq i hsp]; omega

/-! ### `Len` of a root shortcut -/

/-- layout splits into leading spaces / tabs and a rest that is empty or starts with a line break -/
theorem ws_split : ∀ (w : List Cls), IsWs w →
    ∃ sps rest, w = sps ++ rest ∧ IsSpTabs sps ∧ (rest = [] ∨ ∃ r', rest = Cls.nl :: r')
  | [], _ => ⟨[], [], rfl, (by intro c hc; cases hc), Or.inl rfl⟩
  | c :: w, hw => by
    rcases blank_cases hw.head with hs | rfl
    · obtain ⟨sps, rest, he, h1, h2⟩ := ws_split w hw.tail
      refine ⟨c :: sps, rest, by rw [he]; rfl, ?_, h2⟩
      intro x hx
      rcases List.mem_cons.mp hx with rfl | hx
      · exact hs
      · exact h1 x hx
    · exact ⟨[], Cls.nl :: w, rfl, (by intro c hc; cases hc), Or.inr ⟨w, rfl⟩⟩

/-- what may follow a root shortcut and its trailing layout `w`: nothing, or a foreign byte (not layout, `/`, `#`) that
— when only spaces / tabs separate it from the shortcut — is not `|`, and — when nothing separates it — is not a name
byte -/
def scTailOk (w tail : List Cls) : Bool :=
  match tail with
  | [] => true
  | x :: _ => x.isForeign && (!(w.all Cls.isSpTab) || tsForeignOk w.isEmpty x)

theorem trim_text (r : List Cls) (hlast : ∃ pre d, r = pre ++ [d] ∧ d.isBlank = false) (ws0 w tl : List Cls)
    (hw : IsWs w) (hat : At data 0 (ws0 ++ (r ++ (w ++ tl)))) (L : Nat) (h1 : ws0.length + r.length ≤ L)
    (h2 : L ≤ ws0.length + r.length + w.length) : trimBlank data L = ws0.length + r.length := by
  obtain ⟨_, hatv, hatT⟩ := at_split ws0 r (w ++ tl) hat
  rw [At_append] at hatT
  obtain ⟨pre, d, hr, hd⟩ := hlast
  have hl : r.length = pre.length + 1 := by rw [hr]; simp
  rw [hl] at h1 h2 hatT ⊢
  rw [hr] at hatv
  refine trimBlank_after w hw pre d hd ws0.length ?_ L h1 h2
  rw [At_append]
  refine ⟨hatv, ?_⟩
  simp only [List.length_append, List.length_cons, List.length_nil, Nat.zero_add]
  exact hatT.1

theorem name_not_blank {d : Cls} (h : d.isName = true) : d.isBlank = false := by
  cases d <;> simp [Cls.isName] at h <;> rfl

theorem name_ne_sp {d : Cls} (h : d.isName = true) : d ≠ Cls.sp := by
  intro e; subst e; cases h

/-- from the start of the input to the last byte of the shortcut -/
theorem root_ts_path (sc : Shortcut) (hv : sc.Valid) (ws0 : List Cls) (h0 : IsWs ws0)
    (hat : At data 0 (ws0 ++ sc.render)) :
    ∃ al, Path data (cfgL lc .foundRoot [] [] false 0 [] { ty := .initial } true)
      (nlEvs 0 ws0 ++ [⟨.mixB, ws0.length, ws0.length⟩, ⟨.tsB, ws0.length, ws0.length⟩])
      (cfgL lc .tsName [] (K2 ws0.length) false (ws0.length + sc.render.length) [{ ty := .initial }] sctx al) := by
  rw [At_append] at hat
  obtain ⟨hat0, hatv⟩ := hat
  obtain ⟨al1, s1⟩ := ws_run (lc := lc) ws0 h0 .foundRoot rfl [] 0 [] { ty := .initial } true hat0
  rw [wsSt_eq (by simp)] at s1
  simp only [Nat.zero_add] at s1 hatv
  simp only [Shortcut.render] at hatv
  obtain ⟨hc, hattl⟩ := hatv
  have s2 := S_root_at (lc := lc) ws0.length [] { ty := .initial } al1 hc
  have s3 := ts_run (lc := lc) _ _ _ _ _ (shortcut_tsRun sc hv) (K2 ws0.length) (ws0.length + 1)
    [{ ty := .initial }] sctx al1 hattl
  refine ⟨al1, (Path.trans (Path.trans s1 s2) s3).cast (by simp) (cfg_congr rfl ?_)⟩
  simp only [Shortcut.render, List.length_cons]; omega

theorem tsSt_of_isEmpty (sps : List Cls) :
    (if sps.isEmpty then St.tsName else St.tsBeforePipe) = tsSt sps.isEmpty := by
  cases sps <;> rfl

/-- **root shortcut, on byte classes**: the raw length lies between the end of the shortcut and the end of the layout
behind it -/
theorem lenRun_shortcut (sc : Shortcut) (hv : sc.Valid) (ws0 w tail : List Cls) (h0 : IsWs ws0) (hw : IsWs w)
    (ht : scTailOk w tail = true) (hat : At data 0 (ws0 ++ (sc.render ++ (w ++ tail))))
    (hsize : data.size = ws0.length + sc.render.length + w.length + tail.length) :
    ∃ L k, LenRun data { lengthComputing := true } 0 L k ∧ k ≤ 8 * data.size + 16 ∧
      ws0.length + sc.render.length ≤ L ∧ L ≤ ws0.length + sc.render.length + w.length := by
  obtain ⟨hat0, hatS, hatT⟩ := at_split ws0 sc.render (w ++ tail) hat
  obtain ⟨al, P⟩ := root_ts_path (lc := true) sc hv ws0 h0 hat0
  have hinit : ({ lengthComputing := true } : Sc) = cfgL true .foundRoot [] [] false 0 [] { ty := .initial } true := rfl
  rw [hinit]
  have hnl0 := nlEvs_length 0 ws0
  have hnt0 : noTop (nlEvs 0 ws0 ++ [⟨.mixB, ws0.length, ws0.length⟩, ⟨.tsB, ws0.length, ws0.length⟩]) = true := by
    rw [noTop_append, noTop_nlEvs]; rfl
  -- the last byte of the shortcut
  obtain ⟨pre, d, hr, hd⟩ := sc.render_last hv
  have hpos : sc.render.length = pre.length + 1 := by rw [hr]; simp
  have hlastc : data[ws0.length + sc.render.length - 1]? = some d := by
    rw [hr, At_append] at hatS
    have := hatS.2.1
    rw [hpos, show ws0.length + (pre.length + 1) - 1 = ws0.length + pre.length by omega]
    exact this
  obtain ⟨sps, rest, rfl, hs, hrest⟩ := ws_split w hw
  rw [List.append_assoc, At_append] at hatT
  obtain ⟨hatsps, hatrest⟩ := hatT
  have P2 := ts_run (lc := true) sps .tsName false _ false (sp_tsRun .tsName (Or.inl rfl) sps hs false)
    (K2 ws0.length) (ws0.length + sc.render.length) [{ ty := .initial }] sctx al hatsps
  rw [tsSt_of_isEmpty] at P2
  have P12 := Path.trans P P2
  rw [List.append_nil] at P12
  simp only [List.length_append] at hsize ⊢
  rcases hrest with rfl | ⟨r', rfl⟩
  · -- only spaces / tabs behind the shortcut
    simp only [List.nil_append, List.length_nil, Nat.add_zero] at hatrest hsize ⊢
    have hsp : data[ws0.length + sc.render.length + sps.length - 1]? ≠ some Cls.sp → sps = [] ∨ True := fun _ => Or.inr trivial
    have hlow : ∀ L, ws0.length + sc.render.length + sps.length - 1 ≤ L →
        (data[ws0.length + sc.render.length + sps.length - 1]? ≠ some Cls.sp → L = ws0.length + sc.render.length + sps.length) →
        ws0.length + sc.render.length ≤ L := by
      intro L h1 h2
      cases sps with
      | nil =>
        simp only [List.length_nil, Nat.add_zero] at h1 h2 ⊢
        have := h2 (by rw [hlastc]; intro e; exact name_ne_sp hd (Option.some.inj e))
        omega
      | cons c cs => simp only [List.length_cons] at h1; omega
    cases tail with
    | nil =>
      simp only [List.length_nil, Nat.add_zero] at hsize
      obtain ⟨L, r, hl1, hl2, hl3⟩ := eof_after_ts (lc := true) (data := data) sps.isEmpty ws0.length
        (ws0.length + sc.render.length + sps.length) { ty := .initial } al
        (lenAfter data (nlEvs 0 ws0 ++ [⟨.mixB, ws0.length, ws0.length⟩, ⟨.tsB, ws0.length, ws0.length⟩]) 0)
        (by omega) hsize
      refine ⟨L, _, P12.lenRun hnt0 0 _ _ r, ?_, hlow L hl1 hl3, hl2⟩
      simp only [List.length_append, List.length_cons, List.length_nil]; omega
    | cons x rest2 =>
      have hx : tsForeignOk sps.isEmpty x = true := by
        simp only [scTailOk, List.append_nil, Bool.and_eq_true, Bool.or_eq_true, Bool.not_eq_true'] at ht
        rcases ht.2 with h | h
        · have : sps.all Cls.isSpTab = true := List.all_eq_true.mpr hs
          rw [this] at h; cases h
        · exact h
      obtain ⟨L, k, hk, r, hl1, hl2, hl3⟩ := foreign_after_ts (data := data) hx ws0.length
        (ws0.length + sc.render.length + sps.length) { ty := .initial } al
        (lenAfter data (nlEvs 0 ws0 ++ [⟨.mixB, ws0.length, ws0.length⟩, ⟨.tsB, ws0.length, ws0.length⟩]) 0)
        (by omega) hatrest.1
      refine ⟨L, _, P12.lenRun hnt0 0 _ _ r, ?_, hlow L hl1 hl3, hl2⟩
      simp only [List.length_append, List.length_cons, List.length_nil]; omega
  · -- a line break behind the shortcut (and its spaces)
    rw [List.cons_append, ] at hatrest
    obtain ⟨hcnl, hatr⟩ := hatrest
    rw [At_append] at hatr
    obtain ⟨hatr', hattail⟩ := hatr
    have P3 := S_ts_nl (lc := true) sps.isEmpty ws0.length (ws0.length + sc.render.length + sps.length)
      { ty := .initial } al hcnl
    obtain ⟨al', P4⟩ := ws_run (lc := true) r' (fun c hc => hw c (by simp [hc])) .endTop rfl [] (ws0.length + sc.render.length + sps.length + 1) []
      { ty := .initial } al hatr'
    rw [wsSt_eq (by simp)] at P4
    have PA := Path.trans P12 (Path.trans P3 P4)
    have hntA : noTop ((nlEvs 0 ws0 ++ [⟨.mixB, ws0.length, ws0.length⟩, ⟨.tsB, ws0.length, ws0.length⟩]) ++
        ([⟨.tsE, ws0.length, ws0.length + sc.render.length + sps.length - 1⟩,
          ⟨.mixE, ws0.length, mixEnd data (ws0.length + sc.render.length + sps.length)⟩,
          ⟨.newLine, ws0.length + sc.render.length + sps.length, ws0.length + sc.render.length + sps.length⟩] ++
          nlEvs (ws0.length + sc.render.length + sps.length + 1) r')) = true := by
      rw [noTop_append, hnt0, noTop_append, noTop_nlEvs]; rfl
    have hnl2 := nlEvs_length (ws0.length + sc.render.length + sps.length + 1) r'
    simp only [List.length_cons] at hsize ⊢
    cases tail with
    | nil =>
      simp only [List.length_nil, Nat.add_zero] at hsize
      have hn : NextOk data
          (cfgL true .endTop [] [] false (ws0.length + sc.render.length + sps.length + 1 + r'.length) [] { ty := .initial } al')
          none := nextOk_done rfl (by simp only [cfgL]; omega) rfl
      have r := LenRun.eof (len := lenAfter data ((nlEvs 0 ws0 ++ [⟨.mixB, ws0.length, ws0.length⟩, ⟨.tsB, ws0.length, ws0.length⟩]) ++
        ([⟨.tsE, ws0.length, ws0.length + sc.render.length + sps.length - 1⟩,
          ⟨.mixE, ws0.length, mixEnd data (ws0.length + sc.render.length + sps.length)⟩,
          ⟨.newLine, ws0.length + sc.render.length + sps.length, ws0.length + sc.render.length + sps.length⟩] ++
          nlEvs (ws0.length + sc.render.length + sps.length + 1) r')) 0) hn
      have hL : lenAfter data ((nlEvs 0 ws0 ++ [⟨.mixB, ws0.length, ws0.length⟩, ⟨.tsB, ws0.length, ws0.length⟩]) ++
        ([⟨.tsE, ws0.length, ws0.length + sc.render.length + sps.length - 1⟩,
          ⟨.mixE, ws0.length, mixEnd data (ws0.length + sc.render.length + sps.length)⟩,
          ⟨.newLine, ws0.length + sc.render.length + sps.length, ws0.length + sc.render.length + sps.length⟩] ++
          nlEvs (ws0.length + sc.render.length + sps.length + 1) r')) 0
          = lenAfter data (nlEvs (ws0.length + sc.render.length + sps.length + 1) r')
              (ws0.length + sc.render.length + sps.length + 1) := by
        rw [lenAfter_append, lenAfter_append]
        simp only [lenAfter]
        rw [upd_lt _ _ _ (by omega)]
      have hb := lenAfter_nlEvs (data := data) r' (ws0.length + sc.render.length + sps.length + 1)
        (ws0.length + sc.render.length + sps.length + 1) (ws0.length + sc.render.length + sps.length + 1)
        (Nat.le_refl _) (Nat.le_refl _) (by omega)
      refine ⟨_, _, PA.lenRun hntA 0 _ 1 r, ?_, ?_, ?_⟩
      · simp only [List.length_append, List.length_cons, List.length_nil]; omega
      · rw [hL]; omega
      · rw [hL]; omega
    | cons x rest2 =>
      have hx : x.isForeign = true := by
        simp only [scTailOk, Bool.and_eq_true] at ht
        exact ht.1
      have r := foreign_after_ws hx (ws0.length + sc.render.length + sps.length + 1 + r'.length) [] { ty := .initial } al'
        (lenAfter data ((nlEvs 0 ws0 ++ [⟨.mixB, ws0.length, ws0.length⟩, ⟨.tsB, ws0.length, ws0.length⟩]) ++
        ([⟨.tsE, ws0.length, ws0.length + sc.render.length + sps.length - 1⟩,
          ⟨.mixE, ws0.length, mixEnd data (ws0.length + sc.render.length + sps.length)⟩,
          ⟨.newLine, ws0.length + sc.render.length + sps.length, ws0.length + sc.render.length + sps.length⟩] ++
          nlEvs (ws0.length + sc.render.length + sps.length + 1) r')) 0) hattail.1
      refine ⟨_, _, PA.lenRun hntA 0 _ 1 r, ?_, ?_, ?_⟩
      · simp only [List.length_append, List.length_cons, List.length_nil] at hsize ⊢; omega
      · omega
      · omega

end Len

open Len in
/-- **C14 (schema scanner), root type shortcut**: the classes of the input are `ws0 ++ sc.render ++ w ++ tail` — leading
layout, a type shortcut `@name` or `@a | @b | …` (spaces / tabs around `|`), layout `w`, and then nothing or a foreign
byte (`scTailOk`) followed by anything. Then `Len` is the offset just after the last name byte of the shortcut. -/
theorem C14_schema_len_shortcut (sc : Shortcut) (hv : sc.Valid) (ws0 w tail : List Cls) (h0 : IsWs ws0) (hw : IsWs w)
    (ht : scTailOk w tail = true) (bs : List UInt8) (hbs : bs.map classify = ws0 ++ (sc.render ++ (w ++ tail))) :
    length bs = .ok (ws0.length + sc.render.length) := by
  have hat : At (bs.map classify).toArray 0 (ws0 ++ (sc.render ++ (w ++ tail))) := At_toArray _ [] _ hbs
  have hsize : (bs.map classify).toArray.size = ws0.length + sc.render.length + w.length + tail.length := by
    rw [hbs]; simp only [List.size_toArray, List.length_append]; omega
  obtain ⟨L, k, hrun, hk, hlo, hhi⟩ := lenRun_shortcut sc hv ws0 w tail h0 hw ht hat hsize
  rw [length_of_lenRun bs L k hrun hk]
  obtain ⟨pre, d, hr, hd⟩ := sc.render_last hv
  rw [trim_text sc.render ⟨pre, d, hr, name_not_blank hd⟩ ws0 w tail hw hat L hlo hhi]

#print axioms C14_schema_len_shortcut

end SchemaScan
