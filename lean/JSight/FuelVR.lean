import JSight.Dfs
/-!
C09 (c): the validator's type expansion (`NodeValidatorList` / `buildList`, model `VR.build`) keeps ONE set of
names already added; every descent adds a name of the table to it. So `|types| + 1` units of fuel are enough for
every type table — recursive or not, accepted by the recursion check or not — and more fuel changes nothing.
-/
namespace VR
variable {L : Type}

theorem expand_monoV (env : Env L) (fuel : Nat)
    (hb : ∀ (t : S L) (st : List String × List (S L)), ∀ x ∈ st.1, x ∈ (build env fuel t st).1) :
    ∀ (names : List String) (st : List String × List (S L)), ∀ x ∈ st.1, x ∈ (expand env fuel names st).1 := by
  intro names
  induction names with
  | nil => intro st x hx; exact hx
  | cons n ns ih =>
    intro st x hx
    rw [expand_cons]
    apply ih
    by_cases hc : st.1.contains n = true
    · simp only [hc, if_true]; exact hx
    · simp only [hc, Bool.false_eq_true, if_false]
      cases hl : lookupT env n with
      | none => simp [hx]
      | some t => exact hb t _ x (by simp [hx])

theorem build_monoV (env : Env L) : ∀ (fuel : Nat) (t : S L) (st : List String × List (S L)),
    ∀ x ∈ st.1, x ∈ (build env fuel t st).1 := by
  intro fuel
  induction fuel with
  | zero => intro t st x hx; exact hx
  | succ f ih =>
    intro t st x hx
    by_cases hr : isRef t = false
    · rw [build_nonref env f t hr]; exact hx
    · obtain ⟨names, nul, rfl⟩ : ∃ names nul, t = .ref names nul := by
        cases t <;> simp [isRef] at hr; exact ⟨_, _, rfl⟩
      rw [build_ref]
      have := expand_monoV env f ih names st x hx
      cases nul with
      | none => exact this
      | some l => exact this

/-- one more unit of fuel changes nothing once the fuel exceeds the number of table entries not yet added -/
theorem build_succ (env : Env L) : ∀ (fuel : Nat) (t : S L) (st : List String × List (S L)),
    U env st.1 < fuel → build env (fuel + 1) t st = build env fuel t st := by
  intro fuel
  induction fuel with
  | zero => intro t st h; omega
  | succ f ih =>
    intro t st h
    by_cases hr : isRef t = false
    · rw [build_nonref env (f + 1) t hr, build_nonref env f t hr]
    · obtain ⟨names, nul, rfl⟩ : ∃ names nul, t = .ref names nul := by
        cases t <;> simp [isRef] at hr; exact ⟨_, _, rfl⟩
      have hexp : ∀ (ns : List String) (st : List String × List (S L)), U env st.1 < f + 1 →
          expand env (f + 1) ns st = expand env f ns st := by
        intro ns
        induction ns with
        | nil => intro st _; rfl
        | cons n ns ihn =>
          intro st hst
          rw [expand_cons, expand_cons]
          by_cases hc : st.1.contains n = true
          · simp only [hc, if_true]; exact ihn st hst
          · simp only [hc, Bool.false_eq_true, if_false]
            have hn : n ∉ st.1 := by simpa using hc
            cases hl : lookupT env n with
            | none =>
              apply ihn
              have := U_mono env st.1 (n :: st.1) (fun x hx => by simp [hx])
              simp only; omega
            | some t' =>
              have hlt := U_lt env st.1 n t' hl hn
              dsimp only
              rw [ih t' (n :: st.1, st.2) (by simp only; omega)]
              apply ihn
              have := U_mono env (n :: st.1) (build env f t' (n :: st.1, st.2)).1
                (fun x hx => build_monoV env f t' _ x hx)
              omega
      rw [build_ref, build_ref, hexp names st h]

theorem U_nil_le (env : Env L) : U env [] ≤ env.length := List.countP_le_length

theorem build_le (env : Env L) (t : S L) (st : List String × List (S L)) (f f' : Nat) (hf : U env st.1 < f)
    (hle : f ≤ f') : build env f' t st = build env f t st := by
  induction hle with
  | refl => rfl
  | @step m hle' ih =>
    have hm : f ≤ m := hle'
    rw [build_succ env m t st (by omega), ih]

/-- **fuel sufficiency of the validator's type expansion**, every type table: any fuel from `|types| + 1` on
yields the alternatives `alts` -/
theorem alts_fuel_stable (env : Env L) (s : S L) (fuel : Nat) (h : env.length + 1 ≤ fuel) :
    (build env fuel s ([], [])).2 = alts env s := by
  unfold alts
  rw [build_le env s ([], []) (env.length + 1) fuel (by have := U_nil_le env; simp only; omega) h]

end VR
