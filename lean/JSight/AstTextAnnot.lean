import JSight.AstText
import JSight.AnnotNoteThm
/-!
C16 at text level, annotated top-level scalar: `astOfText` of `tok // {rules} - note` / `tok /* {rules} - note */`
(and the forms without a note) is the AST computed from the TREE — the value token, the (name, value) pairs of the
rule object in written order, the note — whatever the layout (blanks, line breaks in the multi-line form, trailing
comma, inline or multi-line form).
-/
namespace AstText
open SchemaScan Lay
open Loader (NK Node St slice trimSpaces nameOf keyText)

/-! ### the spec on the tree -/

/-- the rule list of the AST from the (name, value) pairs as written: one rule node per pair, in written order;
a name written twice is refused by the library (501) -/
def rulesOfPairs : List (Bytes × Bytes) → List (Bytes × RNode) → M (List (Bytes × RNode))
  | [], acc => pure acc.reverse
  | (name, v) :: ps, acc =>
    match scalarRule name v with
    | .error e => .error e
    | .ok n => if acc.any (·.1 == name) then unsup "duplicate rule" else rulesOfPairs ps ((name, n) :: acc)

/-- **the AST of an annotated scalar, from the tree**: one literal node — JSON token kind of the example, its
literal value (unquoted), the schema type decided by the rules, the rules as written (names, values, order), the
note text (trimmed) -/
def astOfScalar (tok : Bytes) (pairs : List (Bytes × Bytes)) (note : Bytes) : M AstNode :=
  match rulesOfPairs pairs [] with
  | .error e => .error e
  | .ok rules =>
    match RulesF.kindOfTok tok with
    | none => unsup "literal kind"
    | some k => pure (.mk [] false (kindTok k) (schemaTypeOf rules (kindName k)) (unq tok) (trimSpaces note) rules [])

/-- the names whose values the library reads with an embedded loader -/
def embNames : List Bytes := [sb "enum", sb "allOf", sb "or"]

theorem regexVal_eq (v r : Bytes) (h : regexVal v = some r) : r = Unquote.unquote v := by
  unfold regexVal at h
  split at h
  · rename_i hc
    simp only [Bool.and_eq_true] at hc
    simp only [Unquote.unquote, hc.1, if_true, h]
  · cases h

theorem scalarRule_as_written (name v : Bytes) (t : String) (val c : Bytes) (s : Src) (p : List (Bytes × RNode))
    (i : List RNode) (h : scalarRule name v = .ok (.mk t val c s p i)) :
    (val = v ∨ val = Unquote.unquote v) ∧ c = [] ∧ s = .manual ∧ p = [] ∧ i = [] := by
  unfold scalarRule at h
  simp only [leaf, unsup, pure, Except.pure] at h
  repeat' split at h
  all_goals try cases h
  all_goals try (rename_i hr; have := regexVal_eq _ _ hr; subst this)
  all_goals simp [unq]

/-! ### the rule table of the loader against the pairs -/

theorem ruleAst_scalar (src : Array UInt8) (evs : List Ev) (nsp vsp : Nat × Nat) (name v : Bytes)
    (hn : nameOf src nsp = name) (hv : slice src vsp.1 vsp.2 = v) (he : name ∉ embNames) :
    ruleAst src evs .lit (.inl nsp, some vsp) = (scalarRule name v).map (fun n => (name, n)) := by
  simp only [embNames, List.mem_cons, List.not_mem_nil, or_false, not_or] at he
  obtain ⟨h1, h2, h3⟩ := he
  unfold ruleAst
  simp only [hn, hv]
  have d1 : (name == sb "enum") = false := by simpa using h1
  have d2 : (name == sb "allOf") = false := by simpa using h2
  have d3 : (name == sb "or") = false := by simpa using h3
  simp only [d1, d2, d3, show (NK.lit == NK.mixed) = false from rfl, Bool.false_and, Bool.false_eq_true, if_false]
  cases scalarRule name v <;> rfl

theorem rulesAst_pairs (src : Array UInt8) (evs : List Ev) : ∀ (sps vsps : List (Nat × Nat)) (pairs : List (Bytes × Bytes))
    (acc : List (Bytes × RNode)),
    sps.map (nameOf src) = pairs.map (·.1) → vsps.map (fun p => slice src p.1 p.2) = pairs.map (·.2) →
    (∀ p ∈ pairs, p.1 ∉ embNames) →
    rulesAst src evs .lit ((sps.map Sum.inl).zip (vsps.map some)) acc = rulesOfPairs pairs acc
  | [], vsps, pairs, acc, h1, h2, _ => by
    cases pairs with
    | nil => simp [rulesAst, rulesOfPairs]
    | cons p ps => simp at h1
  | sp :: sps, [], pairs, acc, h1, h2, _ => by
    cases pairs with
    | nil => simp at h1
    | cons p ps => simp at h2
  | sp :: sps, vsp :: vsps, pairs, acc, h1, h2, he => by
    cases pairs with
    | nil => simp at h1
    | cons p ps =>
      obtain ⟨name, v⟩ := p
      simp only [List.map_cons, List.cons.injEq] at h1 h2
      have hr := ruleAst_scalar src evs sp vsp name v h1.1 h2.1 (he (name, v) (by simp))
      simp only [List.map_cons, List.zip_cons_cons, rulesAst, rulesOfPairs, hr]
      cases hs : scalarRule name v with
      | error e => rfl
      | ok n =>
        simp only [Except.map]
        split
        · rfl
        · exact rulesAst_pairs src evs sps vsps ps _ h1.2 h2.2 (fun q hq => he q (by simp [hq]))

/-! ### value tokens of the rules -/

theorem valOf_rule (src : Array UInt8) (r : BRule) (hs : IsScalar (r.val.map classify)) (p : Nat)
    (hat : AtB src p (r.render ++ [])) :
    slice src (r.cls.vspan p).1 (r.cls.vspan p).2 = r.val := by
  simp only [List.append_nil, BRule.render] at hat
  have e : r.b1 ++ (r.name ++ (List.replicate r.n2 32 ++ (58 :: (r.b3 ++ (r.val ++ r.b4)))))
      = (r.b1 ++ (r.name ++ (List.replicate r.n2 32 ++ (58 :: r.b3)))) ++ (r.val ++ r.b4) := by simp
  rw [e, AtB_append] at hat
  have hv := hat.2
  rw [AtB_append] at hv
  replace hv := hv.1
  have hoff : p + (r.b1 ++ (r.name ++ (List.replicate r.n2 32 ++ (58 :: r.b3)))).length = r.cls.valOff p := by
    simp only [CRule.valOff, BRule.cls, List.length_append, List.length_cons, List.length_replicate, List.length_map]
    omega
  rw [hoff] at hv
  have := slice_tok src r.val _ hv (scalar_ne hs)
  simpa [CRule.vspan, BRule.cls] using this

theorem vals_rules (src : Array UInt8) (a : Ann) : ∀ (rs : List BRule) (r : BRule), ValidRulesB a r rs → ∀ (p : Nat)
    (rest : List UInt8), AtB src p (renderRulesB r rs ++ rest) →
    (vspansRules p r.cls (rs.map BRule.cls)).map (fun q => slice src q.1 q.2) = r.val :: rs.map (·.val)
  | [], r, hv, p, rest, hat => by
    simp only [renderRulesB] at hat
    rw [AtB_append] at hat
    simp [vspansRules, valOf_rule src r hv.1.2.2.2.1 p (by simpa using hat.1)]
  | r' :: rs, r, hv, p, rest, hat => by
    simp only [renderRulesB, List.append_assoc, List.cons_append] at hat
    rw [AtB_append] at hat
    obtain ⟨h1, h2, h3⟩ := hat
    have ih := vals_rules src a rs r' ⟨hv.2 r'.cls (by simp), fun z hz => hv.2 z (by simp [hz])⟩
      (p + r.render.length + 1) rest h3
    simp only [List.map_cons, vspansRules, CRule_render_length, ih,
      valOf_rule src r hv.1.2.2.2.1 p (by simpa using h1)]

theorem pairs_fst (ob : BObj) : ob.pairs.map (·.1) = ob.names := by
  cases ob <;> simp [BObj.names, BObj.pairs, Function.comp_def]

/-- name and value spans of the rule object against the pairs as written -/
theorem spans_pairs (src : Array UInt8) (a : Ann) (ob : BObj) (hv : ob.cls.Valid a) (pre post : List UInt8) (o : Nat)
    (hat : AtB src (o + 1) (ob.body ++ post)) :
    (ob.cls.spans o).map (nameOf src) = ob.pairs.map (·.1) ∧
    (ob.cls.vspans o).map (fun q => slice src q.1 q.2) = ob.pairs.map (·.2) := by
  cases ob with
  | empty b0 => exact ⟨rfl, rfl⟩
  | rules r rs tc =>
    have hat' : AtB src (o + 1) (renderRulesB r rs ++ (renderTcB tc ++ post)) := by
      simpa [BObj.body, List.append_assoc] using hat
    refine ⟨?_, ?_⟩
    · have := names_rules src a rs r hv.1 (o + 1) _ hat'
      simpa [BObj.cls, CObj.spans, BObj.pairs, Function.comp_def] using this
    · have := vals_rules src a rs r hv.1 (o + 1) _ hat'
      simpa [BObj.cls, CObj.vspans, BObj.pairs, Function.comp_def] using this

/-! ### the AST of a one-node table -/

/-- the own fields of a literal node carrying rule spans and (maybe) a note span -/
theorem ownOf_single (src : Array UInt8) (evs : List Ev) (vb ve : Nat)
    (sps vsps : List (Nat × Nat)) (cm : Option (Nat × Nat)) (tok : Bytes) (pairs : List (Bytes × Bytes)) (note : Bytes)
    (hlen : sps.length = vsps.length)
    (htok : slice src vb ve = tok)
    (h1 : sps.map (nameOf src) = pairs.map (·.1)) (h2 : vsps.map (fun p => slice src p.1 p.2) = pairs.map (·.2))
    (he : ∀ p ∈ pairs, p.1 ∉ embNames)
    (hnote : noteSpan src cm = trimSpaces note) :
    ownOf src evs { Loader.addSpans { kind := .lit, parent := none, value := some (vb, ve) } sps vsps with comment := cm }
      = (match rulesOfPairs pairs [] with
        | .error e => .error e
        | .ok rules =>
          match RulesF.kindOfTok tok with
          | none => unsup "literal kind"
          | some k => pure ⟨kindTok k, schemaTypeOf rules (kindName k), unq tok, trimSpaces note, rules⟩) := by
  have hra := rulesAst_pairs src evs sps vsps pairs [] h1 h2 he
  simp only [ownOf, Loader.addSpans, List.nil_append, hra, List.length_map, hlen, htok, noteOf]
  cases hro : rulesOfPairs pairs [] with
  | error e => rfl
  | ok rules =>
    simp only [bind, Except.bind, bne_self_eq_false, Bool.false_eq_true, if_false]
    cases hk : RulesF.kindOfTok tok with
    | none => rfl
    | some k =>
      simp only [pure, Except.pure, hnote]

/-- the AST of a table with one literal node carrying rule spans and (maybe) a note span -/
theorem astOfTable_single (src : Array UInt8) (evs : List Ev) (st : Loader.St) (vb ve : Nat)
    (sps vsps : List (Nat × Nat)) (cm : Option (Nat × Nat)) (tok : Bytes) (pairs : List (Bytes × Bytes)) (note : Bytes)
    (hr : st.root = some 0)
    (hn : st.nodes = #[{ Loader.addSpans { kind := .lit, parent := none, value := some (vb, ve) } sps vsps with comment := cm }])
    (hlen : sps.length = vsps.length)
    (htok : slice src vb ve = tok)
    (h1 : sps.map (nameOf src) = pairs.map (·.1)) (h2 : vsps.map (fun p => slice src p.1 p.2) = pairs.map (·.2))
    (he : ∀ p ∈ pairs, p.1 ∉ embNames)
    (hnote : noteSpan src cm = trimSpaces note) :
    astOfTable src evs st = astOfScalar tok pairs note := by
  have ho := ownOf_single src evs vb ve sps vsps cm tok pairs note hlen htok h1 h2 he hnote
  unfold astOfTable astOfScalar
  rw [hr, hn]
  show astAt src evs _ (1 + 1) 0 ([], false) = _
  unfold astAt
  simp only [List.getElem?_toArray, List.getElem?_cons_zero, ho]
  cases hro : rulesOfPairs pairs [] with
  | error e => rfl
  | ok rules =>
    cases hk : RulesF.kindOfTok tok with
    | none => rfl
    | some k => rfl

end AstText
