import JSight.EnumEventsItem
/-!
The token grammar on byte classes (string = quote *char quote; number = [-] int [frac], no exponent; true / false /
null), its tokens are tokens of the automaton (`IsTok`); first and last class of a token are not blank, hence
`validateValue`'s trimming leaves the token bytes unchanged.
-/
set_option linter.unusedSimpArgs false
set_option linter.unusedVariables false
namespace EnumScan
open SchemaScan (Cls classify)

theorem silentRun_append (st : St) (ret : List St) (unf : Bool) (xs ys : List Cls) (st' : St) (ret' : List St) (unf' : Bool)
    (h : silentRun st ret unf xs = some (st', ret', unf')) :
    silentRun st ret unf (xs ++ ys) = silentRun st' ret' unf' ys := by
  induction xs generalizing st ret unf with
  | nil => simp [silentRun] at h; obtain ⟨rfl, rfl, rfl⟩ := h; rfl
  | cons c cs ih =>
    simp only [silentRun, List.cons_append] at h ⊢
    cases hs : silent st ret unf c with
    | none => rw [hs] at h; simp at h
    | some p => obtain ⟨a, b, d⟩ := p; rw [hs] at h; simp only [] at h ⊢; exact ih a b d h

def isPlainStr : Cls → Bool
  | .quote | .bslash | .ctrl | .tab | .nl => false
  | _ => true
def isSimpleEsc : Cls → Bool
  | .lb | .lf | .ln | .lr | .lt | .bslash | .slash | .quote => true
  | _ => false

/-- the `*char` of the string grammar, on byte classes -/
inductive StrBody : List Cls → Prop
  | nil : StrBody []
  | plain (c : Cls) (b : List Cls) : isPlainStr c = true → StrBody b → StrBody (c :: b)
  | esc (c : Cls) (b : List Cls) : isSimpleEsc c = true → StrBody b → StrBody (.bslash :: c :: b)
  | uni (h1 h2 h3 h4 : Cls) (b : List Cls) : h1.isHex = true → h2.isHex = true → h3.isHex = true → h4.isHex = true →
      StrBody b → StrBody (.bslash :: .lu :: h1 :: h2 :: h3 :: h4 :: b)

theorem strBody_run (b : List Cls) (hb : StrBody b) (u : Bool) :
    silentRun .inString [] u (b ++ [.quote]) = some (.endValue, [], false) := by
  induction hb with
  | nil => rfl
  | plain c b hc _ ih =>
    have : silent .inString [] u c = some (.inString, [], u) := by cases c <;> simp [isPlainStr] at hc <;> rfl
    simp only [List.cons_append, silentRun, this]; exact ih
  | esc c b hc _ ih =>
    have : silent .esc [] u c = some (.inString, [], u) := by cases c <;> simp [isSimpleEsc] at hc <;> rfl
    have e1 : silent .inString [] u .bslash = some (.esc, [], u) := rfl
    simp only [List.cons_append, silentRun, e1, this]; exact ih
  | uni h1 h2 h3 h4 b e1 e2 e3 e4 _ ih =>
    have s0 : silent .inString [] u .bslash = some (.esc, [], u) := rfl
    have s1 : silent .esc [] u .lu = some (.u0, [.inString], u) := rfl
    have s2 : silent .u0 [.inString] u h1 = some (.u1, [.inString], u) := by simp [silent, e1]
    have s3 : silent .u1 [.inString] u h2 = some (.u2, [.inString], u) := by simp [silent, e2]
    have s4 : silent .u2 [.inString] u h3 = some (.u3, [.inString], u) := by simp [silent, e3]
    have s5 : silent .u3 [.inString] u h4 = some (.inString, [], u) := by simp [silent, e4]
    simp only [List.cons_append, silentRun, s0, s1, s2, s3, s4, s5]; exact ih

theorem string_isTok (b : List Cls) (hb : StrBody b) : IsTok (.quote :: (b ++ [.quote])) :=
  ⟨.quote, b ++ [.quote], .inString, true, .endValue, rfl, rfl, strBody_run b hb true, rfl⟩

theorem true_isTok : IsTok [.lt, .lr, .lu, .le] := ⟨.lt, _, .t, true, .endValue, rfl, rfl, rfl, rfl⟩
theorem false_isTok : IsTok [.lf, .la, .ll, .ls, .le] := ⟨.lf, _, .f, true, .endValue, rfl, rfl, rfl, rfl⟩
theorem null_isTok : IsTok [.ln, .lu, .ll, .ll] := ⟨.ln, _, .n, true, .endValue, rfl, rfl, rfl, rfl⟩

def IsDigits (ds : List Cls) : Prop := ∀ c ∈ ds, c.isDigit = true

theorem digits_run (st : St) (hst : st = .d1 ∨ st = .dot0) (ds : List Cls) (hd : IsDigits ds) :
    silentRun st [] false ds = some (st, [], false) := by
  induction ds with
  | nil => rfl
  | cons c cs ih =>
    have hc := hd c (by simp)
    have : silent st [] false c = some (st, [], false) := by
      rcases hst with rfl | rfl <;> cases c <;> simp [Cls.isDigit] at hc <;> rfl
    simp only [silentRun, this]; exact ih (fun x hx => hd x (by simp [hx]))

/-- number without exponent: `[-] int [frac]`, on byte classes -/
structure NumTok where
  neg : Bool
  int : List Cls                      -- `0` or a non-zero digit followed by digits
  frac : Option (Cls × List Cls)      -- first digit and the rest

def NumTok.tail (t : NumTok) : List Cls :=
  match t.frac with | none => [] | some (d, ds) => .dot :: d :: ds

def NumTok.render (t : NumTok) : List Cls :=
  (if t.neg then [.minus] else []) ++ t.int ++ t.tail

structure NumTok.WF (t : NumTok) : Prop where
  int : t.int = [.zero] ∨ ∃ ds, t.int = .d19 :: ds ∧ IsDigits ds
  frac : ∀ d ds, t.frac = some (d, ds) → d.isDigit = true ∧ IsDigits ds

theorem frac_run (s : St) (hs : s = .d0 ∨ s = .d1) (d : Cls) (ds : List Cls) (hd : d.isDigit = true)
    (hds : IsDigits ds) : silentRun s [] false (.dot :: d :: ds) = some (.dot0, [], false) := by
  have a : silent s [] false .dot = some (.dot, [], true) := by rcases hs with rfl | rfl <;> rfl
  have b : silent .dot [] true d = some (.dot0, [], false) := by cases d <;> simp [Cls.isDigit] at hd <;> rfl
  simp only [silentRun, a, b]
  exact digits_run .dot0 (Or.inr rfl) ds hds

theorem tail_run (t : NumTok) (wf : t.WF) (s : St) (hs : s = .d0 ∨ s = .d1) :
    ∃ sE, PV sE = true ∧ silentRun s [] false t.tail = some (sE, [], false) := by
  obtain ⟨neg, int, frac⟩ := t
  have hf := wf.frac
  simp only [NumTok.tail] at *
  cases frac with
  | none => exact ⟨s, by rcases hs with rfl | rfl <;> rfl, rfl⟩
  | some p =>
    obtain ⟨fd, fds⟩ := p
    obtain ⟨g1, g2⟩ := hf fd fds rfl
    exact ⟨.dot0, rfl, frac_run s hs fd fds g1 g2⟩

theorem number_isTok (t : NumTok) (wf : t.WF) : IsTok t.render := by
  unfold NumTok.render
  rcases wf.int with hz | ⟨ds, hi, hds⟩
  · obtain ⟨sE, hp, hrun⟩ := tail_run t wf .d0 (Or.inl rfl)
    rw [hz]
    cases t.neg
    · exact ⟨.zero, t.tail, .d0, false, sE, by simp, rfl, hrun, hp⟩
    · refine ⟨.minus, .zero :: t.tail, .neg, true, sE, by simp, rfl, ?_, hp⟩
      have a : silent .neg [] true .zero = some (.d0, [], false) := rfl
      simp only [silentRun, a]; exact hrun
  · obtain ⟨sE, hp, hrun⟩ := tail_run t wf .d1 (Or.inr rfl)
    have hdig := digits_run .d1 (Or.inl rfl) ds hds
    rw [hi]
    cases t.neg
    · refine ⟨.d19, ds ++ t.tail, .d1, false, sE, by simp, rfl, ?_, hp⟩
      rw [silentRun_append _ _ _ _ _ _ _ _ hdig]; exact hrun
    · refine ⟨.minus, .d19 :: (ds ++ t.tail), .neg, true, sE, by simp, rfl, ?_, hp⟩
      have a : silent .neg [] true .d19 = some (.d1, [], false) := rfl
      simp only [silentRun, a]
      rw [silentRun_append _ _ _ _ _ _ _ _ hdig]; exact hrun

/-- a scalar token of the grammar, on byte classes -/
inductive GTok : List Cls → Prop
  | str (b : List Cls) : StrBody b → GTok (.quote :: (b ++ [.quote]))
  | num (t : NumTok) : t.WF → GTok t.render
  | wtrue : GTok [.lt, .lr, .lu, .le]
  | wfalse : GTok [.lf, .la, .ll, .ls, .le]
  | wnull : GTok [.ln, .lu, .ll, .ll]

theorem GTok.isTok {tk : List Cls} (h : GTok tk) : IsTok tk := by
  cases h with
  | str b hb => exact string_isTok b hb
  | num t wf => exact number_isTok t wf
  | wtrue => exact true_isTok
  | wfalse => exact false_isTok
  | wnull => exact null_isTok

/-! ### the ends of a token are not blank -/

theorem litStart_nonblank {c : Cls} {x : St × Bool} (h : litStart c = some x) : c.isBlank = false := by
  cases c <;> simp [litStart] at h <;> rfl

theorem silent_pv_nonblank {st : St} {ret : List St} {unf : Bool} {c : Cls} {st' : St} {ret' : List St} {unf' : Bool}
    (h : silent st ret unf c = some (st', ret', unf')) (hp : PV st' = true) : c.isBlank = false := by
  cases c <;> first
    | rfl
    | (cases st <;> first
        | (simp [silent, Cls.isHex] at h; done)
        | (simp [silent, Cls.isHex] at h; obtain ⟨rfl, _, _⟩ := h; simp [PV] at hp; done)
        | (cases ret <;> simp [silent, Cls.isHex] at h))

theorem silentRun_last {tl : List Cls} : ∀ {st : St} {ret : List St} {unf : Bool} {stE : St} {retE : List St} {unfE : Bool},
    silentRun st ret unf tl = some (stE, retE, unfE) → PV stE = true → tl ≠ [] →
    ∃ l, tl.getLast? = some l ∧ l.isBlank = false := by
  induction tl with
  | nil => intro _ _ _ _ _ _ _ _ h; exact absurd rfl h
  | cons c cs ih =>
    intro st ret unf stE retE unfE h hp _
    simp only [silentRun] at h
    cases hs : silent st ret unf c with
    | none => rw [hs] at h; cases h
    | some p =>
      obtain ⟨s1, r1, u1⟩ := p
      rw [hs] at h
      simp only [] at h
      cases cs with
      | nil =>
        simp only [silentRun, Option.some.injEq, Prod.mk.injEq] at h
        obtain ⟨rfl, rfl, rfl⟩ := h
        exact ⟨c, rfl, silent_pv_nonblank hs hp⟩
      | cons c' cs' =>
        obtain ⟨l, h1, h2⟩ := ih h hp (by simp)
        exact ⟨l, by rw [List.getLast?_cons_cons]; exact h1, h2⟩

theorem IsTok.ends {tk : List Cls} (h : IsTok tk) :
    ∃ c l, tk.head? = some c ∧ tk.getLast? = some l ∧ c.isBlank = false ∧ l.isBlank = false := by
  obtain ⟨c, tl, st0, unf0, stE, rfl, hl, hrun, hpv⟩ := h
  cases tl with
  | nil => exact ⟨c, c, rfl, rfl, litStart_nonblank hl, litStart_nonblank hl⟩
  | cons c' cs =>
    obtain ⟨l, h1, h2⟩ := silentRun_last hrun hpv (by simp)
    exact ⟨c, l, rfl, by rw [List.getLast?_cons_cons]; exact h1, litStart_nonblank hl, h2⟩

theorem ite_nonblank (c : Prop) [Decidable c] (x y : Cls) (hx : x.isBlank = false) (hy : y.isBlank = false) :
    (if c then x else y).isBlank = false := by
  split <;> assumption

theorem isBlank_classify (b : UInt8) : Render.isBlank b = (classify b).isBlank := by
  unfold Render.isBlank Render.isNewLine
  by_cases h1 : b = 32
  · subst h1; rfl
  by_cases h2 : b = 9
  · subst h2; rfl
  by_cases h3 : b = 10
  · subst h3; rfl
  by_cases h4 : b = 13
  · subst h4; rfl
  have e1 : (b == 32) = false := by simp [h1]
  have e2 : (b == 9) = false := by simp [h2]
  have e3 : (b == 10) = false := by simp [h3]
  have e4 : (b == 13) = false := by simp [h4]
  unfold classify
  simp only [e1, e2, e3, e4, Bool.or_self, if_false, Bool.false_eq_true]
  symm
  repeat' (first | rfl | apply ite_nonblank)

/-- the model's duplicate key of a token: (decoded text, is-string) -/
def tokKey (tok : List UInt8) : List UInt8 × Bool :=
  (if Unquote.inQuotes tok then Unquote.unquote tok else tok, Unquote.inQuotes tok)

theorem dropWhile_head {α : Type} (p : α → Bool) (l : List α) (x : α) (h : l.head? = some x) (hx : p x = false) :
    l.dropWhile p = l := by
  cases l with
  | nil => rfl
  | cons y ys =>
    simp only [List.head?_cons, Option.some.injEq] at h
    subst h
    simp [List.dropWhile, hx]

/-- trimming does nothing on the bytes of a token -/
theorem keyOfTrim_tok (tok : List UInt8) (h : IsTok (tok.map classify)) : keyOfTrim tok = tokKey tok := by
  obtain ⟨c, l, h1, h2, h3, h4⟩ := h.ends
  rw [List.head?_map] at h1
  rw [List.getLast?_map] at h2
  cases hx : tok.head? with
  | none => rw [hx] at h1; cases h1
  | some x =>
    cases hy : tok.getLast? with
    | none => rw [hy] at h2; cases h2
    | some y =>
      rw [hx] at h1; rw [hy] at h2
      simp only [Option.map_some, Option.some.injEq] at h1 h2
      have bx : Render.isBlank x = false := by rw [isBlank_classify, h1]; exact h3
      have by' : Render.isBlank y = false := by rw [isBlank_classify, h2]; exact h4
      unfold keyOfTrim
      have e1 : tok.dropWhile Render.isBlank = tok := dropWhile_head _ _ x hx bx
      have e2 : tok.reverse.dropWhile Render.isBlank = tok.reverse :=
        dropWhile_head _ _ y (by rw [List.head?_reverse]; exact hy) by'
      simp only [e1, e2, List.reverse_reverse]
      rfl

end EnumScan
