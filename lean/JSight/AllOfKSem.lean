import JSight.AllOfKProofs
import JSight.ValidateKSpec
import JSight.ValidateKProofs
/-!
C03, allOf: what the validator accepts on an expanded object.

* `allOf_semantics`: the expanded object is validated as the object that declares its own entries followed
  by the entries of the (expanded) bases, under the merged additionalProperties (general: key shortcuts included;
  composition of the expansion theorem with `VK.C03_key_shortcuts`).
* `allOf_semantics_conj` (plain keys): the members of a document are accepted iff they meet the own property
  requirements AND the property requirements of every base, and additionalProperties accepts every member that
  none of them names.
-/
namespace AOK
open VN (J)
variable {L D : Type}

/-! ### `plainOf`, `shortsOf` over concatenation -/

theorem plainOf_append (a b : List (String × Bool × Bool × CS L)) : plainOf (a ++ b) = plainOf a ++ plainOf b := by
  induction a with
  | nil => rfl
  | cons e a ih =>
    obtain ⟨k, sh, r, v⟩ := e
    cases sh <;> simp [plainOf, ih]

theorem shortsOf_append (a b : List (String × Bool × Bool × CS L)) : shortsOf (a ++ b) = shortsOf a ++ shortsOf b := by
  induction a with
  | nil => rfl
  | cons e a ih =>
    obtain ⟨k, sh, r, v⟩ := e
    cases sh <;> simp [shortsOf, ih]

theorem plainOf_flatMap (bs : List (CS L)) :
    plainOf (bs.flatMap entsOf) = bs.flatMap (fun b => plainOf (entsOf b)) := by
  induction bs with
  | nil => rfl
  | cons b bs ih => simp [List.flatMap_cons, plainOf_append, ih]

theorem shortsOf_flatMap (bs : List (CS L)) :
    shortsOf (bs.flatMap entsOf) = bs.flatMap (fun b => shortsOf (entsOf b)) := by
  induction bs with
  | nil => rfl
  | cons b bs ih => simp [List.flatMap_cons, shortsOf_append, ih]

theorem mem_plainOf_keys (ents : List (String × Bool × Bool × CS L)) (k : String) :
    k ∈ (plainOf ents).map (·.1) ↔ (k, false) ∈ ents.map keyOf := by
  induction ents with
  | nil => simp [plainOf]
  | cons e es ih =>
    obtain ⟨k', sh, r, v⟩ := e
    cases sh
    · simp only [plainOf, Bool.false_eq_true, if_false, List.map_cons, List.mem_cons, ih, keyOf, Prod.mk.injEq, and_true]
    · simp only [plainOf, if_true, List.map_cons, List.mem_cons, ih, keyOf, Prod.mk.injEq, Bool.false_eq_true, and_false, false_or]

theorem nodup_plainOf_keys (ents : List (String × Bool × Bool × CS L)) (h : (ents.map keyOf).Nodup) :
    ((plainOf ents).map (·.1)).Nodup := by
  induction ents with
  | nil => simp [plainOf]
  | cons e es ih =>
    obtain ⟨k', sh, r, v⟩ := e
    simp only [List.map_cons, List.nodup_cons] at h
    cases sh
    · simp only [plainOf, Bool.false_eq_true, if_false, List.map_cons, List.nodup_cons]
      exact ⟨fun hm => h.1 ((mem_plainOf_keys es k').1 hm), ih h.2⟩
    · simpa [plainOf] using ih h.2

theorem shortsOf_nil_of_plain (ents : List (String × Bool × Bool × CS L)) (h : ∀ e ∈ ents, e.2.1 = false) :
    shortsOf ents = [] := by
  induction ents with
  | nil => rfl
  | cons e es ih =>
    obtain ⟨k', sh, r, v⟩ := e
    have : sh = false := h _ (List.mem_cons_self ..)
    subst this
    simpa [shortsOf] using ih (fun e he => h e (List.mem_cons_of_mem _ he))

/-! ### `VK.lookup` over concatenation -/

theorem lookup_append (A B : List (String × Bool × VK.S L)) (k : String) :
    VK.lookup (A ++ B) k = match VK.lookup A k with | some s => some s | none => VK.lookup B k := by
  unfold VK.lookup
  rw [List.find?_append]
  cases List.find? (fun p => p.1 == k) A <;> simp

theorem lookup_some_mem (A : List (String × Bool × VK.S L)) (k : String) (s : VK.S L) (h : VK.lookup A k = some s) :
    k ∈ A.map (·.1) := by
  simp only [VK.lookup, Option.map_eq_some_iff] at h
  obtain ⟨e, he, _⟩ := h
  have h1 := List.mem_of_find?_eq_some he
  have h2 := List.find?_some he
  simp only [beq_iff_eq] at h2
  exact List.mem_map.2 ⟨e, h1, h2⟩

theorem lookup_none_of_not_mem (A : List (String × Bool × VK.S L)) (k : String) (h : k ∉ A.map (·.1)) :
    VK.lookup A k = none := by
  cases hl : VK.lookup A k with
  | none => rfl
  | some s => exact absurd (lookup_some_mem A k s hl) h

theorem lookup_append_some_iff (A B : List (String × Bool × VK.S L)) (k : String) (s : VK.S L)
    (hd : ∀ x ∈ B.map (·.1), x ∉ A.map (·.1)) :
    VK.lookup (A ++ B) k = some s ↔ VK.lookup A k = some s ∨ VK.lookup B k = some s := by
  rw [lookup_append]
  cases hA : VK.lookup A k with
  | none => simp
  | some a =>
    simp only [Option.some.injEq]
    constructor
    · exact Or.inl
    · rintro (h | h)
      · exact h
      · exact absurd (lookup_some_mem A k a hA) (hd k (lookup_some_mem B k s h))

theorem lookup_append_none_iff (A B : List (String × Bool × VK.S L)) (k : String) :
    VK.lookup (A ++ B) k = none ↔ VK.lookup A k = none ∧ VK.lookup B k = none := by
  rw [lookup_append]
  cases VK.lookup A k <;> simp

theorem lookup_flatMap_some_iff {β : Type} (g : β → List (String × Bool × VK.S L)) (k : String) (s : VK.S L) :
    ∀ (bs : List β), ((bs.flatMap g).map (·.1)).Nodup →
      (VK.lookup (bs.flatMap g) k = some s ↔ ∃ b ∈ bs, VK.lookup (g b) k = some s) := by
  intro bs
  induction bs with
  | nil => intro _; simp [VK.lookup]
  | cons b bs ih =>
    intro hn
    simp only [List.flatMap_cons, List.map_append, List.nodup_append] at hn
    obtain ⟨_, h2, h3⟩ := hn
    simp only [List.flatMap_cons]
    rw [lookup_append_some_iff _ _ _ _ (fun x hx hx' => h3 x hx' x hx rfl), ih h2]
    simp

theorem lookup_flatMap_none_iff {β : Type} (g : β → List (String × Bool × VK.S L)) (k : String) :
    ∀ (bs : List β), VK.lookup (bs.flatMap g) k = none ↔ ∀ b ∈ bs, VK.lookup (g b) k = none := by
  intro bs
  induction bs with
  | nil => simp [VK.lookup]
  | cons b bs ih => simp only [List.flatMap_cons, lookup_append_none_iff, ih]; simp

theorem requiredKeys_append (A B : List (String × Bool × VK.S L)) :
    VK.requiredKeys (A ++ B) = VK.requiredKeys A ++ VK.requiredKeys B := by
  simp [VK.requiredKeys]

theorem mem_requiredKeys_flatMap {β : Type} (g : β → List (String × Bool × VK.S L)) (k : String) (bs : List β) :
    k ∈ VK.requiredKeys (bs.flatMap g) ↔ ∃ b ∈ bs, k ∈ VK.requiredKeys (g b) := by
  induction bs with
  | nil => simp [VK.requiredKeys]
  | cons b bs ih => simp only [List.flatMap_cons, requiredKeys_append, List.mem_append, ih]; simp

/-! ### the spec: property requirements as a conjunction -/

/-- the members `ms` of a document meet the property requirements `props` (plain keys): the value of every
member whose key `props` names is accepted by that property (`VK.shape`: the union over the alternatives of the
position), and every required key is present -/
def Meets (env : VK.Env L) (litOK : L → D → Bool) (keyOK : String → String → Bool)
    (props : List (String × Bool × VK.S L)) (ms : List (String × J D)) : Prop :=
  (∀ m ∈ ms, ∀ s, VK.lookup props m.1 = some s → VK.shape env litOK keyOK s m.2 = true) ∧
  (∀ k ∈ VK.requiredKeys props, ∃ m ∈ ms, m.1 = k)

/-- additionalProperties accepts the value `v` of a key nobody names: forbidden, anything, a JSON kind, or a
user type (`VK.shape` of the reference) -/
def AddAccepts (env : VK.Env L) (litOK : L → D → Bool) (keyOK : String → String → Bool) (add : VK.AddMode L) (v : J D) : Bool :=
  VK.addDecide litOK add v (fun n => VK.shape env litOK keyOK (.ref [n] none) v)

theorem alts_obj (env : VK.Env L) (p s : List (String × Bool × VK.S L)) (a : VK.AddMode L) :
    VK.alts env (.obj p s a) = [.obj p s a] := by
  simp [VK.alts, VK.build]

/-- an object without key shortcuts: members in any order, every one decided by its property or by
additionalProperties, and the required keys present -/
theorem shapeMembers_plain (env : VK.Env L) (litOK : L → D → Bool) (keyOK : String → String → Bool)
    (props : List (String × Bool × VK.S L)) (add : VK.AddMode L) :
    ∀ (ms : List (String × J D)) (req used : List String),
    VK.shapeMembers env litOK keyOK props [] add req used ms = true ↔
      (∀ m ∈ ms, match VK.lookup props m.1 with
          | some s => VK.shape env litOK keyOK s m.2 = true
          | none => AddAccepts env litOK keyOK add m.2 = true) ∧
      (∀ k ∈ req, ∃ m ∈ ms, m.1 = k) := by
  intro ms
  induction ms with
  | nil =>
    intro req used
    simp only [VK.shapeMembers]
    constructor
    · intro h
      have : req = [] := List.isEmpty_iff.1 h
      subst this
      exact ⟨fun m hm => absurd hm (List.not_mem_nil), fun k hk => absurd hk (List.not_mem_nil)⟩
    · rintro ⟨_, h⟩
      cases req with
      | nil => rfl
      | cons r rs =>
        obtain ⟨m, hm, _⟩ := h r (List.mem_cons_self ..)
        exact absurd hm (List.not_mem_nil)
  | cons m ms ih =>
    intro req used
    obtain ⟨k, v⟩ := m
    have hreq : (∀ k' ∈ req.filter (· != k), ∃ m ∈ ms, m.1 = k') ↔ (∀ k' ∈ req, ∃ m ∈ (k, v) :: ms, m.1 = k') := by
      constructor
      · intro h k' hk'
        by_cases hkk : k' = k
        · exact ⟨(k, v), List.mem_cons_self .., hkk.symm⟩
        · obtain ⟨m, hm, hmk⟩ := h k' (List.mem_filter.2 ⟨hk', by simpa using hkk⟩)
          exact ⟨m, List.mem_cons_of_mem _ hm, hmk⟩
      · intro h k' hk'
        obtain ⟨hk1, hk2⟩ := List.mem_filter.1 hk'
        obtain ⟨m, hm, hmk⟩ := h k' hk1
        rcases List.mem_cons.1 hm with rfl | hm
        · simp at hk2; exact absurd hmk.symm hk2
        · exact ⟨m, hm, hmk⟩
    simp only [VK.shapeMembers]
    cases hl : VK.lookup props k with
    | some s =>
      simp only [Bool.and_eq_true, ih, hreq, List.forall_mem_cons, hl]
      constructor
      · rintro ⟨h1, h2, h3⟩; exact ⟨⟨h1, h2⟩, h3⟩
      · rintro ⟨⟨h1, h2⟩, h3⟩; exact ⟨h1, h2, h3⟩
    | none =>
      simp only [VK.pickShort, List.find?_nil, Bool.and_eq_true, ih, hreq, List.forall_mem_cons, hl]
      constructor
      · rintro ⟨h1, h2, h3⟩; exact ⟨⟨h1, h2⟩, h3⟩
      · rintro ⟨⟨h1, h2⟩, h3⟩; exact ⟨h1, h2, h3⟩

section
variable [DecidableEq L]

/-- **general form** (key shortcuts included): the validator on the expanded object is the validator on the
object that declares the own entries followed by the entries of the expanded bases, in `allOf` order, under the
first additionalProperties constraint present -/
theorem allOf_semantics (envV : VK.Env L) (litOK : L → D → Bool) (keyOK : String → String → Bool)
    (pt : String → Except Err (CS L)) (ents : List (String × Bool × Bool × PS L)) (add : Option (AP L))
    (names : List String) (c : CS L) (bases : List (CS L)) (own : List (String × Bool × Bool × CS L))
    (hc : compileWith pt (.obj ents add (some names)) = .ok c)
    (hr : Resolves pt names bases) (ho : compileEnts pt ents = .ok own) (d : J D) :
    VK.validateT envV litOK keyOK (toVK c) d =
      VK.shape envV litOK keyOK
        (.obj (plainOf own ++ bases.flatMap (fun b => plainOf (entsOf b)))
              (shortsOf own ++ bases.flatMap (fun b => shortsOf (entsOf b)))
              (modeOf (firstAdd (add :: bases.map addOf)))) d := by
  obtain ⟨_, bases', own', hr', _, ho', _, _, rfl⟩ := (compileWith_obj_ok_iff pt ents add names c).1 hc
  have := resolves_unique pt names _ _ hr hr'; subst this
  rw [ho] at ho'; cases ho'
  rw [VK.C03_key_shortcuts]
  simp only [toVK, plainOf_append, shortsOf_append, plainOf_flatMap, shortsOf_flatMap]

/-- **conjunction form** (no key shortcut among the own and inherited entries): the expanded object accepts
an object document iff its members meet the own property requirements and the property requirements of every
base, and the merged additionalProperties accepts every member that neither the object nor a base names -/
theorem allOf_semantics_conj (envV : VK.Env L) (litOK : L → D → Bool) (keyOK : String → String → Bool)
    (pt : String → Except Err (CS L)) (ents : List (String × Bool × Bool × PS L)) (add : Option (AP L))
    (names : List String) (c : CS L) (bases : List (CS L)) (own : List (String × Bool × Bool × CS L))
    (hc : compileWith pt (.obj ents add (some names)) = .ok c)
    (hr : Resolves pt names bases) (ho : compileEnts pt ents = .ok own)
    (hplain : ∀ e ∈ entsOf c, e.2.1 = false) (ms : List (String × J D)) :
    VK.validateT envV litOK keyOK (toVK c) (.obj ms) = true ↔
      Meets envV litOK keyOK (plainOf own) ms ∧
      (∀ b ∈ bases, Meets envV litOK keyOK (plainOf (entsOf b)) ms) ∧
      (∀ m ∈ ms, VK.lookup (plainOf own) m.1 = none → (∀ b ∈ bases, VK.lookup (plainOf (entsOf b)) m.1 = none) →
        AddAccepts envV litOK keyOK (modeOf (firstAdd (add :: bases.map addOf))) m.2 = true) := by
  obtain ⟨_, bases', own', hr', _, ho', hfresh, _, hceq⟩ := (compileWith_obj_ok_iff pt ents add names c).1 hc
  have := resolves_unique pt names _ _ hr hr'; subst this
  rw [ho] at ho'; cases ho'
  subst hceq
  simp only [entsOf] at hplain
  have hshorts : shortsOf (own ++ bases.flatMap entsOf) = [] := shortsOf_nil_of_plain _ hplain
  obtain ⟨hkeys, _⟩ := compileEnts_shape pt ents own ho
  -- key facts: the plain keys of the bases are pairwise distinct, and none of them is an own key
  have hnd : ((bases.flatMap (fun b => plainOf (entsOf b))).map (·.1)).Nodup := by
    rw [← plainOf_flatMap]
    apply nodup_plainOf_keys
    have : (bases.flatMap entsOf).map keyOf = bases.flatMap keysOf := by
      simp only [List.map_flatMap]; rfl
    rw [this]; exact hfresh.2
  have hdisj : ∀ x ∈ (bases.flatMap (fun b => plainOf (entsOf b))).map (·.1), x ∉ (plainOf own).map (·.1) := by
    intro x hx hx'
    rw [← plainOf_flatMap, mem_plainOf_keys] at hx
    rw [mem_plainOf_keys, hkeys] at hx'
    have : (bases.flatMap entsOf).map keyOf = bases.flatMap keysOf := by
      simp only [List.map_flatMap]; rfl
    rw [this] at hx
    exact hfresh.1 _ hx hx'
  rw [VK.C03_key_shortcuts]
  simp only [toVK, VK.shape, alts_obj, List.any_cons, List.any_nil, Bool.or_false, VK.shapeA, hshorts,
    VK.requiredKeys, List.filter_nil, List.map_nil, List.append_nil]
  rw [shapeMembers_plain, plainOf_append, plainOf_flatMap]
  simp only [Meets]
  constructor
  · rintro ⟨h1, h2⟩
    refine ⟨⟨?_, ?_⟩, ?_, ?_⟩
    · intro m hm s hs
      have := h1 m hm
      rw [(lookup_append_some_iff _ _ m.1 s hdisj).2 (Or.inl hs)] at this
      exact this
    · intro k hk
      exact h2 k (by
        have : k ∈ VK.requiredKeys (plainOf own ++ bases.flatMap fun b => plainOf (entsOf b)) := by
          rw [requiredKeys_append]; exact List.mem_append_left _ hk
        simpa [VK.requiredKeys] using this)
    · intro b hb
      refine ⟨?_, ?_⟩
      · intro m hm s hs
        have := h1 m hm
        rw [(lookup_append_some_iff _ _ m.1 s hdisj).2
          (Or.inr ((lookup_flatMap_some_iff _ m.1 s bases hnd).2 ⟨b, hb, hs⟩))] at this
        exact this
      · intro k hk
        exact h2 k (by
          have : k ∈ VK.requiredKeys (plainOf own ++ bases.flatMap fun b => plainOf (entsOf b)) := by
            rw [requiredKeys_append]
            exact List.mem_append_right _ ((mem_requiredKeys_flatMap _ k bases).2 ⟨b, hb, hk⟩)
          simpa [VK.requiredKeys] using this)
    · intro m hm hn1 hn2
      have := h1 m hm
      rw [(lookup_append_none_iff _ _ m.1).2 ⟨hn1, (lookup_flatMap_none_iff _ m.1 bases).2 hn2⟩] at this
      exact this
  · rintro ⟨⟨ho1, ho2⟩, hb, hadd⟩
    refine ⟨?_, ?_⟩
    · intro m hm
      cases hl : VK.lookup (plainOf own ++ bases.flatMap fun b => plainOf (entsOf b)) m.1 with
      | some s =>
        rcases (lookup_append_some_iff _ _ m.1 s hdisj).1 hl with h | h
        · exact ho1 m hm s h
        · obtain ⟨b, hbm, hs⟩ := (lookup_flatMap_some_iff _ m.1 s bases hnd).1 h
          exact (hb b hbm).1 m hm s hs
      | none =>
        obtain ⟨hn1, hn2⟩ := (lookup_append_none_iff _ _ m.1).1 hl
        exact hadd m hm hn1 ((lookup_flatMap_none_iff _ m.1 bases).1 hn2)
    · intro k hk
      have : k ∈ VK.requiredKeys (plainOf own ++ bases.flatMap fun b => plainOf (entsOf b)) := by
        simpa [VK.requiredKeys] using hk
      rw [requiredKeys_append] at this
      rcases List.mem_append.1 this with h | h
      · exact ho2 k h
      · obtain ⟨b, hbm, hkb⟩ := (mem_requiredKeys_flatMap _ k bases).1 h
        exact (hb b hbm).2 k hkb

end

end AOK
