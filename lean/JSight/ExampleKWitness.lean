import JSight.ExampleKProofs
/-!
C15: the FULL self-validation statement is false for the library, and the model agrees with the library on the
recorded witnesses: the builder model emits exactly the text the real `Example()` returns, and the validator model
rejects it, as the real `Validate` does.

* K-C15-reqcut — `@t = {"a": @u // {optional: true}}`, `@u = {"b": @t}`, root `@t`: `{"a":{"b":{"a":{}}}}`.
* K-C15-arraycut — `@t = [@t // {nullable: true}, 1]`, root `[@t]`: `[[[1],1]]`.
* K-C15-keyclash — `{"a": 1, @K: null}` with `@K = "a"`: `{"a":1,"a":null}` (the key type's example is also a
  literal key of the object) is rejected.
-/
namespace VK.Witness
open JsonScan (Cls JA)
open VN (J)

/-- literals are named by their text; a value passes a literal's rules when it is that text -/
def litOK (l d : String) : Bool := l == d

def wTok (s : String) : List Cls :=
  if s == "a" then [.quote, .la, .quote] else if s == "b" then [.quote, .lb, .quote]
  else if s == "1" then [.d19] else [.ln, .lu, .ll, .ll]

theorem checkedEnv_of_all (env : Env String) (h : env.all (fun p => checkedS litOK id p.2) = true) :
    CheckedEnv env litOK id := by
  intro n t hl
  unfold lookupT at hl
  cases hf : env.find? (·.1 == n) with
  | none => rw [hf] at hl; simp at hl
  | some p =>
    rw [hf] at hl; simp at hl; subst hl
    exact List.all_eq_true.1 h p (List.mem_of_find?_eq_some hf)

theorem keyLink (env : Env String) : KeyLink env litOK (fun _ _ => true) id id := by
  intro K l _; simp [litOK]

theorem keyTokLink (env : Env String) : KeyTokLink wTok wTok env id id := fun _ _ _ => rfl

/-! ### K-C15-reqcut -/

def envReq : Env String :=
  [("t", .obj [("a", false, .ref ["u"] none)] [] .none), ("u", .obj [("b", true, .ref ["t"] none)] [] .none)]

def docReq : J String := .obj [("a", .obj [("b", .obj [("a", .obj [])])])]

theorem reqcut_emitted :
    EXK.build (tsOfK wTok wTok id envReq) 8 (fun _ => 0) (ofK wTok wTok id (.ref ["t"] none))
      = some (some (VR.jaOfN wTok wTok docReq).render) := by
  simp [EXK.build, EXK.buildProps, EXK.buildKey, EXK.lookupT, tsOfK, ofK, ofKProps, ofKShorts, envReq, EX.bump, EX.joinC,
    docReq, VR.jaOfN, VR.jaMembersN, JA.render, JsonScan.renderMembers, wTok]

theorem reqcut_rejected : validateT envReq litOK (fun _ _ => true) (.ref ["t"] none) docReq = false := by
  rw [C03_key_shortcuts]
  decide

theorem envReq_checked : CheckedEnv envReq litOK id := checkedEnv_of_all envReq (by decide)

/-- the replay says so: the cut-off is consumed at the REQUIRED property `b` -/
theorem reqcut_outside (strict : Bool) : exDoc envReq id id strict 8 (fun _ => 0) (.ref ["t"] none) = none := by
  simp [exDoc, exProps, exShorts, lookupT, envReq, bump]

/-! ### K-C15-arraycut -/

def envArr : Env String := [("t", .arr [.ref ["t"] (some "null"), .lit "1"])]

def docArr : J String := .arr [.arr [.arr [.lit "1"], .lit "1"]]

theorem arraycut_emitted :
    EXK.build (tsOfK wTok wTok id envArr) 8 (fun _ => 0) (ofK wTok wTok id (.arr [.ref ["t"] none]))
      = some (some (VR.jaOfN wTok wTok docArr).render) := by
  simp [EXK.build, EXK.buildKids, EXK.lookupT, tsOfK, ofK, ofKItems, envArr, EX.bump, EX.joinC,
    docArr, VR.jaOfN, VR.jaItemsN, JA.render, JsonScan.renderItems, wTok]

theorem arraycut_rejected : validateT envArr litOK (fun _ _ => true) (.arr [.ref ["t"] none]) docArr = false := by
  rw [C03_key_shortcuts]
  decide

theorem envArr_checked : CheckedEnv envArr litOK id := checkedEnv_of_all envArr (by decide)

/-! ### a key shortcut whose type example is also a literal key of the object -/

def envKey : Env String := [("K", .lit "a")]

def schemaKey : S String := .obj [("a", true, .lit "1")] [("K", true, .lit "null")] .none

def docKey : J String := .obj [("a", .lit "1"), ("a", .lit "null")]

theorem keyclash_emitted :
    EXK.build (tsOfK wTok wTok id envKey) 8 (fun _ => 0) (ofK wTok wTok id schemaKey)
      = some (some (VR.jaOfN wTok wTok docKey).render) := by
  simp [EXK.build, EXK.buildProps, EXK.buildKey, EXK.lookupT, tsOfK, ofK, ofKProps, ofKShorts, envKey, schemaKey,
    EX.joinC, docKey, VR.jaOfN, VR.jaMembersN, JA.render, JsonScan.renderMembers, wTok]

theorem keyclash_rejected : validateT envKey litOK (fun _ _ => true) schemaKey docKey = false := by
  rw [C03_key_shortcuts]
  decide

theorem envKey_checked : CheckedEnv envKey litOK id := checkedEnv_of_all envKey (by decide)

/-! ### the full statement and its negation -/

/-- the property as its text reads, on the model: whatever a checked schema's builder emits, its validator accepts -/
def SelfValidFull : Prop :=
  ∀ (L D : Type) (env : Env L) (litOK : L → D → Bool) (keyOK : String → String → Bool) (ex : L → D) (keyStr : D → String)
    (tok : D → List Cls) (keyTok : String → List Cls),
    CheckedEnv env litOK ex → KeyLink env litOK keyOK ex keyStr → KeyTokLink tok keyTok env ex keyStr →
    ∀ (fuel : Nat) (s : S L), checkedS litOK ex s = true → ∀ d : J D,
      EXK.build (tsOfK tok keyTok ex env) fuel (fun _ => 0) (ofK tok keyTok ex s)
        = some (some (VR.jaOfN tok keyTok d).render) →
      validateT env litOK keyOK s d = true

theorem selfValidFull_false_reqcut : ¬ SelfValidFull := by
  intro h
  have := h String String envReq litOK (fun _ _ => true) id id wTok wTok envReq_checked (keyLink _) (keyTokLink _)
    8 (.ref ["t"] none) rfl docReq reqcut_emitted
  rw [reqcut_rejected] at this
  exact absurd this (by simp)

theorem selfValidFull_false_arraycut : ¬ SelfValidFull := by
  intro h
  have := h String String envArr litOK (fun _ _ => true) id id wTok wTok envArr_checked (keyLink _) (keyTokLink _)
    8 (.arr [.ref ["t"] none]) rfl docArr arraycut_emitted
  rw [arraycut_rejected] at this
  exact absurd this (by simp)

theorem selfValidFull_false_keyclash : ¬ SelfValidFull := by
  intro h
  have := h String String envKey litOK (fun _ _ => true) id id wTok wTok envKey_checked (keyLink _) (keyTokLink _)
    8 schemaKey (by decide) docKey keyclash_emitted
  rw [keyclash_rejected] at this
  exact absurd this (by simp)

/-! ### non-vacuity of the positive theorems: optional recursion, a key shortcut, an omitted array suffix -/

/-- `@t = {"a": 1, "t": @t // {optional: true}}`: the cut-off falls on the optional property -/
def envOpt : Env String := [("t", .obj [("a", true, .lit "1"), ("t", false, .ref ["t"] none)] [] .none)]

theorem optcut_inside : exDoc envOpt id id true 8 (fun _ => 0) (.ref ["t"] none)
    = some (some (.obj [("a", .lit "1"), ("t", .obj [("a", .lit "1")])])) := by
  simp [exDoc, exProps, exShorts, lookupT, envOpt, bump]

theorem envOpt_checked : CheckedEnv envOpt litOK id := checkedEnv_of_all envOpt (by decide)

/-- `{"b": 1, @K: [@t]}` with `@K = "a"`, `@t = [@t]`: a key shortcut, and an omitted last array element -/
def envMix : Env String := [("K", .lit "a"), ("t", .arr [.ref ["t"] none])]

def schemaMix : S String := .obj [("b", true, .lit "1")] [("K", true, .arr [.ref ["t"] none])] .none

theorem mix_inside : exDoc envMix id id false 8 (fun _ => 0) schemaMix
    = some (some (.obj [("b", .lit "1"), ("a", .arr [.arr [.arr []]])])) := by
  simp [exDoc, exProps, exShorts, exItems, lookupT, litOf, envMix, schemaMix, bump]

theorem envMix_checked : CheckedEnv envMix litOK id := checkedEnv_of_all envMix (by decide)

#print axioms selfValidFull_false_reqcut
#print axioms selfValidFull_false_arraycut
#print axioms selfValidFull_false_keyclash

end VK.Witness
