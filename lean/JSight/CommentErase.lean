import JSight.CommentLoad
/-!
C13, user comments: erasing them. `BTree.erase` replaces every comment of the layout by what remains of it for the
scanner — the terminating line break of a `#` comment, nothing for a `## … ###` block. The text with comments and
the erased text deliver the same lexical events up to `newLine` events and spans (`comments_events`), and load into
the same table (`comments_erased`).
-/
namespace Lay
open SchemaScan

def LI.erase : LI → List LI
  | .blank b => [.blank b]
  | .line _ nl => [.blank nl]
  | .block _ => []

def eraseL : List LI → List LI
  | [] => []
  | it :: w => it.erase ++ eraseL w

mutual
/-- every comment replaced by what remains of it: its line break (`#`), nothing (`###`) -/
def BTree.erase : BTree → BTree
  | .scalar tok => .scalar tok
  | .arr w0 its => .arr (eraseL w0) (eraseItems its)
  | .obj w0 ms => .obj (eraseL w0) (eraseMembers ms)
def eraseItems : List BItem → List BItem
  | [] => []
  | (w1, v, w2) :: its => (eraseL w1, v.erase, eraseL w2) :: eraseItems its
def eraseMembers : List BMember → List BMember
  | [] => []
  | (w1, k, w2, w3, v, w4) :: ms => (eraseL w1, k, eraseL w2, eraseL w3, v.erase, eraseL w4) :: eraseMembers ms
end

mutual
theorem erase_value : (t : BTree) → t.erase.value = t.value
  | .scalar _ => rfl
  | .arr _ its => by simp only [BTree.erase, BTree.value, eraseItems_value its]
  | .obj _ ms => by simp only [BTree.erase, BTree.value, eraseMembers_value ms]
theorem eraseItems_value : (its : List BItem) → valueItems (eraseItems its) = valueItems its
  | [] => rfl
  | (_, v, _) :: its => by simp only [eraseItems, valueItems, erase_value v, eraseItems_value its]
theorem eraseMembers_value : (ms : List BMember) → valueMembers (eraseMembers ms) = valueMembers ms
  | [] => rfl
  | (_, _, _, _, v, _) :: ms => by simp only [eraseMembers, valueMembers, erase_value v, eraseMembers_value ms]
end

theorem eraseL_blank : ∀ (w : List LI), ValidL w → BlankL (eraseL w)
  | [], _ => ⟨by simp [eraseL, ValidL], by simp [eraseL, PlainL]⟩
  | it :: w, hv => by
    have ih := eraseL_blank w (fun x hx => hv x (by simp [hx]))
    have hi := hv it (by simp)
    cases it with
    | blank b => exact blankL_cons.2 ⟨⟨hi, rfl⟩, ih⟩
    | line text nl =>
      obtain ⟨_, _, hnl⟩ := hi
      refine blankL_cons.2 ⟨⟨?_, rfl⟩, ih⟩
      simp only [isNlB, Bool.or_eq_true, beq_iff_eq] at hnl
      rcases hnl with rfl | rfl <;> rfl
    | block body => exact ih

mutual
theorem erase_valid : (t : BTree) → t.Valid → t.erase.Valid ∧ t.erase.Plain
  | .scalar tok, hv => ⟨hv, by simp [BTree.erase, BTree.Plain]⟩
  | .arr w0 its, hv => by
    obtain ⟨h0, hi⟩ : ValidL w0 ∧ ValidItems its := by simpa [BTree.Valid] using hv
    obtain ⟨a, b⟩ := eraseL_blank w0 h0
    obtain ⟨c, d⟩ := eraseItems_valid its hi
    exact ⟨by simpa [BTree.erase, BTree.Valid] using And.intro a c,
      by simpa [BTree.erase, BTree.Plain] using And.intro b d⟩
  | .obj w0 ms, hv => by
    obtain ⟨h0, hi⟩ : ValidL w0 ∧ ValidMembers ms := by simpa [BTree.Valid] using hv
    obtain ⟨a, b⟩ := eraseL_blank w0 h0
    obtain ⟨c, d⟩ := eraseMembers_valid ms hi
    exact ⟨by simpa [BTree.erase, BTree.Valid] using And.intro a c,
      by simpa [BTree.erase, BTree.Plain] using And.intro b d⟩
theorem eraseItems_valid : (its : List BItem) → ValidItems its →
    ValidItems (eraseItems its) ∧ PlainItems (eraseItems its)
  | [], _ => ⟨by simp [eraseItems, ValidItems], by simp [eraseItems, PlainItems]⟩
  | (w1, v, w2) :: its, hv => by
    obtain ⟨h1, hvv, h2, hits⟩ : ValidL w1 ∧ v.Valid ∧ ValidL w2 ∧ ValidItems its := by simpa [ValidItems] using hv
    obtain ⟨a1, b1⟩ := eraseL_blank w1 h1
    obtain ⟨a2, b2⟩ := eraseL_blank w2 h2
    obtain ⟨c, d⟩ := erase_valid v hvv
    obtain ⟨e, f⟩ := eraseItems_valid its hits
    exact ⟨by simpa [eraseItems, ValidItems] using And.intro a1 (And.intro c (And.intro a2 e)),
      by simpa [eraseItems, PlainItems] using And.intro b1 (And.intro d (And.intro b2 f))⟩
theorem eraseMembers_valid : (ms : List BMember) → ValidMembers ms →
    ValidMembers (eraseMembers ms) ∧ PlainMembers (eraseMembers ms)
  | [], _ => ⟨by simp [eraseMembers, ValidMembers], by simp [eraseMembers, PlainMembers]⟩
  | (w1, k, w2, w3, v, w4) :: ms, hv => by
    obtain ⟨h1, hk, ⟨h2, _⟩, ⟨h3, _⟩, hvv, h4, hms⟩ :
        ValidL w1 ∧ IsKey (k.map classify) ∧ (ValidL w2 ∧ PlainL w2) ∧ (ValidL w3 ∧ PlainL w3) ∧ v.Valid ∧
          ValidL w4 ∧ ValidMembers ms := by
      simpa [ValidMembers] using hv
    obtain ⟨a1, b1⟩ := eraseL_blank w1 h1
    have c2 : ValidL (eraseL w2) ∧ PlainL (eraseL w2) := eraseL_blank w2 h2
    have c3 : ValidL (eraseL w3) ∧ PlainL (eraseL w3) := eraseL_blank w3 h3
    obtain ⟨a4, b4⟩ := eraseL_blank w4 h4
    obtain ⟨c, d⟩ := erase_valid v hvv
    obtain ⟨e, f⟩ := eraseMembers_valid ms hms
    exact ⟨by simpa [eraseMembers, ValidMembers] using And.intro a1 (And.intro hk (And.intro c2 (And.intro c3
        (And.intro c (And.intro a4 e))))),
      by simpa [eraseMembers, PlainMembers] using And.intro b1 (And.intro d (And.intro b4 f))⟩
end

/-- **the text with comments and the text with the comments erased load into the same table** -/
theorem comments_erased (t : BTree) (hv : t.Valid) (hk : t.value.KeysNodup) (w0 w1 : List LI)
    (h0 : ValidL w0) (h1 : ValidL w1) (fin : List UInt8) (hf : IsFin fin) :
    ∃ st st', Loader.loadText (docTextF w0 t w1 fin) = .ok st ∧
      Loader.loadText (docText (eraseL w0) t.erase (eraseL w1)) = .ok st' ∧ st.root = st'.root ∧
      absTable (docTextF w0 t w1 fin).toArray st = absTable (docText (eraseL w0) t.erase (eraseL w1)).toArray st' := by
  have := comments_invisible t t.erase hv (erase_valid t hv).1 (erase_value t).symm hk w0 w1 (eraseL w0) (eraseL w1)
    h0 h1 (eraseL_blank w0 h0).1 (eraseL_blank w1 h1).1 fin [] hf (Or.inl rfl)
  rw [docTextF_nil] at this
  exact this

/-! ### the events, `newLine` events and spans aside -/

def notNL (e : Ev) : Bool := e.ty != .newLine

mutual
/-- the event types a value denotes -/
def JV.tys : JV → List LexT
  | .lit _ => [.litB, .litE]
  | .arr its => .arrB :: tysItems its
  | .obj ms => .objB :: tysMembers ms
def tysItems : List JV → List LexT
  | [] => [.arrE]
  | v :: its => .itemB :: (v.tys ++ (.itemE :: tysItems its))
def tysMembers : List (List UInt8 × JV) → List LexT
  | [] => [.objE]
  | (_, v) :: ms => .keyB :: .keyE :: .valB :: (v.tys ++ (.valE :: tysMembers ms))
end

/-- an event stream with the `newLine` events dropped and the spans forgotten -/
def strip (evs : List Ev) : List LexT := (evs.filter notNL).map (·.ty)

theorem strip_nil : strip [] = [] := rfl

theorem strip_cons (ty : LexT) (b e : Nat) (l : List Ev) :
    strip (⟨ty, b, e⟩ :: l) = if ty = .newLine then strip l else ty :: strip l := by
  by_cases h : ty = .newLine
  · subst h
    have hn : notNL ⟨.newLine, b, e⟩ = false := rfl
    simp [strip, hn]
  · have hn : notNL ⟨ty, b, e⟩ = true := by simp [notNL, h]
    simp [strip, hn, h]

theorem strip_append (a b : List Ev) : strip (a ++ b) = strip a ++ strip b := by
  simp [strip, List.filter_append]

theorem strip_layEvs : ∀ (o : Nat) (w : List LI), strip (layEvs o w) = []
  | _, [] => rfl
  | o, it :: w => by
    have ih := strip_layEvs (o + it.render.length) w
    cases it with
    | blank b =>
      simp only [layEvs, LI.evs, strip_append, ih, List.append_nil]
      split <;> simp [strip_cons, strip_nil]
    | line text nl => simp [layEvs, LI.evs, ih, strip_cons]
    | block body => simpa [layEvs, LI.evs] using ih

mutual
theorem cevs_tys : (t : BTree) → (o : Nat) → strip (cEvsAt o t) = t.value.tys
  | .scalar _, _ => by simp [cEvsAt, strip_cons, strip_nil, BTree.value, JV.tys]
  | .arr w0 its, o => by
    simp [cEvsAt, strip_cons, strip_append, strip_layEvs, BTree.value, JV.tys, citems_tys its o]
  | .obj w0 ms, o => by
    simp [cEvsAt, strip_cons, strip_append, strip_layEvs, BTree.value, JV.tys, cmembers_tys ms o]
theorem citems_tys : (its : List BItem) → (a o : Nat) → strip (cEvsItems a o its) = tysItems (valueItems its)
  | [], _, _ => by simp [cEvsItems, strip_cons, strip_nil, valueItems, tysItems]
  | (w1, v, w2) :: its, a, o => by
    simp [cEvsItems, strip_cons, strip_append, strip_layEvs, valueItems, tysItems, cevs_tys v, citems_tys its a]
theorem cmembers_tys : (ms : List BMember) → (a o : Nat) → strip (cEvsMembers a o ms) = tysMembers (valueMembers ms)
  | [], _, _ => by simp [cEvsMembers, strip_cons, strip_nil, valueMembers, tysMembers]
  | (w1, k, w2, w3, v, w4) :: ms, a, o => by
    simp [cEvsMembers, strip_cons, strip_append, strip_layEvs, valueMembers, tysMembers, cevs_tys v,
      cmembers_tys ms a]
end

theorem docEvs_tys (w0 : List LI) (t : BTree) (w1 : List LI) : strip (docEvs w0 t w1) = t.value.tys := by
  simp [docEvs, strip_append, strip_layEvs, cevs_tys]

/-- **same events**: the scanner model reads the text with comments and the erased text into event streams that
agree once `newLine` events are dropped and spans forgotten -/
theorem comments_events (t : BTree) (hv : t.Valid) (w0 w1 : List LI) (h0 : ValidL w0) (h1 : ValidL w1)
    (fin : List UInt8) (hf : IsFin fin) :
    ∃ evs evs', scanAll (docTextF w0 t w1 fin) = .ok evs ∧
      scanAll (docText (eraseL w0) t.erase (eraseL w1)) = .ok evs' ∧
      strip evs = strip evs' := by
  refine ⟨docEvs w0 t w1, docEvs (eraseL w0) t.erase (eraseL w1), C13_events_with_comments t hv w0 w1 h0 h1 fin hf, ?_, ?_⟩
  · rw [← docTextF_nil]
    exact C13_events_with_comments t.erase (erase_valid t hv).1 (eraseL w0) (eraseL w1) (eraseL_blank w0 h0).1
      (eraseL_blank w1 h1).1 [] (Or.inl rfl)
  · rw [docEvs_tys, docEvs_tys, erase_value]

end Lay
