import JSight.Sim
/-! C05, second half: with AllowTrailingNonSpaceCharacters the scanner accepts iff the text begins with
one complete JSON value, scanned greedily. -/
open JsonScan
namespace Sim
open Rfc (Ctx RSt RCfg Num)

/-- spec: run the recogniser until it cannot continue; accept iff a complete top-level value has been read -/
def runP : RCfg → List Cls → Bool
  | r, [] => Rfc.accepting r
  | r, c :: cs => match Rfc.step r c with
    | some r' => runP r' cs
    | none => Rfc.accepting r

def StepOKT (r : RCfg) (m : Cfg) (c : Cls) : Prop :=
    (∃ m' r', feed true m c = .ok (.cont m') ∧ Rfc.step r c = some r' ∧ R r' m') ∨
    (feed true m c = .ok .stop ∧ Rfc.step r c = none ∧ Rfc.accepting r = true) ∨
    (∃ ctx, feed true m c = .error (.invalidChar ctx) ∧ Rfc.step r c = none ∧ Rfc.accepting r = false)

macro "step_caseT" : tactic => `(tactic| first
  | (left; refine ⟨_, _, rfl, rfl, ?_⟩; close_R)
  | (right; left; exact ⟨rfl, rfl, rfl⟩)
  | (right; right; exact ⟨_, rfl, rfl, rfl⟩))

macro "lit_caseT" k:ident : tactic => `(tactic| first
  | step_caseT
  | (cases $k:ident with
     | nil => step_caseT
     | cons x k' => cases x <;> step_caseT))

theorem t_root (c) : StepOKT ⟨.value, []⟩ Cfg.init c := by unfold StepOKT; cases c <;> step_caseT
theorem t_valArr (k c) : StepOKT ⟨.value, .arr :: k⟩ (mk .arrItem (.arrB :: inside k) false) c := by unfold StepOKT; cases c <;> step_caseT
theorem t_valObj (k c) : StepOKT ⟨.value, .obj :: k⟩ (mk .objValue (.objB :: inside k) false) c := by unfold StepOKT; cases c <;> step_caseT
theorem t_arrFirst (k c) : StepOKT ⟨.arrFirst, .arr :: k⟩ (mk .arrItemOrEmpty (.arrB :: inside k) false) c := by unfold StepOKT; cases c <;> step_caseT
theorem t_objFirst (k c) : StepOKT ⟨.objFirst, .obj :: k⟩ (mk .objKeyOrEmpty (.objB :: inside k) false) c := by unfold StepOKT; cases c <;> step_caseT
theorem t_key (k c) : StepOKT ⟨.key, .obj :: k⟩ (mk .objKey (.objB :: inside k) false) c := by unfold StepOKT; cases c <;> step_caseT
theorem t_keyStr (k c) {st rst} (h : KeySt st rst) : StepOKT ⟨rst, .obj :: k⟩ (mk st (.keyB :: .objB :: inside k) false) c := by
  unfold StepOKT; cases h <;> cases c <;> step_caseT
theorem t_colonE (k c) : StepOKT ⟨.colon, .obj :: k⟩ (mk .endValue (.keyB :: .objB :: inside k) false) c := by unfold StepOKT; cases c <;> step_caseT
theorem t_colonA (k c) : StepOKT ⟨.colon, .obj :: k⟩ (mk .afterKey (.objB :: inside k) false) c := by unfold StepOKT; cases c <;> step_caseT
theorem t_afterLit (k c) : StepOKT ⟨.after, k⟩ (mk .endValue (.litB :: inside k) false) c := by
  unfold StepOKT; cases c <;> lit_caseT k
theorem t_afterCont (k c) : StepOKT ⟨.after, k⟩ (mk .endValue (inside k) false) c := by
  unfold StepOKT
  cases k with
  | nil => cases c <;> step_caseT
  | cons x k' => cases x <;> cases c <;> step_caseT
theorem t_afterItem (k c) : StepOKT ⟨.after, .arr :: k⟩ (mk .afterItem (.arrB :: inside k) false) c := by unfold StepOKT; cases c <;> step_caseT
theorem t_afterVal (k c) : StepOKT ⟨.after, .obj :: k⟩ (mk .afterValue (.objB :: inside k) false) c := by unfold StepOKT; cases c <;> step_caseT
theorem t_afterTop (c) : StepOKT ⟨.after, []⟩ (mk .endTop [] false) c := by unfold StepOKT; cases c <;> step_caseT

theorem t_lit_str (k c) {st unf rst} (h : LitSt st unf rst)
    (hs : st = .inString ∨ st = .esc ∨ st = .u0 ∨ st = .u1 ∨ st = .u2 ∨ st = .u3) :
    StepOKT ⟨rst, k⟩ (mk st (.litB :: inside k) unf) c := by
  unfold StepOKT; cases h <;> simp at hs <;> cases c <;> step_caseT
theorem t_lit_num1 (k c) {st unf rst} (h : LitSt st unf rst)
    (hs : st = .neg ∨ st = .d0 ∨ st = .d1) :
    StepOKT ⟨rst, k⟩ (mk st (.litB :: inside k) unf) c := by
  unfold StepOKT; cases h <;> simp at hs <;> cases c <;> lit_caseT k
theorem t_lit_num2 (k c) {st unf rst} (h : LitSt st unf rst)
    (hs : st = .dot ∨ st = .dot0 ∨ st = .e) :
    StepOKT ⟨rst, k⟩ (mk st (.litB :: inside k) unf) c := by
  unfold StepOKT; cases h <;> simp at hs <;> cases c <;> lit_caseT k
theorem t_lit_num3 (k c) {st unf rst} (h : LitSt st unf rst) (hs : st = .eSign) :
    StepOKT ⟨rst, k⟩ (mk st (.litB :: inside k) unf) c := by
  unfold StepOKT; cases h <;> simp at hs <;> cases c <;> lit_caseT k
theorem t_e0 (k c) : StepOKT ⟨.num .exp, k⟩ (mk .e0 (.litB :: inside k) false) c := by
  unfold StepOKT; cases c <;> lit_caseT k
theorem t_lit_num4 (k c) {st unf rst} (h : LitSt st unf rst) (hs : st = .e0) :
    StepOKT ⟨rst, k⟩ (mk st (.litB :: inside k) unf) c := by
  cases h <;> simp at hs
  exact t_e0 k c
theorem t_lit_word1 (k c) {st unf rst} (h : LitSt st unf rst) (hs : st = .t ∨ st = .tr ∨ st = .tru) :
    StepOKT ⟨rst, k⟩ (mk st (.litB :: inside k) unf) c := by
  unfold StepOKT; cases h <;> simp at hs <;> cases c <;> step_caseT
theorem t_lit_word2 (k c) {st unf rst} (h : LitSt st unf rst) (hs : st = .f ∨ st = .fa ∨ st = .fal ∨ st = .fals) :
    StepOKT ⟨rst, k⟩ (mk st (.litB :: inside k) unf) c := by
  unfold StepOKT; cases h <;> simp at hs <;> cases c <;> step_caseT
theorem t_lit_word3 (k c) {st unf rst} (h : LitSt st unf rst) (hs : st = .n ∨ st = .nu ∨ st = .nul) :
    StepOKT ⟨rst, k⟩ (mk st (.litB :: inside k) unf) c := by
  unfold StepOKT; cases h <;> simp at hs <;> cases c <;> step_caseT

theorem t_lit (k c) {st unf rst} (h : LitSt st unf rst) : StepOKT ⟨rst, k⟩ (mk st (.litB :: inside k) unf) c := by
  cases h
  case str | esc | u0 | u1 | u2 | u3 => exact t_lit_str k c (by constructor) (by simp)
  case neg | d0 | d1 => exact t_lit_num1 k c (by constructor) (by simp)
  case dot | dot0 | e => exact t_lit_num2 k c (by constructor) (by simp)
  case eSign => exact t_lit_num3 k c (by constructor) rfl
  case e0 => exact t_lit_num4 k c (by constructor) rfl
  case t | tr | tru => exact t_lit_word1 k c (by constructor) (by simp)
  case f | fa | fal | fals => exact t_lit_word2 k c (by constructor) (by simp)
  all_goals exact t_lit_word3 k c (by constructor) (by simp)

theorem sim_stepT {m : Cfg} {r : RCfg} (h : R r m) (c : Cls) : StepOKT r m c := by
  cases h with
  | root => exact t_root c
  | valArr k => exact t_valArr k c
  | valObj k => exact t_valObj k c
  | arrFirst k => exact t_arrFirst k c
  | objFirst k => exact t_objFirst k c
  | key k => exact t_key k c
  | lit k h => exact t_lit k c h
  | keyStr k h => exact t_keyStr k c h
  | colonE k => exact t_colonE k c
  | colonA k => exact t_colonA k c
  | afterLit k => exact t_afterLit k c
  | afterCont k => exact t_afterCont k c
  | afterItem k => exact t_afterItem k c
  | afterVal k => exact t_afterVal k c
  | afterTop => exact t_afterTop c

theorem run_eqT {m : Cfg} {r : RCfg} (h : R r m) (cs : List Cls) :
    (run true m cs).isOk = runP r cs := by
  induction cs generalizing m r with
  | nil => simpa [run, runP] using sim_eof h
  | cons c cs ih =>
    rcases sim_stepT h c with ⟨m', r', hf, hs, hR⟩ | ⟨hf, hs, ha⟩ | ⟨ctx, hf, hs, ha⟩
    · simp only [run, hf, runP, hs, bind, Except.bind]
      exact ih hR
    · simp [run, hf, runP, hs, ha, bind, Except.bind, Except.isOk, Except.toBool, pure, Except.pure]
    · simp [run, hf, runP, hs, ha, bind, Except.bind, Except.isOk, Except.toBool]

/-- C05 with trailing characters allowed -/
theorem C05_trailing (bs : List UInt8) :
    check true bs = runP RCfg.init (bs.map classify) := by
  unfold check checkC
  exact run_eqT R.root _

end Sim

#print axioms Sim.C05_trailing
