import JSight.ValidateN
namespace VN
variable {L D : Type} (litOK : L → D → Bool)

theorem run_append_mem (K : List (Frame L)) (es fs : List (Ev D)) (X : List (Frame L)) :
    X ∈ run litOK K (es ++ fs) ↔ ∃ K', K' ∈ run litOK K es ∧ X ∈ run litOK K' fs := by
  induction es generalizing K with
  | nil => simp [run]
  | cons e es ih =>
    simp only [List.cons_append, run, List.mem_flatMap]
    constructor
    · rintro ⟨K1, h1, h2⟩
      obtain ⟨K', h3, h4⟩ := (ih K1).1 h2
      exact ⟨K', ⟨K1, h1, h3⟩, h4⟩
    · rintro ⟨K', ⟨K1, h1, h3⟩, h4⟩
      exact ⟨K1, h1, (ih K1).2 ⟨K', h3, h4⟩⟩

/-! the `any` validator is deterministic: same lemmas as in the chain machine -/
mutual
theorem any_keep (d : J D) (n : Nat) (K : List (Frame L)) (rest : List (Ev D)) :
    run litOK (.any (n+1) :: K) (evs d ++ rest) = run litOK (.any (n+1) :: K) rest := by
  cases d with
  | lit k => simp [evs, run, feed, Ev.isOpening]
  | arr xs =>
    have := any_keep_items xs (n+1) K (.arrE :: rest)
    simp [evs, run, feed, Ev.isOpening, List.append_assoc] at this ⊢
    rw [this]
  | obj ms =>
    have := any_keep_members ms (n+1) K (.objE :: rest)
    simp [evs, run, feed, Ev.isOpening, List.append_assoc] at this ⊢
    rw [this]
theorem any_keep_items (xs : List (J D)) (n : Nat) (K : List (Frame L)) (rest : List (Ev D)) :
    run litOK (.any (n+1) :: K) (evsItems xs ++ rest) = run litOK (.any (n+1) :: K) rest := by
  cases xs with
  | nil => simp [evsItems]
  | cons x xs =>
    have h1 := any_keep x (n+1) K (.itemE :: (evsItems xs ++ rest))
    have h2 := any_keep_items xs n K rest
    simp [evsItems, run, feed, Ev.isOpening, List.append_assoc] at h1 h2 ⊢
    rw [h1]; exact h2
theorem any_keep_members (ms : List (String × J D)) (n : Nat) (K : List (Frame L)) (rest : List (Ev D)) :
    run litOK (.any (n+1) :: K) (evsMembers ms ++ rest) = run litOK (.any (n+1) :: K) rest := by
  cases ms with
  | nil => simp [evsMembers]
  | cons m ms =>
    obtain ⟨k, v⟩ := m
    have h1 := any_keep v (n+1) K (.valE :: (evsMembers ms ++ rest))
    have h2 := any_keep_members ms n K rest
    simp [evsMembers, run, feed, Ev.isOpening, List.append_assoc] at h1 h2 ⊢
    rw [h1]; exact h2
end

theorem any_top (d : J D) (K : List (Frame L)) (rest : List (Ev D)) :
    run litOK (.any 0 :: K) (evs d ++ rest) = run litOK K rest := by
  cases d with
  | lit k => simp [evs, run, feed, Ev.isOpening]
  | arr xs =>
    have := any_keep_items litOK xs 0 K (.arrE :: rest)
    simp [evs, run, feed, Ev.isOpening, List.append_assoc] at this ⊢
    rw [this]
  | obj ms =>
    have := any_keep_members litOK ms 0 K (.objE :: rest)
    simp [evs, run, feed, Ev.isOpening, List.append_assoc] at this ⊢
    rw [this]

theorem all_none_isEmpty (req : List String) :
    req.all (fun r => ([] : List (String × J D)).any (fun m => m.1 == r)) = req.isEmpty := by
  cases req <;> simp

theorem req_step (req : List String) (k : String) (v : J D) (ms : List (String × J D)) :
    (req.filter (· != k)).all (fun r => ms.any (fun m => m.1 == r))
      = req.all (fun r => ((k, v) :: ms).any (fun m => m.1 == r)) := by
  induction req with
  | nil => simp
  | cons r req ih =>
    by_cases h : r = k
    · subst h; simp [ih]
    · have h1 : (k == r) = false := by simpa using fun h' => h h'.symm
      have h2 : (r != k) = true := by simp [h]
      simp only [List.filter_cons, h2, if_true, List.all_cons, List.any_cons, h1, Bool.false_or, ih]

/-- the statement proved for every schema / document pair -/
def ValueOK (s : S L) (d : J D) : Prop :=
  ∀ (K : List (Frame L)) (rest : List (Ev D)) (X : List (Frame L)),
    X ∈ (heads s).flatMap (fun h => run litOK (h :: K) (evs d ++ rest)) ↔ (shape litOK s d = true ∧ X ∈ run litOK K rest)


theorem flatMap_map_heads (hs : List (Frame L)) (K' : List (Frame L)) (es : List (Ev D)) (X : List (Frame L)) :
    X ∈ (hs.map (fun h => h :: K')).flatMap (fun K1 => run litOK K1 es) ↔ X ∈ hs.flatMap (fun h => run litOK (h :: K') es) := by
  simp only [List.mem_flatMap, List.mem_map]
  constructor
  · rintro ⟨a, ⟨h, hh, rfl⟩, hx⟩; exact ⟨h, hh, hx⟩
  · rintro ⟨h, hh, hx⟩; exact ⟨_, ⟨h, hh, rfl⟩, hx⟩

mutual
theorem value_ok (s : S L) (d : J D) : ValueOK litOK s d := by
  intro K rest X
  cases s with
  | alt alts =>
    have := alts_ok alts d K rest X
    simpa [heads, shape] using this
  | any => simp [heads, shape, any_top]
  | lit l =>
    cases d with
    | lit dk => cases h : litOK l dk <;> simp [heads, evs, shape, run, feed, h]
    | arr xs => simp [heads, evs, shape, run, feed]
    | obj ms => simp [heads, evs, shape, run, feed]
  | arr items =>
    cases d with
    | lit dk => simp [heads, evs, shape, run, feed]
    | arr xs =>
      have := items_ok items xs 0 K rest X
      simpa [heads, evs, shape, run, feed, List.append_assoc] using this
    | obj ms => simp [heads, evs, shape, run, feed]
  | obj props =>
    cases d with
    | lit dk => simp [heads, evs, shape, run, feed]
    | arr xs => simp [heads, evs, shape, run, feed]
    | obj ms =>
      have := members_ok props ms (requiredKeys props) none K rest X
      simpa [heads, evs, shape, run, feed, List.append_assoc] using this
termination_by (sizeOf d, sizeOf s)
theorem alts_ok (alts : List (S L)) (d : J D) (K : List (Frame L)) (rest : List (Ev D)) (X : List (Frame L)) :
    X ∈ (headsList alts).flatMap (fun h => run litOK (h :: K) (evs d ++ rest))
      ↔ (shapeAlts litOK alts d = true ∧ X ∈ run litOK K rest) := by
  cases alts with
  | nil => simp [headsList, shapeAlts]
  | cons a as =>
    have h1 := value_ok a d K rest X
    have h2 := alts_ok as d K rest X
    simp only [headsList, List.flatMap_append, List.mem_append, shapeAlts, Bool.or_eq_true]
    rw [h1, h2]
    constructor
    · rintro (⟨h, hx⟩ | ⟨h, hx⟩)
      · exact ⟨Or.inl h, hx⟩
      · exact ⟨Or.inr h, hx⟩
    · rintro ⟨h | h, hx⟩
      · exact Or.inl ⟨h, hx⟩
      · exact Or.inr ⟨h, hx⟩
termination_by (sizeOf d, sizeOf alts)
theorem items_ok (items : List (S L)) (xs : List (J D)) (c : Nat) (K : List (Frame L)) (rest : List (Ev D))
    (X : List (Frame L)) :
    X ∈ run litOK (.arr items c :: K) (evsItems xs ++ .arrE :: rest)
      ↔ (shapeItems litOK items c xs = true ∧ X ∈ run litOK K rest) := by
  cases xs with
  | nil => simp [evsItems, shapeItems, run, feed]
  | cons x xs =>
    cases hc : childAt items c with
    | none => simp [evsItems, shapeItems, hc, run, feed]
    | some s =>
      have h1 := value_ok s x (.arr items (c+1) :: K) (.itemE :: (evsItems xs ++ .arrE :: rest)) X
      simp only [evsItems, shapeItems, hc, List.cons_append, List.append_assoc, run, feed]
      rw [flatMap_map_heads, h1]
      have h2 := items_ok items xs (c+1) K rest X
      simp only [run, feed, List.flatMap_cons, List.flatMap_nil, List.append_nil, h2, Bool.and_eq_true]
      constructor
      · rintro ⟨a, b, c'⟩; exact ⟨⟨a, b⟩, c'⟩
      · rintro ⟨⟨a, b⟩, c'⟩; exact ⟨a, b, c'⟩
termination_by (sizeOf xs, 0)
theorem members_ok (props : List (String × Bool × S L)) (ms : List (String × J D)) (req : List String)
    (last : Option String) (K : List (Frame L)) (rest : List (Ev D)) (X : List (Frame L)) :
    X ∈ run litOK (.obj props req last :: K) (evsMembers ms ++ .objE :: rest)
      ↔ ((shapeMembers litOK props ms && req.all (fun r => ms.any (fun m => m.1 == r))) = true ∧ X ∈ run litOK K rest) := by
  cases ms with
  | nil =>
    simp only [evsMembers, shapeMembers, List.nil_append, run, feed, all_none_isEmpty, Bool.true_and]
    cases req <;> simp [run]
  | cons m ms =>
    obtain ⟨k, v⟩ := m
    cases hl : lookup props k with
    | none => simp [evsMembers, shapeMembers, hl, run, feed]
    | some s =>
      have h1 := value_ok s v (.obj props (req.filter (· != k)) (some k) :: K) (.valE :: (evsMembers ms ++ .objE :: rest)) X
      simp only [evsMembers, shapeMembers, hl, List.cons_append, List.append_assoc, run, feed,
        List.flatMap_cons, List.flatMap_nil, List.append_nil]
      rw [flatMap_map_heads, h1]
      have h2 := members_ok props ms (req.filter (· != k)) (some k) K rest X
      simp only [run, feed, List.flatMap_cons, List.flatMap_nil, List.append_nil, h2, Bool.and_eq_true]
      rw [req_step req k v ms]
      constructor
      · rintro ⟨a, ⟨b, c'⟩, e⟩; exact ⟨⟨⟨a, b⟩, c'⟩, e⟩
      · rintro ⟨⟨⟨a, b⟩, c'⟩, e⟩; exact ⟨a, ⟨b, c'⟩, e⟩
termination_by (sizeOf ms, 0)
end

/-- C03 (model level, independent leaves): with alternatives, `Validate` accepts exactly the union. -/
theorem C03_validate_iff_union (s : S L) (d : J D) : validate litOK s d = shape litOK s d := by
  have h := value_ok litOK s d [] []
  simp only [List.append_nil, run] at h
  unfold validate
  cases hs : shape litOK s d with
  | false =>
    rw [Bool.eq_false_iff]
    intro hany
    rw [List.any_eq_true] at hany
    obtain ⟨X, hX, _⟩ := hany
    have := (h X).1 hX
    rw [hs] at this
    exact absurd this.1 (by simp)
  | true =>
    rw [List.any_eq_true]
    exact ⟨[], (h []).2 ⟨hs, by simp⟩, rfl⟩

end VN

#print axioms VN.C03_validate_iff_union
