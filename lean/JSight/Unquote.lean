/-
Model of bytes/json.go `unquoteBytes` (a copy of encoding/json's) and `Bytes.Unquote`.
-/
namespace Unquote

def hex? (c : UInt8) : Option Nat :=
  if 48 ≤ c && c ≤ 57 then some (c.toNat - 48)
  else if 97 ≤ c && c ≤ 102 then some (c.toNat - 87)
  else if 65 ≤ c && c ≤ 70 then some (c.toNat - 55)
  else none

/-- getu4: `\uXXXX` at the start of `s` -/
def getu4 : List UInt8 → Option Nat
  | 92 :: 117 :: a :: b :: c :: d :: _ => do
    let a ← hex? a; let b ← hex? b; let c ← hex? c; let d ← hex? d
    pure (((a * 16 + b) * 16 + c) * 16 + d)
  | _ => none

def isSurrogate (r : Nat) : Bool := 0xD800 ≤ r && r < 0xE000

/-- utf16.DecodeRune -/
def decodeSurrogates (r1 r2 : Nat) : Option Nat :=
  if 0xD800 ≤ r1 && r1 < 0xDC00 && 0xDC00 ≤ r2 && r2 < 0xE000 then
    some ((r1 - 0xD800) * 0x400 + (r2 - 0xDC00) + 0x10000)
  else none

/-- utf8.EncodeRune (invalid runes and surrogates become U+FFFD) -/
def encodeRune (r : Nat) : List UInt8 :=
  let r := if r > 0x10FFFF || isSurrogate r then 0xFFFD else r
  if r < 0x80 then [UInt8.ofNat r]
  else if r < 0x800 then [UInt8.ofNat (0xC0 + r / 64), UInt8.ofNat (0x80 + r % 64)]
  else if r < 0x10000 then [UInt8.ofNat (0xE0 + r / 4096), UInt8.ofNat (0x80 + (r / 64) % 64), UInt8.ofNat (0x80 + r % 64)]
  else [UInt8.ofNat (0xF0 + r / 262144), UInt8.ofNat (0x80 + (r / 4096) % 64), UInt8.ofNat (0x80 + (r / 64) % 64), UInt8.ofNat (0x80 + r % 64)]

def cont? (c : UInt8) : Option Nat := if 0x80 ≤ c && c ≤ 0xBF then some (c.toNat - 0x80) else none

/-- utf8.DecodeRune on a non-ASCII lead byte: (rune, size); (0xFFFD, 1) for invalid encodings -/
def decodeRune : List UInt8 → Nat × Nat
  | [] => (0xFFFD, 0)
  | c0 :: rest =>
    let bad := (0xFFFD, 1)
    if c0 < 0x80 then (c0.toNat, 1)
    else if 0xC2 ≤ c0 && c0 ≤ 0xDF then
      match rest with
      | c1 :: _ => match cont? c1 with
        | some x1 => ((c0.toNat - 0xC0) * 64 + x1, 2)
        | none => bad
      | _ => bad
    else if 0xE0 ≤ c0 && c0 ≤ 0xEF then
      match rest with
      | c1 :: c2 :: _ =>
        let lo : UInt8 := if c0 == 0xE0 then 0xA0 else 0x80
        let hi : UInt8 := if c0 == 0xED then 0x9F else 0xBF
        if lo ≤ c1 && c1 ≤ hi then
          match cont? c2 with
          | some x2 => ((c0.toNat - 0xE0) * 4096 + (c1.toNat - 0x80) * 64 + x2, 3)
          | none => bad
        else bad
      | _ => bad
    else if 0xF0 ≤ c0 && c0 ≤ 0xF4 then
      match rest with
      | c1 :: c2 :: c3 :: _ =>
        let lo : UInt8 := if c0 == 0xF0 then 0x90 else 0x80
        let hi : UInt8 := if c0 == 0xF4 then 0x8F else 0xBF
        if lo ≤ c1 && c1 ≤ hi then
          match cont? c2, cont? c3 with
          | some x2, some x3 => ((c0.toNat - 0xF0) * 262144 + (c1.toNat - 0x80) * 4096 + x2 * 64 + x3, 4)
          | _, _ => bad
        else bad
      | _ => bad
    else bad

/-- the body of a quoted string (between the quotes); `none` = `ok == false` -/
def body : Nat → List UInt8 → Option (List UInt8)
  | 0, _ => none
  | _, [] => some []
  | fuel + 1, c :: rest =>
    if c == 92 then   -- backslash
      match rest with
      | [] => none
      | e :: rest' =>
        let simple (b : UInt8) : Option (List UInt8) := (body fuel rest').map (b :: ·)
        if e == 34 || e == 92 || e == 47 || e == 39 then simple e
        else if e == 98 then simple 8
        else if e == 102 then simple 12
        else if e == 110 then simple 10
        else if e == 114 then simple 13
        else if e == 116 then simple 9
        else if e == 117 then
          match getu4 (c :: rest) with
          | none => none
          | some rr =>
            let after := (c :: rest).drop 6
            if isSurrogate rr then
              match (getu4 after).bind (decodeSurrogates rr) with
              | some dec => (body fuel (after.drop 6)).map (encodeRune dec ++ ·)
              | none => (body fuel after).map (encodeRune 0xFFFD ++ ·)
            else (body fuel after).map (encodeRune rr ++ ·)
        else none
    else if c == 34 || c < 32 then none
    else if c < 0x80 then (body fuel rest).map (c :: ·)
    else
      let (r, size) := decodeRune (c :: rest)
      (body fuel ((c :: rest).drop size)).map (encodeRune r ++ ·)

def inQuotes (b : List UInt8) : Bool :=
  b.length ≥ 2 && b.head? == some 34 && b.getLast? == some 34

/-- `Bytes.Unquote`: not in quotes, or undecodable ⇒ unchanged -/
def unquote (b : List UInt8) : List UInt8 :=
  if inQuotes b then
    match body (b.length + 1) ((b.drop 1).dropLast) with
    | some r => r
    | none => b
  else b

end Unquote
