import JSight.SchemaEventsTree
import JSight.TreeEvents
import JSight.ByteLemmas
/-!
The schema scanner and the JSON scanner on the same plain-JSON text: dropping the `newLine` events from the
schema scanner's stream leaves exactly the JSON scanner's stream (same types, order and spans).
-/
namespace SchemaScan

/-- the JSON scanner's byte class of a schema-scanner byte class -/
def toJ : Cls → JsonScan.Cls
  | .sp => .sp | .tab => .wsctl | .nl => .wsctl
  | .lbrace => .lbrace | .rbrace => .rbrace | .lbrack => .lbrack | .rbrack => .rbrack
  | .colon => .colon | .comma => .comma | .quote => .quote | .bslash => .bslash | .slash => .slash
  | .hash => .other | .at => .other | .star => .other | .pipe => .other
  | .minus => .minus | .underscore => .other | .plus => .plus | .zero => .zero | .d19 => .d19 | .dot => .dot
  | .le => .le | .uE => .uE | .lt => .lt | .lr => .lr | .lu => .lu | .lf => .lf | .la => .la | .ll => .ll
  | .ls => .ls | .ln => .ln | .lb => .lb | .hexo => .hexo | .nameo => .other | .ctrl => .ctrl | .other => .other

theorem classify_toJ : ∀ b : UInt8, (JsonScan.classify b == toJ (classify b)) = true :=
  Bytes.forall_uint8 _ (by decide +kernel)

theorem map_classify_toJ (bs : List UInt8) : bs.map JsonScan.classify = (bs.map classify).map toJ := by
  induction bs with
  | nil => rfl
  | cons b bs ih =>
    have := classify_toJ b
    simp only [beq_iff_eq] at this
    simp only [List.map_cons, this, ih]

/-! ### events -/

def toJTy? : LexT → Option JsonScan.LexT
  | .litB => some .litB | .litE => some .litE | .objB => some .objB | .objE => some .objE
  | .keyB => some .keyB | .keyE => some .keyE | .valB => some .valB | .valE => some .valE
  | .arrB => some .arrB | .arrE => some .arrE | .itemB => some .itemB | .itemE => some .itemE
  | _ => none

def toJEv? (e : Ev) : Option JsonScan.Ev := (toJTy? e.ty).map (⟨·, e.b, e.e⟩)

/-- the events that are not `newLine` (nor annotation/shortcut events), as JSON scanner events -/
def jsonPart (evs : List Ev) : List JsonScan.Ev := evs.filterMap toJEv?

theorem jsonPart_append (a b : List Ev) : jsonPart (a ++ b) = jsonPart a ++ jsonPart b := by
  simp [jsonPart, List.filterMap_append]

theorem jsonPart_nlEvs : ∀ (o : Nat) (ws : List Cls), jsonPart (nlEvs o ws) = []
  | _, [] => rfl
  | o, c :: cs => by
    rw [nlEvs, jsonPart_append, jsonPart_nlEvs (o + 1) cs]
    split <;> rfl

/-! ### trees -/

mutual
def Tree.toJA : Tree → JsonScan.JA
  | .scalar tok => .scalar (tok.map toJ)
  | .arr ws0 items => .arr (ws0.map toJ) (itemsToJA items)
  | .obj ws0 members => .obj (ws0.map toJ) (membersToJA members)
def itemsToJA : List (List Cls × Tree × List Cls) → List (List JsonScan.Cls × JsonScan.JA × List JsonScan.Cls)
  | [] => []
  | (w1, v, w2) :: its => (w1.map toJ, v.toJA, w2.map toJ) :: itemsToJA its
def membersToJA : List (List Cls × List Cls × List Cls × List Cls × Tree × List Cls) →
    List (List JsonScan.Cls × List JsonScan.Cls × List JsonScan.Cls × List JsonScan.Cls × JsonScan.JA × List JsonScan.Cls)
  | [] => []
  | (w1, k, w2, w3, v, w4) :: ms =>
    (w1.map toJ, k.map toJ, w2.map toJ, w3.map toJ, v.toJA, w4.map toJ) :: membersToJA ms
end

theorem itemsToJA_isEmpty (its : List (List Cls × Tree × List Cls)) : (itemsToJA its).isEmpty = its.isEmpty := by
  cases its with
  | nil => rfl
  | cons it its => obtain ⟨w1, v, w2⟩ := it; rfl

theorem membersToJA_isEmpty (ms : List (List Cls × List Cls × List Cls × List Cls × Tree × List Cls)) :
    (membersToJA ms).isEmpty = ms.isEmpty := by
  cases ms with
  | nil => rfl
  | cons m ms => obtain ⟨w1, k, w2, w3, v, w4⟩ := m; rfl

mutual
theorem render_toJA : (v : Tree) → v.toJA.render = v.render.map toJ
  | .scalar tok => by simp [Tree.toJA, JsonScan.JA.render, Tree.render]
  | .arr ws0 items => by
    simp [Tree.toJA, JsonScan.JA.render, Tree.render, renderItems_toJA items, toJ]
  | .obj ws0 members => by
    simp [Tree.toJA, JsonScan.JA.render, Tree.render, renderMembers_toJA members, toJ]
theorem renderItems_toJA : (its : List (List Cls × Tree × List Cls)) →
    JsonScan.renderItems (itemsToJA its) = (renderItems its).map toJ
  | [] => rfl
  | (w1, v, w2) :: its => by
    rw [itemsToJA, JsonScan.renderItems, renderItems, render_toJA v, renderItems_toJA its, itemsToJA_isEmpty]
    cases its <;> simp [toJ]
theorem renderMembers_toJA : (ms : List (List Cls × List Cls × List Cls × List Cls × Tree × List Cls)) →
    JsonScan.renderMembers (membersToJA ms) = (renderMembers ms).map toJ
  | [] => rfl
  | (w1, k, w2, w3, v, w4) :: ms => by
    rw [membersToJA, JsonScan.renderMembers, renderMembers, render_toJA v, renderMembers_toJA ms, membersToJA_isEmpty]
    cases ms <;> simp [toJ]
end

theorem render_toJA_length (v : Tree) : v.toJA.render.length = v.render.length := by
  rw [render_toJA, List.length_map]

/-! ### the JSON part of the expected schema events is the JSON scanner's expected events -/

theorem jsonPart_cons_some {e : Ev} {t : JsonScan.LexT} (h : toJTy? e.ty = some t) (evs : List Ev) :
    jsonPart (e :: evs) = ⟨t, e.b, e.e⟩ :: jsonPart evs := by
  simp [jsonPart, toJEv?, h]

mutual
theorem jsonPart_evsAt : (v : Tree) → (o : Nat) → jsonPart (schemaEvsAt o v) = JsonScan.evsAt o v.toJA
  | .scalar tok, o => by
    simp [schemaEvsAt, Tree.toJA, JsonScan.evsAt, jsonPart, toJEv?, toJTy?]
  | .arr ws0 items, o => by
    rw [schemaEvsAt, Tree.toJA, JsonScan.evsAt, jsonPart_cons_some (t := .arrB) rfl, jsonPart_append, jsonPart_nlEvs,
      jsonPart_evsItems items o (o + 1 + ws0.length), List.length_map, List.nil_append]
  | .obj ws0 members, o => by
    rw [schemaEvsAt, Tree.toJA, JsonScan.evsAt, jsonPart_cons_some (t := .objB) rfl, jsonPart_append, jsonPart_nlEvs,
      jsonPart_evsMembers members o (o + 1 + ws0.length), List.length_map, List.nil_append]
theorem jsonPart_evsItems : (its : List (List Cls × Tree × List Cls)) → (a o : Nat) →
    jsonPart (evsItems a o its) = JsonScan.evsItems a o (itemsToJA its)
  | [], a, o => by simp [evsItems, itemsToJA, JsonScan.evsItems, jsonPart, toJEv?, toJTy?]
  | (w1, v, w2) :: its, a, o => by
    rw [evsItems, itemsToJA, JsonScan.evsItems, jsonPart_append, jsonPart_nlEvs, List.nil_append,
      jsonPart_cons_some (t := .itemB) rfl, jsonPart_append, jsonPart_evsAt v (o + w1.length),
      jsonPart_cons_some (t := .itemE) rfl, jsonPart_append, jsonPart_nlEvs, List.nil_append,
      jsonPart_evsItems its a _, itemsToJA_isEmpty, render_toJA_length, List.length_map, List.length_map]
theorem jsonPart_evsMembers : (ms : List (List Cls × List Cls × List Cls × List Cls × Tree × List Cls)) → (a o : Nat) →
    jsonPart (evsMembers a o ms) = JsonScan.evsMembers a o (membersToJA ms)
  | [], a, o => by simp [evsMembers, membersToJA, JsonScan.evsMembers, jsonPart, toJEv?, toJTy?]
  | (w1, k, w2, w3, v, w4) :: ms, a, o => by
    rw [evsMembers, membersToJA, JsonScan.evsMembers, jsonPart_append, jsonPart_nlEvs, List.nil_append,
      jsonPart_cons_some (t := .keyB) rfl, jsonPart_cons_some (t := .keyE) rfl,
      jsonPart_append, jsonPart_nlEvs, List.nil_append, jsonPart_append, jsonPart_nlEvs, List.nil_append,
      jsonPart_cons_some (t := .valB) rfl, jsonPart_append,
      jsonPart_evsAt v _, jsonPart_cons_some (t := .valE) rfl, jsonPart_append, jsonPart_nlEvs, List.nil_append,
      jsonPart_evsMembers ms a _, membersToJA_isEmpty, render_toJA_length]
    simp only [List.length_map]
end

/-- besides the JSON events only `newLine` events occur -/
def jsonOrNl (e : Ev) : Bool := e.ty == .newLine || (toJTy? e.ty).isSome

theorem all_nlEvs : ∀ (o : Nat) (ws : List Cls), (nlEvs o ws).all jsonOrNl = true
  | _, [] => rfl
  | o, c :: cs => by
    rw [nlEvs, List.all_append, all_nlEvs (o + 1) cs]
    split <;> rfl

mutual
theorem all_evsAt : (v : Tree) → (o : Nat) → (schemaEvsAt o v).all jsonOrNl = true
  | .scalar tok, o => rfl
  | .arr ws0 items, o => by
    rw [schemaEvsAt, List.all_cons, List.all_append, all_nlEvs, all_evsItems items]; rfl
  | .obj ws0 members, o => by
    rw [schemaEvsAt, List.all_cons, List.all_append, all_nlEvs, all_evsMembers members]; rfl
theorem all_evsItems : (its : List (List Cls × Tree × List Cls)) → (a o : Nat) → (evsItems a o its).all jsonOrNl = true
  | [], a, o => rfl
  | (w1, v, w2) :: its, a, o => by
    rw [evsItems, List.all_append, all_nlEvs, List.all_cons, List.all_append, all_evsAt v, List.all_cons,
      List.all_append, all_nlEvs, all_evsItems its]; rfl
theorem all_evsMembers : (ms : List (List Cls × List Cls × List Cls × List Cls × Tree × List Cls)) → (a o : Nat) →
    (evsMembers a o ms).all jsonOrNl = true
  | [], a, o => rfl
  | (w1, k, w2, w3, v, w4) :: ms, a, o => by
    rw [evsMembers, List.all_append, all_nlEvs, List.all_cons, List.all_cons, List.all_append, all_nlEvs,
      List.all_append, all_nlEvs, List.all_cons, List.all_append, all_evsAt v, List.all_cons,
      List.all_append, all_nlEvs, all_evsMembers ms]; rfl
end

/-! ### validity carries over -/

theorem isWs_toJ {ws : List Cls} (h : IsWs ws) : JsonScan.IsWs (ws.map toJ) := by
  intro c hc
  obtain ⟨x, hx, rfl⟩ := List.mem_map.1 hc
  have := h x hx
  cases x <;> simp [Cls.isBlank, Cls.isSpace, Cls.isNewLine] at this <;> rfl

theorem strBody_toJ {b : List Cls} (h : StrBody b) : JsonScan.StrBody (b.map toJ) := by
  induction h with
  | nil => exact .nil
  | plain c b hc _ ih =>
    exact .plain _ _ (by cases c <;> simp [Cls.isPlainStr] at hc <;> rfl) ih
  | esc c b hc _ ih =>
    exact .esc _ _ (by cases c <;> simp [Cls.isSimpleEsc] at hc <;> rfl) ih
  | uni h1 h2 h3 h4 b e1 e2 e3 e4 _ ih =>
    exact .uni _ _ _ _ _ (by cases h1 <;> simp [Cls.isHex] at e1 <;> rfl) (by cases h2 <;> simp [Cls.isHex] at e2 <;> rfl)
      (by cases h3 <;> simp [Cls.isHex] at e3 <;> rfl) (by cases h4 <;> simp [Cls.isHex] at e4 <;> rfl) ih

theorem isDigit_toJ {c : Cls} (h : c.isDigit = true) : (toJ c).isDigit = true := by
  cases c <;> simp [Cls.isDigit] at h <;> rfl

theorem isDigits_toJ {ds : List Cls} (h : IsDigits ds) : JsonScan.IsDigits (ds.map toJ) := by
  intro c hc
  obtain ⟨x, hx, rfl⟩ := List.mem_map.1 hc
  exact isDigit_toJ (h x hx)

/-- the same number as a token of the JSON scanner's grammar (no exponent) -/
def NumTok.toJ (t : NumTok) : JsonScan.NumTok :=
  ⟨t.neg, t.int.map SchemaScan.toJ, t.frac.map (fun p => (SchemaScan.toJ p.1, p.2.map SchemaScan.toJ)), none⟩

theorem NumTok.toJ_render (t : NumTok) : t.toJ.render = t.render.map SchemaScan.toJ := by
  obtain ⟨neg, int, frac⟩ := t
  cases neg <;> cases frac <;>
    simp [NumTok.toJ, JsonScan.NumTok.render, NumTok.render, NumTok.tail, SchemaScan.toJ]

theorem NumTok.toJ_wf {t : NumTok} (wf : t.WF) : t.toJ.WF := by
  refine ⟨?_, ?_, ?_⟩
  · rcases wf.int with h | ⟨ds, h, hd⟩
    · left; simp [NumTok.toJ, h, SchemaScan.toJ]
    · right; exact ⟨ds.map SchemaScan.toJ, by simp [NumTok.toJ, h, SchemaScan.toJ], isDigits_toJ hd⟩
  · intro d ds h
    obtain ⟨neg, int, frac⟩ := t
    cases frac with
    | none => simp [NumTok.toJ] at h
    | some p =>
      obtain ⟨d0, ds0⟩ := p
      simp only [NumTok.toJ, Option.map_some, Option.some.injEq, Prod.mk.injEq] at h
      obtain ⟨rfl, rfl⟩ := h
      obtain ⟨g1, g2⟩ := wf.frac d0 ds0 rfl
      exact ⟨isDigit_toJ g1, isDigits_toJ g2⟩
  · intro e s d ds h
    simp [NumTok.toJ] at h

theorem scalarTok_toJ {tok : List Cls} (h : ScalarTok tok) : JsonScan.IsScalar (tok.map toJ) := by
  cases h with
  | str b hb =>
    have := JsonScan.string_isScalar (b.map toJ) (strBody_toJ hb)
    simpa [toJ] using this
  | num t wf =>
    rw [← NumTok.toJ_render]
    exact JsonScan.number_isScalar t.toJ (NumTok.toJ_wf wf)
  | true_ => exact JsonScan.true_isScalar
  | false_ => exact JsonScan.false_isScalar
  | null_ => exact JsonScan.null_isScalar

theorem keyTok_toJ {k : List Cls} (h : KeyTok k) : JsonScan.IsKey (k.map toJ) := by
  obtain ⟨b, hb, rfl⟩ := h
  have := JsonScan.string_isKey (b.map toJ) (strBody_toJ hb)
  simpa [toJ] using this

mutual
theorem valid_toJA : (v : Tree) → v.Json → v.toJA.Valid
  | .scalar tok, h => by
    have h' : ScalarTok tok := by simpa [Tree.Json] using h
    simpa [Tree.toJA, JsonScan.JA.Valid] using scalarTok_toJ h'
  | .arr ws0 items, h => by
    obtain ⟨h0, hi⟩ : IsWs ws0 ∧ JsonItems items := by simpa [Tree.Json] using h
    simpa [Tree.toJA, JsonScan.JA.Valid] using And.intro (isWs_toJ h0) (validItems_toJA items hi)
  | .obj ws0 members, h => by
    obtain ⟨h0, hi⟩ : IsWs ws0 ∧ JsonMembers members := by simpa [Tree.Json] using h
    simpa [Tree.toJA, JsonScan.JA.Valid] using And.intro (isWs_toJ h0) (validMembers_toJA members hi)
theorem validItems_toJA : (its : List (List Cls × Tree × List Cls)) → JsonItems its →
    JsonScan.ValidItems (itemsToJA its)
  | [], _ => by simp [itemsToJA, JsonScan.ValidItems]
  | (w1, v, w2) :: its, h => by
    obtain ⟨h1, hv, h2, hr⟩ : IsWs w1 ∧ v.Json ∧ IsWs w2 ∧ JsonItems its := by simpa [JsonItems] using h
    simpa [itemsToJA, JsonScan.ValidItems] using And.intro (isWs_toJ h1) (And.intro (valid_toJA v hv)
      (And.intro (isWs_toJ h2) (validItems_toJA its hr)))
theorem validMembers_toJA : (ms : List (List Cls × List Cls × List Cls × List Cls × Tree × List Cls)) →
    JsonMembers ms → JsonScan.ValidMembers (membersToJA ms)
  | [], _ => by simp [membersToJA, JsonScan.ValidMembers]
  | (w1, k, w2, w3, v, w4) :: ms, h => by
    obtain ⟨h1, hk, h2, h3, hv, h4, hr⟩ :
        IsWs w1 ∧ KeyTok k ∧ IsWs w2 ∧ IsWs w3 ∧ v.Json ∧ IsWs w4 ∧ JsonMembers ms := by simpa [JsonMembers] using h
    simpa [membersToJA, JsonScan.ValidMembers] using And.intro (isWs_toJ h1) (And.intro (keyTok_toJ hk)
      (And.intro (isWs_toJ h2) (And.intro (isWs_toJ h3) (And.intro (valid_toJA v hv)
        (And.intro (isWs_toJ h4) (validMembers_toJA ms hr))))))
end

/-! ### the two scanners on the same bytes -/

/-- **C06 (second sentence) / C13 / C16**: on a plain-JSON text (tokens by the JSON grammar without exponents; any
nesting, width; layout of spaces, tabs, line breaks) both scanners succeed, the schema scanner's events that are
not `newLine` are exactly the JSON scanner's events (types, order, spans), and nothing but `newLine` is added. -/
theorem C13_schema_scan_is_json_scan_plus_newlines (allow : Bool) (v : Tree) (hv : v.Json) (ws0 ws1 : List Cls)
    (h0 : IsWs ws0) (h1 : IsWs ws1) (bs : List UInt8) (hbs : bs.map classify = ws0 ++ (v.render ++ ws1)) :
    ∃ sevs, scanAll bs = .ok sevs ∧ JsonScan.events allow bs = .ok (jsonPart sevs) ∧
      sevs.all jsonOrNl = true ∧
      sevs.filter (·.ty == .newLine)
        = nlEvs 0 ws0 ++ ((schemaEvsAt ws0.length v).filter (·.ty == .newLine)
            ++ nlEvs (ws0.length + v.render.length) ws1) := by
  refine ⟨_, C06_schema_events_of_json_text v hv ws0 ws1 h0 h1 bs hbs, ?_, ?_, ?_⟩
  · unfold JsonScan.events
    have hcls : bs.map JsonScan.classify = ws0.map toJ ++ (v.toJA.render ++ ws1.map toJ) := by
      rw [map_classify_toJ, hbs, render_toJA]; simp
    have hlen : bs.length = (ws0.map toJ ++ (v.toJA.render ++ ws1.map toJ)).length := by
      rw [← hcls, List.length_map]
    rw [hcls, hlen, JsonScan.C06_events_of_tree allow v.toJA (valid_toJA v hv) _ _ (isWs_toJ h0) (isWs_toJ h1)]
    rw [jsonPart_append, jsonPart_append, jsonPart_nlEvs, jsonPart_nlEvs, jsonPart_evsAt, List.length_map]
    simp
  · rw [List.all_append, List.all_append, all_nlEvs, all_nlEvs, all_evsAt]; rfl
  · have nlf : ∀ o ws, (nlEvs o ws).filter (·.ty == .newLine) = nlEvs o ws := by
      intro o ws
      induction ws generalizing o with
      | nil => rfl
      | cons c cs ih =>
        rw [nlEvs, List.filter_append, ih]
        split <;> rfl
    rw [List.filter_append, List.filter_append, nlf, nlf]

#print axioms C13_schema_scan_is_json_scan_plus_newlines

end SchemaScan
