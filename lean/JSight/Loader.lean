import JSight.SchemaRun
import JSight.Unquote
/-!
Loader model: lexical events of the schema scanner → node tree with the annotations bound to nodes
(`notations/jschema/internal/loader/loader.go`, `embedded_loader_for_node.go`, `embedded_loader_for_rule.go`,
the `Grow` methods of `schema/*_node.go`).

Modelled: creation of object / array / literal / shortcut nodes in source order, keys (incl. key
shortcuts, duplicate-key error 402), the per-line node counter that decides which node an annotation
binds to (errors 803 / 804), the rule-object state machine (rule names in written order, literal rule
values, the note text), type shortcuts as synthesised `type` / `or` rules. The *values* of `or` / `enum` /
`allOf` rules are consumed as balanced event groups without interpreting them (their own loaders and the
constraint constructors are not modelled: a schema they reject is outside this model).
-/
namespace Loader
open SchemaScan (Ev LexT)

inductive NK | obj | arr | lit | mixed
  deriving DecidableEq, Repr, Inhabited

structure Node where
  kind : NK
  parent : Option Nat
  children : List Nat := []
  /-- object keys in the order added: span of the key token, is-shortcut -/
  keys : List (Nat × Nat × Bool) := []
  waiting : Bool := false
  /-- span of the closing literal / mixed-value event -/
  value : Option (Nat × Nat) := none
  /-- rule names in constraint order: span of the name token, or a synthesised name -/
  rules : List (Sum (Nat × Nat) String) := []
  comment : Option (Nat × Nat) := none
  /-- parallel to `rules`: span of the rule's VALUE — the literal token; for `or` / `enum` / `allOf` the span from
  the first to the last byte of the value (bracket to bracket for containers); for a type shortcut in value
  position the span of the shortcut -/
  ruleVals : List (Option (Nat × Nat)) := []
  deriving Repr, Inhabited

inductive Mode | default | inline | multi
  deriving DecidableEq, Repr

/-- states of `ruleLoader` -/
inductive RS
  | begin | commentTextBegin | commentTextEnd | keyOrObjectEnd | objectEndAfterRuleName
  | valueBegin | value | valueLiteral | valueEnd | endOfLoading
  | embContainer (depth : Nat)   -- inside an array / object value of or / enum / allOf
  | embLiteral                   -- inside a literal value of or / enum / allOf
  | embShortcut                  -- inside a `@name` value
  deriving DecidableEq, Repr

inductive LErr
  | loader (pos : Nat)                   -- 801
  | ruleValueType (pos : Nat)            -- 802
  | ruleWithoutExample (pos : Nat)       -- 803
  | ruleForSeveralNode (pos : Nat)       -- 804
  | duplicateKey (pos : Nat)             -- 402
  | invalidName (pos : Nat)              -- 701: a key shortcut without a name (bare `@`)
  | internal (why : String)              -- a Go panic with a string (unexpected lexical event)
  deriving DecidableEq, Repr

structure St where
  nodes : Array Node := #[]
  root : Option Nat := none
  leaf : Option Nat := none
  last : Option Nat := none
  perLine : Nat := 0
  mode : Mode := .default
  rs : RS := .begin
  rsNode : Option Nat := none
  rsCount : Nat := 0
  ruleName : Nat × Nat := (0, 0)
  deriving Repr

abbrev M := Except LErr

def slice (src : Array UInt8) (b e : Nat) : List UInt8 := (src.toList.drop b).take (e + 1 - b)

def isBlank (c : UInt8) : Bool := c == 32 || c == 9 || c == 10 || c == 13

def trimSpaces (bs : List UInt8) : List UInt8 :=
  ((bs.dropWhile isBlank).reverse.dropWhile isBlank).reverse

/-- rule name as the loader reads it: `TrimSpaces().Unquote()` -/
def nameOf (src : Array UInt8) (sp : Nat × Nat) : List UInt8 := Unquote.unquote (trimSpaces (slice src sp.1 sp.2))

def kindOfLex : LexT → Option NK
  | .litB => some .lit | .objB => some .obj | .arrB => some .arr | .mixB => some .mixed | _ => none

def newNode (st : St) (k : NK) (parent : Option Nat) : St × Nat :=
  ({ st with nodes := st.nodes.push { kind := k, parent := parent } }, st.nodes.size)

def updNode (st : St) (i : Nat) (f : Node → Node) : St :=
  { st with nodes := st.nodes.modify i f }

def keyText (src : Array UInt8) (k : Nat × Nat × Bool) : List UInt8 × Bool :=
  (if k.2.2 then slice src k.1 k.2.1 else Unquote.unquote (slice src k.1 k.2.1), k.2.2)

/-- `Grow` of the leaf node; returns the new leaf and whether a child node was created -/
def grow (src : Array UInt8) (st : St) (i : Nat) (e : Ev) : M (St × Option Nat × Bool) :=
  match st.nodes[i]? with
  | none => throw (.internal "leaf out of range")
  | some n =>
    match n.kind with
    | .lit =>
      match e.ty with
      | .litB => pure (st, some i, false)
      | .litE => pure (updNode st i (fun n => { n with value := some (e.b, e.e) }), n.parent, false)
      | _ => throw (.internal "unexpected lexical event in literal node")
    | .mixed =>
      match e.ty with
      | .mixB => pure (st, some i, false)
      | .mixE => pure (updNode st i (fun n => { n with value := some (e.b, e.e) }), n.parent, false)
      | _ => throw (.internal "unexpected lexical event in mixed value node")
    | .arr =>
      if n.waiting then
        match kindOfLex e.ty with
        | some k =>
          let (st1, c) := newNode (updNode st i (fun n => { n with waiting := false })) k (some i)
          pure (updNode st1 i (fun n => { n with children := n.children ++ [c] }), some c, true)
        | none => throw (.internal "can not create node from the lexical event")
      else
        match e.ty with
        | .arrB | .itemE => pure (st, some i, false)
        | .itemB => pure (updNode st i (fun n => { n with waiting := true }), some i, false)
        | .arrE => pure (st, n.parent, false)
        | _ => throw (.internal "unexpected lexical event in array node")
    | .obj =>
      if n.waiting then
        match kindOfLex e.ty with
        | some k =>
          let (st1, c) := newNode (updNode st i (fun n => { n with waiting := false })) k (some i)
          pure (updNode st1 i (fun n => { n with children := n.children ++ [c] }), some c, true)
        | none => throw (.internal "can not create node from the lexical event")
      else
        match e.ty with
        | .objB | .keyB | .valE => pure (st, some i, false)
        | .keyE | .ksE =>
          let isShort := e.ty == .ksE
          let k := (e.b, e.e, isShort)
          if isShort && !(e.b < e.e) then throw (.invalidName e.b)    -- `IsUserTypeName` needs a name byte after `@`
          else if n.keys.any (fun k' => keyText src k' == keyText src k) then throw (.duplicateKey e.b)
          else pure (updNode st i (fun n => { n with keys := n.keys ++ [k] }), some i, false)
        | .valB => pure (updNode st i (fun n => { n with waiting := true }), some i, false)
        | .objE => pure (st, n.parent, false)
        | _ => throw (.internal "unexpected lexical event in object node")

/-- `nodeLoader.Load` -/
def nodeLoad (src : Array UInt8) (st : St) (e : Ev) : M St :=
  match e.ty with
  | .newLine => pure { st with perLine := 0 }
  | .endTop => pure st
  | _ =>
    match st.leaf with
    | none =>
      match kindOfLex e.ty with
      | some k =>
        let (st1, c) := newNode st k none
        pure { st1 with root := some c, leaf := some c, perLine := st1.perLine + 1, last := some c }
      | none => throw (.internal "can not create node from the lexical event")
    | some i => do
      let (st1, leaf', isNew) ← grow src st i e
      if isNew then pure { st1 with leaf := leaf', perLine := st1.perLine + 1, last := leaf' }
      else pure { st1 with leaf := leaf' }

def addRule (st : St) (r : Sum (Nat × Nat) String) (v : Option (Nat × Nat) := none) : St :=
  match st.rsNode with
  | some i => updNode st i (fun n => { n with rules := n.rules ++ [r], ruleVals := n.ruleVals ++ [v] })
  | none => st

/-- the value of the rule added last ends here: record its span -/
def setLastVal (st : St) (v : Nat × Nat) : St :=
  match st.rsNode with
  | some i => updNode st i (fun n => { n with ruleVals := n.ruleVals.dropLast ++ [some v] })
  | none => st

/-- `ruleLoader.load`: one event inside an annotation -/
def ruleLoad (src : Array UInt8) (st : St) (e : Ev) : M St :=
  match st.rs with
  | .begin =>
    match e.ty with
    | .newLine => pure st
    | .inlTxtB | .mlTxtB => pure { st with rs := .commentTextEnd }
    | .objB => pure { st with rs := .keyOrObjectEnd }
    | _ => throw (.loader e.b)
  | .commentTextBegin =>
    match e.ty with
    | .newLine => pure st
    | .inlTxtB | .mlTxtB => pure { st with rs := .commentTextEnd }
    | _ => throw (.loader e.b)
  | .commentTextEnd =>
    match e.ty with
    | .inlTxtE | .mlTxtE =>
      let st1 := match st.rsNode with
        | some i => updNode st i (fun n => { n with comment := some (e.b, e.e) })
        | none => st
      pure { st1 with rs := .endOfLoading }
    | _ => throw (.loader e.b)
  | .keyOrObjectEnd =>
    match e.ty with
    | .keyB | .newLine => pure st
    | .keyE => pure { st with ruleName := (e.b, e.e), rs := .valueBegin }
    | .objE => pure { st with rs := .commentTextBegin }
    | _ => throw (.loader e.b)
  | .objectEndAfterRuleName =>
    match e.ty with
    | .keyB | .valE | .newLine => pure st
    | .keyE => pure { st with ruleName := (e.b, e.e), rs := .valueBegin }
    | .objE => pure { st with rs := .commentTextBegin }
    | _ => throw (.loader e.b)
  | .valueBegin =>
    match e.ty with
    | .newLine => pure st
    | .valB => pure { st with rs := .value }
    | _ => throw (.loader e.b)
  | .value =>
    if st.rsCount == 0 then throw (.ruleWithoutExample e.b)
    else if st.rsCount != 1 then throw (.ruleForSeveralNode e.b)
    else
      let name := nameOf src st.ruleName
      let isEmb := name == "or".toUTF8.toList || name == "enum".toUTF8.toList || name == "allOf".toUTF8.toList
      if isEmb then
        let st1 := addRule st (.inl st.ruleName)
        match e.ty with
        | .arrB | .objB => pure { st1 with rs := .embContainer 1 }
        | .litB => pure { st1 with rs := .embLiteral }
        | .mixB => pure { st1 with rs := .embShortcut }
        | _ => throw (.loader e.b)
      else
        match e.ty with
        | .litB => pure { st with rs := .valueLiteral }
        | _ => throw (.ruleValueType e.b)
  | .valueLiteral =>
    match e.ty with
    | .litE => pure { (addRule st (.inl st.ruleName) (some (e.b, e.e))) with rs := .valueEnd }
    | _ => throw (.loader e.b)
  | .embContainer d =>
    match e.ty with
    | .arrB | .objB => pure { st with rs := .embContainer (d + 1) }
    | .arrE | .objE =>
      if d == 1 then pure { (setLastVal st (e.b, e.e)) with rs := .valueEnd } else pure { st with rs := .embContainer (d - 1) }
    | _ => pure st
  | .embLiteral =>
    match e.ty with
    | .litE => pure { (setLastVal st (e.b, e.e)) with rs := .valueEnd }
    | _ => pure st
  | .embShortcut =>
    match e.ty with
    | .tsE => pure { (setLastVal st (e.b, e.e)) with rs := .valueEnd }
    | _ => pure st
  | .valueEnd =>
    match e.ty with
    | .valE => pure { st with rs := .keyOrObjectEnd }
    | .mixE => pure { st with rs := .objectEndAfterRuleName }
    | _ => throw (.loader e.b)
  | .endOfLoading => throw (.loader e.b)

def hasPipe (bs : List UInt8) : Bool := bs.any (· == 124)

/-- `loader.handleLex` + the dispatch of `doLoad` -/
def step (src : Array UInt8) (st : St) (e : Ev) : M St :=
  let inAnn := st.mode != .default
  let startRule (m : Mode) : St := { st with mode := m, rs := .begin, rsNode := st.last, rsCount := st.perLine }
  let dispatch : M St := if inAnn then ruleLoad src st e else nodeLoad src st e
  match e.ty with
  | .tsB | .ksB => if inAnn then dispatch else pure st
  | .tsE =>
    if inAnn then dispatch
    else
      -- addShortcutConstraint(lastAddedNode): `@a | @b` → types list + or, `@a` → type
      match st.last with
      | some i =>
        let nm := if hasPipe (slice src e.b e.e) then "or" else "type"
        pure (updNode st i (fun n => { n with rules := n.rules ++ [.inr nm], ruleVals := n.ruleVals ++ [some (e.b, e.e)] }))
      | none => throw (.internal "shortcut without node")
  | .mlAnnB => pure (startRule .multi)
  | .mlAnnE => pure { st with mode := .default }
  | .inlAnnB => if st.mode == .default then pure (startRule .inline) else dispatch
  | .inlAnnE => if st.mode == .inline then pure { st with mode := .default } else dispatch
  | _ => dispatch

def load (src : Array UInt8) (evs : List Ev) : M St := evs.foldlM (step src) {}

def showLErr : LErr → String
  | .loader p => s!"ERR 801 {p}"
  | .ruleValueType p => s!"ERR 802 {p}"
  | .ruleWithoutExample p => s!"ERR 803 {p}"
  | .ruleForSeveralNode p => s!"ERR 804 {p}"
  | .duplicateKey p => s!"ERR 402 {p}"
  | .invalidName p => s!"ERR 701 {p}"
  | .internal w => s!"PANIC {w}"

/-- `loader.doLoad`: the loader consumes every lexical event as soon as `Scanner.Next()` delivers it, so an
error of the loader on an earlier event comes before a scanner error on a later byte -/
def loadLoop (src : Array UInt8) (data : Array SchemaScan.Cls) : Nat → SchemaScan.Sc → St → Except String St
  | 0, _, _ => .error "PANIC load: fuel exhausted"
  | fuel + 1, sc, st =>
    match SchemaScan.next data (3 * data.size + 16) sc with
    | .error e => .error (SchemaScan.showErr e)
    | .ok none => .ok st
    | .ok (some (sc', e)) =>
      match step src st e with
      | .error le => .error (showLErr le)
      | .ok st' => loadLoop src data fuel sc' st'

/-- scanner model + loader model: schema text → node tree -/
def loadText (bs : List UInt8) : Except String St :=
  let data := (bs.map SchemaScan.classify).toArray
  loadLoop bs.toArray data (8 * data.size + 16) {} {}

end Loader
