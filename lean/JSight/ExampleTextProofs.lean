import JSight.ExampleText
import JSight.LoaderTree
import JSight.SchemaEventsJson
import JSight.Example
/-!
C15, second sentence, end to end on TEXT: for every JSON value written with any layout (blanks, tabs, line breaks
wherever the grammar allows white space) the composition

    bytes → schema scanner model → loader model → node table → example builder (`Loader.exBuild`)

returns the compact form of the value: no white space, items / members in source order, every scalar and key
token byte for byte as written (`BT.compact`).

* `BT` — byte-level JSON trees with layout; `BT.render` the text, `BT.compact` the text without layout,
  `BT.cls` the class-level tree (`SchemaScan.Tree`) the scanner theorems speak about.
* `exBuild_nodesOf` — the builder on the node table `nodesOf` of a tree emits `compactAt` (token slices by offset).
* `compactAt_eq` — on the text of a byte tree those slices are the tokens.
* `plain_text_roundtrip` — the composition; `plain_result_is_json` — the result under the JSON scanner model.

Layout = white space only (`SchemaScan.IsWs`): the events-of-a-tree theorems (`SchemaEvents*`, `LoaderTree*`) do
not cover user comments / annotations inside the layout; those are exercised by the harness `c15-text` only.
-/
namespace Loader
open SchemaScan (Cls Tree classify)

/-! ### what the builder emits on `nodesOf`, by offsets -/

mutual
def compactAt (src : Array UInt8) : Nat → Tree → List UInt8
  | o, .scalar tok => slice src o (o + tok.length - 1)
  | o, .arr ws0 its => 91 :: (joinB (compactItems src (o + 1 + ws0.length) its) ++ [93])
  | o, .obj ws0 ms => 123 :: (joinB (compactMembers src (o + 1 + ws0.length) ms) ++ [125])
def compactItems (src : Array UInt8) : Nat → List Item → List (List UInt8)
  | _, [] => []
  | o, (w1, v, w2) :: its => compactAt src (o + w1.length) v :: compactItems src (nextItem o w1 v w2 its) its
def compactMembers (src : Array UInt8) : Nat → List Member → List (List UInt8)
  | _, [] => []
  | o, (w1, k, w2, w3, v, w4) :: ms =>
    (slice src (o + w1.length) (o + w1.length + k.length - 1) ++ 58 :: compactAt src (valOff o w1 k w2 w3) v) ::
      compactMembers src (nextMember o w1 k w2 w3 v w4 ms) ms
end

theorem getElem?_toArray_mid (pre : List Node) (x : Node) (post : List Node) :
    (pre ++ (x :: post)).toArray[pre.length]? = some x := by simp

theorem keysMembers_length : (ms : List Member) → (o : Nat) → (keysMembers o ms).length = ms.length
  | [], _ => rfl
  | (w1, k, w2, w3, v, w4) :: ms, o => by simp [keysMembers, keysMembers_length ms]

theorem idxMembers_length : (ms : List Member) → (n : Nat) → (idxMembers n ms).length = ms.length
  | [], _ => rfl
  | (w1, k, w2, w3, v, w4) :: ms, n => by simp [idxMembers, idxMembers_length ms]

theorem keysMembers_plain : (ms : List Member) → (o : Nat) → (keysMembers o ms).any (·.2.2) = false
  | [], _ => rfl
  | (w1, k, w2, w3, v, w4) :: ms, o => by simp [keysMembers, keysMembers_plain ms]

theorem nodeCount_pos (v : Tree) : 1 ≤ nodeCount v := by
  cases v <;> simp [nodeCount] <;> omega

def arrNode' (par : Option Nat) (cs : List Nat) : Node := { kind := .arr, parent := par, children := cs }
def objNode' (par : Option Nat) (cs : List Nat) (ks : List (Nat × Nat × Bool)) : Node :=
  { kind := .obj, parent := par, children := cs, keys := ks }

section build
variable (src : Array UInt8)

mutual
theorem exBuild_nodesOf : (v : Tree) → (pre post : List Node) → (par : Option Nat) → (o fuel : Nat) →
    nodeCount v ≤ fuel →
    exBuild src (pre ++ (nodesOf par pre.length o v ++ post)).toArray fuel pre.length = some (compactAt src o v)
  | .scalar tok, pre, post, par, o, fuel, hf => by
    obtain ⟨f, rfl⟩ : ∃ f, fuel = f + 1 := ⟨fuel - 1, by simp [nodeCount] at hf; omega⟩
    simp only [nodesOf, List.cons_append, List.nil_append, exBuild, getElem?_toArray_mid]
    simp [compactAt]
  | .arr ws0 its, pre, post, par, o, fuel, hf => by
    obtain ⟨f, rfl⟩ : ∃ f, fuel = f + 1 := ⟨fuel - 1, by simp [nodeCount] at hf; omega⟩
    have hf' : countItems its ≤ f := by simp [nodeCount] at hf; omega
    simp only [nodesOf, List.cons_append, exBuild, getElem?_toArray_mid]
    have h := exKids_nodesItems its (pre ++ [arrNode' par (idxItems (pre.length + 1) its)]) post pre.length
      (o + 1 + ws0.length) f hf'
    simp only [List.length_append, List.length_cons, List.length_nil, List.append_assoc, List.cons_append,
      List.nil_append, Nat.zero_add, arrNode'] at h
    simp [h, compactAt]
  | .obj ws0 ms, pre, post, par, o, fuel, hf => by
    obtain ⟨f, rfl⟩ : ∃ f, fuel = f + 1 := ⟨fuel - 1, by simp [nodeCount] at hf; omega⟩
    have hf' : countMembers ms ≤ f := by simp [nodeCount] at hf; omega
    simp only [nodesOf, List.cons_append, exBuild, getElem?_toArray_mid]
    have h := exProps_nodesMembers ms
      (pre ++ [objNode' par (idxMembers (pre.length + 1) ms) (keysMembers (o + 1 + ws0.length) ms)]) post pre.length
      (o + 1 + ws0.length) f hf'
    simp only [List.length_append, List.length_cons, List.length_nil, List.append_assoc, List.cons_append,
      List.nil_append, Nat.zero_add, objNode'] at h
    simp [h, compactAt, keysMembers_length, idxMembers_length, keysMembers_plain]
theorem exKids_nodesItems : (its : List Item) → (pre post : List Node) → (a o fuel : Nat) → countItems its ≤ fuel →
    (idxItems pre.length its).mapM (exBuild src (pre ++ (nodesItems a pre.length o its ++ post)).toArray fuel)
      = some (compactItems src o its)
  | [], _, _, _, _, _, _ => by simp [idxItems, compactItems]
  | (w1, v, w2) :: its, pre, post, a, o, fuel, hf => by
    have hv : nodeCount v ≤ fuel := by simp [countItems] at hf; omega
    have hr : countItems its ≤ fuel := by simp [countItems] at hf; omega
    have h1 := exBuild_nodesOf v pre (nodesItems a (pre.length + nodeCount v) (nextItem o w1 v w2 its) its ++ post)
      (some a) (o + w1.length) fuel hv
    have h2 := exKids_nodesItems its (pre ++ nodesOf (some a) pre.length (o + w1.length) v) post a
      (nextItem o w1 v w2 its) fuel hr
    simp only [List.length_append, nodesOf_length, List.append_assoc] at h2
    simp only [idxItems, nodesItems, compactItems, List.append_assoc, List.mapM_cons, h1, h2]
    rfl
theorem exProps_nodesMembers : (ms : List Member) → (pre post : List Node) → (a o fuel : Nat) → countMembers ms ≤ fuel →
    ((keysMembers o ms).zip (idxMembers pre.length ms)).mapM (fun kc =>
        (exBuild src (pre ++ (nodesMembers a pre.length o ms ++ post)).toArray fuel kc.2).map fun ex =>
          slice src kc.1.1 kc.1.2.1 ++ 58 :: ex)
      = some (compactMembers src o ms)
  | [], _, _, _, _, _, _ => by simp [keysMembers, idxMembers, compactMembers]
  | (w1, k, w2, w3, v, w4) :: ms, pre, post, a, o, fuel, hf => by
    have hv : nodeCount v ≤ fuel := by simp [countMembers] at hf; omega
    have hr : countMembers ms ≤ fuel := by simp [countMembers] at hf; omega
    have h1 := exBuild_nodesOf v pre
      (nodesMembers a (pre.length + nodeCount v) (nextMember o w1 k w2 w3 v w4 ms) ms ++ post)
      (some a) (valOff o w1 k w2 w3) fuel hv
    have h2 := exProps_nodesMembers ms (pre ++ nodesOf (some a) pre.length (valOff o w1 k w2 w3) v) post a
      (nextMember o w1 k w2 w3 v w4 ms) fuel hr
    simp only [List.length_append, nodesOf_length, List.append_assoc] at h2
    simp only [keysMembers, idxMembers, nodesMembers, compactMembers, List.append_assoc, List.zip_cons_cons,
      List.mapM_cons, h1, h2]
    rfl
end

end build

/-! ### byte-level trees -/

/-- a JSON value as BYTES with its layout: white space at every place JSON allows it -/
inductive BT
  | scalar (tok : List UInt8)
  | arr (ws0 : List UInt8) (items : List (List UInt8 × BT × List UInt8))
  | obj (ws0 : List UInt8) (members : List (List UInt8 × List UInt8 × List UInt8 × List UInt8 × BT × List UInt8))

abbrev BItem := List UInt8 × BT × List UInt8
abbrev BMember := List UInt8 × List UInt8 × List UInt8 × List UInt8 × BT × List UInt8

mutual
/-- the text -/
def BT.render : BT → List UInt8
  | .scalar tok => tok
  | .arr ws0 items => 91 :: (ws0 ++ renderItemsB items)
  | .obj ws0 members => 123 :: (ws0 ++ renderMembersB members)
def renderItemsB : List BItem → List UInt8
  | [] => [93]
  | (w1, v, w2) :: its => w1 ++ (v.render ++ (w2 ++ ((if its.isEmpty then [] else [44]) ++ renderItemsB its)))
def renderMembersB : List BMember → List UInt8
  | [] => [125]
  | (w1, k, w2, w3, v, w4) :: ms =>
    w1 ++ (k ++ (w2 ++ (58 :: (w3 ++ (v.render ++ (w4 ++ ((if ms.isEmpty then [] else [44]) ++ renderMembersB ms)))))))
end

mutual
/-- the text without layout: tokens byte for byte, items / members in source order -/
def BT.compact : BT → List UInt8
  | .scalar tok => tok
  | .arr _ items => 91 :: (joinB (compactItemsB items) ++ [93])
  | .obj _ members => 123 :: (joinB (compactMembersB members) ++ [125])
def compactItemsB : List BItem → List (List UInt8)
  | [] => []
  | (_, v, _) :: its => v.compact :: compactItemsB its
def compactMembersB : List BMember → List (List UInt8)
  | [] => []
  | (_, k, _, _, v, _) :: ms => (k ++ 58 :: v.compact) :: compactMembersB ms
end

mutual
/-- the class-level tree the scanner theorems speak about -/
def BT.cls : BT → Tree
  | .scalar tok => .scalar (tok.map classify)
  | .arr ws0 items => .arr (ws0.map classify) (clsItems items)
  | .obj ws0 members => .obj (ws0.map classify) (clsMembers members)
def clsItems : List BItem → List Item
  | [] => []
  | (w1, v, w2) :: its => (w1.map classify, v.cls, w2.map classify) :: clsItems its
def clsMembers : List BMember → List Member
  | [] => []
  | (w1, k, w2, w3, v, w4) :: ms =>
    (w1.map classify, k.map classify, w2.map classify, w3.map classify, v.cls, w4.map classify) :: clsMembers ms
end

mutual
/-- the keys of every object are pairwise distinct after decoding -/
def BT.KeysDistinct : BT → Prop
  | .scalar _ => True
  | .arr _ items => DistinctItemsB items
  | .obj _ members => (members.map fun m => Unquote.unquote m.2.1).Nodup ∧ DistinctMembersB members
def DistinctItemsB : List BItem → Prop
  | [] => True
  | (_, v, _) :: its => v.KeysDistinct ∧ DistinctItemsB its
def DistinctMembersB : List BMember → Prop
  | [] => True
  | (_, _, _, _, v, _) :: ms => v.KeysDistinct ∧ DistinctMembersB ms
end

theorem clsItems_isEmpty (its : List BItem) : (clsItems its).isEmpty = its.isEmpty := by
  cases its with
  | nil => rfl
  | cons i _ => obtain ⟨_, _, _⟩ := i; rfl

theorem clsMembers_isEmpty (ms : List BMember) : (clsMembers ms).isEmpty = ms.isEmpty := by
  cases ms with
  | nil => rfl
  | cons m _ => obtain ⟨_, _, _, _, _, _⟩ := m; rfl

mutual
theorem cls_render : (t : BT) → t.cls.render = t.render.map classify
  | .scalar tok => by simp [BT.cls, BT.render, Tree.render]
  | .arr ws0 items => by
    simp only [BT.cls, BT.render, Tree.render, List.map_cons, List.map_append, clsItems_render items]
    rfl
  | .obj ws0 members => by
    simp only [BT.cls, BT.render, Tree.render, List.map_cons, List.map_append, clsMembers_render members]
    rfl
theorem clsItems_render : (its : List BItem) → SchemaScan.renderItems (clsItems its) = (renderItemsB its).map classify
  | [] => rfl
  | (w1, v, w2) :: its => by
    simp only [clsItems, SchemaScan.renderItems, renderItemsB, List.map_append, cls_render v, clsItems_render its,
      clsItems_isEmpty]
    cases its.isEmpty <;> rfl
theorem clsMembers_render : (ms : List BMember) →
    SchemaScan.renderMembers (clsMembers ms) = (renderMembersB ms).map classify
  | [] => rfl
  | (w1, k, w2, w3, v, w4) :: ms => by
    simp only [clsMembers, SchemaScan.renderMembers, renderMembersB, List.map_append, List.map_cons, cls_render v,
      clsMembers_render ms, clsMembers_isEmpty]
    cases ms.isEmpty <;> rfl
end

theorem cls_render_length (t : BT) : t.cls.render.length = t.render.length := by
  rw [cls_render, List.length_map]

/-! ### segments of the source -/

/-- the bytes `bs` stand at offset `o` of `src` -/
def AtB (src : Array UInt8) (o : Nat) (bs : List UInt8) : Prop := (src.toList.drop o).take bs.length = bs

theorem AtB.split {src : Array UInt8} {o : Nat} {a b : List UInt8} (h : AtB src o (a ++ b)) :
    AtB src o a ∧ AtB src (o + a.length) b := by
  unfold AtB at h ⊢
  rw [List.length_append] at h
  constructor
  · have := congrArg (List.take a.length) h
    rw [List.take_take] at this
    simpa [Nat.min_eq_left (Nat.le_add_right _ _)] using this
  · have := congrArg (List.drop a.length) h
    rw [List.drop_take, List.drop_drop] at this
    simpa [Nat.add_comm] using this

theorem AtB.cons {src : Array UInt8} {o : Nat} {c : UInt8} {b : List UInt8} (h : AtB src o (c :: b)) :
    AtB src (o + 1) b := by
  have := AtB.split (a := [c]) (b := b) h
  simpa using this.2

theorem slice_of_AtB {src : Array UInt8} {o : Nat} {tok : List UInt8} (h : AtB src o tok) (hne : tok ≠ []) :
    slice src o (o + tok.length - 1) = tok := by
  unfold AtB at h
  unfold slice
  have : 1 ≤ tok.length := by
    cases tok with
    | nil => exact absurd rfl hne
    | cons _ _ => simp
  rw [show o + tok.length - 1 + 1 - o = tok.length by omega]
  exact h

theorem AtB_whole (bs : List UInt8) : AtB bs.toArray 0 bs := by simp [AtB]

theorem isScalar_ne_nil {tok : List Cls} (h : SchemaScan.IsScalar tok) : tok ≠ [] := by
  obtain ⟨c, tl, _, _, _, rfl, _⟩ := h
  simp

theorem isKey_ne_nil {k : List Cls} (h : SchemaScan.IsKey k) : k ≠ [] := by
  obtain ⟨tl, rfl, _⟩ := h
  simp

theorem map_ne_nil {α β : Type} {f : α → β} {l : List α} (h : l.map f ≠ []) : l ≠ [] := by
  intro e; subst e; exact h rfl

/-! ### the offset slices are the tokens -/

section tokens
variable (src : Array UInt8)

mutual
theorem compactAt_eq : (t : BT) → (o : Nat) → t.cls.Valid → AtB src o t.render → compactAt src o t.cls = t.compact
  | .scalar tok, o, hv, hat => by
    have hs : SchemaScan.IsScalar (tok.map classify) := by simpa [BT.cls, Tree.Valid] using hv
    have hne : tok ≠ [] := map_ne_nil (isScalar_ne_nil hs)
    simp only [BT.cls, compactAt, BT.compact, List.length_map]
    exact slice_of_AtB hat hne
  | .arr ws0 items, o, hv, hat => by
    obtain ⟨_, hi⟩ : SchemaScan.IsWs (ws0.map classify) ∧ SchemaScan.ValidItems (clsItems items) := by
      simpa [BT.cls, Tree.Valid] using hv
    simp only [BT.render] at hat
    have h1 := (AtB.split (AtB.cons hat)).2
    have := compactItems_eq items (o + 1 + ws0.length) hi h1
    simp only [BT.cls, compactAt, BT.compact, List.length_map, this]
  | .obj ws0 members, o, hv, hat => by
    obtain ⟨_, hi⟩ : SchemaScan.IsWs (ws0.map classify) ∧ SchemaScan.ValidMembers (clsMembers members) := by
      simpa [BT.cls, Tree.Valid] using hv
    simp only [BT.render] at hat
    have h1 := (AtB.split (AtB.cons hat)).2
    have := compactMembers_eq members (o + 1 + ws0.length) hi h1
    simp only [BT.cls, compactAt, BT.compact, List.length_map, this]
theorem compactItems_eq : (its : List BItem) → (o : Nat) → SchemaScan.ValidItems (clsItems its) →
    AtB src o (renderItemsB its) → compactItems src o (clsItems its) = compactItemsB its
  | [], _, _, _ => rfl
  | (w1, v, w2) :: its, o, hv, hat => by
    obtain ⟨_, hvv, _, hr⟩ : SchemaScan.IsWs (w1.map classify) ∧ v.cls.Valid ∧ SchemaScan.IsWs (w2.map classify) ∧
        SchemaScan.ValidItems (clsItems its) := by simpa [clsItems, SchemaScan.ValidItems] using hv
    simp only [renderItemsB] at hat
    have a1 := AtB.split hat
    have a2 := AtB.split a1.2
    have a3 := AtB.split a2.2
    have a4 := AtB.split a3.2
    have e1 := compactAt_eq v (o + w1.length) hvv a2.1
    have hoff : nextItem o (w1.map classify) v.cls (w2.map classify) (clsItems its)
        = o + w1.length + v.render.length + w2.length + (if its.isEmpty then [] else [(44 : UInt8)]).length := by
      simp only [nextItem, List.length_map, cls_render_length, clsItems_isEmpty]
      cases its.isEmpty <;> rfl
    have e2 := compactItems_eq its _ hr a4.2
    simp only [clsItems, compactItems, compactItemsB, List.length_map, e1, hoff, e2]
theorem compactMembers_eq : (ms : List BMember) → (o : Nat) → SchemaScan.ValidMembers (clsMembers ms) →
    AtB src o (renderMembersB ms) → compactMembers src o (clsMembers ms) = compactMembersB ms
  | [], _, _, _ => rfl
  | (w1, k, w2, w3, v, w4) :: ms, o, hv, hat => by
    obtain ⟨_, hk, _, _, hvv, _, hr⟩ : SchemaScan.IsWs (w1.map classify) ∧ SchemaScan.IsKey (k.map classify) ∧
        SchemaScan.IsWs (w2.map classify) ∧ SchemaScan.IsWs (w3.map classify) ∧ v.cls.Valid ∧
        SchemaScan.IsWs (w4.map classify) ∧ SchemaScan.ValidMembers (clsMembers ms) := by
      simpa [clsMembers, SchemaScan.ValidMembers] using hv
    simp only [renderMembersB] at hat
    have a1 := AtB.split hat
    have a2 := AtB.split a1.2
    have a3 := AtB.split a2.2
    have a4 := AtB.split (AtB.cons a3.2)
    have a5 := AtB.split a4.2
    have a6 := AtB.split a5.2
    have a7 := AtB.split a6.2
    have hne : k ≠ [] := map_ne_nil (isKey_ne_nil hk)
    have ek := slice_of_AtB a2.1 hne
    have hvo : valOff o (w1.map classify) (k.map classify) (w2.map classify) (w3.map classify)
        = o + w1.length + k.length + w2.length + 1 + w3.length := by
      simp [valOff]
    have e1 := compactAt_eq v _ hvv a5.1
    have hoff : nextMember o (w1.map classify) (k.map classify) (w2.map classify) (w3.map classify) v.cls
          (w4.map classify) (clsMembers ms)
        = o + w1.length + k.length + w2.length + 1 + w3.length + v.render.length + w4.length
            + (if ms.isEmpty then [] else [(44 : UInt8)]).length := by
      simp only [nextMember, hvo, List.length_map, cls_render_length, clsMembers_isEmpty]
      cases ms.isEmpty <;> rfl
    have e2 := compactMembers_eq ms _ hr a7.2
    simp only [clsMembers, compactMembers, compactMembersB, List.length_map, hvo, ek, e1, hoff, e2]
end

/-! ### distinct keys, in the loader's terms -/

theorem keyText_members : (ms : List BMember) → (o : Nat) → SchemaScan.ValidMembers (clsMembers ms) →
    AtB src o (renderMembersB ms) →
    (keysMembers o (clsMembers ms)).map (keyText src) = ms.map fun m => (Unquote.unquote m.2.1, false)
  | [], _, _, _ => rfl
  | (w1, k, w2, w3, v, w4) :: ms, o, hv, hat => by
    obtain ⟨_, hk, _, _, _, _, hr⟩ : SchemaScan.IsWs (w1.map classify) ∧ SchemaScan.IsKey (k.map classify) ∧
        SchemaScan.IsWs (w2.map classify) ∧ SchemaScan.IsWs (w3.map classify) ∧ v.cls.Valid ∧
        SchemaScan.IsWs (w4.map classify) ∧ SchemaScan.ValidMembers (clsMembers ms) := by
      simpa [clsMembers, SchemaScan.ValidMembers] using hv
    simp only [renderMembersB] at hat
    have a1 := AtB.split hat
    have a2 := AtB.split a1.2
    have a3 := AtB.split a2.2
    have a4 := AtB.split (AtB.cons a3.2)
    have a5 := AtB.split a4.2
    have a6 := AtB.split a5.2
    have a7 := AtB.split a6.2
    have hne : k ≠ [] := map_ne_nil (isKey_ne_nil hk)
    have ek := slice_of_AtB a2.1 hne
    have hoff : nextMember o (w1.map classify) (k.map classify) (w2.map classify) (w3.map classify) v.cls
          (w4.map classify) (clsMembers ms)
        = o + w1.length + k.length + w2.length + 1 + w3.length + v.render.length + w4.length
            + (if ms.isEmpty then [] else [(44 : UInt8)]).length := by
      simp only [nextMember, valOff, List.length_map, cls_render_length, clsMembers_isEmpty]
      cases ms.isEmpty <;> rfl
    have e2 := keyText_members ms _ hr a7.2
    simp only [clsMembers, keysMembers, List.map_cons, List.length_map, hoff, e2]
    simp [keyText, ek]

mutual
theorem keysDistinct_of : (t : BT) → (o : Nat) → t.cls.Valid → AtB src o t.render → t.KeysDistinct →
    KeysDistinct src o t.cls
  | .scalar tok, o, _, _, _ => by simp [BT.cls, KeysDistinct]
  | .arr ws0 items, o, hv, hat, hd => by
    obtain ⟨_, hi⟩ : SchemaScan.IsWs (ws0.map classify) ∧ SchemaScan.ValidItems (clsItems items) := by
      simpa [BT.cls, Tree.Valid] using hv
    simp only [BT.render] at hat
    have h1 := (AtB.split (AtB.cons hat)).2
    have := distinctItems_of items (o + 1 + ws0.length) hi h1 (by simpa [BT.KeysDistinct] using hd)
    simpa [BT.cls, KeysDistinct] using this
  | .obj ws0 members, o, hv, hat, hd => by
    obtain ⟨_, hi⟩ : SchemaScan.IsWs (ws0.map classify) ∧ SchemaScan.ValidMembers (clsMembers members) := by
      simpa [BT.cls, Tree.Valid] using hv
    obtain ⟨hn, hm⟩ : (members.map fun m => Unquote.unquote m.2.1).Nodup ∧ DistinctMembersB members := by
      simpa [BT.KeysDistinct] using hd
    simp only [BT.render] at hat
    have h1 := (AtB.split (AtB.cons hat)).2
    have h2 := distinctMembers_of members (o + 1 + ws0.length) hi h1 hm
    have h3 := keyText_members src members (o + 1 + ws0.length) hi h1
    simp only [BT.cls, KeysDistinct, List.length_map]
    refine ⟨?_, h2⟩
    rw [h3]
    rw [List.Nodup, List.pairwise_map] at hn ⊢
    exact hn.imp (fun h e => h (by simpa using congrArg Prod.fst e))
theorem distinctItems_of : (its : List BItem) → (o : Nat) → SchemaScan.ValidItems (clsItems its) →
    AtB src o (renderItemsB its) → DistinctItemsB its → DistinctItems src o (clsItems its)
  | [], _, _, _, _ => by simp [clsItems, DistinctItems]
  | (w1, v, w2) :: its, o, hv, hat, hd => by
    obtain ⟨_, hvv, _, hr⟩ : SchemaScan.IsWs (w1.map classify) ∧ v.cls.Valid ∧ SchemaScan.IsWs (w2.map classify) ∧
        SchemaScan.ValidItems (clsItems its) := by simpa [clsItems, SchemaScan.ValidItems] using hv
    obtain ⟨d1, d2⟩ : v.KeysDistinct ∧ DistinctItemsB its := by simpa [DistinctItemsB] using hd
    simp only [renderItemsB] at hat
    have a1 := AtB.split hat
    have a2 := AtB.split a1.2
    have a3 := AtB.split a2.2
    have a4 := AtB.split a3.2
    have e1 := keysDistinct_of v (o + w1.length) hvv a2.1 d1
    have hoff : nextItem o (w1.map classify) v.cls (w2.map classify) (clsItems its)
        = o + w1.length + v.render.length + w2.length + (if its.isEmpty then [] else [(44 : UInt8)]).length := by
      simp only [nextItem, List.length_map, cls_render_length, clsItems_isEmpty]
      cases its.isEmpty <;> rfl
    have e2 := distinctItems_of its _ hr a4.2 d2
    simp only [clsItems, DistinctItems, List.length_map, hoff]
    exact ⟨e1, e2⟩
theorem distinctMembers_of : (ms : List BMember) → (o : Nat) → SchemaScan.ValidMembers (clsMembers ms) →
    AtB src o (renderMembersB ms) → DistinctMembersB ms → DistinctMembers src o (clsMembers ms)
  | [], _, _, _, _ => by simp [clsMembers, DistinctMembers]
  | (w1, k, w2, w3, v, w4) :: ms, o, hv, hat, hd => by
    obtain ⟨_, _, _, _, hvv, _, hr⟩ : SchemaScan.IsWs (w1.map classify) ∧ SchemaScan.IsKey (k.map classify) ∧
        SchemaScan.IsWs (w2.map classify) ∧ SchemaScan.IsWs (w3.map classify) ∧ v.cls.Valid ∧
        SchemaScan.IsWs (w4.map classify) ∧ SchemaScan.ValidMembers (clsMembers ms) := by
      simpa [clsMembers, SchemaScan.ValidMembers] using hv
    obtain ⟨d1, d2⟩ : v.KeysDistinct ∧ DistinctMembersB ms := by simpa [DistinctMembersB] using hd
    simp only [renderMembersB] at hat
    have a1 := AtB.split hat
    have a2 := AtB.split a1.2
    have a3 := AtB.split a2.2
    have a4 := AtB.split (AtB.cons a3.2)
    have a5 := AtB.split a4.2
    have a6 := AtB.split a5.2
    have a7 := AtB.split a6.2
    have hvo : valOff o (w1.map classify) (k.map classify) (w2.map classify) (w3.map classify)
        = o + w1.length + k.length + w2.length + 1 + w3.length := by
      simp [valOff]
    have e1 := keysDistinct_of v _ hvv a5.1 d1
    have hoff : nextMember o (w1.map classify) (k.map classify) (w2.map classify) (w3.map classify) v.cls
          (w4.map classify) (clsMembers ms)
        = o + w1.length + k.length + w2.length + 1 + w3.length + v.render.length + w4.length
            + (if ms.isEmpty then [] else [(44 : UInt8)]).length := by
      simp only [nextMember, hvo, List.length_map, cls_render_length, clsMembers_isEmpty]
      cases ms.isEmpty <;> rfl
    have e2 := distinctMembers_of ms _ hr a7.2 d2
    simp only [clsMembers, DistinctMembers, hvo, hoff]
    exact ⟨e1, e2⟩
end

end tokens

/-! ### the composition -/

/-- **C15, second sentence, on text.** Scanner model, loader model and example builder, run one after the other on
the text of any JSON value with any white-space layout (and any white space around it), return the value's compact
text: tokens byte for byte as written, source order, no white space. -/
theorem plain_text_roundtrip (t : BT) (hv : t.cls.Valid) (ws0 ws1 : List UInt8)
    (h0 : SchemaScan.IsWs (ws0.map classify)) (h1 : SchemaScan.IsWs (ws1.map classify)) (hd : t.KeysDistinct) :
    exampleText (ws0 ++ (t.render ++ ws1)) = .ok t.compact := by
  have hbs : (ws0 ++ (t.render ++ ws1)).map classify = ws0.map classify ++ (t.cls.render ++ ws1.map classify) := by
    simp [cls_render]
  have hat : AtB (ws0 ++ (t.render ++ ws1)).toArray ws0.length t.render := by
    have := (AtB.split (AtB_whole (ws0 ++ (t.render ++ ws1)))).2
    simpa using (AtB.split this).1
  have hkd := keysDistinct_of _ t ws0.length hv hat hd
  obtain ⟨st, hl, hr, hn⟩ := C16_loadText_mirrors_tree t.cls hv _ _ h0 h1 _ hbs (by simpa using hkd)
  have hnodes : st.nodes = (nodesOf none 0 (ws0.map classify).length t.cls).toArray := by
    rw [← hn]
  have hsz : st.nodes.size = nodeCount t.cls := by
    rw [hnodes, List.size_toArray, nodesOf_length]
  have hb := exBuild_nodesOf (ws0 ++ (t.render ++ ws1)).toArray t.cls [] [] none (ws0.map classify).length
    (st.nodes.size + 1) (by omega)
  simp only [List.nil_append, List.append_nil, List.length_nil] at hb
  rw [← hnodes] at hb
  unfold exampleText
  simp only [hl, hr, hb]
  rw [List.length_map, compactAt_eq _ t ws0.length hv hat]

/-! ### the result under the JSON scanner model -/

mutual
/-- the tree without layout -/
def BT.strip : BT → BT
  | .scalar tok => .scalar tok
  | .arr _ items => .arr [] (stripItemsB items)
  | .obj _ members => .obj [] (stripMembersB members)
def stripItemsB : List BItem → List BItem
  | [] => []
  | (_, v, _) :: its => ([], v.strip, []) :: stripItemsB its
def stripMembersB : List BMember → List BMember
  | [] => []
  | (_, k, _, _, v, _) :: ms => ([], k, [], [], v.strip, []) :: stripMembersB ms
end

theorem stripItemsB_isEmpty (its : List BItem) : (stripItemsB its).isEmpty = its.isEmpty := by
  cases its with
  | nil => rfl
  | cons i _ => obtain ⟨_, _, _⟩ := i; rfl

theorem stripMembersB_isEmpty (ms : List BMember) : (stripMembersB ms).isEmpty = ms.isEmpty := by
  cases ms with
  | nil => rfl
  | cons m _ => obtain ⟨_, _, _, _, _, _⟩ := m; rfl

theorem compactItemsB_isEmpty (its : List BItem) : (compactItemsB its).isEmpty = its.isEmpty := by
  cases its with
  | nil => rfl
  | cons i _ => obtain ⟨_, _, _⟩ := i; rfl

theorem compactMembersB_isEmpty (ms : List BMember) : (compactMembersB ms).isEmpty = ms.isEmpty := by
  cases ms with
  | nil => rfl
  | cons m _ => obtain ⟨_, _, _, _, _, _⟩ := m; rfl

mutual
/-- the compact text is the text of the tree without layout -/
theorem strip_render : (t : BT) → t.strip.render = t.compact
  | .scalar tok => rfl
  | .arr ws0 items => by simp [BT.strip, BT.render, BT.compact, stripItems_render items]
  | .obj ws0 members => by simp [BT.strip, BT.render, BT.compact, stripMembers_render members]
theorem stripItems_render : (its : List BItem) → renderItemsB (stripItemsB its) = joinB (compactItemsB its) ++ [93]
  | [] => rfl
  | (w1, v, w2) :: its => by
    simp [stripItemsB, renderItemsB, compactItemsB, joinB, strip_render v, stripItems_render its,
      stripItemsB_isEmpty, compactItemsB_isEmpty]
theorem stripMembers_render : (ms : List BMember) →
    renderMembersB (stripMembersB ms) = joinB (compactMembersB ms) ++ [125]
  | [] => rfl
  | (w1, k, w2, w3, v, w4) :: ms => by
    simp [stripMembersB, renderMembersB, compactMembersB, joinB, strip_render v, stripMembers_render ms,
      stripMembersB_isEmpty, compactMembersB_isEmpty]
end

theorem isWs_nil : SchemaScan.IsWs [] := fun _ h => by simp at h

mutual
theorem strip_json : (t : BT) → t.cls.Json → t.strip.cls.Json
  | .scalar tok, h => by simpa [BT.strip, BT.cls, Tree.Json] using h
  | .arr ws0 items, h => by
    obtain ⟨_, hi⟩ : SchemaScan.IsWs (ws0.map classify) ∧ SchemaScan.JsonItems (clsItems items) := by
      simpa [BT.cls, Tree.Json] using h
    simpa [BT.strip, BT.cls, Tree.Json] using And.intro isWs_nil (stripItems_json items hi)
  | .obj ws0 members, h => by
    obtain ⟨_, hi⟩ : SchemaScan.IsWs (ws0.map classify) ∧ SchemaScan.JsonMembers (clsMembers members) := by
      simpa [BT.cls, Tree.Json] using h
    simpa [BT.strip, BT.cls, Tree.Json] using And.intro isWs_nil (stripMembers_json members hi)
theorem stripItems_json : (its : List BItem) → SchemaScan.JsonItems (clsItems its) →
    SchemaScan.JsonItems (clsItems (stripItemsB its))
  | [], _ => by simp [stripItemsB, clsItems, SchemaScan.JsonItems]
  | (w1, v, w2) :: its, h => by
    obtain ⟨_, hv, _, hr⟩ : SchemaScan.IsWs (w1.map classify) ∧ v.cls.Json ∧ SchemaScan.IsWs (w2.map classify) ∧
        SchemaScan.JsonItems (clsItems its) := by simpa [clsItems, SchemaScan.JsonItems] using h
    simpa [stripItemsB, clsItems, SchemaScan.JsonItems] using
      And.intro isWs_nil (And.intro (strip_json v hv) (And.intro isWs_nil (stripItems_json its hr)))
theorem stripMembers_json : (ms : List BMember) → SchemaScan.JsonMembers (clsMembers ms) →
    SchemaScan.JsonMembers (clsMembers (stripMembersB ms))
  | [], _ => by simp [stripMembersB, clsMembers, SchemaScan.JsonMembers]
  | (w1, k, w2, w3, v, w4) :: ms, h => by
    obtain ⟨_, hk, _, _, hv, _, hr⟩ : SchemaScan.IsWs (w1.map classify) ∧ SchemaScan.KeyTok (k.map classify) ∧
        SchemaScan.IsWs (w2.map classify) ∧ SchemaScan.IsWs (w3.map classify) ∧ v.cls.Json ∧
        SchemaScan.IsWs (w4.map classify) ∧ SchemaScan.JsonMembers (clsMembers ms) := by
      simpa [clsMembers, SchemaScan.JsonMembers] using h
    simpa [stripMembersB, clsMembers, SchemaScan.JsonMembers] using
      And.intro isWs_nil (And.intro hk (And.intro isWs_nil (And.intro isWs_nil (And.intro (strip_json v hv)
        (And.intro isWs_nil (stripMembers_json ms hr))))))
end

/-- **the result is JSON**: the JSON scanner model reads the compact text as exactly the events of the value
without layout (so it is accepted, C05 / C06) -/
theorem plain_result_is_json (allow : Bool) (t : BT) (hj : t.cls.Json) :
    JsonScan.events allow t.compact = .ok (JsonScan.evsAt 0 t.strip.cls.toJA) := by
  have hv := SchemaScan.valid_toJA t.strip.cls (strip_json t hj)
  have hcls : t.compact.map JsonScan.classify = [] ++ (t.strip.cls.toJA.render ++ []) := by
    rw [SchemaScan.map_classify_toJ, ← strip_render, ← cls_render, SchemaScan.render_toJA]; simp
  have hl : t.compact.length = ([] ++ (t.strip.cls.toJA.render ++ [])).length := by
    rw [← hcls, List.length_map]
  unfold JsonScan.events
  rw [hcls, hl]
  exact JsonScan.C06_events_of_tree allow _ hv [] [] (fun _ h => by simp at h) (fun _ h => by simp at h)

/-! ### non-vacuity: the sample text of `SchemaEventsTree` (line breaks LF and CR LF, tabs, nesting, escapes) -/

/-- ` {⏎"a\n" :⏎ [1, true,␍⏎⇥-0.50 ] ,⏎⏎ "\u00e9": { }⏎}⏎ ` as a byte tree (without the outer blanks) -/
def sampleBT : BT :=
  .obj [10] [
    ([], [34, 97, 92, 110, 34], [32], [10, 32],
      .arr [] [([], .scalar [49], []), ([32], .scalar [116, 114, 117, 101], []),
               ([13, 10, 9], .scalar [45, 48, 46, 53, 48], [32])], [32]),
    ([10, 10, 32], [34, 92, 117, 48, 48, 101, 57, 34], [], [32], .obj [32] [], [10])]

theorem sampleBT_cls : sampleBT.cls = SchemaScan.sampleTree := by
  have c : ∀ b : UInt8, ∀ k : Cls, (classify b == k) = true → classify b = k := fun _ _ h => by simpa using h
  simp only [sampleBT, BT.cls, clsItems, clsMembers, SchemaScan.sampleTree, List.map_cons, List.map_nil,
    c 10 .nl (by decide), c 34 .quote (by decide), c 97 .la (by decide), c 92 .bslash (by decide), c 110 .ln (by decide),
    c 32 .sp (by decide), c 49 .d19 (by decide), c 116 .lt (by decide), c 114 .lr (by decide), c 117 .lu (by decide),
    c 101 .le (by decide), c 13 .nl (by decide), c 9 .tab (by decide), c 45 .minus (by decide), c 48 .zero (by decide),
    c 46 .dot (by decide), c 53 .d19 (by decide), c 57 .d19 (by decide)]
theorem sampleBT_text : [32] ++ (sampleBT.render ++ [10, 32]) = SchemaScan.sampleBytes := by decide
theorem sampleBT_distinct : sampleBT.KeysDistinct := by
  simp only [sampleBT, BT.KeysDistinct, DistinctMembersB, DistinctItemsB, List.map_cons, List.map_nil]
  decide

/-- `{"a\n":[1,true,-0.50],"\u00e9":{}}` -/
theorem sample_roundtrip : exampleText SchemaScan.sampleBytes
    = .ok [123, 34, 97, 92, 110, 34, 58, 91, 49, 44, 116, 114, 117, 101, 44, 45, 48, 46, 53, 48, 93, 44,
           34, 92, 117, 48, 48, 101, 57, 34, 58, 123, 125, 125] := by
  rw [← sampleBT_text, plain_text_roundtrip sampleBT (by rw [sampleBT_cls]; exact SchemaScan.sampleTree_valid) [32] [10, 32]
    (by intro c h; simp at h; subst h; decide) (by intro c h; simp at h; rcases h with h | h <;> subst h <;> decide)
    sampleBT_distinct]
  rfl

/-! ### the glue to the abstract builder model `EX.build`

`toEX` reads the loader's node table as a schema of the `EX` model (tokens as byte classes); on it `EX.build`
(the model of `C15_wellformed` / `C15_build_is_render`, tied by `example-diff`) emits the classes of the bytes
`exBuild` emits. -/

def toEX (src : Array UInt8) (nodes : Array Node) : Nat → Nat → Option EX.N
  | 0, _ => none
  | fuel + 1, i =>
    match nodes[i]? with
    | none => none
    | some nd =>
      if nd.rules.isEmpty then
        match nd.kind with
        | .lit => nd.value.map fun sp => .lit ((slice src sp.1 sp.2).map JsonScan.classify)
        | .mixed => none
        | .arr => (nd.children.mapM (toEX src nodes fuel)).map .arr
        | .obj =>
          if nd.keys.length != nd.children.length || nd.keys.any (·.2.2) then none
          else
            ((nd.keys.zip nd.children).mapM fun kc =>
              (toEX src nodes fuel kc.2).map fun n => ((slice src kc.1.1 kc.1.2.1).map JsonScan.classify, n)).map .obj
      else none

theorem joinB_classes (parts : List (List UInt8)) :
    (joinB parts).map JsonScan.classify = EX.joinC (parts.map (·.map JsonScan.classify)) := by
  induction parts with
  | nil => rfl
  | cons x rest ih =>
    simp only [joinB, EX.joinC, List.map_append, List.map_cons, ih, List.isEmpty_map]
    cases rest.isEmpty <;> rfl

section glue
variable (src : Array UInt8) (nodes : Array Node) (ts : EX.Types) (f : Nat) (proc : String → Nat)

theorem kids_glue (fuel : Nat)
    (ih : ∀ i out, exBuild src nodes fuel i = some out →
      ∃ n, toEX src nodes fuel i = some n ∧ EX.build ts f proc n = some (some (out.map JsonScan.classify))) :
    ∀ (cs : List Nat) (parts : List (List UInt8)), cs.mapM (exBuild src nodes fuel) = some parts →
      ∃ ns, cs.mapM (toEX src nodes fuel) = some ns ∧
        EX.buildKids ts f proc ns = some (parts.map (·.map JsonScan.classify))
  | [], parts, h => by
    simp at h; subst h
    exact ⟨[], by simp, by simp [EX.buildKids]⟩
  | c :: cs, parts, h => by
    simp only [List.mapM_cons] at h
    cases h1 : exBuild src nodes fuel c with
    | none => simp [h1] at h
    | some out =>
      cases h2 : cs.mapM (exBuild src nodes fuel) with
      | none => simp [h1, h2] at h
      | some rest =>
        simp [h1, h2] at h; subst h
        obtain ⟨n, hn, hb⟩ := ih c out h1
        obtain ⟨ns, hns, hbs⟩ := kids_glue fuel ih cs rest h2
        refine ⟨n :: ns, by simp [List.mapM_cons, hn, hns], ?_⟩
        simp [EX.buildKids, hb, hbs]

theorem props_glue (fuel : Nat)
    (ih : ∀ i out, exBuild src nodes fuel i = some out →
      ∃ n, toEX src nodes fuel i = some n ∧ EX.build ts f proc n = some (some (out.map JsonScan.classify))) :
    ∀ (kcs : List ((Nat × Nat × Bool) × Nat)) (parts : List (List UInt8)),
      kcs.mapM (fun kc => (exBuild src nodes fuel kc.2).map fun ex => slice src kc.1.1 kc.1.2.1 ++ 58 :: ex) = some parts →
      ∃ ps, kcs.mapM (fun kc => (toEX src nodes fuel kc.2).map fun n =>
          ((slice src kc.1.1 kc.1.2.1).map JsonScan.classify, n)) = some ps ∧
        EX.buildProps ts f proc ps = some (parts.map (·.map JsonScan.classify))
  | [], parts, h => by
    simp at h; subst h
    exact ⟨[], by simp, by simp [EX.buildProps]⟩
  | kc :: kcs, parts, h => by
    simp only [List.mapM_cons] at h
    cases h1 : exBuild src nodes fuel kc.2 with
    | none => simp [h1] at h
    | some out =>
      cases h2 : kcs.mapM (fun kc => (exBuild src nodes fuel kc.2).map fun ex => slice src kc.1.1 kc.1.2.1 ++ 58 :: ex) with
      | none => simp [h1, h2] at h
      | some rest =>
        simp [h1, h2] at h; subst h
        obtain ⟨n, hn, hb⟩ := ih kc.2 out h1
        obtain ⟨ps, hps, hbs⟩ := props_glue fuel ih kcs rest h2
        refine ⟨((slice src kc.1.1 kc.1.2.1).map JsonScan.classify, n) :: ps, by simp [List.mapM_cons, hn, hps], ?_⟩
        have c58 : JsonScan.classify 58 = .colon := by decide
        simp [EX.buildProps, hb, hbs, c58]

/-- whatever the text-level builder emits, the abstract builder model emits its byte classes on `toEX` -/
theorem exBuild_glue : ∀ (fuel i : Nat) (out : List UInt8), exBuild src nodes fuel i = some out →
    ∃ n, toEX src nodes fuel i = some n ∧ EX.build ts f proc n = some (some (out.map JsonScan.classify))
  | 0, _, _, h => by simp [exBuild] at h
  | fuel + 1, i, out, h => by
    have ih := exBuild_glue fuel
    simp only [exBuild, toEX] at h ⊢
    cases hn : nodes[i]? with
    | none => simp [hn] at h
    | some nd =>
      simp only [hn] at h ⊢
      by_cases hr : nd.rules.isEmpty = true
      · simp only [hr, if_true] at h ⊢
        cases hk : nd.kind with
        | lit =>
          simp only [hk] at h ⊢
          cases hv : nd.value with
          | none => simp [hv] at h
          | some sp =>
            simp [hv] at h; subst h
            exact ⟨_, rfl, by simp [EX.build]⟩
        | mixed => simp [hk] at h
        | arr =>
          simp only [hk] at h ⊢
          cases hm : nd.children.mapM (exBuild src nodes fuel) with
          | none => simp [hm] at h
          | some parts =>
            simp [hm] at h; subst h
            obtain ⟨ns, hns, hb⟩ := kids_glue src nodes ts f proc fuel ih nd.children parts hm
            refine ⟨.arr ns, by simp [hns], ?_⟩
            have c91 : JsonScan.classify 91 = .lbrack := by decide
            have c93 : JsonScan.classify 93 = .rbrack := by decide
            simp [EX.build, hb, joinB_classes, c91, c93]
        | obj =>
          simp only [hk] at h ⊢
          by_cases hc : (nd.keys.length != nd.children.length || nd.keys.any (·.2.2)) = true
          · simp [hc] at h
          · simp only [hc] at h ⊢
            cases hm : (nd.keys.zip nd.children).mapM (fun kc =>
                (exBuild src nodes fuel kc.2).map fun ex => slice src kc.1.1 kc.1.2.1 ++ 58 :: ex) with
            | none => simp [hm] at h
            | some parts =>
              simp [hm] at h; subst h
              obtain ⟨ps, hps, hb⟩ := props_glue src nodes ts f proc fuel ih _ parts hm
              refine ⟨.obj ps, by simp [hps], ?_⟩
              have c123 : JsonScan.classify 123 = .lbrace := by decide
              have c125 : JsonScan.classify 125 = .rbrace := by decide
              simp [EX.build, hb, joinB_classes, c123, c125]
      · simp [hr] at h

end glue

#print axioms plain_text_roundtrip
#print axioms plain_result_is_json
#print axioms sample_roundtrip
#print axioms exBuild_glue

end Loader
