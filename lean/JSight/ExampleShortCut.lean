import JSight.ExampleShortText
/-!
C15 at TEXT level, shortcut leaves, RECURSIVE tables: the builder WITH its cut-off (`processedTypes`, `example.go`
`buildExampleForMixedValueNode`): a shortcut leaf whose first name is already being processed more than once answers
`nil`, and the enclosing array / object DROPS that element / member.

`RE.exampleCut tys fuel proc` transliterates it on trees (`proc` = the names being processed, a multiset as a list;
outcome `none` = error or fuel exhausted, `some none` = `nil`, `some (some d)` = a document). The statement "what the
builder with the cut-off answers is admitted" (`cut_admitted_full`) is FALSE on recursive tables — witness
`@R = [@R, 1]` (accepted by the check stage: the array may be empty): the builder answers `[[1],1]`, whose inner `[1]`
holds `1` at the position of `@R` (the class of the known findings K-C15-arraycut / K-C15-reqcut). The closed form
WITHOUT the cut-off (`RE.exampleOf`) is admitted on every table (`exampleOf_admitted`): it is silent (`none` at every
fuel) where the cut-off would fire.
-/
namespace RE
open SE (BST BItem BMember TypeText namesOf typesOf cnOf)

def cutItems (r : BST → Option (Option Doc)) : List BItem → Option (List Doc)
  | [] => some []
  | it :: its =>
    match r it.2.1, cutItems r its with
    | some none, some ds => some ds
    | some (some d), some ds => some (d :: ds)
    | _, _ => none

def cutMembers (r : BST → Option (Option Doc)) : List BMember → Option (List (String × Doc))
  | [] => some []
  | m :: ms =>
    match r m.2.2.2.2.1, cutMembers r ms with
    | some none, some ds => some ds
    | some (some d), some ds => some ((E2E.keyOf m.2.1, d) :: ds)
    | _, _ => none

def stepC (tys : List TypeText) (r : List String → BST → Option (Option Doc)) (proc : List String) :
    BST → Option (Option Doc)
  | .scalar tok => some (some (.lit tok))
  | .short f as sps =>
    match namesOf f as sps with
    | [] => none
    | n :: _ =>
      if proc.count n > 1 then some none
      else match lookupB tys n with
        | some t => r (n :: proc) t
        | none => none
  | .arr _ its => (cutItems (r proc) its).map fun xs => some (.arr xs)
  | .obj _ ms => (cutMembers (r proc) ms).map fun xs => some (.obj xs)

/-- the builder with its recursion cut-off, on trees -/
def exampleCut (tys : List TypeText) : Nat → List String → BST → Option (Option Doc)
  | 0 => fun _ _ => none
  | fuel + 1 => stepC tys (exampleCut tys fuel)

/-- the statement at full strength, the cut-off included: FALSE (`cut_admitted_full_false`) -/
def cut_admitted_full : Prop :=
  ∀ (tys : List TypeText) (fuel : Nat) (opt : Bool) (t : BST) (d : Doc), tysOK tys = true → exOK t = true →
    Compile.check (cnOf opt t) (typesOf tys) = .ok () → exampleCut tys fuel [] t = some (some d) → Admits tys opt t d

namespace CutEx

/-- `@R` = `[@R, 1]` -/
def tysR : List TypeText := [("@R", [], .arr [] [([], .short [82] [] [], []), ([], .scalar [49], [])], [])]
/-- the root `@R` -/
def rootR : BST := .short [82] [] []

/-- `[[1],1]` -/
def cutDoc : Doc := .arr [.arr [.lit [49]], .lit [49]]

theorem check_ok : Compile.check (cnOf false rootR) (typesOf tysR) = .ok () := by
  have h : (match Compile.check (cnOf false rootR) (typesOf tysR) with
      | .ok () => true
      | .error _ => false) = true := by decide +kernel
  revert h
  cases Compile.check (cnOf false rootR) (typesOf tysR) with
  | ok u => intro _; rfl
  | error e => intro h; cases h

theorem cut_eq : exampleCut tysR 6 [] rootR = some (some cutDoc) := by rfl

theorem cut_not_admitted : ¬ Admits tysR false rootR cutDoc := not_admits_of_top tysR 8 _ _ _ (by decide +kernel)

/-- the closed form without the cut-off is silent on this table, whatever the fuel shown here -/
example : exampleOf tysR 20 rootR = none := by rfl

end CutEx

theorem cut_admitted_full_false : ¬ cut_admitted_full := fun h =>
  CutEx.cut_not_admitted (h CutEx.tysR 6 false CutEx.rootR CutEx.cutDoc (by decide +kernel) (by decide +kernel)
    CutEx.check_ok CutEx.cut_eq)

end RE
