import JSight.SchemaDispatch
namespace SchemaScan

/-- one call of a non-guard step function from a state with no queued finds -/
theorem step_ok {f s c p1 p2 which} (h : InvAt which s) (hf : s.finds = [])
    (hs : StepOK which s c) (hng : which.isGuard = false) :
    OKRes Inv (dispatch (f+3) which s c p1 p2) := by
  cases which with
  | guard x => simp [St.isGuard] at hng
  | foundRoot => exact foundRoot_ok h hs
  | objKeyOrEmpty => exact objKeyOrEmpty_ok h hf hs
  | objKey => exact objKey_ok h hf hs
  | objKeyAfterNL => exact objKeyAfterNL_ok h hf hs
  | objValue => exact objValue_ok h hs
  | arrItemOrEmpty => exact arrItemOrEmpty_ok h hf hs
  | arrItem => exact arrItem_ok h hs
  | keyShortcut => exact keyShortcut_ok h hf hs
  | endValue => exact endValueSt_ok h hf
  | afterKey => exact afterKey_ok h hs
  | afterValue => exact annRet_ok rfl h hf hs
  | afterItem => exact annRet_ok rfl h hf hs
  | endTop => exact endTop_ok h hs
  | inString => exact inString_ok h hs
  | esc => exact esc_ok h hs
  | u0 => exact u0_ok h
  | u1 => exact u1_ok h
  | u2 => exact u2_ok h
  | u3 => exact u3_ok h
  | neg => exact neg_ok h
  | d1 => exact d1_ok h hf
  | d0 => exact d0_ok h hf
  | dot => exact dot_ok h
  | dot0 => exact dot0_ok h hf hs
  | t => exact t_ok h
  | tr => exact tr_ok h
  | tru => exact tru_ok h
  | f => exact f_ok h
  | fa => exact fa_ok h
  | fal => exact fal_ok h
  | fals => exact fals_ok h
  | n => exact n_ok h
  | nu => exact nu_ok h
  | nul => exact nul_ok h
  | tsBeginName => exact tsBeginName_ok h
  | tsName => exact tsName_ok h hf
  | tsBeforePipe => exact tsBeforePipe_ok h hf
  | tsAfterPipe => exact tsAfterPipe_ok h
  | anyCommentStart => exact anyCommentStart_ok h
  | inlineComment => exact inlineComment_ok h hs
  | multiLineComment => exact multiLineComment_ok h hs
  | anyAnnStart => exact anyAnnStart_ok h
  | inlAnnStart => exact inlAnnStart_ok h
  | inlAnn => exact inlAnn_ok h hs
  | inlTxtPrefix => exact inlTxtPrefix_ok h hs
  | inlTxtPrefix2 => exact inlTxtPrefix2_ok h hs
  | inlTxt => exact inlTxt_ok h hs
  | inlTxtSkip => exact inlTxtSkip_ok h hs
  | mlAnn => exact mlAnn_ok h hs
  | mlTxtPrefix => exact mlTxtPrefix_ok h hs
  | mlTxtPrefix2 => exact mlTxtPrefix2_ok h hs
  | mlAnnEnd => exact mlAnnEnd_ok h
  | mlTxt => exact mlTxt_ok h hs
  | annKeyFirst => exact annKeyFirst_ok h
  | annKey => exact annKey_ok h hf hs
  | annKeyAfter => exact annKeyAfter_ok h hf hs

/-- **Stage 1 (one byte).** From a state satisfying the invariant with no queued finds, one call of the
current step function (`dispatch 8`, as in `next`) either returns a state satisfying the invariant or a
structured error — never a crash, and the re-dispatch fuel is not exhausted. -/
theorem dispatch_ok {f s c p1 p2} (h : Inv s) (hf : s.finds = []) :
    OKRes Inv (dispatch (f+4) s.step s c p1 p2) := by
  cases hst : s.step with
  | guard x =>
    obtain ⟨eff, hE, hG⟩ := h
    rw [hst] at hG
    obtain ⟨hng, hGx⟩ := hG.guard_inv
    unfold dispatch; dsimp only
    split
    · rfl
    · refine step_ok ⟨eff, hE, hGx⟩ hf (Or.inr ⟨hst, hng, ?_⟩) hng
      intro hc; subst hc; simp at *
  | _ =>
    rw [← hst]
    exact step_ok (f := f + 1) h hf (Or.inl rfl) (by rw [hst]; rfl)

end SchemaScan
