import JSight.Number
/-!
C10: every RFC 8259 numeral is recognised by the number model — except an integer part `0` directly followed
by an exponent (`0e1`, known finding K-C10-zeroexp, which the code rejects). So the exactness theorems
(`C10_cmp_exact`, `C10_fracLen`) speak about every numeral the property quantifies over.
-/
namespace Num

/-- an RFC 8259 numeral by its parts -/
structure Numeral where
  neg : Bool
  intHead : Nat                 -- first digit of the integer part
  intTail : List Nat            -- further digits (empty when `intHead = 0`: no leading zeros)
  frac : Option (Nat × List Nat)                -- first digit after the point and the rest
  exp : Option (Option Bool × Nat × List Nat)   -- sign (`some true` = '-'), first digit, further digits

def Numeral.wf (t : Numeral) : Prop := t.intHead = 0 → t.intTail = []

/-- the integer part is `0` and an exponent follows it directly (K-C10-zeroexp) -/
def Numeral.zeroExp (t : Numeral) : Prop := t.intHead = 0 ∧ t.frac = none ∧ t.exp ≠ none

def expChars : Option (Option Bool × Nat × List Nat) → List Ch
  | none => []
  | some (none, d, ds) => .e :: .d d :: ds.map .d
  | some (some false, d, ds) => .e :: .plus :: .d d :: ds.map .d
  | some (some true, d, ds) => .e :: .minus :: .d d :: ds.map .d

def fracChars : Option (Nat × List Nat) → List Ch
  | none => []
  | some (f, fs) => .dot :: .d f :: fs.map .d

def Numeral.render (t : Numeral) : List Ch :=
  (if t.neg then [.minus] else []) ++ (.d t.intHead :: t.intTail.map .d) ++
  fracChars t.frac ++ expChars t.exp

theorem foldlM_append' (s : Sc) (a b : List Ch) :
    (a ++ b).foldlM Sc.step s = (a.foldlM Sc.step s).bind (fun s' => b.foldlM Sc.step s') := by
  induction a generalizing s with
  | nil => simp
  | cons x xs ih =>
    simp only [List.cons_append, List.foldlM_cons, Option.bind_eq_bind]
    cases h : Sc.step s x with
    | none => simp
    | some s' => simp only [Option.bind_some]; exact ih s'

theorem step_int_digit (s : Sc) (h : s.st = .intFound) (n : Nat) :
    Sc.step s (.d n) = some { s with finished := true, intLen := s.intLen + 1, digits := s.digits ++ [n] } := by
  unfold Sc.step; rw [h]
theorem step_frac_digit (s : Sc) (h : s.st = .fracFound) (n : Nat) :
    Sc.step s (.d n) = some { s with finished := true, fraLen := s.fraLen + 1, digits := s.digits ++ [n] } := by
  unfold Sc.step; rw [h]
theorem step_exp_digit (s : Sc) (h : s.st = .expNum) (n : Nat) :
    Sc.step s (.d n) = some { s with finished := true, expDigits := s.expDigits ++ [n] } := by
  unfold Sc.step; rw [h]

/-- mantissa digit loops: `intFound` and `fracFound` stay where they are on a digit -/
theorem digits_loop (p : St) (hp : p = .intFound ∨ p = .fracFound) (ds : List Nat) : ∀ s : Sc,
    s.st = p → s.finished = true → s.expDigits = [] → s.expNeg = false →
    ∃ s', (ds.map Ch.d).foldlM Sc.step s = some s' ∧ s'.st = p ∧ s'.finished = true ∧ s'.expDigits = [] ∧ s'.expNeg = false := by
  induction ds with
  | nil => intro s h1 h2 h3 h4; exact ⟨s, rfl, h1, h2, h3, h4⟩
  | cons d ds ih =>
    intro s h1 h2 h3 h4
    rcases hp with rfl | rfl
    · obtain ⟨s', e, r⟩ := ih { s with finished := true, intLen := s.intLen + 1, digits := s.digits ++ [d] } h1 rfl h3 h4
      refine ⟨s', ?_, r⟩
      simp only [List.map_cons, List.foldlM_cons, step_int_digit s h1 d, Option.bind_eq_bind, Option.bind_some]
      exact e
    · obtain ⟨s', e, r⟩ := ih { s with finished := true, fraLen := s.fraLen + 1, digits := s.digits ++ [d] } h1 rfl h3 h4
      refine ⟨s', ?_, r⟩
      simp only [List.map_cons, List.foldlM_cons, step_frac_digit s h1 d, Option.bind_eq_bind, Option.bind_some]
      exact e

/-- exponent digit loop -/
theorem exp_loop (ds : List Nat) : ∀ s : Sc, s.st = .expNum → s.finished = true → s.expDigits ≠ [] →
    ∃ s', (ds.map Ch.d).foldlM Sc.step s = some s' ∧ s'.finished = true ∧ s'.expDigits ≠ [] ∧ s'.expNeg = s.expNeg := by
  induction ds with
  | nil => intro s _ h2 h3; exact ⟨s, rfl, h2, h3, rfl⟩
  | cons d ds ih =>
    intro s h1 h2 h3
    obtain ⟨s', e, r⟩ := ih { s with finished := true, expDigits := s.expDigits ++ [d] } h1 rfl (by simp)
    refine ⟨s', ?_, r⟩
    simp only [List.map_cons, List.foldlM_cons, step_exp_digit s h1 d, Option.bind_eq_bind, Option.bind_some]
    exact e

theorem finish_some (s : Sc) (h1 : s.finished = true) (h2 : s.expNeg = true → s.expDigits ≠ []) : (finish s).isSome = true := by
  unfold finish
  have : (s.expNeg && s.expDigits.isEmpty) = false := by
    cases hn : s.expNeg with
    | false => simp
    | true => have := h2 hn; simp; exact this
  simp [h1, this]

theorem step_e (s : Sc) (h : s.st = .intFound ∨ s.st = .fracFound) :
    Sc.step s .e = some { s with finished := true, st := .expFound } := by
  unfold Sc.step; rcases h with h | h <;> rw [h]

/-- the exponent part, entered from a state that allows `e` -/
theorem exp_part (e : Option (Option Bool × Nat × List Nat)) (s : Sc) (hs : s.st = .intFound ∨ s.st = .fracFound)
    (hf : s.finished = true) (hn : s.expNeg = false) :
    ∃ s' : Sc, (expChars e).foldlM Sc.step s = some s' ∧ s'.finished = true ∧ (s'.expNeg = true → s'.expDigits ≠ []) := by
  match e with
  | none => exact ⟨s, rfl, hf, by simp [hn]⟩
  | some (none, d, ds) =>
    obtain ⟨s', e1, f1, f2, _⟩ := exp_loop ds { s with finished := true, st := .expNum, expDigits := s.expDigits ++ [d] } rfl rfl (by simp)
    refine ⟨s', ?_, f1, fun _ => f2⟩
    simp only [expChars, List.foldlM_cons, step_e s hs, Option.bind_eq_bind, Option.bind_some]
    have : Sc.step { s with finished := true, st := .expFound } (.d d)
        = some { s with finished := true, st := .expNum, expDigits := s.expDigits ++ [d] } := by unfold Sc.step; rfl
    rw [this]; exact e1
  | some (some false, d, ds) =>
    obtain ⟨s', e1, f1, f2, _⟩ := exp_loop ds { s with finished := true, st := .expNum, expDigits := s.expDigits ++ [d] } rfl rfl (by simp)
    refine ⟨s', ?_, f1, fun _ => f2⟩
    simp only [expChars, List.foldlM_cons, step_e s hs, Option.bind_eq_bind, Option.bind_some]
    have h1 : Sc.step { s with finished := true, st := .expFound } .plus
        = some { s with finished := true, st := .expSign } := by unfold Sc.step; rfl
    have h2 : Sc.step { s with finished := true, st := .expSign } (.d d)
        = some { s with finished := true, st := .expNum, expDigits := s.expDigits ++ [d] } := by unfold Sc.step; rfl
    rw [h1]; simp only [Option.bind_some]; rw [h2]; exact e1
  | some (some true, d, ds) =>
    obtain ⟨s', e1, f1, f2, _⟩ := exp_loop ds { s with finished := true, expNeg := true, st := .expNum, expDigits := s.expDigits ++ [d] } rfl rfl (by simp)
    refine ⟨s', ?_, f1, fun _ => f2⟩
    simp only [expChars, List.foldlM_cons, step_e s hs, Option.bind_eq_bind, Option.bind_some]
    have h1 : Sc.step { s with finished := true, st := .expFound } .minus
        = some { s with finished := true, expNeg := true, st := .expSign } := by unfold Sc.step; rfl
    have h2 : Sc.step { s with finished := true, expNeg := true, st := .expSign } (.d d)
        = some { s with finished := true, expNeg := true, st := .expNum, expDigits := s.expDigits ++ [d] } := by unfold Sc.step; rfl
    rw [h1]; simp only [Option.bind_some]; rw [h2]; exact e1


@[reducible] def headSt (s : Sc) (n : Nat) : Sc :=
  { s with finished := true, intLen := s.intLen + 1, digits := s.digits ++ [n], st := if n = 0 then .firstZero else .intFound }

def Good (s : Sc) : Prop := s.finished = true ∧ (s.expNeg = true → s.expDigits ≠ [])

/-- fraction digits then exponent, from `pointFound` -/
theorem frac_part (f : Nat) (fs : List Nat) (e : Option (Option Bool × Nat × List Nat)) (s : Sc)
    (hs : s.st = .pointFound) (h3 : s.expDigits = []) (h4 : s.expNeg = false) :
    ∃ s', ((Ch.d f :: fs.map Ch.d) ++ expChars e).foldlM Sc.step s = some s' ∧ Good s' := by
  have h1 : Sc.step s (.d f) = some { s with finished := true, fraLen := s.fraLen + 1, digits := s.digits ++ [f], st := .fracFound } := by
    unfold Sc.step; rw [hs]
  obtain ⟨s1, e1, a1, a2, a3, a4⟩ := digits_loop .fracFound (Or.inr rfl) fs
    { s with finished := true, fraLen := s.fraLen + 1, digits := s.digits ++ [f], st := .fracFound } rfl rfl h3 h4
  obtain ⟨s2, e2, g⟩ := exp_part e s1 (Or.inr a1) a2 a4
  refine ⟨s2, ?_, g⟩
  rw [List.cons_append, List.foldlM_cons, h1]
  simp only [Option.bind_eq_bind, Option.bind_some]
  rw [foldlM_append', e1]
  exact e2

/-- what follows a non-zero integer part -/
theorem after_int (fr : Option (Nat × List Nat)) (e : Option (Option Bool × Nat × List Nat)) (s : Sc)
    (hs : s.st = .intFound) (h2 : s.finished = true) (h3 : s.expDigits = []) (h4 : s.expNeg = false) :
    ∃ s', (fracChars fr ++ expChars e).foldlM Sc.step s = some s' ∧ Good s' := by
  match fr with
  | none => simpa [fracChars, Good] using exp_part e s (Or.inl hs) h2 h4
  | some (f, fs) =>
    have h1 : Sc.step s .dot = some { s with finished := true, st := .pointFound } := by unfold Sc.step; rw [hs]
    obtain ⟨s', e1, g⟩ := frac_part f fs e { s with finished := true, st := .pointFound } rfl h3 h4
    refine ⟨s', ?_, g⟩
    simp only [fracChars, List.cons_append, List.foldlM_cons, h1, Option.bind_eq_bind, Option.bind_some]
    simpa using e1

/-- what follows the integer part `0`: a fraction, or nothing at all -/
theorem after_zero (fr : Option (Nat × List Nat)) (e : Option (Option Bool × Nat × List Nat)) (s : Sc)
    (hs : s.st = .firstZero) (h2 : s.finished = true) (h3 : s.expDigits = []) (h4 : s.expNeg = false)
    (hz : fr = none → e = none) :
    ∃ s', (fracChars fr ++ expChars e).foldlM Sc.step s = some s' ∧ Good s' := by
  match fr with
  | none =>
    rw [hz rfl]
    exact ⟨s, rfl, h2, by simp [h4]⟩
  | some (f, fs) =>
    have h1 : Sc.step s .dot = some { s with finished := true, st := .pointFound } := by unfold Sc.step; rw [hs]
    obtain ⟨s', e1, g⟩ := frac_part f fs e { s with finished := true, st := .pointFound } rfl h3 h4
    refine ⟨s', ?_, g⟩
    simp only [fracChars, List.cons_append, List.foldlM_cons, h1, Option.bind_eq_bind, Option.bind_some]
    simpa using e1

/-- the integer part and everything after it, from `start` or `minusFound` -/
theorem body (t : Numeral) (hw : t.wf) (hz : ¬ t.zeroExp) (s : Sc) (hs : s.st = .start ∨ s.st = .minusFound)
    (h3 : s.expDigits = []) (h4 : s.expNeg = false) :
    ∃ s', ((Ch.d t.intHead :: t.intTail.map Ch.d) ++ (fracChars t.frac ++ expChars t.exp)).foldlM Sc.step s = some s' ∧ Good s' := by
  have h1 : Sc.step s (.d t.intHead) = some (headSt s t.intHead) := by
    unfold Sc.step headSt; rcases hs with h | h <;> rw [h]
  rw [List.cons_append, List.foldlM_cons, h1]
  simp only [Option.bind_eq_bind, Option.bind_some]
  by_cases h0 : t.intHead = 0
  · rw [hw h0]
    simp only [List.map_nil, List.nil_append]
    refine after_zero t.frac t.exp _ (by simp [headSt, h0]) rfl h3 h4 ?_
    intro hf
    by_cases he : t.exp = none
    · exact he
    · exact absurd ⟨h0, hf, he⟩ hz
  · obtain ⟨s1, e1, a1, a2, a3, a4⟩ := digits_loop .intFound (Or.inl rfl) t.intTail
      (headSt s t.intHead) (by simp [headSt, h0]) rfl h3 h4
    obtain ⟨s2, e2, g⟩ := after_int t.frac t.exp s1 a1 a2 a3 a4
    refine ⟨s2, ?_, g⟩
    rw [foldlM_append', e1]
    exact e2

/-- **every RFC 8259 numeral is recognised**, except integer part `0` directly followed by an exponent -/
theorem scan_total (t : Numeral) (hw : t.wf) (hz : ¬ t.zeroExp) : (scan t.render).isSome = true := by
  have key : ∃ s', t.render.foldlM Sc.step ({} : Sc) = some s' ∧ Good s' := by
    unfold Numeral.render
    rw [List.append_assoc, List.append_assoc]
    cases hn : t.neg with
    | false => simpa using body t hw hz {} (Or.inl rfl) rfl rfl
    | true =>
      have h1 : Sc.step ({} : Sc) .minus = some { neg := true, finished := false, st := .minusFound } := by unfold Sc.step; rfl
      obtain ⟨s', e, g⟩ := body t hw hz { neg := true, finished := false, st := .minusFound } (Or.inr rfl) rfl rfl
      refine ⟨s', ?_, g⟩
      simp only [if_true, List.cons_append, List.nil_append, List.foldlM_cons, h1, Option.bind_eq_bind, Option.bind_some]
      exact e
  obtain ⟨s', e, g1, g2⟩ := key
  unfold scan
  rw [e]
  exact finish_some s' g1 g2

/-- and the excluded shape really is rejected by the model (as by the code: K-C10-zeroexp) -/
theorem zeroExp_rejected : scan [.d 0, .e, .d 1] = none := by decide

/-- non-vacuity: `-12.50e-3` is such a numeral -/
example : (scan (Numeral.render ⟨true, 1, [2], some (5, [0]), some (some true, 3, [])⟩)).isSome = true :=
  scan_total _ (by simp [Numeral.wf]) (by simp [Numeral.zeroExp])

end Num
