import JSight.AnnTree
import JSight.SchemaLenExamples
/-!
C13, annotated trees: a concrete instance. `{⏎"a": 1 /* {min: 0} */,⏎"aa": [ // {min: 0} - note⏎1⏎]⏎}`: a multi-line
annotation on a member value, an inline annotation with a note behind the opening bracket of an array.
-/
namespace SchemaScan.Len.Ex

theorem ob1_valid_ml : ob1.Valid .multi := by
  refine ⟨⟨⟨by simp [ABlank, ob1], ⟨by simp [ob1], by simp [ob1, Cls.isName]⟩, by simp [ABlank, ob1, Ann.okBlank, Cls.isSpTab],
    ⟨.zero, [], .d0, false, .d0, rfl, rfl, rfl, rfl⟩, by simp [ABlank, ob1]⟩, by simp [ob1]⟩, by simp⟩

def mlb1 : MlBody := ⟨[.sp], ob1, [.sp], none⟩

def toksA : List ATok := [.base .lbrace, .base .nl, .base (.key [.quote, .la, .quote]), .base .colon, .base (.sp .sp),
  .base (.scalar [.d19]), .base (.sp .sp), .ml mlb1, .base .comma, .base .nl,
  .base (.key [.quote, .la, .la, .quote]), .base .colon, .base (.sp .sp), .base .lbrack, .base (.sp .sp), .base (.ann body1),
  .base (.scalar [.d19]), .base .nl, .base .rbrack, .base .nl, .base .rbrace]

def bsA : List UInt8 := b "{\n\"a\": 1 /* {min: 0} */,\n\"aa\": [ // {min: 0} - note\n1\n]\n}"

theorem bsA_cls : bsA.map classify = renderAToks toksA := by decide

theorem toksA_wf : ∀ t ∈ toksA, t.WF := by
  intro t ht
  simp only [toksA, List.mem_cons, List.mem_nil_iff, or_false] at ht
  rcases ht with rfl | rfl | rfl | rfl | rfl | rfl | rfl | rfl | rfl | rfl | rfl | rfl | rfl | rfl | rfl | rfl | rfl | rfl |
    rfl | rfl | rfl
  · trivial
  · trivial
  · exact ⟨[.la, .quote], rfl, rfl⟩
  · trivial
  · rfl
  · exact ⟨.d19, [], .d1, false, .d1, rfl, rfl, rfl, rfl⟩
  · rfl
  · exact ⟨by simp [ABlank, mlb1, Ann.okBlank, Cls.isSpTab], ob1_valid_ml, by simp [ABlank, mlb1, Ann.okBlank, Cls.isSpTab],
      by simp [mlb1]⟩
  · trivial
  · trivial
  · exact ⟨[.la, .la, .quote], rfl, rfl⟩
  · trivial
  · rfl
  · trivial
  · rfl
  · exact body1_valid
  · exact ⟨.d19, [], .d1, false, .d1, rfl, rfl, rfl, rfl⟩
  · trivial
  · trivial
  · trivial
  · trivial

def resA : TC × List Ev := (arun TC.init toksA).getD (TC.init, [])

theorem runA : arun TC.init toksA = some (resA.1, resA.2) := rfl

theorem completeA : Complete resA.1 := Or.inr ⟨rfl, rfl, Or.inl rfl⟩

/-- the scanner model's events of the text, multi-line annotation included -/
theorem scanA : scanAll bsA = .ok (resA.2 ++ endClosers resA.1) :=
  scan_atoks_whole toksA toksA_wf resA.1 resA.2 runA completeA bsA bsA_cls

/-! `1 /* {min: 0} */`: the loader state behind the scalar, then the annotation (instance of `Lay.ml_effect`) -/
def bsB : List UInt8 := b "1 /* {min: 0} */"

def obB : Lay.BObj := .rules ⟨[], b "min", 0, [32], b "0", []⟩ [] none

theorem obB_cls : obB.cls = ob1 := rfl

theorem atB : Lay.AtB bsB.toArray (2 + 2) (Lay.annBody [32] obB [32] none ++ [42, 47]) :=
  Lay.AtB_toArray bsB (b "1 /*") _ (by decide)

theorem effectB : ∃ st, Loader.load bsB.toArray ([⟨.litB, 0, 0⟩, ⟨.litE, 0, 0⟩] ++ (Lay.mlOf [32] obB [32] none).evs 2) = .ok st ∧
    Loader.LS bsB.toArray st [Lay.addAnn { Loader.xfresh .lit none with value := some (b "1") } obB none]
      none (some 0) 1 (some 0) := by
  have h0 : Loader.LS bsB.toArray {} [] none none 0 none := ⟨rfl, rfl, rfl, rfl, rfl, rfl⟩
  obtain ⟨st1, s1, h1⟩ := Loader.X_root bsB.toArray h0 ⟨.litB, 0, 0⟩ .lit rfl rfl
  obtain ⟨st2, s2, h2⟩ := Loader.X_litE bsB.toArray h1 (Loader.xfresh .lit none) rfl rfl 0 0
  obtain ⟨st3, s3, h3⟩ := Lay.ml_effect bsB.toArray (i := 0) h2
    { Loader.xfresh .lit none with value := some (Loader.slice bsB.toArray 0 0) } rfl [32] obB [32] none 2
    (by rw [obB_cls]; exact ob1_valid_ml) (by intro _ _ h; cases h) [42, 47] atB
  refine ⟨st3, ?_, h3⟩
  exact Loader.Fold.trans (Loader.Fold.cons s1 (Loader.Fold.one s2)) s3


/-! `1 // {min: 0}⏎` against `1 /* {min: 0} */` (instance of `Lay.node_inline_vs_multiline`, `Lay.inl_effect`) -/
def bsC : List UInt8 := b "1 // {min: 0} \n"

theorem atC : Lay.AtB bsC.toArray (2 + 2) (Lay.annBody [32] obB [32] none ++ [10]) :=
  Lay.AtB_toArray bsC (b "1 //") _ (by decide)

theorem effectBC : ∃ st st' T, Loader.load bsC.toArray ([⟨.litB, 0, 0⟩, ⟨.litE, 0, 0⟩] ++ (Lay.inlOf [32] obB [32] none).evs 2) = .ok st ∧
    Loader.load bsB.toArray ([⟨.litB, 0, 0⟩, ⟨.litE, 0, 0⟩] ++ (Lay.mlOf [32] obB [32] none).evs 2) = .ok st' ∧
    Loader.LS bsC.toArray st T none (some 0) 0 (some 0) ∧ Loader.LS bsB.toArray st' T none (some 0) 1 (some 0) := by
  have h0 : Loader.LS bsC.toArray {} [] none none 0 none := ⟨rfl, rfl, rfl, rfl, rfl, rfl⟩
  obtain ⟨st1, s1, h1⟩ := Loader.X_root bsC.toArray h0 ⟨.litB, 0, 0⟩ .lit rfl rfl
  obtain ⟨st2, s2, h2⟩ := Loader.X_litE bsC.toArray h1 (Loader.xfresh .lit none) rfl rfl 0 0
  have h0' : Loader.LS bsB.toArray {} [] none none 0 none := ⟨rfl, rfl, rfl, rfl, rfl, rfl⟩
  obtain ⟨st1', s1', h1'⟩ := Loader.X_root bsB.toArray h0' ⟨.litB, 0, 0⟩ .lit rfl rfl
  obtain ⟨st2', s2', h2'⟩ := Loader.X_litE bsB.toArray h1' (Loader.xfresh .lit none) rfl rfl 0 0
  obtain ⟨st3, st3', T, f, f', l, l'⟩ := Lay.node_inline_vs_multiline bsC.toArray bsB.toArray (i := 0) h2 h2'
    { Loader.xfresh .lit none with value := some (b "1") } rfl [32] [32] obB obB [32] [32] [] [] none 2 2
    (by rw [obB_cls]; exact ob1_valid) (by rw [obB_cls]; exact ob1_valid_ml) rfl (by intro _ h; cases h) [10] [42, 47] atC atB
  exact ⟨st3, st3', T, Loader.Fold.trans (Loader.Fold.cons s1 (Loader.Fold.one s2)) f,
    Loader.Fold.trans (Loader.Fold.cons s1' (Loader.Fold.one s2')) f', l, l'⟩

end SchemaScan.Len.Ex
