/-
C09 prototype: the recursion check as coded (`check_recusrion.go`) against least-fixpoint
inhabitation.  Only the "never rejects a legal graph" direction holds on the pinned tree.
-/
namespace TG

/-- value positions of a schema, as far as recursion is concerned -/
inductive N
  | scalar
  | arr                                   -- arrays may be empty: never followed
  | ref (names : List String)             -- `@A`, `@A | @B`
  | obj (props : List (Bool × N))         -- (optional, value)

structure G where
  types : List (String × N)
  root : N
  rootName : String

def lookup (g : G) (t : String) : Option N := (g.types.find? (·.1 == t)).map (·.2)

/-! ### the DFS as coded: references met while a *type body* is checked are looked up in that type's own
table, which holds no named types, so they are never expanded; only the path test remains. -/

mutual
def checkInner (visited : List String) : N → Bool
  | .scalar => true
  | .arr => true
  | .ref names => !(names.all (fun t => visited.contains t)) || names.isEmpty
  | .obj props => checkInnerProps visited props
def checkInnerProps (visited : List String) : List (Bool × N) → Bool
  | [] => true
  | (opt, n) :: ps => (opt || checkInner visited n) && checkInnerProps visited ps
end

def checkType (g : G) (visited : List String) (t : String) : Bool :=
  if visited.contains t then false
  else match lookup g t with
    | none => true
    | some body => checkInner (t :: visited) body

mutual
def checkOuter (g : G) (visited : List String) : N → Bool
  | .scalar => true
  | .arr => true
  | .ref names => !(names.all (fun t => !checkType g visited t)) || names.isEmpty
  | .obj props => checkOuterProps g visited props
def checkOuterProps (g : G) (visited : List String) : List (Bool × N) → Bool
  | [] => true
  | (opt, n) :: ps => (opt || checkOuter g visited n) && checkOuterProps g visited ps
end

/-- `CheckRecursion` -/
def check (g : G) : Bool := checkOuter g [g.rootName] g.root

/-! ### the spec: a value position is inhabited iff it has a finite inhabitant (depth-indexed) -/

mutual
/-- one unfolding level: `rec` decides the bodies of referenced types -/
def inhStep (g : G) (rec : N → Bool) : N → Bool
  | .scalar => true
  | .arr => true
  | .ref names => names.any (fun t => match lookup g t with
      | some body => rec body
      | none => false)
  | .obj props => inhStepProps g rec props
def inhStepProps (g : G) (rec : N → Bool) : List (Bool × N) → Bool
  | [] => true
  | (opt, n) :: ps => (opt || inhStep g rec n) && inhStepProps g rec ps
end

/-- inhabited by a value whose type-reference depth is at most `d` -/
def inh (g : G) : Nat → N → Bool
  | 0 => inhStep g (fun _ => false)
  | d + 1 => inhStep g (inh g d)

def Inhabited (g : G) (n : N) : Prop := ∃ d, inh g d n = true

end TG
