import JSight.SchemaEof
/-! `next`: the EOF branch, and the phase after end of input. -/
namespace SchemaScan

/-- outcome predicate for `next` -/
def NPost (P : Sc → Prop) : M (Option (Sc × Ev)) → Prop
  | .error e => e.isCrash = false
  | .ok none => True
  | .ok (some (s', _)) => P s'

/-- shape of `finds`/`stack` once the end of input has been passed -/
def PBshape (F S : List LexT) : Prop :=
  (F = [] ∧ TsOK S) ∨ (F = [.mixE] ∧ ∃ R, S = .mixB :: R ∧ TsOK R)

/-- number of events still to come after the end of input -/
def muB (F S : List LexT) : Nat :=
  match F with
  | [] => eofLen S
  | _ => 1 + eofLen S.tail

def PB (N : Nat) (s : Sc) : Prop := N < s.index ∧ PBshape s.finds (s.stack.map (·.1))

theorem TsOK_ts_inv {L} (h : TsOK (.tsB :: L)) : ∃ R, L = .mixB :: R ∧ TsOK R := by
  cases L with
  | nil => exact absurd h (by simp [TsOK])
  | cons a R => cases a <;> first | exact ⟨R, rfl, h⟩ | exact absurd h (by simp [TsOK])

theorem TsOK_tail {a L} (h : TsOK (a :: L)) (ha : a ≠ .tsB) : TsOK L := by
  cases a <;> first | exact h | exact absurd rfl ha

theorem map_some_ok {α β} (f : α → β) (a : α) : (f <$> (Except.ok a : M α)) = Except.ok (f a) := rfl

/-- the EOF branch of `next` -/
theorem eof_next {data : Array Cls} {fuel : Nat} {s : Sc} (hf : s.finds = [])
    (hi : ¬ s.index < data.size) (hT : TsOK (s.stack.map (·.1))) :
    NPost (fun s' => PB data.size s' ∧
      muB s'.finds (s'.stack.map (·.1)) < eofLen (s.stack.map (·.1))) (next data (fuel+1) s) := by
  have hidx : data.size < s.index + 1 := by omega
  unfold next
  simp only [bind, Except.bind, pure, Except.pure, shiftFound_nil data hf, hi, ↓reduceIte, stackTy_eq]
  have hcases : s.stack = [] ∨ ∃ p b l, s.stack = (p, b) :: l := by
    cases s.stack with
    | nil => exact Or.inl rfl
    | cons a l => exact Or.inr ⟨a.1, a.2, l, rfl⟩
  rcases hcases with h0 | ⟨p, b, l, hst⟩
  · have : s.stack.isEmpty = true := by rw [h0]; rfl
    simp [this, NPost]
  · have hS : s.stack.map (·.1) = p :: l.map (·.1) := by rw [hst]; rfl
    have hne : s.stack.isEmpty = false := by rw [hst]; rfl
    rw [hS] at hT
    simp only [hne, Bool.not_false, ↓reduceIte]
    rw [show (List.map (fun x => x.fst) ({ s with index := s.index + 1 } : Sc).stack) = p :: l.map (·.1) from hS]
    simp only [List.getElem?_cons_zero]
    cases p <;> dsimp only <;> try (exact (rfl : Err.isCrash (Err.unexpectedEOF _) = false))
    · -- litB
      split
      · rfl
      · obtain ⟨stk, e, hp, hm⟩ := processFound_spec data
          { s with index := s.index + 1 } .litE (S' := l.map (·.1)) (by show applyFind _ (s.stack.map (·.1)) = _; rw [hS]; rfl)
        rw [hp, map_some_ok]
        refine ⟨⟨hidx, Or.inl ⟨hf, ?_⟩⟩, ?_⟩
        · show TsOK (stk.map (·.1))
          rw [hm]; exact hT
        · show muB s.finds (stk.map (·.1)) < _
          rw [hf, hm]; show eofLen _ < 1 + eofLen _; omega
    · -- inlAnnB
      obtain ⟨stk, e, hp, hm⟩ := processFound_spec data
        { s with index := s.index + 1 } .inlAnnE (S' := l.map (·.1)) (by show applyFind _ (s.stack.map (·.1)) = _; rw [hS]; rfl)
      rw [hp, map_some_ok]
      refine ⟨⟨hidx, Or.inl ⟨hf, ?_⟩⟩, ?_⟩
      · show TsOK (stk.map (·.1))
        rw [hm]; exact hT
      · show muB s.finds (stk.map (·.1)) < _
        rw [hf, hm]; show eofLen _ < 1 + eofLen _; omega
    · -- inlTxtB
      obtain ⟨stk, e, hp, hm⟩ := processFound_spec data
        { s with index := s.index + 1 } .inlTxtE (S' := l.map (·.1)) (by show applyFind _ (s.stack.map (·.1)) = _; rw [hS]; rfl)
      rw [hp, map_some_ok]
      refine ⟨⟨hidx, Or.inl ⟨hf, ?_⟩⟩, ?_⟩
      · show TsOK (stk.map (·.1))
        rw [hm]; exact hT
      · show muB s.finds (stk.map (·.1)) < _
        rw [hf, hm]; show eofLen _ < 1 + eofLen _; omega
    · -- tsB
      obtain ⟨R, hR, hTR⟩ := TsOK_ts_inv hT
      split
      · rfl
      · obtain ⟨stk, e, hp, hm⟩ := processFound_spec data
          (found { s with index := s.index + 1 } .mixE) .tsE (S' := l.map (·.1)) (by
            show applyFind .tsE (s.stack.map (·.1)) = _
            rw [hS]; rfl)
        rw [hp, map_some_ok]
        have hfs : (found { s with index := s.index + 1 } .mixE).finds = [.mixE] := by
          show s.finds ++ [.mixE] = _
          rw [hf]; rfl
        refine ⟨⟨hidx, Or.inr ⟨hfs, R, ?_, hTR⟩⟩, ?_⟩
        · show stk.map (·.1) = _
          rw [hm, hR]
        · show muB (found { s with index := s.index + 1 } .mixE).finds (stk.map (·.1)) < _
          rw [hfs, hm, hR]
          show 1 + eofLen R < 2 + eofLen R
          omega


theorem shiftFound_cons' (data : Array Cls) {s : Sc} {t rest S'} (hfs : s.finds = t :: rest)
    (h : applyFind t (s.stack.map (·.1)) = some S') :
    ∃ stk e, shiftFound data s = .ok (some ({ s with finds := rest, stack := stk }, e)) ∧
      stk.map (·.1) = S' := by
  obtain ⟨stk, e, hp, hm⟩ := processFound_spec data { s with finds := rest } t h
  refine ⟨stk, e, ?_, hm⟩
  unfold shiftFound
  rw [hfs]
  simp only [bind, Except.bind, pure, Except.pure, hp]

/-- `next` after the end of input: one more closing event, or the end, or `Unexpected end of file` -/
theorem next_B {data : Array Cls} {fuel : Nat} {s : Sc} (h : PB data.size s) :
    NPost (fun s' => PB data.size s' ∧
      muB s'.finds (s'.stack.map (·.1)) < muB s.finds (s.stack.map (·.1))) (next data (fuel+1) s) := by
  obtain ⟨hi, ⟨hf, hT⟩ | ⟨hf, R, hS, hT⟩⟩ := h
  · have hlt : ¬ s.index < data.size := by omega
    have := eof_next (fuel := fuel) hf hlt hT
    rw [hf]
    exact this
  · obtain ⟨stk, e, hp, hm⟩ := shiftFound_cons' data hf (S' := R) (by rw [hS]; rfl)
    unfold next
    simp only [bind, Except.bind, pure, Except.pure, hp]
    refine ⟨⟨hi, Or.inl ⟨rfl, ?_⟩⟩, ?_⟩
    · show TsOK (stk.map (·.1))
      rw [hm]; exact hT
    · show muB [] (stk.map (·.1)) < _
      rw [hm, hf, hS]
      show eofLen R < 1 + eofLen R
      omega

end SchemaScan
