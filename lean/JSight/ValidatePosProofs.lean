import JSight.ValidatePos
/-!
Proofs for `ValidatePos.lean`: the position-carrying validator machine reports exactly `firstOffence`.
Key lemma `value_run`: feeding the events of a value to the fresh leaves of a schema position either rejects
with the spec's (code, offset) or hands control back to the parent chain — generalised over the parent chain
and the remaining events; mutual structural recursion over the nested document type.
-/
namespace VPos
open JsonScan (Ev LexT)

variable {α L : Type} (p : P α L) (src : List α)

/-- what happens after the leaves of a position are done: the parent becomes the leaf again -/
def after (K : List (Frame L)) (rest : List Ev) : Res :=
  match K with
  | [] => .acc
  | f :: K' => run p src [f] K' rest

def fin (x : Option (Code × Nat)) (k : Res) : Res :=
  match x with
  | none => k
  | some (c, q) => .rej c q

theorem after_cons (f : Frame L) (K : List (Frame L)) (rest : List Ev) :
    after p src (f :: K) rest = run p src [f] K rest := rfl

@[simp] theorem fin_none (k : Res) : fin none k = k := rfl
@[simp] theorem fin_some (c q : Nat) (k : Res) : fin (some (c, q)) k = .rej c q := rfl

theorem fin_map (x : Option Code) (o : Nat) (k : Res) :
    fin (x.map (·, o)) k = match x with | none => k | some c => .rej c o := by
  cases x <;> rfl

/-! ### `settle` on the result lists that occur -/

theorem settle_all_fail (rs : List (R L)) (K : List (Frame L)) (pos : Nat) (h : ∀ r ∈ rs, r.isFail = true) :
    settle rs K pos = allFailed rs pos := by
  have hf : rs.filter (fun r => !r.isFail) = [] := by
    rw [List.filter_eq_nil_iff]; intro r hr; simp [h r hr]
  unfold settle; rw [hf]

theorem settle_dones (rs : List (R L)) (K : List (Frame L)) (pos : Nat) (n : Nat)
    (h : rs.filter (fun r => !r.isFail) = List.replicate (n + 1) .done) :
    settle rs K pos = pop K := by
  unfold settle; rw [h]
  cases n with
  | zero => simp [List.replicate, R.isDone]
  | succ m => simp [List.replicate, R.isDone]

theorem stays_map (fs : List (Frame L)) : stays (fs.map R.stay) = some fs := by
  induction fs with
  | nil => rfl
  | cons f fs ih => simp [stays, ih]

theorem settle_stays (rs : List (R L)) (K : List (Frame L)) (pos : Nat) (f : Frame L) (fs : List (Frame L))
    (h : rs.filter (fun r => !r.isFail) = (f :: fs).map R.stay) :
    settle rs K pos = .cont (f :: fs) K := by
  unfold settle; rw [h]
  have := stays_map (f :: fs)
  simp only [List.map_cons] at this ⊢
  simp [R.isDone, this]

/-! ### one leaf, one lexeme -/

theorem run_stay (f f' : Frame L) (K : List (Frame L)) (e : Ev) (es : List Ev)
    (h : feed1 p src f e = .stay f') : run p src [f] K (e :: es) = run p src [f'] K es := by
  simp [run, step, settle, h, R.isFail, R.isDone, stays]

theorem run_pop (lv K : List (Frame L)) (e : Ev) (es : List Ev) (h : step p src lv K e = pop K) :
    run p src lv K (e :: es) = after p src K es := by
  cases K <;> simp only [run, h, pop, after]

theorem run_done (f : Frame L) (K : List (Frame L)) (e : Ev) (es : List Ev)
    (h : feed1 p src f e = .done) : run p src [f] K (e :: es) = after p src K es := by
  cases K <;> simp [run, step, settle, pop, h, R.isFail, R.isDone, after]

theorem run_fail (f : Frame L) (K : List (Frame L)) (e : Ev) (es : List Ev) (c q : Nat)
    (h : feed1 p src f e = .fail c q) : run p src [f] K (e :: es) = .rej c q := by
  simp [run, step, settle, allFailed, h, R.isFail]

theorem run_kids (f f' : Frame L) (s : S L) (K : List (Frame L)) (e : Ev) (es : List Ev)
    (h : feed1 p src f e = .kids f' s) : run p src [f] K (e :: es) = run p src (newLeaves s) (f' :: K) es := by
  simp [run, step, settle, h, R.isFail]

/-! ### the scalar alternatives of a position -/

theorem own1_one (c : Code) : own1 1 c = c := rfl

/-- a lexeme that is neither literal-begin nor literal-end: every literal validator fails (207) -/
theorem lits_fail (ls : List L) (e : Ev) (h1 : e.ty ≠ .litB) (h2 : e.ty ≠ .litE) :
    (ls.map Frame.lit).map (fun f => feed1 p src f e) = ls.map (fun _ => R.fail 207 e.b) := by
  rw [List.map_map]; apply List.map_congr_left; intro l _
  show feed1 p src (.lit l) e = _
  unfold feed1
  cases h : e.ty <;> simp_all

theorem lits_stay (ls : List L) (e : Ev) (h : e.ty = .litB) :
    (ls.map Frame.lit).map (fun f => feed1 p src f e) = (ls.map Frame.lit).map R.stay := by
  rw [List.map_map, List.map_map]; apply List.map_congr_left; intro l _
  simp [Function.comp, feed1, h]

theorem lits_end (ls : List L) (e : Ev) (h : e.ty = .litE) :
    (ls.map Frame.lit).map (fun f => feed1 p src f e) = ls.map (fun l => litRes p l (slice src e.b e.e) e.b) := by
  rw [List.map_map]; apply List.map_congr_left; intro l _
  simp only [Function.comp, feed1, h]

theorem filter_cons_stay (f : Frame L) (rs : List (R L)) :
    (R.stay f :: rs).filter (fun r => !r.isFail) = R.stay f :: rs.filter (fun r => !r.isFail) := rfl

theorem filter_cons_fail (c q : Nat) (rs : List (R L)) :
    (R.fail c q :: rs).filter (fun r => !r.isFail) = rs.filter (fun r => !r.isFail) := rfl

theorem run_nil (K : List (Frame L)) (e : Ev) (es : List Ev) : run p src [] K (e :: es) = .rej 204 e.b := rfl

theorem filter_fails {β : Type} (ls : List β) (g : β → R L) (h : ∀ l ∈ ls, (g l).isFail = true) :
    (ls.map g).filter (fun r => !r.isFail) = [] := by
  rw [List.filter_eq_nil_iff]; intro r hr
  obtain ⟨l, hl, rfl⟩ := List.mem_map.1 hr
  simp [h l hl]

theorem filter_litRes (ls : List L) (tok : List α) (b : Nat) :
    (ls.map (fun l => litRes p l tok b)).filter (fun r => !r.isFail)
      = List.replicate (ls.filter (fun l => (p.litErr l tok).isNone)).length .done := by
  induction ls with
  | nil => rfl
  | cons l ls ih =>
    simp only [List.map_cons, List.filter_cons, ih]
    cases h : p.litErr l tok <;> simp [litRes, h, R.isFail, List.replicate]

/-- literal-begin to the scalar alternatives: they all stay -/
theorem run_lits_begin (l : L) (ls : List L) (K : List (Frame L)) (e : Ev) (es : List Ev) (h : e.ty = .litB) :
    run p src ((l :: ls).map Frame.lit) K (e :: es) = run p src ((l :: ls).map Frame.lit) K es := by
  have hs : step p src ((l :: ls).map Frame.lit) K e = .cont ((l :: ls).map Frame.lit) K := by
    unfold step
    rw [lits_stay p src (l :: ls) e h]
    apply settle_stays
    rw [List.filter_eq_self.2]; · rfl
    intro r hr
    obtain ⟨f, _, rfl⟩ := List.mem_map.1 hr
    rfl
  simp only [run, hs]

/-- literal-end to the scalar alternatives: accepted when one accepts, else the own code / 204 -/
theorem run_lits_end (ls : List L) (K : List (Frame L)) (e : Ev) (es : List Ev) (h : e.ty = .litE) :
    run p src (ls.map Frame.lit) K (e :: es)
      = fin (litsOffence p ls (slice src e.b e.e) e.b) (after p src K es) := by
  have hrs := lits_end p src ls e h
  generalize slice src e.b e.e = tok at hrs ⊢
  by_cases hany : ls.any (fun l => (p.litErr l tok).isNone) = true
  · -- some alternative accepts: the survivors are all done
    have hlen : ∃ n, (ls.filter (fun l => (p.litErr l tok).isNone)).length = n + 1 := by
      obtain ⟨l, hl, hacc⟩ := List.any_eq_true.1 hany
      have : l ∈ ls.filter (fun l => (p.litErr l tok).isNone) := List.mem_filter.2 ⟨hl, hacc⟩
      exact ⟨_, (Nat.succ_pred_eq_of_pos (List.length_pos_of_mem this)).symm⟩
    obtain ⟨n, hn⟩ := hlen
    have hs : step p src (ls.map Frame.lit) K e = pop K := by
      unfold step; rw [hrs]
      exact settle_dones _ K e.b n (by rw [filter_litRes, hn])
    have hspec : litsOffence p ls tok e.b = none := by
      unfold litsOffence
      split
      · rename_i l
        simp only [List.any_cons, List.any_nil, Bool.or_false] at hany
        cases hl : p.litErr l tok with
        | none => rfl
        | some c => rw [hl] at hany; simp at hany
      · rw [hany]; rfl
    rw [hspec, fin_none]
    exact run_pop p src _ K e es hs
  · -- every alternative rejects the token
    have hnone : ls.any (fun l => (p.litErr l tok).isNone) = false := by simpa using hany
    have hall : ∀ r ∈ ls.map (fun l => litRes p l tok e.b), r.isFail = true := by
      intro r hr
      obtain ⟨l, hl, rfl⟩ := List.mem_map.1 hr
      have := List.any_eq_false.1 hnone l hl
      cases h' : p.litErr l tok with
      | none => rw [h'] at this; simp at this
      | some c => simp [litRes, h', R.isFail]
    have hs : step p src (ls.map Frame.lit) K e = allFailed (ls.map (fun l => litRes p l tok e.b)) e.b := by
      unfold step; rw [hrs]; exact settle_all_fail _ K e.b hall
    simp only [run, hs]
    unfold litsOffence
    match ls, hnone with
    | [], _ => rfl
    | [l], hn =>
      simp only [List.any_cons, List.any_nil, Bool.or_false] at hn
      cases h' : p.litErr l tok with
      | none => rw [h'] at hn; simp at hn
      | some c => simp [litRes, h', allFailed]
    | l1 :: l2 :: ls', hn =>
      rw [hn]
      simp only [List.any_cons, Bool.or_eq_false_iff] at hn
      cases h1 : p.litErr l1 tok with
      | none => rw [h1] at hn; simp at hn
      | some c1 => simp [List.map_cons, litRes, h1, allFailed]

/-- a lexeme that opens a container (or anything but a literal) to scalar alternatives only: they all fail -/
theorem run_lits_wrong (ls : List L) (K : List (Frame L)) (e : Ev) (es : List Ev) (h1 : e.ty ≠ .litB) (h2 : e.ty ≠ .litE) :
    run p src (ls.map Frame.lit) K (e :: es) = .rej (own1 ls.length 207) e.b := by
  have hs : step p src (ls.map Frame.lit) K e = .rej (own1 ls.length 207) e.b := by
    unfold step; rw [lits_fail p src ls e h1 h2, settle_all_fail _ K e.b (by intro r hr; obtain ⟨l, _, rfl⟩ := List.mem_map.1 hr; rfl)]
    match ls with
    | [] => rfl
    | [l] => rfl
    | l1 :: l2 :: ls' => rfl
  simp only [run, hs]

/-! ### a container next to scalar alternatives -/

/-- the container reads the lexeme, the scalar alternatives die on it -/
theorem run_cont_open (f f' : Frame L) (ls : List L) (K : List (Frame L)) (e : Ev) (es : List Ev)
    (h : feed1 p src f e = .stay f') (h1 : e.ty ≠ .litB) (h2 : e.ty ≠ .litE) :
    run p src (f :: ls.map Frame.lit) K (e :: es) = run p src [f'] K es := by
  have hs : step p src (f :: ls.map Frame.lit) K e = .cont [f'] K := by
    unfold step
    rw [List.map_cons, h, lits_fail p src ls e h1 h2]
    apply settle_stays
    rw [filter_cons_stay, filter_fails ls _ (fun _ _ => rfl)]; rfl
  simp only [run, hs]

/-- the container fails on a literal-begin: the scalar alternatives go on (its own error when there are none) -/
theorem run_cont_lit (f : Frame L) (ls : List L) (K : List (Frame L)) (e : Ev) (es : List Ev) (c : Nat)
    (h : feed1 p src f e = .fail c e.b) (h1 : e.ty = .litB) :
    run p src (f :: ls.map Frame.lit) K (e :: es)
      = match ls with | [] => .rej c e.b | _ => run p src (ls.map Frame.lit) K es := by
  match ls with
  | [] => simp [run, step, settle, allFailed, h, R.isFail]
  | l :: ls' =>
    have hs : step p src (f :: (l :: ls').map Frame.lit) K e = .cont ((l :: ls').map Frame.lit) K := by
      unfold step
      rw [List.map_cons, h, lits_stay p src (l :: ls') e h1]
      apply settle_stays
      rw [filter_cons_fail, List.filter_eq_self.2]; · rfl
      intro r hr
      obtain ⟨f, _, rfl⟩ := List.mem_map.1 hr
      rfl
    simp only [run, hs]

/-- nobody reads the lexeme -/
theorem run_cont_wrong (f : Frame L) (ls : List L) (K : List (Frame L)) (e : Ev) (es : List Ev) (c : Nat)
    (h : feed1 p src f e = .fail c e.b) (h1 : e.ty ≠ .litB) (h2 : e.ty ≠ .litE) :
    run p src (f :: ls.map Frame.lit) K (e :: es) = .rej (own1 (ls.length + 1) c) e.b := by
  have hs : step p src (f :: ls.map Frame.lit) K e = .rej (own1 (ls.length + 1) c) e.b := by
    unfold step
    rw [List.map_cons, h, lits_fail p src ls e h1 h2,
      settle_all_fail _ K e.b (by
        intro r hr
        rcases List.mem_cons.1 hr with rfl | hr
        · rfl
        · obtain ⟨l, _, rfl⟩ := List.mem_map.1 hr; rfl)]
    match ls with
    | [] => rfl
    | l :: ls' => rfl
  simp only [run, hs]

/-! ### `any`: the depth counter -/

def anyDown (n : Nat) (K : List (Frame L)) (rest : List Ev) : Res :=
  match n with
  | 0 => after p src K rest
  | m + 1 => run p src [.any (m + 1)] K rest

theorem any_open (d : Nat) (K : List (Frame L)) (e : Ev) (es : List Ev) (h : e.ty.isOpening = true) :
    run p src [.any d] K (e :: es) = run p src [.any (d + 1)] K es :=
  run_stay p src _ _ K e es (by simp [feed1, h])

theorem any_close (d : Nat) (K : List (Frame L)) (e : Ev) (es : List Ev) (h : e.ty.isOpening = false) :
    run p src [.any (d + 1)] K (e :: es) = anyDown p src d K es := by
  cases d with
  | zero => exact run_done p src _ K e es (by simp [feed1, h])
  | succ m => exact run_stay p src _ _ K e es (by simp [feed1, h])

mutual
theorem any_value (d : T α) (n o : Nat) (K : List (Frame L)) (rest : List Ev) :
    run p src [.any (n + 1)] K (evsAt o d ++ rest) = run p src [.any (n + 1)] K rest := by
  cases d with
  | scalar tok =>
    simp only [evsAt, List.cons_append, List.nil_append]
    rw [any_open p src _ K _ _ rfl, any_close p src _ K _ _ rfl]; rfl
  | arr ws0 its =>
    simp only [evsAt, List.cons_append]
    rw [any_open p src _ K _ _ rfl, any_items its (n + 1) o _ K rest]; rfl
  | obj ws0 ms =>
    simp only [evsAt, List.cons_append]
    rw [any_open p src _ K _ _ rfl, any_members ms (n + 1) o _ K rest]; rfl
theorem any_items (its : List (List α × T α × List α)) (n a o : Nat) (K : List (Frame L)) (rest : List Ev) :
    run p src [.any (n + 1)] K (evsItems a o its ++ rest) = anyDown p src n K rest := by
  cases its with
  | nil =>
    simp only [evsItems, List.cons_append, List.nil_append]
    exact any_close p src _ K _ _ rfl
  | cons it its =>
    obtain ⟨w1, v, w2⟩ := it
    simp only [evsItems, List.cons_append, List.append_assoc]
    rw [any_open p src _ K _ _ rfl, any_value v (n + 1) _ K _, any_close p src _ K _ _ rfl]
    exact any_items its n a _ K rest
theorem any_members (ms : List (List α × List α × List α × List α × T α × List α)) (n a o : Nat)
    (K : List (Frame L)) (rest : List Ev) :
    run p src [.any (n + 1)] K (evsMembers a o ms ++ rest) = anyDown p src n K rest := by
  cases ms with
  | nil =>
    simp only [evsMembers, List.cons_append, List.nil_append]
    exact any_close p src _ K _ _ rfl
  | cons m ms =>
    obtain ⟨w1, k, w2, w3, v, w4⟩ := m
    simp only [evsMembers, List.cons_append, List.append_assoc]
    rw [any_open p src _ K _ _ rfl, any_close p src _ K _ _ rfl]
    show run p src [.any (n + 1)] K _ = _
    rw [any_open p src _ K _ _ rfl, any_value v (n + 1) _ K _, any_close p src _ K _ _ rfl]
    exact any_members ms n a _ K rest
end

theorem any_top (d : T α) (o : Nat) (K : List (Frame L)) (rest : List Ev) :
    run p src [.any 0] K (evsAt o d ++ rest) = after p src K rest := by
  cases d with
  | scalar tok =>
    simp only [evsAt, List.cons_append, List.nil_append]
    rw [any_open p src _ K _ _ rfl, any_close p src _ K _ _ rfl]; rfl
  | arr ws0 its =>
    simp only [evsAt, List.cons_append]
    rw [any_open p src _ K _ _ rfl, any_items p src its 0 o _ K rest]; rfl
  | obj ws0 ms =>
    simp only [evsAt, List.cons_append]
    rw [any_open p src _ K _ _ rfl, any_members p src ms 0 o _ K rest]; rfl


/-! ### the tokens of a tree sit in the source at the tree's offsets -/

mutual
def Emb (src : List α) : Nat → T α → Prop
  | o, .scalar tok => slice src o (o + tok.length - 1) = tok
  | o, .arr ws0 its => EmbItems src (o + 1 + ws0.length) its
  | o, .obj ws0 ms => EmbMembers src (o + 1 + ws0.length) ms
def EmbItems (src : List α) : Nat → List (List α × T α × List α) → Prop
  | _, [] => True
  | o, (w1, v, w2) :: its =>
    Emb src (o + w1.length) v ∧ EmbItems src (o + w1.length + v.len + w2.length + (if its.isEmpty then 0 else 1)) its
def EmbMembers (src : List α) : Nat → List (List α × List α × List α × List α × T α × List α) → Prop
  | _, [] => True
  | o, (w1, k, w2, w3, v, w4) :: ms =>
    slice src (o + w1.length) (o + w1.length + k.length - 1) = k ∧
    Emb src (o + w1.length + k.length + w2.length + 1 + w3.length) v ∧
    EmbMembers src (o + w1.length + k.length + w2.length + 1 + w3.length + v.len + w4.length
      + (if ms.isEmpty then 0 else 1)) ms
end

/-! ### required keys -/

theorem all_hasKey_nil (unq : List α → String) (req : List String) :
    req.all (hasKey unq ([] : List (List α × List α × List α × List α × T α × List α))) = req.isEmpty := by
  cases req <;> simp [hasKey]

theorem req_step (unq : List α → String) (req : List String) (m : List α × List α × List α × List α × T α × List α)
    (ms : List (List α × List α × List α × List α × T α × List α)) :
    (req.filter (· != unq m.2.1)).all (hasKey unq ms) = req.all (hasKey unq (m :: ms)) := by
  induction req with
  | nil => simp
  | cons r req ih =>
    by_cases h : r = unq m.2.1
    · subst h; simp [ih, hasKey]
    · have h1 : (unq m.2.1 == r) = false := by simpa using fun h' => h h'.symm
      have h2 : (r != unq m.2.1) = true := by simp [h]
      simp only [List.filter_cons, h2, if_true, List.all_cons, ih]
      simp [hasKey, h1]

/-! ### the key lemma -/

mutual
theorem value_run (s : S L) (d : T α) (o : Nat) (hd : Emb src o d) (K : List (Frame L)) (rest : List Ev) :
    run p src (newLeaves s) K (evsAt o d ++ rest) = fin (firstOffence p s o d) (after p src K rest) := by
  cases s with
  | any => simp only [newLeaves, firstOffence, fin_none]; exact any_top p src d o K rest
  | lits ls =>
    cases d with
    | scalar tok =>
      simp only [Emb] at hd
      simp only [newLeaves, evsAt, firstOffence, List.cons_append, List.nil_append]
      match ls with
      | [] => rfl
      | l :: ls' =>
        rw [run_lits_begin p src l ls' K _ _ rfl, run_lits_end p src (l :: ls') K _ _ rfl]
        simp only [hd]
    | arr ws0 its =>
      simp only [newLeaves, evsAt, firstOffence, List.cons_append, fin_some]
      exact run_lits_wrong p src ls K _ _ (by simp) (by simp)
    | obj ws0 ms =>
      simp only [newLeaves, evsAt, firstOffence, List.cons_append, fin_some]
      exact run_lits_wrong p src ls K _ _ (by simp) (by simp)
  | arr ls items =>
    cases d with
    | scalar tok =>
      simp only [Emb] at hd
      simp only [newLeaves, evsAt, firstOffence, List.cons_append, List.nil_append]
      rw [run_cont_lit p src _ ls K _ _ 209 rfl rfl]
      match ls with
      | [] => rfl
      | l :: ls' =>
        rw [run_lits_end p src (l :: ls') K _ _ rfl]
        simp only [hd, List.isEmpty_cons, cond_false]
    | obj ws0 ms =>
      simp only [newLeaves, evsAt, firstOffence, List.cons_append, fin_some]
      exact run_cont_wrong p src _ ls K _ _ 209 rfl (by simp) (by simp)
    | arr ws0 its =>
      simp only [Emb] at hd
      have h := items_run items its 0 o (o + 1 + ws0.length) hd K rest
      simp only [newLeaves, evsAt, firstOffence, List.cons_append]
      rw [run_cont_open p src _ (.arr items 0) ls K _ _ rfl (by simp) (by simp)]; exact h
  | obj ls props =>
    cases d with
    | scalar tok =>
      simp only [Emb] at hd
      simp only [newLeaves, evsAt, firstOffence, List.cons_append, List.nil_append]
      rw [run_cont_lit p src _ ls K _ _ 208 rfl rfl]
      match ls with
      | [] => rfl
      | l :: ls' =>
        rw [run_lits_end p src (l :: ls') K _ _ rfl]
        simp only [hd, List.isEmpty_cons, cond_false]
    | arr ws0 its =>
      simp only [newLeaves, evsAt, firstOffence, List.cons_append, fin_some]
      exact run_cont_wrong p src _ ls K _ _ 208 rfl (by simp) (by simp)
    | obj ws0 ms =>
      simp only [Emb] at hd
      have h := members_run props ms (requiredKeys props) none o (o + 1 + ws0.length) hd K rest
      have hspec : fin (firstOffence p (.obj ls props) o (.obj ws0 ms)) (after p src K rest)
          = fin (offMembers p props (o + 1 + ws0.length) ms)
              (bif (requiredKeys props).all (hasKey p.unq ms) then after p src K rest else .rej 205 o) := by
        simp only [firstOffence]
        cases offMembers p props (o + 1 + ws0.length) ms with
        | some x => rfl
        | none => cases (requiredKeys props).all (hasKey p.unq ms) <;> rfl
      rw [hspec]
      simp only [newLeaves, evsAt, List.cons_append]
      rw [run_cont_open p src _ (.obj props (requiredKeys props) none) ls K _ _ rfl (by simp) (by simp)]; exact h
theorem items_run (items : List (S L)) (its : List (List α × T α × List α)) (c a o : Nat) (hd : EmbItems src o its)
    (K : List (Frame L)) (rest : List Ev) :
    run p src [.arr items c] K (evsItems a o its ++ rest) = fin (offItems p items c o its) (after p src K rest) := by
  cases its with
  | nil =>
    simp only [evsItems, offItems, List.cons_append, List.nil_append, fin_none]
    exact run_done p src _ K _ _ rfl
  | cons it its =>
    obtain ⟨w1, v, w2⟩ := it
    simp only [EmbItems] at hd
    simp only [evsItems, offItems, List.cons_append, List.append_assoc]
    cases hc : childAt items c with
    | none =>
      simp only [fin_some]
      exact run_fail p src _ K _ _ 1203 _ (by simp [feed1, hc])
    | some s =>
      dsimp only
      rw [run_kids p src _ (.arr items (c + 1)) s K _ _ (by simp [feed1, hc]),
        value_run s v (o + w1.length) hd.1 (.arr items (c + 1) :: K) _]
      cases hs : firstOffence p s (o + w1.length) v with
      | some x => obtain ⟨c', q'⟩ := x; rfl
      | none =>
        simp only [fin_none, after_cons]
        rw [run_stay p src _ (.arr items (c + 1)) K _ _ rfl]
        exact items_run items its (c + 1) a _ hd.2 K rest
theorem members_run (props : List (String × Bool × S L)) (ms : List (List α × List α × List α × List α × T α × List α))
    (req : List String) (last : Option (Nat × Nat)) (a o : Nat) (hd : EmbMembers src o ms)
    (K : List (Frame L)) (rest : List Ev) :
    run p src [.obj props req last] K (evsMembers a o ms ++ rest)
      = fin (offMembers p props o ms) (bif req.all (hasKey p.unq ms) then after p src K rest else .rej 205 a) := by
  cases ms with
  | nil =>
    simp only [evsMembers, offMembers, List.cons_append, List.nil_append, fin_none, all_hasKey_nil]
    cases req with
    | nil => exact run_done p src _ K _ _ rfl
    | cons r req => exact run_fail p src _ K _ _ 205 a rfl
  | cons m ms =>
    obtain ⟨w1, k, w2, w3, v, w4⟩ := m
    simp only [EmbMembers] at hd
    obtain ⟨hk, hv, hms⟩ := hd
    simp only [evsMembers, offMembers, List.cons_append, List.append_assoc]
    rw [run_stay p src _ (.obj props req last) K _ _ rfl,
      run_stay p src _ (.obj props (req.filter (· != p.unq k)) (some (o + w1.length, o + w1.length + k.length - 1))) K _ _
        (by simp [feed1, hk])]
    cases hl : lookup props (p.unq k) with
    | none =>
      simp only [fin_some]
      exact run_fail p src _ K _ _ 206 _ (by simp [feed1, hk, hl])
    | some s =>
      dsimp only
      rw [run_kids p src _ (.obj props (req.filter (· != p.unq k)) (some (o + w1.length, o + w1.length + k.length - 1))) s K _ _
          (by simp [feed1, hk, hl]),
        value_run s v _ hv (_ :: K) _]
      cases hs : firstOffence p s (o + w1.length + k.length + w2.length + 1 + w3.length) v with
      | some x => obtain ⟨c', q'⟩ := x; rfl
      | none =>
        simp only [fin_none, after_cons]
        rw [run_stay p src _ (.obj props (req.filter (· != p.unq k)) (some (o + w1.length, o + w1.length + k.length - 1))) K _ _ rfl]
        have h := members_run props ms (req.filter (· != p.unq k)) (some (o + w1.length, o + w1.length + k.length - 1)) a _ hms K rest
        rw [h, req_step p.unq req (w1, k, w2, w3, v, w4) ms]
end


/-- the machine on the events of a document whose tokens sit in `src` reports the first offence -/
theorem validatePos_emb (s : S L) (d : T α) (o : Nat) (hd : Emb src o d) :
    validatePos p s src (evsAt o d) = Res.ofSpec (firstOffence p s o d) := by
  have h := value_run p src s d o hd [] []
  rw [List.append_nil] at h
  unfold validatePos
  rw [h]
  cases firstOffence p s o d with
  | none => rfl
  | some x => obtain ⟨c, q⟩ := x; rfl

/-! ### rendering: lengths, and the tokens of a rendered tree are where the tree says -/

mutual
theorem render_length (sy : Sym α) (d : T α) : (d.render sy).length = d.len := by
  cases d with
  | scalar tok => simp [T.render, T.len]
  | arr ws0 its => simp [T.render, T.len, renderItems_length sy its]; omega
  | obj ws0 ms => simp [T.render, T.len, renderMembers_length sy ms]; omega
theorem renderItems_length (sy : Sym α) (its : List (List α × T α × List α)) :
    (renderItems sy its).length = lenItems its := by
  cases its with
  | nil => simp [renderItems, lenItems]
  | cons it its =>
    obtain ⟨w1, v, w2⟩ := it
    cases its with
    | nil => simp [renderItems, lenItems, render_length sy v]
    | cons it2 its =>
      have := renderItems_length sy (it2 :: its)
      simp [renderItems, lenItems, render_length sy v] at this ⊢
      omega
theorem renderMembers_length (sy : Sym α) (ms : List (List α × List α × List α × List α × T α × List α)) :
    (renderMembers sy ms).length = lenMembers ms := by
  cases ms with
  | nil => simp [renderMembers, lenMembers]
  | cons m ms =>
    obtain ⟨w1, k, w2, w3, v, w4⟩ := m
    cases ms with
    | nil => simp [renderMembers, lenMembers, render_length sy v]; omega
    | cons m2 ms =>
      have := renderMembers_length sy (m2 :: ms)
      simp [renderMembers, lenMembers, render_length sy v] at this ⊢
      omega
end

theorem slice_mid (pre tok post : List α) (h : tok ≠ []) :
    slice (pre ++ (tok ++ post)) pre.length (pre.length + tok.length - 1) = tok := by
  unfold slice
  have hl : 0 < tok.length := List.length_pos_iff.2 h
  have : pre.length + tok.length - 1 + 1 - pre.length = tok.length := by omega
  rw [this, List.drop_left, List.take_left]

mutual
theorem emb_value (sy : Sym α) (d : T α) (hd : d.TokNE) (src pre post : List α) (o : Nat)
    (hsrc : src = pre ++ (d.render sy ++ post)) (ho : o = pre.length) : Emb src o d := by
  cases d with
  | scalar tok =>
    subst hsrc ho
    simp only [Emb, T.render]
    exact slice_mid pre tok post hd
  | arr ws0 its =>
    simp only [Emb]
    exact emb_items sy its hd src (pre ++ sy.lbrack :: ws0) post _
      (by rw [hsrc]; simp [T.render, List.append_assoc]) (by simp [ho]; omega)
  | obj ws0 ms =>
    simp only [Emb]
    exact emb_members sy ms hd src (pre ++ sy.lbrace :: ws0) post _
      (by rw [hsrc]; simp [T.render, List.append_assoc]) (by simp [ho]; omega)
theorem emb_items (sy : Sym α) (its : List (List α × T α × List α)) (hd : TokNEItems its) (src pre post : List α) (o : Nat)
    (hsrc : src = pre ++ (renderItems sy its ++ post)) (ho : o = pre.length) : EmbItems src o its := by
  cases its with
  | nil => trivial
  | cons it its =>
    obtain ⟨w1, v, w2⟩ := it
    simp only [TokNEItems] at hd
    simp only [EmbItems]
    refine ⟨emb_value sy v hd.1 src (pre ++ w1) _ _ (by rw [hsrc]; simp only [renderItems, List.append_assoc]; rfl) (by simp [ho]), ?_⟩
    exact emb_items sy its hd.2 src (pre ++ (w1 ++ (v.render sy ++ (w2 ++ (if its.isEmpty then [] else [sy.comma]))))) post _
      (by rw [hsrc]; simp only [renderItems, List.append_assoc])
      (by cases its <;> simp [ho, render_length] <;> omega)
theorem emb_members (sy : Sym α) (ms : List (List α × List α × List α × List α × T α × List α)) (hd : TokNEMembers ms)
    (src pre post : List α) (o : Nat)
    (hsrc : src = pre ++ (renderMembers sy ms ++ post)) (ho : o = pre.length) : EmbMembers src o ms := by
  cases ms with
  | nil => trivial
  | cons m ms =>
    obtain ⟨w1, k, w2, w3, v, w4⟩ := m
    simp only [TokNEMembers] at hd
    simp only [EmbMembers]
    refine ⟨?_, emb_value sy v hd.2.1 src (pre ++ (w1 ++ (k ++ (w2 ++ (sy.colon :: w3))))) _ _
        (by rw [hsrc]; simp only [renderMembers, List.append_assoc, List.cons_append]; rfl) (by simp [ho]; omega), ?_⟩
    · have h := slice_mid (pre ++ w1) k
        (w2 ++ (sy.colon :: (w3 ++ (v.render sy ++ (w4 ++ ((if ms.isEmpty then [] else [sy.comma]) ++ renderMembers sy ms))))) ++ post) hd.1
      rw [hsrc]
      simp only [renderMembers, List.append_assoc, List.length_append, List.cons_append, ho] at h ⊢
      exact h
    · exact emb_members sy ms hd.2.2 src
        (pre ++ (w1 ++ (k ++ (w2 ++ (sy.colon :: (w3 ++ (v.render sy ++ (w4 ++ (if ms.isEmpty then [] else [sy.comma]))))))))) post _
        (by rw [hsrc]; simp only [renderMembers, List.append_assoc, List.cons_append])
        (by cases ms <;> simp [ho, render_length] <;> omega)
end

/-- **the position theorem on the model**: for every schema of the fragment, every document tree (any depth,
width and layout) embedded anywhere in a source text, the validator machine fed with the tree's events
reports exactly the spec's first offence -/
theorem validatePos_render (sy : Sym α) (s : S L) (d : T α) (hd : d.TokNE) (pre post : List α) :
    validatePos p s (pre ++ (d.render sy ++ post)) (evsAt pre.length d) = Res.ofSpec (firstOffence p s pre.length d) :=
  validatePos_emb p _ s d _ (emb_value sy d hd _ pre post _ rfl rfl)


/-! ### the reported offset is the start of a value or key token, inside the document -/

theorem litsOffence_pos (ls : List L) (tok : List α) (o c q : Nat) (h : litsOffence p ls tok o = some (c, q)) : q = o := by
  unfold litsOffence at h
  split at h
  · simp only [Option.map_eq_some_iff, Prod.mk.injEq] at h
    obtain ⟨_, _, _, rfl⟩ := h; rfl
  · cases hb : ls.any (fun l => (p.litErr l tok).isNone) <;> rw [hb] at h <;>
      simp only [cond_true, cond_false, Option.some.injEq, Prod.mk.injEq, reduceCtorEq] at h
    exact h.2.symm

mutual
theorem offence_starts (s : S L) (d : T α) (o : Nat) (c q : Nat) (h : firstOffence p s o d = some (c, q)) :
    q ∈ starts o d := by
  cases s with
  | any => simp [firstOffence] at h
  | lits ls =>
    cases d with
    | scalar tok => simp only [firstOffence] at h; simp [starts, litsOffence_pos p ls tok o c q h]
    | arr ws0 its => simp only [firstOffence, Option.some.injEq, Prod.mk.injEq] at h; simp [starts, h.2]
    | obj ws0 ms => simp only [firstOffence, Option.some.injEq, Prod.mk.injEq] at h; simp [starts, h.2]
  | arr ls items =>
    cases d with
    | scalar tok =>
      simp only [firstOffence] at h
      cases hb : ls.isEmpty <;> rw [hb] at h <;> simp only [cond_true, cond_false, Option.some.injEq, Prod.mk.injEq] at h
      · simp [starts, litsOffence_pos p ls tok o c q h]
      · simp [starts, h.2]
    | obj ws0 ms => simp only [firstOffence, Option.some.injEq, Prod.mk.injEq] at h; simp [starts, h.2]
    | arr ws0 its =>
      simp only [firstOffence] at h
      simp only [starts, List.mem_cons]
      exact Or.inr (offItems_starts items its 0 _ c q h)
  | obj ls props =>
    cases d with
    | scalar tok =>
      simp only [firstOffence] at h
      cases hb : ls.isEmpty <;> rw [hb] at h <;> simp only [cond_true, cond_false, Option.some.injEq, Prod.mk.injEq] at h
      · simp [starts, litsOffence_pos p ls tok o c q h]
      · simp [starts, h.2]
    | arr ws0 its => simp only [firstOffence, Option.some.injEq, Prod.mk.injEq] at h; simp [starts, h.2]
    | obj ws0 ms =>
      simp only [firstOffence] at h
      simp only [starts, List.mem_cons]
      cases hm : offMembers p props (o + 1 + ws0.length) ms with
      | some x =>
        rw [hm] at h
        simp only [Option.some.injEq] at h
        subst h
        exact Or.inr (offMembers_starts props ms _ c q hm)
      | none =>
        rw [hm] at h
        cases hr : (requiredKeys props).all (hasKey p.unq ms) <;> rw [hr] at h <;>
          simp only [cond_true, cond_false, Option.some.injEq, Prod.mk.injEq, reduceCtorEq] at h
        exact Or.inl h.2.symm
theorem offItems_starts (items : List (S L)) (its : List (List α × T α × List α)) (i o : Nat) (c q : Nat)
    (h : offItems p items i o its = some (c, q)) : q ∈ startsItems o its := by
  cases its with
  | nil => simp [offItems] at h
  | cons it its =>
    obtain ⟨w1, v, w2⟩ := it
    simp only [offItems] at h
    simp only [startsItems, List.mem_append]
    cases hc : childAt items i with
    | none =>
      rw [hc] at h
      simp only [Option.some.injEq, Prod.mk.injEq] at h
      left; rw [← h.2]
      cases v <;> simp [starts]
    | some s =>
      rw [hc] at h
      dsimp only at h
      cases hs : firstOffence p s (o + w1.length) v with
      | some x =>
        rw [hs] at h
        simp only [Option.some.injEq] at h
        subst h
        exact Or.inl (offence_starts s v _ c q hs)
      | none =>
        rw [hs] at h
        exact Or.inr (offItems_starts items its (i + 1) _ c q h)
theorem offMembers_starts (props : List (String × Bool × S L))
    (ms : List (List α × List α × List α × List α × T α × List α)) (o : Nat) (c q : Nat)
    (h : offMembers p props o ms = some (c, q)) : q ∈ startsMembers o ms := by
  cases ms with
  | nil => simp [offMembers] at h
  | cons m ms =>
    obtain ⟨w1, k, w2, w3, v, w4⟩ := m
    simp only [offMembers] at h
    simp only [startsMembers, List.mem_cons, List.mem_append]
    cases hl : lookup props (p.unq k) with
    | none =>
      rw [hl] at h
      simp only [Option.some.injEq, Prod.mk.injEq] at h
      exact Or.inl h.2.symm
    | some s =>
      rw [hl] at h
      dsimp only at h
      cases hs : firstOffence p s (o + w1.length + k.length + w2.length + 1 + w3.length) v with
      | some x =>
        rw [hs] at h
        simp only [Option.some.injEq] at h
        subst h
        exact Or.inr (Or.inl (offence_starts s v _ c q hs))
      | none =>
        rw [hs] at h
        exact Or.inr (Or.inr (offMembers_starts props ms _ c q h))
end

theorem len_pos (d : T α) (hd : d.TokNE) : 0 < d.len := by
  cases d with
  | scalar tok => exact List.length_pos_iff.2 hd
  | arr ws0 its => simp only [T.len]; omega
  | obj ws0 ms => simp only [T.len]; omega

mutual
theorem starts_inside (d : T α) (hd : d.TokNE) (o q : Nat) (h : q ∈ starts o d) : o ≤ q ∧ q < o + d.len := by
  cases d with
  | scalar tok =>
    have := len_pos (.scalar tok) hd
    simp only [starts, List.mem_singleton] at h
    subst h; omega
  | arr ws0 its =>
    simp only [starts, List.mem_cons] at h
    simp only [T.len]
    rcases h with rfl | h
    · omega
    · have := startsItems_inside its hd _ q h; omega
  | obj ws0 ms =>
    simp only [starts, List.mem_cons] at h
    simp only [T.len]
    rcases h with rfl | h
    · omega
    · have := startsMembers_inside ms hd _ q h; omega
theorem startsItems_inside (its : List (List α × T α × List α)) (hd : TokNEItems its) (o q : Nat)
    (h : q ∈ startsItems o its) : o ≤ q ∧ q < o + lenItems its := by
  cases its with
  | nil => simp [startsItems] at h
  | cons it its =>
    obtain ⟨w1, v, w2⟩ := it
    simp only [TokNEItems] at hd
    simp only [startsItems, List.mem_append] at h
    simp only [lenItems]
    rcases h with h | h
    · have := starts_inside v hd.1 _ q h; omega
    · have := startsItems_inside its hd.2 _ q h; omega
theorem startsMembers_inside (ms : List (List α × List α × List α × List α × T α × List α)) (hd : TokNEMembers ms)
    (o q : Nat) (h : q ∈ startsMembers o ms) : o ≤ q ∧ q < o + lenMembers ms := by
  cases ms with
  | nil => simp [startsMembers] at h
  | cons m ms =>
    obtain ⟨w1, k, w2, w3, v, w4⟩ := m
    simp only [TokNEMembers] at hd
    simp only [startsMembers, List.mem_cons, List.mem_append] at h
    simp only [lenMembers]
    have hk : 0 < k.length := List.length_pos_iff.2 hd.1
    rcases h with rfl | h | h
    · omega
    · have := starts_inside v hd.2.1 _ q h; omega
    · have := startsMembers_inside ms hd.2.2 _ q h; omega
end


/-! ### `starts` = begin offsets of the value-opening and key-opening lexemes, in document order -/

/-- begin offset of a lexeme that opens a value (literal, array, object) or a key -/
def tokStart (e : Ev) : Option Nat :=
  match e.ty with
  | .litB | .arrB | .objB | .keyB => some e.b
  | _ => none

mutual
theorem starts_eq (d : T α) (o : Nat) : starts o d = (evsAt o d).filterMap tokStart := by
  cases d with
  | scalar tok => simp [starts, evsAt, tokStart, List.filterMap_cons]
  | arr ws0 its =>
    simp only [starts, evsAt, tokStart, List.filterMap_cons]
    rw [startsItems_eq its o]
  | obj ws0 ms =>
    simp only [starts, evsAt, tokStart, List.filterMap_cons]
    rw [startsMembers_eq ms o]
theorem startsItems_eq (its : List (List α × T α × List α)) (a o : Nat) :
    startsItems o its = (evsItems a o its).filterMap tokStart := by
  cases its with
  | nil => simp [startsItems, evsItems, tokStart, List.filterMap_cons]
  | cons it its =>
    obtain ⟨w1, v, w2⟩ := it
    simp only [startsItems, evsItems, tokStart, List.filterMap_cons, List.filterMap_append]
    rw [starts_eq v, startsItems_eq its a]
theorem startsMembers_eq (ms : List (List α × List α × List α × List α × T α × List α)) (a o : Nat) :
    startsMembers o ms = (evsMembers a o ms).filterMap tokStart := by
  cases ms with
  | nil => simp [startsMembers, evsMembers, tokStart, List.filterMap_cons]
  | cons m ms =>
    obtain ⟨w1, k, w2, w3, v, w4⟩ := m
    simp only [startsMembers, evsMembers, tokStart, List.filterMap_cons, List.filterMap_append]
    rw [starts_eq v, startsMembers_eq ms a]
end

theorem ofSpec_rej (x : Option (Code × Nat)) (c q : Nat) : Res.ofSpec x = .rej c q ↔ x = some (c, q) := by
  cases x with
  | none => simp [Res.ofSpec]
  | some y => obtain ⟨c', q'⟩ := y; simp [Res.ofSpec]

theorem ofSpec_acc (x : Option (Code × Nat)) : Res.ofSpec x = .acc ↔ x = none := by
  cases x with
  | none => simp [Res.ofSpec]
  | some y => obtain ⟨c', q'⟩ := y; simp [Res.ofSpec]

theorem ofSpec_ne_stuck (x : Option (Code × Nat)) : Res.ofSpec x ≠ .stuck := by
  cases x with
  | none => simp [Res.ofSpec]
  | some y => obtain ⟨c', q'⟩ := y; simp [Res.ofSpec]

end VPos
