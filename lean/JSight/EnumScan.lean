/-
Model of rules/enum/scanner.go (+ the value collection of enum.go).
Errors are returned (not panicked) by this scanner; the look-ahead is bounds-checked (F-7a),
`Length` clamps events synthesised after the end of input (F-7e).
-/
import JSight.SchemaRun
import JSight.Render
import JSight.Unquote
namespace EnumScan
open SchemaScan (Cls classify)

inductive LexT
  | litB | litE | arrB | arrE | itemB | itemE
  | inlAnnB | inlAnnE | inlTxtB | inlTxtE | mlAnnB | mlAnnE | mlTxtB | mlTxtE
  | newLine | endTop
  deriving DecidableEq, Repr, Inhabited

def LexT.isOpening : LexT → Bool
  | .litB | .arrB | .itemB | .mlAnnB | .inlAnnB | .inlTxtB | .mlTxtB => true
  | _ => false

inductive St
  | begin | arrItemOrEmpty | arrItem | endValue | afterItem | endTop
  | inString | esc | u0 | u1 | u2 | u3
  | neg | d1 | d0 | dot | dot0
  | t | tr | tru | f | fa | fal | fals | n | nu | nul
  | anyAnnStart | inlAnn | mlAnn | mlTxt | mlAnnEnd | inlTxt
  deriving DecidableEq, Repr, Inhabited

inductive Err
  | arrayExpected (idx : Nat)            -- 1600
  | invalidChar (idx : Nat) (ctx : String)
  | duplicate (idx : Nat)                -- 810
  | unexpectedEOF (idx : Nat)
  | eos                                  -- errEOS
  | other (why : String)
  deriving DecidableEq, Repr

structure Sc where
  step : St := .begin
  ret : List St := []
  stack : List (LexT × Nat) := []
  finds : List LexT := []
  index : Nat := 0
  ann : Bool := false
  unf : Bool := false
  lengthComputing : Bool := false
  hasTrailing : Bool := false
  unique : List (List UInt8 × Bool) := []      -- (decoded text, isString)
  deriving Repr

abbrev M := Except Err

def found (s : Sc) (t : LexT) : Sc := { s with finds := s.finds ++ [t] }
def errChar (s : Sc) (ctx : String) : Err := .invalidChar (s.index - 1) ctx
def stackTy (s : Sc) (k : Nat) : Option LexT := (s.stack[k]?).map (·.1)

def popRet (s : Sc) : M (St × Sc) :=
  match s.ret with
  | r :: rest => pure (r, { s with ret := rest })
  | [] => throw (.other "Reading from empty stack (returnToStep)")

def switchToAnnotation (s : Sc) : M Sc :=
  if s.ann then throw (errChar s "inside inline annotation")
  else pure { s with ret := s.step :: s.ret, step := .anyAnnStart }

def foundArrayEnd (s : Sc) : Sc :=
  let s := found s .arrE
  { s with step := if s.stack.isEmpty then .endTop else .endValue }

/-- stateBeginValue: `true` = a literal begins -/
def beginValue (s : Sc) (c : Cls) : M (Bool × Sc) :=
  if c.isNewLine then
    if s.ann then throw (errChar s "inside inline annotation") else pure (false, found s .newLine)
  else if c.isBlank then pure (false, s)
  else if c == .slash then do pure (false, ← switchToAnnotation s)
  else match c with
    | .quote => pure (true, { s with step := .inString, unf := true })
    | .minus => pure (true, { s with step := .neg, unf := true })
    | .zero => pure (true, { s with step := .d0 })
    | .lt => pure (true, { s with step := .t, unf := true })
    | .lf => pure (true, { s with step := .f, unf := true })
    | .ln => pure (true, { s with step := .n, unf := true })
    | .d19 => pure (true, { s with step := .d1 })
    | _ => throw (errChar s "looking for beginning of value")

def expect (s : Sc) (c want : Cls) (next : St) (clearUnf : Bool) (msg : String) : M Sc :=
  if c == want then pure { s with step := next, unf := if clearUnf then false else s.unf } else throw (errChar s msg)

def hexStep (s : Sc) (c : Cls) (next : St) : M Sc :=
  if c.isHex then pure { s with step := next } else throw (errChar s "in \\u hexadecimal character escape")

/-- newEnumItem + uniqueValues lookup (`validateValue`): token = content[begin .. index-2] -/
def validateValue (content : Array UInt8) (s : Sc) : M Sc :=
  match s.stack with
  | (_, b) :: _ =>
    let tok := (content.toList.drop b).take (s.index - 1 - b)
    let tok := (tok.dropWhile Render.isBlank).reverse.dropWhile Render.isBlank |>.reverse
    let isStr := Unquote.inQuotes tok
    let key := (if isStr then Unquote.unquote tok else tok, isStr)
    if s.unique.contains key then throw (.duplicate b)
    else pure { s with unique := key :: s.unique }
  | [] => throw (.other "Reading from empty stack")

mutual
def dispatch (content : Array UInt8) (fuel : Nat) (s : Sc) (c : Cls) (p1 : Option Cls) : M Sc :=
  match fuel with
  | 0 => throw (.other "re-dispatch fuel exhausted")
  | fuel + 1 =>
  let redispatch (s : Sc) : M Sc := dispatch content fuel s c p1
  match s.step with
  | .begin =>
      if c.isBlank then pure s
      else if c != .lbrack then throw (.arrayExpected (s.index - 1))
      else pure { (found s .arrB) with step := .arrItemOrEmpty }
  | .arrItemOrEmpty => do
      if c.isNewLine then
        if s.ann then throw (errChar s "inside inline annotation") else return found s .newLine
      if c == .rbrack then return foundArrayEnd s
      -- stateBeginArrayItemOrEmpty repeats the `]` test, then stateBeginValue
      let (lit, s) ← beginValue s c
      pure (if lit then found (found s .itemB) .litB else s)
  | .arrItem => do
      let (lit, s) ← beginValue s c
      pure (if lit then found (found s .itemB) .litB else s)
  | .endValue => endValue content fuel s c p1
  | .afterItem => do
      if c.isNewLine then
        if s.ann then throw (errChar s "inside inline annotation") else return found s .newLine
      if c.isBlank then return s
      if c == .slash then return ← switchToAnnotation s
      if c == .comma then return { s with step := .arrItem }
      if c == .rbrack then return foundArrayEnd s
      throw (errChar s "after array item")
  | .endTop => do
      if c.isNewLine then
        if s.ann then throw (errChar s "inside inline annotation") else return found s .newLine
      if c == .slash then return ← switchToAnnotation s
      if !c.isBlank then
        if s.lengthComputing then
          if !s.stack.isEmpty then return { s with hasTrailing := true }
          throw .eos                         -- found(EndTop) is lost: the error is returned first
        else if !s.ann then throw (errChar s "non-space byte after top-level value")
      if s.hasTrailing then throw .eos
      pure s
  | .inString =>
      match c with
      | .quote => pure { s with step := .endValue, unf := false }
      | .bslash => pure { s with step := .esc }
      | _ => if c.isLow then throw (errChar s "in string literal") else pure s
  | .esc =>
      match c with
      | .lb | .lf | .ln | .lr | .lt | .bslash | .slash | .quote => pure { s with step := .inString }
      | .lu => pure { s with ret := .inString :: s.ret, step := .u0 }
      | _ => throw (errChar s "in string escape code")
  | .u0 => hexStep s c .u1
  | .u1 => hexStep s c .u2
  | .u2 => hexStep s c .u3
  | .u3 => do
      if c.isHex then
        let (r, s) ← popRet s
        pure { s with step := r }
      else throw (errChar s "in \\u hexadecimal character escape")
  | .neg =>
      match c with
      | .zero => pure { s with step := .d0, unf := false }
      | .d19 => pure { s with step := .d1, unf := false }
      | _ => throw (errChar s "in numeric literal")
  | .d1 => if c.isDigit then pure { s with step := .d1 } else state0 content fuel s c p1
  | .d0 => state0 content fuel s c p1
  | .dot => if c.isDigit then pure { s with unf := false, step := .dot0 }
            else throw (errChar s "after decimal point in numeric literal")
  | .dot0 =>
      if c.isDigit then pure s
      else if c == .le || c == .uE then throw (errChar s "isn't allowed 'cause not obvious it's a float or an integer")
      else endValue content fuel s c p1
  | .t => expect s c .lr .tr false "in literal true (expecting 'r')"
  | .tr => expect s c .lu .tru false "in literal true (expecting 'u')"
  | .tru => expect s c .le .endValue true "in literal true (expecting 'e')"
  | .f => expect s c .la .fa false "in literal false (expecting 'a')"
  | .fa => expect s c .ll .fal false "in literal false (expecting 'l')"
  | .fal => expect s c .ls .fals false "in literal false (expecting 's')"
  | .fals => expect s c .le .endValue true "in literal false (expecting 'e')"
  | .n => expect s c .lu .nu false "in literal null (expecting 'u')"
  | .nu => expect s c .ll .nul false "in literal null (expecting 'l')"
  | .nul => expect s c .ll .endValue true "in literal null (expecting 'l')"
  | .anyAnnStart =>
      match c with
      | .slash => pure { (found s .inlAnnB) with ann := true, step := .inlAnn }
      | .star => pure { (found s .mlAnnB) with ann := true, step := .mlAnn }
      | _ => throw (errChar s "after first slash")
  | .inlAnn =>
      if c.isSpace then pure s      -- only ' ' and TAB are skipped: a line break ends an empty comment (fix F-31)
      else redispatch { (found s .inlTxtB) with step := .inlTxt }
  | .mlAnn =>
      if c.isNewLine then pure (found s .newLine)
      else if c.isBlank then pure s
      else redispatch { (found s .mlTxtB) with step := .mlTxt }
  | .mlTxt =>
      if c == .star && p1 == some .slash then pure { (found s .mlTxtE) with step := .mlAnnEnd }
      else pure s
  | .mlAnnEnd => do
      if c != .slash then throw (errChar s "in multi-line annotation after \"*\" character")
      let s := found s .mlAnnE
      let (r, s) ← popRet s
      pure { s with step := r, ann := false }
  | .inlTxt => do
      if c.isNewLine then
        let s := found (found (found s .inlTxtE) .inlAnnE) .newLine
        let (r, s) ← popRet s
        pure { s with step := r, ann := false }
      else pure s

def state0 (content : Array UInt8) (fuel : Nat) (s : Sc) (c : Cls) (p1 : Option Cls) : M Sc :=
  if c == .dot then pure { s with unf := true, step := .dot }
  else if c == .le || c == .uE then throw (errChar s "isn't allowed 'cause not obvious it's a float or an integer")
  else endValue content fuel s c p1

def endValue (content : Array UInt8) (fuel : Nat) (s : Sc) (c : Cls) (p1 : Option Cls) : M Sc := do
  let len := s.stack.length
  if len == 0 then return ← dispatch content fuel { s with step := .endTop } c p1
  let t0 := stackTy s 0
  let (s, t) ←
    if t0 == some .litB then
      let s := found s .litE
      let s ← validateValue content s
      if len == 1 then return ← dispatch content fuel { s with step := .endTop } c p1
      pure (s, stackTy s 1)
    else pure (s, t0)
  if t == some .itemB then
    return ← dispatch content fuel { (found s .itemE) with step := .afterItem } c p1
  if s.lengthComputing && t == some .inlAnnB then
    match s.stack with
    | _ :: rest =>
      let s := { s with ann := false, stack := rest }
      let (r, s) ← popRet s
      return ← dispatch content fuel { s with step := r } c p1
    | [] => throw (.other "Reading from empty stack")
  throw (errChar s "at the end of value")
end

structure Ev where
  ty : LexT
  b : Nat
  e : Nat
  deriving DecidableEq, Repr

def processFound (s : Sc) (t : LexT) : M (Sc × Ev) :=
  let i := s.index - 1
  if t == .newLine || t == .endTop then pure (s, ⟨t, i, i⟩)
  else if t.isOpening then pure ({ s with stack := (t, i) :: s.stack }, ⟨t, i, i⟩)
  else match s.stack with
    | [] => throw (.other "Reading from empty stack")
    | (p, b) :: rest =>
      if (p == .arrB && t == .arrE) || (p == .mlAnnB && t == .mlAnnE) then pure ({ s with stack := rest }, ⟨t, b, i⟩)
      else if (p == .litB && t == .litE) || (p == .itemB && t == .itemE) || (p == .mlTxtB && t == .mlTxtE)
           || (p == .inlTxtB && t == .inlTxtE) || (p == .inlAnnB && t == .inlAnnE) then
        pure ({ s with stack := rest }, ⟨t, b, i - 1⟩)
      else throw (.other "incorrect ending of the lexical event")

def shiftFound (s : Sc) : M (Option (Sc × Ev)) :=
  match s.finds with
  | [] => pure none
  | t :: rest => some <$> processFound { s with finds := rest } t

def next (content : Array UInt8) (data : Array Cls) : Nat → Sc → M (Sc × Ev)
  | 0, _ => throw (.other "next: fuel exhausted")
  | fuel + 1, s => do
    if let some r ← shiftFound s then return r
    if s.index < data.size then
      let c := data[s.index]!
      let s := { s with index := s.index + 1 }
      let s ← dispatch content 8 s c data[s.index]?
      if let some r ← shiftFound s then return r
      next content data fuel s
    else
      -- processTail
      if s.stack.isEmpty then throw .eos
      let s := { s with index := s.index + 1 }
      match stackTy s 0 with
      | some .litB => if s.unf then throw (.unexpectedEOF (data.size - 1)) else processFound s .litE
      | some .inlAnnB => processFound s .inlAnnE
      | some .inlTxtB => processFound s .inlTxtE
      | some .mlAnnB => processFound s .mlAnnE
      | some .mlTxtB => processFound s .mlTxtE
      | _ => throw (.unexpectedEOF (data.size - 1))

def events (content : Array UInt8) (data : Array Cls) : Nat → Sc → List Ev → M (List Ev)
  | 0, _, _ => throw (.other "events: fuel exhausted")
  | fuel + 1, s, acc =>
    match next content data (2 * data.size + 16) s with
    | .error .eos => pure acc.reverse
    | .error e => throw e
    | .ok (s, e) => events content data fuel s (e :: acc)

def scanAll (bs : List UInt8) : M (List Ev) :=
  let data := (bs.map classify).toArray
  events bs.toArray data (8 * data.size + 16) {} []

def lengthLoop (content : Array UInt8) (data : Array Cls) : Nat → Sc → Nat → M Nat
  | 0, _, _ => throw (.other "length: fuel exhausted")
  | fuel + 1, s, len =>
    match next content data (2 * data.size + 16) s with
    | .error .eos => pure len
    | .error e => throw e
    | .ok (s, e) =>
      let len := if e.e ≥ data.size then data.size else e.e + 1      -- F-7e
      lengthLoop content data fuel s len

def length (bs : List UInt8) : M Nat := do
  let data := (bs.map classify).toArray
  let l ← lengthLoop bs.toArray data (8 * data.size + 16) { lengthComputing := true } 0
  pure (SchemaScan.trimBlank data l)

end EnumScan
