import JSight.Protocol
namespace Protocol

/-! ### Once: the first result forever -/
theorem once_after_first {α : Type} (v : α) (fs : List (Unit → α)) :
    (Once.runAll ({ cell := some v } : Once α) fs).2 = fs.map (fun _ => v) ∧
    (Once.runAll ({ cell := some v } : Once α) fs).1.cell = some v := by
  induction fs with
  | nil => exact ⟨rfl, rfl⟩
  | cons f fs ih => simp [Once.runAll, Once.run, ih]

theorem once_stable {α : Type} (f : Unit → α) (fs : List (Unit → α)) :
    (Once.runAll ({} : Once α) (f :: fs)).2 = (f :: fs).map (fun _ => f ()) := by
  simp [Once.runAll, Once.run, (once_after_first (f ()) fs).1]

/-! ### pool: handed-out copies are never written again -/
/-- invariant: pooled and handed-out ids are valid and disjoint -/
structure Heap.Inv (h : Heap) : Prop where
  pool_lt : ∀ id ∈ h.pool, id < h.bufs.length
  handed_lt : ∀ id ∈ h.handed, id < h.bufs.length
  disj : ∀ id ∈ h.handed, id ∉ h.pool

theorem inv_init : Heap.init.Inv := ⟨by simp [Heap.init], by simp [Heap.init], by simp [Heap.init]⟩

theorem example_spec (h : Heap) (hi : h.Inv) (c : List Nat) :
    (h.example c).1.Inv ∧ (h.example c).1.read (h.example c).2 = some c ∧
    (∀ id ∈ h.handed, (h.example c).1.read id = h.read id) := by
  unfold Heap.example Heap.getAndWrite
  cases hp : h.pool with
  | nil =>
    simp only
    refine ⟨⟨?_, ?_, ?_⟩, ?_, ?_⟩
    · intro id hid; simp at hid; subst hid; simp
    · intro id hid
      simp only [List.mem_cons] at hid
      rcases hid with rfl | hid
      · simp
      · have := hi.handed_lt id hid; simp; omega
    · intro id hid
      simp only [List.mem_cons] at hid
      rcases hid with rfl | hid
      · simp
      · have := hi.handed_lt id hid; simp; omega
    · simp [Heap.read]
    · intro id hid
      have := hi.handed_lt id hid
      simp [Heap.read, List.getElem?_append_left, this, show id < h.bufs.length + 1 by omega]
  | cons p rest =>
    have hpl : p < h.bufs.length := hi.pool_lt p (by simp [hp])
    simp only
    refine ⟨⟨?_, ?_, ?_⟩, ?_, ?_⟩
    · intro id hid
      simp only [List.mem_cons] at hid
      rcases hid with rfl | hid
      · simp; omega
      · have := hi.pool_lt id (by simp [hp, hid]); simp; omega
    · intro id hid
      simp only [List.mem_cons] at hid
      rcases hid with rfl | hid
      · simp
      · have := hi.handed_lt id hid; simp; omega
    · intro id hid
      simp only [List.mem_cons] at hid
      rcases hid with rfl | hid
      · simp only [List.length_set, List.mem_cons, not_or]
        refine ⟨by omega, ?_⟩
        intro hr
        have := hi.pool_lt h.bufs.length (by rw [hp]; exact List.mem_cons_of_mem _ hr)
        omega
      · have hd := hi.disj id hid
        rw [hp] at hd
        simpa using hd
    · simp [Heap.read]
    · intro id hid
      have hlt := hi.handed_lt id hid
      have hne : p ≠ id := by
        intro e; subst e
        exact hi.disj p hid (by simp [hp])
      simp [Heap.read, List.getElem?_append_left, hlt, List.getElem_set_ne hne]

/-- whatever `Example()` calls follow, a value handed to the caller keeps its content -/
theorem examples_preserve (cs : List (List Nat)) : ∀ (h : Heap), h.Inv → ∀ id ∈ h.handed,
    (h.examples cs).read id = h.read id := by
  induction cs with
  | nil => intro h _ id _; rfl
  | cons c cs ih =>
    intro h hi id hid
    obtain ⟨hi', _, hkeep⟩ := example_spec h hi c
    simp only [Heap.examples]
    rw [ih _ hi' id (by simp [Heap.example, Heap.getAndWrite]; split <;> simp [hid]), hkeep id hid]

/-- the pinned variant violates it on two calls -/
theorem pinned_overwrites :
    let h1 := (Heap.init.examplePinned [1]);
    let h2 := (h1.1.examplePinned [2]);
    h1.1.read h1.2 = some [1] ∧ h2.1.read h1.2 = some [2] := by decide

/-! ### first use compiles exactly once, under every schedule -/
/-- the three phases of the cell: idle, one goroutine inside `f`, done -/
def Race.Inv (s : Race) : Prop :=
  (s.cell = none ∧ s.running = false ∧ s.count = 0 ∧ s.res = [] ∧ ∀ g : Nat, s.pcs[g]? ≠ some PC.inF) ∨
  (s.cell = none ∧ s.running = true ∧ s.count = 1 ∧ s.res = [] ∧
      ∃ g0 : Nat, s.pcs[g0]? = some PC.inF ∧ ∀ g : Nat, s.pcs[g]? = some PC.inF → g = g0) ∨
  (∃ v, s.cell = some v ∧ s.running = false ∧ s.count = 1 ∧ (∀ p ∈ s.res, p.2 = v) ∧ ∀ g : Nat, s.pcs[g]? ≠ some PC.inF)

theorem race_inv_init (n : Nat) : (Race.init n).Inv := by
  unfold Race.Inv
  left
  refine ⟨rfl, rfl, rfl, rfl, ?_⟩
  intro g h
  simp only [Race.init, List.getElem?_replicate] at h
  split at h <;> simp at h

theorem getElem?_lt {α : Type} {l : List α} {i : Nat} {a : α} (h : l[i]? = some a) : i < l.length := by
  rcases Nat.lt_or_ge i l.length with hl | hl
  · exact hl
  · rw [List.getElem?_eq_none hl] at h; simp at h

theorem race_step_inv (f : Nat → Nat) (s : Race) (hi : s.Inv) (g : Nat) : (s.step f g).Inv := by
  unfold Race.Inv at hi ⊢
  unfold Race.step
  cases hg : s.pcs[g]? with
  | none => simpa using hi
  | some pc =>
    have hlt := getElem?_lt hg
    cases pc with
    | done => simpa using hi
    | start =>
      simp only
      split
      · -- the cell is filled: return the cached value
        rename_i v hv
        rcases hi with ⟨hc, _⟩ | ⟨hc, _⟩ | ⟨v', hc, hr, hn, hres, hno⟩
        · rw [hc] at hv; cases hv
        · rw [hc] at hv; cases hv
        · have hvv : v' = v := by rw [hc] at hv; injection hv
          subst hvv
          right; right
          refine ⟨v', hc, hr, hn, ?_, ?_⟩
          · intro p hp
            simp only [List.mem_cons] at hp
            rcases hp with rfl | hp
            · rfl
            · exact hres p hp
          · intro g' hg'
            rcases Nat.decEq g g' with hne | heq
            · rw [List.getElem?_set_ne hne] at hg'; exact hno g' hg'
            · subst heq; simp [hlt] at hg'
      · rename_i hnone
        split
        · exact hi
        · rename_i hnr
          rcases hi with ⟨hc, hr, hn, hres, hno⟩ | ⟨hc, hr, _⟩ | ⟨v, hc, _⟩
          · right; left
            refine ⟨hc, rfl, by simp [hn], hres, g, by simp [hlt], ?_⟩
            intro g' hg'
            rcases Nat.decEq g' g with hne | heq
            · rw [List.getElem?_set_ne (fun e => hne e.symm)] at hg'
              exact absurd hg' (hno g')
            · exact heq
          · exact absurd hr hnr
          · rw [hc] at hnone; cases hnone
    | inF =>
      rcases hi with ⟨_, _, _, _, hno⟩ | ⟨hc, hr, hn, hres, g0, hg0, huniq⟩ | ⟨v, _, _, _, _, hno⟩
      · exact absurd hg (hno g)
      · right; right
        refine ⟨f g, rfl, rfl, hn, ?_, ?_⟩
        · intro p hp
          simp only [hres, List.mem_cons, List.not_mem_nil, or_false] at hp
          subst hp; rfl
        · intro g' hg'
          rcases Nat.decEq g g' with hne | heq
          · rw [List.getElem?_set_ne hne] at hg'
            exact hne ((huniq g hg).trans (huniq g' hg').symm)
          · subst heq; simp [hlt] at hg'
      · exact absurd hg (hno g)

theorem race_run_inv (f : Nat → Nat) (sched : List Nat) : ∀ s : Race, s.Inv → (s.run f sched).Inv := by
  induction sched with
  | nil => intro s h; exact h
  | cons g gs ih => intro s h; exact ih _ (race_step_inv f s h g)

/-- under every schedule: `f` starts at most once and all goroutines that returned got the same value -/
theorem race_once (f : Nat → Nat) (n : Nat) (sched : List Nat) :
    ((Race.init n).run f sched).count ≤ 1 ∧
    ∀ p ∈ ((Race.init n).run f sched).res, ∀ q ∈ ((Race.init n).run f sched).res, p.2 = q.2 := by
  have h := race_run_inv f sched _ (race_inv_init n)
  unfold Race.Inv at h
  rcases h with ⟨_, _, hn, hres, _⟩ | ⟨_, _, hn, hres, _⟩ | ⟨v, _, _, hn, hres, _⟩
  · exact ⟨by omega, by simp [hres]⟩
  · exact ⟨by omega, by simp [hres]⟩
  · exact ⟨by omega, fun p hp q hq => (hres p hp).trans (hres q hq).symm⟩

end Protocol
