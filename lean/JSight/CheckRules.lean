import JSight.RulesFull
/-!
# C08 model: the rule checker itself — what `Check` does with the RULES of one annotated node

One annotated node = its kind (`NKind`: the EXAMPLE's JSON kind, for containers the number of children, a type
shortcut `@t`, an or shortcut `@a | @b`), whether it is an object property, and the ORDERED list of
(rule name, rule value) as the loader meets them in the annotation. The rule name is the text after
`TrimSpaces().Unquote()` (`RuleNameSpelling.lean` / `C13_rule_name_spelling` cover that step); the rule value is
the value tree of the annotation (`Val`: scalar token with its raw bytes, `@name` shortcut, array, object).

`checkRules` runs, in the order the code runs, everything that looks only at the rules and the node kind:

1. the shortcut constraints a `@t` / `@a | @b` node starts with (`loader/shortcut.go`);
2. rule by rule (`ruleLoader.ruleValue`, `embedded_loader_for_rule*.go`): `or` (TypesList + Or constraints, then
   the members: a quoted type name or a rule-set, each rule-set LOADED AND COMPILED on the spot as an anonymous
   type — `orRuleSetLoader.makeTypeFromRuleSet`), `enum`, `allOf`, any other name with a literal value through
   `constraint.NewConstraintFromRule` (`constraint.go`: unknown name 601; the constructors `c_*.go`: 604, 605, 103,
   "Incorrect number value" = code 0), then `AddConstraint` (`base_node.go`: duplicate 501; `mixed_value_node.go`:
   the special cases for `type` / `or` on a shortcut node, modelled as coded — known finding K-C08-ref-type-or);
3. `compileNode` (`loader/compiler_basic.go`) step by step: `falseConstraints`, `orConstraint`, `enumConstraint`,
   `precisionConstraint`, `typeConstraint` (user type / `jsonTypesHandler` / `NewJsonType` / `SetRealType`),
   `allowedConstraintCheck`, `anyConstraint`, `exclusiveMinimum/MaximumConstraint` (folded into min / max BEFORE
   the pair check: fix F-25), `checkPairConstraints`, `optionalConstraints`, `emptyArray`;
4. `CompileAllOf` on the node (`compiler_all_of.go`: empty list 809, not an object 1117; the allOf constraint is
   deleted — the parents are assumed to resolve to object types, that is the link check's business, C09);
5. `checkCompatibilityOfConstraints` (`checker/check_schema.go`): every remaining constraint against the JSON
   type of the node (`compat` = `IsJsonTypeCompatible`; tied to the regenerated table by `compat_is_table`).

The result is the FIRST error code in code order, or `ok`. What comes after (link check, the EXAMPLE against
the rules, item counts of a non-empty array) belongs to C04 / C09 and is not part of this model.

The constraint map is represented by its lookup function (`CMap = CT → Option CV`): the pipeline reads it only
through `Has` / `Get` / `Len` / `Set` / `Delete`, the key-wise `Filter` of `falseConstraints` and the `Each` of the
compatibility check, all of whose failures carry the same code (`Gen.C08_cmap_uses_reviewed`,
`Props.C08.C08_lookup_perm`).

Oracles (data of the node, computed by the harness with the real standard library): which `regex` tokens are
JSON strings that Go's `regexp` compiles (`okRegex`), which named enum rules exist (`enumRules`).
-/
namespace CR

abbrev Bytes := List UInt8
abbrev Code := Nat

/-! ### values of the annotation -/

/-- a value as the loader sees it: a scalar token (raw bytes: quotes included), a `@name` shortcut, an array,
an object (keys after TrimSpaces/Unquote) -/
inductive Val
  | lit (tok : Bytes)
  | ref (name : Bytes)
  | arr (items : List Val)
  | obj (entries : List (Bytes × Val))

abbrev Rule := Bytes × Val

/-! ### vocabulary: how names and tokens are read -/

def n_minLength : Bytes := [109, 105, 110, 76, 101, 110, 103, 116, 104]
def n_maxLength : Bytes := [109, 97, 120, 76, 101, 110, 103, 116, 104]
def n_min : Bytes := [109, 105, 110]
def n_max : Bytes := [109, 97, 120]
def n_exclusiveMinimum : Bytes := [101, 120, 99, 108, 117, 115, 105, 118, 101, 77, 105, 110, 105, 109, 117, 109]
def n_exclusiveMaximum : Bytes := [101, 120, 99, 108, 117, 115, 105, 118, 101, 77, 97, 120, 105, 109, 117, 109]
def n_type : Bytes := [116, 121, 112, 101]
def n_precision : Bytes := [112, 114, 101, 99, 105, 115, 105, 111, 110]
def n_optional : Bytes := [111, 112, 116, 105, 111, 110, 97, 108]
def n_minItems : Bytes := [109, 105, 110, 73, 116, 101, 109, 115]
def n_maxItems : Bytes := [109, 97, 120, 73, 116, 101, 109, 115]
def n_additionalProperties : Bytes := [97, 100, 100, 105, 116, 105, 111, 110, 97, 108, 80, 114, 111, 112, 101, 114, 116, 105, 101, 115]
def n_nullable : Bytes := [110, 117, 108, 108, 97, 98, 108, 101]
def n_regex : Bytes := [114, 101, 103, 101, 120]
def n_const : Bytes := [99, 111, 110, 115, 116]
def n_or : Bytes := [111, 114]
def n_enum : Bytes := [101, 110, 117, 109]
def n_allOf : Bytes := [97, 108, 108, 79, 102]

/-- the rule names the code knows (`ruleLoader.ruleValue` + `NewConstraintFromRule`) -/
inductive RName
  | minLength | maxLength | min | max | exclusiveMinimum | exclusiveMaximum | type | precision | optional
  | minItems | maxItems | additionalProperties | nullable | regex | const | or | enum | allOf
  deriving DecidableEq, Repr

/-- the name ↦ rule table of `ruleLoader.ruleValue` / `NewConstraintFromRule` -/
def rnameTable : List (Bytes × RName) :=
  [(n_minLength, .minLength), (n_maxLength, .maxLength), (n_min, .min), (n_max, .max),
   (n_exclusiveMinimum, .exclusiveMinimum), (n_exclusiveMaximum, .exclusiveMaximum), (n_type, .type),
   (n_precision, .precision), (n_optional, .optional), (n_minItems, .minItems), (n_maxItems, .maxItems),
   (n_additionalProperties, .additionalProperties), (n_nullable, .nullable), (n_regex, .regex), (n_const, .const),
   (n_or, .or), (n_enum, .enum), (n_allOf, .allOf)]

def RName.ofBytes (b : Bytes) : Option RName := rnameTable.lookup b

def t_mixed : Bytes := [109, 105, 120, 101, 100]
def t_enum : Bytes := [101, 110, 117, 109]
def t_any : Bytes := [97, 110, 121]
def t_decimal : Bytes := [100, 101, 99, 105, 109, 97, 108]
def t_email : Bytes := [101, 109, 97, 105, 108]
def t_uri : Bytes := [117, 114, 105]
def t_uuid : Bytes := [117, 117, 105, 100]
def t_date : Bytes := [100, 97, 116, 101]
def t_datetime : Bytes := [100, 97, 116, 101, 116, 105, 109, 101]
def t_object : Bytes := [111, 98, 106, 101, 99, 116]
def t_array : Bytes := [97, 114, 114, 97, 121]
def t_string : Bytes := [115, 116, 114, 105, 110, 103]
def t_integer : Bytes := [105, 110, 116, 101, 103, 101, 114]
def t_float : Bytes := [102, 108, 111, 97, 116]
def t_boolean : Bytes := [98, 111, 111, 108, 101, 97, 110]
def t_null : Bytes := [110, 117, 108, 108]
def t_true : Bytes := [116, 114, 117, 101]
def t_false : Bytes := [102, 97, 108, 115, 101]
def t_comment : Bytes := [99, 111, 109, 109, 101, 110, 116]
/-- the raw tokens `"mixed"` and `"enum"` (quotes included): `orConstraint` / `enumConstraint` compare the RAW value -/
def q_mixed : Bytes := [34, 109, 105, 120, 101, 100, 34]
def q_enum : Bytes := [34, 101, 110, 117, 109, 34]

/-- `json.Type` of a node -/
inductive JT | object | array | string | integer | float | boolean | null | mixed
  deriving DecidableEq, Repr

/-- `bytes.IsValidUserTypeNameByte` -/
def isNameByte (c : UInt8) : Bool :=
  c == 45 || c == 95 || (97 ≤ c && c ≤ 122) || (65 ≤ c && c ≤ 90) || (48 ≤ c && c ≤ 57)

/-- `Bytes.IsUserTypeName` -/
def isUserTypeName (b : Bytes) : Bool :=
  match b with
  | 64 :: c :: rest => (c :: rest).all isNameByte
  | _ => false

/-- what the (unquoted) value of a `type` rule names -/
inductive TyName
  | user | mixed | enum | any | decimal | email | uri | uuid | date | datetime
  | json (t : JT)        -- object array string integer float boolean null (never `mixed`)
  | unknown
  deriving DecidableEq, Repr

/-- the keys of `jsonTypesHandler` and the names `NewJsonType` knows -/
def tyTable : List (Bytes × TyName) :=
  [(t_mixed, .mixed), (t_enum, .enum), (t_any, .any), (t_decimal, .decimal), (t_email, .email), (t_uri, .uri),
   (t_uuid, .uuid), (t_date, .date), (t_datetime, .datetime), (t_object, .json .object), (t_array, .json .array),
   (t_string, .json .string), (t_integer, .json .integer), (t_float, .json .float), (t_boolean, .json .boolean),
   (t_null, .json .null)]

/-- `typeConstraint`: `IsUserTypeName` first, then the keys of `jsonTypesHandler`, then `NewJsonType` -/
def TyName.ofBytes (b : Bytes) : TyName :=
  if isUserTypeName b then .user else (tyTable.lookup b).getD .unknown

def TyName.isFormat : TyName → Bool
  | .email | .uri | .uuid | .date | .datetime => true
  | _ => false

/-- the type a `type` rule token names -/
def tyOf (tok : Bytes) : TyName := TyName.ofBytes (Unquote.unquote tok)

/-- `Bytes.ParseBool` -/
def parseBool (b : Bytes) : Option Bool :=
  if b = t_true then some true else if b = t_false then some false else none

def isDigit (c : UInt8) : Bool := 48 ≤ c && c ≤ 57

/-- `Bytes.ParseUint`: digits only, not empty; Go's `uint` arithmetic wraps at 2^64 -/
def parseUint (b : Bytes) : Option Nat :=
  if b.isEmpty || !b.all isDigit then none
  else some (b.foldl (fun u c => (u * 10 + (c.toNat - 48)) % 18446744073709551616) 0)

/-- `NewAdditionalProperties`: "any" / "true" / "false", a user type name, or a name `IsValidType` knows (the names a
`type` rule takes and `comment`: found by the run-time bridge against `Compile.parseAdd`, settled by the real library) -/
def addPropsOK (tok : Bytes) : Bool :=
  let u := Unquote.unquote tok
  u = t_true || u = t_false || u = t_comment || TyName.ofBytes u != .unknown

/-! ### constraints -/

/-- `constraint.Type` (required-keys is never on the annotated node when these steps run) -/
inductive CT
  | minLength | maxLength | min | max | exclusiveMinimum | exclusiveMaximum | type | precision | optional
  | minItems | maxItems | additionalProperties | nullable | regex | const | or | enum | allOf
  | typesList | any | email | uri | uuid | date | datetime
  deriving DecidableEq, Repr

def CT.all : List CT :=
  [.minLength, .maxLength, .min, .max, .exclusiveMinimum, .exclusiveMaximum, .type, .precision, .optional,
   .minItems, .maxItems, .additionalProperties, .nullable, .regex, .const, .or, .enum, .allOf,
   .typesList, .any, .email, .uri, .uuid, .date, .datetime]

/-- the constraint type a rule name creates -/
def RName.ct : RName → CT
  | .minLength => .minLength | .maxLength => .maxLength | .min => .min | .max => .max
  | .exclusiveMinimum => .exclusiveMinimum | .exclusiveMaximum => .exclusiveMaximum | .type => .type
  | .precision => .precision | .optional => .optional | .minItems => .minItems | .maxItems => .maxItems
  | .additionalProperties => .additionalProperties | .nullable => .nullable | .regex => .regex
  | .const => .const | .or => .or | .enum => .enum | .allOf => .allOf

/-- what the pipeline reads of a constraint -/
inductive CV
  | flag (b : Bool)                          -- optional, nullable, const, exclusiveMinimum, exclusiveMaximum
  | nat (n : Nat)                            -- minLength, maxLength, minItems, maxItems, precision
  | num (v : Num.N) (exclusive : Bool)       -- min, max (the flag is set by the exclusive* steps)
  | type (tok : Bytes) (generated : Bool)    -- the raw token; generated = added by a `@t` shortcut
  | or (generated : Bool)
  | types (users : List Bool)                -- TypesList: per name "starts with @"
  | allOf (names : List Bytes)
  | unit                                     -- regex, enum, additionalProperties, any, the formats
  deriving DecidableEq, Repr

abbrev CMap := CT → Option CV

def bnat (b : Bool) : Nat := if b then 1 else 0

namespace CMap
def empty : CMap := fun _ => none
def has (m : CMap) (k : CT) : Bool := (m k).isSome
def set (m : CMap) (k : CT) (v : CV) : CMap := fun k' => if k' = k then some v else m k'
def del (m : CMap) (k : CT) : CMap := fun k' => if k' = k then none else m k'
/-- `NumberOfConstraints` -/
def len (m : CMap) : Nat := (CT.all.map fun k => bnat (m.has k)).sum
end CMap

/-- `baseNode.AddConstraint` -/
def addBase (m : CMap) (k : CT) (v : CV) : Except Code CMap :=
  if m.has k then .error 501 else .ok (m.set k v)

/-! ### the node -/

inductive Cls
  | literal | object | array
  | mixedValue      -- `MixedValueNode`: a type shortcut or an or shortcut
  | mixed           -- `MixedNode`: the root of an or member's anonymous type
  deriving DecidableEq, Repr

structure Ctx where
  cls : Cls
  jt : JT
  children : Nat := 0
  isProp : Bool := false
  deriving DecidableEq, Repr

def Ctx.isBranch (c : Ctx) : Bool := c.cls = .object || c.cls = .array

/-- the root of an or member (`NewMixedNode`): no parent; its JSON type is never read by these steps -/
def memberCtx : Ctx := { cls := .mixed, jt := .mixed }

inductive NKind
  | integer | float | string | boolean | null
  | object (children : Nat)
  | array (children : Nat)
  | typeRef (name : Bytes)              -- `@t`
  | orShortcut (users : List Bool)      -- `@a | @b`: per name "starts with @" (the scanner only lets type names through)
  deriving DecidableEq, Repr

structure Node where
  kind : NKind
  isProp : Bool
  rules : List Rule
  /-- oracle: the `regex` value tokens that are JSON strings Go's regexp compiles -/
  okRegex : List Bytes := []
  /-- oracle: the names of the enum rules added with `AddRule` (all well-formed) -/
  enumRules : List Bytes := []

def NKind.ctx (k : NKind) (isProp : Bool) : Ctx :=
  match k with
  | .integer => { cls := .literal, jt := .integer, isProp }
  | .float => { cls := .literal, jt := .float, isProp }
  | .string => { cls := .literal, jt := .string, isProp }
  | .boolean => { cls := .literal, jt := .boolean, isProp }
  | .null => { cls := .literal, jt := .null, isProp }
  | .object n => { cls := .object, jt := .object, children := n, isProp }
  | .array n => { cls := .array, jt := .array, children := n, isProp }
  | .typeRef _ => { cls := .mixedValue, jt := .mixed, isProp }
  | .orShortcut _ => { cls := .mixedValue, jt := .mixed, isProp }

def Node.ctx (n : Node) : Ctx := n.kind.ctx n.isProp

/-- `addShortcutConstraint`: what a shortcut node carries before its annotation is read -/
def initMap : NKind → CMap
  | .typeRef name => CMap.empty.set .type (.type name true)
  | .orShortcut us => (CMap.empty.set .typesList (.types us)).set .or (.or true)
  | _ => CMap.empty

/-! ### `AddConstraint` -/

/-- `MixedValueNode.addTypeConstraint` -/
def addTypeMV (m : CMap) (tok : Bytes) (gen : Bool) : Except Code CMap :=
  match m .type with
  | some (.type old _) =>
    let newVal := Unquote.unquote tok
    if newVal ≠ Unquote.unquote old ∧ newVal ≠ t_mixed then .error 501
    else .ok (m.set .type (.type tok gen))
  | _ => addBase m .type (.type tok gen)

/-- `node.AddConstraint(c)` for the node classes -/
def addC (c : Ctx) (m : CMap) (k : CT) (v : CV) : Except Code CMap :=
  if c.cls = .mixedValue then
    match k, v with
    | .type, .type tok gen => addTypeMV m tok gen
    | .or, v =>
      -- `addOrConstraint`: an existing type rule becomes "mixed" (same source), then the ordinary insertion
      (match m .type with
       | some (.type _ gen) => addTypeMV m q_mixed gen
       | _ => .ok m) >>= fun m => addBase m .or v
    | k, v => addBase m k v
  else addBase m k v

/-! ### rule values -/

structure Env where
  okRegex : List Bytes
  enumRules : List Bytes

/-- `NewConstraintFromRule` on a literal value: the constraint, or the constructor's error -/
def mkLit (env : Env) (name : Bytes) (tok : Bytes) : Except Code (CT × CV) :=
  match RName.ofBytes name with
  | some .minLength => match parseUint tok with | some n => .ok (.minLength, .nat n) | none => .error 604
  | some .maxLength => match parseUint tok with | some n => .ok (.maxLength, .nat n) | none => .error 604
  | some .min => match RulesF.number tok with | some v => .ok (.min, .num v false) | none => .error 0
  | some .max => match RulesF.number tok with | some v => .ok (.max, .num v false) | none => .error 0
  | some .exclusiveMinimum => match parseBool tok with | some b => .ok (.exclusiveMinimum, .flag b) | none => .error 604
  | some .exclusiveMaximum => match parseBool tok with | some b => .ok (.exclusiveMaximum, .flag b) | none => .error 604
  | some .type => .ok (.type, .type tok false)
  | some .precision =>
    (match parseUint tok with
     | some n => if n = 0 then .error 605 else .ok (.precision, .nat n)
     | none => .error 604)
  | some .optional => match parseBool tok with | some b => .ok (.optional, .flag b) | none => .error 604
  | some .minItems => match parseUint tok with | some n => .ok (.minItems, .nat n) | none => .error 604
  | some .maxItems => match parseUint tok with | some n => .ok (.maxItems, .nat n) | none => .error 604
  | some .additionalProperties => if addPropsOK tok then .ok (.additionalProperties, .unit) else .error 103
  | some .nullable => match parseBool tok with | some b => .ok (.nullable, .flag b) | none => .error 604
  | some .regex => if tok ∈ env.okRegex then .ok (.regex, .unit) else .error 0
  | some .const => match parseBool tok with | some b => .ok (.const, .flag b) | none => .error 604
  | _ => .error 601        -- or / enum / allOf with a literal value never get here at top level; inside a rule-set "or", "allOf" do

/-- `NewEnumItem`'s identity of an item: (decoded text for strings / source text otherwise, guessed kind) -/
def enumKey (tok : Bytes) : Option (Bytes × Rules.Kind) := RulesF.enumItem tok

/-- `enumValueLoader`: array of literals (807 for another item, 810 for a repeated (value, kind)), or the name of
an enum rule (1602 when it does not exist), anything else 806 -/
def loadEnumItems : List Val → List (Option (Bytes × Rules.Kind)) → Except Code Unit
  | [], _ => .ok ()
  | .lit tok :: rest, seen =>
    let k := enumKey tok
    if k ∈ seen then .error 810 else loadEnumItems rest (k :: seen)
  | _ :: _, _ => .error 807

def loadEnumValue (env : Env) : Val → Except Code Unit
  | .arr items => loadEnumItems items []
  | .ref name => if name ∈ env.enumRules then .ok () else .error 1602
  | _ => .error 806

/-- `AllOf.Append` -/
def allOfName (tok : Bytes) : Except Code Bytes :=
  if !Unquote.inQuotes tok then .error 808
  else if !isUserTypeName (Unquote.unquote tok) then .error 702
  else .ok (Unquote.unquote tok)

def loadAllOfItems : List Val → List Bytes → Except Code (List Bytes)
  | [], acc => .ok acc
  | .lit tok :: rest, acc => (allOfName tok) >>= fun nm => loadAllOfItems rest (acc ++ [nm])
  | _ :: _, _ => .error 808

/-- `allOfValueLoader` -/
def loadAllOfValue : Val → Except Code (List Bytes)
  | .lit tok => (allOfName tok).map fun nm => [nm]
  | .arr items => loadAllOfItems items []
  | _ => .error 808

/-! ### `compileNode` -/

def falseConstraints (m : CMap) : CMap :=
  let m := if m .nullable = some (.flag false) then m.del .nullable else m
  if m .const = some (.flag false) then m.del .const else m

def typeTok (m : CMap) : Option (Bytes × Bool) :=
  match m .type with
  | some (.type tok gen) => some (tok, gen)
  | _ => none

def typesUsers (m : CMap) : Option (List Bool) :=
  match m .typesList with
  | some (.types us) => some us
  | _ => none

/-- `TypesList.Len()`; 0 when there is no TypesList -/
def typesLen (m : CMap) : Nat :=
  match typesUsers m with | some us => us.length | none => 0

/-- the `type` rule, if any, is written exactly `q` (the RAW token is compared) -/
def rawIs (m : CMap) (q : Bytes) : Bool :=
  match typeTok m with | some (tok, _) => decide (tok = q) | none => true

/-- `TypesList.HasUserTypes` / "some name starts with @" -/
def usersAny (m : CMap) : Bool :=
  match typesUsers m with | some us => us.any id | none => false

/-- `orConstraint` with `ensureCanUseORConstraint` / `checkBranchNodeWithOrConstraint` -/
def orConstraint (c : Ctx) (m : CMap) : Except Code CMap :=
  if !m.has .or then .ok m
  else if !m.has .typesList then .error 801
  else
    let n := m.len - 1 - bnat (m.has .or) - bnat (m.has .optional) - bnat (m.has .nullable) - bnat (m.has .type)
    if !rawIs m q_mixed then .error 1111
    else if n ≠ 0 then .error 1103
    else if c.isBranch && c.children ≠ 0 then .error 1108
    else if c.isBranch && usersAny m then .error 1108
    else if c.cls = .mixedValue && m .or = some (.or false) && usersAny m then .error 1108
    else .ok (m.del .or)

def enumConstraint (m : CMap) : Except Code CMap :=
  if !m.has .enum then .ok m
  else
    let n := m.len - 1 - bnat (m.has .optional) - bnat (m.has .const) - bnat (m.has .nullable) - bnat (m.has .type)
    if !rawIs m q_enum then .error 1111
    else if n ≠ 0 then .error 1104
    else .ok m

def precisionConstraint (m : CMap) : Except Code CMap :=
  if !m.has .precision then .ok m
  else match typeTok m with
    | some (tok, _) => if tyOf tok ≠ .decimal then .error 1117 else .ok m
    | none => .ok m

/-- `compatibleTypes[valStr]` has the node's JSON type (`baseNode.SetRealType`) -/
def realTypeOK (ty : TyName) (jt : JT) : Bool :=
  match ty with
  | .mixed | .any => true
  | .enum => jt = .string || jt = .integer || jt = .float || jt = .boolean || jt = .null
  | .decimal => jt = .float
  | .email | .uri | .uuid | .date | .datetime => jt = .string
  | .json t => jt = t
  | .user | .unknown => false

def fmtCT : TyName → Option CT
  | .email => some .email | .uri => some .uri | .uuid => some .uuid | .date => some .date | .datetime => some .datetime
  | _ => none

/-- `typeConstraint`: `typeConstraintForUserType` / `typeConstraintForJSONTypes`, then the type rule is deleted -/
def typeConstraint (c : Ctx) (m : CMap) : Except Code CMap :=
  match typeTok m with
  | none => .ok m
  | some (tok, gen) =>
    let ty := tyOf tok
    if ty = .user then
      let n := m.len - bnat (m.has .optional) - bnat (m.has .nullable)
      if n ≠ 1 then .error 1102
      else if c.isBranch then .error 1107
      else if c.cls = .mixedValue && !gen then .error 1107
      else (addBase m .typesList (.types [true])) >>= fun m => .ok (m.del .type)
    else
      (match ty with
       | .mixed => if typesLen m < 2 then .error 1114 else .ok m
       | .enum => if m.has .enum then .ok m else .error 1113
       | .any => addBase m .any .unit
       | .decimal => if m.has .precision then .ok m else .error 1112
       | .email => addBase m .email .unit
       | .uri => addBase m .uri .unit
       | .uuid => addBase m .uuid .unit
       | .date => addBase m .date .unit
       | .datetime => addBase m .datetime .unit
       | .json t => if c.cls = .mixed then .ok m else if t ≠ c.jt then .error 1115 else .ok m
       | _ => .error 102) >>= fun m =>
      if c.cls = .mixed || c.cls = .mixedValue || realTypeOK ty c.jt then .ok (m.del .type) else .error 1115

def hasFormat (m : CMap) : Bool := m.has .email || m.has .uri || m.has .uuid || m.has .date || m.has .datetime

/-- `allowedConstraintCheck` (`bannedConstraints`; every failure has the same code) -/
def allowedConstraintCheck (m : CMap) : Except Code CMap :=
  if hasFormat m && (m.has .minLength || m.has .maxLength || m.has .regex) then .error 1117
  else if m.has .any && m.has .const then .error 1117
  else .ok m

def anyConstraint (c : Ctx) (m : CMap) : Except Code CMap :=
  if !m.has .any then .ok m
  else
    let n := m.len - 1 - bnat (m.has .optional) - bnat (m.has .nullable) - bnat (m.has .const)
    if n ≠ 0 then .error 1105
    else if c.isBranch && c.children ≠ 0 then .error 1106
    else .ok m

def setExclusive (m : CMap) (k : CT) : CMap :=
  match m k with
  | some (.num v _) => m.set k (.num v true)
  | _ => m

def exclusiveMinimumConstraint (m : CMap) : Except Code CMap :=
  match m .exclusiveMinimum with
  | none => .ok m
  | some v =>
    if !m.has .min then .error 1109
    else .ok ((if v = .flag true then setExclusive m .min else m).del .exclusiveMinimum)

def exclusiveMaximumConstraint (m : CMap) : Except Code CMap :=
  match m .exclusiveMaximum with
  | none => .ok m
  | some v =>
    if !m.has .max then .error 1110
    else .ok ((if v = .flag true then setExclusive m .max else m).del .exclusiveMaximum)

/-- `checkMinAndMax` (after the exclusive flags were folded into the bounds) -/
def pairNum (x y : Option CV) : Except Code Unit :=
  match x, y with
  | some (.num a ea), some (.num b eb) =>
    if ea || eb then (if a.cmp b ≠ .lt then .error 618 else .ok ())
    else (if a.cmp b = .gt then .error 617 else .ok ())
  | _, _ => .ok ()

/-- `checkMinLengthAndMaxLength`, `checkMinItemsAndMaxItems` -/
def pairNat (x y : Option CV) : Except Code Unit :=
  match x, y with
  | some (.nat a), some (.nat b) => if a > b then .error 617 else .ok ()
  | _, _ => .ok ()

/-- `checkPairConstraints` -/
def checkPairConstraints (m : CMap) : Except Code CMap :=
  pairNum (m .min) (m .max) >>= fun _ => pairNat (m .minLength) (m .maxLength) >>= fun _ =>
  pairNat (m .minItems) (m .maxItems) >>= fun _ => .ok m

def optionalConstraints (c : Ctx) (m : CMap) : Except Code CMap :=
  if m.has .optional && !c.isProp then .error 1101 else .ok m

/-- an item-count constraint with a value other than 0 -/
def countNonZero (x : Option CV) : Bool :=
  match x with | some (.nat a) => decide (a ≠ 0) | _ => false

def emptyArray (c : Ctx) (m : CMap) : Except Code CMap :=
  if c.cls = .array && c.children = 0 then
    if countNonZero (m .minItems) then .error 1204
    else if countNonZero (m .maxItems) then .error 1204
    else .ok m
  else .ok m

/-- `schemaCompiler.compileNode` on one node -/
def compile (c : Ctx) (m : CMap) : Except Code CMap :=
  orConstraint c (falseConstraints m) >>= enumConstraint >>= precisionConstraint >>= typeConstraint c
    >>= allowedConstraintCheck >>= anyConstraint c >>= exclusiveMinimumConstraint >>= exclusiveMaximumConstraint
    >>= checkPairConstraints >>= optionalConstraints c >>= emptyArray c

/-! ### `or` members -/

/-- one entry of a member rule-set (`orRuleSetLoader`): `enum` has its own value loader, every other name needs a
literal value (805) and goes through `NewConstraintFromRule`; `typeRoot.AddConstraint` is the plain insertion -/
def loadSetEntry (env : Env) (m : CMap) (e : Rule) : Except Code CMap :=
  if e.1 = n_enum then
    addBase m .enum .unit >>= fun m => loadEnumValue env e.2 >>= fun _ => .ok m
  else match e.2 with
    | .lit tok => mkLit env e.1 tok >>= fun kv => addBase m kv.1 kv.2
    | _ => .error 805

/-- `makeTypeFromRuleSet`: empty 905; a lone `type: "@name"` is the named type itself; anything else is compiled
as an anonymous type on the spot. Result: does the member's name start with `@` -/
def finishSet (m : CMap) : Except Code Bool :=
  if m.len = 0 then .error 905
  else if m.len = 1 && (match typeTok m with | some (tok, _) => tyOf tok = .user | none => false) then .ok true
  else compile memberCtx m >>= fun _ => .ok false

/-- one item of the `or` array (`orValueLoader.itemInner` / `literal`) -/
def loadOrItem (env : Env) (c : Ctx) (users : List Bool) (v : Val) : Except Code (List Bool) :=
  match v with
  | .lit tok =>
    if !Unquote.inQuotes tok then .error 904
    else if isUserTypeName (Unquote.unquote tok) then .ok (users ++ [true])
    else compile memberCtx (CMap.empty.set .type (.type (Unquote.unquote tok) false)) >>= fun _ => .ok (users ++ [false])
  | .obj entries =>
    if c.cls = .mixedValue then .error 1102          -- `newOrRuleSetLoader` on a shortcut node
    else entries.foldlM (loadSetEntry env) CMap.empty >>= finishSet >>= fun u => .ok (users ++ [u])
  | _ => .error 904

/-- `orValueLoader`: an array (901) of at least two members (902 / 903) -/
def loadOrValue (env : Env) (c : Ctx) : Val → Except Code (List Bool)
  | .arr items => items.foldlM (loadOrItem env c) [] >>= fun us =>
      if us.length = 0 then .error 902 else if us.length = 1 then .error 903 else .ok us
  | _ => .error 901

/-! ### the annotation, rule by rule -/

/-- `ruleLoader.ruleValue` … `ruleValueLiteral` for one rule of the annotated node -/
def loadRule (env : Env) (c : Ctx) (m : CMap) (r : Rule) : Except Code CMap :=
  if r.1 = n_or then
    addC c m .typesList (.types []) >>= fun m => addC c m .or (.or false) >>= fun m =>
    loadOrValue env c r.2 >>= fun us => .ok (m.set .typesList (.types us))
  else if r.1 = n_enum then
    addC c m .enum .unit >>= fun m => loadEnumValue env r.2 >>= fun _ => .ok m
  else if r.1 = n_allOf then
    addC c m .allOf (.allOf []) >>= fun m => loadAllOfValue r.2 >>= fun ns => .ok (m.set .allOf (.allOf ns))
  else match r.2 with
    | .lit tok => mkLit env r.1 tok >>= fun kv => addC c m kv.1 kv.2
    | _ => .error 802

/-! ### after the compiler -/

/-- `CompileAllOf` on the node (parents assumed to be object types) -/
def allOfStep (c : Ctx) (m : CMap) : Except Code CMap :=
  match m .allOf with
  | some (.allOf ns) => if ns.isEmpty then .error 809 else if c.cls ≠ .object then .error 1117 else .ok (m.del .allOf)
  | _ => .ok m

/-- `IsJsonTypeCompatible` of every constraint type -/
def compat (k : CT) (t : JT) : Bool :=
  match k with
  | .min | .max | .exclusiveMinimum | .exclusiveMaximum => t = .integer || t = .float
  | .precision => t = .float
  | .minLength | .maxLength | .regex | .email | .uri | .uuid | .date | .datetime => t = .string
  | .minItems | .maxItems => t = .array
  | .additionalProperties | .allOf => t = .object
  | .enum => t = .string || t = .integer || t = .float || t = .boolean || t = .null || t = .mixed
  | .const => t ≠ .object && t ≠ .array
  | .type | .optional | .nullable | .or | .typesList | .any => true

/-- `checkCompatibilityOfConstraints` (skipped for MixedNode / MixedValueNode) -/
def checkCompat (c : Ctx) (m : CMap) : Except Code Unit :=
  if c.cls = .mixed || c.cls = .mixedValue then .ok ()
  else if CT.all.all (fun k => !m.has k || compat k c.jt) then .ok () else .error 1117

/-- what `Check` does with the rules of one annotated node: the first error code in code order -/
def checkRules (n : Node) : Except Code Unit :=
  let env : Env := { okRegex := n.okRegex, enumRules := n.enumRules }
  n.rules.foldlM (loadRule env n.ctx) (initMap n.kind) >>= compile n.ctx >>= allOfStep n.ctx >>= checkCompat n.ctx

def isOk {ε α : Type} : Except ε α → Bool
  | .ok _ => true
  | .error _ => false

end CR
