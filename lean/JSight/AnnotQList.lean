import JSight.AnnotQRun
import JSight.AnnotEnum
/-!
Annotations with QUOTED rule names and LIST values, scanner level: the single-byte facts and runs of `AnnotEnum`
(an array of literals as a rule value) at configurations `cfgQ a q …` — with the `boundaryQuote` flag as a parameter,
because the rule's name may be quoted (`"enum": […]`) — plus the closing of a list value by `,`.
-/
namespace SchemaScan

variable {data : Array Cls}

/-! ### single bytes -/

/-- `[` where a rule value is expected -/
theorem aval_arrQ (f : Nat) (q : Bool) (a : Ann) (r : List St)
    (K : List (LexT × Nat)) (i : Nat) (CS : List Ctx) (cx : Ctx) (al : Bool) (p1 p2 : Option Cls) :
    dispatch (f + 1) .objValue (cfgQ a q .objValue r K false i CS cx al) .lbrack p1 p2
      = .ok { cfgQ a q .arrItemOrEmpty r K false i (cx :: CS) { ty := .array } al with finds := [.valB, .arrB] } := by
  cases a <;> (unfold dispatch; rfl)


theorem aarr_spQ (f : Nat) (q : Bool) (a : Ann) (ha : a.isAnn = true) (st : St) (h : itemSt st = true) (c : Cls)
    (hc : c.isSpTab = true) (r : List St)
    (K : List (LexT × Nat)) (i : Nat) (CS : List Ctx) (cx : Ctx) (al : Bool) (p1 p2 : Option Cls) :
    dispatch (f + 1) st (cfgQ a q st r K false i CS cx al) c p1 p2 = .ok (cfgQ a q st r K false i CS cx al) := by
  cases a <;> simp [Ann.isAnn] at ha <;> cases st <;> simp [itemSt] at h <;>
    cases c <;> simp [Cls.isSpTab] at hc <;> (unfold dispatch; rfl)

theorem aarr_nlQ (f : Nat) (q : Bool) (st : St) (h : itemSt st = true) (r : List St)
    (K : List (LexT × Nat)) (i : Nat) (CS : List Ctx) (cx : Ctx) (al : Bool) (p1 p2 : Option Cls) :
    dispatch (f + 1) st (cfgQ .multi q st r K false i CS cx al) .nl p1 p2
      = .ok { cfgQ .multi q st r K false i CS cx al with finds := [.newLine] } := by
  cases st <;> simp [itemSt] at h <;> (unfold dispatch; rfl)

/-- first byte of an item's literal -/
theorem aitem_startQ (f : Nat) (q : Bool) (a : Ann) (ha : a.isAnn = true) (st : St) (h : itemSt st = true) (c : Cls) (st0 : St)
    (u0 : Bool) (hl : litStart c = some (st0, u0)) (r : List St)
    (K : List (LexT × Nat)) (i : Nat) (CS : List Ctx) (cx : Ctx) (al : Bool) (p1 p2 : Option Cls) :
    dispatch (f + 1) st (cfgQ a q st r K false i CS cx al) c p1 p2
      = .ok { cfgQ a q st0 r K u0 i CS cx al with finds := [.itemB, .litB] } := by
  cases a <;> simp [Ann.isAnn] at ha <;> cases st <;> simp [itemSt] at h <;>
    cases c <;> simp [litStart] at hl <;> obtain ⟨rfl, rfl⟩ := hl <;> (unfold dispatch; rfl)

/-- `]` of an empty list -/
theorem aarr_rbrack_emptyQ (f : Nat) (q : Bool) (a : Ann) (ha : a.isAnn = true) (r : List St) (x : LexT × Nat)
    (K : List (LexT × Nat)) (i : Nat) (c0 : Ctx) (CS : List Ctx) (cx : Ctx) (al : Bool) (p1 p2 : Option Cls) :
    dispatch (f + 1) .arrItemOrEmpty (cfgQ a q .arrItemOrEmpty r (x :: K) false i (c0 :: CS) cx al) .rbrack p1 p2
      = .ok { cfgQ a q .endValue r (x :: K) false i CS c0 al with finds := [.arrE] } := by
  cases a <;> simp [Ann.isAnn] at ha <;> (unfold dispatch; rfl)

/-- `stateEndValue` behind the literal of an item: the literal and the item are closed -/
theorem ev_closeA_itemQ (f : Nat) (q : Bool) (a : Ann) (st : St) (r : List St) (b b2 : Nat) (R : List (LexT × Nat)) (i : Nat)
    (CS : List Ctx) (cx : Ctx) (al : Bool) (c : Cls) (p1 p2 : Option Cls) :
    endValue f (cfgQ a q st r ((.litB, b) :: (.itemB, b2) :: R) false i CS cx al) c p1 p2
      = dispatch f .afterItem
          { cfgQ a q .afterItem r ((.litB, b) :: (.itemB, b2) :: R) false i CS cx al with finds := [.litE, .itemE] } c p1 p2 := by
  unfold endValue dispatch'; rfl

theorem aaftI_spQ (f : Nat) (q : Bool) (a : Ann) (c : Cls) (hc : c.isSpTab = true) (r : List St)
    (K : List (LexT × Nat)) (i : Nat) (CS : List Ctx) (cx : Ctx) (al : Bool) (fs : List LexT) (p1 p2 : Option Cls) :
    dispatch (f + 1) .afterItem { cfgQ a q .afterItem r K false i CS cx al with finds := fs } c p1 p2
      = .ok { cfgQ a q .afterItem r K false i CS cx al with finds := fs } := by
  cases c <;> simp [Cls.isSpTab] at hc <;> cases a <;> (unfold dispatch; rfl)

theorem aaftI_nlQ (f : Nat) (q : Bool) (r : List St)
    (K : List (LexT × Nat)) (i : Nat) (CS : List Ctx) (cx : Ctx) (al : Bool) (fs : List LexT) (p1 p2 : Option Cls) :
    dispatch (f + 1) .afterItem { cfgQ .multi q .afterItem r K false i CS cx al with finds := fs } .nl p1 p2
      = .ok { cfgQ .multi q .afterItem r K false i CS cx al with finds := fs ++ [.newLine] } := by
  unfold dispatch; rfl

theorem aaftI_commaQ (f : Nat) (q : Bool) (a : Ann) (r : List St)
    (K : List (LexT × Nat)) (i : Nat) (CS : List Ctx) (cx : Ctx) (al : Bool) (fs : List LexT) (p1 p2 : Option Cls) :
    dispatch (f + 1) .afterItem { cfgQ a q .afterItem r K false i CS cx al with finds := fs } .comma p1 p2
      = .ok { cfgQ a q .arrItem r K false i CS cx al with finds := fs } := by
  cases a <;> (unfold dispatch; rfl)

theorem aaftI_rbrackQ (f : Nat) (q : Bool) (a : Ann) (ha : a.isAnn = true) (r : List St) (x : LexT × Nat)
    (K : List (LexT × Nat)) (i : Nat) (c0 : Ctx) (CS : List Ctx) (cx : Ctx) (al : Bool) (fs : List LexT)
    (p1 p2 : Option Cls) :
    dispatch (f + 1) .afterItem { cfgQ a q .afterItem r (x :: K) false i (c0 :: CS) cx al with finds := fs } .rbrack p1 p2
      = .ok { cfgQ a q .endValue r (x :: K) false i CS c0 al with finds := fs ++ [.arrE] } := by
  cases a <;> simp [Ann.isAnn] at ha <;> (unfold dispatch; rfl)

/-- `stateEndValue` behind the closing bracket of a rule value: the value is closed -/
theorem ev_closeA_valQ (f : Nat) (q : Bool) (a : Ann) (r : List St) (b2 : Nat) (R : List (LexT × Nat)) (i : Nat)
    (CS : List Ctx) (cx : Ctx) (al : Bool) (c : Cls) (p1 p2 : Option Cls) :
    endValue f (cfgQ a q .endValue r ((.valB, b2) :: R) false i CS cx al) c p1 p2
      = dispatch f .afterValue
          { cfgQ a q .afterValue r ((.valB, b2) :: R) false i CS cx al with finds := [.valE] } c p1 p2 := by
  unfold endValue dispatch'; rfl

/-- `}` directly behind the closing bracket (the value's end still queued) -/
theorem aaft_rbrace_valQ (f : Nat) (q : Bool) (a : Ann) (ha : a.isAnn = true) (r : List St) (b2 o y : Nat)
    (R : List (LexT × Nat)) (i : Nat) (c0 : Ctx) (CS : List Ctx) (cx : Ctx) (al : Bool) (p1 p2 : Option Cls) :
    dispatch (f + 1) .afterValue
        { cfgQ a q .afterValue r ((.valB, b2) :: (.objB, o) :: (a.B, y) :: R) false i (c0 :: CS) cx al with
          finds := [.valE] } .rbrace p1 p2
      = .ok { cfgQ a q a.prefixSt r ((.valB, b2) :: (.objB, o) :: (a.B, y) :: R) false i CS c0 al with
          finds := [.valE, .objE] } := by
  cases a <;> simp [Ann.isAnn] at ha <;> (unfold dispatch; rfl)

/-! ### blanks between the items -/

theorem arr_blank_runQ (a : Ann) (ha : a.isAnn = true) (q : Bool) : ∀ (ws : List Cls), ABlank a ws → ∀ (st : St), itemSt st = true →
    ∀ (r : List St) (K : List (LexT × Nat)) (i : Nat) (CS : List Ctx) (cx : Ctx) (al : Bool), At data i ws →
    Steps data (cfgQ a q st r K false i CS cx al) (nlEvs i ws) (cfgQ a q st r K false (i + ws.length) CS cx al)
  | [], _, st, _, r, K, i, CS, cx, al, _ => Steps.refl _ _
  | c :: ws, hw, st, hl, r, K, i, CS, cx, al, hat => by
    obtain ⟨hc, hat'⟩ := hat
    rcases okBlank_cases hw.head with hs | ⟨rfl, rfl⟩
    · have ih := arr_blank_runQ a ha q ws hw.tail st hl r K (i + 1) CS cx al hat'
      have h1 : Steps data (cfgQ a q st r K false i CS cx al) [] (cfgQ a q st r K false (i + 1) CS cx al) :=
        cfgQ_byte hc (fun p1 p2 => aarr_spQ 7 q a ha st hl c hs r K (i + 1) CS cx al p1 p2) rfl rfl
      have := Steps.trans h1 ih
      simp only [nlEvs, if_neg (sptab_ne_nl hs), List.nil_append, List.length_cons]
      rw [show i + (ws.length + 1) = i + 1 + ws.length by omega]
      exact this
    · have ih := arr_blank_runQ .multi ha q ws hw.tail st hl r K (i + 1) CS cx al hat'
      have h1 : Steps data (cfgQ .multi q st r K false i CS cx al) [⟨.newLine, i, i⟩]
          (cfgQ .multi q st r K false (i + 1) CS cx al) :=
        cfgQ_byte hc (fun p1 p2 => aarr_nlQ 7 q st hl r K (i + 1) CS cx al p1 p2) rfl rfl
      have := Steps.trans h1 ih
      simp only [nlEvs, if_true, List.length_cons]
      rw [show i + (ws.length + 1) = i + 1 + ws.length by omega]
      exact this

theorem aft_blank_runQ (a : Ann) (ha : a.isAnn = true) (q : Bool) : ∀ (ws : List Cls), ABlank a ws →
    ∀ (r : List St) (K : List (LexT × Nat)) (i : Nat) (CS : List Ctx) (cx : Ctx) (al : Bool), At data i ws →
    Steps data (cfgQ a q .afterItem r K false i CS cx al) (nlEvs i ws) (cfgQ a q .afterItem r K false (i + ws.length) CS cx al)
  | [], _, r, K, i, CS, cx, al, _ => Steps.refl _ _
  | c :: ws, hw, r, K, i, CS, cx, al, hat => by
    obtain ⟨hc, hat'⟩ := hat
    rcases okBlank_cases hw.head with hs | ⟨rfl, rfl⟩
    · have ih := aft_blank_runQ a ha q ws hw.tail r K (i + 1) CS cx al hat'
      have h1 : Steps data (cfgQ a q .afterItem r K false i CS cx al) [] (cfgQ a q .afterItem r K false (i + 1) CS cx al) :=
        cfgQ_byte hc (fun p1 p2 => aaftI_spQ 7 q a c hs r K (i + 1) CS cx al [] p1 p2) rfl rfl
      have := Steps.trans h1 ih
      simp only [nlEvs, if_neg (sptab_ne_nl hs), List.nil_append, List.length_cons]
      rw [show i + (ws.length + 1) = i + 1 + ws.length by omega]
      exact this
    · have ih := aft_blank_runQ .multi ha q ws hw.tail r K (i + 1) CS cx al hat'
      have h1 : Steps data (cfgQ .multi q .afterItem r K false i CS cx al) [⟨.newLine, i, i⟩]
          (cfgQ .multi q .afterItem r K false (i + 1) CS cx al) :=
        cfgQ_byte hc (fun p1 p2 => aaftI_nlQ 7 q r K (i + 1) CS cx al [] p1 p2) rfl rfl
      have := Steps.trans h1 ih
      simp only [nlEvs, if_true, List.length_cons]
      rw [show i + (ws.length + 1) = i + 1 + ws.length by omega]
      exact this

/-! ### one item -/

/-- blanks, then the token: up to its last byte -/
theorem item_openQ (a : Ann) (ha : a.isAnn = true) (q : Bool) (w1 tok : List Cls) (hw1 : ABlank a w1) (htok : IsScalar tok)
    {st : St} (hst : itemSt st = true) (x : St) (K : List (LexT × Nat)) (p : Nat) (CS : List Ctx) (cx : Ctx) (al : Bool)
    (hat : At data p (w1 ++ tok)) :
    ∃ stE, PV stE = true ∧
      Steps data (cfgQ a q st [x] K false p CS cx al)
        (nlEvs p w1 ++ [⟨.itemB, p + w1.length, p + w1.length⟩, ⟨.litB, p + w1.length, p + w1.length⟩])
        (cfgQ a q stE [x] ((.litB, p + w1.length) :: (.itemB, p + w1.length) :: K) false (p + w1.length + tok.length)
          CS cx al) := by
  obtain ⟨c, tl, st0, unf0, stE, rfl, hs, hr, hp⟩ := htok
  rw [At_append] at hat
  obtain ⟨hat1, hc0, hattl⟩ := hat
  have s1 := arr_blank_runQ a ha q w1 hw1 st hst [x] K p CS cx al hat1
  have s2 : Steps data (cfgQ a q st [x] K false (p + w1.length) CS cx al)
      [⟨.itemB, p + w1.length, p + w1.length⟩, ⟨.litB, p + w1.length, p + w1.length⟩]
      (cfgQ a q st0 [x] ((.litB, p + w1.length) :: (.itemB, p + w1.length) :: K) unf0 (p + w1.length + 1) CS cx al) :=
    cfgQ_byte hc0 (fun p1 p2 => aitem_startQ 7 q a ha st hst c st0 unf0 hs [x] K _ CS cx al p1 p2) rfl rfl
  have hr' := silentRun_ret tl st0 [] unf0 stE [] false x hr
  have s3 := tok_runQ a q tl st0 [x] unf0 stE [x] false hr'
    ((.litB, p + w1.length) :: (.itemB, p + w1.length) :: K) (p + w1.length + 1) CS cx al hattl
  refine ⟨stE, hp, (Steps.trans (Steps.trans s1 s2) s3).cast (by simp) (cfgQ_congr rfl ?_)⟩
  simp only [List.length_cons]; omega

/-- the byte behind an item's literal is a blank -/
theorem iclose_blankQ (a : Ann) (ha : a.isAnn = true) (q : Bool) {st : St} (hst : PV st = true) (c : Cls) (hc : a.okBlank c = true)
    (x : St) (b b2 : Nat) (K : List (LexT × Nat)) (i : Nat) (CS : List Ctx) (cx : Ctx) (al : Bool)
    (hcat : data[i]? = some c) :
    Steps data (cfgQ a q st [x] ((.litB, b) :: (.itemB, b2) :: K) false i CS cx al)
      ([⟨.litE, b, i - 1⟩, ⟨.itemE, b2, i - 1⟩] ++ nlEvs i [c])
      (cfgQ a q .afterItem [x] K false (i + 1) CS cx al) := by
  rcases okBlank_cases hc with hs | ⟨rfl, rfl⟩
  · refine (cfgQ_byte hcat (fun p1 p2 =>
      (pv_dispatch 7 st hst c (by cases c <;> simp [Cls.isSpTab] at hs <;> rfl) _ p1 p2).trans
        ((ev_closeA_itemQ 7 q a st [x] b b2 K (i + 1) CS cx al c p1 p2).trans
          (aaftI_spQ 6 q a c hs [x] _ (i + 1) CS cx al _ p1 p2))) rfl rfl).cast ?_ rfl
    show [(⟨LexT.litE, b, i + 1 - 1 - 1⟩ : Ev), ⟨LexT.itemE, b2, i + 1 - 1 - 1⟩] = _
    simp [nlEvs, sptab_ne_nl hs]
  · refine (cfgQ_byte hcat (fun p1 p2 =>
      (pv_dispatch 7 st hst .nl rfl _ p1 p2).trans
        ((ev_closeA_itemQ 7 q .multi st [x] b b2 K (i + 1) CS cx al .nl p1 p2).trans
          (aaftI_nlQ 6 q [x] _ (i + 1) CS cx al _ p1 p2))) rfl rfl).cast ?_ rfl
    show [(⟨LexT.litE, b, i + 1 - 1 - 1⟩ : Ev), ⟨LexT.itemE, b2, i + 1 - 1 - 1⟩, ⟨LexT.newLine, i + 1 - 1, i + 1 - 1⟩] = _
    simp [nlEvs]

/-- blanks behind an item's literal, then `,` -/
theorem item_close_commaQ (a : Ann) (ha : a.isAnn = true) (q : Bool) {st : St} (hst : PV st = true) (w2 : List Cls)
    (hw2 : ABlank a w2) (x : St) (b b2 : Nat) (K : List (LexT × Nat)) (i : Nat) (CS : List Ctx) (cx : Ctx) (al : Bool)
    (hat : At data i (w2 ++ [Cls.comma])) :
    Steps data (cfgQ a q st [x] ((.litB, b) :: (.itemB, b2) :: K) false i CS cx al)
      (⟨.litE, b, i - 1⟩ :: ⟨.itemE, b2, i - 1⟩ :: nlEvs i w2)
      (cfgQ a q .arrItem [x] K false (i + w2.length + 1) CS cx al) := by
  cases w2 with
  | nil =>
    exact cfgQ_byte hat.1 (fun p1 p2 =>
      (pv_dispatch 7 st hst .comma rfl _ p1 p2).trans
        ((ev_closeA_itemQ 7 q a st [x] b b2 K (i + 1) CS cx al .comma p1 p2).trans
          (aaftI_commaQ 6 q a [x] _ (i + 1) CS cx al _ p1 p2))) rfl rfl
  | cons c w =>
    rw [At_append] at hat
    obtain ⟨⟨hc, hatw⟩, hcomma, _⟩ := hat
    have s1 := iclose_blankQ a ha q hst c hw2.head x b b2 K i CS cx al hc
    have s2 := aft_blank_runQ a ha q w hw2.tail [x] K (i + 1) CS cx al hatw
    have s3 : Steps data (cfgQ a q .afterItem [x] K false (i + 1 + w.length) CS cx al) []
        (cfgQ a q .arrItem [x] K false (i + 1 + w.length + 1) CS cx al) :=
      cfgQ_byte (by rw [show i + 1 + w.length = i + (w.length + 1) by omega]; exact hcomma)
        (fun p1 p2 => aaftI_commaQ 7 q a [x] K _ CS cx al [] p1 p2) rfl rfl
    refine (Steps.trans (Steps.trans s1 s2) s3).cast ?_ (cfgQ_congr rfl ?_)
    · simp [nlEvs]
    · simp only [List.length_cons]; omega

/-- blanks behind the last item's literal, then `]` -/
theorem item_close_rbrackQ (a : Ann) (ha : a.isAnn = true) (q : Bool) {st : St} (hst : PV st = true) (w2 : List Cls)
    (hw2 : ABlank a w2) (x : St) (b b2 v : Nat) (K : List (LexT × Nat)) (i : Nat) (c0 : Ctx) (CS : List Ctx) (cx : Ctx)
    (al : Bool) (hat : At data i (w2 ++ [Cls.rbrack])) :
    Steps data (cfgQ a q st [x] ((.litB, b) :: (.itemB, b2) :: (.arrB, v) :: K) false i (c0 :: CS) cx al)
      (⟨.litE, b, i - 1⟩ :: ⟨.itemE, b2, i - 1⟩ :: (nlEvs i w2 ++ [⟨.arrE, v, i + w2.length⟩]))
      (cfgQ a q .endValue [x] K false (i + w2.length + 1) CS c0 al) := by
  cases w2 with
  | nil =>
    exact cfgQ_byte hat.1 (fun p1 p2 =>
      (pv_dispatch 7 st hst .rbrack rfl _ p1 p2).trans
        ((ev_closeA_itemQ 7 q a st [x] b b2 _ (i + 1) (c0 :: CS) cx al .rbrack p1 p2).trans
          (aaftI_rbrackQ 6 q a ha [x] _ _ (i + 1) c0 CS cx al _ p1 p2))) rfl rfl
  | cons c w =>
    rw [At_append] at hat
    obtain ⟨⟨hc, hatw⟩, hrb, _⟩ := hat
    have s1 := iclose_blankQ a ha q hst c hw2.head x b b2 ((.arrB, v) :: K) i (c0 :: CS) cx al hc
    have s2 := aft_blank_runQ a ha q w hw2.tail [x] ((.arrB, v) :: K) (i + 1) (c0 :: CS) cx al hatw
    have s3 : Steps data (cfgQ a q .afterItem [x] ((.arrB, v) :: K) false (i + 1 + w.length) (c0 :: CS) cx al)
        [⟨.arrE, v, i + 1 + w.length⟩] (cfgQ a q .endValue [x] K false (i + 1 + w.length + 1) CS c0 al) :=
      cfgQ_byte (by rw [show i + 1 + w.length = i + (w.length + 1) by omega]; exact hrb)
        (fun p1 p2 => aaftI_rbrackQ 7 q a ha [x] (.arrB, v) K _ c0 CS cx al [] p1 p2) rfl rfl
    refine (Steps.trans (Steps.trans s1 s2) s3).cast ?_ (cfgQ_congr rfl ?_)
    · simp only [nlEvs, List.length_cons, List.cons_append, List.nil_append, List.append_assoc, List.append_nil]
      rw [show i + (w.length + 1) = i + 1 + w.length by omega]
    · simp only [List.length_cons]; omega

/-! ### the items of the list -/


theorem citems_runQ (a : Ann) (ha : a.isAnn = true) (q : Bool) (x : St) (v : Nat) (K : List (LexT × Nat)) (c0 : Ctx)
    (CS : List Ctx) (cx : Ctx) (al : Bool) : ∀ (its : List CItem), CItemsValid a its → ∀ {st : St}, itemSt st = true →
    (its = [] → st = .arrItemOrEmpty) → ∀ (o : Nat), At data o (renderCItems its) →
    Steps data (cfgQ a q st [x] ((.arrB, v) :: K) false o (c0 :: CS) cx al) (citemsEvs v o its)
      (cfgQ a q .endValue [x] K false (o + (renderCItems its).length) CS c0 al)
  | [], _, st, _, hst, o, hat => by
    rw [hst rfl]
    exact cfgQ_byte hat.1 (fun p1 p2 => aarr_rbrack_emptyQ 7 q a ha [x] (.arrB, v) K _ c0 CS cx al p1 p2) rfl rfl
  | (w1, t, w2) :: its, hv, st, hst, _, o, hat => by
    obtain ⟨hw1, htk, hw2⟩ : ABlank a w1 ∧ IsScalar t ∧ ABlank a w2 := hv (w1, t, w2) (by simp)
    have hv' : CItemsValid a its := fun z hz => hv z (by simp [hz])
    have e : renderCItems ((w1, t, w2) :: its)
        = (w1 ++ t) ++ ((w2 ++ [if its.isEmpty then Cls.rbrack else Cls.comma]) ++
            (if its.isEmpty then [] else renderCItems its)) := by
      cases its with
      | nil => simp [renderCItems]
      | cons i2 r2 => simp [renderCItems]
    rw [e, At_append] at hat
    obtain ⟨hat1, hat2⟩ := hat
    rw [At_append] at hat2
    obtain ⟨hat2, hat3⟩ := hat2
    obtain ⟨stE, hp, s1⟩ := item_openQ a ha q w1 t hw1 htk hst x ((.arrB, v) :: K) o (c0 :: CS) cx al hat1
    have hl1 : o + (w1 ++ t).length = o + w1.length + t.length := by simp only [List.length_append]; omega
    rw [hl1] at hat2 hat3
    cases its with
    | nil =>
      simp only [List.isEmpty_nil, if_true] at hat2
      have s2 := item_close_rbrackQ a ha q hp w2 hw2 x (o + w1.length) (o + w1.length) v K (o + w1.length + t.length)
        c0 CS cx al hat2
      refine (Steps.trans s1 s2).cast ?_ (cfgQ_congr rfl ?_)
      · simp [citemsEvs]
      · simp [renderCItems]; omega
    | cons i2 r2 =>
      simp only [List.isEmpty_cons, Bool.false_eq_true, if_false] at hat2 hat3
      have s2 := item_close_commaQ a ha q hp w2 hw2 x (o + w1.length) (o + w1.length) ((.arrB, v) :: K)
        (o + w1.length + t.length) (c0 :: CS) cx al hat2
      have hl2 : o + w1.length + t.length + (w2 ++ [Cls.comma]).length = o + w1.length + t.length + w2.length + 1 := by
        simp only [List.length_append, List.length_cons, List.length_nil]; omega
      rw [hl2] at hat3
      have s3 := citems_runQ a ha q x v K c0 CS cx al (i2 :: r2) hv' (st := .arrItem) rfl (by intro h; cases h)
        (o + w1.length + t.length + w2.length + 1) hat3
      refine (Steps.trans (Steps.trans s1 s2) s3).cast ?_ (cfgQ_congr rfl ?_)
      · simp [citemsEvs, List.append_assoc]
      · simp [renderCItems]; omega
/-- blanks behind the closing bracket of the list, then `}` -/
theorem arr_close_rbraceQ (a : Ann) (ha : a.isAnn = true) (q : Bool) (b4 : List Cls) (hb4 : ABlank a b4) (x : St) (v o y : Nat)
    (R : List (LexT × Nat)) (i : Nat) (c0 : Ctx) (CS : List Ctx) (cx : Ctx) (al : Bool)
    (hat : At data i (b4 ++ [Cls.rbrace])) :
    Steps data (cfgQ a q .endValue [x] ((.valB, v) :: (.objB, o) :: (a.B, y) :: R) false i (c0 :: CS) cx al)
      (⟨.valE, v, i - 1⟩ :: (nlEvs i b4 ++ [⟨.objE, o, i + b4.length⟩]))
      (cfgQ a q a.prefixSt [x] ((a.B, y) :: R) false (i + b4.length + 1) CS c0 al) := by
  cases b4 with
  | nil =>
    exact cfgQ_byte hat.1 (fun p1 p2 =>
      (pv_dispatch 7 .endValue rfl .rbrace rfl _ p1 p2).trans
        ((ev_closeA_valQ 7 q a [x] v _ (i + 1) (c0 :: CS) cx al .rbrace p1 p2).trans
          (aaft_rbrace_valQ 6 q a ha [x] v o y R (i + 1) c0 CS cx al p1 p2))) rfl rfl
  | cons c w =>
    rw [At_append] at hat
    obtain ⟨⟨hc, hatw⟩, hrb, _⟩ := hat
    have s1 : Steps data (cfgQ a q .endValue [x] ((.valB, v) :: (.objB, o) :: (a.B, y) :: R) false i (c0 :: CS) cx al)
        ([⟨.valE, v, i - 1⟩] ++ nlEvs i [c])
        (cfgQ a q .afterValue [x] ((.objB, o) :: (a.B, y) :: R) false (i + 1) (c0 :: CS) cx al) := by
      rcases okBlank_cases hb4.head with hs | ⟨rfl, rfl⟩
      · refine (cfgQ_byte hc (fun p1 p2 =>
          (pv_dispatch 7 .endValue rfl c (by cases c <;> simp [Cls.isSpTab] at hs <;> rfl) _ p1 p2).trans
            ((ev_closeA_valQ 7 q a [x] v _ (i + 1) (c0 :: CS) cx al c p1 p2).trans
              (aaft_spQ 6 q a c hs [x] _ (i + 1) (c0 :: CS) cx al _ p1 p2))) rfl rfl).cast ?_ rfl
        show [(⟨LexT.valE, v, i + 1 - 1 - 1⟩ : Ev)] = _
        simp [nlEvs, sptab_ne_nl hs]
      · refine (cfgQ_byte hc (fun p1 p2 =>
          (pv_dispatch 7 .endValue rfl .nl rfl _ p1 p2).trans
            ((ev_closeA_valQ 7 q .multi [x] v _ (i + 1) (c0 :: CS) cx al .nl p1 p2).trans
              (aaft_nlQ 6 q [x] _ (i + 1) (c0 :: CS) cx al _ p1 p2))) rfl rfl).cast ?_ rfl
        show [(⟨LexT.valE, v, i + 1 - 1 - 1⟩ : Ev), ⟨LexT.newLine, i + 1 - 1, i + 1 - 1⟩] = _
        simp [nlEvs]
    have s2 := ablank_runQ a ha q w hb4.tail .afterValue rfl [x] ((.objB, o) :: (a.B, y) :: R) (i + 1) (c0 :: CS) cx al hatw
    rw [wsSt_eq (by simp)] at s2
    have s3 : Steps data (cfgQ a q .afterValue [x] ((.objB, o) :: (a.B, y) :: R) false (i + 1 + w.length) (c0 :: CS) cx al)
        [⟨.objE, o, i + 1 + w.length⟩] (cfgQ a q a.prefixSt [x] ((a.B, y) :: R) false (i + 1 + w.length + 1) CS c0 al) :=
      cfgQ_byte (by rw [show i + 1 + w.length = i + (w.length + 1) by omega]; exact hrb)
        (fun p1 p2 => aobj_rbraceQ 7 q a ha .afterValue (Or.inr rfl) [x] o y R _ c0 CS cx al p1 p2) rfl rfl
    refine (Steps.trans (Steps.trans s1 s2) s3).cast ?_ (cfgQ_congr rfl ?_)
    · simp only [nlEvs, List.length_cons, List.cons_append, List.nil_append, List.append_assoc, List.append_nil]
      rw [show i + (w.length + 1) = i + 1 + w.length by omega]
    · simp only [List.length_cons]; omega


/-- the byte behind the closing bracket of a list value is a blank -/
theorem arr_close_blankQ (a : Ann) (ha : a.isAnn = true) (q : Bool) (c : Cls) (hc : a.okBlank c = true) (x : St) (v : Nat)
    (K : List (LexT × Nat)) (i : Nat) (CS : List Ctx) (cx : Ctx) (al : Bool) (hcat : data[i]? = some c) :
    Steps data (cfgQ a q .endValue [x] ((.valB, v) :: K) false i CS cx al)
      ([⟨.valE, v, i - 1⟩] ++ nlEvs i [c])
      (cfgQ a q .afterValue [x] K false (i + 1) CS cx al) := by
  rcases okBlank_cases hc with hs | ⟨rfl, rfl⟩
  · refine (cfgQ_byte hcat (fun p1 p2 =>
      (pv_dispatch 7 .endValue rfl c (by cases c <;> simp [Cls.isSpTab] at hs <;> rfl) _ p1 p2).trans
        ((ev_closeA_valQ 7 q a [x] v _ (i + 1) CS cx al c p1 p2).trans
          (aaft_spQ 6 q a c hs [x] _ (i + 1) CS cx al _ p1 p2))) rfl rfl).cast ?_ rfl
    show [(⟨LexT.valE, v, i + 1 - 1 - 1⟩ : Ev)] = _
    simp [nlEvs, sptab_ne_nl hs]
  · refine (cfgQ_byte hcat (fun p1 p2 =>
      (pv_dispatch 7 .endValue rfl .nl rfl _ p1 p2).trans
        ((ev_closeA_valQ 7 q .multi [x] v _ (i + 1) CS cx al .nl p1 p2).trans
          (aaft_nlQ 6 q [x] _ (i + 1) CS cx al _ p1 p2))) rfl rfl).cast ?_ rfl
    show [(⟨LexT.valE, v, i + 1 - 1 - 1⟩ : Ev), ⟨LexT.newLine, i + 1 - 1, i + 1 - 1⟩] = _
    simp [nlEvs]

/-- blanks behind the closing bracket of a list value, then `,` -/
theorem arr_close_commaQ (a : Ann) (ha : a.isAnn = true) (q : Bool) (b4 : List Cls) (hb4 : ABlank a b4) (x : St) (v : Nat)
    (K : List (LexT × Nat)) (i : Nat) (CS : List Ctx) (cx : Ctx) (al : Bool)
    (hat : At data i (b4 ++ [Cls.comma])) :
    Steps data (cfgQ a q .endValue [x] ((.valB, v) :: K) false i CS cx al)
      (⟨.valE, v, i - 1⟩ :: nlEvs i b4)
      (cfgQ a q .objKey [x] K false (i + b4.length + 1) CS cx al) := by
  cases b4 with
  | nil =>
    exact cfgQ_byte hat.1 (fun p1 p2 =>
      (pv_dispatch 7 .endValue rfl .comma rfl _ p1 p2).trans
        ((ev_closeA_valQ 7 q a [x] v _ (i + 1) CS cx al .comma p1 p2).trans
          (aaft_commaQ 6 q a [x] _ (i + 1) CS cx al _ p1 p2))) rfl rfl
  | cons c w =>
    rw [At_append] at hat
    obtain ⟨⟨hc, hatw⟩, hcomma, _⟩ := hat
    have s1 := arr_close_blankQ a ha q c hb4.head x v K i CS cx al hc
    have s2 := ablank_runQ a ha q w hb4.tail .afterValue rfl [x] K (i + 1) CS cx al hatw
    rw [wsSt_eq (by simp)] at s2
    have s3 : Steps data (cfgQ a q .afterValue [x] K false (i + 1 + w.length) CS cx al) []
        (cfgQ a q .objKey [x] K false (i + 1 + w.length + 1) CS cx al) :=
      cfgQ_byte (by rw [show i + 1 + w.length = i + (w.length + 1) by omega]; exact hcomma)
        (fun p1 p2 => aaft_commaQ 7 q a [x] K _ CS cx al [] p1 p2) rfl rfl
    refine (Steps.trans (Steps.trans s1 s2) s3).cast ?_ (cfgQ_congr rfl ?_)
    · simp [nlEvs]
    · simp only [List.length_cons]; omega

/-- **a list value**: blanks, `[`, blanks, the items, `]` — up to the closing bracket; the value's end is pending -/
theorem list_runQ (a : Ann) (ha : a.isAnn = true) (q : Bool) (b3 w0 : List Cls) (items : List CItem) (hb3 : ABlank a b3)
    (hw0 : ABlank a w0) (hits : CItemsValid a items) (x : St) (K : List (LexT × Nat)) (p : Nat) (CS : List Ctx)
    (cx : Ctx) (al : Bool) (hat : At data p (b3 ++ (Cls.lbrack :: (w0 ++ renderCItems items)))) :
    Steps data (cfgQ a q .objValue [x] K false p CS cx al)
      (nlEvs p b3 ++ (⟨.valB, p + b3.length, p + b3.length⟩ :: ⟨.arrB, p + b3.length, p + b3.length⟩ ::
        (nlEvs (p + b3.length + 1) w0 ++ citemsEvs (p + b3.length) (p + b3.length + 1 + w0.length) items)))
      (cfgQ a q .endValue [x] ((.valB, p + b3.length) :: K) false
        (p + b3.length + 1 + w0.length + (renderCItems items).length) CS cx al) := by
  rw [At_append] at hat
  obtain ⟨hat3, hlb, hat2⟩ := hat
  rw [At_append] at hat2
  obtain ⟨hatw0, hatits⟩ := hat2
  have s1 := ablank_runQ a ha q b3 hb3 .objValue rfl [x] K p CS cx al hat3
  rw [wsSt_eq (by simp)] at s1
  have s2 : Steps data (cfgQ a q .objValue [x] K false (p + b3.length) CS cx al)
      [⟨.valB, p + b3.length, p + b3.length⟩, ⟨.arrB, p + b3.length, p + b3.length⟩]
      (cfgQ a q .arrItemOrEmpty [x] ((.arrB, p + b3.length) :: (.valB, p + b3.length) :: K) false
        (p + b3.length + 1) (cx :: CS) { ty := .array } al) :=
    cfgQ_byte hlb (fun p1 p2 => aval_arrQ 7 q a [x] _ (p + b3.length + 1) CS cx al p1 p2) rfl rfl
  have s3 := arr_blank_runQ a ha q w0 hw0 .arrItemOrEmpty rfl [x]
    ((.arrB, p + b3.length) :: (.valB, p + b3.length) :: K) (p + b3.length + 1) (cx :: CS) { ty := .array } al hatw0
  have s4 := citems_runQ a ha q x (p + b3.length) ((.valB, p + b3.length) :: K) cx CS
    { ty := .array } al items hits (st := .arrItemOrEmpty) rfl (fun _ => rfl) (p + b3.length + 1 + w0.length) hatits
  exact (Steps.trans (Steps.trans (Steps.trans s1 s2) s3) s4).cast (by simp) rfl

end SchemaScan
