/-
Model of notations/jschema/internal/scanner/{scanner.go,scanner_annotations.go}
(transliteration, state passing; Go panics with DocumentError = `.err`, runtime panics = `.crash`).
Look-ahead fixes F-7a and the shortcut EOF fix F-7d, the Len fix F-4 and F-12 are applied,
matching the post-fix tree.
-/
namespace SchemaScan

inductive Cls
  | sp | tab | nl
  | lbrace | rbrace | lbrack | rbrack | colon | comma | quote | bslash | slash | hash | at | star | pipe
  | minus | underscore | plus | zero | d19 | dot
  | le | uE | lt | lr | lu | lf | la | ll | ls | ln | lb
  | hexo      -- c d A B C D F
  | nameo     -- other ASCII letters
  | ctrl      -- < 0x20, not tab/LF/CR
  | other
  deriving DecidableEq, Repr, Inhabited

def classify (c : UInt8) : Cls :=
  if c == 32 then .sp else if c == 9 then .tab else if c == 10 || c == 13 then .nl
  else if c == 123 then .lbrace else if c == 125 then .rbrace
  else if c == 91 then .lbrack else if c == 93 then .rbrack
  else if c == 58 then .colon else if c == 44 then .comma
  else if c == 34 then .quote else if c == 92 then .bslash else if c == 47 then .slash
  else if c == 35 then .hash else if c == 64 then .at else if c == 42 then .star else if c == 124 then .pipe
  else if c == 45 then .minus else if c == 95 then .underscore else if c == 43 then .plus
  else if c == 48 then .zero else if 49 ≤ c && c ≤ 57 then .d19
  else if c == 46 then .dot
  else if c == 101 then .le else if c == 69 then .uE
  else if c == 116 then .lt else if c == 114 then .lr else if c == 117 then .lu
  else if c == 102 then .lf else if c == 97 then .la else if c == 108 then .ll
  else if c == 115 then .ls else if c == 110 then .ln else if c == 98 then .lb
  else if c == 99 || c == 100 || (65 ≤ c && c ≤ 68) || c == 70 then .hexo
  else if (97 ≤ c && c ≤ 122) || (65 ≤ c && c ≤ 90) then .nameo
  else if c < 32 then .ctrl
  else .other

def Cls.isNewLine : Cls → Bool | .nl => true | _ => false
def Cls.isSpace : Cls → Bool | .sp | .tab => true | _ => false
def Cls.isBlank (c : Cls) : Bool := c.isSpace || c.isNewLine
def Cls.isDigit : Cls → Bool | .zero | .d19 => true | _ => false
def Cls.isHex : Cls → Bool
  | .zero | .d19 | .le | .uE | .lf | .la | .lb | .hexo => true
  | _ => false
/-- bytes.IsValidUserTypeNameByte -/
def Cls.isName : Cls → Bool
  | .minus | .underscore | .zero | .d19 | .le | .uE | .lt | .lr | .lu | .lf | .la | .ll | .ls | .ln | .lb | .hexo | .nameo => true
  | _ => false
/-- c < 0x20 -/
def Cls.isLow : Cls → Bool | .tab | .nl | .ctrl => true | _ => false

inductive LexT
  | litB | litE | objB | objE | keyB | keyE | valB | valE | arrB | arrE | itemB | itemE
  | inlAnnB | inlAnnE | inlTxtB | inlTxtE | mlAnnB | mlAnnE | mlTxtB | mlTxtE
  | newLine | tsB | tsE | ksB | ksE | mixB | mixE | endTop
  deriving DecidableEq, Repr, Inhabited

def LexT.isOpening : LexT → Bool
  | .litB | .objB | .keyB | .valB | .arrB | .itemB | .mlAnnB | .inlAnnB | .inlTxtB | .mlTxtB | .tsB | .ksB | .mixB => true
  | _ => false

inductive St
  | foundRoot | objKeyOrEmpty | objKey | objKeyAfterNL | objValue | arrItemOrEmpty | arrItem
  | keyShortcut | endValue | afterKey | afterValue | afterItem | endTop
  | inString | esc | u0 | u1 | u2 | u3
  | neg | d1 | d0 | dot | dot0
  | t | tr | tru | f | fa | fal | fals | n | nu | nul
  | tsBeginName | tsName | tsBeforePipe | tsAfterPipe
  | anyCommentStart | inlineComment | multiLineComment
  | anyAnnStart | inlAnnStart | inlAnn | inlTxtPrefix | inlTxtPrefix2 | inlTxt | inlTxtSkip
  | mlAnn | mlTxtPrefix | mlTxtPrefix2 | mlAnnEnd | mlTxt
  | annKeyFirst | annKey | annKeyAfter
  | guard (inner : St)      -- closure installed after an inline annotation: '/' is an error, otherwise `inner`
  deriving DecidableEq, Repr, Inhabited

inductive Ann | none | inline | multi
  deriving DecidableEq, Repr, Inhabited

inductive CtxT | initial | object | array | shortcut
  deriving DecidableEq, Repr, Inhabited

structure Ctx where
  ty : CtxT
  arrayHasItem : Bool := false
  deriving DecidableEq, Repr, Inhabited

inductive Err
  | invalidChar (idx : Nat) (ctx : String)       -- ErrInvalidCharacter at idx
  | invalidKeyChar (idx : Nat)                   -- ErrInvalidCharacterInAnnotationObjectKey
  | annotationNotAllowed (idx : Nat)
  | unexpectedEOF (idx : Nat)
  | crash (why : String)
  deriving DecidableEq, Repr

structure Ev where
  ty : LexT
  b : Nat
  e : Nat
  deriving DecidableEq, Repr

structure Sc where
  step : St := .foundRoot
  ret : List St := []
  stack : List (LexT × Nat) := []
  ctxStack : List Ctx := []
  ctx : Ctx := { ty := .initial }
  finds : List LexT := []
  index : Nat := 0
  ann : Ann := .none
  unf : Bool := false
  lengthComputing : Bool := false
  boundaryQuote : Bool := false
  allowAnnotation : Bool := true
  hasTrailing : Bool := false
  deriving Repr

abbrev M := Except Err

def found (s : Sc) (t : LexT) : Sc := { s with finds := s.finds ++ [t] }
def errChar (s : Sc) (ctx : String) : Err := .invalidChar (s.index - 1) ctx

def stackTy (s : Sc) (fromTop : Nat) : Option LexT := (s.stack[fromTop]?).map (·.1)

def setContext (s : Sc) (c : Ctx) : Sc := { s with ctxStack := s.ctx :: s.ctxStack, ctx := c }
def restoreContext (s : Sc) : M Sc :=
  match s.ctxStack with
  | c :: rest => pure { s with ctx := c, ctxStack := rest }
  | [] => throw (.crash "Reading from empty stack (contexts)")

def popRet (s : Sc) : M (St × Sc) :=
  match s.ret with
  | r :: rest => pure (r, { s with ret := rest })
  | [] => throw (.crash "Reading from empty stack (returnToStep)")

def isInsideMultiLine (s : Sc) : Bool := s.stack.any (·.1 == .mlAnnB)

/-- isNewLine method: a new line inside an inline annotation is an error -/
def isNewLineM (s : Sc) (c : Cls) : M Bool :=
  if !c.isNewLine then pure false
  else if s.ann == .inline then throw (errChar s "inside inline annotation")
  else pure true

def isCommentStart (s : Sc) (c : Cls) : Bool := (s.ann == .none || s.ann == .inline) && c == .hash

def switchToComment (s : Sc) : M Sc :=
  if s.ann != .none && s.ann != .inline then throw (errChar s "inside user inline comment")
  else pure { s with ret := s.step :: s.ret, step := .anyCommentStart }

def switchToAnnotation (s : Sc) : M Sc :=
  if !s.allowAnnotation then throw (.annotationNotAllowed (s.index - 1))
  else
    let s := { s with ret := s.step :: s.ret }
    match s.ann with
    | .none => pure { s with step := .anyAnnStart }
    | .multi => pure { s with step := .inlAnnStart }
    | .inline => throw (errChar s "inside inline annotation")

inductive BV | cont | obj | arr | lit | ts
  deriving DecidableEq

/-- stateBeginValue -/
def beginValue (s : Sc) (c : Cls) : M (BV × Sc) := do
  if ← isNewLineM s c then return (.cont, found s .newLine)
  if c.isBlank then return (.cont, s)
  if c == .slash then return (.cont, ← switchToAnnotation s)
  match c with
  | .lbrace => pure (.obj, { s with step := .objKeyOrEmpty })
  | .lbrack => pure (.arr, { s with step := .arrItemOrEmpty })
  | .quote => pure (.lit, { s with step := .inString, unf := true })
  | .minus => pure (.lit, { s with step := .neg, unf := true })
  | .zero => pure (.lit, { s with step := .d0 })
  | .lt => pure (.lit, { s with step := .t, unf := true })
  | .lf => pure (.lit, { s with step := .f, unf := true })
  | .ln => pure (.lit, { s with step := .n, unf := true })
  | .at => pure (.ts, { s with step := .tsBeginName, unf := true })
  | .d19 => pure (.lit, { s with step := .d1 })
  | _ => throw (errChar s "looking for beginning of value")

def beginString (s : Sc) (c : Cls) : M Sc :=
  if c != .quote then throw (errChar s "looking for beginning of string")
  else pure { s with step := .inString }

def beginKeyShortcut (s : Sc) : M Sc :=
  if s.ann != .none then throw (errChar s "key shortcut not allowed in annotation")
  else pure { (found s .ksB) with step := .keyShortcut }

def isFoundLastObjectEndOnAnnotation (s : Sc) : Option LexT :=
  let isAnn (t : Option LexT) := t == some .inlAnnB || t == some .mlAnnB
  let t := stackTy s
  if t 0 == some .tsB && t 1 == some .mixB && t 2 == some .valB && t 3 == some .objB && isAnn (t 4) then t 4
  else if t 0 == some .litB && t 1 == some .valB && t 2 == some .objB && isAnn (t 3) then t 3
  else if t 0 == some .valB && t 1 == some .objB && isAnn (t 2) then t 2
  else if t 0 == some .objB && isAnn (t 1) then t 1
  else none

def foundObjectEnd (s : Sc) : M Sc := do
  let s := found s .objE
  let s ← restoreContext s
  let s := { s with step := .endValue }
  if s.ann == .none then return s
  match isFoundLastObjectEndOnAnnotation s with
  | some .inlAnnB => pure { s with step := .inlTxtPrefix }
  | some .mlAnnB => pure { s with step := .mlTxtPrefix }
  | some _ => throw (.crash "Incorrect annotation begin in stack")
  | none => pure s

def foundArrayEnd (s : Sc) : M Sc := do
  let s := if s.ann == .none then { s with allowAnnotation := !s.ctx.arrayHasItem } else s
  let s := found s .arrE
  let s ← restoreContext s
  pure { s with step := if s.stack.isEmpty then .endTop else .endValue }

def finishShortcut (s : Sc) : M Sc := do
  let s := found s .tsE
  match s.ctx.ty with
  | .object => pure { (found (found s .mixE) .valE) with step := .afterValue }
  | .array => pure { (found (found s .mixE) .itemE) with step := .afterItem }
  | .shortcut => restoreContext { (found s .mixE) with step := .endTop }
  | .initial => throw (.crash "Unexpected context")

/-- hex escape helper -/
def hexStep (s : Sc) (c : Cls) (next : St) : M Sc :=
  if c.isHex then pure { s with step := next } else throw (errChar s "in \\u hexadecimal character escape")

def expect (s : Sc) (c want : Cls) (next : St) (clearUnf : Bool) (msg : String) : M Sc :=
  if c == want then pure { s with step := next, unf := if clearUnf then false else s.unf } else throw (errChar s msg)

mutual
/-- One call `s.step(s, c)`. `p1`, `p2` are `s.data[s.index]`, `s.data[s.index+1]` when in range.
`fuel` bounds the re-dispatch depth (`return s.step(s, c)`), which is at most 4 in the code. -/
def dispatch (fuel : Nat) (which : St) (s : Sc) (c : Cls) (p1 p2 : Option Cls) : M Sc :=
  match fuel with
  | 0 => throw (.crash "re-dispatch fuel exhausted")
  | fuel + 1 =>
  -- `return s.step(s, c)` after the callee assigned `s.step`
  let redispatch (s : Sc) : M Sc := dispatch fuel s.step s c p1 p2
  match which with
  | .guard inner =>
      -- the closure stays in `s.step` unless `inner` assigns a new step function
      if c == .slash then throw (errChar s "after inline annotation")
      else dispatch fuel inner s c p1 p2
  | .foundRoot => do
      if c == .slash then return ← switchToAnnotation s
      if isCommentStart s c then return ← switchToComment s
      let (r, s) ← beginValue s c
      match r with
      | .obj => pure (setContext (found s .objB) { ty := .object })
      | .arr => pure (setContext (found s .arrB) { ty := .array })
      | .lit => pure (found s .litB)
      | .ts => pure (setContext (found (found s .mixB) .tsB) { ty := .shortcut })
      | .cont => pure s
  | .objKeyOrEmpty => do
      if ← isNewLineM s c then return found s .newLine
      if c.isBlank then return s
      if c == .slash then return ← switchToAnnotation s
      if isCommentStart s c then return ← switchToComment s
      if c == .at then return ← beginKeyShortcut s
      if s.ann == .none then
        -- stateBeginKeyOrEmpty
        let s := { s with allowAnnotation := true }
        if c == .rbrace then foundObjectEnd s
        else beginString (found s .keyB) c
      else beginAnnKeyOrEmpty s c
  | .objKey => do
      if ← isNewLineM s c then
        let s := found s .newLine
        let s := if s.ann == .none then { s with allowAnnotation := true } else s
        return { s with step := .objKeyAfterNL }
      if c.isBlank then return s
      if c == .slash then return ← switchToAnnotation s
      if isCommentStart s c then return ← switchToComment s
      if c == .at then return ← beginKeyShortcut s
      if s.ann == .none then
        let s ← beginString s c
        pure (found s .keyB)
      else beginAnnKeyOrEmpty s c
  | .objKeyAfterNL => do
      if ← isNewLineM s c then return found s .newLine
      if c.isBlank then return s
      if isCommentStart s c then return ← switchToComment s
      if c == .at then return ← beginKeyShortcut s
      if s.ann == .none then
        let s ← beginString s c
        pure (found s .keyB)
      else beginAnnKeyOrEmpty s c
  | .objValue => do
      let (r, s) ← beginValue s c
      match r with
      | .lit => pure (found (found s .valB) .litB)
      | .obj => pure (setContext (found (found s .valB) .objB) { ty := .object })
      | .arr => pure (setContext (found (found s .valB) .arrB) { ty := .array })
      | .ts => pure (found (found (found s .valB) .mixB) .tsB)
      | .cont => pure s
  | .arrItemOrEmpty => do
      if ← isNewLineM s c then return found s .newLine
      if isCommentStart s c then return ← switchToComment s
      -- stateBeginArrayItemOrEmpty
      if c == .rbrack then return ← foundArrayEnd s
      let s := if s.ann == .none && !c.isBlank then { s with ctx := { s.ctx with arrayHasItem := true } } else s   -- F-13
      let (r, s) ← beginValue s c
      arrItemFinds r s
  | .arrItem => do
      let s := if c.isNewLine && s.ann == .none then { s with allowAnnotation := true } else s   -- F-12
      if isCommentStart s c then return ← switchToComment s
      let (r, s) ← beginValue s c
      arrItemFinds r s
  | .keyShortcut =>
      if c.isName then pure s else endValue fuel s c p1 p2
  | .endValue => endValue fuel s c p1 p2
  | .afterKey => do
      let nl ← isNewLineM s c
      let s := if nl then found s .newLine else s
      if c.isBlank then return s
      if c == .slash then return ← switchToAnnotation s
      if c == .colon then return { s with step := .objValue }
      throw (errChar s "after object key")
  | .afterValue => do
      if ← isNewLineM s c then return found s .newLine
      if c.isBlank then return s
      if c == .slash then return ← switchToAnnotation s
      if isCommentStart s c then return ← switchToComment s
      if c == .comma then return { s with step := .objKey }
      if c == .rbrace then return ← foundObjectEnd s
      throw (errChar s "after object key:value pair")
  | .afterItem => do
      if ← isNewLineM s c then return found s .newLine
      if c.isBlank then return s
      if c == .slash then return ← switchToAnnotation s
      if isCommentStart s c then return ← switchToComment s
      if c == .comma then return { s with step := .arrItem }
      if c == .rbrack then return ← foundArrayEnd s
      throw (errChar s "after array item")
  | .endTop => do
      if s.hasTrailing then return found s .endTop      -- fix: the deferred end-top is delivered first
      if ← isNewLineM s c then return found s .newLine
      if c == .slash then return ← switchToAnnotation s
      if isCommentStart s c then return ← switchToComment s
      if !c.isBlank then
        if s.lengthComputing then
          if !s.stack.isEmpty then return { s with hasTrailing := true }
          return found s .endTop
        else if s.ann == .none then throw (errChar s "non-space byte after top-level value")
      pure s
  | .inString =>
      match c with
      | .quote => pure { s with step := .endValue, unf := false }
      | .bslash => pure { s with step := .esc }
      | _ => if c.isLow then throw (errChar s "in string literal") else pure s
  | .esc =>
      match c with
      | .lb | .lf | .ln | .lr | .lt | .bslash | .slash | .quote => pure { s with step := .inString }
      | .lu => pure { s with ret := .inString :: s.ret, step := .u0 }
      | _ => throw (errChar s "in string escape code")
  | .u0 => hexStep s c .u1
  | .u1 => hexStep s c .u2
  | .u2 => hexStep s c .u3
  | .u3 => do
      if c.isHex then
        let (r, s) ← popRet s
        pure { s with step := r }
      else throw (errChar s "in \\u hexadecimal character escape")
  | .neg =>
      match c with
      | .zero => pure { s with step := .d0, unf := false }
      | .d19 => pure { s with step := .d1, unf := false }
      | _ => throw (errChar s "in numeric literal")
  | .d1 => if c.isDigit then pure { s with step := .d1 } else state0 fuel s c p1 p2
  | .d0 => state0 fuel s c p1 p2
  | .dot => if c.isDigit then pure { s with unf := false, step := .dot0 }
            else throw (errChar s "after decimal point in numeric literal")
  | .dot0 =>
      if c.isDigit then pure s
      else if c == .le || c == .uE then throw (errChar s "isn't allowed 'cause not obvious it's a float or an integer")
      else endValue fuel s c p1 p2
  | .t => expect s c .lr .tr false "in literal true (expecting 'r')"
  | .tr => expect s c .lu .tru false "in literal true (expecting 'u')"
  | .tru => expect s c .le .endValue true "in literal true (expecting 'e')"
  | .f => expect s c .la .fa false "in literal false (expecting 'a')"
  | .fa => expect s c .ll .fal false "in literal false (expecting 'l')"
  | .fal => expect s c .ls .fals false "in literal false (expecting 's')"
  | .fals => expect s c .le .endValue true "in literal false (expecting 'e')"
  | .n => expect s c .lu .nu false "in literal null (expecting 'u')"
  | .nu => expect s c .ll .nul false "in literal null (expecting 'l')"
  | .nul => expect s c .ll .endValue true "in literal null (expecting 'l')"
  | .tsBeginName =>
      if c.isName then pure { s with unf := false, step := .tsName }      -- F-7d
      else throw (errChar s "in schema name")
  | .tsName => do
      if c == .slash then return ← switchToAnnotation (← finishShortcut s)
      if isCommentStart s c then return ← switchToComment (← finishShortcut s)
      if c.isName then pure { s with step := .tsName }
      else if c.isSpace then pure { s with step := .tsBeforePipe }
      else if c == .pipe then pure { s with unf := true, step := .tsAfterPipe }   -- F-7d
      else endValue fuel s c p1 p2
  | .tsBeforePipe => do
      if c == .slash then return ← switchToAnnotation (← finishShortcut s)
      if isCommentStart s c then return ← switchToComment (← finishShortcut s)
      if c.isSpace then pure { s with step := .tsBeforePipe }
      else if c == .pipe then pure { s with unf := true, step := .tsAfterPipe }   -- F-7d
      else redispatch { s with step := .endValue, unf := false }
  | .tsAfterPipe =>
      match c with
      | .sp | .tab => pure { s with step := .tsAfterPipe }
      | .at => pure { s with step := .tsBeginName }
      | _ => throw (errChar s "expects ' ', '\\t', or '@'")
  | .anyCommentStart =>
      if c != .hash then
        let s := { s with ann := .none, step := .inlineComment }
        if c.isNewLine then do      -- empty comment: the line break ends it (fix "empty user comment")
          let (r, s) ← popRet s
          pure { (found s .newLine) with step := r, index := s.index - 1 }
        else pure s
      else if p1 == some .hash then pure { s with ann := .none, step := .multiLineComment }   -- F-7a: bounds-checked
      else throw (errChar s "after first #")
  | .inlineComment => do
      if c.isNewLine then
        let (r, s) ← popRet s
        pure { (found s .newLine) with step := r, index := s.index - 1 }
      else pure s
  | .multiLineComment => do
      -- `(s.index + 1) < s.dataSize` holds iff both look-ahead bytes exist
      if c == .hash && p1 == some .hash && p2 == some .hash then
        let (r, s) ← popRet s
        pure { s with step := r, index := s.index + 2 }
      else pure s
  | .anyAnnStart =>
      match c with
      | .slash => pure { (found s .inlAnnB) with ann := .inline, step := .inlAnn }
      | .star => pure { (found s .mlAnnB) with ann := .multi, step := .mlAnn }
      | _ => throw (errChar s "after first slash")
  | .inlAnnStart =>
      if c != .slash then throw (errChar s "after first slash on start inline annotation")
      else pure { (found s .inlAnnB) with ann := .inline, step := .inlAnn }
  | .inlAnn =>
      match c with
      | .sp | .tab => pure s
      | .lbrace => dispatch fuel .foundRoot s c p1 p2     -- `return stateFoundRootValue(s, c)`
      | _ => redispatch { (found s .inlTxtB) with step := .inlTxt }
  | .inlTxtPrefix => do
      if c.isSpace then pure s
      else if c.isNewLine then
        let s := found (found s .inlAnnE) .newLine
        let (r, s) ← popRet s
        let s := { s with step := r, ann := .none }
        pure (if isInsideMultiLine s then { s with ann := .multi } else s)
      else if isCommentStart s c then switchToComment s
      else if c == .minus then pure { s with step := .inlTxtPrefix2 }
      else throw (errChar s "after object in inline annotation")
  | .inlTxtPrefix2 =>
      if c.isSpace then pure s
      else redispatch { (found s .inlTxtB) with step := .inlTxt }
  | .inlTxt => do
      if c.isNewLine then
        let s := found (found (found s .inlTxtE) .inlAnnE) .newLine
        let (fn, s) ← popRet s
        let s := { s with step := .guard fn, ann := .none }
        pure (if isInsideMultiLine s then { s with ann := .multi } else s)
      else if c == .hash then
        if !isInsideMultiLine s then pure { (found (found s .inlTxtE) .inlAnnE) with step := .inlTxtSkip }
        else pure s
      else pure s
  | .inlTxtSkip => do
      if !c.isNewLine then return s
      let s := found s .newLine
      let (fn, s) ← popRet s
      let s := { s with step := .guard fn, ann := .none }
      pure (if isInsideMultiLine s then { s with ann := .multi } else s)
  | .mlAnn => do
      if ← isNewLineM s c then return found s .newLine
      if c.isBlank then return s
      if c == .lbrace then return ← dispatch fuel .foundRoot s c p1 p2
      redispatch { (found s .mlTxtB) with step := .mlTxt }
  | .mlTxtPrefix => do
      if c.isNewLine then pure (found s .newLine)
      else if c.isSpace then pure s
      else if isCommentStart s c then switchToComment s
      else if c == .star then pure { s with step := .mlAnnEnd }
      else if c == .minus then pure { s with step := .mlTxtPrefix2 }
      else throw (errChar s "after object in multi-line annotation")
  | .mlTxtPrefix2 =>
      if c.isSpace then pure s
      else redispatch { (found s .mlTxtB) with step := .mlTxt }
  | .mlAnnEnd => do
      if c != .slash then throw (errChar s "in multi-line annotation after \"*\" character")
      let s := found { s with ann := .none } .mlAnnE
      let (r, s) ← popRet s
      pure { s with step := r }
  | .mlTxt =>
      if c == .star && p1 == some .slash then pure { (found s .mlTxtE) with step := .mlAnnEnd }   -- F-7a
      else pure s
  | .annKeyFirst =>
      if (!s.boundaryQuote && (c == .colon || c.isNewLine || c == .bslash)) || (s.boundaryQuote && c == .quote) || c.isLow then
        throw (.invalidKeyChar (s.index - 1))
      else pure { s with step := .annKey }
  | .annKey =>
      if !s.boundaryQuote && c == .colon then endValue fuel s c p1 p2
      else if s.boundaryQuote && c == .quote then pure { s with step := .endValue }
      else if c == .sp then pure { s with step := .annKeyAfter }
      else if c.isLow || c == .quote || c.isNewLine then throw (.invalidKeyChar (s.index - 1))
      else pure s
  | .annKeyAfter =>
      if !s.boundaryQuote && c == .colon then endValue fuel s c p1 p2
      else if c == .sp then pure s
      else throw (.invalidKeyChar (s.index - 1))

/-- `s.step(s, c)` -/
def dispatch' (fuel : Nat) (s : Sc) (c : Cls) (p1 p2 : Option Cls) : M Sc := dispatch fuel s.step s c p1 p2

/-- ArrayItemBegin + value begin finds -/
def arrItemFinds (r : BV) (s : Sc) : M Sc :=
  match r with
  | .lit => pure (found (found s .itemB) .litB)
  | .obj => pure (setContext (found (found s .itemB) .objB) { ty := .object })
  | .arr => pure (setContext (found (found s .itemB) .arrB) { ty := .array })
  | .ts => pure (found (found (found s .itemB) .mixB) .tsB)
  | .cont => pure s

/-- stateBeginAnnotationObjectKeyOrEmpty / stateBeginAnnotationObjectKey -/
def beginAnnKeyOrEmpty (s : Sc) (c : Cls) : M Sc := do
  if c == .rbrace then return ← foundObjectEnd s
  let s := found s .keyB
  if c == .quote then pure { s with boundaryQuote := true, step := .inString }
  else
    -- stateInAnnotationObjectKeyFirstLetter(s, c) with boundary = 0
    let s := { s with boundaryQuote := false, step := .annKeyFirst }
    if c == .colon || c.isNewLine || c == .bslash || c.isLow then throw (.invalidKeyChar (s.index - 1))
    else pure { s with step := .annKey }

/-- state0 -/
def state0 (fuel : Nat) (s : Sc) (c : Cls) (p1 p2 : Option Cls) : M Sc :=
  if c == .dot then pure { s with unf := true, step := .dot }
  else if c == .le || c == .uE then throw (errChar s "isn't allowed 'cause not obvious it's a float or an integer")
  else endValue fuel s c p1 p2

/-- stateEndValue -/
def endValue (fuel : Nat) (s : Sc) (c : Cls) (p1 p2 : Option Cls) : M Sc := do
  let len := s.stack.length
  if len == 0 then return ← dispatch' fuel { s with step := .endTop } c p1 p2
  let t0 := stackTy s 0
  let (s, t) ←
    if t0 == some .litB then
      let s := found s .litE
      if len == 1 then return ← dispatch' fuel { s with step := .endTop } c p1 p2
      pure (s, stackTy s 1)
    else pure (s, t0)
  match t with
  | some .keyB => dispatch' fuel { (found s .keyE) with step := .afterKey } c p1 p2
  | some .ksB => dispatch' fuel { (found s .ksE) with step := .afterKey } c p1 p2
  | some .valB => dispatch' fuel { (found s .valE) with step := .afterValue } c p1 p2
  | some .itemB => dispatch' fuel { (found s .itemE) with step := .afterItem } c p1 p2
  | some .tsB => do
      let s ← finishShortcut s
      dispatch' fuel s c p1 p2
  | _ =>
    if s.lengthComputing && t == some .inlAnnB then
      match s.stack with
      | _ :: rest => do
        let s := { s with ann := .none, stack := rest }
        let (r, s) ← popRet s
        dispatch' fuel { s with step := r } c p1 p2
      | [] => throw (.crash "Reading from empty stack")
    else throw (errChar s "at the end of value")
end

end SchemaScan
