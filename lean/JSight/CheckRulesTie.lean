import JSight.CheckRules
import JSight.Generated.CompatTable
/-!
Tie for the C08 model's applicability table: `CR.compat` (the model's `IsJsonTypeCompatible`) against
`Gen.compatTable`, which `vh tgen-compat` regenerates on every run by EXECUTING the constraints of /repo's
working tree (hook `VerifCompatTable`). `Tie/Compat.lean` proves the same table equal to the statement's.
-/
namespace CR

def ctOfString : String → Option CT
  | "minLength" => some .minLength | "maxLength" => some .maxLength | "min" => some .min | "max" => some .max
  | "exclusiveMinimum" => some .exclusiveMinimum | "exclusiveMaximum" => some .exclusiveMaximum | "type" => some .type
  | "precision" => some .precision | "optional" => some .optional | "minItems" => some .minItems | "maxItems" => some .maxItems
  | "additionalProperties" => some .additionalProperties | "nullable" => some .nullable | "regex" => some .regex
  | "const" => some .const | "or" => some .or | "enum" => some .enum | "allOf" => some .allOf | "types" => some .typesList
  | "any" => some .any | "email" => some .email | "uri" => some .uri | "uuid" => some .uuid | "date" => some .date
  | "datetime" => some .datetime
  | _ => none

def jtOfString : String → Option JT
  | "object" => some .object | "array" => some .array | "string" => some .string | "integer" => some .integer
  | "float" => some .float | "boolean" => some .boolean | "null" => some .null | "mixed" => some .mixed
  | _ => none

/-- the model's `compat` is what `IsJsonTypeCompatible` answers in the code, row by row of the regenerated table -/
theorem compat_is_table : (Gen.compatTable.all fun row =>
    match ctOfString row.1, jtOfString row.2.1 with
    | some k, some t => compat k t == row.2.2
    | _, _ => true) = true := by decide +kernel

/-- … and the table has a row for every constraint type of the model and every JSON type -/
theorem compat_table_covers :
    (CT.all.all fun k => [JT.object, .array, .string, .integer, .float, .boolean, .null, .mixed].all fun t =>
      Gen.compatTable.any fun row => ctOfString row.1 == some k && jtOfString row.2.1 == some t) = true := by
  decide +kernel

end CR
