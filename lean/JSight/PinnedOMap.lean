import JSight.OMap
/-! The pinned-tree `delete` (before fix F-1) on the witness `Set a; Set b; Set c; Delete z`. -/
namespace PinnedOMap
open OMap
def w : M Nat Nat := (((M.empty.set 0 1).set 1 1).set 2 1).deletePinned 9
def witness_len : Nat := w.len
def witness_iterated : Nat := w.entries.length
end PinnedOMap
