import JSight.E2EShape
import JSight.E2EDoc
import JSight.ValidateKProofs
import JSight.CommentLoad
/-!
`C01_text_level`: the composition. Schema TEXT (a plain-JSON value with any layout and user comments) and document
TEXT (a JSON value with any layout) ↦ `validateText` answers `acc` exactly when the document has the shape of the
schema's value — scanner models, loader model, `Compile`, JSON scanner model and the validator machine, all inside.
-/
namespace E2E
open Compile

theorem validateEvs_eq (env : VK.Env Lit) (keyOK : String → String → Bool) (s : VK.S Lit) (dd : VN.J (List UInt8)) :
    validateEvs env keyOK s (VN.evs dd) = VK.validateT env litOK keyOK s dd := by
  unfold validateEvs VK.validateT
  cases VK.runQ env litOK keyOK ((VK.heads env s).map VK.leafT) (VN.evs dd) with
  | none => rfl
  | some p => rfl

theorem text_level (opt : Bool) (t : Lay.BTree) (hv : t.Valid) (hk : t.value.KeysNodup)
    (hg : guessable t.value = true) (w0 w1 : List Lay.LI) (h0 : Lay.ValidL w0) (h1 : Lay.ValidL w1)
    (fin : List UInt8) (hf : Lay.IsFin fin)
    (d : VPos.T UInt8) (hd : (VPos.toJA JsonScan.classify d).Valid) (ws0 ws1 : List UInt8)
    (hw0 : JsonScan.IsWs (ws0.map JsonScan.classify)) (hw1 : JsonScan.IsWs (ws1.map JsonScan.classify)) :
    validateText (Lay.docTextF w0 t w1 fin) [] (ws0 ++ (d.render VPos.byteSym ++ ws1)) opt
      = if VN.shape kindOKTok (schemaOf opt t.value) (docOf d) then .acc else .rej := by
  obtain ⟨st, hl, hr, ht⟩ := Lay.load_comments t hv hk w0 w1 h0 h1 fin hf
  have hs := loadSchema_plain (Lay.docTextF w0 t w1 fin) opt st t.value hl hr ht hg
  obtain ⟨evs, he, hde⟩ := doc_events d hd ws0 ws1 hw0 hw1
  have hne : (VN.evs (docOf d)).isEmpty = false := by
    cases h : VN.evs (docOf d) with
    | nil => exact absurd h (VK.evs_ne_nil (docOf d))
    | cons _ _ => rfl
  unfold validateText
  simp only [hs, List.map_nil, List.nodup_nil, List.all_nil, decide_true, Bool.not_true, Bool.false_or, loadTypes,
    check_plain opt t.value hg, shortcutsOK_plain, Bool.and_true, rawKeyTypes_plain, List.any_nil, Bool.or_false,
    Bool.false_and, he, envOf_plain, toVK_plain, hde, hne, validateEvs_eq, VK.C03_key_shortcuts, shape_plain]
  simp

end E2E
