import JSight.SchemaFrameLeaf
import JSight.SchemaDispatch
/-! Frame property of the composite transitions (those that re-dispatch). -/
namespace SchemaScan

theorem afterKey_F1 {f s c p1 p2 s'} (h : dispatch (f+1) .afterKey s c p1 p2 = .ok s') : F 1 s s' := by
  leafF h
theorem afterValue_F1 {f s c p1 p2 s'} (h : dispatch (f+1) .afterValue s c p1 p2 = .ok s') : F 1 s s' := by
  leafF h
theorem afterItem_F1 {f s c p1 p2 s'} (h : dispatch (f+1) .afterItem s c p1 p2 = .ok s') : F 1 s s' := by
  leafF h
theorem endTop_F1 {f s c p1 p2 s'} (h : dispatch (f+1) .endTop s c p1 p2 = .ok s') : F 1 s s' := by
  leafF h

theorem St.annRet_isLeaf {r : St} (h : r.annRet = true) : r.isLeaf = true := by
  cases r <;> first | rfl | simp [St.annRet] at h

theorem finishShortcut_step {s v} (h : finishShortcut s = .ok v) :
    v.step = .afterValue ∨ v.step = .afterItem ∨ v.step = .endTop := by
  unfold finishShortcut at h
  simp only [bind, Except.bind, pure, Except.pure] at h
  split at h
  · cases h; exact Or.inl rfl
  · cases h; exact Or.inr (Or.inl rfl)
  · unfold restoreContext at h
    split at h <;> cases h
    exact Or.inr (Or.inr rfl)
  · cases h

theorem popRet_head {s r s'} (h : popRet s = .ok (r, s')) : ∃ rest, s.ret = r :: rest := by
  unfold popRet at h
  split at h <;> cases h
  exact ⟨_, ‹_›⟩

/-- frame property of `endValue`; the two side conditions come from the invariant -/
theorem endValue_F {f s c p1 p2 s'}
    (hW0 : stackTy s 0 = some .inlAnnB → ∀ r rest, s.ret = r :: rest → r.isLeaf = true)
    (hW1 : stackTy s 0 = some .litB → stackTy s 1 = some .inlAnnB → False)
    (h : endValue (f+1) s c p1 p2 = .ok s') : F 5 s s' := by
  unfold endValue at h
  simp only [bind, Except.bind, pure, Except.pure, dispatch'] at h
  repeat' split at h
  all_goals try (cases h; done)
  all_goals try (have h1 := afterKey_F1 h; frc)
  all_goals try (have h1 := afterValue_F1 h; frc)
  all_goals try (have h1 := afterItem_F1 h; frc)
  all_goals try (have h1 := endTop_F1 h; frc)
  · rcases finishShortcut_step ‹finishShortcut _ = _› with hs | hs | hs <;> rw [hs] at h
    · have h1 := afterValue_F1 h; frc
    · have h1 := afterItem_F1 h; frc
    · have h1 := endTop_F1 h; frc
  · exfalso
    have hw := ‹(_ && _) = true›
    simp only [Bool.and_eq_true, beq_iff_eq] at hw
    exact hW1 (eq_of_beq ‹(stackTy s 0 == some LexT.litB) = true›) hw.2
  · rcases finishShortcut_step ‹finishShortcut _ = _› with hs | hs | hs <;> rw [hs] at h
    · have h1 := afterValue_F1 h; frc
    · have h1 := afterItem_F1 h; frc
    · have h1 := endTop_F1 h; frc
  · have hw := ‹(_ && _) = true›
    simp only [Bool.and_eq_true, beq_iff_eq] at hw
    obtain ⟨rest, hret⟩ := popRet_head ‹popRet _ = Except.ok _›
    have hl := hW0 hw.2 _ _ hret
    have h1 := leaf_F hl h
    frc


theorem endValue_side {s eff} (hE : Eff s eff) (hf : s.finds = []) (hG : Good .endValue eff s.ret) :
    (stackTy s 0 = some .inlAnnB → ∀ r rest, s.ret = r :: rest → r.isLeaf = true) ∧
    (stackTy s 0 = some .litB → stackTy s 1 = some .inlAnnB → False) := by
  have hS := hE.stack_eq hf
  rcases hG.endValue_inv with ⟨V, rfl, hV⟩ | ⟨V, rfl, hV⟩ | ⟨V, rfl, hV⟩ | ⟨V, rfl, hV⟩ | hC
  · simp [stackTy_eq, hS]
  · simp [stackTy_eq, hS]
  · rcases hV.inv with ⟨rfl, _⟩ | ⟨V', rfl, _⟩ | ⟨V', rfl, _⟩ <;> simp [stackTy_eq, hS]
  · simp [stackTy_eq, hS]
  · rcases hC.inv with hV | ⟨m, σ, r, ret', rfl, hret, hm, hr, _⟩
    · rcases hV.inv with ⟨rfl, _⟩ | ⟨V', rfl, _⟩ | ⟨V', rfl, _⟩ <;> simp [stackTy_eq, hS]
    · refine ⟨?_, ?_⟩
      · intro _ r' rest' h'
        rw [hret] at h'
        cases h'
        exact St.annRet_isLeaf hr
      · intro h0
        simp [stackTy_eq, hS] at h0
        subst h0
        simp [LexT.isMarker] at hm

theorem endValue_FI {f s c p1 p2 s' eff} (hE : Eff s eff) (hf : s.finds = [])
    (hG : Good .endValue eff s.ret) (h : endValue (f+1) s c p1 p2 = .ok s') : F 5 s s' :=
  endValue_F (endValue_side hE hf hG).1 (endValue_side hE hf hG).2 h


theorem keyShortcut_Fc {f s c p1 p2 s'} (hI : InvAt .keyShortcut s) (hf : s.finds = [])
    (h : dispatch (f+2) .keyShortcut s c p1 p2 = .ok s') : F 5 s s' := by
  obtain ⟨eff, hE, hG0⟩ := hI
  have hG : Good .endValue eff s.ret := hG0.toEndValue (Or.inl rfl)
  unfold dispatch at h; dsimp only at h
  try simp only [bind, Except.bind, pure, Except.pure] at h
  repeat' split at h
  all_goals (first
    | (cases h; done)
    | (cases h; frc)
    | exact endValue_FI hE hf hG h
    | (have hx := switchToAnnotation_F h; frc)
    | (have hx := switchToComment_F h; frc))

theorem endValue_Fc {f s c p1 p2 s'} (hI : InvAt .endValue s) (hf : s.finds = [])
    (h : dispatch (f+2) .endValue s c p1 p2 = .ok s') : F 5 s s' := by
  obtain ⟨eff, hE, hG0⟩ := hI
  have hG : Good .endValue eff s.ret := hG0
  unfold dispatch at h; dsimp only at h
  try simp only [bind, Except.bind, pure, Except.pure] at h
  repeat' split at h
  all_goals (first
    | (cases h; done)
    | (cases h; frc)
    | exact endValue_FI hE hf hG h
    | (have hx := switchToAnnotation_F h; frc)
    | (have hx := switchToComment_F h; frc))

theorem d1_Fc {f s c p1 p2 s'} (hI : InvAt .d1 s) (hf : s.finds = [])
    (h : dispatch (f+2) .d1 s c p1 p2 = .ok s') : F 5 s s' := by
  obtain ⟨eff, hE, hG0⟩ := hI
  have hG : Good .endValue eff s.ret := hG0.toEndValue (Or.inr (Or.inl rfl))
  unfold dispatch at h; dsimp only at h
  try simp only [bind, Except.bind, pure, Except.pure, state0] at h
  repeat' split at h
  all_goals (first
    | (cases h; done)
    | (cases h; frc)
    | exact endValue_FI hE hf hG h
    | (have hx := switchToAnnotation_F h; frc)
    | (have hx := switchToComment_F h; frc))

theorem d0_Fc {f s c p1 p2 s'} (hI : InvAt .d0 s) (hf : s.finds = [])
    (h : dispatch (f+2) .d0 s c p1 p2 = .ok s') : F 5 s s' := by
  obtain ⟨eff, hE, hG0⟩ := hI
  have hG : Good .endValue eff s.ret := hG0.toEndValue (Or.inr (Or.inl rfl))
  unfold dispatch at h; dsimp only at h
  try simp only [bind, Except.bind, pure, Except.pure, state0] at h
  repeat' split at h
  all_goals (first
    | (cases h; done)
    | (cases h; frc)
    | exact endValue_FI hE hf hG h
    | (have hx := switchToAnnotation_F h; frc)
    | (have hx := switchToComment_F h; frc))

theorem dot0_Fc {f s c p1 p2 s'} (hI : InvAt .dot0 s) (hf : s.finds = [])
    (h : dispatch (f+2) .dot0 s c p1 p2 = .ok s') : F 5 s s' := by
  obtain ⟨eff, hE, hG0⟩ := hI
  have hG : Good .endValue eff s.ret := hG0.toEndValue (Or.inr (Or.inl rfl))
  unfold dispatch at h; dsimp only at h
  try simp only [bind, Except.bind, pure, Except.pure] at h
  repeat' split at h
  all_goals (first
    | (cases h; done)
    | (cases h; frc)
    | exact endValue_FI hE hf hG h
    | (have hx := switchToAnnotation_F h; frc)
    | (have hx := switchToComment_F h; frc))

theorem tsName_Fc {f s c p1 p2 s'} (hI : InvAt .tsName s) (hf : s.finds = [])
    (h : dispatch (f+2) .tsName s c p1 p2 = .ok s') : F 5 s s' := by
  obtain ⟨eff, hE, hG0⟩ := hI
  have hG : Good .endValue eff s.ret := hG0.toEndValue (Or.inr (Or.inr (Or.inl rfl)))
  unfold dispatch at h; dsimp only at h
  try simp only [bind, Except.bind, pure, Except.pure] at h
  repeat' split at h
  all_goals (first
    | (cases h; done)
    | (cases h; frc)
    | exact endValue_FI hE hf hG h
    | (have hx := switchToAnnotation_F h; frc)
    | (have hx := switchToComment_F h; frc))

theorem annKey_Fc {f s c p1 p2 s'} (hI : InvAt .annKey s) (hf : s.finds = [])
    (h : dispatch (f+2) .annKey s c p1 p2 = .ok s') : F 5 s s' := by
  obtain ⟨eff, hE, hG0⟩ := hI
  have hG : Good .endValue eff s.ret := hG0.toEndValue (Or.inr (Or.inr (Or.inr rfl)))
  unfold dispatch at h; dsimp only at h
  try simp only [bind, Except.bind, pure, Except.pure] at h
  repeat' split at h
  all_goals (first
    | (cases h; done)
    | (cases h; frc)
    | exact endValue_FI hE hf hG h
    | (have hx := switchToAnnotation_F h; frc)
    | (have hx := switchToComment_F h; frc))

theorem annKeyAfter_Fc {f s c p1 p2 s'} (hI : InvAt .annKeyAfter s) (hf : s.finds = [])
    (h : dispatch (f+2) .annKeyAfter s c p1 p2 = .ok s') : F 5 s s' := by
  obtain ⟨eff, hE, hG0⟩ := hI
  have hG : Good .endValue eff s.ret := hG0.toEndValue (Or.inr (Or.inr (Or.inr rfl)))
  unfold dispatch at h; dsimp only at h
  try simp only [bind, Except.bind, pure, Except.pure] at h
  repeat' split at h
  all_goals (first
    | (cases h; done)
    | (cases h; frc)
    | exact endValue_FI hE hf hG h
    | (have hx := switchToAnnotation_F h; frc)
    | (have hx := switchToComment_F h; frc))

theorem tsBeforePipe_Fc {f s c p1 p2 s'} (hI : InvAt .tsBeforePipe s) (hf : s.finds = [])
    (h : dispatch (f+3) .tsBeforePipe s c p1 p2 = .ok s') : F 5 s s' := by
  obtain ⟨eff, hE, hG0⟩ := hI
  have hG : Good .endValue eff s.ret := hG0.toEndValue (Or.inr (Or.inr (Or.inl rfl)))
  unfold dispatch at h; dsimp only at h
  try simp only [bind, Except.bind, pure, Except.pure] at h
  repeat' split at h
  all_goals (first
    | (cases h; done)
    | (cases h; frc)
    | (have hx := switchToAnnotation_F h; frc)
    | (have hx := switchToComment_F h; frc)
    | (have hx := endValue_Fc (s := { s with step := .endValue, unf := false }) ⟨eff, hE, hG⟩ hf h; frc))

macro "annF" h:ident : tactic => `(tactic| (
  unfold dispatch at $h:ident; dsimp only at $h:ident
  try simp only [bind, Except.bind, pure, Except.pure] at $h:ident
  repeat' split at $h:ident
  all_goals (first
    | (cases $h:ident; done)
    | (cases $h:ident; frc)
    | (have hx := inlTxt_F $h:ident; frc)
    | (have hx := mlTxt_F $h:ident; frc)
    | (have hx := foundRoot_F $h:ident; frc))))

theorem inlAnn_Fc {f s c p1 p2 s'} (h : dispatch (f+2) .inlAnn s c p1 p2 = .ok s') : F 5 s s' := by
  annF h
theorem inlTxtPrefix2_Fc {f s c p1 p2 s'} (h : dispatch (f+2) .inlTxtPrefix2 s c p1 p2 = .ok s') :
    F 5 s s' := by
  annF h
theorem mlAnn_Fc {f s c p1 p2 s'} (h : dispatch (f+2) .mlAnn s c p1 p2 = .ok s') : F 5 s s' := by
  annF h
theorem mlTxtPrefix2_Fc {f s c p1 p2 s'} (h : dispatch (f+2) .mlTxtPrefix2 s c p1 p2 = .ok s') :
    F 5 s s' := by
  annF h

end SchemaScan
