import JSight.EnumRoute
import JSight.EnumC2
/-!
C18, route A (named rule): `Enum.Values()` on the text grammar of `EnumC` (literal list, layout with comments) lists
the item tokens in source order (plus comment entries), and `enumValueLoader.ruleName`'s loop hands exactly these
tokens, in order, to `constraint.Enum.Append`.
-/
set_option linter.unusedSimpArgs false
set_option linter.unusedVariables false
namespace EnumRoute
open EnumScan (OutT Ev Sc LexT Piece Lay layEvs layEvsB LayB ItemC)
open SchemaScan (Cls classify)
open RulesF (Bytes)

/-! ### `doCompile` is a fold over the delivered events -/

def compK (bs : Bytes) (content : Array UInt8) (data : Array Cls) (fuel : Nat) (st : CSt) :
    EnumScan.M (Sc × Ev) → M CSt
  | .error .eos => pure st
  | .error e => throw (.scan e)
  | .ok (s, e) =>
    match compileStep bs st e with
    | .error x => throw x
    | .ok st' => compileLoop bs content data fuel s st'

theorem compileLoop_succ (bs : Bytes) (content : Array UInt8) (data : Array Cls) (fuel : Nat) (s : Sc) (st : CSt) :
    compileLoop bs content data (fuel + 1) s st
      = compK bs content data fuel st (EnumScan.next content data (2 * data.size + 16) s) := by
  unfold compileLoop compK
  cases EnumScan.next content data (2 * data.size + 16) s with
  | error e => cases e <;> rfl
  | ok x => rfl

theorem map_ok_cons {r : EnumScan.M (List Ev)} {ev : Ev} {evs : List Ev} (h : r.map (ev :: ·) = .ok evs) :
    ∃ evs', r = .ok evs' ∧ evs = ev :: evs' := by
  cases r with
  | error e => cases h
  | ok l =>
    simp only [Except.map, Except.ok.injEq] at h
    exact ⟨l, rfl, h.symm⟩

theorem OutT_compile (bs : Bytes) (content : Array UInt8) (data : Array Cls)
    {s : Sc} {n : Nat} {r : EnumScan.M (List Ev)} (h : OutT content data s n r) :
    ∀ (evs : List Ev), r = .ok evs → ∀ (nf fuel : Nat) (st : CSt), data.size - s.index < nf → n ≤ fuel →
      compK bs content data fuel st (EnumScan.next content data nf s) = evs.foldlM (compileStep bs) st := by
  induction h with
  | @shift s t rest s1 ev n r hf hp _ ih =>
    intro evs hr nf fuel st hnf hfu
    obtain ⟨evs', rfl, rfl⟩ := map_ok_cons hr
    obtain ⟨nf, rfl⟩ : ∃ k, nf = k + 1 := ⟨nf - 1, by omega⟩
    obtain ⟨fuel, rfl⟩ : ∃ k, fuel = k + 1 := ⟨fuel - 1, by omega⟩
    rw [EnumScan.next_shift content data nf s t rest hf, hp]
    simp only [compK, List.foldlM_cons, bind, Except.bind]
    cases hc : compileStep bs st ev with
    | error x => rfl
    | ok st' =>
      simp only []
      rw [compileLoop_succ]
      exact ih evs' rfl (2 * data.size + 16) fuel st' (by omega) (by omega)
  | @byte s c s2 n r hf hc hd hi _ ih =>
    intro evs hr nf fuel st hnf hfu
    have hlt : s.index < data.size := by
      rcases Nat.lt_or_ge s.index data.size with h1 | h1
      · exact h1
      · rw [Array.getElem?_eq_none h1] at hc; cases hc
    obtain ⟨nf, rfl⟩ : ∃ k, nf = k + 1 := ⟨nf - 1, by omega⟩
    rw [EnumScan.next_byte content data nf s c hf hc, hd]
    simp only []
    cases hf2 : s2.finds with
    | nil =>
      simp only []
      exact ih evs hr nf fuel st (by omega) hfu
    | cons t rest =>
      simp only []
      rw [← EnumScan.next_shift content data (data.size) s2 t rest hf2]
      exact ih evs hr (data.size + 1) fuel st (by omega) hfu
  | @fail s c e hf hc hd hne =>
    intro evs hr; cases hr
  | @eof s hf hi hs =>
    intro evs hr nf fuel st hnf hfu
    obtain ⟨nf, rfl⟩ : ∃ k, nf = k + 1 := ⟨nf - 1, by omega⟩
    rw [EnumScan.next_eof content data nf s hf hi hs]
    cases hr
    rfl
  | @tail s s1 ev n r hf hi ht _ ih =>
    intro evs hr nf fuel st hnf hfu
    obtain ⟨evs', rfl, rfl⟩ := map_ok_cons hr
    obtain ⟨nf, rfl⟩ : ∃ k, nf = k + 1 := ⟨nf - 1, by omega⟩
    obtain ⟨fuel, rfl⟩ : ∃ k, fuel = k + 1 := ⟨fuel - 1, by omega⟩
    rw [EnumScan.next_tail content data nf s hf hi, ht]
    simp only [compK, List.foldlM_cons, bind, Except.bind]
    cases hc : compileStep bs st ev with
    | error x => rfl
    | ok st' =>
      simp only []
      rw [compileLoop_succ]
      exact ih evs' rfl (2 * data.size + 16) fuel st' (by omega) (by omega)

/-- `Values()` of a text whose event stream is `evs` -/
theorem ruleValues_of_out (bs : Bytes) (evs : List Ev)
    (h : OutT bs.toArray (bs.map classify).toArray ⟨.begin, [], [], [], 0, false, false, false, false, []⟩ evs.length
      (.ok evs)) (hlen : evs.length < 8 * bs.length + 16) :
    ruleValues bs = (evs.foldlM (compileStep bs) {}).map (fun st => st.rvalues.reverse) := by
  unfold ruleValues
  have hsz : ((bs.map classify).toArray).size = bs.length := by simp
  simp only [hsz]
  obtain ⟨fuel, hfuel⟩ : ∃ k, 8 * bs.length + 16 = k + 1 := ⟨8 * bs.length + 15, by omega⟩
  rw [hfuel, compileLoop_succ]
  have hinit : ({} : Sc) = ⟨.begin, [], [], [], 0, false, false, false, false, []⟩ := rfl
  rw [hinit, OutT_compile bs bs.toArray (bs.map classify).toArray h evs rfl _ fuel {} (by simp; omega) (by omega)]
  cases evs.foldlM (compileStep bs) {} <;> rfl

/-! ### the fold -/

/-- the literal values (source tokens) among `Values`, comment entries skipped -/
def litVals (vs : List Value) : List Bytes := vs.filterMap (fun v => if v.ty == .comment then none else v.value)

/-- every entry is a comment entry or carries its source token -/
def WFV (vs : List Value) : Prop := ∀ v ∈ vs, v.ty = .comment ∨ v.value.isSome = true

/-- `handleEndOfComment` never indexes an empty slice; the entries are well formed -/
def CInv (st : CSt) : Prop := (st.collect = true → st.rvalues ≠ []) ∧ WFV st.rvalues

/-- events that leave the literal values alone -/
def Pres (bs : Bytes) (evs : List Ev) : Prop :=
  ∀ st, CInv st → ∃ st', evs.foldlM (compileStep bs) st = .ok st' ∧ CInv st' ∧ litVals st'.rvalues = litVals st.rvalues

/-- events that add exactly the literal `tok` -/
def Adds (bs : Bytes) (evs : List Ev) (toks : List Bytes) : Prop :=
  ∀ st, CInv st → ∃ st', evs.foldlM (compileStep bs) st = .ok st' ∧ CInv st' ∧
    litVals st'.rvalues = toks.reverse ++ litVals st.rvalues

theorem Pres.adds {bs : Bytes} {evs : List Ev} (h : Pres bs evs) : Adds bs evs [] := by
  intro st hi
  obtain ⟨st', h1, h2, h3⟩ := h st hi
  exact ⟨st', h1, h2, by simpa using h3⟩

theorem Adds.append {bs : Bytes} {a b : List Ev} {ta tb : List Bytes} (ha : Adds bs a ta) (hb : Adds bs b tb) :
    Adds bs (a ++ b) (ta ++ tb) := by
  intro st hi
  obtain ⟨s1, h1, h2, h3⟩ := ha st hi
  obtain ⟨s2, h4, h5, h6⟩ := hb s1 h2
  refine ⟨s2, ?_, h5, ?_⟩
  · rw [List.foldlM_append, h1]; exact h4
  · rw [h6, h3]; simp

theorem Pres.append {bs : Bytes} {a b : List Ev} (ha : Pres bs a) (hb : Pres bs b) : Pres bs (a ++ b) := by
  intro st hi
  obtain ⟨s1, h1, h2, h3⟩ := ha st hi
  obtain ⟨s2, h4, h5, h6⟩ := hb s1 h2
  refine ⟨s2, ?_, h5, by rw [h6, h3]⟩
  rw [List.foldlM_append, h1]; exact h4

theorem Pres.nil (bs : Bytes) : Pres bs [] := fun st hi => ⟨st, rfl, hi, rfl⟩

/-- an event the collector does not look at -/
def noop : LexT → Bool
  | .litB | .arrB | .arrE | .itemB | .itemE | .inlAnnB | .inlAnnE | .inlTxtB | .mlAnnB | .mlAnnE | .endTop => true
  | _ => false

theorem Pres.noop (bs : Bytes) (e : Ev) (h : noop e.ty = true) : Pres bs [e] := by
  intro st hi
  refine ⟨st, ?_, hi, rfl⟩
  obtain ⟨ty, b, e'⟩ := e
  cases ty <;> first | rfl | (simp [EnumRoute.noop] at h)

theorem Pres.newLine (bs : Bytes) (b e : Nat) : Pres bs [⟨.newLine, b, e⟩] := by
  intro st hi
  refine ⟨if st.inAnn then st else { st with collect := false }, rfl, ?_, ?_⟩
  · split
    · exact hi
    · exact ⟨(by intro h; cases h), hi.2⟩
  · split <;> rfl

theorem Pres.mlTxtB (bs : Bytes) (b e : Nat) : Pres bs [⟨.mlTxtB, b, e⟩] :=
  fun st hi => ⟨{ st with inAnn := true }, rfl, hi, rfl⟩

theorem litVals_setComment (v : Value) (vs : List Value) (c : Bytes) :
    litVals ({ v with comment := c } :: vs) = litVals (v :: vs) := by
  simp [litVals, List.filterMap_cons]

/-- the end of a comment's text, its span inside the text -/
theorem Pres.txtE (bs : Bytes) (ty : LexT) (hty : ty = .inlTxtE ∨ ty = .mlTxtE) (b e : Nat) (h1 : b ≤ e + 1)
    (h2 : e + 1 ≤ bs.length) : Pres bs [⟨ty, b, e⟩] := by
  intro st hi
  have hs : sliceE bs b e = .ok ((bs.drop b).take (e + 1 - b)) := by
    unfold sliceE; simp [h1, h2]; rfl
  have hstep : compileStep bs st ⟨ty, b, e⟩ = (do
      let v ← sliceE bs b e
      let st ← endOfComment st (RulesF.trimSpaces v)
      pure { st with inAnn := false }) := by
    rcases hty with rfl | rfl <;> rfl
  cases hc : st.collect with
  | false =>
    refine ⟨CSt.mk (Value.mk VType.comment none (RulesF.trimSpaces ((bs.drop b).take (e + 1 - b))) :: st.rvalues)
      st.collect false, ?_, ?_, ?_⟩
    · simp only [List.foldlM_cons, List.foldlM_nil, hstep, hs, endOfComment, hc, bind, Except.bind, pure, Except.pure]
      rfl
    · refine ⟨(by intro h; simp), ?_⟩
      intro v hv
      simp only [List.mem_cons] at hv
      rcases hv with rfl | hv
      · exact Or.inl rfl
      · exact hi.2 v hv
    · simp [litVals, List.filterMap_cons]
  | true =>
    cases hr : st.rvalues with
    | nil => exact absurd hr (hi.1 hc)
    | cons v vs =>
      refine ⟨CSt.mk (Value.mk v.ty v.value (RulesF.trimSpaces ((bs.drop b).take (e + 1 - b))) :: vs)
        st.collect false, ?_, ?_, ?_⟩
      · simp only [List.foldlM_cons, List.foldlM_nil, hstep, hs, endOfComment, hc, hr, bind, Except.bind, pure,
          Except.pure]
        rfl
      · refine ⟨(by intro h; simp), ?_⟩
        intro x hx
        simp only [List.mem_cons] at hx
        have hw := hi.2
        rw [hr] at hw
        rcases hx with rfl | hx
        · exact hw v (by simp)
        · exact hw x (by simp [hx])
      · simp only [hr]; exact litVals_setComment v vs _

theorem Pres.nlEvs (bs : Bytes) (ws : List Cls) : ∀ o, Pres bs (EnumScan.nlEvs o ws) := by
  induction ws with
  | nil => intro o; exact Pres.nil bs
  | cons c cs ih =>
    intro o
    simp only [EnumScan.nlEvs]
    refine Pres.append ?_ (ih _)
    split
    · exact Pres.newLine bs o o
    · exact Pres.nil bs

theorem cons_eq_append {α : Type} (x : α) (l : List α) : x :: l = [x] ++ l := rfl

/-- a layout piece inside the text leaves the literal values alone -/
theorem Pres.piece (bs : Bytes) (p : Piece) (o : Nat) (hlen : o + p.render.length ≤ bs.length) : Pres bs (p.evs o) := by
  cases p with
  | blank c => exact Pres.nlEvs bs [c] o
  | inl sp txt =>
    rw [EnumScan.Piece.render_length_inl] at hlen
    show Pres bs ([_] ++ ([_] ++ ([_] ++ ([_] ++ ([_] ++ [])))))
    refine Pres.append (Pres.noop bs _ rfl) (Pres.append (Pres.noop bs _ rfl) (Pres.append ?_
      (Pres.append (Pres.noop bs _ rfl) (Pres.append (Pres.newLine bs _ _) (Pres.nil bs)))))
    exact Pres.txtE bs .inlTxtE (Or.inl rfl) _ _ (by omega) (by omega)
  | ml ws txt =>
    rw [EnumScan.Piece.render_length_ml] at hlen
    show Pres bs ([_] ++ (EnumScan.nlEvs _ ws ++ ([_] ++ ([_] ++ ([_] ++ [])))))
    refine Pres.append (Pres.noop bs _ rfl) (Pres.append (Pres.nlEvs bs ws _) ?_)
    refine Pres.append (Pres.mlTxtB bs _ _) (Pres.append ?_ (Pres.append (Pres.noop bs _ rfl) (Pres.nil bs)))
    exact Pres.txtE bs .mlTxtE (Or.inr rfl) _ _ (by omega) (by omega)

theorem Pres.lay (bs : Bytes) (L : Lay) : ∀ (o : Nat), o + (Lay.render L).length ≤ bs.length → Pres bs (layEvs o L) := by
  induction L with
  | nil => intro o _; exact Pres.nil bs
  | cons p L ih =>
    intro o hlen
    simp only [Lay.render, List.length_append] at hlen
    simp only [layEvs]
    exact Pres.append (Pres.piece bs p o (by omega)) (ih _ (by omega))

theorem Pres.layB (bs : Bytes) (L : LayB) (hv : L.Valid) (o : Nat) (hlen : o + (LayB.render L).length ≤ bs.length) :
    Pres bs (layEvsB o L) :=
  Pres.lay bs L.cls o (by rw [LayB.render_length L hv]; exact hlen)

/-- the four events of an item add its token -/
theorem Adds.item (bs : Bytes) (tok front back : Bytes) (o : Nat) (hbs : bs = front ++ (tok ++ back))
    (ho : front.length = o) (hne : 1 ≤ tok.length) (hg : (guessSchemaType tok).isSome = true) :
    Adds bs (EnumScan.itemEvs o (o + tok.length)) [tok] := by
  intro st hi
  obtain ⟨t, ht⟩ := Option.isSome_iff_exists.mp hg
  have hs : sliceE bs o (o + tok.length - 1) = .ok tok := by
    unfold sliceE
    have h1 : o ≤ o + tok.length - 1 + 1 ∧ o + tok.length - 1 + 1 ≤ bs.length := by
      rw [hbs]; simp; omega
    simp only [h1, and_self, if_true, pure, Except.pure]
    congr 1
    have e : o + tok.length - 1 + 1 - o = tok.length := by omega
    rw [e, hbs, List.drop_left' ho, List.take_left]
  refine ⟨CSt.mk (Value.mk t (some tok) [] :: st.rvalues) true st.inAnn, ?_, ?_, ?_⟩
  · simp only [EnumScan.itemEvs, List.foldlM_cons, List.foldlM_nil, compileStep, hs, ht, bind, Except.bind, pure,
      Except.pure]
  · refine ⟨(by intro _; simp), ?_⟩
    intro v hv
    simp only [List.mem_cons] at hv
    rcases hv with rfl | hv
    · exact Or.inr rfl
    · exact hi.2 v hv
  · have : (t == VType.comment) = false := by
      unfold guessSchemaType at ht
      repeat' split at ht
      all_goals first | (cases ht; rfl) | cases ht
    have hne : t ≠ VType.comment := by intro h; subst h; simp at this
    simp [litVals, List.filterMap_cons, hne]

/-- the collector's literal values over the items of the text -/
theorem Adds.items (bs : Bytes) (a : Nat) (its : List ItemC) : ∀ (o : Nat) (front back : Bytes),
    EnumScan.ValidItemsC its → (∀ it ∈ its, (guessSchemaType it.2.1).isSome = true) →
    bs = front ++ (EnumScan.renderItemsC its ++ back) → front.length = o →
    Adds bs (EnumScan.evsItemsC a o its) (its.map (·.2.1)) := by
  induction its with
  | nil =>
    intro o front back _ _ _ _
    exact (Pres.noop bs _ rfl).adds
  | cons it its ih =>
    intro o front back hv hg hbs ho
    obtain ⟨l1, t, l2⟩ := it
    obtain ⟨hl1, htk, hl2⟩ : LayB.Valid l1 ∧ EnumScan.IsTok (t.map classify) ∧ LayB.Valid l2 := hv (l1, t, l2) (by simp)
    have ht := htk.length_pos
    simp only [List.length_map] at ht
    have hlen : bs.length = o + (LayB.render l1).length + t.length + (LayB.render l2).length
        + ((if its.isEmpty then [] else [44]) ++ EnumScan.renderItemsC its).length + back.length := by
      rw [hbs]; simp [EnumScan.renderItemsC, ho]; omega
    have h1 := Pres.layB bs l1 hl1 o (by omega)
    have h2 := Adds.item bs t (front ++ LayB.render l1)
      (LayB.render l2 ++ ((if its.isEmpty then [] else [44]) ++ EnumScan.renderItemsC its) ++ back)
      (o + (LayB.render l1).length) (by rw [hbs]; simp [EnumScan.renderItemsC, List.append_assoc]) (by simp [ho]) ht
      (hg (l1, t, l2) (by simp))
    have h3 := Pres.layB bs l2 hl2 (o + (LayB.render l1).length + t.length) (by omega)
    have h4 := ih (o + (LayB.render l1).length + t.length + (LayB.render l2).length + (if its.isEmpty then 0 else 1))
      (front ++ (LayB.render l1 ++ (t ++ (LayB.render l2 ++ (if its.isEmpty then [] else [44]))))) back
      (fun x hx => hv x (by simp [hx])) (fun x hx => hg x (by simp [hx]))
      (by rw [hbs]; simp [EnumScan.renderItemsC, List.append_assoc])
      (by cases its <;> simp [ho] <;> omega)
    have := (h1.adds.append (h2.append (h3.adds.append h4)))
    simpa [EnumScan.evsItemsC] using this

theorem litVals_reverse (vs : List Value) : litVals vs.reverse = (litVals vs).reverse := by
  simp [litVals, List.filterMap_reverse]

/-- **`Values()` lists the literals in source order**: for the text grammar with comments, `Values()` succeeds and its
non-comment entries carry, in order, exactly the item tokens -/
theorem values_of_text (pre : Bytes) (ws0 post : LayB) (items : List ItemC)
    (hpre : EnumScan.IsWsB pre) (hws0 : ws0.Valid) (hpost : post.Valid) (hv : EnumScan.ValidItemsC items)
    (hnd : (items.map EnumScan.itemKeyC).Nodup) (hg : ∀ it ∈ items, (guessSchemaType it.2.1).isSome = true) :
    ∃ vs, ruleValues (EnumScan.renderEnumC pre ws0 items post) = .ok vs ∧ litVals vs = items.map (·.2.1) ∧ WFV vs := by
  have hout := EnumScan.enumC_out false pre ws0 post items hpre hws0 hpost hv hnd
  have hle := EnumScan.enumEvsC_length_le pre ws0 post items hws0 hpost hv
  rw [ruleValues_of_out _ _ hout (by omega)]
  have hlen := EnumScan.renderEnumC_length pre ws0 post items
  -- the fold
  have hA : Adds (EnumScan.renderEnumC pre ws0 items post) (EnumScan.enumEvsC pre ws0 items post) (items.map (·.2.1)) := by
    have h0 : Pres (EnumScan.renderEnumC pre ws0 items post) [⟨.arrB, pre.length, pre.length⟩] := Pres.noop _ _ rfl
    have h1 := Pres.layB (EnumScan.renderEnumC pre ws0 items post) ws0 hws0 (pre.length + 1) (by omega)
    have h2 := Adds.items (EnumScan.renderEnumC pre ws0 items post) pre.length items
      (pre.length + 1 + (LayB.render ws0).length) (pre ++ 91 :: LayB.render ws0) (LayB.render post) hv hg
      (by simp [EnumScan.renderEnumC]) (by simp; omega)
    have h3 := Pres.layB (EnumScan.renderEnumC pre ws0 items post) post hpost
      (pre.length + 1 + (LayB.render ws0).length + (EnumScan.renderItemsC items).length) (by omega)
    have := h0.adds.append (h1.adds.append (h2.append h3.adds))
    simpa [EnumScan.enumEvsC] using this
  obtain ⟨st', h1, h2, h3⟩ := hA {} ⟨(by intro h; cases h), (by intro v hv; cases hv)⟩
  refine ⟨st'.rvalues.reverse, by rw [h1]; rfl, ?_, ?_⟩
  · rw [litVals_reverse, h3]
    simp [litVals]
  · intro v hv
    exact h2.2 v (by simpa using hv)

end EnumRoute
