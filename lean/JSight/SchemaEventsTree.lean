import JSight.SchemaEventsRun
/-!
C06 (second sentence) / C13 / C16: a schema whose text is plain JSON is scanned by the schema scanner into exactly
the events of the JSON value tree it denotes — begin/end pairs of objects, keys, values, arrays, items and
literals with the right spans — plus one `newLine` event per line break outside tokens.
Arbitrary nesting, width and layout (space, tab, line breaks at every place JSON allows white space).
-/
namespace SchemaScan

variable {data : Array Cls}

/-! ### object keys -/

/-- a key token: a string, as the scanner's token automaton reads it -/
def IsKey (k : List Cls) : Prop :=
  ∃ tl, k = .quote :: tl ∧ silentRun .inString [] false tl = some (.endValue, [], false)

/-- a scalar token, as the scanner's token automaton reads it (related to the token grammar below) -/
def IsScalar (tok : List Cls) : Prop :=
  ∃ c tl st0 unf0 stE, tok = c :: tl ∧ litStart c = some (st0, unf0) ∧
    silentRun st0 [] unf0 tl = some (stE, [], false) ∧ PV stE = true

theorem key_run {st : St} (hst : keySt st = true) (k : List Cls) (hk : IsKey k) (R : List (LexT × Nat))
    (w2 : List Cls) (hw : IsWs w2) (o : Nat) (CS : List Ctx) (cx : Ctx) (al : Bool)
    (hat : At data o (k ++ (w2 ++ [.colon]))) :
    ∃ al', Steps data (cfg st [] R false o CS cx al)
      ([⟨.keyB, o, o⟩, ⟨.keyE, o, o + k.length - 1⟩] ++ nlEvs (o + k.length) w2)
      (cfg .objValue [] R false (o + k.length + w2.length + 1) CS cx al') := by
  obtain ⟨tl, rfl, hr⟩ := hk
  rw [At_append] at hat
  obtain ⟨⟨hq, htl⟩, hrest⟩ := hat
  have h1 := S_key_start hst R o CS cx al hq
  have h2 := tok_run tl _ _ _ _ _ _ hr ((.keyB, o) :: R) (o + 1) CS cx (keyAl st al) htl
  simp only [List.length_cons] at hrest ⊢
  rw [show o + 1 + tl.length = o + (tl.length + 1) by omega] at h2
  obtain ⟨al', h3⟩ := close_sep (st := .endValue) rfl false .key 0 o R w2 hw (o + (tl.length + 1)) CS cx (keyAl st al) hrest
  refine ⟨al', ?_⟩
  have := Steps.trans (Steps.trans h1 h2) h3
  simpa [closersOf, CK.E, CK.nxt] using this

/-! ### value trees with layout -/

/-- a JSON value with its layout: white space (space, tab, line breaks) at every place JSON allows it -/
inductive Tree
  | scalar (tok : List Cls)
  | arr (ws0 : List Cls) (items : List (List Cls × Tree × List Cls))                       -- ws value ws
  | obj (ws0 : List Cls) (members : List (List Cls × List Cls × List Cls × List Cls × Tree × List Cls))
                                                                                         -- ws key ws ":" ws value ws

mutual
def Tree.render : Tree → List Cls
  | .scalar tok => tok
  | .arr ws0 items => .lbrack :: (ws0 ++ renderItems items)
  | .obj ws0 members => .lbrace :: (ws0 ++ renderMembers members)
/-- the items and the closing bracket -/
def renderItems : List (List Cls × Tree × List Cls) → List Cls
  | [] => [.rbrack]
  | (w1, v, w2) :: its => w1 ++ (v.render ++ (w2 ++ ((if its.isEmpty then [] else [.comma]) ++ renderItems its)))
/-- the members and the closing brace -/
def renderMembers : List (List Cls × List Cls × List Cls × List Cls × Tree × List Cls) → List Cls
  | [] => [.rbrace]
  | (w1, k, w2, w3, v, w4) :: ms =>
    w1 ++ (k ++ (w2 ++ (.colon :: (w3 ++ (v.render ++ (w4 ++ ((if ms.isEmpty then [] else [.comma]) ++ renderMembers ms)))))))
end

mutual
/-- the events of a value that starts at offset `o` -/
def schemaEvsAt : Nat → Tree → List Ev
  | o, .scalar tok => [⟨.litB, o, o⟩, ⟨.litE, o, o + tok.length - 1⟩]
  | o, .arr ws0 items => ⟨.arrB, o, o⟩ :: (nlEvs (o + 1) ws0 ++ evsItems o (o + 1 + ws0.length) items)
  | o, .obj ws0 members => ⟨.objB, o, o⟩ :: (nlEvs (o + 1) ws0 ++ evsMembers o (o + 1 + ws0.length) members)
/-- events of the items starting at offset `o`, then the array end of the array opened at `a` -/
def evsItems (a : Nat) : Nat → List (List Cls × Tree × List Cls) → List Ev
  | o, [] => [⟨.arrE, a, o⟩]
  | o, (w1, v, w2) :: its =>
    nlEvs o w1 ++ (⟨.itemB, o + w1.length, o + w1.length⟩ ::
      (schemaEvsAt (o + w1.length) v ++ (⟨.itemE, o + w1.length, o + w1.length + v.render.length - 1⟩ ::
        (nlEvs (o + w1.length + v.render.length) w2 ++
          evsItems a (o + w1.length + v.render.length + w2.length + (if its.isEmpty then 0 else 1)) its))))
/-- events of the members starting at offset `o`, then the object end of the object opened at `a` -/
def evsMembers (a : Nat) : Nat → List (List Cls × List Cls × List Cls × List Cls × Tree × List Cls) → List Ev
  | o, [] => [⟨.objE, a, o⟩]
  | o, (w1, k, w2, w3, v, w4) :: ms =>
    nlEvs o w1 ++ (⟨.keyB, o + w1.length, o + w1.length⟩ :: ⟨.keyE, o + w1.length, o + w1.length + k.length - 1⟩ ::
      (nlEvs (o + w1.length + k.length) w2 ++ (nlEvs (o + w1.length + k.length + w2.length + 1) w3 ++
      (⟨.valB, o + w1.length + k.length + w2.length + 1 + w3.length, o + w1.length + k.length + w2.length + 1 + w3.length⟩ ::
      (schemaEvsAt (o + w1.length + k.length + w2.length + 1 + w3.length) v ++
        (⟨.valE, o + w1.length + k.length + w2.length + 1 + w3.length,
          o + w1.length + k.length + w2.length + 1 + w3.length + v.render.length - 1⟩ ::
        (nlEvs (o + w1.length + k.length + w2.length + 1 + w3.length + v.render.length) w4 ++
        evsMembers a (o + w1.length + k.length + w2.length + 1 + w3.length + v.render.length + w4.length
          + (if ms.isEmpty then 0 else 1)) ms)))))))
end

mutual
def Tree.Valid : Tree → Prop
  | .scalar tok => IsScalar tok
  | .arr ws0 items => IsWs ws0 ∧ ValidItems items
  | .obj ws0 members => IsWs ws0 ∧ ValidMembers members
def ValidItems : List (List Cls × Tree × List Cls) → Prop
  | [] => True
  | (w1, v, w2) :: its => IsWs w1 ∧ v.Valid ∧ IsWs w2 ∧ ValidItems its
def ValidMembers : List (List Cls × List Cls × List Cls × List Cls × Tree × List Cls) → Prop
  | [] => True
  | (w1, k, w2, w3, v, w4) :: ms => IsWs w1 ∧ IsKey k ∧ IsWs w2 ∧ IsWs w3 ∧ v.Valid ∧ IsWs w4 ∧ ValidMembers ms
end

def Tree.isLit : Tree → Bool | .scalar _ => true | _ => false
def evsOpen (o : Nat) : Tree → List Ev
  | .scalar _ => [⟨.litB, o, o⟩]
  | v => schemaEvsAt o v

def itemCtx (first : Bool) : VCtx := if first then .item0 else .item1
def keyCtxSt (first : Bool) : St := if first then .objKeyOrEmpty else .objKey

theorem Steps.cast {s s1 s1' : Sc} {evs evs' : List Ev} (h : Steps data s evs s1) (he : evs = evs') (hs : s1 = s1') :
    Steps data s evs' s1' := he ▸ hs ▸ h

theorem cfg_congr {st : St} {r : List St} {K K' : List (LexT × Nat)} {u : Bool} {i i' : Nat} {CS : List Ctx} {cx : Ctx}
    {al : Bool} (hK : K = K') (hi : i = i') : cfg st r K u i CS cx al = cfg st r K' u i' CS cx al := by
  subst hK hi; rfl

theorem itemCtx_ne (first : Bool) : (itemCtx first).st ≠ .objKey := by cases first <;> simp [itemCtx, VCtx.st]
theorem itemCtx_loop (first : Bool) : wsLoop (itemCtx first).st = true := by cases first <;> rfl
theorem keyCtx_key (first : Bool) : keySt (keyCtxSt first) = true := by cases first <;> rfl
theorem keySt_loop {st : St} (h : keySt st = true) : wsLoop st = true := by
  cases st <;> simp [keySt] at h <;> rfl

mutual
theorem value_run : (v : Tree) → v.Valid → (ctx : VCtx) → (K : List (LexT × Nat)) → (o : Nat) →
    At data o v.render → (CS : List Ctx) → (cx : Ctx) → (al : Bool) →
    ∃ st cx' al', PV st = true ∧
      Steps data (cfg ctx.st [] K false o CS cx al) (ctx.preEvs o ++ evsOpen o v)
        (cfg st [] (pendOf v.isLit o ++ (ctx.pre o ++ K)) false (o + v.render.length) CS cx' al')
  | .scalar tok, hv, ctx, K, o, hat, CS, cx, al => by
    obtain ⟨c, tl, st0, unf0, stE, rfl, hs, hr, hp⟩ : IsScalar tok := by simpa [Tree.Valid] using hv
    simp only [Tree.render] at hat
    obtain ⟨hc, htl⟩ := hat
    have h1 := S_start_scalar hs ctx K o CS cx al hc
    have h2 := tok_run tl _ _ _ _ _ _ hr ((.litB, o) :: (ctx.pre o ++ K)) (o + 1) CS (ctx.cx' cx) al htl
    refine ⟨stE, ctx.cx' cx, al, hp, (Steps.trans h1 h2).cast ?_ (cfg_congr ?_ ?_)⟩
    · simp [evsOpen]
    · simp [pendOf, Tree.isLit]
    · simp only [Tree.render, List.length_cons]; omega
  | .arr ws0 items, hv, ctx, K, o, hat, CS, cx, al => by
    obtain ⟨hw0, hi⟩ : IsWs ws0 ∧ ValidItems items := by simpa [Tree.Valid] using hv
    simp only [Tree.render] at hat
    obtain ⟨hc, hat⟩ := hat
    rw [At_append] at hat
    obtain ⟨hat0, hatI⟩ := hat
    have h1 := S_start_array ctx K o CS cx al hc
    obtain ⟨al1, h2⟩ := ws_run ws0 hw0 .arrItemOrEmpty rfl ((.arrB, o) :: (ctx.pre o ++ K)) (o + 1)
      (ctx.cx' cx :: CS) { ty := .array } al hat0
    rw [wsSt_eq (by simp)] at h2
    obtain ⟨al2, h3⟩ := items_run items hi true (fun _ => rfl) o (ctx.pre o ++ K) (o + 1 + ws0.length) hatI
      (ctx.cx' cx) CS { ty := .array } al1
    have h3' : Steps data (cfg .arrItemOrEmpty [] ((.arrB, o) :: (ctx.pre o ++ K)) false (o + 1 + ws0.length)
        (ctx.cx' cx :: CS) { ty := .array } al1) _ _ := h3
    refine ⟨.endValue, ctx.cx' cx, al2, rfl, (Steps.trans (Steps.trans h1 h2) h3').cast ?_ (cfg_congr ?_ ?_)⟩
    · simp [evsOpen, schemaEvsAt]
    · simp [pendOf, Tree.isLit]
    · simp only [Tree.render, List.length_cons, List.length_append]; omega
  | .obj ws0 members, hv, ctx, K, o, hat, CS, cx, al => by
    obtain ⟨hw0, hi⟩ : IsWs ws0 ∧ ValidMembers members := by simpa [Tree.Valid] using hv
    simp only [Tree.render] at hat
    obtain ⟨hc, hat⟩ := hat
    rw [At_append] at hat
    obtain ⟨hat0, hatI⟩ := hat
    have h1 := S_start_object ctx K o CS cx al hc
    obtain ⟨al1, h2⟩ := ws_run ws0 hw0 .objKeyOrEmpty rfl ((.objB, o) :: (ctx.pre o ++ K)) (o + 1)
      (ctx.cx' cx :: CS) { ty := .object } al hat0
    rw [wsSt_eq (by simp)] at h2
    obtain ⟨al2, h3⟩ := members_run members hi true (fun _ => rfl) o (ctx.pre o ++ K) (o + 1 + ws0.length) hatI
      (ctx.cx' cx) CS { ty := .object } al1
    have h3' : Steps data (cfg .objKeyOrEmpty [] ((.objB, o) :: (ctx.pre o ++ K)) false (o + 1 + ws0.length)
        (ctx.cx' cx :: CS) { ty := .object } al1) _ _ := h3
    refine ⟨.endValue, ctx.cx' cx, al2, rfl, (Steps.trans (Steps.trans h1 h2) h3').cast ?_ (cfg_congr ?_ ?_)⟩
    · simp [evsOpen, schemaEvsAt]
    · simp [pendOf, Tree.isLit]
    · simp only [Tree.render, List.length_cons, List.length_append]; omega
theorem items_run : (its : List (List Cls × Tree × List Cls)) → ValidItems its →
    (first : Bool) → (its = [] → first = true) → (a : Nat) → (K : List (LexT × Nat)) → (o : Nat) →
    At data o (renderItems its) → (c0 : Ctx) → (CS : List Ctx) → (cx : Ctx) → (al : Bool) →
    ∃ al', Steps data (cfg (itemCtx first).st [] ((.arrB, a) :: K) false o (c0 :: CS) cx al) (evsItems a o its)
      (cfg .endValue [] K false (o + (renderItems its).length) CS c0 al')
  | [], _, first, hf, a, K, o, hat, c0, CS, cx, al => by
    rw [hf rfl]
    simp only [renderItems] at hat
    exact ⟨_, S_empty_arr a K o c0 CS cx al hat.1⟩
  | (w1, v, w2) :: its, hv, first, _, a, K, o, hat, c0, CS, cx, al => by
    obtain ⟨hw1, hvv, hw2, hits⟩ : IsWs w1 ∧ v.Valid ∧ IsWs w2 ∧ ValidItems its := by simpa [ValidItems] using hv
    simp only [renderItems] at hat
    rw [At_append, At_append] at hat
    obtain ⟨hat1, hatv, hat2⟩ := hat
    obtain ⟨al1, h1⟩ := ws_run w1 hw1 _ (itemCtx_loop first) ((.arrB, a) :: K) o (c0 :: CS) cx al hat1
    rw [wsSt_eq (itemCtx_ne first)] at h1
    obtain ⟨st, cx2, al2, hp, h2⟩ := value_run v hvv (itemCtx first) ((.arrB, a) :: K) (o + w1.length) hatv
      (c0 :: CS) cx al1
    have hpre : (itemCtx first).pre (o + w1.length) ++ (.arrB, a) :: K
        = (.itemB, o + w1.length) :: (.arrB, a) :: K := by cases first <;> rfl
    have hpe : (itemCtx first).preEvs (o + w1.length) = [⟨.itemB, o + w1.length, o + w1.length⟩] := by
      cases first <;> rfl
    rw [hpre, hpe] at h2
    cases its with
    | nil =>
      simp only [List.isEmpty_nil, if_true, List.nil_append, renderItems] at hat2
      obtain ⟨al3, h3⟩ := close_rbrack hp v.isLit (o + w1.length) (o + w1.length) a K w2 hw2
        (o + w1.length + v.render.length) c0 CS cx2 al2 hat2
      refine ⟨al3, (Steps.trans (Steps.trans h1 h2) h3).cast ?_ (cfg_congr rfl ?_)⟩
      · cases v <;> simp [evsItems, evsOpen, schemaEvsAt, closersOf, Tree.isLit, Tree.render, CK.E]
      · simp only [renderItems, List.isEmpty_nil, if_true, List.length_append, List.length_cons, List.length_nil]
        omega
    | cons it its' =>
      simp only [List.isEmpty_cons, Bool.false_eq_true, if_false] at hat2
      rw [← List.append_assoc, At_append] at hat2
      obtain ⟨hat2, hat3⟩ := hat2
      obtain ⟨al3, h3⟩ := close_sep hp v.isLit .item (o + w1.length) (o + w1.length) ((.arrB, a) :: K) w2 hw2
        (o + w1.length + v.render.length) (c0 :: CS) cx2 al2 hat2
      simp only [List.length_append, List.length_cons, List.length_nil] at hat3
      obtain ⟨al4, h4⟩ := items_run (it :: its') hits false (by simp) a K
        (o + w1.length + v.render.length + w2.length + 1) (by
          rw [show o + w1.length + v.render.length + w2.length + 1
            = o + w1.length + v.render.length + (w2.length + (0 + 1)) by omega]; exact hat3) c0 CS cx2 al3
      have h4' : Steps data (cfg .arrItem [] ((.arrB, a) :: K) false (o + w1.length + v.render.length + w2.length + 1)
          (c0 :: CS) cx2 al3) _ _ := h4
      refine ⟨al4, (Steps.trans (Steps.trans (Steps.trans h1 h2) h3) h4').cast ?_ (cfg_congr rfl ?_)⟩
      · cases v <;> simp [evsItems, evsOpen, schemaEvsAt, closersOf, Tree.isLit, Tree.render, CK.E]
      · simp only [renderItems, List.isEmpty_cons, Bool.false_eq_true, if_false, List.length_append, List.length_cons,
          List.length_nil]
        omega
theorem members_run : (ms : List (List Cls × List Cls × List Cls × List Cls × Tree × List Cls)) → ValidMembers ms →
    (first : Bool) → (ms = [] → first = true) → (a : Nat) → (K : List (LexT × Nat)) → (o : Nat) →
    At data o (renderMembers ms) → (c0 : Ctx) → (CS : List Ctx) → (cx : Ctx) → (al : Bool) →
    ∃ al', Steps data (cfg (keyCtxSt first) [] ((.objB, a) :: K) false o (c0 :: CS) cx al) (evsMembers a o ms)
      (cfg .endValue [] K false (o + (renderMembers ms).length) CS c0 al')
  | [], _, first, hf, a, K, o, hat, c0, CS, cx, al => by
    rw [hf rfl]
    simp only [renderMembers] at hat
    exact ⟨_, S_empty_obj a K o c0 CS cx al hat.1⟩
  | (w1, k, w2, w3, v, w4) :: ms, hv, first, _, a, K, o, hat, c0, CS, cx, al => by
    obtain ⟨hw1, hk, hw2, hw3, hvv, hw4, hms⟩ :
        IsWs w1 ∧ IsKey k ∧ IsWs w2 ∧ IsWs w3 ∧ v.Valid ∧ IsWs w4 ∧ ValidMembers ms := by
      simpa [ValidMembers] using hv
    simp only [renderMembers] at hat
    rw [At_append, At_append, At_append] at hat
    obtain ⟨hat1, hatk, hat2, hatc⟩ := hat
    obtain ⟨hcolon, hat⟩ := hatc
    rw [At_append, At_append] at hat
    obtain ⟨hat3, hatv, hat4⟩ := hat
    obtain ⟨al1, h1⟩ := ws_run w1 hw1 _ (keySt_loop (keyCtx_key first)) ((.objB, a) :: K) o (c0 :: CS) cx al hat1
    have hkat : At data (o + w1.length) (k ++ (w2 ++ [.colon])) := by
      rw [At_append, At_append]
      exact ⟨hatk, hat2, hcolon, trivial⟩
    obtain ⟨al2, h2⟩ := key_run (keySt_wsSt (keyCtx_key first) w1) k hk ((.objB, a) :: K) w2 hw2 (o + w1.length)
      (c0 :: CS) cx al1 hkat
    obtain ⟨al3, h3⟩ := ws_run w3 hw3 .objValue rfl ((.objB, a) :: K) (o + w1.length + k.length + w2.length + 1)
      (c0 :: CS) cx al2 hat3
    rw [wsSt_eq (by simp)] at h3
    obtain ⟨st, cx4, al4, hp, h4⟩ := value_run v hvv .objv ((.objB, a) :: K)
      (o + w1.length + k.length + w2.length + 1 + w3.length) hatv (c0 :: CS) cx al3
    have h4' : Steps data (cfg .objValue [] ((.objB, a) :: K) false (o + w1.length + k.length + w2.length + 1 + w3.length)
        (c0 :: CS) cx al3)
        ([⟨.valB, o + w1.length + k.length + w2.length + 1 + w3.length,
            o + w1.length + k.length + w2.length + 1 + w3.length⟩]
          ++ evsOpen (o + w1.length + k.length + w2.length + 1 + w3.length) v)
        (cfg st [] (pendOf v.isLit (o + w1.length + k.length + w2.length + 1 + w3.length) ++
          (.valB, o + w1.length + k.length + w2.length + 1 + w3.length) :: (.objB, a) :: K) false
          (o + w1.length + k.length + w2.length + 1 + w3.length + v.render.length) (c0 :: CS) cx4 al4) := h4
    cases ms with
    | nil =>
      simp only [List.isEmpty_nil, if_true, List.nil_append, renderMembers] at hat4
      obtain ⟨al5, h5⟩ := close_rbrace hp v.isLit _ _ a K w4 hw4 _ c0 CS cx4 al4 hat4
      refine ⟨al5, (Steps.trans (Steps.trans (Steps.trans (Steps.trans h1 h2) h3) h4') h5).cast ?_ (cfg_congr rfl ?_)⟩
      · cases v <;> simp [evsMembers, evsOpen, schemaEvsAt, closersOf, Tree.isLit, Tree.render, CK.E]
      · simp only [renderMembers, List.isEmpty_nil, if_true, List.length_append, List.length_cons, List.length_nil]
        omega
    | cons m ms' =>
      simp only [List.isEmpty_cons, Bool.false_eq_true, if_false] at hat4
      rw [← List.append_assoc, At_append] at hat4
      obtain ⟨hat4, hat5⟩ := hat4
      obtain ⟨al5, h5⟩ := close_sep hp v.isLit .val _ _ ((.objB, a) :: K) w4 hw4 _ (c0 :: CS) cx4 al4 hat4
      simp only [List.length_append, List.length_cons, List.length_nil] at hat5
      obtain ⟨al6, h6⟩ := members_run (m :: ms') hms false (by simp) a K
        (o + w1.length + k.length + w2.length + 1 + w3.length + v.render.length + w4.length + 1) (by
          rw [show o + w1.length + k.length + w2.length + 1 + w3.length + v.render.length + w4.length + 1
            = o + w1.length + k.length + w2.length + 1 + w3.length + v.render.length + (w4.length + (0 + 1)) by omega]
          exact hat5) c0 CS cx4 al5
      have h6' : Steps data (cfg .objKey [] ((.objB, a) :: K) false
          (o + w1.length + k.length + w2.length + 1 + w3.length + v.render.length + w4.length + 1)
          (c0 :: CS) cx4 al5) _ _ := h6
      refine ⟨al6, (Steps.trans (Steps.trans (Steps.trans (Steps.trans (Steps.trans h1 h2) h3) h4') h5) h6').cast ?_
        (cfg_congr rfl ?_)⟩
      · cases v <;> simp [evsMembers, evsOpen, schemaEvsAt, closersOf, Tree.isLit, Tree.render, CK.E]
      · simp only [renderMembers, List.isEmpty_cons, Bool.false_eq_true, if_false, List.length_append, List.length_cons,
          List.length_nil]
        omega
end

/-! ### the whole document -/

/-- the event stream of a rendered tree (fuel-free form) -/
theorem emits_of_tree (v : Tree) (hv : v.Valid) (ws0 ws1 : List Cls) (h0 : IsWs ws0) (h1 : IsWs ws1) :
    Emits (ws0 ++ (v.render ++ ws1)).toArray {}
      (nlEvs 0 ws0 ++ (schemaEvsAt ws0.length v ++ nlEvs (ws0.length + v.render.length) ws1)) := by
  have hat : At (ws0 ++ (v.render ++ ws1)).toArray 0 (ws0 ++ (v.render ++ ws1)) :=
    At_toArray _ [] _ rfl
  rw [At_append, At_append] at hat
  obtain ⟨hat0, hatv, hat1⟩ := hat
  have hinit : ({} : Sc) = cfg .foundRoot [] [] false 0 [] { ty := .initial } true := rfl
  rw [hinit]
  obtain ⟨al1, s1⟩ := ws_run ws0 h0 .foundRoot rfl [] 0 [] { ty := .initial } true hat0
  rw [wsSt_eq (by simp)] at s1
  obtain ⟨st, cx2, al2, hp, s2⟩ := value_run v hv .root [] (0 + ws0.length) hatv [] { ty := .initial } al1
  have s2' : Steps (ws0 ++ (v.render ++ ws1)).toArray (cfg .foundRoot [] [] false (0 + ws0.length) [] { ty := .initial } al1)
      (evsOpen (0 + ws0.length) v)
      (cfg st [] (pendOf v.isLit (0 + ws0.length)) false (0 + ws0.length + v.render.length) [] cx2 al2) := by
    have := s2
    simp only [VCtx.preEvs, VCtx.pre, List.nil_append, List.append_nil] at this
    exact this
  have s3 := close_root hp v.isLit (0 + ws0.length) ws1 h1 (0 + ws0.length + v.render.length) [] cx2 al2 hat1
    (by simp only [List.size_toArray, List.length_append]; omega)
  have := (Steps.trans s1 s2').emits s3
  have e : nlEvs 0 ws0 ++ evsOpen (0 + ws0.length) v ++
      (rootClosers v.isLit (0 + ws0.length) (0 + ws0.length + v.render.length - 1) ++
        nlEvs (0 + ws0.length + v.render.length) ws1)
      = nlEvs 0 ws0 ++ (schemaEvsAt ws0.length v ++ nlEvs (ws0.length + v.render.length) ws1) := by
    cases v <;> simp [evsOpen, schemaEvsAt, rootClosers, Tree.isLit, Tree.render]
  rw [e] at this
  exact this

/-! ### the fuel of `scanAll` suffices: at most three events per byte -/

theorem nlEvs_length : ∀ (o : Nat) (ws : List Cls), (nlEvs o ws).length ≤ ws.length
  | _, [] => Nat.le_refl _
  | o, c :: cs => by
    have := nlEvs_length (o + 1) cs
    simp only [nlEvs, List.length_append, List.length_cons]
    split <;> simp <;> omega

mutual
theorem evs_length : (v : Tree) → v.Valid → (o : Nat) → (schemaEvsAt o v).length ≤ 3 * v.render.length
  | .scalar tok, hv, o => by
    obtain ⟨c, tl, _, _, _, rfl, _⟩ : IsScalar tok := by simpa [Tree.Valid] using hv
    simp only [schemaEvsAt, Tree.render, List.length_cons, List.length_nil]
    omega
  | .arr ws0 items, hv, o => by
    obtain ⟨_, hi⟩ : IsWs ws0 ∧ ValidItems items := by simpa [Tree.Valid] using hv
    have h1 := nlEvs_length (o + 1) ws0
    have h2 := items_length items hi o (o + 1 + ws0.length)
    simp only [schemaEvsAt, Tree.render, List.length_cons, List.length_append]
    omega
  | .obj ws0 members, hv, o => by
    obtain ⟨_, hi⟩ : IsWs ws0 ∧ ValidMembers members := by simpa [Tree.Valid] using hv
    have h1 := nlEvs_length (o + 1) ws0
    have h2 := members_length members hi o (o + 1 + ws0.length)
    simp only [schemaEvsAt, Tree.render, List.length_cons, List.length_append]
    omega
theorem items_length : (its : List (List Cls × Tree × List Cls)) → ValidItems its → (a o : Nat) →
    (evsItems a o its).length ≤ 3 * (renderItems its).length
  | [], _, a, o => by simp [evsItems, renderItems]
  | (w1, v, w2) :: its, hv, a, o => by
    obtain ⟨_, hvv, _, hits⟩ : IsWs w1 ∧ v.Valid ∧ IsWs w2 ∧ ValidItems its := by simpa [ValidItems] using hv
    have h1 := nlEvs_length o w1
    have h2 := nlEvs_length (o + w1.length + v.render.length) w2
    have h3 := evs_length v hvv (o + w1.length)
    cases its with
    | nil =>
      simp only [evsItems, renderItems, List.length_cons, List.length_append, List.length_nil, List.isEmpty_nil, if_true]
      omega
    | cons it its' =>
      have h4 := items_length (it :: its') hits a (o + w1.length + v.render.length + w2.length + 1)
      simp only [evsItems, renderItems, List.length_cons, List.length_append, List.length_nil, List.isEmpty_cons,
        Bool.false_eq_true, if_false] at h4 ⊢
      omega
theorem members_length : (ms : List (List Cls × List Cls × List Cls × List Cls × Tree × List Cls)) → ValidMembers ms →
    (a o : Nat) → (evsMembers a o ms).length ≤ 3 * (renderMembers ms).length
  | [], _, a, o => by simp [evsMembers, renderMembers]
  | (w1, k, w2, w3, v, w4) :: ms, hv, a, o => by
    obtain ⟨_, _, _, _, hvv, _, hms⟩ :
        IsWs w1 ∧ IsKey k ∧ IsWs w2 ∧ IsWs w3 ∧ v.Valid ∧ IsWs w4 ∧ ValidMembers ms := by
      simpa [ValidMembers] using hv
    have h1 := nlEvs_length o w1
    have h2 := nlEvs_length (o + w1.length + k.length) w2
    have h3 := nlEvs_length (o + w1.length + k.length + w2.length + 1) w3
    have h4 := nlEvs_length (o + w1.length + k.length + w2.length + 1 + w3.length + v.render.length) w4
    have h5 := evs_length v hvv (o + w1.length + k.length + w2.length + 1 + w3.length)
    cases ms with
    | nil =>
      simp only [evsMembers, renderMembers, List.length_cons, List.length_append, List.length_nil, List.isEmpty_nil,
        if_true]
      omega
    | cons m ms' =>
      have h6 := members_length (m :: ms') hms a
        (o + w1.length + k.length + w2.length + 1 + w3.length + v.render.length + w4.length + 1)
      simp only [evsMembers, renderMembers, List.length_cons, List.length_append, List.length_nil, List.isEmpty_cons,
        Bool.false_eq_true, if_false] at h6 ⊢
      omega
end

/-- `events` on the class array, for any sufficient fuel -/
theorem events_of_tree (v : Tree) (hv : v.Valid) (ws0 ws1 : List Cls) (h0 : IsWs ws0) (h1 : IsWs ws1)
    (fuel : Nat) (hf : 3 * (ws0 ++ (v.render ++ ws1)).length < fuel) :
    events (ws0 ++ (v.render ++ ws1)).toArray fuel {} []
      = .ok (nlEvs 0 ws0 ++ (schemaEvsAt ws0.length v ++ nlEvs (ws0.length + v.render.length) ws1)) := by
  have h := events_of_emits (emits_of_tree v hv ws0 ws1 h0 h1) fuel [] (by
    have a := nlEvs_length 0 ws0
    have b := nlEvs_length (ws0.length + v.render.length) ws1
    have c := evs_length v hv ws0.length
    simp only [List.length_append] at hf ⊢
    omega)
  simpa using h

/-- **C06 / C13 / C16 (schema scanner)**: a plain-JSON schema text — any value tree, any nesting and width, layout of
spaces, tabs and line breaks — is scanned into exactly the events of the tree (types, order, spans), plus one
`newLine` event per line break outside tokens; `scanAll`'s fuel suffices. -/
theorem C06_schema_events_of_tree (v : Tree) (hv : v.Valid) (ws0 ws1 : List Cls) (h0 : IsWs ws0) (h1 : IsWs ws1)
    (bs : List UInt8) (hbs : bs.map classify = ws0 ++ (v.render ++ ws1)) :
    scanAll bs
      = .ok (nlEvs 0 ws0 ++ (schemaEvsAt ws0.length v ++ nlEvs (ws0.length + v.render.length) ws1)) := by
  unfold scanAll
  simp only [hbs]
  exact events_of_tree v hv ws0 ws1 h0 h1 _ (by simp only [List.size_toArray]; omega)

#print axioms C06_schema_events_of_tree

/-! ### the JSON token grammar (numbers without exponent) produces tokens of the scanner's automaton -/

theorem silentRun_append (st : St) (r : List St) (unf : Bool) (xs ys : List Cls) (st' : St) (r' : List St) (unf' : Bool)
    (h : silentRun st r unf xs = some (st', r', unf')) :
    silentRun st r unf (xs ++ ys) = silentRun st' r' unf' ys := by
  induction xs generalizing st r unf with
  | nil => simp [silentRun] at h; obtain ⟨rfl, rfl, rfl⟩ := h; rfl
  | cons c cs ih =>
    simp only [silentRun, List.cons_append] at h ⊢
    cases hs : silent st r unf c with
    | none => rw [hs] at h; simp at h
    | some p => obtain ⟨a, b, d⟩ := p; rw [hs] at h; simp only [] at h ⊢; exact ih a b d h

/-- bytes that may stand unescaped in a string: everything but `"`, `\` and bytes below 0x20 -/
def Cls.isPlainStr : Cls → Bool
  | .quote | .bslash | .tab | .nl | .ctrl => false
  | _ => true
def Cls.isSimpleEsc : Cls → Bool
  | .lb | .lf | .ln | .lr | .lt | .bslash | .slash | .quote => true
  | _ => false

/-- the `*char` of the JSON string grammar, on byte classes -/
inductive StrBody : List Cls → Prop
  | nil : StrBody []
  | plain (c : Cls) (b : List Cls) : c.isPlainStr = true → StrBody b → StrBody (c :: b)
  | esc (c : Cls) (b : List Cls) : c.isSimpleEsc = true → StrBody b → StrBody (.bslash :: c :: b)
  | uni (h1 h2 h3 h4 : Cls) (b : List Cls) : h1.isHex = true → h2.isHex = true → h3.isHex = true → h4.isHex = true →
      StrBody b → StrBody (.bslash :: .lu :: h1 :: h2 :: h3 :: h4 :: b)

theorem strBody_run (b : List Cls) (hb : StrBody b) (u : Bool) :
    silentRun .inString [] u (b ++ [.quote]) = some (.endValue, [], false) := by
  induction hb with
  | nil => rfl
  | plain c b hc _ ih =>
    have : silent .inString [] u c = some (.inString, [], u) := by cases c <;> simp [Cls.isPlainStr] at hc <;> rfl
    simp only [List.cons_append, silentRun, this]; exact ih
  | esc c b hc _ ih =>
    have : silent .esc [] u c = some (.inString, [], u) := by cases c <;> simp [Cls.isSimpleEsc] at hc <;> rfl
    have e1 : silent .inString [] u .bslash = some (.esc, [], u) := rfl
    simp only [List.cons_append, silentRun, e1, this]; exact ih
  | uni h1 h2 h3 h4 b e1 e2 e3 e4 _ ih =>
    have s0 : silent .inString [] u .bslash = some (.esc, [], u) := rfl
    have s1 : silent .esc [] u .lu = some (.u0, [.inString], u) := rfl
    have s2 : silent .u0 [.inString] u h1 = some (.u1, [.inString], u) := by simp [silent, e1]
    have s3 : silent .u1 [.inString] u h2 = some (.u2, [.inString], u) := by simp [silent, e2]
    have s4 : silent .u2 [.inString] u h3 = some (.u3, [.inString], u) := by simp [silent, e3]
    have s5 : silent .u3 [.inString] u h4 = some (.inString, [], u) := by simp [silent, e4]
    simp only [List.cons_append, silentRun, s0, s1, s2, s3, s4, s5]; exact ih

theorem string_isScalar (b : List Cls) (hb : StrBody b) : IsScalar (.quote :: (b ++ [.quote])) :=
  ⟨.quote, b ++ [.quote], .inString, true, .endValue, rfl, rfl, strBody_run b hb true, rfl⟩

theorem string_isKey (b : List Cls) (hb : StrBody b) : IsKey (.quote :: (b ++ [.quote])) :=
  ⟨b ++ [.quote], rfl, strBody_run b hb false⟩

theorem true_isScalar : IsScalar [.lt, .lr, .lu, .le] := ⟨.lt, _, .t, true, .endValue, rfl, rfl, rfl, rfl⟩
theorem false_isScalar : IsScalar [.lf, .la, .ll, .ls, .le] := ⟨.lf, _, .f, true, .endValue, rfl, rfl, rfl, rfl⟩
theorem null_isScalar : IsScalar [.ln, .lu, .ll, .ll] := ⟨.ln, _, .n, true, .endValue, rfl, rfl, rfl, rfl⟩

def IsDigits (ds : List Cls) : Prop := ∀ c ∈ ds, c.isDigit = true

theorem digits_run (st : St) (hst : st = .d1 ∨ st = .dot0) (ds : List Cls) (hd : IsDigits ds) :
    silentRun st [] false ds = some (st, [], false) := by
  induction ds with
  | nil => rfl
  | cons c cs ih =>
    have hc := hd c (by simp)
    have : silent st [] false c = some (st, [], false) := by
      rcases hst with rfl | rfl <;> cases c <;> simp [Cls.isDigit] at hc <;> rfl
    simp only [silentRun, this]; exact ih (fun x hx => hd x (by simp [hx]))

/-- JSON number without exponent (the schema scanner rejects exponents): `[-] int [frac]`, on byte classes -/
structure NumTok where
  neg : Bool
  int : List Cls                      -- `0` or a non-zero digit followed by digits
  frac : Option (Cls × List Cls)      -- first digit and the rest

def NumTok.tail (t : NumTok) : List Cls :=
  match t.frac with | none => [] | some (d, ds) => .dot :: d :: ds

def NumTok.render (t : NumTok) : List Cls :=
  (if t.neg then [.minus] else []) ++ t.int ++ t.tail

structure NumTok.WF (t : NumTok) : Prop where
  int : t.int = [.zero] ∨ ∃ ds, t.int = .d19 :: ds ∧ IsDigits ds
  frac : ∀ d ds, t.frac = some (d, ds) → d.isDigit = true ∧ IsDigits ds

theorem frac_run (s : St) (hs : s = .d0 ∨ s = .d1) (d : Cls) (ds : List Cls) (hd : d.isDigit = true)
    (hds : IsDigits ds) : silentRun s [] false (.dot :: d :: ds) = some (.dot0, [], false) := by
  have a : silent s [] false .dot = some (.dot, [], true) := by rcases hs with rfl | rfl <;> rfl
  have b : silent .dot [] true d = some (.dot0, [], false) := by cases d <;> simp [Cls.isDigit] at hd <;> rfl
  simp only [silentRun, a, b]
  exact digits_run .dot0 (Or.inr rfl) ds hds

theorem tail_run (t : NumTok) (wf : t.WF) (s : St) (hs : s = .d0 ∨ s = .d1) :
    ∃ sE, PV sE = true ∧ silentRun s [] false t.tail = some (sE, [], false) := by
  obtain ⟨neg, int, frac⟩ := t
  have hf := wf.frac
  simp only [NumTok.tail] at *
  cases frac with
  | none => exact ⟨s, by rcases hs with rfl | rfl <;> rfl, rfl⟩
  | some p =>
    obtain ⟨fd, fds⟩ := p
    obtain ⟨g1, g2⟩ := hf fd fds rfl
    exact ⟨.dot0, rfl, frac_run s hs fd fds g1 g2⟩

theorem number_isScalar (t : NumTok) (wf : t.WF) : IsScalar t.render := by
  unfold NumTok.render
  rcases wf.int with hz | ⟨ds, hi, hds⟩
  · obtain ⟨sE, hp, hrun⟩ := tail_run t wf .d0 (Or.inl rfl)
    rw [hz]
    cases t.neg
    · exact ⟨.zero, t.tail, .d0, false, sE, by simp, rfl, hrun, hp⟩
    · refine ⟨.minus, .zero :: t.tail, .neg, true, sE, by simp, rfl, ?_, hp⟩
      have a : silent .neg [] true .zero = some (.d0, [], false) := rfl
      simp only [silentRun, a]; exact hrun
  · obtain ⟨sE, hp, hrun⟩ := tail_run t wf .d1 (Or.inr rfl)
    have hdig := digits_run .d1 (Or.inl rfl) ds hds
    rw [hi]
    cases t.neg
    · refine ⟨.d19, ds ++ t.tail, .d1, false, sE, by simp, rfl, ?_, hp⟩
      rw [silentRun_append _ _ _ _ _ _ _ _ hdig]; exact hrun
    · refine ⟨.minus, .d19 :: (ds ++ t.tail), .neg, true, sE, by simp, rfl, ?_, hp⟩
      have a : silent .neg [] true .d19 = some (.d1, [], false) := rfl
      simp only [silentRun, a]
      rw [silentRun_append _ _ _ _ _ _ _ _ hdig]; exact hrun

#print axioms number_isScalar

/-! ### trees whose tokens are given by the JSON grammar -/

/-- scalar tokens of the JSON grammar, numbers without exponent -/
inductive ScalarTok : List Cls → Prop
  | str (b : List Cls) : StrBody b → ScalarTok (.quote :: (b ++ [.quote]))
  | num (t : NumTok) : t.WF → ScalarTok t.render
  | true_ : ScalarTok [.lt, .lr, .lu, .le]
  | false_ : ScalarTok [.lf, .la, .ll, .ls, .le]
  | null_ : ScalarTok [.ln, .lu, .ll, .ll]

def KeyTok (k : List Cls) : Prop := ∃ b, StrBody b ∧ k = .quote :: (b ++ [.quote])

theorem ScalarTok.isScalar {tok : List Cls} (h : ScalarTok tok) : IsScalar tok := by
  cases h with
  | str b hb => exact string_isScalar b hb
  | num t wf => exact number_isScalar t wf
  | true_ => exact true_isScalar
  | false_ => exact false_isScalar
  | null_ => exact null_isScalar

theorem KeyTok.isKey {k : List Cls} (h : KeyTok k) : IsKey k := by
  obtain ⟨b, hb, rfl⟩ := h
  exact string_isKey b hb

mutual
/-- plain JSON text (grammar level): tokens by the JSON grammar, layout of spaces, tabs and line breaks -/
def Tree.Json : Tree → Prop
  | .scalar tok => ScalarTok tok
  | .arr ws0 items => IsWs ws0 ∧ JsonItems items
  | .obj ws0 members => IsWs ws0 ∧ JsonMembers members
def JsonItems : List (List Cls × Tree × List Cls) → Prop
  | [] => True
  | (w1, v, w2) :: its => IsWs w1 ∧ v.Json ∧ IsWs w2 ∧ JsonItems its
def JsonMembers : List (List Cls × List Cls × List Cls × List Cls × Tree × List Cls) → Prop
  | [] => True
  | (w1, k, w2, w3, v, w4) :: ms => IsWs w1 ∧ KeyTok k ∧ IsWs w2 ∧ IsWs w3 ∧ v.Json ∧ IsWs w4 ∧ JsonMembers ms
end

mutual
theorem Tree.Json.valid : (v : Tree) → v.Json → v.Valid
  | .scalar tok, h => by
    have h' : ScalarTok tok := by simpa [Tree.Json] using h
    simpa [Tree.Valid] using h'.isScalar
  | .arr ws0 items, h => by
    obtain ⟨h0, hi⟩ : IsWs ws0 ∧ JsonItems items := by simpa [Tree.Json] using h
    simpa [Tree.Valid] using And.intro h0 (JsonItems.valid items hi)
  | .obj ws0 members, h => by
    obtain ⟨h0, hi⟩ : IsWs ws0 ∧ JsonMembers members := by simpa [Tree.Json] using h
    simpa [Tree.Valid] using And.intro h0 (JsonMembers.valid members hi)
theorem JsonItems.valid : (its : List (List Cls × Tree × List Cls)) → JsonItems its → ValidItems its
  | [], _ => by simp [ValidItems]
  | (w1, v, w2) :: its, h => by
    obtain ⟨h1, hv, h2, hr⟩ : IsWs w1 ∧ v.Json ∧ IsWs w2 ∧ JsonItems its := by simpa [JsonItems] using h
    simpa [ValidItems] using And.intro h1 (And.intro (Tree.Json.valid v hv) (And.intro h2 (JsonItems.valid its hr)))
theorem JsonMembers.valid : (ms : List (List Cls × List Cls × List Cls × List Cls × Tree × List Cls)) →
    JsonMembers ms → ValidMembers ms
  | [], _ => by simp [ValidMembers]
  | (w1, k, w2, w3, v, w4) :: ms, h => by
    obtain ⟨h1, hk, h2, h3, hv, h4, hr⟩ :
        IsWs w1 ∧ KeyTok k ∧ IsWs w2 ∧ IsWs w3 ∧ v.Json ∧ IsWs w4 ∧ JsonMembers ms := by simpa [JsonMembers] using h
    simpa [ValidMembers] using And.intro h1 (And.intro hk.isKey (And.intro h2 (And.intro h3
      (And.intro (Tree.Json.valid v hv) (And.intro h4 (JsonMembers.valid ms hr))))))
end

/-- the theorem for trees given by the JSON grammar -/
theorem C06_schema_events_of_json_text (v : Tree) (hv : v.Json) (ws0 ws1 : List Cls) (h0 : IsWs ws0) (h1 : IsWs ws1)
    (bs : List UInt8) (hbs : bs.map classify = ws0 ++ (v.render ++ ws1)) :
    scanAll bs
      = .ok (nlEvs 0 ws0 ++ (schemaEvsAt ws0.length v ++ nlEvs (ws0.length + v.render.length) ws1)) :=
  C06_schema_events_of_tree v (Tree.Json.valid v hv) ws0 ws1 h0 h1 bs hbs

/-! ### non-vacuity: a schema text with line breaks, tabs, nesting, escapes -/

/-- the bytes of ` {⏎"a\\n" :⏎ [1, true,␍⏎⇥-0.50 ] ,⏎⏎ "\\u00e9": { }⏎}⏎ ` -/
def sampleBytes : List UInt8 :=
  [32, 123, 10, 34, 97, 92, 110, 34, 32, 58, 10, 32, 91, 49, 44, 32, 116, 114, 117, 101, 44, 13, 10, 9, 45, 48, 46, 53, 48, 32, 93, 32, 44, 10, 10, 32, 34, 92, 117, 48, 48, 101, 57, 34, 58, 32, 123, 32, 125, 10, 125, 10, 32]

def sampleTree : Tree :=
  .obj [.nl] [
    ([], [.quote, .la, .bslash, .ln, .quote], [.sp], [.nl, .sp],
      .arr [] [([], .scalar [.d19], []), ([.sp], .scalar [.lt, .lr, .lu, .le], []),
               ([.nl, .nl, .tab], .scalar [.minus, .zero, .dot, .d19, .zero], [.sp])], [.sp]),
    ([.nl, .nl, .sp], [.quote, .bslash, .lu, .zero, .zero, .le, .d19, .quote], [], [.sp], .obj [.sp] [], [.nl])]

theorem sampleTree_valid : sampleTree.Valid := by
  have k1 : IsKey [.quote, .la, .bslash, .ln, .quote] :=
    string_isKey [.la, .bslash, .ln] (.plain _ _ rfl (.esc _ _ rfl .nil))
  have k2 : IsKey [.quote, .bslash, .lu, .zero, .zero, .le, .d19, .quote] :=
    string_isKey [.bslash, .lu, .zero, .zero, .le, .d19] (.uni _ _ _ _ _ rfl rfl rfl rfl .nil)
  have n1 : IsScalar [.d19] := ⟨.d19, [], .d1, false, .d1, rfl, rfl, rfl, rfl⟩
  have n2 : IsScalar [.minus, .zero, .dot, .d19, .zero] :=
    number_isScalar ⟨true, [.zero], some (.d19, [.zero])⟩
      ⟨Or.inl rfl, by intro d ds h; cases h; exact ⟨rfl, by simp [IsDigits, Cls.isDigit]⟩⟩
  simp [sampleTree, Tree.Valid, ValidMembers, ValidItems, IsWs, Cls.isBlank, Cls.isSpace, Cls.isNewLine,
    k1, k2, n1, n2, true_isScalar]

theorem sample_classes : sampleBytes.map classify = [.sp] ++ (sampleTree.render ++ [.nl, .sp]) := by
  decide

/-- the general theorem, instantiated -/
theorem sample_events : scanAll sampleBytes
    = .ok (nlEvs 0 [.sp] ++ (schemaEvsAt 1 sampleTree ++ nlEvs (1 + sampleTree.render.length) [.nl, .sp])) :=
  C06_schema_events_of_tree sampleTree sampleTree_valid [.sp] [.nl, .sp]
    (by simp [IsWs, Cls.isBlank, Cls.isSpace]) (by simp [IsWs, Cls.isBlank, Cls.isSpace, Cls.isNewLine]) _ sample_classes

#eval showEvents (scanAll sampleBytes)
#eval showEvents (.ok (nlEvs 0 [.sp] ++ (schemaEvsAt 1 sampleTree ++ nlEvs (1 + sampleTree.render.length) [.nl, .sp])))
end SchemaScan
