import JSight.LoaderTree
/-!
C09 / C16 (loader part): what the loader model does on the four events of a TYPE SHORTCUT in value position
(`mixed-value-begin`, `types-shortcut-begin`, `types-shortcut-end`, `mixed-value-end`): the mixed node is created (as the
root, or as the child of the array / object that waits for a value), `types-shortcut-end` adds the synthesised rule
(`type` for `@A`, `or` for `@A | @B`) with the shortcut's span as its value to the node created last, and
`mixed-value-end` records the value span.
-/
namespace Loader
open SchemaScan (Ev LexT)

/-- the rule the loader synthesises for the shortcut whose `types-shortcut-end` lexeme is `[b:e]` -/
def shortRule (src : Array UInt8) (b e : Nat) : String := if hasPipe (slice src b e) then "or" else "type"

/-- the node of a shortcut: `[o:e]` the `types-shortcut-end` lexeme, `[o:e']` the `mixed-value-end` lexeme -/
def shortNode (par : Option Nat) (o e e' : Nat) (nm : String) : Node :=
  { kind := .mixed, parent := par, value := some (o, e'), rules := [.inr nm], ruleVals := [some (o, e)] }

/-- the node after `types-shortcut-end` -/
def withShortRule (m : Node) (nm : String) (v : Nat × Nat) : Node :=
  { m with rules := m.rules ++ [.inr nm], ruleVals := m.ruleVals ++ [some v] }

theorem step_mixB_via_grow (src : Array UInt8) (st : St) (x y i : Nat) (hm : st.mode = .default)
    (hl : st.leaf = some i) (st1 : St) (leaf' : Option Nat) (isNew : Bool)
    (hg : grow src st i ⟨.mixB, x, y⟩ = .ok (st1, leaf', isNew)) :
    step src st ⟨.mixB, x, y⟩ = .ok (if isNew then { st1 with leaf := leaf', perLine := st1.perLine + 1, last := leaf' }
        else { st1 with leaf := leaf' }) := by
  simp only [step, hm, nodeLoad, hl, bind, Except.bind, hg]
  cases isNew <;> rfl

theorem step_mixE_via_grow (src : Array UInt8) (st : St) (x y i : Nat) (hm : st.mode = .default)
    (hl : st.leaf = some i) (st1 : St) (leaf' : Option Nat) (isNew : Bool)
    (hg : grow src st i ⟨.mixE, x, y⟩ = .ok (st1, leaf', isNew)) :
    step src st ⟨.mixE, x, y⟩ = .ok (if isNew then { st1 with leaf := leaf', perLine := st1.perLine + 1, last := leaf' }
        else { st1 with leaf := leaf' }) := by
  simp only [step, hm, nodeLoad, hl, bind, Except.bind, hg]
  cases isNew <;> rfl

/-- `mixed-value-begin` while the array / object `i` waits for a value: the mixed node is created -/
theorem short_create (src : Array UInt8) (x y i : Nat) (n : Node) (L : List Node) (r : Option Nat) (st : St)
    (hc : Core st L (some i) r) (hn : L[i]? = some n) (hk : n.kind = .arr ∨ n.kind = .obj) (hw : n.waiting = true) :
    ∃ st', step src st ⟨.mixB, x, y⟩ = .ok st' ∧
      Core st' (L.set i { n with waiting := false, children := n.children ++ [L.length] } ++ [fresh .mixed (some i)])
        (some L.length) r ∧ st'.last = some L.length := by
  obtain ⟨h1, h2, h3, h4⟩ := hc
  have hsz : st.nodes.size = L.length := by rw [← h1]; simp
  have hg := grow_create src st i n ⟨.mixB, x, y⟩ .mixed (by rw [getElem?_nodes, h1]; exact hn) hk hw rfl
  refine ⟨_, step_mixB_via_grow src st x y i h4 h2 _ _ _ hg, ⟨?_, by simp [hsz], h3, h4⟩, by simp [hsz]⟩
  obtain ⟨hlt, hget⟩ := List.getElem?_eq_some_iff.mp hn
  have e1 : (updNode st i (fun n => { n with waiting := false })).nodes.toList
      = L.set i { n with waiting := false } := by
    have := toList_updNode st i (fun n => { n with waiting := false }) n (by rw [h1]; exact hn)
    rw [h1] at this; exact this
  have e2 : (newNode (updNode st i (fun n => { n with waiting := false })) .mixed (some i)).1.nodes.toList
      = L.set i { n with waiting := false } ++ [fresh .mixed (some i)] := by
    simp only [newNode, Array.toList_push, e1]; rfl
  have e3 := toList_updNode (newNode (updNode st i (fun n => { n with waiting := false })) .mixed (some i)).1 i
    (fun m => { m with children := m.children ++ [st.nodes.size] }) { n with waiting := false }
    (by rw [e2, List.getElem?_append_left (by simp [hlt])]; simp [hlt])
  rw [if_pos rfl]
  simp only [] at e3 ⊢
  rw [e3, e2, List.set_append_left _ _ (by simp [hlt]), List.set_set, hsz]

/-- `mixed-value-begin` at the top level: the mixed node is the root -/
theorem short_create_root (src : Array UInt8) (x y : Nat) (L : List Node) (r : Option Nat) (st : St)
    (hc : Core st L none r) :
    ∃ st', step src st ⟨.mixB, x, y⟩ = .ok st' ∧
      Core st' (L ++ [fresh .mixed none]) (some L.length) (some L.length) ∧ st'.last = some L.length := by
  obtain ⟨h1, h2, h3, h4⟩ := hc
  have hsz : st.nodes.size = L.length := by rw [← h1]; simp
  refine ⟨rootSt st .mixed, ?_, ⟨by simp [rootSt, h1, fresh], by simp [rootSt, hsz], by simp [rootSt, hsz], h4⟩,
    by simp [rootSt, hsz]⟩
  cases st
  simp only at h2 h4
  subst h2 h4
  rfl

theorem step_tsB (src : Array UInt8) (st : St) (x y : Nat) (hm : st.mode = .default) :
    step src st ⟨.tsB, x, y⟩ = .ok st := by
  simp [step, hm]
  rfl

/-- `types-shortcut-end`: the node created last gets the synthesised rule -/
theorem short_tsE (src : Array UInt8) (x y c : Nat) (m : Node) (L : List Node) (l r : Option Nat) (st : St)
    (hc : Core st L l r) (hl : st.last = some c) (hn : L[c]? = some m) :
    ∃ st', step src st ⟨.tsE, x, y⟩ = .ok st' ∧ Core st' (L.set c (withShortRule m (shortRule src x y) (x, y))) l r := by
  obtain ⟨h1, h2, h3, h4⟩ := hc
  refine ⟨updNode st c (fun n => withShortRule n (shortRule src x y) (x, y)), ?_, ⟨?_, h2, h3, h4⟩⟩
  · simp [step, h4, hl]
    rfl
  · have := toList_updNode st c (fun n => withShortRule n (shortRule src x y) (x, y)) m (by rw [h1]; exact hn)
    rw [h1] at this
    exact this

theorem grow_mixed_mixE (src : Array UInt8) (st : St) (i : Nat) (n : Node) (x y : Nat)
    (h : st.nodes[i]? = some n) (hk : n.kind = .mixed) :
    grow src st i ⟨.mixE, x, y⟩ = .ok (updNode st i (fun n => { n with value := some (x, y) }), n.parent, false) := by
  unfold grow
  rw [h]
  simp only [hk]
  rfl

theorem R_mixE (src : Array UInt8) (x y i : Nat) (n : Node) (L : List Node) (r : Option Nat)
    (hn : L[i]? = some n) (hk : n.kind = .mixed) :
    Run src [⟨.mixE, x, y⟩] L (some i) r (L.set i { n with value := some (x, y) }) n.parent r := by
  refine Run.one fun st ⟨h1, h2, h3, h4⟩ => ?_
  have hg := grow_mixed_mixE src st i n x y (by rw [getElem?_nodes, h1]; exact hn) hk
  refine ⟨_, step_mixE_via_grow src st x y i h4 h2 _ _ _ hg, ?_, rfl, h3, h4⟩
  have := toList_updNode st i (fun n => { n with value := some (x, y) }) n (by rw [h1]; exact hn)
  rw [h1] at this
  exact this

theorem set_last' {α : Type} (A : List α) (k : Nat) (hk : k = A.length) (x y : α) : (A ++ [x]).set k y = A ++ [y] := by
  subst hk; exact set_last A x y

theorem getElem?_last' {α : Type} (A : List α) (k : Nat) (hk : k = A.length) (x : α) : (A ++ [x])[k]? = some x := by
  subst hk; simp

/-- the three events behind `mixed-value-begin`, on the node it created (which is the node created last) -/
theorem short_rest (src : Array UInt8) (o e e' : Nat) (A : List Node) (par : Option Nat) (k : Nat) (hk : k = A.length)
    (r : Option Nat) (st : St) (hc : Core st (A ++ [fresh .mixed par]) (some k) r) (hl : st.last = some k) :
    ∃ st', [⟨.tsB, o, o⟩, ⟨.tsE, o, e⟩, (⟨.mixE, o, e'⟩ : Ev)].foldlM (step src) st = .ok st' ∧
      Core st' (A ++ [shortNode par o e e' (shortRule src o e)]) par r := by
  have e2 := step_tsB src st o o hc.2.2.2
  obtain ⟨st3, e3, c3⟩ := short_tsE src o e k (fresh .mixed par) _ (some k) r st hc hl (getElem?_last' A k hk _)
  rw [set_last' A k hk] at c3
  obtain ⟨st4, e4, c4⟩ := R_mixE src o e' k _ _ r (getElem?_last' A k hk _) rfl st3 c3
  rw [set_last' A k hk] at c4
  refine ⟨st4, ?_, c4⟩
  simp only [List.foldlM_cons, List.foldlM_nil, bind, Except.bind, pure, Except.pure, e2, e3] at e4 ⊢
  exact e4

/-- **a shortcut as an item / a member value**: the four events, from the array / object `i` that waits for a value -/
theorem short_nested_run (src : Array UInt8) (o e e' i : Nat) (n : Node) (L : List Node) (r : Option Nat)
    (hn : L[i]? = some n) (hk : n.kind = .arr ∨ n.kind = .obj) (hw : n.waiting = true) :
    Run src [⟨.mixB, o, o⟩, ⟨.tsB, o, o⟩, ⟨.tsE, o, e⟩, ⟨.mixE, o, e'⟩] L (some i) r
      (L.set i { n with waiting := false, children := n.children ++ [L.length] } ++
        [shortNode (some i) o e e' (shortRule src o e)]) (some i) r := by
  intro st hc
  obtain ⟨st1, e1, c1, l1⟩ := short_create src o o i n L r st hc hn hk hw
  obtain ⟨st4, e4, c4⟩ := short_rest src o e e' _ (some i) L.length (by simp) r st1 c1 l1
  refine ⟨st4, ?_, c4⟩
  simp only [List.foldlM_cons, bind, Except.bind, e1]
  exact e4

/-- **a shortcut as the root** -/
theorem short_root_run (src : Array UInt8) (o e e' : Nat) :
    Run src [⟨.mixB, o, o⟩, ⟨.tsB, o, o⟩, ⟨.tsE, o, e⟩, ⟨.mixE, o, e'⟩] [] none none
      [shortNode none o e e' (shortRule src o e)] none (some 0) := by
  intro st hc
  obtain ⟨st1, e1, c1, l1⟩ := short_create_root src o o [] none st hc
  obtain ⟨st4, e4, c4⟩ := short_rest src o e e' [] none 0 rfl (some 0) st1 c1 l1
  refine ⟨st4, ?_, c4⟩
  simp only [List.foldlM_cons, bind, Except.bind, e1]
  exact e4

end Loader
