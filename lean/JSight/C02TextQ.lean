import JSight.AnnotQThm
/-!
C02 at TEXT level, third part — the EXTENDED grammar (`Lay.GObj`: quoted rule names, list values) through the whole
pipeline: `loadSchema_gannot` (scanner model → loader model → creation → `compileNode` on `gannText` = the literal node
`compiledOf` of the pairs (decoded name, value text)), `docOut_scalar`, `text_is_closed_extended`.
-/
namespace C02T
open Compile Lay SchemaScan

theorem others_erase (l : List Rule) (allowed : List String) : others (l.map erase) allowed = others l allowed := by
  simp only [others, List.filter_map, List.length_map]
  rfl

theorem okBasicRE_erase (rs : List Rule) (jt : JT) : okBasicRE (rs.map erase) jt = okBasicRE rs jt := by
  simp only [okBasicRE, filt_erase, hasRule_erase, findRule_erase, others_erase, minMaxOK_erase, lenOK_erase,
    List.any_map]
  cases findRule (filt rs) "type" <;> rfl

/-- **loading half, extended grammar** -/
theorem loadSchema_gannot (a : Ann) (ha : a.isAnn = true) (tok s1 s2 : List UInt8) (ob : GObj) (s3 tl : List UInt8)
    (hv : GAnnValid a tok s1 s2 ob s3 tl) (he : ob.listsEmb) (hok : okRulesE tok ob.pairs = true) :
    E2E.loadSchema (gannText a tok s1 s2 ob s3 tl) false
      = .ok (some (.lit (compiledOf tok (mk ob.pairs)) false)) := by
  simp only [okRulesE, Bool.and_eq_true, Bool.or_eq_true] at hok
  obtain ⟨⟨hk, hc⟩, hb⟩ := hok
  obtain ⟨k, hk⟩ := Option.isSome_iff_exists.mp hk
  have hko : kindOf tok = k := by simp [kindOf, hk]
  rw [hko] at hb
  obtain ⟨st, rs, hload, hr, htbl, hrules, _⟩ := load_gannot a ha tok s1 s2 ob s3 tl hv he
  have hcr : creation [node tok rs] = .ok () := by
    simp only [creation, List.foldl_cons, List.foldl_nil, node]
    apply createRules_ok_of_erase
    rw [hrules]
    exact hc
  have hbas : basic (node tok rs) (JT.ofKind k) false 0
      = .ok (⟨none, hasRule (filt rs) "nullable", false, none, false, .absent, litsOf (filt rs), false⟩ : Basic) := by
    rcases hb with hb | hb
    · exact basic_ok tok rs (JT.ofKind k) (by rw [← okBasicR_erase, hrules]; exact hb)
    · exact basic_ok_enum tok rs k (by rw [← okBasicRE_erase, hrules]; exact hb)
  have hcomp : compileNode #[node tok rs] false 2 0 false = .ok (.lit (compiledOf tok rs) false, none) := by
    simp only [node] at hbas
    simp only [compileNode, node, List.getElem?_toArray, List.getElem?_cons_zero, jtOf, hk, List.length_nil, hbas,
      Option.getD_some, compiledOf, kindOf]
    rfl
  unfold E2E.loadSchema
  rw [E2E.loadTextP_of_ok _ st hload]
  simp only [htbl, hcr, hr, List.length_cons, List.length_nil]
  rw [show [node tok rs].toArray = #[node tok rs] from rfl, hcomp, ← compiledOf_erase, hrules]

/-- `Validate` on a document that is one scalar token with white space around it, against one literal node -/
theorem docOut_scalar (spec : RulesF.LitSpecF) (d ws0 ws1 : List UInt8)
    (hd : JsonScan.IsScalar (d.map JsonScan.classify))
    (hw0 : JsonScan.IsWs (ws0.map JsonScan.classify)) (hw1 : JsonScan.IsWs (ws1.map JsonScan.classify)) :
    docOut (.node spec) (ws0 ++ (d ++ ws1)) = if RulesF.litOKFull noOracles spec d then .acc else .rej := by
  obtain ⟨evs, he, hde⟩ := E2E.doc_events (.scalar d) (by simpa [VPos.toJA, JsonScan.JA.Valid] using hd) ws0 ws1 hw0 hw1
  simp only [VPos.T.render] at he hde
  have hne : (VN.evs (E2E.docOf (.scalar d))).isEmpty = false := by
    cases h : VN.evs (E2E.docOf (.scalar d)) with
    | nil => exact absurd h (VK.evs_ne_nil _)
    | cons _ _ => rfl
  have halts : VK.alts ([] : VK.Env Lit) (.lit (.node spec)) = [.lit (.node spec)] := rfl
  unfold docOut
  simp only [he, hde, hne, Bool.false_eq_true, if_false, E2E.validateEvs_eq, VK.C03_key_shortcuts, VK.shape, halts,
    List.any_cons, E2E.docOf, VPos.strip, VK.shapeA, litOK]
  simp [VN.evs]

/-- **the text pipeline is the closed form, extended grammar** (list values under `or` / `enum` / `allOf`) -/
theorem text_is_closed_gannot (a : Ann) (ha : a.isAnn = true) (tok s1 s2 : List UInt8) (ob : GObj) (s3 tl : List UInt8)
    (hv : GAnnValid a tok s1 s2 ob s3 tl) (he : ob.listsEmb) (hok : okRulesE tok ob.pairs = true)
    (d ws0 ws1 : List UInt8) (hd : JsonScan.IsScalar (d.map JsonScan.classify))
    (hw0 : JsonScan.IsWs (ws0.map JsonScan.classify)) (hw1 : JsonScan.IsWs (ws1.map JsonScan.classify)) :
    E2E.validateText (gannText a tok s1 s2 ob s3 tl) [] (ws0 ++ (d ++ ws1)) = closed tok ob.pairs d := by
  have hE := hok
  simp only [okRulesE, Bool.and_eq_true, Bool.or_eq_true] at hE
  have hstd : ∀ r ∈ (compiledOf tok (mk ob.pairs)).rules, usesStd r = false := by
    rcases hE.2 with hb | hb
    · exact compiled_noStd tok ob.pairs (by simp [okRules, okBasic, hE.1.1, hE.1.2, hb])
    · exact compiled_noStd_enum tok ob.pairs _ hb
  rw [closed_spec noOracles tok ob.pairs hok hstd d,
    validateText_lit _ _ (loadSchema_gannot a ha tok s1 s2 ob s3 tl hv he hok), compiledOf_ex]
  cases hle : litErr (compiledOf tok (mk ob.pairs)) tok with
  | some c => rfl
  | none =>
    simp only []
    rw [docOut_scalar _ d ws0 ws1 hd hw0 hw1, spec_eq_compiled noOracles tok ob.pairs (facts_of_okCreate hE.1.2)]

end C02T
