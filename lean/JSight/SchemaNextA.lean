import JSight.SchemaNext
/-! `next` before the end of input, assuming the frame property `DispatchQ` of `dispatch`. -/
namespace SchemaScan

theorem St.cflag_le (st : St) : st.cflag ≤ 1 := by
  induction st <;> simp_all [St.cflag]

/-- potential: bounds the number of events still to come before the end of input -/
def Phi (N : Nat) (s : Sc) : Nat := 8 * (N + 1 - s.index) + s.finds.length + s.step.cflag

/-- frame property of one `dispatch`: the index stays (or skips the two `#` of `###`), at most 6
lexemes are queued; or a comment ends at a line break, which is queued and read again -/
def Q (s : Sc) (p2 : Option Cls) (s' : Sc) : Prop :=
  ((s'.index = s.index ∨ (s'.index = s.index + 2 ∧ p2.isSome = true)) ∧
      s'.finds.length ≤ s.finds.length + 6) ∨
  (s'.index + 1 = s.index ∧ s'.finds.length = s.finds.length + 1 ∧ s.step.cflag = 1 ∧ s'.step.cflag = 0)

def DispatchQ : Prop :=
  ∀ (s : Sc) (c : Cls) (p1 p2 : Option Cls) (s' : Sc), Inv s → s.finds = [] → 1 ≤ s.index →
    dispatch 8 s.step s c p1 p2 = .ok s' → Q s p2 s'

theorem Inv.eof_facts {s : Sc} (h : Inv s) (hf : s.finds = []) :
    TsOK (s.stack.map (·.1)) ∧ eofLen (s.stack.map (·.1)) ≤ 2 := by
  obtain ⟨eff, hE, hG⟩ := h
  rw [hE.stack_eq hf]
  exact ⟨hG.tsOK, hG.eofLen_le⟩

theorem next_A (hQ : DispatchQ) {data : Array Cls} : ∀ (fuel : Nat) (s : Sc), Inv s →
    s.index ≤ data.size → data.size + 1 - s.index ≤ fuel →
    NPost (fun s' => (Inv s' ∧ s'.index ≤ data.size ∧ Phi data.size s' < Phi data.size s) ∨
      (PB data.size s' ∧ muB s'.finds (s'.stack.map (·.1)) < 2)) (next data fuel s) := by
  intro fuel
  induction fuel with
  | zero => intro s _ h1 h2; omega
  | succ fuel ih =>
    intro s hI hidx hfuel
    cases hfs : s.finds with
    | cons t rest =>
      obtain ⟨stk, e, hp, hI'⟩ := shiftFound_cons data hI hfs
      unfold next
      simp only [bind, Except.bind, pure, Except.pure, hp]
      refine Or.inl ⟨hI', hidx, ?_⟩
      show 8 * (data.size + 1 - s.index) + rest.length + s.step.cflag <
        8 * (data.size + 1 - s.index) + s.finds.length + s.step.cflag
      rw [hfs]; simp
    | nil =>
      by_cases hlt : s.index < data.size
      · -- one more byte
        have hI2 : Inv { s with index := s.index + 1 } := hI
        have hd := dispatch_ok (f := 4) (c := data[s.index]!) (p1 := data[s.index + 1]?)
          (p2 := data[s.index + 1 + 1]?) hI2 hfs
        unfold next
        simp only [bind, Except.bind, pure, Except.pure, shiftFound_nil data hfs, hlt, ↓reduceIte]
        cases hdisp : dispatch 8 s.step { s with index := s.index + 1 } data[s.index]!
            data[s.index + 1]? data[s.index + 1 + 1]? with
        | error e =>
          have hd' : OKRes Inv (dispatch 8 s.step { s with index := s.index + 1 } data[s.index]!
            data[s.index + 1]? data[s.index + 1 + 1]?) := hd
          rw [hdisp] at hd'
          exact hd'
        | ok s3 =>
          have hd' : OKRes Inv (dispatch 8 s.step { s with index := s.index + 1 } data[s.index]!
            data[s.index + 1]? data[s.index + 1 + 1]?) := hd
          rw [hdisp] at hd'
          have hI3 : Inv s3 := hd'
          have hq : Q { s with index := s.index + 1 } data[s.index + 1 + 1]? s3 :=
            hQ _ _ _ _ _ hI2 hfs (Nat.le_add_left 1 s.index) hdisp
          have hp2 : (data[s.index + 1 + 1]?).isSome = true → s.index + 2 < data.size := by
            intro h
            rcases Option.isSome_iff_exists.mp h with ⟨a, ha⟩
            exact (Array.getElem?_eq_some_iff.mp ha).1
          have hc3 := s3.step.cflag_le
          dsimp only
          cases hfs3 : s3.finds with
          | cons t rest =>
            obtain ⟨stk, e, hp, hI4⟩ := shiftFound_cons data hI3 hfs3
            simp only [hp]
            refine Or.inl ⟨hI4, ?_, ?_⟩
            · show s3.index ≤ data.size
              rcases hq with ⟨h1 | ⟨h1, h2⟩, _⟩ | ⟨h1, _⟩
              · rw [h1]; show s.index + 1 ≤ _; omega
              · rw [h1]; have := hp2 h2; show s.index + 1 + 2 ≤ _; omega
              · have : s3.index + 1 = s.index + 1 := h1
                omega
            · show 8 * (data.size + 1 - s3.index) + rest.length + s3.step.cflag <
                8 * (data.size + 1 - s.index) + s.finds.length + s.step.cflag
              rw [hfs]
              rcases hq with ⟨h1, h3⟩ | ⟨h1, h3, h4, h5⟩
              · have h3' : s3.finds.length ≤ s.finds.length + 6 := h3
                rw [hfs3, hfs] at h3'
                simp only [List.length_cons, List.length_nil] at h3' ⊢
                have : s.index + 1 ≤ s3.index := by
                  rcases h1 with h1 | ⟨h1, _⟩
                  · rw [h1]; exact Nat.le_refl _
                  · rw [h1]; show s.index + 1 ≤ s.index + 1 + 2; omega
                omega
              · have h1' : s3.index + 1 = s.index + 1 := h1
                have h3' : s3.finds.length = s.finds.length + 1 := h3
                have h4' : s.step.cflag = 1 := h4
                rw [hfs3, hfs] at h3'
                simp only [List.length_cons, List.length_nil] at h3' ⊢
                omega
          | nil =>
            simp only [shiftFound_nil data hfs3]
            have hge : s.index + 1 ≤ s3.index ∧ s3.index ≤ data.size := by
              rcases hq with ⟨h1 | ⟨h1, h2⟩, _⟩ | ⟨_, h3, _⟩
              · rw [h1]; exact ⟨Nat.le_refl _, hlt⟩
              · rw [h1]; have := hp2 h2
                exact ⟨by show s.index + 1 ≤ s.index + 1 + 2; omega, by show s.index + 1 + 2 ≤ _; omega⟩
              · rw [hfs3] at h3; simp at h3
            have := ih s3 hI3 hge.2 (by omega)
            revert this
            cases next data fuel s3 with
            | error e => exact id
            | ok r =>
              cases r with
              | none => exact id
              | some r =>
                obtain ⟨s', e⟩ := r
                rintro (⟨h1, h2, h3⟩ | h)
                · refine Or.inl ⟨h1, h2, Nat.lt_of_lt_of_le h3 ?_⟩
                  show 8 * (data.size + 1 - s3.index) + s3.finds.length + s3.step.cflag ≤
                    8 * (data.size + 1 - s.index) + s.finds.length + s.step.cflag
                  rw [hfs3, hfs]
                  simp only [List.length_nil]
                  omega
                · exact Or.inr h
      · -- end of input
        obtain ⟨hT, hL⟩ := hI.eof_facts hfs
        have := eof_next (fuel := fuel) hfs hlt hT
        revert this
        cases next data (fuel + 1) s with
        | error e => exact id
        | ok r =>
          cases r with
          | none => exact id
          | some r =>
            obtain ⟨s', e⟩ := r
            rintro ⟨h1, h2⟩
            exact Or.inr ⟨h1, by omega⟩

end SchemaScan
