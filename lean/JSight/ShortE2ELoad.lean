import JSight.ShortE2ECompile
/-!
`E2E.loadSchema` on the text of a tree with shortcut leaves: the side conditions of the loader theorem in the tree's own
terms, `creation` on the resolved table, and the end-to-end statement `SE.loadSchema_stree`.
-/
namespace SE
open SchemaScan (Cls classify STree)
open SchemaScan.Len (Shortcut)
open Loader (Node slice keyText shortNode valOff)
open LoaderS (nodesOf nodesItems nodesMembers idxItems idxMembers keysMembers nextItem nextMember nodeCount
  countItems countMembers ruleOf KeysDistinct DistinctItems DistinctMembers)
open Lay (AtB AtB_append slice_tok keyText_tok scalar_ne key_ne)
open Compile

/-! ### the loader's side conditions -/

mutual
theorem distinct_of (src : Array UInt8) : (t : BST) → t.cls.Valid → t.sideOK = true → t.KeysNodup → (o : Nat) →
    AtB src o t.render → KeysDistinct src o t.cls
  | .scalar _, _, _, _, _, _ => by simp [BST.cls, KeysDistinct]
  | .short fi as sps, _, hg, _, o, hat => by
    simp only [BST.sideOK, shortOK, Bool.and_eq_true, beq_iff_eq] at hg
    simp only [BST.render] at hat
    have hsl : slice src o (o + ((clsSc fi as).render ++ clsB sps).length - 1) = scBytes fi as ++ sps := by
      rw [sc_length]
      exact slice_tok src _ o hat (by simp [scBytes])
    simp only [BST.cls, KeysDistinct]
    rw [hsl, hg.1]
    simp only [clsSc, clsAlts_isEmpty]
  | .arr w0 its, hv, hg, hk, o, hat => by
    obtain ⟨_, hi⟩ : SchemaScan.IsWs (clsB w0) ∧ SchemaScan.SValidItems (clsItems its) := by
      simpa [BST.cls, STree.Valid] using hv
    have hg' : sideItems its = true := by simpa [BST.sideOK] using hg
    have hk' : NodupItems its := by simpa [BST.KeysNodup] using hk
    simp only [BST.render] at hat
    obtain ⟨_, hat⟩ := hat
    rw [AtB_append] at hat
    have := distinct_items src its hi hg' hk' (o + 1 + w0.length) hat.2
    simpa [BST.cls, KeysDistinct, clsB_length] using this
  | .obj w0 ms, hv, hg, hk, o, hat => by
    obtain ⟨_, hi⟩ : SchemaScan.IsWs (clsB w0) ∧ SchemaScan.SValidMembers (clsMembers ms) := by
      simpa [BST.cls, STree.Valid] using hv
    have hg' : sideMembers ms = true := by simpa [BST.sideOK] using hg
    obtain ⟨hk1, hk2⟩ : (keysB ms).Nodup ∧ NodupMembers ms := by simpa [BST.KeysNodup] using hk
    simp only [BST.render] at hat
    obtain ⟨_, hat⟩ := hat
    rw [AtB_append] at hat
    have h1 := distinct_members src ms hi hg' hk2 (o + 1 + w0.length) hat.2
    have h2 := keys_text src ms hi (o + 1 + w0.length) hat.2
    simp only [BST.cls, KeysDistinct, clsB_length]
    exact ⟨by rw [h2]; exact hk1, h1⟩
theorem distinct_items (src : Array UInt8) : (its : List BItem) → SchemaScan.SValidItems (clsItems its) →
    sideItems its = true → NodupItems its → (o : Nat) → AtB src o (renderItems its) →
    DistinctItems src o (clsItems its)
  | [], _, _, _, _, _ => by simp [clsItems, DistinctItems]
  | (w1, v, w2) :: its, hv, hg, hk, o, hat => by
    obtain ⟨_, hvv, _, _, hits⟩ : SchemaScan.IsWs (clsB w1) ∧ v.cls.Valid ∧ SchemaScan.IsWs (clsB w2) ∧
        SchemaScan.Follow v.cls (clsB w2) ∧ SchemaScan.SValidItems (clsItems its) := by
      simpa [clsItems, SchemaScan.SValidItems] using hv
    obtain ⟨hg1, hg2⟩ : v.sideOK = true ∧ sideItems its = true := by simpa [sideItems] using hg
    obtain ⟨hkv, hki⟩ : v.KeysNodup ∧ NodupItems its := by simpa [NodupItems] using hk
    obtain ⟨hatv, hatr⟩ := AtB_items hat
    simp only [clsItems, DistinctItems, nextItem_eq, clsB_length]
    exact ⟨distinct_of src v hvv hg1 hkv _ hatv, distinct_items src its hits hg2 hki _ hatr⟩
theorem distinct_members (src : Array UInt8) : (ms : List BMember) → SchemaScan.SValidMembers (clsMembers ms) →
    sideMembers ms = true → NodupMembers ms → (o : Nat) → AtB src o (renderMembers ms) →
    DistinctMembers src o (clsMembers ms)
  | [], _, _, _, _, _ => by simp [clsMembers, DistinctMembers]
  | (w1, k, w2, w3, v, w4) :: ms, hv, hg, hk, o, hat => by
    obtain ⟨_, _, _, _, hvv, _, _, hms⟩ :
        SchemaScan.IsWs (clsB w1) ∧ SchemaScan.IsKey (clsB k) ∧ SchemaScan.IsWs (clsB w2) ∧ SchemaScan.IsWs (clsB w3) ∧
          v.cls.Valid ∧ SchemaScan.IsWs (clsB w4) ∧ SchemaScan.Follow v.cls (clsB w4) ∧
          SchemaScan.SValidMembers (clsMembers ms) := by
      simpa [clsMembers, SchemaScan.SValidMembers] using hv
    obtain ⟨hg1, hg2⟩ : v.sideOK = true ∧ sideMembers ms = true := by simpa [sideMembers] using hg
    obtain ⟨hkv, hki⟩ : v.KeysNodup ∧ NodupMembers ms := by simpa [NodupMembers] using hk
    obtain ⟨_, hatv, hatr⟩ := AtB_members hat
    simp only [clsMembers, DistinctMembers, nextMember_eq, valOff_eq]
    exact ⟨distinct_of src v hvv hg1 hkv _ hatv, distinct_members src ms hms hg2 hki _ hatr⟩
end

/-! ### `creation`: every rule of the table is synthesised -/

mutual
theorem nodes_gen : (v : STree) → (par : Option Nat) → (n o : Nat) → ∀ nd ∈ nodesOf par n o v,
    ∀ r ∈ nd.rules, ∃ s, r = .inr s
  | .scalar _, _, _, _, nd, h, r, hr => by
    simp only [nodesOf, List.mem_singleton] at h; subst h; cases hr
  | .short _ _, _, _, _, nd, h, r, hr => by
    simp only [nodesOf, List.mem_singleton] at h; subst h
    simp only [shortNode, List.mem_singleton] at hr
    exact ⟨_, hr⟩
  | .arr _ its, par, n, o, nd, h, r, hr => by
    simp only [nodesOf, List.mem_cons] at h
    rcases h with rfl | h
    · cases hr
    · exact nodesItems_gen its n (n + 1) _ nd h r hr
  | .obj _ ms, par, n, o, nd, h, r, hr => by
    simp only [nodesOf, List.mem_cons] at h
    rcases h with rfl | h
    · cases hr
    · exact nodesMembers_gen ms n (n + 1) _ nd h r hr
theorem nodesItems_gen : (its : List SchemaScan.SItem) → (a n o : Nat) → ∀ nd ∈ nodesItems a n o its,
    ∀ r ∈ nd.rules, ∃ s, r = .inr s
  | [], _, _, _, nd, h, _, _ => by simp [nodesItems] at h
  | (w1, v, w2) :: its, a, n, o, nd, h, r, hr => by
    simp only [nodesItems, List.mem_append] at h
    rcases h with h | h
    · exact nodes_gen v (some a) n _ nd h r hr
    · exact nodesItems_gen its a _ _ nd h r hr
theorem nodesMembers_gen : (ms : List SchemaScan.SMember) → (a n o : Nat) → ∀ nd ∈ nodesMembers a n o ms,
    ∀ r ∈ nd.rules, ∃ s, r = .inr s
  | [], _, _, _, nd, h, _, _ => by simp [nodesMembers] at h
  | (w1, k, w2, w3, v, w4) :: ms, a, n, o, nd, h, r, hr => by
    simp only [nodesMembers, List.mem_append] at h
    rcases h with h | h
    · exact nodes_gen v (some a) n _ nd h r hr
    · exact nodesMembers_gen ms a _ _ nd h r hr
end

theorem createRules_gen (k : Loader.NK) : (rs : List Rule) → (seen : List Bytes) → (∀ r ∈ rs, r.gen = true) →
    createRules k seen rs = .ok ()
  | [], _, _ => rfl
  | r :: rs, seen, h => by
    have hr : r.gen = true := h r (by simp)
    simp only [createRules, createRule, hr, if_true]
    exact createRules_gen k rs _ (fun x hx => h x (by simp [hx]))

theorem creation_gen : (tbl : List RNode) → (∀ n ∈ tbl, ∀ r ∈ n.rules, r.gen = true) → creation tbl = .ok ()
  | [], _ => rfl
  | n :: tbl, h => by
    have ih := creation_gen tbl (fun m hm => h m (by simp [hm]))
    unfold creation at ih ⊢
    simp only [List.foldl_cons, createRules_gen n.kind n.rules [] (h n (by simp))]
    exact ih

theorem resolve_gen (src : Array UInt8) (nd : Node) (h : ∀ r ∈ nd.rules, ∃ s, r = .inr s) :
    ∀ r ∈ (resolve src nd).rules, r.gen = true := by
  intro r hr
  simp only [resolve, List.mem_map] at hr
  obtain ⟨⟨x, v⟩, hx, rfl⟩ := hr
  obtain ⟨s, rfl⟩ := h x (List.of_mem_zip hx).1
  rfl

/-! ### end to end -/

/-- the whole schema text: leading blanks, the tree, trailing blanks -/
def docText (w0 : Bytes) (t : BST) (w1 : Bytes) : Bytes := w0 ++ (t.render ++ w1)

/-- a schema text of the class: blanks around a valid tree; behind a root shortcut a line break or nothing -/
structure TextOK (w0 : Bytes) (t : BST) (w1 : Bytes) : Prop where
  ws0 : SchemaScan.IsWs (clsB w0)
  ws1 : SchemaScan.IsWs (clsB w1)
  valid : t.cls.Valid
  follow : SchemaScan.Follow t.cls (clsB w1)
  side : t.sideOK = true
  keys : t.KeysNodup

/-- **scanner + loader + constraint constructors + `CompileBasic`** on the text of a tree whose leaves are scalars or
type shortcuts yield the compiled tree `cnOf` -/
theorem loadSchema_stree (w0 : Bytes) (t : BST) (w1 : Bytes) (h : TextOK w0 t w1) (opt : Bool) :
    E2E.loadSchema (docText w0 t w1) opt = .ok (some (cnOf opt t)) := by
  have hbs : (docText w0 t w1).map classify = clsB w0 ++ (t.cls.render ++ clsB w1) := by
    simp only [docText, List.map_append, render_cls, clsB]
  have hat : AtB (docText w0 t w1).toArray w0.length t.render := by
    have := Lay.AtB_toArray (docText w0 t w1) w0 (t.render ++ w1) rfl
    rw [AtB_append] at this
    exact this.1
  have hd := distinct_of (docText w0 t w1).toArray t h.valid h.side h.keys w0.length hat
  rw [← clsB_length] at hd
  obtain ⟨st, hl, hr, hn⟩ := LoaderS.loadText_mirrors_stree t.cls h.valid (clsB w0) (clsB w1) h.ws0 h.ws1 h.follow
    (docText w0 t w1) hbs hd
  have hcr : creation (st.nodes.toList.map (resolve (docText w0 t w1).toArray)) = .ok () := by
    apply creation_gen
    intro n hn' r hr'
    obtain ⟨nd, hnd, rfl⟩ := List.mem_map.mp hn'
    rw [hn] at hnd
    exact resolve_gen _ nd (nodes_gen t.cls none 0 _ nd hnd) r hr'
  have hc := compileNode_nodes (docText w0 t w1).toArray opt t h.valid h.side [] [] none w0.length hat
    ((st.nodes.toList.map (resolve (docText w0 t w1).toArray)).length + 1) false
    (by rw [hn, List.length_map, LoaderS.nodesOf_length]; omega)
  simp only [List.nil_append, List.append_nil, List.length_nil] at hc
  rw [clsB_length] at hn
  unfold E2E.loadSchema
  rw [E2E.loadTextP_of_ok _ st hl]
  simp only [hcr, hr]
  rw [hn] at hc ⊢
  simp only [hc]

#print axioms loadSchema_stree

end SE
