import JSight.BridgeCRLoad
/-!
Bridge (A)∩(B): one rule of the annotation — `Compile.createRule` against `CR.loadRule ∘ ruleOf` (`step_agree`).
-/
namespace BridgeCR
open Compile

theorem lbeq (a b : List UInt8) : (a == b) = decide (a = b) := by
  by_cases h : a = b <;> simp [h]

/-- the names as literals, for evaluation by `simp` -/
macro "names_simp" : tactic => `(tactic|
  simp (config := {decide := true}) only [createRule, rbytes, sb_or, sb_enum, sb_allOf, sb_type, sb_regex, sb_minItems, sb_maxItems,
    sb_minLength, sb_maxLength, sb_precision, sb_min, sb_max, sb_exclusiveMinimum, sb_exclusiveMaximum, sb_optional,
    sb_nullable, sb_const, sb_additionalProperties, knownRules_eq, CR.rnameTable, List.map_cons, List.map_nil,
    CR.n_minLength, CR.n_maxLength, CR.n_min, CR.n_max, CR.n_exclusiveMinimum, CR.n_exclusiveMaximum, CR.n_type,
    CR.n_precision, CR.n_optional, CR.n_minItems, CR.n_maxItems, CR.n_additionalProperties, CR.n_nullable, CR.n_regex,
    CR.n_const, CR.n_or, CR.n_enum, CR.n_allOf, List.cons.injEq, beq_iff_eq, lbeq, decide_false, decide_true,
    Bool.or_self, Bool.and_self, decide_eq_true_eq, reduceCtorEq, List.contains_cons,
    List.contains_nil, Bool.or_false, Bool.or_true, Bool.and_false, Bool.false_and, Bool.true_or, Bool.false_or, Bool.not_true, Bool.not_false,
    Bool.false_eq_true, if_false, if_true, ite_false, ite_true, and_false, false_and, and_true, true_and, ↓reduceIte,
    Bool.and_true, Bool.true_and])

/-! ### the items of an `or` value -/

theorem orItems (env : CR.Env) (c : CR.Ctx) : (items : List Bytes) → (us : List Bool) →
    (items.all fun it => !Unquote.inQuotes it || isUserTypeName (unq it)) = true →
    (if items.all Unquote.inQuotes then
       ∃ us', (items.map CR.Val.lit).foldlM (CR.loadOrItem env c) us = .ok us' ∧ us'.length = us.length + items.length
     else (items.map CR.Val.lit).foldlM (CR.loadOrItem env c) us = .error 904)
  | [], us, _ => by simp [pure, Except.pure]
  | it :: items, us, h => by
    simp only [List.all_cons, Bool.and_eq_true] at h
    obtain ⟨h1, h2⟩ := h
    simp only [List.map_cons, List.foldlM_cons, List.all_cons]
    cases hq : Unquote.inQuotes it
    · simp [CR.loadOrItem, hq, bind, Except.bind]
    · have hu : CR.isUserTypeName (Unquote.unquote it) = true := by
        rw [← isUserTypeName_eq]
        simpa [hq, unq] using h1
      have := orItems env c items (us ++ [true]) h2
      simp only [CR.loadOrItem, hq, hu, Bool.not_true, Bool.false_eq_true, ↓reduceIte, bind, Except.bind, Bool.true_and]
      split at this
      · rename_i ha
        obtain ⟨us', e1, e2⟩ := this
        simp only [ha, ↓reduceIte]
        refine ⟨us', e1, ?_⟩
        simp only [List.length_append, List.length_cons, List.length_nil] at e2 ⊢
        omega
      · rename_i ha
        simp only [ha]
        simpa using this

/-! ### duplicates among `enum` items -/

theorem eraseDups_length_le {α : Type} [BEq α] : (n : Nat) → (l : List α) → l.length ≤ n → l.eraseDups.length ≤ l.length
  | _, [], _ => by simp
  | 0, _ :: _, h => by simp at h
  | n + 1, a :: as, h => by
    rw [List.eraseDups_cons]
    simp only [List.length_cons] at h ⊢
    have h1 := List.length_filter_le (fun b => !b == a) as
    have := eraseDups_length_le n (as.filter fun b => !b == a) (by omega)
    omega

theorem eraseDups_nodup {α : Type} [BEq α] [LawfulBEq α] : (n : Nat) → (l : List α) → l.length ≤ n →
    (l.eraseDups.length = l.length ↔ l.Nodup)
  | _, [], _ => by simp
  | 0, _ :: _, h => by simp at h
  | n + 1, a :: as, h => by
    rw [List.eraseDups_cons]
    simp only [List.length_cons] at h ⊢
    have h1 := List.length_filter_le (fun b => !b == a) as
    have h2 := eraseDups_length_le n (as.filter fun b => !b == a) (by omega)
    have ih := eraseDups_nodup n (as.filter fun b => !b == a) (by omega)
    rw [List.nodup_cons]
    constructor
    · intro e
      have e1 : (as.filter fun b => !b == a).length = as.length := by omega
      have e2 : (as.filter fun b => !b == a) = as := List.filter_eq_self.2 (by
        have := List.length_filter_eq_length_iff.1 e1
        exact this)
      rw [e2] at ih e
      refine ⟨?_, ih.1 (by omega)⟩
      intro hm
      have := (List.filter_eq_self.1 e2) a hm
      simp at this
    · intro ⟨hn, hd⟩
      have e2 : (as.filter fun b => !b == a) = as := List.filter_eq_self.2 (by
        intro b hb
        have : b ≠ a := fun e => hn (e ▸ hb)
        simpa using this)
      rw [e2] at ih ⊢
      have := ih.2 hd
      omega

theorem enumItems : (items : List Bytes) → (seen : List (Option (Bytes × Rules.Kind))) →
    CR.loadEnumItems (items.map CR.Val.lit) seen =
      if (∀ it ∈ items, CR.enumKey it ∉ seen) ∧ (items.map CR.enumKey).Nodup then .ok () else .error 810
  | [], _ => by simp [CR.loadEnumItems]
  | it :: items, seen => by
    simp only [List.map_cons, CR.loadEnumItems]
    by_cases hm : CR.enumKey it ∈ seen
    · simp [hm]
    · rw [if_neg hm, enumItems items (CR.enumKey it :: seen)]
      have iff : ((∀ x ∈ items, CR.enumKey x ∉ CR.enumKey it :: seen) ∧ (items.map CR.enumKey).Nodup) ↔
          ((∀ x ∈ it :: items, CR.enumKey x ∉ seen) ∧ (CR.enumKey it :: items.map CR.enumKey).Nodup) := by
        simp only [List.mem_cons, not_or, forall_eq_or_imp, List.nodup_cons, List.mem_map, not_exists, not_and]
        constructor
        · intro ⟨a, b⟩
          exact ⟨⟨hm, fun x hx => (a x hx).2⟩, fun x hx => (a x hx).1, b⟩
        · intro ⟨⟨_, a⟩, b, d⟩
          exact ⟨fun x hx => ⟨b x hx, a x hx⟩, d⟩
      by_cases hP : (∀ x ∈ items, CR.enumKey x ∉ CR.enumKey it :: seen) ∧ (items.map CR.enumKey).Nodup
      · rw [if_pos hP, if_pos (iff.1 hP)]
      · rw [if_neg hP, if_neg (fun q => hP (iff.2 q))]

/-! ### `additionalProperties` -/

theorem sb_any : sb "any" = CR.t_any := by decide +kernel
theorem sb_true : sb "true" = CR.t_true := by decide +kernel
theorem sb_false : sb "false" = CR.t_false := by decide +kernel
theorem sb_object : sb "object" = CR.t_object := by decide +kernel
theorem sb_array : sb "array" = CR.t_array := by decide +kernel
theorem sb_string : sb "string" = CR.t_string := by decide +kernel
theorem sb_email : sb "email" = CR.t_email := by decide +kernel
theorem sb_uri : sb "uri" = CR.t_uri := by decide +kernel
theorem sb_uuid : sb "uuid" = CR.t_uuid := by decide +kernel
theorem sb_date : sb "date" = CR.t_date := by decide +kernel
theorem sb_datetime : sb "datetime" = CR.t_datetime := by decide +kernel
theorem sb_integer : sb "integer" = CR.t_integer := by decide +kernel
theorem sb_float : sb "float" = CR.t_float := by decide +kernel
theorem sb_decimal : sb "decimal" = CR.t_decimal := by decide +kernel
theorem sb_boolean : sb "boolean" = CR.t_boolean := by decide +kernel
theorem sb_null : sb "null" = CR.t_null := by decide +kernel
theorem sb_tenum : sb "enum" = CR.t_enum := by decide +kernel
theorem sb_mixed : sb "mixed" = CR.t_mixed := by decide +kernel
theorem sb_comment : sb "comment" = CR.t_comment := by decide +kernel

def addNames : List Bytes := [CR.t_any, CR.t_true, CR.t_false, CR.t_object, CR.t_array, CR.t_string, CR.t_email, CR.t_uri,
  CR.t_uuid, CR.t_date, CR.t_datetime, CR.t_integer, CR.t_float, CR.t_decimal, CR.t_boolean, CR.t_null, CR.t_enum,
  CR.t_mixed, CR.t_comment]

def okE : Except Err Add → Bool
  | .ok _ => true
  | .error _ => false

theorem okE_ite (c : Bool) (a b : Except Err Add) : okE (if c = true then a else b) = if c then okE a else okE b := by
  cases c <;> rfl
theorem okE_ok (a : Add) : okE (.ok a) = true := rfl
theorem okE_err (e : Err) : okE (.error e) = false := rfl
theorem ite_true_or (c x : Bool) : (if c then true else x) = (c || x) := by cases c <;> rfl

theorem parseAdd_ok (v : Bytes) : okE (parseAdd v) = (addNames.contains (unq v) || isUserTypeName (unq v)) := by
  unfold parseAdd
  simp only [sb_any, sb_true, sb_false, sb_object, sb_array, sb_string, sb_email, sb_uri, sb_uuid, sb_date, sb_datetime,
    sb_integer, sb_float, sb_decimal, sb_boolean, sb_null, sb_tenum, sb_mixed, sb_comment]
  generalize unq v = t
  simp only [okE_ite, okE_ok, okE_err, ite_true_or, addNames, List.contains_cons, List.contains_nil, Bool.or_false]
  simp only [Bool.or_assoc, Bool.or_comm, Bool.or_left_comm]

def good : Except Err Add → Prop
  | .ok _ => True
  | .error (.code c p) => c = 103 ∧ p = 0
  | .error (.unsupported _) => False

theorem good_ite (c : Prop) [Decidable c] (a b : Except Err Add) (ha : good a) (hb : good b) : good (if c then a else b) := by
  by_cases h : c <;> simp [h, ha, hb]

theorem parseAdd_good (v : Bytes) : good (parseAdd v) := by
  unfold parseAdd
  simp only []
  repeat (first | exact trivial | exact ⟨rfl, rfl⟩ | apply good_ite)

theorem parseAdd_err (v : Bytes) (e : Err) (h : parseAdd v = .error e) : e = .code 103 0 := by
  have := parseAdd_good v
  rw [h] at this
  cases e with
  | code c p => obtain ⟨a, b⟩ := this; subst a; subst b; rfl
  | unsupported w => exact absurd this (by simp [good])

theorem lookup_isSome {α β : Type} [BEq α] : (l : List (α × β)) → (a : α) →
    (l.lookup a).isSome = (l.map (·.1)).contains a
  | [], _ => rfl
  | (k, v) :: l, a => by
    simp only [List.lookup, List.map_cons, List.contains_cons]
    cases h : a == k <;> simp [lookup_isSome l a]

theorem ty_known (u : Bytes) : (CR.TyName.ofBytes u != .unknown) = (CR.isUserTypeName u || (CR.tyTable.map (·.1)).contains u) := by
  unfold CR.TyName.ofBytes
  cases hu : CR.isUserTypeName u
  · simp only [Bool.false_eq_true, ↓reduceIte, Bool.false_or, ← lookup_isSome]
    cases hl : CR.tyTable.lookup u with
    | none => rfl
    | some ty =>
      have hm := lookup_some_mem CR.tyTable u ty hl
      have : ty ≠ .unknown := by
        intro e
        subst e
        revert hm
        simp [CR.tyTable]
      simp [this]
  · simp

theorem addPropsOK_eq (v : Bytes) : CR.addPropsOK v = (addNames.contains (unq v) || isUserTypeName (unq v)) := by
  unfold CR.addPropsOK
  simp only [ty_known, isUserTypeName_eq, unq]
  generalize Unquote.unquote v = t
  simp only [addNames, CR.tyTable, List.map_cons, List.map_nil, List.contains_cons, List.contains_nil, Bool.or_false,
    lbeq]
  simp only [Bool.or_assoc, Bool.or_comm, Bool.or_left_comm]

/-! ### the literal-valued rules -/

theorem ruleOf_lit (rn : CR.RName) (v : Bytes) (pos npos : Nat) (h1 : rn ≠ .or) (h2 : rn ≠ .enum) (h3 : rn ≠ .allOf) :
    ruleOf { name := rbytes rn, gen := false, val := some v, pos := pos, npos := npos } = (rbytes rn, .lit v) := by
  obtain ⟨a, b, _⟩ := rbytes_ne rn h1 h2 h3
  simp [ruleOf, valOf_lit _ _ _ _ _ a b]

theorem bind_ok {α β : Type} (a : α) (f : α → Except CR.Code β) : ((.ok a : Except CR.Code α) >>= f) = f a := rfl
theorem bind_err {α β : Type} (e : CR.Code) (f : α → Except CR.Code β) : ((.error e : Except CR.Code α) >>= f) = .error e := rfl


end BridgeCR
