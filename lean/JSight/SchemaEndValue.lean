import JSight.SchemaLeafB
import JSight.SchemaLeafC
import JSight.SchemaLeafE
/-! `endValue` (stateEndValue): closes the finished token and re-dispatches the byte. -/
namespace SchemaScan

theorem stackTy_eq (s : Sc) (k : Nat) : stackTy s k = (s.stack.map (·.1))[k]? := by
  unfold stackTy; simp only [List.getElem?_map]

@[simp] theorem found_stack (s : Sc) (t : LexT) : (found s t).stack = s.stack := rfl
@[simp] theorem found_ret (s : Sc) (t : LexT) : (found s t).ret = s.ret := rfl
@[simp] theorem found_step (s : Sc) (t : LexT) : (found s t).step = s.step := rfl

/-- every step from which an annotation can start is a leaf transition -/
theorem annRet_ok {f s c p1 p2 r} (hr : r.annRet = true) (h : InvAt r s) (hf : s.finds = [])
    (hs : StepOK r s c) : OKRes Inv (dispatch (f+1) r s c p1 p2) := by
  cases r <;> simp [St.annRet] at hr
  · exact foundRoot_ok h hs
  · exact objKeyOrEmpty_ok h hf hs
  · exact objKey_ok h hf hs
  · exact objValue_ok h hs
  · exact arrItemOrEmpty_ok h hf hs
  · exact arrItem_ok h hs
  · exact afterKey_ok h hs
  · obtain ⟨eff, hE, hG⟩ := h
    obtain ⟨V, rfl, hV⟩ := hG.obj_inv rfl
    exact afterValue_ok hE hV (by rw [hE.stack_eq hf]; exact patOK0 V) hs
  · obtain ⟨eff, hE, hG⟩ := h
    obtain ⟨V, rfl, hV⟩ := hG.arr_inv rfl
    refine afterItem_ok hE hV ?_ hs
    intro h0
    have := hE.stack_eq hf
    rw [h0] at this
    cases this
  · exact endTop_ok h hs

theorem Good.endValue_inv {eff ret} (h : Good .endValue eff ret) :
    (∃ V, eff = .ksB :: .objB :: V ∧ CH V ret) ∨ (∃ V, eff = .keyB :: .objB :: V ∧ CH V ret) ∨
    (∃ V, eff = .litB :: V ∧ VH V ret) ∨ (∃ V, eff = .tsB :: .mixB :: V ∧ VH V ret) ∨ CH eff ret := by
  cases h <;> simp_all [St.objState, St.arrState, St.ksState, St.keyState, St.litState, St.tsState,
      St.uState, St.isComment, St.pendState, St.inlState, St.mlState]

theorem CH.inv {V ret} (h : CH V ret) :
    VH V ret ∨ (∃ m σ r ret', V = m :: σ ∧ ret = r :: ret' ∧ m.isMarker = true ∧ r.annRet = true ∧
      Good r σ ret') := by
  cases h with
  | vh h => exact Or.inl h
  | marker hm hr hg => exact Or.inr ⟨_, _, _, _, rfl, rfl, hm, hr, hg⟩

theorem endValue_ok {f s c p1 p2 eff} (hE : Eff s eff) (hf : s.finds = [])
    (hG : Good .endValue eff s.ret) : OKRes Inv (endValue (f+1) s c p1 p2) := by
  have hS := hE.stack_eq hf
  have hlen : s.stack.length = eff.length := by rw [← hS, List.length_map]
  unfold endValue
  simp only [bind, Except.bind, pure, Except.pure, dispatch']
  rcases hG.endValue_inv with ⟨V, rfl, hV⟩ | ⟨V, rfl, hV⟩ | ⟨V, rfl, hV⟩ | ⟨V, rfl, hV⟩ | hC
  · -- key shortcut
    simp [stackTy_eq, hS, hlen]
    exact afterKey_ok ⟨_, Eff_found hE rfl rfl, Good.obj rfl hV⟩ (Or.inl rfl)
  · simp [stackTy_eq, hS, hlen]
    exact afterKey_ok ⟨_, Eff_found hE rfl rfl, Good.obj rfl hV⟩ (Or.inl rfl)
  · rcases hV.inv with ⟨rfl, hret⟩ | ⟨V', rfl, hV'⟩ | ⟨V', rfl, hV'⟩
    · simp [stackTy_eq, hS, hlen]
      refine endTop_ok ⟨_, Eff_found hE rfl rfl, ?_⟩ (Or.inl rfl)
      show Good .endTop [] s.ret
      rw [hret]; exact Good.endTop
    · simp [stackTy_eq, hS, hlen]
      refine afterValue_ok (Eff_found (Eff_found hE rfl rfl) rfl rfl) hV' ?_ (Or.inl rfl)
      show PatOK (s.stack.map (·.1)) V'
      rw [hS]; exact patOK2 V'
    · simp [stackTy_eq, hS, hlen]
      refine afterItem_ok (Eff_found (Eff_found hE rfl rfl) rfl rfl) hV' ?_ (Or.inl rfl)
      show s.stack ≠ []
      intro h0; rw [h0] at hS; cases hS
  · -- type shortcut
    simp [stackTy_eq, hS, hlen]
    refine OKRes.bind (finishShortcut_spec hE hV) ?_
    rintro v ⟨hvr, hvs, ⟨V', rfl, hst, hE', hV'⟩ | ⟨V', rfl, hst, hE', hV'⟩ | ⟨rfl, hret, hst, hE'⟩⟩
    · rw [hst]
      refine afterValue_ok hE' (hvr ▸ hV') ?_ (Or.inl hst)
      rw [hvs, hS]; exact patOK3 V'
    · rw [hst]
      refine afterItem_ok hE' (hvr ▸ hV') ?_ (Or.inl hst)
      rw [hvs]; intro h0; rw [h0] at hS; cases hS
    · rw [hst]
      refine endTop_ok ⟨_, hE', ?_⟩ (Or.inl hst)
      rw [hvr, hret]; exact Good.endTop
  · rcases hC.inv with hV | ⟨m, σ, r, ret', rfl, hret, hm, hr, hGr⟩
    · rcases hV.inv with ⟨rfl, hret⟩ | ⟨V', rfl, hV'⟩ | ⟨V', rfl, hV'⟩
      · simp [hlen]
        refine endTop_ok ⟨_, hE, ?_⟩ (Or.inl rfl)
        show Good .endTop [] s.ret
        rw [hret]; exact Good.endTop
      · simp [stackTy_eq, hS, hlen]
        refine afterValue_ok (Eff_found hE rfl rfl) hV' ?_ (Or.inl rfl)
        show PatOK (s.stack.map (·.1)) V'
        rw [hS]; exact patOK1 V'
      · simp [stackTy_eq, hS, hlen]
        refine afterItem_ok (Eff_found hE rfl rfl) hV' ?_ (Or.inl rfl)
        show s.stack ≠ []
        intro h0; rw [h0] at hS; cases hS
    · obtain ⟨a, l, hst, ha, hl⟩ := List.map_eq_cons_iff.mp hS
      cases m <;> simp [LexT.isMarker] at hm
      · simp [stackTy_eq, hS, hlen]
        split
        · simp only [hst]
          refine OKRes.bind (popRet_spec (s := { s with ann := .none, stack := l }) hret) ?_
          rintro _ rfl
          refine annRet_ok hr ⟨σ, ⟨?_, ?_⟩, hGr⟩ hf (Or.inl rfl)
          · show applyFinds s.finds (l.map (·.1)) = some σ
            rw [hf, hl]; rfl
          · exact hE.2
        · rfl
      · simp [stackTy_eq, hS, hlen]
        rfl

end SchemaScan
