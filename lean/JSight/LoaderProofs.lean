import JSight.Loader
/-!
Facts about the loader model that carry C13's "line ends": a line end may be one new-line event (LF, CR) or
two (CRLF), and blank lines add more; the loader's state after a new-line event does not change when
further new-line events follow, so LF / CR / CRLF spellings and extra blank lines load identically.
-/
namespace Loader
open SchemaScan (Ev LexT)

theorem step_newLine_default (src : Array UInt8) (st : St) (e : Ev) (he : e.ty = .newLine) (hm : st.mode = .default) :
    step src st e = .ok { st with perLine := 0 } := by
  simp [step, he, hm, nodeLoad, pure, Except.pure]

/-- rule-loader states in which a new-line event is ignored -/
def nlOK : RS → Bool
  | .begin | .commentTextBegin | .keyOrObjectEnd | .objectEndAfterRuleName | .valueBegin
  | .embContainer _ | .embLiteral | .embShortcut => true
  | _ => false

theorem ruleLoad_newLine_ok (src : Array UInt8) (st : St) (e : Ev) (he : e.ty = .newLine) (h : nlOK st.rs = true) :
    ruleLoad src st e = .ok st := by
  unfold ruleLoad
  cases hrs : st.rs <;> simp [hrs, nlOK] at h <;> simp [he, pure, Except.pure]

theorem ruleLoad_newLine_err (src : Array UInt8) (st : St) (e : Ev) (he : e.ty = .newLine) (h : nlOK st.rs = false) :
    ∃ err, ruleLoad src st e = .error err := by
  unfold ruleLoad
  cases hrs : st.rs <;> simp [hrs, nlOK] at h
  · exact ⟨.loader e.b, by simp [he, throw, throwThe, MonadExceptOf.throw]⟩
  · -- `.value`: the node-count checks or "incorrect rule value type"
    simp only [he]
    split
    · exact ⟨_, rfl⟩
    · split
      · exact ⟨_, rfl⟩
      · split <;> exact ⟨_, rfl⟩
  · exact ⟨.loader e.b, by simp [he, throw, throwThe, MonadExceptOf.throw]⟩
  · exact ⟨.loader e.b, by simp [he, throw, throwThe, MonadExceptOf.throw]⟩
  · exact ⟨.loader e.b, by simp [throw, throwThe, MonadExceptOf.throw]⟩

theorem step_newLine_ann (src : Array UInt8) (s : St) (e : Ev) (he : e.ty = .newLine) (hm : s.mode ≠ .default) :
    step src s e = ruleLoad src s e := by
  simp [step, he, hm]

/-- a second new-line event directly after a first one changes nothing -/
theorem C13_newline_idempotent (src : Array UInt8) (st st' : St) (e1 e2 : Ev)
    (h1 : e1.ty = .newLine) (h2 : e2.ty = .newLine) (h : step src st e1 = .ok st') :
    step src st' e2 = .ok st' := by
  by_cases hm : st.mode = .default
  · rw [step_newLine_default src st e1 h1 hm] at h
    injection h with h
    subst h
    exact step_newLine_default src _ e2 h2 hm
  · rw [step_newLine_ann src st e1 h1 hm] at h
    cases hok : nlOK st.rs with
    | true =>
      rw [ruleLoad_newLine_ok src st e1 h1 hok] at h
      injection h with h
      subst h
      rw [step_newLine_ann src st e2 h2 hm]
      exact ruleLoad_newLine_ok src st e2 h2 hok
    | false =>
      obtain ⟨err, herr⟩ := ruleLoad_newLine_err src st e1 h1 hok
      rw [herr] at h
      cases h

/-- hence any run of further new-line events after one new-line event is absorbed -/
theorem C13_newline_run_absorbed (src : Array UInt8) (st st' : St) (e1 : Ev) (es : List Ev)
    (h1 : e1.ty = .newLine) (hes : ∀ e ∈ es, e.ty = .newLine) (h : step src st e1 = .ok st') :
    es.foldlM (step src) st' = .ok st' := by
  induction es with
  | nil => rfl
  | cons e es ih =>
    have he : e.ty = .newLine := hes e (by simp)
    have hstep := C13_newline_idempotent src st st' e1 e h1 he h
    simp only [List.foldlM_cons, hstep, bind, Except.bind]
    exact ih (fun x hx => hes x (by simp [hx]))

end Loader

namespace Loader
open SchemaScan (Ev LexT)

/-- an annotation that starts in default mode is bound to the node created last, and remembers how many nodes
were created on the current line -/
theorem annotation_binds_last_node (src : Array UInt8) (st : St) (e : Ev) (hm : st.mode = .default)
    (he : e.ty = .inlAnnB ∨ e.ty = .mlAnnB) :
    ∃ st', step src st e = .ok st' ∧ st'.rsNode = st.last ∧ st'.rsCount = st.perLine ∧ st'.nodes = st.nodes := by
  rcases he with he | he <;> simp [step, he, hm, pure, Except.pure]

/-- a rule value is accepted only when exactly one node was created on the annotation's line -/
theorem rule_needs_exactly_one_node (src : Array UInt8) (st : St) (e : Ev) (hrs : st.rs = .value) :
    (st.rsCount = 0 → ruleLoad src st e = .error (.ruleWithoutExample e.b)) ∧
    (st.rsCount ≥ 2 → ruleLoad src st e = .error (.ruleForSeveralNode e.b)) := by
  constructor
  · intro h0
    simp [ruleLoad, hrs, h0, throw, throwThe, MonadExceptOf.throw]
  · intro h2
    have h0 : (st.rsCount == 0) = false := by simp; omega
    have h1 : (st.rsCount != 1) = true := by simp; omega
    simp [ruleLoad, hrs, h0, h1, throw, throwThe, MonadExceptOf.throw]

/-- every node-creating event outside annotations increments the per-line counter, a new-line event resets it -/
theorem newLine_resets_counter (src : Array UInt8) (st : St) (e : Ev) (he : e.ty = .newLine) (hm : st.mode = .default) :
    ∃ st', step src st e = .ok st' ∧ st'.perLine = 0 ∧ st'.nodes = st.nodes ∧ st'.last = st.last :=
  ⟨_, step_newLine_default src st e he hm, rfl, rfl, rfl⟩

end Loader
