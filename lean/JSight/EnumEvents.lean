import JSight.EnumEventsTok
/-!
C18 / C06 / C14 for enum rules: the enum-rule scanner reads a list of scalar literals as the grammar says.

Text (bytes): `pre [ ws0 item , item … ] post` with `item = w1 token w2`; `pre, ws0, w1, w2, post` are layout
(space, tab, LF, CR — any mix), tokens are strings / numbers without exponent / true / false / null
(`GTok` on byte classes). `renderEnum` is the text, `enumEvsOf` its expected events.

* `enum_events` (A): pairwise distinct keys ⇒ `scanAll` delivers exactly `enumEvsOf`.
* `enum_duplicate` (B): the first item whose key repeats an earlier one ⇒ error 810 at that token's first byte.
* `enum_length` (C): `length` = offset just after the closing bracket.
-/
set_option linter.unusedSimpArgs false
set_option linter.unusedVariables false
namespace EnumScan
open SchemaScan (Cls classify)

/-- layout, token, layout -/
abbrev Item := List UInt8 × List UInt8 × List UInt8

/-- the items with their separating commas, and the closing bracket -/
def renderItems : List Item → List UInt8
  | [] => [93]
  | (w1, t, w2) :: its => w1 ++ (t ++ (w2 ++ ((if its.isEmpty then [] else [44]) ++ renderItems its)))

/-- `pre [ ws0 items ] post` -/
def renderEnum (pre ws0 : List UInt8) (items : List Item) (post : List UInt8) : List UInt8 :=
  pre ++ (91 :: (ws0 ++ (renderItems items ++ post)))

/-- every byte is a space, a tab, LF or CR -/
def IsWsB (ws : List UInt8) : Prop := IsWs (ws.map classify)

/-- validity with the automaton's notion of token -/
def ValidItems (its : List Item) : Prop :=
  ∀ it ∈ its, IsWsB it.1 ∧ IsTok (it.2.1.map classify) ∧ IsWsB it.2.2

/-- validity with the token grammar -/
def GValidItems (its : List Item) : Prop :=
  ∀ it ∈ its, IsWsB it.1 ∧ GTok (it.2.1.map classify) ∧ IsWsB it.2.2

theorem GValidItems.valid {its : List Item} (h : GValidItems its) : ValidItems its :=
  fun it hit => ⟨(h it hit).1, (h it hit).2.1.isTok, (h it hit).2.2⟩

def nlEvsB (o : Nat) (ws : List UInt8) : List Ev := nlEvs o (ws.map classify)

/-- events of the items starting at offset `o`, then the array end of the array opened at `a` -/
def evsItems (a : Nat) : Nat → List Item → List Ev
  | o, [] => [⟨.arrE, a, o⟩]
  | o, (w1, t, w2) :: its =>
    nlEvsB o w1 ++ (itemEvs (o + w1.length) (o + w1.length + t.length) ++
      (nlEvsB (o + w1.length + t.length) w2 ++
        evsItems a (o + w1.length + t.length + w2.length + (if its.isEmpty then 0 else 1)) its))

/-- the expected events of `renderEnum pre ws0 items post` -/
def enumEvsOf (pre ws0 : List UInt8) (items : List Item) (post : List UInt8) : List Ev :=
  ⟨.arrB, pre.length, pre.length⟩ ::
    (nlEvsB (pre.length + 1) ws0 ++
      (evsItems pre.length (pre.length + 1 + ws0.length) items ++
        nlEvsB (pre.length + 1 + ws0.length + (renderItems items).length) post))

def itemKey (it : Item) : List UInt8 × Bool := tokKey it.2.1

/-! ### segments of a concrete text -/

theorem segA_of_split (bs : List UInt8) (seg : List UInt8) : ∀ (front back : List UInt8) (o : Nat),
    bs = front ++ (seg ++ back) → front.length = o → SegA (bs.map classify).toArray o (seg.map classify) := by
  induction seg with
  | nil => intro _ _ _ _ _; trivial
  | cons x xs ih =>
    intro front back o h ho
    refine ⟨?_, ?_⟩
    · subst h ho; simp
    · exact ih (front ++ [x]) back (o + 1) (by simp [h]) (by simp [ho])

theorem keyAt_of_split (bs : List UInt8) (t front back : List UInt8) (o : Nat)
    (h : bs = front ++ (t ++ back)) (ho : front.length = o) (ht : IsTok (t.map classify)) :
    keyAt bs.toArray o t.length = tokKey t := by
  unfold keyAt
  rw [← keyOfTrim_tok t ht]
  congr 1
  subst h ho
  simp

def stFirst (first : Bool) : St := if first then .arrItemOrEmpty else .arrItem

/-- the keys seen so far do not contain the keys of the items, which are pairwise distinct -/
def FreshAll : List (List UInt8 × Bool) → List Item → Prop
  | _, [] => True
  | uq, it :: its => itemKey it ∉ uq ∧ FreshAll (itemKey it :: uq) its

theorem freshAll_of_nodup (its : List Item) : ∀ (uq : List (List UInt8 × Bool)),
    (∀ it ∈ its, itemKey it ∉ uq) → (its.map itemKey).Nodup → FreshAll uq its := by
  induction its with
  | nil => intro _ _ _; trivial
  | cons it its ih =>
    intro uq h1 h2
    simp only [List.map_cons, List.nodup_cons] at h2
    refine ⟨h1 it (by simp), ih _ ?_ h2.2⟩
    intro x hx hmem
    simp only [List.mem_cons] at hmem
    rcases hmem with h | h
    · exact h2.1 (by rw [← h]; exact List.mem_map_of_mem hx)
    · exact h1 x (by simp [hx]) h

theorem contains_false_of_not_mem {k : List UInt8 × Bool} {uq : List (List UInt8 × Bool)} (h : k ∉ uq) :
    uq.contains k = false := by
  simpa using h

theorem classify_comma : classify 44 = .comma := by decide
theorem classify_rbrack : classify 93 = .rbrack := by decide
theorem classify_lbrack : classify 91 = .lbrack := by decide

/-! ### the items -/

theorem items_pre (bs : List UInt8) (a : Nat) (lc : Bool) : ∀ (its : List Item) (first : Bool)
    (uq : List (List UInt8 × Bool)) (front back : List UInt8) (o : Nat),
    ValidItems its → (its = [] → first = true) → bs = front ++ (renderItems its ++ back) → front.length = o →
    FreshAll uq its →
    ∃ uq', Pre bs.toArray (bs.map classify).toArray
      ⟨stFirst first, [], [(.arrB, a)], [], o, false, false, lc, false, uq⟩ (evsItems a o its)
      ⟨.endValue, [], [], [], o + (renderItems its).length, false, false, lc, false, uq'⟩ := by
  intro its
  induction its with
  | nil =>
    intro first uq front back o _ hf hbs ho _
    rw [hf rfl]
    refine ⟨uq, ?_⟩
    have hs := segA_of_split bs [93] front back o (by simpa [renderItems] using hbs) ho
    exact pre_rbrack_empty a o lc false uq (by simpa [classify_rbrack] using hs.1)
  | cons it its ih =>
    intro first uq front back o hv _ hbs ho hfr
    obtain ⟨w1, t, w2⟩ := it
    obtain ⟨hw1, htk, hw2⟩ : IsWsB w1 ∧ IsTok (t.map classify) ∧ IsWsB w2 := hv (w1, t, w2) (by simp)
    have hv' : ValidItems its := fun x hx => hv x (by simp [hx])
    obtain ⟨hk, hfr'⟩ := hfr
    have hst : stFirst first = .arrItemOrEmpty ∨ stFirst first = .arrItem := by cases first <;> simp [stFirst]
    have hkey : keyAt bs.toArray (o + w1.length) t.length = tokKey t :=
      keyAt_of_split bs t (front ++ w1) (w2 ++ ((if its.isEmpty then [] else [44]) ++ renderItems its) ++ back) _
        (by rw [hbs]; simp [renderItems, List.append_assoc]) (by simp [ho]) htk
    cases its with
    | nil =>
      have hs := segA_of_split bs (w1 ++ (t ++ (w2 ++ [93]))) front back o
        (by rw [hbs]; simp [renderItems, List.append_assoc]) ho
      simp only [List.map_append, List.map_cons, List.map_nil, classify_rbrack] at hs
      have h := item_pre (content := bs.toArray) hst (w1.map classify) (t.map classify) (w2.map classify) hw1 htk hw2
        (Or.inr rfl) a o lc uq hs (by simp only [List.length_map]; rw [hkey]; exact contains_false_of_not_mem hk)
      simp only [List.length_map] at h
      refine ⟨keyAt bs.toArray (o + w1.length) t.length :: uq, ?_⟩
      have e : o + (renderItems [(w1, t, w2)]).length = o + w1.length + t.length + w2.length + 1 := by
        simp [renderItems]; omega
      rw [e]
      exact h.cast (by simp [evsItems, nlEvsB, delimEvs])
    | cons it2 its2 =>
      have hs := segA_of_split bs (w1 ++ (t ++ (w2 ++ [44]))) front (renderItems (it2 :: its2) ++ back) o
        (by rw [hbs]; simp [renderItems, List.append_assoc]) ho
      simp only [List.map_append, List.map_cons, List.map_nil, classify_comma] at hs
      have h := item_pre (content := bs.toArray) hst (w1.map classify) (t.map classify) (w2.map classify) hw1 htk hw2
        (Or.inl rfl) a o lc uq hs (by simp only [List.length_map]; rw [hkey]; exact contains_false_of_not_mem hk)
      simp only [List.length_map] at h
      rw [hkey] at h
      obtain ⟨uq', h2⟩ := ih false (tokKey t :: uq) (front ++ (w1 ++ (t ++ (w2 ++ [44])))) back
        (o + w1.length + t.length + w2.length + 1) hv' (by simp)
        (by rw [hbs]; simp [renderItems, List.append_assoc]) (by simp [ho]; omega) hfr'
      refine ⟨uq', ?_⟩
      have e : o + (renderItems ((w1, t, w2) :: it2 :: its2)).length
          = o + w1.length + t.length + w2.length + 1 + (renderItems (it2 :: its2)).length := by
        simp [renderItems]; omega
      rw [e]
      exact (h.trans h2).cast (by simp [evsItems, nlEvsB, delimEvs, List.append_assoc])

theorem IsTok.length_pos {tk : List Cls} (h : IsTok tk) : 1 ≤ tk.length := by
  obtain ⟨c, tl, _, _, _, rfl, _⟩ := h
  simp

theorem nlEvsB_length_le (o : Nat) (ws : List UInt8) : (nlEvsB o ws).length ≤ ws.length := by
  have := nlEvs_length_le o (ws.map classify)
  simpa [nlEvsB] using this

theorem evsItems_length_le (a : Nat) (its : List Item) : ∀ (o : Nat), ValidItems its →
    (evsItems a o its).length ≤ 4 * (renderItems its).length := by
  induction its with
  | nil => intro o _; simp [evsItems, renderItems]
  | cons it its ih =>
    intro o hv
    obtain ⟨w1, t, w2⟩ := it
    obtain ⟨_, htk, _⟩ : IsWsB w1 ∧ IsTok (t.map classify) ∧ IsWsB w2 := hv (w1, t, w2) (by simp)
    have ht := htk.length_pos
    simp only [List.length_map] at ht
    have h1 := nlEvsB_length_le o w1
    have h2 := nlEvsB_length_le (o + w1.length + t.length) w2
    have h3 := ih (o + w1.length + t.length + w2.length + (if its.isEmpty then 0 else 1))
      (fun x hx => hv x (by simp [hx]))
    simp only [evsItems, renderItems, itemEvs, List.length_append, List.length_cons, List.length_nil]
    omega

/-- the whole text, for both modes of the scanner (`lc` = `lengthComputing`) -/
theorem enum_out (lc : Bool) (pre ws0 post : List UInt8) (items : List Item)
    (hpre : IsWsB pre) (hws0 : IsWsB ws0) (hpost : IsWsB post) (hv : ValidItems items)
    (hnd : (items.map itemKey).Nodup) :
    Out (renderEnum pre ws0 items post).toArray ((renderEnum pre ws0 items post).map classify).toArray
      ⟨.begin, [], [], [], 0, false, false, lc, false, []⟩
      (enumEvsOf pre ws0 items post).length (.ok (enumEvsOf pre ws0 items post)) := by
  generalize hbs : renderEnum pre ws0 items post = bs
  have hbs' : bs = pre ++ (91 :: (ws0 ++ (renderItems items ++ post))) := by rw [← hbs]; rfl
  have s1 := segA_of_split bs pre [] (91 :: (ws0 ++ (renderItems items ++ post))) 0 (by simpa using hbs') rfl
  have h1 := pre_ws_begin (content := bs.toArray) lc false [] (pre.map classify) hpre 0 s1
  have s2 := segA_of_split bs [91] pre (ws0 ++ (renderItems items ++ post)) pre.length (by simpa using hbs') rfl
  have s2' : ((bs.map classify).toArray)[pre.length]? = some .lbrack := by
    have := s2.1; rw [classify_lbrack] at this; exact this
  have h2 := pre_lbrack (content := bs.toArray) pre.length lc false [] s2'
  have s3 := segA_of_split bs ws0 (pre ++ [91]) (renderItems items ++ post) (pre.length + 1)
    (by simpa using hbs') (by simp)
  have h3 := pre_ws_loop (content := bs.toArray) (st := .arrItemOrEmpty) (Or.inl rfl) pre.length lc false []
    (ws0.map classify) hws0 (pre.length + 1) s3
  obtain ⟨uq', h4⟩ := items_pre bs pre.length lc items true [] (pre ++ 91 :: ws0) post (pre.length + 1 + ws0.length)
    hv (fun _ => rfl) (by simpa using hbs') (by simp; omega) (freshAll_of_nodup items [] (by simp) hnd)
  have s5 := segA_of_split bs post (pre ++ 91 :: (ws0 ++ renderItems items)) []
    (pre.length + 1 + ws0.length + (renderItems items).length) (by simpa using hbs') (by simp; omega)
  have hsz : ((bs.map classify).toArray).size
      = pre.length + 1 + ws0.length + (renderItems items).length + (post.map classify).length := by
    rw [hbs']; simp; omega
  have h5 := out_ws_end (content := bs.toArray) lc uq' (post.map classify) hpost .endValue
    (pre.length + 1 + ws0.length + (renderItems items).length) (Or.inl rfl) s5 hsz
  simp only [List.length_map, Nat.zero_add] at h1 h3
  have h := (((h1.trans h2).trans h3).trans h4) _ _ h5
  refine h.cast ?_ ?_
  · simp [enumEvsOf, nlEvsB]; omega
  · simp [enumEvsOf, nlEvsB, Except.map]

theorem renderEnum_length (pre ws0 post : List UInt8) (items : List Item) :
    (renderEnum pre ws0 items post).length
      = pre.length + 1 + ws0.length + (renderItems items).length + post.length := by
  simp [renderEnum]; omega

theorem enumEvsOf_length_le (pre ws0 post : List UInt8) (items : List Item) (hv : ValidItems items) :
    (enumEvsOf pre ws0 items post).length ≤ 4 * (renderEnum pre ws0 items post).length := by
  have h1 := nlEvsB_length_le (pre.length + 1) ws0
  have h2 := nlEvsB_length_le (pre.length + 1 + ws0.length + (renderItems items).length) post
  have h3 := evsItems_length_le pre.length items (pre.length + 1 + ws0.length) hv
  rw [renderEnum_length]
  simp only [enumEvsOf, List.length_cons, List.length_append]
  omega

/-- **Theorem A (events)**, automaton tokens: a list of literals with pairwise distinct keys is scanned into
exactly the expected events -/
theorem enum_events' (pre ws0 post : List UInt8) (items : List Item)
    (hpre : IsWsB pre) (hws0 : IsWsB ws0) (hpost : IsWsB post) (hv : ValidItems items)
    (hnd : (items.map itemKey).Nodup) :
    scanAll (renderEnum pre ws0 items post) = .ok (enumEvsOf pre ws0 items post) := by
  unfold scanAll
  have h := enum_out false pre ws0 post items hpre hws0 hpost hv hnd
  refine Out_events _ _ h _ ?_
  have := enumEvsOf_length_le pre ws0 post items hv
  simp only [List.size_toArray, List.length_map]
  omega

/-- **Theorem A (events)** for the token grammar -/
theorem enum_events (pre ws0 post : List UInt8) (items : List Item)
    (hpre : IsWsB pre) (hws0 : IsWsB ws0) (hpost : IsWsB post) (hv : GValidItems items)
    (hnd : (items.map itemKey).Nodup) :
    scanAll (renderEnum pre ws0 items post) = .ok (enumEvsOf pre ws0 items post) :=
  enum_events' pre ws0 post items hpre hws0 hpost hv.valid hnd

/-! ### duplicates -/

/-- items each followed by its comma -/
def renderInit : List Item → List UInt8
  | [] => []
  | (w1, t, w2) :: its => w1 ++ (t ++ (w2 ++ (44 :: renderInit its)))

theorem renderItems_append (its1 rest : List Item) (h : rest ≠ []) :
    renderItems (its1 ++ rest) = renderInit its1 ++ renderItems rest := by
  induction its1 with
  | nil => rfl
  | cons it its ih =>
    obtain ⟨w1, t, w2⟩ := it
    have hne : (its ++ rest).isEmpty = false := by
      cases its <;> cases rest <;> simp at h ⊢
    simp only [List.cons_append, renderItems, renderInit, hne, Bool.false_eq_true, if_false, ih, List.append_assoc]
    simp

theorem after_tok_delim (w2 : List UInt8) (hw : IsWsB w2) (its2 : List Item) :
    ∃ x rest, w2 ++ ((if its2.isEmpty then [] else [44]) ++ renderItems its2) = x :: rest ∧
      isDelim (classify x) = true := by
  cases w2 with
  | nil =>
    cases its2 with
    | nil => exact ⟨93, [], rfl, by rw [classify_rbrack]; rfl⟩
    | cons it its => exact ⟨44, renderItems (it :: its), rfl, by rw [classify_comma]; rfl⟩
  | cons y ys =>
    exact ⟨y, _, rfl, (blank_delim (hw (classify y) (by simp))).1⟩

theorem items_dup (bs : List UInt8) (a : Nat) (lc : Bool) (dw1 dt dw2 : List UInt8) (its2 : List Item)
    (hdw1 : IsWsB dw1) (hdt : IsTok (dt.map classify)) (hdw2 : IsWsB dw2) :
    ∀ (its1 : List Item) (first : Bool) (uq : List (List UInt8 × Bool)) (front back : List UInt8) (o : Nat),
    ValidItems its1 → bs = front ++ (renderInit its1 ++ (renderItems ((dw1, dt, dw2) :: its2) ++ back)) →
    front.length = o → FreshAll uq its1 → tokKey dt ∈ its1.map itemKey ++ uq →
    ∃ n, n ≤ 4 * ((renderInit its1).length + dw1.length) + 2 ∧
      Out bs.toArray (bs.map classify).toArray
        ⟨stFirst first, [], [(.arrB, a)], [], o, false, false, lc, false, uq⟩ n
        (.error (.duplicate (o + (renderInit its1).length + dw1.length))) := by
  intro its1
  induction its1 with
  | nil =>
    intro first uq front back o _ hbs ho _ hmem
    have hst : stFirst first = .arrItemOrEmpty ∨ stFirst first = .arrItem := by cases first <;> simp [stFirst]
    obtain ⟨x, rest, hx, hxd⟩ := after_tok_delim dw2 hdw2 its2
    have hbs2 : bs = front ++ ((dw1 ++ (dt ++ [x])) ++ (rest ++ back)) := by
      rw [hbs]
      simp only [renderInit, renderItems, List.nil_append]
      rw [hx]
      simp
    have hs := segA_of_split bs (dw1 ++ (dt ++ [x])) front (rest ++ back) o hbs2 ho
    simp only [List.map_append, List.map_cons, List.map_nil] at hs
    have hkey : keyAt bs.toArray (o + dw1.length) dt.length = tokKey dt :=
      keyAt_of_split bs dt (front ++ dw1) ([x] ++ (rest ++ back)) _
        (by rw [hbs2]; simp [List.append_assoc]) (by simp [ho]) hdt
    obtain ⟨n, hn, h⟩ := item_dup (content := bs.toArray) hst (dw1.map classify) (dt.map classify) hdw1 hdt hxd a o lc uq hs
      (by simp only [List.length_map]; rw [hkey]; simpa using hmem)
    simp only [List.length_map] at h hn
    refine ⟨n, ?_, ?_⟩
    · simp only [renderInit, List.length_nil]; omega
    · simpa [renderInit] using h
  | cons it its ih =>
    intro first uq front back o hv hbs ho hfr hmem
    obtain ⟨w1, t, w2⟩ := it
    obtain ⟨hw1, htk, hw2⟩ : IsWsB w1 ∧ IsTok (t.map classify) ∧ IsWsB w2 := hv (w1, t, w2) (by simp)
    have hv' : ValidItems its := fun x hx => hv x (by simp [hx])
    obtain ⟨hk, hfr'⟩ := hfr
    have hst : stFirst first = .arrItemOrEmpty ∨ stFirst first = .arrItem := by cases first <;> simp [stFirst]
    have hkey : keyAt bs.toArray (o + w1.length) t.length = tokKey t :=
      keyAt_of_split bs t (front ++ w1)
        (w2 ++ (44 :: (renderInit its ++ (renderItems ((dw1, dt, dw2) :: its2) ++ back)))) _
        (by rw [hbs]; simp [renderInit, List.append_assoc]) (by simp [ho]) htk
    have hs := segA_of_split bs (w1 ++ (t ++ (w2 ++ [44]))) front
      (renderInit its ++ (renderItems ((dw1, dt, dw2) :: its2) ++ back)) o
      (by rw [hbs]; simp [renderInit, List.append_assoc]) ho
    simp only [List.map_append, List.map_cons, List.map_nil, classify_comma] at hs
    have h := item_pre (content := bs.toArray) hst (w1.map classify) (t.map classify) (w2.map classify) hw1 htk hw2
      (Or.inl rfl) a o lc uq hs
      (by simp only [List.length_map]; rw [hkey]; exact contains_false_of_not_mem hk)
    simp only [List.length_map] at h
    rw [hkey] at h
    obtain ⟨n, hn, h2⟩ := ih false (tokKey t :: uq) (front ++ (w1 ++ (t ++ (w2 ++ [44])))) back
      (o + w1.length + t.length + w2.length + 1) hv'
      (by rw [hbs]; simp [renderInit, List.append_assoc]) (by simp [ho]; omega) hfr'
      (by
        simp only [List.map_cons, List.cons_append, List.mem_cons, List.mem_append] at hmem ⊢
        rcases hmem with h | h | h
        · exact Or.inr (Or.inl h)
        · exact Or.inl h
        · exact Or.inr (Or.inr h))
    have ht := htk.length_pos
    simp only [List.length_map] at ht
    have l1 := nlEvs_length_le o (w1.map classify)
    have l2 := nlEvs_length_le (o + w1.length + t.length) (w2.map classify)
    simp only [List.length_map] at l1 l2
    refine ⟨_, ?_, (h _ _ h2).cast rfl ?_⟩
    · simp only [renderInit, itemEvs, delimEvs, List.length_append, List.length_cons, List.length_nil]
      omega
    · have e : o + (renderInit ((w1, t, w2) :: its)).length + dw1.length
          = o + w1.length + t.length + w2.length + 1 + (renderInit its).length + dw1.length := by
        simp [renderInit]; omega
      rw [e]; rfl

/-- **Theorem B (duplicates)**, automaton tokens: the first item whose key equals an earlier item's key is rejected
with error 810 (`duplicate`) at the first byte of its token -/
theorem enum_duplicate' (pre ws0 post : List UInt8) (its1 : List Item) (dup : Item) (its2 : List Item)
    (hpre : IsWsB pre) (hws0 : IsWsB ws0) (hv : ValidItems (its1 ++ dup :: its2))
    (hnd : (its1.map itemKey).Nodup) (hdup : itemKey dup ∈ its1.map itemKey) :
    scanAll (renderEnum pre ws0 (its1 ++ dup :: its2) post)
      = .error (.duplicate (pre.length + 1 + ws0.length + (renderInit its1).length + dup.1.length)) := by
  obtain ⟨dw1, dt, dw2⟩ := dup
  obtain ⟨hdw1, hdt, hdw2⟩ : IsWsB dw1 ∧ IsTok (dt.map classify) ∧ IsWsB dw2 := hv (dw1, dt, dw2) (by simp)
  have hv1 : ValidItems its1 := fun x hx => hv x (by simp [hx])
  generalize hbs : renderEnum pre ws0 (its1 ++ (dw1, dt, dw2) :: its2) post = bs
  have hbs' : bs = pre ++ (91 :: (ws0 ++ (renderInit its1 ++ (renderItems ((dw1, dt, dw2) :: its2) ++ post)))) := by
    rw [← hbs, renderEnum, renderItems_append its1 _ (by simp)]
    simp
  have s1 := segA_of_split bs pre [] (91 :: (ws0 ++ (renderInit its1 ++ (renderItems ((dw1, dt, dw2) :: its2) ++ post))))
    0 (by simpa using hbs') rfl
  have h1 := pre_ws_begin (content := bs.toArray) false false [] (pre.map classify) hpre 0 s1
  have s2 := segA_of_split bs [91] pre (ws0 ++ (renderInit its1 ++ (renderItems ((dw1, dt, dw2) :: its2) ++ post)))
    pre.length (by simpa using hbs') rfl
  have s2' : ((bs.map classify).toArray)[pre.length]? = some .lbrack := by
    have := s2.1; rw [classify_lbrack] at this; exact this
  have h2 := pre_lbrack (content := bs.toArray) pre.length false false [] s2'
  have s3 := segA_of_split bs ws0 (pre ++ [91]) (renderInit its1 ++ (renderItems ((dw1, dt, dw2) :: its2) ++ post))
    (pre.length + 1) (by simpa using hbs') (by simp)
  have h3 := pre_ws_loop (content := bs.toArray) (st := .arrItemOrEmpty) (Or.inl rfl) pre.length false false []
    (ws0.map classify) hws0 (pre.length + 1) s3
  obtain ⟨n, hn, h4⟩ := items_dup bs pre.length false dw1 dt dw2 its2 hdw1 hdt hdw2 its1 true []
    (pre ++ 91 :: ws0) post (pre.length + 1 + ws0.length) hv1 (by simpa using hbs') (by simp; omega)
    (freshAll_of_nodup its1 [] (by simp) hnd) (by simpa [itemKey] using hdup)
  simp only [List.length_map, Nat.zero_add] at h1 h3
  have h := ((h1.trans h2).trans h3) _ _ h4
  unfold scanAll
  refine Out_events _ _ h _ ?_
  have l1 := nlEvs_length_le (pre.length + 1) (ws0.map classify)
  simp only [List.length_map] at l1
  have hsz : bs.length = pre.length + 1 + ws0.length + (renderInit its1).length
      + (renderItems ((dw1, dt, dw2) :: its2)).length + post.length := by
    rw [hbs']; simp; omega
  have hsz2 : dw1.length ≤ (renderItems ((dw1, dt, dw2) :: its2)).length := by
    simp [renderItems]
  simp only [List.size_toArray, List.length_map, List.length_append, List.length_cons, List.length_nil]
  omega

/-- **Theorem B (duplicates)** for the token grammar -/
theorem enum_duplicate (pre ws0 post : List UInt8) (its1 : List Item) (dup : Item) (its2 : List Item)
    (hpre : IsWsB pre) (hws0 : IsWsB ws0) (hv : GValidItems (its1 ++ dup :: its2))
    (hnd : (its1.map itemKey).Nodup) (hdup : itemKey dup ∈ its1.map itemKey) :
    scanAll (renderEnum pre ws0 (its1 ++ dup :: its2) post)
      = .error (.duplicate (pre.length + 1 + ws0.length + (renderInit its1).length + dup.1.length)) :=
  enum_duplicate' pre ws0 post its1 dup its2 hpre hws0 hv.valid hnd hdup

/-! ### Len -/

theorem renderItems_last (its : List Item) : ∃ init, renderItems its = init ++ [93] := by
  induction its with
  | nil => exact ⟨[], rfl⟩
  | cons it its ih =>
    obtain ⟨w1, t, w2⟩ := it
    obtain ⟨init, h⟩ := ih
    exact ⟨w1 ++ (t ++ (w2 ++ ((if its.isEmpty then [] else [44]) ++ init))), by simp [renderItems, h]⟩

theorem evsItems_last (a : Nat) (its : List Item) : ∀ (o : Nat),
    ∃ init, evsItems a o its = init ++ [⟨.arrE, a, o + (renderItems its).length - 1⟩] := by
  induction its with
  | nil => intro o; exact ⟨[], by simp [evsItems, renderItems]⟩
  | cons it its ih =>
    intro o
    obtain ⟨w1, t, w2⟩ := it
    obtain ⟨init, h⟩ := ih (o + w1.length + t.length + w2.length + (if its.isEmpty then 0 else 1))
    refine ⟨nlEvsB o w1 ++ (itemEvs (o + w1.length) (o + w1.length + t.length) ++
      (nlEvsB (o + w1.length + t.length) w2 ++ init)), ?_⟩
    simp only [evsItems, h, List.append_assoc, renderItems, List.length_append]
    congr 6
    cases its <;> simp <;> omega

/-- the `Len` fold of `lengthLoop` -/
def lenF (size : Nat) : Nat → Ev → Nat := fun _ e => if e.e ≥ size then size else e.e + 1

theorem lenF_nl (size : Nat) (ws : List Cls) : ∀ (o b : Nat), b ≤ o → o + ws.length ≤ size →
    b ≤ (nlEvs o ws).foldl (lenF size) b ∧ (nlEvs o ws).foldl (lenF size) b ≤ o + ws.length := by
  induction ws with
  | nil => intro o b h _; simp [nlEvs]; omega
  | cons c cs ih =>
    intro o b hb hs
    simp only [List.length_cons] at hs
    simp only [nlEvs, List.foldl_append, List.length_cons]
    split
    · have hlt : ¬ o ≥ size := by omega
      simp only [List.foldl_cons, List.foldl_nil, lenF, hlt, if_false]
      have := ih (o + 1) (o + 1) (Nat.le_refl _) (by omega)
      omega
    · simp only [List.foldl_nil]
      have := ih (o + 1) b (by omega) (by omega)
      omega

theorem segA_blank (data : Array Cls) (ws : List Cls) (hw : IsWs ws) : ∀ (o : Nat), SegA data o ws →
    ∀ n, o ≤ n → n < o + ws.length → (data[n]?.map Cls.isBlank) = some true := by
  induction ws with
  | nil => intro o _ n h1 h2; simp at h2; omega
  | cons c cs ih =>
    intro o hs n h1 h2
    obtain ⟨hc, hcs⟩ := hs
    simp only [List.length_cons] at h2
    rcases Nat.eq_or_lt_of_le h1 with h | h
    · subst h; rw [hc]; simp [hw c (by simp)]
    · exact ih (fun x hx => hw x (by simp [hx])) (o + 1) hcs n (by omega) (by omega)

theorem trimBlank_post (data : Array Cls) (E : Nat) (ws : List Cls) (hw : IsWs ws) (hs : SegA data (E + 1) ws)
    (hr : data[E]? = some .rbrack) : ∀ (l : Nat), E + 1 ≤ l → l ≤ E + 1 + ws.length →
    SchemaScan.trimBlank data l = E + 1 := by
  intro l
  induction l with
  | zero => intro h; omega
  | succ n ih =>
    intro h1 h2
    unfold SchemaScan.trimBlank
    rcases Nat.eq_or_lt_of_le h1 with h | h
    · have : n = E := by omega
      subst this
      rw [hr]; rfl
    · have hb := segA_blank data ws hw (E + 1) hs n (by omega) (by omega)
      rw [hb]
      simp only [beq_self_eq_true, if_true]
      exact ih (by omega) (by omega)

/-- **Theorem C (Len)**, automaton tokens: `length` is the offset just after the closing bracket -/
theorem enum_length' (pre ws0 post : List UInt8) (items : List Item)
    (hpre : IsWsB pre) (hws0 : IsWsB ws0) (hpost : IsWsB post) (hv : ValidItems items)
    (hnd : (items.map itemKey).Nodup) :
    length (renderEnum pre ws0 items post) = .ok (pre.length + 1 + ws0.length + (renderItems items).length) := by
  have h := enum_out true pre ws0 post items hpre hws0 hpost hv hnd
  have hle := enumEvsOf_length_le pre ws0 post items hv
  have hlen := renderEnum_length pre ws0 post items
  generalize hbs : renderEnum pre ws0 items post = bs at h hle hlen
  obtain ⟨ri, hri⟩ := renderItems_last items
  have hril : (renderItems items).length = ri.length + 1 := by rw [hri]; simp
  have hbs' : bs = pre ++ (91 :: (ws0 ++ (renderItems items ++ post))) := by rw [← hbs]; rfl
  unfold length
  have hinit : ({ lengthComputing := true } : Sc) = ⟨.begin, [], [], [], 0, false, false, true, false, []⟩ := rfl
  simp only [bind, Except.bind, hinit]
  rw [Out_lengthLoop bs.toArray (bs.map classify).toArray h _ (by
    simp only [List.size_toArray, List.length_map]; omega) 0]
  simp only [Except.map, pure, Except.pure]
  congr 1
  -- the text around the closing bracket
  have sE := segA_of_split bs post (pre ++ 91 :: (ws0 ++ renderItems items)) []
    (pre.length + 1 + ws0.length + ri.length + 1) (by simpa using hbs') (by simp [hril]; omega)
  have sR := segA_of_split bs [93] (pre ++ 91 :: (ws0 ++ ri)) post
    (pre.length + 1 + ws0.length + ri.length) (by rw [hbs', hri]; simp) (by simp; omega)
  have hR : ((bs.map classify).toArray)[pre.length + 1 + ws0.length + ri.length]? = some .rbrack := by
    have := sR.1; rw [classify_rbrack] at this; exact this
  have hsize : ((bs.map classify).toArray).size = pre.length + 1 + ws0.length + ri.length + 1 + post.length := by
    simp only [List.size_toArray, List.length_map]; omega
  -- the fold
  obtain ⟨ei, hei⟩ := evsItems_last pre.length items (pre.length + 1 + ws0.length)
  have hfold : ∀ b, (enumEvsOf pre ws0 items post).foldl (lenF ((bs.map classify).toArray).size) b
      = (nlEvs (pre.length + 1 + ws0.length + ri.length + 1) (post.map classify)).foldl
          (lenF ((bs.map classify).toArray).size) (pre.length + 1 + ws0.length + ri.length + 1) := by
    intro b
    simp only [enumEvsOf, hei, nlEvsB, List.foldl_cons, List.foldl_append, List.foldl_nil, hril]
    congr 1
    simp only [lenF, hsize]
    have : ¬ (pre.length + 1 + ws0.length + (ri.length + 1) - 1 ≥ pre.length + 1 + ws0.length + ri.length + 1 + post.length) := by
      omega
    simp only [this, if_false]
    omega
  have hb := lenF_nl ((bs.map classify).toArray).size (post.map classify)
    (pre.length + 1 + ws0.length + ri.length + 1) (pre.length + 1 + ws0.length + ri.length + 1) (Nat.le_refl _)
    (by rw [hsize]; simp)
  have ht := trimBlank_post (bs.map classify).toArray (pre.length + 1 + ws0.length + ri.length) (post.map classify)
    hpost sE hR _ hb.1 hb.2
  show SchemaScan.trimBlank _ ((enumEvsOf pre ws0 items post).foldl (lenF ((bs.map classify).toArray).size) 0) = _
  rw [hfold 0, ht, hril]
  omega

/-- **Theorem C (Len)** for the token grammar -/
theorem enum_length (pre ws0 post : List UInt8) (items : List Item)
    (hpre : IsWsB pre) (hws0 : IsWsB ws0) (hpost : IsWsB post) (hv : GValidItems items)
    (hnd : (items.map itemKey).Nodup) :
    length (renderEnum pre ws0 items post) = .ok (pre.length + 1 + ws0.length + (renderItems items).length) :=
  enum_length' pre ws0 post items hpre hws0 hpost hv.valid hnd

/-! ### `Values`: the literal spans, in order, are the item tokens -/

/-- the byte slices `[b .. e]` of the literal-end events, in order (what `enum.go` collects into `Values`) -/
def valuesOf (bs : List UInt8) (evs : List Ev) : List (List UInt8) :=
  (evs.filter (fun e => e.ty == .litE)).map (fun e => (bs.drop e.b).take (e.e + 1 - e.b))

theorem valuesOf_append (bs : List UInt8) (a b : List Ev) : valuesOf bs (a ++ b) = valuesOf bs a ++ valuesOf bs b := by
  simp [valuesOf]

theorem valuesOf_nl (bs : List UInt8) (ws : List Cls) : ∀ o, valuesOf bs (nlEvs o ws) = [] := by
  induction ws with
  | nil => intro o; rfl
  | cons c cs ih =>
    intro o
    simp only [nlEvs, valuesOf_append, ih, List.append_nil]
    split <;> rfl

theorem valuesOf_items (bs : List UInt8) (a : Nat) (its : List Item) : ∀ (o : Nat) (front back : List UInt8),
    ValidItems its → bs = front ++ (renderItems its ++ back) → front.length = o →
    valuesOf bs (evsItems a o its) = its.map (·.2.1) := by
  induction its with
  | nil => intro o _ _ _ _ _; rfl
  | cons it its ih =>
    intro o front back hv hbs ho
    obtain ⟨w1, t, w2⟩ := it
    obtain ⟨_, htk, _⟩ : IsWsB w1 ∧ IsTok (t.map classify) ∧ IsWsB w2 := hv (w1, t, w2) (by simp)
    have ht := htk.length_pos
    simp only [List.length_map] at ht
    have h2 := ih (o + w1.length + t.length + w2.length + (if its.isEmpty then 0 else 1))
      (front ++ (w1 ++ (t ++ (w2 ++ (if its.isEmpty then [] else [44]))))) back
      (fun x hx => hv x (by simp [hx])) (by rw [hbs]; simp [renderItems, List.append_assoc])
      (by cases its <;> simp [ho] <;> omega)
    have hslice : (bs.drop (o + w1.length)).take (o + w1.length + t.length - 1 + 1 - (o + w1.length)) = t := by
      have e : o + w1.length + t.length - 1 + 1 - (o + w1.length) = t.length := by omega
      have e2 : bs = (front ++ w1) ++ (t ++ (w2 ++ ((if its.isEmpty then [] else [44]) ++ renderItems its) ++ back)) := by
        rw [hbs]; simp [renderItems, List.append_assoc]
      rw [e, e2, List.drop_left' (by simp [ho]), List.take_left]
    simp only [evsItems, nlEvsB, valuesOf_append, valuesOf_nl, h2, List.nil_append, List.map_cons]
    simp [valuesOf, itemEvs, hslice]

/-- **Values lists the literals in source order**: the slices of the literal-end events of the expected
(by Theorem A: delivered) event list are the item tokens -/
theorem enum_values (pre ws0 post : List UInt8) (items : List Item) (hv : ValidItems items) :
    valuesOf (renderEnum pre ws0 items post) (enumEvsOf pre ws0 items post) = items.map (·.2.1) := by
  have h := valuesOf_items (renderEnum pre ws0 items post) pre.length items (pre.length + 1 + ws0.length)
    (pre ++ 91 :: ws0) post hv (by simp [renderEnum]) (by simp; omega)
  simp only [enumEvsOf, nlEvsB]
  rw [show ∀ (x : Ev) (l : List Ev), x :: l = [x] ++ l from fun _ _ => rfl]
  simp only [valuesOf_append, valuesOf_nl, h, List.append_nil]
  rfl

end EnumScan

#print axioms EnumScan.enum_events
#print axioms EnumScan.enum_values
#print axioms EnumScan.enum_length
#print axioms EnumScan.enum_duplicate
