import JSight.EnumEventsRun
/-!
C18, comments in enum rules: the big-step semantics `OutT` of the enum-rule scanner's event stream WITH the
end-of-input rule of `processTail` (a comment that is still open at the end of the text is closed there), its
soundness for `events` / `lengthLoop`, and the composition calculus `PreT` (the `Pre` of `EnumEventsRun` over `OutT`).
-/
set_option linter.unusedSimpArgs false
set_option linter.unusedVariables false
namespace EnumScan
open SchemaScan (Cls classify)

/-- `Out` plus rule `tail`: at the end of input with a non-empty stack `processTail` delivers one closing event -/
inductive OutT (content : Array UInt8) (data : Array Cls) : Sc → Nat → M (List Ev) → Prop
  | shift {s : Sc} {t : LexT} {rest : List LexT} {s1 : Sc} {ev : Ev} {n : Nat} {r : M (List Ev)} :
      s.finds = t :: rest → processFound { s with finds := rest } t = .ok (s1, ev) →
      OutT content data s1 n r → OutT content data s (n + 1) (r.map (ev :: ·))
  | byte {s : Sc} {c : Cls} {s2 : Sc} {n : Nat} {r : M (List Ev)} :
      s.finds = [] → data[s.index]? = some c →
      dispatch content 8 { s with index := s.index + 1 } c data[s.index + 1]? = .ok s2 → s2.index = s.index + 1 →
      OutT content data s2 n r → OutT content data s n r
  | fail {s : Sc} {c : Cls} {e : Err} :
      s.finds = [] → data[s.index]? = some c →
      dispatch content 8 { s with index := s.index + 1 } c data[s.index + 1]? = .error e → e ≠ .eos →
      OutT content data s 0 (.error e)
  | eof {s : Sc} : s.finds = [] → data.size ≤ s.index → s.stack = [] → OutT content data s 0 (.ok [])
  | tail {s : Sc} {s1 : Sc} {ev : Ev} {n : Nat} {r : M (List Ev)} :
      s.finds = [] → data.size ≤ s.index → tailE data s = .ok (s1, ev) →
      OutT content data s1 n r → OutT content data s (n + 1) (r.map (ev :: ·))

theorem next_tail (content : Array UInt8) (data : Array Cls) (nf : Nat) (s : Sc)
    (h : s.finds = []) (hi : data.size ≤ s.index) :
    next content data (nf + 1) s = tailE data s := by
  have hn : ¬ s.index < data.size := by omega
  rw [next_succ]
  simp only [shift_nil h, bind, Except.bind, hn, if_false]

theorem OutT_sound {β : Type} (content : Array UInt8) (data : Array Cls) (msg : String) (f : β → Ev → β)
    {s : Sc} {n : Nat} {r : M (List Ev)} (h : OutT content data s n r) :
    ∀ (nf fuel : Nat) (b : β), data.size - s.index < nf → n ≤ fuel →
      foldK content data msg f fuel b (next content data nf s) = r.map (fun evs => evs.foldl f b) := by
  induction h with
  | @shift s t rest s1 ev n r hf hp _ ih =>
    intro nf fuel b hnf hfu
    obtain ⟨nf, rfl⟩ : ∃ k, nf = k + 1 := ⟨nf - 1, by omega⟩
    obtain ⟨fuel, rfl⟩ : ∃ k, fuel = k + 1 := ⟨fuel - 1, by omega⟩
    rw [next_shift content data nf s t rest hf, hp]
    show foldEv content data msg f (fuel + 1) s1 (f b ev) = _
    rw [foldEv_succ, ih (2 * data.size + 16) fuel (f b ev) (by omega) (by omega)]
    cases r <;> rfl
  | @byte s c s2 n r hf hc hd hi _ ih =>
    intro nf fuel b hnf hfu
    have hlt : s.index < data.size := by
      rcases Nat.lt_or_ge s.index data.size with h1 | h1
      · exact h1
      · rw [Array.getElem?_eq_none h1] at hc; cases hc
    obtain ⟨nf, rfl⟩ : ∃ k, nf = k + 1 := ⟨nf - 1, by omega⟩
    rw [next_byte content data nf s c hf hc, hd]
    simp only []
    cases hf2 : s2.finds with
    | nil =>
      simp only []
      exact ih nf fuel b (by omega) hfu
    | cons t rest =>
      simp only []
      rw [← next_shift content data (data.size) s2 t rest hf2]
      exact ih (data.size + 1) fuel b (by omega) hfu
  | @fail s c e hf hc hd hne =>
    intro nf fuel b hnf hfu
    obtain ⟨nf, rfl⟩ : ∃ k, nf = k + 1 := ⟨nf - 1, by omega⟩
    rw [next_byte content data nf s c hf hc, hd]
    cases e <;> first | rfl | exact absurd rfl hne
  | @eof s hf hi hs =>
    intro nf fuel b hnf hfu
    obtain ⟨nf, rfl⟩ : ∃ k, nf = k + 1 := ⟨nf - 1, by omega⟩
    rw [next_eof content data nf s hf hi hs]
    rfl
  | @tail s s1 ev n r hf hi ht _ ih =>
    intro nf fuel b hnf hfu
    obtain ⟨nf, rfl⟩ : ∃ k, nf = k + 1 := ⟨nf - 1, by omega⟩
    obtain ⟨fuel, rfl⟩ : ∃ k, fuel = k + 1 := ⟨fuel - 1, by omega⟩
    rw [next_tail content data nf s hf hi, ht]
    show foldEv content data msg f (fuel + 1) s1 (f b ev) = _
    rw [foldEv_succ, ih (2 * data.size + 16) fuel (f b ev) (by omega) (by omega)]
    cases r <;> rfl

theorem OutT_events (content : Array UInt8) (data : Array Cls) {s : Sc} {n : Nat} {r : M (List Ev)}
    (h : OutT content data s n r) (fuel : Nat) (hfu : n < fuel) :
    events content data fuel s [] = r := by
  obtain ⟨fuel, rfl⟩ : ∃ k, fuel = k + 1 := ⟨fuel - 1, by omega⟩
  rw [events_eq_fold, foldEv_succ,
    OutT_sound content data _ _ h (2 * data.size + 16) fuel [] (by omega) (by omega)]
  cases r with
  | error e => rfl
  | ok evs =>
    simp only [Except.map]
    congr 1
    have : ∀ (l acc : List Ev), (l.foldl (fun a e => e :: a) acc).reverse = acc.reverse ++ l := by
      intro l
      induction l with
      | nil => intro acc; simp
      | cons x xs ih => intro acc; simp [List.foldl, ih]
    simp [this evs []]

theorem OutT_lengthLoop (content : Array UInt8) (data : Array Cls) {s : Sc} {n : Nat} {r : M (List Ev)}
    (h : OutT content data s n r) (fuel : Nat) (hfu : n < fuel) (len : Nat) :
    lengthLoop content data fuel s len
      = r.map (fun evs => evs.foldl (fun _ e => if e.e ≥ data.size then data.size else e.e + 1) len) := by
  obtain ⟨fuel, rfl⟩ : ∃ k, fuel = k + 1 := ⟨fuel - 1, by omega⟩
  rw [lengthLoop_eq_fold, foldEv_succ]
  exact OutT_sound content data _ _ h (2 * data.size + 16) fuel len (by omega) (by omega)

/-! ### the calculus -/

variable {content : Array UInt8} {data : Array Cls}

theorem OutT.cast {s : Sc} {n n' : Nat} {r r' : M (List Ev)} (h : OutT content data s n r) (hn : n = n') (hr : r = r') :
    OutT content data s n' r' := by
  subst hn hr; exact h

def PreT (content : Array UInt8) (data : Array Cls) (s : Sc) (evs : List Ev) (s' : Sc) : Prop :=
  ∀ n r, OutT content data s' n r → OutT content data s (n + evs.length) (r.map (evs ++ ·))

theorem PreT.refl (s : Sc) : PreT content data s [] s := by
  intro n r h
  exact h.cast rfl (map_nil_app r).symm

theorem PreT.trans {s s1 s2 : Sc} {e1 e2 : List Ev} (h1 : PreT content data s e1 s1) (h2 : PreT content data s1 e2 s2) :
    PreT content data s (e1 ++ e2) s2 := by
  intro n r h
  refine (h1 _ _ (h2 _ _ h)).cast ?_ (map_map_app r e1 e2)
  simp only [List.length_append]; omega

theorem PreT.cast {s s' : Sc} {e e' : List Ev} (h : PreT content data s e s') (he : e = e') :
    PreT content data s e' s' := by
  subst he; exact h

theorem PreT.castS {s s' s'' : Sc} {e : List Ev} (h : PreT content data s e s') (hs : s' = s'') :
    PreT content data s e s'' := by
  subst hs; exact h

/-- one byte whose effect does not depend on the look-ahead -/
theorem PreT.byte {st : St} {ret : List St} {stack : List (LexT × Nat)} {i : Nat} {ann unf lc ht : Bool}
    {uq : List (List UInt8 × Bool)} {c : Cls} {s2 : Sc}
    (hc : data[i]? = some c)
    (hd : ∀ p1, dispatch content 8 ⟨st, ret, stack, [], i + 1, ann, unf, lc, ht, uq⟩ c p1 = .ok s2)
    (hi : s2.index = i + 1) :
    PreT content data ⟨st, ret, stack, [], i, ann, unf, lc, ht, uq⟩ [] s2 := by
  intro n r h
  exact (OutT.byte (s := ⟨st, ret, stack, [], i, ann, unf, lc, ht, uq⟩) rfl hc (hd _) hi h).cast rfl (map_nil_app r).symm

/-- one byte, with the look-ahead byte the scanner sees -/
theorem PreT.byteP {st : St} {ret : List St} {stack : List (LexT × Nat)} {i : Nat} {ann unf lc ht : Bool}
    {uq : List (List UInt8 × Bool)} {c : Cls} {s2 : Sc}
    (hc : data[i]? = some c)
    (hd : dispatch content 8 ⟨st, ret, stack, [], i + 1, ann, unf, lc, ht, uq⟩ c data[i + 1]? = .ok s2)
    (hi : s2.index = i + 1) :
    PreT content data ⟨st, ret, stack, [], i, ann, unf, lc, ht, uq⟩ [] s2 := by
  intro n r h
  exact (OutT.byte (s := ⟨st, ret, stack, [], i, ann, unf, lc, ht, uq⟩) rfl hc hd hi h).cast rfl (map_nil_app r).symm

theorem PreT.shift {st : St} {ret : List St} {stack : List (LexT × Nat)} {t : LexT} {rest : List LexT} {i : Nat}
    {ann unf lc ht : Bool} {uq : List (List UInt8 × Bool)} {s1 : Sc} {ev : Ev}
    (hp : processFound ⟨st, ret, stack, rest, i, ann, unf, lc, ht, uq⟩ t = .ok (s1, ev)) :
    PreT content data ⟨st, ret, stack, t :: rest, i, ann, unf, lc, ht, uq⟩ [ev] s1 := by
  intro n r h
  exact (OutT.shift (s := ⟨st, ret, stack, t :: rest, i, ann, unf, lc, ht, uq⟩) rfl hp h).cast rfl (map_cons_eq r ev)

/-- a failing byte behind a prefix of events -/
theorem OutT.fail' {st : St} {ret : List St} {stack : List (LexT × Nat)} {i : Nat} {ann unf lc ht : Bool}
    {uq : List (List UInt8 × Bool)} {c : Cls} {e : Err}
    (hc : data[i]? = some c)
    (hd : ∀ p1, dispatch content 8 ⟨st, ret, stack, [], i + 1, ann, unf, lc, ht, uq⟩ c p1 = .error e)
    (hne : e ≠ .eos) :
    OutT content data ⟨st, ret, stack, [], i, ann, unf, lc, ht, uq⟩ 0 (.error e) :=
  OutT.fail rfl hc (hd _) hne

/-- every `Out` is an `OutT` -/
theorem Out.toT {s : Sc} {n : Nat} {r : M (List Ev)} (h : Out content data s n r) : OutT content data s n r := by
  induction h with
  | shift hf hp _ ih => exact OutT.shift hf hp ih
  | byte hf hc hd hi _ ih => exact OutT.byte hf hc hd hi ih
  | fail hf hc hd hne => exact OutT.fail hf hc hd hne
  | eof hf hi hs => exact OutT.eof hf hi hs

/-! ### token bytes (as `pre_silentRun`) -/

theorem preT_silentRun (tok : List Cls) (stack : List (LexT × Nat)) (ann lc ht : Bool) (uq : List (List UInt8 × Bool)) :
    ∀ (st : St) (ret : List St) (unf : Bool) (i : Nat) (st' : St) (ret' : List St) (unf' : Bool),
      SegA data i tok → silentRun st ret unf tok = some (st', ret', unf') →
      PreT content data ⟨st, ret, stack, [], i, ann, unf, lc, ht, uq⟩ []
        ⟨st', ret', stack, [], i + tok.length, ann, unf', lc, ht, uq⟩ := by
  induction tok with
  | nil =>
    intro st ret unf i st' ret' unf' _ h
    simp only [silentRun, Option.some.injEq, Prod.mk.injEq] at h
    obtain ⟨rfl, rfl, rfl⟩ := h
    exact PreT.refl _
  | cons c cs ih =>
    intro st ret unf i st' ret' unf' hseg h
    obtain ⟨hc, hcs⟩ := hseg
    simp only [silentRun] at h
    cases hs : silent st ret unf c with
    | none => rw [hs] at h; cases h
    | some p =>
      obtain ⟨s1, r1, u1⟩ := p
      rw [hs] at h
      simp only [] at h
      have h1 := PreT.byte (content := content) hc
        (fun p1 => silent_dispatch st ret unf c s1 r1 u1 hs stack (i + 1) ann lc ht uq p1) rfl
      have h2 := ih s1 r1 u1 (i + 1) st' ret' unf' hcs h
      simp only [List.length_cons]
      rw [show i + (cs.length + 1) = i + 1 + cs.length by omega]
      exact h1.trans h2

end EnumScan
