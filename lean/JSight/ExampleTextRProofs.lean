import JSight.ATreeExample
import JSight.ATreeThm
import JSight.ATreeExamples
import JSight.ExampleTextProofs
/-!
C15, text level for ANNOTATED trees (proofs).

* `exBuildR_extends` / `exampleTextR_extends`: the rule-aware builder extends the rule-free one.
* `exBuildX`: the builder on the ABSTRACT table (`XNode`: what `C13_annotated_tree_loads` speaks about) plus the table of
  raw key tokens; `exBuildR_eq_X`: on every loader table the rule-aware builder is the abstract builder of its
  abstraction.
* `exBuildX_nodes`: on the table an annotated tree of the class DENOTES the abstract builder emits the compact text of
  the tree's value.
* `annotated_roundtrip`: composition with `AT.tree_loads`.
-/
namespace Loader

/-! ### the rule-aware builder extends the rule-free one -/

theorem mapM_mono {α β : Type} (f g : α → Option β) (l : List α) (out : List β)
    (h : ∀ a b, f a = some b → g a = some b) (hm : l.mapM f = some out) : l.mapM g = some out := by
  induction l generalizing out with
  | nil => simpa using hm
  | cons a l ih =>
    simp only [List.mapM_cons, Option.bind_eq_bind, Option.pure_def] at hm ⊢
    cases ha : f a with
    | none => rw [ha] at hm; simp at hm
    | some b =>
      rw [ha] at hm
      simp only [Option.bind_some] at hm
      cases hl : l.mapM f with
      | none => rw [hl] at hm; simp at hm
      | some bs =>
        rw [hl] at hm
        rw [h a b ha, ih bs hl]
        simpa using hm

theorem exBuildR_extends (src : Array UInt8) (nodes : Array Node) : ∀ (fuel i : Nat) (out : List UInt8),
    exBuild src nodes fuel i = some out → exBuildR src nodes fuel i = some out
  | 0, _, _, h => by simp [exBuild] at h
  | fuel + 1, i, out, h => by
    unfold exBuild at h
    unfold exBuildR
    cases hn : nodes[i]? with
    | none => rw [hn] at h; simp at h
    | some nd =>
      rw [hn] at h
      simp only at h ⊢
      by_cases hr : nd.rules.isEmpty = true
      · rw [if_pos hr] at h
        have hnil : nd.rules = [] := List.isEmpty_iff.mp hr
        cases hk : nd.kind with
        | lit => simp only [hk] at h ⊢; exact h
        | mixed => simp [hk] at h
        | arr =>
          simp only [hk] at h ⊢
          simp only [hnil, List.any_nil, Bool.false_eq_true, if_false]
          simp only [Option.map_eq_some_iff] at h ⊢
          obtain ⟨parts, hp, rfl⟩ := h
          exact ⟨parts, mapM_mono _ _ _ _ (fun a b => exBuildR_extends src nodes fuel a b) hp, rfl⟩
        | obj =>
          simp only [hk] at h ⊢
          simp only [hnil, List.any_nil, Bool.false_eq_true, if_false]
          split at h
          · simp at h
          · rename_i hc
            rw [if_neg hc]
            simp only [Option.map_eq_some_iff] at h ⊢
            obtain ⟨parts, hp, rfl⟩ := h
            refine ⟨parts, mapM_mono _ _ _ _ (fun a b hab => ?_) hp, rfl⟩
            simp only [Option.map_eq_some_iff] at hab ⊢
            obtain ⟨ex, he, rfl⟩ := hab
            exact ⟨ex, exBuildR_extends src nodes fuel _ _ he, rfl⟩
      · rw [if_neg hr] at h; simp at h

theorem exampleTextR_extends (bs : List UInt8) (out : List UInt8) (h : exampleText bs = .ok out) :
    exampleTextR bs = .ok out := by
  unfold exampleText at h
  unfold exampleTextR
  cases hl : loadText bs with
  | error e => rw [hl] at h; simp at h
  | ok st =>
    rw [hl] at h
    simp only at h ⊢
    cases hr : st.root with
    | none => rw [hr] at h; simp at h
    | some r =>
      rw [hr] at h
      simp only at h ⊢
      cases hb : exBuild bs.toArray st.nodes (st.nodes.size + 1) r with
      | none => rw [hb] at h; simp at h
      | some o =>
        rw [hb] at h
        rw [exBuildR_extends _ _ _ _ _ hb]
        exact h

/-! ### the builder on the abstract table -/

/-- the raw key tokens of a node: `k.Lex.Value()` -/
def rawKeysN (src : Array UInt8) (n : Node) : List (List UInt8) := n.keys.map fun k => slice src k.1 k.2.1

/-- `exampleBuilder.Build` on the abstract table `T` (what `GetAST` shows: kinds, children, decoded keys, literal tokens,
rule names) and the raw key tokens `RK` of every node -/
def exBuildX (T : Array XNode) (RK : Array (List (List UInt8))) : Nat → Nat → Option (List UInt8)
  | 0, _ => none
  | fuel + 1, i =>
    match T[i]? with
    | none => none
    | some nd =>
      match nd.kind with
      | .lit => nd.value
      | .mixed => none
      | .arr =>
        if nd.rules.any changesContainer then none
        else (nd.children.mapM (exBuildX T RK fuel)).map fun parts => 91 :: (joinB parts ++ [93])
      | .obj =>
        if nd.rules.any changesContainer then none
        else if nd.keys.length != nd.children.length || nd.keys.any (·.2) then none
        else
          (((RK[i]?.getD []).zip nd.children).mapM fun kc =>
            (exBuildX T RK fuel kc.2).map fun ex => kc.1 ++ 58 :: ex).map
            fun parts => 123 :: (joinB parts ++ [125])

theorem ruleNameOf_eq (src : Array UInt8) (r : Sum (Nat × Nat) String) : ruleNameOf src r = Lay.ruleText src r := by
  cases r <;> rfl

theorem mapM_zip_map {α β γ δ : Type} (f : α → β) (g : β × γ → Option δ) : ∀ (l : List α) (c : List γ),
    ((l.map f).zip c).mapM g = (l.zip c).mapM (fun p => g (f p.1, p.2))
  | [], _ => by simp
  | _ :: _, [] => by simp
  | a :: l, x :: c => by
    simp only [List.map_cons, List.zip_cons_cons, List.mapM_cons, mapM_zip_map f g l c]

theorem mapM_congr' {α β : Type} (f g : α → Option β) (l : List α) (h : ∀ a, f a = g a) : l.mapM f = l.mapM g := by
  have : f = g := funext h
  rw [this]

theorem exBuildR_eq_X (src : Array UInt8) (nodes : Array Node) : ∀ (fuel i : Nat),
    exBuildR src nodes fuel i = exBuildX (nodes.map (absX src)) (nodes.map (rawKeysN src)) fuel i
  | 0, _ => rfl
  | fuel + 1, i => by
    unfold exBuildR exBuildX
    simp only [Array.getElem?_map]
    cases hn : nodes[i]? with
    | none => rfl
    | some nd =>
      have hrules : (absX src nd).rules.any changesContainer
          = nd.rules.any (fun r => changesContainer (ruleNameOf src r)) := by
        simp only [absX, List.any_map]
        congr 1
      simp only [Option.map_some, Option.getD_some]
      cases hk : nd.kind with
      | lit => simp [absX, hk]
      | mixed => simp [absX, hk]
      | arr =>
        have hk' : (absX src nd).kind = .arr := hk
        simp only [hk', hrules]
        have hc : (absX src nd).children = nd.children := rfl
        rw [hc, mapM_congr' _ _ _ (fun a => exBuildR_eq_X src nodes fuel a)]
      | obj =>
        have hk' : (absX src nd).kind = .obj := hk
        simp only [hk', hrules]
        have hc : (absX src nd).children = nd.children := rfl
        have hkl : (absX src nd).keys.length = nd.keys.length := by simp [absX]
        have hka : (absX src nd).keys.any (·.2) = nd.keys.any (·.2.2) := by
          simp only [absX, List.any_map]
          congr 1
        rw [hc, hkl, hka]
        simp only [rawKeysN, mapM_zip_map]
        rw [mapM_congr' _ _ _ (fun p => by rw [exBuildR_eq_X src nodes fuel p.2])]

end Loader

namespace AT
open Loader (XNode xfresh joinB changesContainer exBuildX)

/-! ### the raw key tokens an annotated tree denotes, node by node -/

def AMembers.rawKeyList : AMembers → List Bytes
  | .nil _ => []
  | .cons _ k _ _ _ _ _ rest => k :: rest.rawKeyList

mutual
def ATree.rawKeys : ATree → List (List Bytes)
  | .scalar _ _ => [[]]
  | .arr _ items => [] :: items.rawKeys
  | .obj _ ms => ms.rawKeyList :: ms.rawKeys
def AItems.rawKeys : AItems → List (List Bytes)
  | .nil _ => []
  | .cons _ v _ _ rest => v.rawKeys ++ rest.rawKeys
def AMembers.rawKeys : AMembers → List (List Bytes)
  | .nil _ => []
  | .cons _ _ _ _ v _ _ rest => v.rawKeys ++ rest.rawKeys
end

mutual
theorem rawKeys_length : (v : ATree) → v.rawKeys.length = v.count
  | .scalar _ _ => rfl
  | .arr _ items => by simp [ATree.rawKeys, ATree.count, rawKeysI_length items]; omega
  | .obj _ ms => by simp [ATree.rawKeys, ATree.count, rawKeysM_length ms]; omega
theorem rawKeysI_length : (its : AItems) → its.rawKeys.length = its.count
  | .nil _ => rfl
  | .cons _ v _ _ rest => by simp [AItems.rawKeys, AItems.count, rawKeys_length v, rawKeysI_length rest]
theorem rawKeysM_length : (ms : AMembers) → ms.rawKeys.length = ms.count
  | .nil _ => rfl
  | .cons _ _ _ _ v _ _ rest => by simp [AMembers.rawKeys, AMembers.count, rawKeys_length v, rawKeysM_length rest]
end

theorem annX_value (a : Option Annot) (x : XNode) : (annX a x).value = x.value := by cases a <;> rfl
theorem annX_rules (a : Option Annot) (x : XNode) :
    (annX a x).rules = x.rules ++ (match a with | none => [] | some a => a.ob.names) := by
  cases a <;> simp [annX, Lay.addAnn]

theorem head_rules (an : Option (Gap × Annot)) (k : Loader.NK) (par : Option Nat) (h : headIgnored an = true) :
    (annX (an.map (·.2)) (xfresh k par)).rules.any changesContainer = false := by
  rw [annX_rules]
  cases an with
  | none => rfl
  | some ga =>
    obtain ⟨g, a⟩ := ga
    simp only [headIgnored, Bool.not_eq_true'] at h
    simpa [xfresh] using h

theorem getElem?_mid {α : Type} (pre : List α) (x : α) (post : List α) :
    (pre ++ x :: post).toArray[pre.length]? = some x := by simp

theorem keys_length_M : (ms : AMembers) → ms.keys.length = ms.rawKeyList.length
  | .nil _ => rfl
  | .cons _ _ _ _ _ _ _ rest => by simp [AMembers.keys, AMembers.rawKeyList, keys_length_M rest]
theorem idx_length_M : (ms : AMembers) → (n : Nat) → (ms.idx n).length = ms.rawKeyList.length
  | .nil _, _ => rfl
  | .cons _ _ _ _ _ _ _ rest, n => by simp [AMembers.idx, AMembers.rawKeyList, idx_length_M rest]
theorem keys_plain_M : (ms : AMembers) → ms.keys.any (·.2) = false
  | .nil _ => rfl
  | .cons _ _ _ _ _ _ _ rest => by simp [AMembers.keys, keys_plain_M rest]

mutual
theorem exBuildX_nodes : (v : ATree) → (pre post : List XNode) → (preK postK : List (List Bytes)) → (par : Option Nat) →
    (fuel : Nat) → preK.length = pre.length → v.count ≤ fuel → v.exClass = true →
    exBuildX (pre ++ (v.nodes par pre.length ++ post)).toArray (preK ++ (v.rawKeys ++ postK)).toArray fuel pre.length
      = some v.compact
  | .scalar tok an, pre, post, preK, postK, par, fuel, hK, hf, _ => by
    obtain ⟨f, rfl⟩ : ∃ f, fuel = f + 1 := ⟨fuel - 1, by simp [ATree.count] at hf; omega⟩
    simp only [ATree.nodes, List.cons_append, List.nil_append, exBuildX, getElem?_mid, annX_kind, annX_value]
    simp [xfresh, ATree.compact]
  | .arr an its, pre, post, preK, postK, par, fuel, hK, hf, hx => by
    obtain ⟨f, rfl⟩ : ∃ f, fuel = f + 1 := ⟨fuel - 1, by simp [ATree.count] at hf; omega⟩
    have hf' : its.count ≤ f := by simp [ATree.count] at hf; omega
    simp only [ATree.exClass, Bool.and_eq_true] at hx
    have hr := head_rules an .arr par hx.1
    have h := exKids_nodes its
      (pre ++ [{ annX (an.map (·.2)) (xfresh .arr par) with children := its.idx (pre.length + 1) }]) post
      (preK ++ [[]]) postK pre.length f (by simp [hK]) hf' hx.2
    simp only [List.length_append, List.length_cons, List.length_nil, List.append_assoc, List.cons_append,
      List.nil_append, Nat.zero_add] at h
    simp only [ATree.nodes, ATree.rawKeys, List.cons_append]
    have hxk : (annX (an.map (·.2)) (xfresh .arr par)).kind = .arr := by rw [annX_kind]; rfl
    generalize annX (an.map (·.2)) (xfresh .arr par) = x at h hr hxk ⊢
    simp only [hxk] at h
    simp only [exBuildX, getElem?_mid, hxk, hr, h]
    simp [ATree.compact]
  | .obj an ms, pre, post, preK, postK, par, fuel, hK, hf, hx => by
    obtain ⟨f, rfl⟩ : ∃ f, fuel = f + 1 := ⟨fuel - 1, by simp [ATree.count] at hf; omega⟩
    have hf' : ms.count ≤ f := by simp [ATree.count] at hf; omega
    simp only [ATree.exClass, Bool.and_eq_true] at hx
    have hr := head_rules an .obj par hx.1
    have h := exProps_nodes ms
      (pre ++ [{ annX (an.map (·.2)) (xfresh .obj par) with children := ms.idx (pre.length + 1), keys := ms.keys }]) post
      (preK ++ [ms.rawKeyList]) postK pre.length f (by simp [hK]) hf' hx.2
    simp only [List.length_append, List.length_cons, List.length_nil, List.append_assoc, List.cons_append,
      List.nil_append, Nat.zero_add] at h
    have hgK : (preK ++ ms.rawKeyList :: (ms.rawKeys ++ postK)).toArray[pre.length]? = some ms.rawKeyList := by
      rw [← hK]; exact getElem?_mid _ _ _
    simp only [ATree.nodes, ATree.rawKeys, List.cons_append]
    have hxk : (annX (an.map (·.2)) (xfresh .obj par)).kind = .obj := by rw [annX_kind]; rfl
    generalize annX (an.map (·.2)) (xfresh .obj par) = x at h hr hxk ⊢
    simp only [hxk] at h
    simp only [exBuildX, getElem?_mid, hgK, Option.getD_some, hxk, hr, h]
    simp [ATree.compact, keys_length_M, idx_length_M, keys_plain_M]
theorem exKids_nodes : (its : AItems) → (pre post : List XNode) → (preK postK : List (List Bytes)) → (a fuel : Nat) →
    preK.length = pre.length → its.count ≤ fuel → its.exClass = true →
    (its.idx pre.length).mapM
        (exBuildX (pre ++ (its.nodes a pre.length ++ post)).toArray (preK ++ (its.rawKeys ++ postK)).toArray fuel)
      = some its.parts
  | .nil _, _, _, _, _, _, _, _, _, _ => by simp [AItems.idx, AItems.parts]
  | .cons _ v _ _ rest, pre, post, preK, postK, a, fuel, hK, hf, hx => by
    have hv : v.count ≤ fuel := by simp [AItems.count] at hf; omega
    have hr : rest.count ≤ fuel := by simp [AItems.count] at hf; omega
    simp only [AItems.exClass, Bool.and_eq_true] at hx
    have h1 := exBuildX_nodes v pre (rest.nodes a (pre.length + v.count) ++ post) preK (rest.rawKeys ++ postK)
      (some a) fuel hK hv hx.1
    have h2 := exKids_nodes rest (pre ++ v.nodes (some a) pre.length) post (preK ++ v.rawKeys) postK a fuel
      (by simp [hK, nodes_length, rawKeys_length]) hr hx.2
    simp only [List.length_append, nodes_length, List.append_assoc] at h2
    simp only [AItems.idx, AItems.nodes, AItems.rawKeys, AItems.parts, List.append_assoc, List.mapM_cons, h1, h2]
    rfl
theorem exProps_nodes : (ms : AMembers) → (pre post : List XNode) → (preK postK : List (List Bytes)) → (a fuel : Nat) →
    preK.length = pre.length → ms.count ≤ fuel → ms.exClass = true →
    (ms.rawKeyList.zip (ms.idx pre.length)).mapM (fun kc =>
        (exBuildX (pre ++ (ms.nodes a pre.length ++ post)).toArray (preK ++ (ms.rawKeys ++ postK)).toArray fuel kc.2).map
          fun ex => kc.1 ++ 58 :: ex)
      = some ms.parts
  | .nil _, _, _, _, _, _, _, _, _, _ => by simp [AMembers.idx, AMembers.rawKeyList, AMembers.parts]
  | .cons _ k _ _ v _ _ rest, pre, post, preK, postK, a, fuel, hK, hf, hx => by
    have hv : v.count ≤ fuel := by simp [AMembers.count] at hf; omega
    have hr : rest.count ≤ fuel := by simp [AMembers.count] at hf; omega
    simp only [AMembers.exClass, Bool.and_eq_true] at hx
    have h1 := exBuildX_nodes v pre (rest.nodes a (pre.length + v.count) ++ post) preK (rest.rawKeys ++ postK)
      (some a) fuel hK hv hx.1
    have h2 := exProps_nodes rest (pre ++ v.nodes (some a) pre.length) post (preK ++ v.rawKeys) postK a fuel
      (by simp [hK, nodes_length, rawKeys_length]) hr hx.2
    simp only [List.length_append, nodes_length, List.append_assoc] at h2
    simp only [AMembers.idx, AMembers.nodes, AMembers.rawKeys, AMembers.rawKeyList, AMembers.parts, List.append_assoc,
      List.zip_cons_cons, List.mapM_cons, h1, h2]
    rfl
end

end AT

namespace AT
open Loader (exampleTextR exBuildR exBuildR_eq_X rawKeysN absX)

/-! ### composition with `tree_loads` -/

/-- what `C13_annotated_tree_loads` does not expose (its table holds the DECODED keys): the key spans of the loaded
table are the key tokens of the tree -/
def KeysRaw (w0 : Gap) (t : ATree) (w1 : Gap) : Prop :=
  ∀ st, Loader.loadText (docText w0 t w1) = .ok st →
    st.nodes.toList.map (rawKeysN (docText w0 t w1).toArray) = t.rawKeys

theorem annotated_roundtrip_of_keys (w0 : Gap) (t : ATree) (w1 : Gap) (hc : t.isContainer = true)
    (hl : lineOK w0 t = true) (hw : TokOK (docToks w0 t w1)) (hx : t.exClass = true) (hk : KeysRaw w0 t w1) :
    exampleTextR (docText w0 t w1) = .ok t.compact := by
  obtain ⟨st, hload, hroot, habs⟩ := tree_loads w0 t w1 hc hl hw
  have hraw := hk st hload
  unfold abstractOf at habs
  have hT : st.nodes.map (absX (docText w0 t w1).toArray) = ([] ++ (t.nodes none 0 ++ [])).toArray := by
    apply Array.ext'
    simpa [ATree.table] using habs
  have hR : st.nodes.map (rawKeysN (docText w0 t w1).toArray) = ([] ++ (t.rawKeys ++ [])).toArray := by
    apply Array.ext'
    simpa using hraw
  have hsize : st.nodes.size = t.count := by
    have := congrArg List.length habs
    simpa [ATree.table, nodes_length] using this
  have hb := exBuildX_nodes t [] [] [] [] none (st.nodes.size + 1) rfl (by omega) hx
  unfold exampleTextR
  simp only [hload, hroot, exBuildR_eq_X, hT, hR]
  simp only [List.length_nil] at hb
  rw [hb]

mutual
def ATree.keyless : ATree → Bool
  | .scalar _ _ => true
  | .arr _ items => items.keyless
  | .obj _ (.nil _) => true
  | .obj _ (.cons ..) => false
def AItems.keyless : AItems → Bool
  | .nil _ => true
  | .cons _ v _ _ rest => v.keyless && rest.keyless
end

mutual
theorem keyless_nodes : (v : ATree) → v.keyless = true → (par : Option Nat) → (n : Nat) →
    ∀ x ∈ v.nodes par n, x.keys = []
  | .scalar tok an, _, par, n => by
    intro x hx
    simp only [ATree.nodes, List.mem_singleton] at hx
    subst hx
    rw [annX_keys]
    rfl
  | .arr an its, h, par, n => by
    intro x hx
    simp only [ATree.nodes, List.mem_cons] at hx
    rcases hx with rfl | hx
    · simp only [annX_keys]; rfl
    · exact keyless_items its (by simpa [ATree.keyless] using h) n (n + 1) x hx
  | .obj an (.nil g), _, par, n => by
    intro x hx
    simp only [ATree.nodes, AMembers.nodes, List.mem_cons, List.not_mem_nil, or_false] at hx
    subst hx
    rfl
  | .obj an (.cons ..), h, _, _ => by simp [ATree.keyless] at h
theorem keyless_items : (its : AItems) → its.keyless = true → (a n : Nat) → ∀ x ∈ its.nodes a n, x.keys = []
  | .nil _, _, _, _ => by simp [AItems.nodes]
  | .cons _ v _ _ rest, h, a, n => by
    simp only [AItems.keyless, Bool.and_eq_true] at h
    intro x hx
    simp only [AItems.nodes, List.mem_append] at hx
    rcases hx with hx | hx
    · exact keyless_nodes v h.1 (some a) n x hx
    · exact keyless_items rest h.2 a (n + v.count) x hx
end

mutual
theorem keyless_rawKeys : (v : ATree) → v.keyless = true → ∀ x ∈ v.rawKeys, x = []
  | .scalar _ _, _ => by simp [ATree.rawKeys]
  | .arr _ its, h => by
    intro x hx
    simp only [ATree.rawKeys, List.mem_cons] at hx
    rcases hx with rfl | hx
    · rfl
    · exact keyless_rawKeysI its (by simpa [ATree.keyless] using h) x hx
  | .obj _ (.nil _), _ => by simp [ATree.rawKeys, AMembers.rawKeyList, AMembers.rawKeys]
  | .obj _ (.cons ..), h => by simp [ATree.keyless] at h
theorem keyless_rawKeysI : (its : AItems) → its.keyless = true → ∀ x ∈ its.rawKeys, x = []
  | .nil _, _ => by simp [AItems.rawKeys]
  | .cons _ v _ _ rest, h => by
    simp only [AItems.keyless, Bool.and_eq_true] at h
    intro x hx
    simp only [AItems.rawKeys, List.mem_append] at hx
    rcases hx with hx | hx
    · exact keyless_rawKeys v h.1 x hx
    · exact keyless_rawKeysI rest h.2 x hx
end

theorem eq_replicate_nil {α : Type} (l : List (List α)) (h : ∀ x ∈ l, x = []) : l = List.replicate l.length [] :=
  List.eq_replicate_iff.mpr ⟨rfl, h⟩

theorem keysRaw_of_keyless (w0 : Gap) (t : ATree) (w1 : Gap) (hc : t.isContainer = true)
    (hl : lineOK w0 t = true) (hw : TokOK (docToks w0 t w1)) (hkl : t.keyless = true) : KeysRaw w0 t w1 := by
  intro st hload
  obtain ⟨st', hload', _, habs⟩ := tree_loads w0 t w1 hc hl hw
  rw [hload] at hload'
  cases hload'
  unfold abstractOf at habs
  have hlen : st.nodes.toList.length = t.count := by
    have := congrArg List.length habs
    simpa [ATree.table, nodes_length] using this
  rw [eq_replicate_nil t.rawKeys (keyless_rawKeys t hkl), rawKeys_length, ← hlen]
  have : ∀ x ∈ st.nodes.toList.map (rawKeysN (docText w0 t w1).toArray), x = [] := by
    intro x hx
    obtain ⟨n, hn, rfl⟩ := List.mem_map.mp hx
    have hmem : absX (docText w0 t w1).toArray n ∈ t.table := by
      rw [← habs]; exact List.mem_map_of_mem hn
    have hk0 := keyless_nodes t hkl none 0 _ hmem
    simp only [absX, List.map_eq_nil_iff] at hk0
    simp [rawKeysN, hk0]
  have h2 := eq_replicate_nil _ this
  simpa using h2

theorem annotated_roundtrip_keyless (w0 : Gap) (t : ATree) (w1 : Gap) (hc : t.isContainer = true)
    (hl : lineOK w0 t = true) (hw : TokOK (docToks w0 t w1)) (hx : t.exClass = true) (hkl : t.keyless = true) :
    exampleTextR (docText w0 t w1) = .ok t.compact :=
  annotated_roundtrip_of_keys w0 t w1 hc hl hw hx (keysRaw_of_keyless w0 t w1 hc hl hw hkl)

/-! ### the value as a plain byte tree: the result is JSON -/

mutual
def ATree.value : ATree → Loader.BT
  | .scalar tok _ => .scalar tok
  | .arr _ items => .arr [] items.valueItems
  | .obj _ ms => .obj [] ms.valueMembers
def AItems.valueItems : AItems → List Loader.BItem
  | .nil _ => []
  | .cons _ v _ _ rest => ([], v.value, []) :: rest.valueItems
def AMembers.valueMembers : AMembers → List Loader.BMember
  | .nil _ => []
  | .cons _ k _ _ v _ _ rest => ([], k, [], [], v.value, []) :: rest.valueMembers
end

mutual
theorem compact_value : (v : ATree) → v.value.compact = v.compact
  | .scalar _ _ => rfl
  | .arr _ its => by simp [ATree.value, Loader.BT.compact, ATree.compact, compact_valueItems its]
  | .obj _ ms => by simp [ATree.value, Loader.BT.compact, ATree.compact, compact_valueMembers ms]
theorem compact_valueItems : (its : AItems) → Loader.compactItemsB its.valueItems = its.parts
  | .nil _ => rfl
  | .cons _ v _ _ rest => by
    simp [AItems.valueItems, Loader.compactItemsB, AItems.parts, compact_value v, compact_valueItems rest]
theorem compact_valueMembers : (ms : AMembers) → Loader.compactMembersB ms.valueMembers = ms.parts
  | .nil _ => rfl
  | .cons _ k _ _ v _ _ rest => by
    simp [AMembers.valueMembers, Loader.compactMembersB, AMembers.parts, compact_value v, compact_valueMembers rest]
end

theorem annotated_result_is_json (allow : Bool) (t : ATree) (hj : t.value.cls.Json) :
    JsonScan.events allow t.compact = .ok (JsonScan.evsAt 0 t.value.strip.cls.toJA) := by
  rw [← compact_value]
  exact Loader.plain_result_is_json allow t.value hj

end AT

namespace AT.ExC15
open AT.Ex

theorem inner_tok : TokOK (docToks [] (inner aInl) []) := by
  simp only [docToks, inner, ATree.toks, AItems.toks, ATree.toksB, headToks, gapToks, List.map,
    List.cons_append, List.nil_append, List.append_nil, cond_true, cond_false, tokOK_cons_iff]
  exact ⟨trivial, lf_wf, one_wf, trivial, sp_wf, aInl_wf, two_wf, lf_wf, trivial, tokOK_nil⟩

end AT.ExC15
