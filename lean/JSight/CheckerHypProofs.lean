import JSight.CheckerHyp
import JSight.CheckerFuel
import JSight.CheckerLit
/-! The Boolean tests of `CheckerHyp.lean` imply the hypotheses of the theorems. -/
namespace CK

theorem sortedB_sound (l : List Nat) (h : sortedB l = true) : l.Pairwise (· < ·) := of_decide_eq_true h

theorem litEndB_sound (r : Node) (h : litEndB r = true) :
    ∀ hd ∈ preorder r, hd.info.nk = .lit → hd.info.lex.ty = .litEnd := by
  intro hd hm hk
  have := List.all_eq_true.1 h hd hm
  simpa [hk] using this

theorem arraysFlatB_sound (env : Env) (h : arraysFlatB env = true) : ArraysFlat env := by
  intro n t hl hk names hn m hm u hu
  unfold Env.lookup at hl
  cases hf : env.types.find? (·.1 == n) with
  | none => simp [hf] at hl
  | some e =>
    simp only [hf, Option.map_some, Option.some.injEq] at hl
    subst hl
    have h1 := List.all_eq_true.1 h e (List.mem_of_find?_eq_some hf)
    simp only [hk, bne_self_eq_false, Bool.false_or, hn] at h1
    have h2 := List.all_eq_true.1 h1 m hm
    simpa [hu] using h2

theorem nullableTrueB_sound (cs : List Cn) (h : nullableTrueB cs = true) : NullableTrue cs := by
  intro b hb
  simpa using List.all_eq_true.1 h _ hb

theorem constUnique_of_count (cs : List Cn) (h : constCount cs ≤ 1) : ConstUnique cs := by
  induction cs with
  | nil => intro v hv; simp at hv
  | cons c cs ih =>
    intro v hv
    by_cases hc : c.ty = 25
    · -- the head is the only `const`
      have hcnt : constCount cs = 0 := by
        unfold constCount at h ⊢
        simp only [List.filter_cons, hc, beq_self_eq_true, if_true, List.length_cons] at h
        omega
      have hnone : ∀ c' ∈ cs, c'.ty ≠ 25 := by
        intro c' hc' h25
        unfold constCount at hcnt
        have : c' ∈ cs.filter fun c => c.ty == 25 := List.mem_filter.2 ⟨hc', by simp [h25]⟩
        rw [List.length_eq_zero_iff.1 hcnt] at this
        simp at this
      rcases List.mem_cons.1 hv with rfl | hv'
      · rfl
      · exact absurd rfl (hnone _ hv')
    · have hcnt : constCount cs ≤ 1 := by
        unfold constCount at h ⊢
        have : (c.ty == 25) = false := by simpa using hc
        simpa only [List.filter_cons, this, Bool.false_eq_true, if_false] using h
      rcases List.mem_cons.1 hv with rfl | hv'
      · exact absurd rfl hc
      · have := ih hcnt v hv'
        rw [this]
        cases c <;> simp_all [constValue, Cn.ty]

end CK
