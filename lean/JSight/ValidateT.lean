import JSight.ValidateNProofs
/-!
C01/C03 prototype, last gap: the validator tree *as the Go code keeps it* — children of one position share one
parent validator object, a finished child "steps back" to the parent, which becomes a leaf once (fix F-11) —
against the union semantics.  State = a forest of tries of frames; a node is fed only while it is a leaf.
-/
namespace VN
variable {L D : Type}

inductive FeedRes (L : Type)
  | fail | done | stay (f : Frame L) | kids (f : Frame L) (hs : List (Frame L))

/-- one validator object fed one lexeme (`validator.feed`) -/
def feed1 (litOK : L → D → Bool) : Frame L → Ev D → FeedRes L
  | .lit l, e =>
    match e with
    | .litB => .stay (.lit l)
    | .litE d => if litOK l d then .done else .fail
    | _ => .fail
  | .any d, e =>
    if (if e.isOpening then d + 1 else d - 1) == 0 then .done else .stay (.any (if e.isOpening then d + 1 else d - 1))
  | .arr items c, e =>
    match e with
    | .arrB | .itemE => .stay (.arr items c)
    | .itemB => match childAt items c with
      | some s => .kids (.arr items (c + 1)) (heads s)
      | none => .fail
    | .arrE => .done
    | _ => .fail
  | .obj props req last, e =>
    match e with
    | .objB | .keyB | .valE => .stay (.obj props req last)
    | .keyE k => .stay (.obj props (req.filter (· != k)) (some k))
    | .valB => match last with
      | some k => match lookup props k with
        | some s => .kids (.obj props req last) (heads s)
        | none => .fail
      | none => .fail
    | .objE => if req.isEmpty then .done else .fail
    | _ => .fail

/-- a validator object with its live flag (is it in `Tree.leaves`?) and the validators whose parent it is -/
inductive T (L : Type)
  | node (f : Frame L) (live : Bool) (kids : List (T L))

def leafT (f : Frame L) : T L := .node f true []

/-- what happens to the node's own validator in this round: (validator, still a leaf, new children, finished) -/
def own (litOK : L → D → Bool) (f : Frame L) (live : Bool) (e : Ev D) : Frame L × Bool × List (Frame L) × Bool :=
  if live then
    match feed1 litOK f e with
    | .fail => (f, false, [], false)
    | .done => (f, false, [], true)
    | .stay f' => (f', true, [], false)
    | .kids f' hs => (f', false, hs, false)
  else (f, false, [], false)

/-- put the node together again: a finished child makes the parent a leaf (once: F-11); a node that is neither a
leaf nor a parent is garbage -/
def assemble (o : Frame L × Bool × List (Frame L) × Bool) (k : List (T L) × Bool) : Option (T L) × Bool :=
  if o.2.2.2 then (none, true)
  else if !(o.2.1 || k.2) && (k.1 ++ o.2.2.1.map leafT).isEmpty then (none, false)
  else (some (.node o.1 (o.2.1 || k.2) (k.1 ++ o.2.2.1.map leafT)), false)

mutual
/-- one round (`FeedLeaves`) seen from one subtree: the new subtree and "my root has finished" -/
def stepT (litOK : L → D → Bool) : T L → Ev D → Option (T L) × Bool
  | .node f live kids, e => assemble (own litOK f live e) (stepG litOK kids e)
/-- the children of one parent (or the roots): survivors and "some child stepped back to the parent" -/
def stepG (litOK : L → D → Bool) : List (T L) → Ev D → List (T L) × Bool
  | [], _ => ([], false)
  | t :: ts, e =>
    ((match (stepT litOK t e).1 with | some x => x :: (stepG litOK ts e).1 | none => (stepG litOK ts e).1),
      (stepT litOK t e).2 || (stepG litOK ts e).2)
end

/-- run a group of siblings; `none` when one of them steps back before the last lexeme -/
def runQ (litOK : L → D → Bool) : List (T L) → List (Ev D) → Option (List (T L) × Bool)
  | g, [] => some (g, false)
  | g, e :: es =>
    if es.isEmpty then some (stepG litOK g e)
    else if (stepG litOK g e).2 then none else runQ litOK (stepG litOK g e).1 es

/-- `Validate` with the shared-parent tree: some root alternative finishes, and none before the last lexeme -/
def validateT (litOK : L → D → Bool) (s : S L) (d : J D) : Bool :=
  match runQ litOK ((heads s).map leafT) (evs d) with
  | some (_, b) => b
  | none => false

end VN
