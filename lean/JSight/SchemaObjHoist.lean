import JSight.SchemaObjProofs

/-!
# The hoisting loop of the Schema-object model (`SchemaObj.hoistLoop`, `loader.AddUnnamedTypes`)

* `fuelOf` suffices: the loop leaves through its `len(names) == 0` exit, never for lack of fuel (`hoistLoopO`: the same loop
  answering `none` when the fuel runs out; `hoistLoopO_fuelOf`, `hoistLoop_more_fuel`). No hypothesis on the ownership
  graph: cycles included. Measure: the entries of ALL tables of the pool whose name is not yet processed.
* what the loop computes: every entry of the hoisted table is a registration reachable from the receiver through a chain of
  table entries (`Reach`, `hoisted_sound`); the receiver's own names stay; for every name of the result some object that was
  registered under that name on a chain had its whole table copied (`Done`); if no two chains register different objects
  under one name (`Functional`), the hoisted table is exactly `Reach` (`hoisted_iff_of_functional`).
* the overwrite rule (`lookup_hoistName`): when the name `n`, standing for `j`, is processed, EVERY entry `(u, k)` of `j`'s
  table replaces whatever the root table held for `u` — the receiver's own `AddType(u, …)` included; names are processed in
  rounds, inside a round in sorted order, each name once, with the object the name stands for AT THAT MOMENT.
-/
namespace SchemaObj
namespace Hoist

variable {W : World}

abbrev names (t : Table) : List String := t.map (·.1)

def tysOf (p : Pool W) : Nat → Table := fun j => match p[j]? with | some o => o.types | none => []

theorem hoisted_eq (p : Pool W) (i : Nat) (root : Table) :
    hoisted p i root = hoistLoop (tysOf p) i (fuelOf p) [] root := rfl

/-! ## tables -/

theorem lookup_cons_ne (a : String) (b : Nat) (t : Table) (m : String) (h : m ≠ a) :
    List.lookup m ((a, b) :: t) = List.lookup m t := by
  rw [List.lookup_cons]
  split
  next heq => exact absurd (eq_of_beq heq) h
  next => rfl

theorem lookup_cons_self (a : String) (b : Nat) (t : Table) : List.lookup a ((a, b) :: t) = some b := by
  rw [List.lookup_cons]
  split
  next => rfl
  next heq => simp at heq

theorem lookup_isSome_iff (t : Table) (n : String) : (t.lookup n).isSome ↔ n ∈ names t := by
  induction t with
  | nil => simp [names]
  | cons e t ih =>
    obtain ⟨a, b⟩ := e
    by_cases h : n = a
    · subst h; rw [lookup_cons_self]; simp [names]
    · rw [lookup_cons_ne _ _ _ _ h]
      simp only [names, List.map_cons, List.mem_cons, h, false_or]
      exact ih

theorem hasName_iff (t : Table) (n : String) : hasName t n = true ↔ n ∈ names t := by
  simp only [hasName, names, List.any_eq_true, List.mem_map]
  constructor
  · rintro ⟨e, he, h⟩; exact ⟨e, he, by simpa using h⟩
  · rintro ⟨e, he, h⟩; exact ⟨e, he, by simp [h]⟩

theorem hasName_cons (a : String) (b : Nat) (t : Table) (n : String) :
    hasName ((a, b) :: t) n = (a == n || hasName t n) := rfl

theorem lookup_map_repl (t : Table) (n : String) (j : Nat) (m : String) :
    (t.map (fun e => if e.1 == n then (n, j) else e)).lookup m =
      if m = n then (if hasName t n then some j else none) else t.lookup m := by
  induction t with
  | nil => simp [hasName]
  | cons e t ih =>
    obtain ⟨a, b⟩ := e
    rw [List.map_cons, hasName_cons]
    by_cases han : a = n
    · subst han
      simp only [beq_self_eq_true, if_true, Bool.true_or]
      by_cases hm : m = a
      · subst hm; rw [lookup_cons_self]; simp
      · rw [lookup_cons_ne _ _ _ _ hm, lookup_cons_ne _ _ _ _ hm, ih]; simp [hm]
    · have h1 : (a == n) = false := by simpa using han
      simp only [h1, Bool.false_or, Bool.false_eq_true, if_false]
      by_cases hma : m = a
      · subst hma; rw [lookup_cons_self, lookup_cons_self]; simp [han]
      · rw [lookup_cons_ne _ _ _ _ hma, lookup_cons_ne _ _ _ _ hma, ih]

theorem lookup_append_single (t : Table) (n : String) (j : Nat) (m : String) :
    (t ++ [(n, j)]).lookup m = match t.lookup m with | some k => some k | none => if m = n then some j else none := by
  induction t with
  | nil =>
    by_cases h : m = n
    · subst h; simp
    · simp [lookup_cons_ne _ _ _ _ h, h]
  | cons e t ih =>
    obtain ⟨a, b⟩ := e
    by_cases hma : m = a
    · subst hma; simp
    · rw [List.cons_append, lookup_cons_ne _ _ _ _ hma, lookup_cons_ne _ _ _ _ hma]; exact ih

/-- `s.types[n] = j` read back -/
theorem lookup_insertT (t : Table) (n : String) (j : Nat) (m : String) :
    (insertT t n j).lookup m = if m = n then some j else t.lookup m := by
  unfold insertT
  by_cases h : hasName t n = true
  · simp only [h, if_true]; rw [lookup_map_repl]; simp [h]
  · have h' : hasName t n = false := by simpa using h
    simp only [h', Bool.false_eq_true, if_false]
    rw [lookup_append_single]
    by_cases hm : m = n
    · subst hm
      have : t.lookup m = none := by
        cases hl : t.lookup m with
        | none => rfl
        | some k =>
          have := (lookup_isSome_iff t m).1 (by simp [hl])
          rw [← hasName_iff] at this; simp [this] at h'
      simp [this]
    · simp only [hm, if_false]; cases t.lookup m <;> rfl

theorem names_insertT_sub (t : Table) (n : String) (j : Nat) (m : String) (h : m ∈ names (insertT t n j)) :
    m ∈ names t ∨ m = n := by
  rw [← lookup_isSome_iff, lookup_insertT] at h
  by_cases hm : m = n
  · exact .inr hm
  · simp only [hm, if_false] at h; exact .inl ((lookup_isSome_iff t m).1 h)

/-! ## sorting -/

theorem mem_insertName (n m : String) (l : List String) : m ∈ insertName n l ↔ m = n ∨ m ∈ l := by
  induction l with
  | nil => simp [insertName]
  | cons a l ih =>
    unfold insertName
    split
    · simp only [List.mem_cons, ih]; grind
    · simp only [List.mem_cons]

theorem mem_sortNames (m : String) (l : List String) : m ∈ sortNames l ↔ m ∈ l := by
  induction l with
  | nil => simp [sortNames]
  | cons a l ih =>
    have : sortNames (a :: l) = insertName a (sortNames l) := rfl
    rw [this, mem_insertName, ih]; simp

/-! ## one processed name -/

/-- the copy of one table into the root table (inner loop of `AddUnnamedTypes`) -/
def copyInto (inner : Table) (us : List String) (root : Table) : Table :=
  us.foldl (fun r u => match inner.lookup u with | some k => insertT r u k | none => r) root

theorem lookup_copyInto (inner : Table) (us : List String) (root : Table) (m : String) :
    (copyInto inner us root).lookup m =
      if m ∈ us then (match inner.lookup m with | some k => some k | none => root.lookup m) else root.lookup m := by
  induction us generalizing root with
  | nil => simp [copyInto]
  | cons u us ih =>
    have hstep : copyInto inner (u :: us) root =
        copyInto inner us (match inner.lookup u with | some k => insertT root u k | none => root) := rfl
    rw [hstep, ih]
    by_cases hmu : m = u
    · subst hmu
      cases hl : inner.lookup m with
      | none => simp
      | some k => simp [lookup_insertT]
    · have e1 : (match inner.lookup u with | some k => insertT root u k | none => root).lookup m = root.lookup m := by
        cases inner.lookup u with
        | none => rfl
        | some k => simp [lookup_insertT, hmu]
      rw [e1]; simp [hmu]

/-- the body of `for _, name := range names` for one name -/
def hoistName (tys : Nat → Table) (i : Nat) (root : Table) (n : String) : Table :=
  match root.lookup n with
  | none => root
  | some j =>
    let inner := if j == i then [] else tys j
    copyInto inner (sortNames (names inner)) root

theorem hoistRound_eq (tys : Nat → Table) (i : Nat) (ns : List String) (root : Table) :
    hoistRound tys i ns root = ns.foldl (hoistName tys i) root := by
  induction ns generalizing root with
  | nil => rfl
  | cons n ns ih =>
    simp only [List.foldl_cons]
    rw [← ih]
    show (match root.lookup n with
      | none => hoistRound tys i ns root
      | some j => hoistRound tys i ns _) = _
    unfold hoistName
    cases root.lookup n <;> rfl

/-- THE OVERWRITE RULE: processing the name `n` while it stands for `j` makes every name of `j`'s table stand for what it
stands for in `j`'s table (whatever the root table held for it before); all other names keep their object. The receiver
itself (`j = i`) contributes nothing. -/
theorem lookup_hoistName (tys : Nat → Table) (i : Nat) (root : Table) (n : String) (j : Nat)
    (h : root.lookup n = some j) (m : String) :
    (hoistName tys i root n).lookup m =
      match (if j == i then [] else tys j).lookup m with
      | some k => some k
      | none => root.lookup m := by
  have e : hoistName tys i root n = copyInto (if j == i then [] else tys j)
      (sortNames (names (if j == i then [] else tys j))) root := by
    unfold hoistName; rw [h]
  rw [e, lookup_copyInto]
  generalize (if j == i then [] else tys j) = inner
  cases hl : inner.lookup m with
  | some k =>
    have hmem : m ∈ sortNames (names inner) := (mem_sortNames _ _).2 ((lookup_isSome_iff _ _).1 (by simp [hl]))
    rw [if_pos hmem]
  | none => simp

theorem hoistName_none (tys : Nat → Table) (i : Nat) (root : Table) (n : String)
    (h : root.lookup n = none) : hoistName tys i root n = root := by
  unfold hoistName; simp [h]

/-! ## fuel -/

/-- the loop with an explicit out-of-fuel answer -/
def hoistLoopO (tys : Nat → Table) (i : Nat) : Nat → List String → Table → Option Table
  | 0, _, _ => none
  | f + 1, processed, root =>
    let names := sortNames ((root.map (·.1)).filter (fun n => !processed.contains n))
    if names.isEmpty then some root else hoistLoopO tys i f (processed ++ names) (hoistRound tys i names root)

def pending (pr : List String) (root : Table) : List String :=
  sortNames ((root.map (·.1)).filter (fun n => !pr.contains n))

theorem hoistLoopO_succ (tys : Nat → Table) (i f : Nat) (pr : List String) (root : Table) :
    hoistLoopO tys i (f + 1) pr root =
      if (pending pr root).isEmpty then some root
      else hoistLoopO tys i f (pr ++ pending pr root) (hoistRound tys i (pending pr root) root) := rfl

theorem hoistLoop_succ (tys : Nat → Table) (i f : Nat) (pr : List String) (root : Table) :
    hoistLoop tys i (f + 1) pr root =
      if (pending pr root).isEmpty then root
      else hoistLoop tys i f (pr ++ pending pr root) (hoistRound tys i (pending pr root) root) := rfl

theorem mem_pending (pr : List String) (root : Table) (n : String) :
    n ∈ pending pr root ↔ n ∈ names root ∧ n ∉ pr := by
  unfold pending
  rw [mem_sortNames, List.mem_filter]; simp [names]

theorem hoistLoop_of_O (tys : Nat → Table) (i : Nat) (f : Nat) (pr : List String) (root t : Table)
    (h : hoistLoopO tys i f pr root = some t) : hoistLoop tys i f pr root = t := by
  induction f generalizing pr root with
  | zero => simp [hoistLoopO] at h
  | succ f ih =>
    rw [hoistLoopO_succ] at h; rw [hoistLoop_succ]
    split at h
    · rename_i he; rw [if_pos he]; exact Option.some.inj h
    · rename_i he; rw [if_neg he]; exact ih _ _ h

theorem hoistLoopO_mono (tys : Nat → Table) (i : Nat) (f k : Nat) (pr : List String) (root t : Table)
    (h : hoistLoopO tys i f pr root = some t) : hoistLoopO tys i (f + k) pr root = some t := by
  induction f generalizing pr root with
  | zero => simp [hoistLoopO] at h
  | succ f ih =>
    have e : f + 1 + k = (f + k) + 1 := by omega
    rw [e]
    rw [hoistLoopO_succ] at h ⊢
    split at h
    · rename_i he; rw [if_pos he]; exact h
    · rename_i he; rw [if_neg he]; exact ih _ _ h

/-- the names of the universe `U` that are not processed yet -/
def todo (U pr : List String) : Nat := (U.filter (fun n => !pr.contains n)).length

theorem todo_lt (U pr ns : List String) (n : String) (hU : n ∈ U) (hn : n ∈ ns) (hp : n ∉ pr) :
    todo U (pr ++ ns) < todo U pr := by
  unfold todo
  induction U with
  | nil => cases hU
  | cons a U ih =>
    have hle : ∀ V : List String, (V.filter (fun n => !(pr ++ ns).contains n)).length ≤
        (V.filter (fun n => !pr.contains n)).length := by
      intro V
      induction V with
      | nil => simp
      | cons b V ihV =>
        simp only [List.filter_cons]
        by_cases hb : b ∈ pr
        · have : b ∈ pr ++ ns := List.mem_append_left _ hb
          simp [hb, this]; simpa using ihV
        · by_cases hb2 : b ∈ pr ++ ns
          · simp [hb, hb2]; have := ihV; simp at this; omega
          · simp [hb, hb2]; simpa using ihV
    simp only [List.filter_cons]
    by_cases han : a = n
    · subst han
      have h1 : a ∈ pr ++ ns := List.mem_append_right _ hn
      have := hle U
      simp [hp, h1]; simp at this; omega
    · have hU' : n ∈ U := by
        cases hU with
        | head => exact absurd rfl han
        | tail _ h => exact h
      have := ih hU'
      have := hle U
      by_cases hb : a ∈ pr
      · have : a ∈ pr ++ ns := List.mem_append_left _ hb
        simp [hb, this]; simp at ih; exact ih hU'
      · by_cases hb2 : a ∈ pr ++ ns
        · simp [hb, hb2]; have := ih hU'; simp at this; omega
        · simp [hb, hb2]; have := ih hU'; simp at this; omega

theorem inner_lookup (tys : Nat → Table) (i j : Nat) (m : String) (k : Nat)
    (h : (if j == i then [] else tys j).lookup m = some k) : j ≠ i ∧ (tys j).lookup m = some k := by
  by_cases hji : j = i
  · subst hji; simp at h
  · have : (j == i) = false := by simpa using hji
    rw [this] at h; exact ⟨hji, h⟩

theorem names_hoistName_sub (tys : Nat → Table) (i : Nat) (U : List String)
    (hT : ∀ j, ∀ m ∈ names (tys j), m ∈ U) (root : Table) (hr : ∀ m ∈ names root, m ∈ U) (n : String) :
    ∀ m ∈ names (hoistName tys i root n), m ∈ U := by
  intro m hm
  cases hl : root.lookup n with
  | none => rw [hoistName_none _ _ _ _ hl] at hm; exact hr m hm
  | some j =>
    rw [← lookup_isSome_iff, lookup_hoistName _ _ _ _ _ hl] at hm
    cases hi : (if j == i then [] else tys j).lookup m with
    | none => rw [hi] at hm; exact hr m ((lookup_isSome_iff _ _).1 hm)
    | some k =>
      obtain ⟨_, hk⟩ := inner_lookup tys i j m k hi
      exact hT j m ((lookup_isSome_iff _ _).1 (by simp [hk]))

theorem names_hoistRound_sub (tys : Nat → Table) (i : Nat) (U : List String)
    (hT : ∀ j, ∀ m ∈ names (tys j), m ∈ U) (ns : List String) (root : Table) (hr : ∀ m ∈ names root, m ∈ U) :
    ∀ m ∈ names (hoistRound tys i ns root), m ∈ U := by
  rw [hoistRound_eq]
  induction ns generalizing root with
  | nil => exact hr
  | cons n ns ih => exact ih _ (names_hoistName_sub tys i U hT root hr n)

/-- with more fuel than unprocessed names of the universe the loop leaves through its exit -/
theorem hoistLoopO_isSome (tys : Nat → Table) (i : Nat) (U : List String)
    (hT : ∀ j, ∀ m ∈ names (tys j), m ∈ U) (f : Nat) (pr : List String) (root : Table)
    (hr : ∀ m ∈ names root, m ∈ U) (hf : todo U pr < f) : ∃ t, hoistLoopO tys i f pr root = some t := by
  induction f generalizing pr root with
  | zero => omega
  | succ f ih =>
    rw [hoistLoopO_succ]
    split
    · exact ⟨root, rfl⟩
    · rename_i he
      have hne : pending pr root ≠ [] := by
        intro h; rw [h] at he; exact he rfl
      obtain ⟨n, hn⟩ := List.exists_mem_of_ne_nil _ hne
      have hn' := (mem_pending _ _ _).1 hn
      have hnp : n ∉ pr := hn'.2
      have := todo_lt U pr _ n (hr n hn'.1) hn hnp
      exact ih _ _ (names_hoistRound_sub tys i U hT _ root hr) (by omega)

def allNames (p : Pool W) : List String := p.flatMap (fun o => names o.types)

theorem allNames_length (p : Pool W) : (allNames p).length + 1 = fuelOf p := by
  unfold fuelOf allNames
  congr 1
  induction p with
  | nil => rfl
  | cons o p ih => simp [List.flatMap_cons, ih, names]

theorem tysOf_sub_allNames (p : Pool W) (j : Nat) : ∀ m ∈ names (tysOf p j), m ∈ allNames p := by
  intro m hm
  unfold tysOf at hm
  cases h : p[j]? with
  | none => rw [h] at hm; simp [names] at hm
  | some o =>
    rw [h] at hm
    exact List.mem_flatMap.2 ⟨o, List.mem_of_getElem? h, hm⟩

theorem hoistLoopO_fuelOf (p : Pool W) (i : Nat) (o : Obj W) (ho : p[i]? = some o) :
    hoistLoopO (tysOf p) i (fuelOf p) [] o.types = some (hoisted p i o.types) := by
  have hr : ∀ m ∈ names o.types, m ∈ allNames p := by
    have := tysOf_sub_allNames p i; unfold tysOf at this; rw [ho] at this; exact this
  have hf : todo (allNames p) [] < fuelOf p := by
    rw [← allNames_length]; unfold todo
    have := List.length_filter_le (fun n : String => !([] : List String).contains n) (allNames p)
    omega
  obtain ⟨t, ht⟩ := hoistLoopO_isSome (tysOf p) i (allNames p) (tysOf_sub_allNames p) (fuelOf p) [] o.types hr hf
  rw [ht, hoisted_eq, hoistLoop_of_O _ _ _ _ _ _ ht]

theorem hoistLoop_more_fuel (p : Pool W) (i : Nat) (o : Obj W) (ho : p[i]? = some o) (k : Nat) :
    hoistLoop (tysOf p) i (fuelOf p + k) [] o.types = hoisted p i o.types :=
  hoistLoop_of_O _ _ _ _ _ _ (hoistLoopO_mono _ _ _ k _ _ _ (hoistLoopO_fuelOf p i o ho))

/-! ## what the loop computes -/

/-- `Reach tys i root n j`: the object `j` is registered under the name `n` on a chain of table entries that starts in the
receiver's table `root` (a chain does not continue through the receiver `i` itself) -/
inductive Reach (tys : Nat → Table) (i : Nat) (root : Table) : String → Nat → Prop
  | base {n j} : root.lookup n = some j → Reach tys i root n j
  | step {n j u k} : Reach tys i root n j → j ≠ i → (tys j).lookup u = some k → Reach tys i root u k

/-- no name is registered for two different objects on chains from the receiver -/
def Functional (tys : Nat → Table) (i : Nat) (root : Table) : Prop :=
  ∀ n j j', Reach tys i root n j → Reach tys i root n j' → j = j'

def Sound (tys : Nat → Table) (i : Nat) (root r : Table) : Prop := ∀ n j, r.lookup n = some j → Reach tys i root n j
def Sub (r r' : Table) : Prop := ∀ n, (r.lookup n).isSome → (r'.lookup n).isSome
/-- the table of `j` was copied: all its names are in `r` -/
def Closed (tys : Nat → Table) (i : Nat) (j : Nat) (r : Table) : Prop :=
  j ≠ i → ∀ u, ((tys j).lookup u).isSome → (r.lookup u).isSome
/-- the name `n` was processed: an object registered under it on a chain had its table copied -/
def Done (tys : Nat → Table) (i : Nat) (root : Table) (n : String) (r : Table) : Prop :=
  ∃ j, Reach tys i root n j ∧ Closed tys i j r

theorem Sub.trans {a b c : Table} (h1 : Sub a b) (h2 : Sub b c) : Sub a c := fun n h => h2 n (h1 n h)

theorem Done.mono {tys : Nat → Table} {i : Nat} {root : Table} {n : String} {r r' : Table}
    (h : Done tys i root n r) (hs : Sub r r') : Done tys i root n r' := by
  obtain ⟨j, hj, hc⟩ := h
  exact ⟨j, hj, fun hji u hu => hs u (hc hji u hu)⟩

theorem hoistName_sub (tys : Nat → Table) (i : Nat) (r : Table) (n : String) : Sub r (hoistName tys i r n) := by
  intro m hm
  cases hl : r.lookup n with
  | none => rw [hoistName_none _ _ _ _ hl]; exact hm
  | some j =>
    rw [lookup_hoistName _ _ _ _ _ hl]
    cases (if j == i then [] else tys j).lookup m with
    | none => exact hm
    | some k => rfl

theorem hoistName_sound (tys : Nat → Table) (i : Nat) (root r : Table) (n : String) (hs : Sound tys i root r) :
    Sound tys i root (hoistName tys i r n) := by
  intro m k hm
  cases hl : r.lookup n with
  | none => rw [hoistName_none _ _ _ _ hl] at hm; exact hs m k hm
  | some j =>
    rw [lookup_hoistName _ _ _ _ _ hl] at hm
    cases hi : (if j == i then [] else tys j).lookup m with
    | none => rw [hi] at hm; exact hs m k hm
    | some k' =>
      rw [hi] at hm
      obtain ⟨hji, hk⟩ := inner_lookup tys i j m k' hi
      cases hm
      exact .step (hs n j hl) hji hk

theorem hoistName_done (tys : Nat → Table) (i : Nat) (root r : Table) (n : String) (hs : Sound tys i root r)
    (hn : (r.lookup n).isSome) : Done tys i root n (hoistName tys i r n) := by
  cases hl : r.lookup n with
  | none => rw [hl] at hn; cases hn
  | some j =>
    refine ⟨j, hs n j hl, fun hji u hu => ?_⟩
    rw [lookup_hoistName _ _ _ _ _ hl]
    have e : (if j == i then [] else tys j) = tys j := by simp [hji]
    rw [e]
    cases hk : (tys j).lookup u with
    | none => rw [hk] at hu; cases hu
    | some k => rfl

theorem foldl_hoistName (tys : Nat → Table) (i : Nat) (root : Table) (ns : List String) (r : Table)
    (hs : Sound tys i root r) (hn : ∀ n ∈ ns, (r.lookup n).isSome) :
    Sound tys i root (ns.foldl (hoistName tys i) r) ∧ Sub r (ns.foldl (hoistName tys i) r) ∧
    ∀ n ∈ ns, Done tys i root n (ns.foldl (hoistName tys i) r) := by
  induction ns generalizing r with
  | nil => exact ⟨hs, fun _ h => h, fun _ h => by cases h⟩
  | cons a ns ih =>
    simp only [List.foldl_cons]
    have hsub := hoistName_sub tys i r a
    obtain ⟨h1, h2, h3⟩ := ih (hoistName tys i r a) (hoistName_sound tys i root r a hs)
      (fun n h => hsub n (hn n (List.mem_cons_of_mem _ h)))
    refine ⟨h1, hsub.trans h2, fun n h => ?_⟩
    cases h with
    | head => exact (hoistName_done tys i root r a hs (hn a List.mem_cons_self)).mono h2
    | tail _ h => exact h3 n h

/-- the invariant of the loop, read at its exit -/
theorem hoistLoopO_inv (tys : Nat → Table) (i : Nat) (root : Table) (f : Nat) (pr : List String) (r t : Table)
    (hs : Sound tys i root r) (hsub : Sub root r) (hd : ∀ n ∈ pr, Done tys i root n r)
    (h : hoistLoopO tys i f pr r = some t) :
    Sound tys i root t ∧ Sub root t ∧ ∀ n, (t.lookup n).isSome → Done tys i root n t := by
  induction f generalizing pr r with
  | zero => simp [hoistLoopO] at h
  | succ f ih =>
    rw [hoistLoopO_succ] at h
    split at h
    · rename_i he
      cases h
      refine ⟨hs, hsub, fun n hn => hd n ?_⟩
      have hnil : pending pr t = [] := by simpa [List.isEmpty_iff] using he
      by_cases hnp : n ∈ pr
      · exact hnp
      · have : n ∈ pending pr t := (mem_pending _ _ _).2 ⟨(lookup_isSome_iff t n).1 hn, hnp⟩
        rw [hnil] at this; cases this
    · rw [hoistRound_eq] at h
      have hns : ∀ n ∈ pending pr r, (r.lookup n).isSome := by
        intro n hn
        exact (lookup_isSome_iff r n).2 ((mem_pending _ _ _).1 hn).1
      obtain ⟨h1, h2, h3⟩ := foldl_hoistName tys i root _ r hs hns
      refine ih _ _ h1 (hsub.trans h2) (fun n hn => ?_) h
      rcases List.mem_append.1 hn with hn | hn
      · exact (hd n hn).mono h2
      · exact h3 n hn

theorem hoisted_spec (p : Pool W) (i : Nat) (o : Obj W) (ho : p[i]? = some o) :
    Sound (tysOf p) i o.types (hoisted p i o.types) ∧ Sub o.types (hoisted p i o.types) ∧
    ∀ n, ((hoisted p i o.types).lookup n).isSome → Done (tysOf p) i o.types n (hoisted p i o.types) :=
  hoistLoopO_inv (tysOf p) i o.types (fuelOf p) [] o.types _ (fun _ _ h => .base h) (fun _ h => h)
    (fun _ h => by cases h) (hoistLoopO_fuelOf p i o ho)

/-- without collisions the hoisted table IS the reachability relation -/
theorem hoisted_iff_of_functional (p : Pool W) (i : Nat) (o : Obj W) (ho : p[i]? = some o)
    (hf : Functional (tysOf p) i o.types) (n : String) (j : Nat) :
    (hoisted p i o.types).lookup n = some j ↔ Reach (tysOf p) i o.types n j := by
  obtain ⟨hs, hsub, hd⟩ := hoisted_spec p i o ho
  refine ⟨hs n j, fun h => ?_⟩
  induction h with
  | base h =>
    rename_i n j
    have := hsub n (by simp [h])
    cases hl : (hoisted p i o.types).lookup n with
    | none => rw [hl] at this; cases this
    | some j' => rw [hf n j j' (.base h) (hs n j' hl)]
  | step hr hji hk ih =>
    rename_i n j u k
    obtain ⟨j', hj', hc⟩ := hd n (by simp [ih])
    have e : j' = j := hf n j' j hj' hr
    subst e
    have := hc hji u (by simp [hk])
    cases hl : (hoisted p i o.types).lookup u with
    | none => rw [hl] at this; cases this
    | some k' => rw [hf u k k' (.step hr hji hk) (hs u k' hl)]

end Hoist
end SchemaObj
