/-!
C12: concurrent `Example()` calls on one schema object share the buffer pool of `example.go`. Model: every
goroutine runs  get buffer → write its content → copy the result out → put the buffer back ; the steps of all
goroutines are interleaved by an arbitrary schedule. `sync.Pool.Get` / `Put` are atomic steps.
Theorem: under every schedule every goroutine's result is its own content (what the sequential run gives).
The pinned variant (hand out the pooled buffer itself) fails under a concrete schedule.
-/
namespace PoolRace

structure G where
  pc : Nat := 0                      -- 0 get, 1 write, 2 copy out, 3 put, 4 done
  buf : Nat := 0                     -- the buffer held while 1 ≤ pc ≤ 3
  res : Option (List Nat) := none

structure PS where
  pool : List Nat := []              -- free buffer ids
  bufs : List (List Nat) := []       -- buffer id = index; content
  gs : Nat → G := fun _ => {}

def upd (gs : Nat → G) (g : Nat) (x : G) : Nat → G := fun h => if h = g then x else gs h

/-- one step of goroutine `g`; `inp g` is the text its `Example()` assembles -/
def step (inp : Nat → List Nat) (s : PS) (g : Nat) : PS :=
  match (s.gs g).pc with
  | 0 => match s.pool with
    | id :: rest => { s with pool := rest, gs := upd s.gs g { s.gs g with pc := 1, buf := id } }
    | [] => { s with bufs := s.bufs ++ [[]], gs := upd s.gs g { s.gs g with pc := 1, buf := s.bufs.length } }
  | 1 => { s with bufs := s.bufs.set (s.gs g).buf (inp g), gs := upd s.gs g { s.gs g with pc := 2 } }
  | 2 => { s with gs := upd s.gs g { s.gs g with pc := 3, res := s.bufs[(s.gs g).buf]? } }
  | 3 => { s with pool := (s.gs g).buf :: s.pool, gs := upd s.gs g { s.gs g with pc := 4 } }
  | _ => s

def run (inp : Nat → List Nat) (s : PS) (sched : List Nat) : PS := sched.foldl (step inp) s

def holds (x : G) : Prop := 1 ≤ x.pc ∧ x.pc ≤ 3

structure Inv (inp : Nat → List Nat) (s : PS) : Prop where
  pool_lt : ∀ id ∈ s.pool, id < s.bufs.length
  pool_nodup : s.pool.Nodup
  held_lt : ∀ g, holds (s.gs g) → (s.gs g).buf < s.bufs.length
  held_free : ∀ g, holds (s.gs g) → (s.gs g).buf ∉ s.pool
  held_distinct : ∀ g h, holds (s.gs g) → holds (s.gs h) → (s.gs g).buf = (s.gs h).buf → g = h
  written : ∀ g, (s.gs g).pc = 2 → s.bufs[(s.gs g).buf]? = some (inp g)
  result : ∀ g, 3 ≤ (s.gs g).pc → (s.gs g).res = some (inp g)

theorem inv_init (inp : Nat → List Nat) : Inv inp {} where
  pool_lt := by simp
  pool_nodup := by simp
  held_lt := by intro g h; simp [holds] at h
  held_free := by intro g h; simp [holds] at h
  held_distinct := by intro g h hg; simp [holds] at hg
  written := by intro g h; simp at h
  result := by intro g h; simp at h

theorem upd_same (gs : Nat → G) (g : Nat) (x : G) : upd gs g x g = x := by simp [upd]
theorem upd_other (gs : Nat → G) (g h : Nat) (x : G) (hne : h ≠ g) : upd gs g x h = gs h := by simp [upd, hne]

theorem step_inv (inp : Nat → List Nat) (s : PS) (hi : Inv inp s) (g : Nat) : Inv inp (step inp s g) := by
  unfold step
  split
  · -- get
    rename_i hpc
    have hng : ¬ holds (s.gs g) := by simp [holds, hpc]
    split
    · rename_i id rest hp
      have hid : id < s.bufs.length := hi.pool_lt id (by simp [hp])
      have hnd : id ∉ rest ∧ rest.Nodup := by have := hi.pool_nodup; rw [hp] at this; simpa using this
      refine ⟨?_, hnd.2, ?_, ?_, ?_, ?_, ?_⟩
      · intro x hx; exact hi.pool_lt x (by simp [hp, hx])
      · intro h hh
        by_cases e : h = g
        · subst e; simpa [upd_same] using hid
        · simp only [upd_other _ _ _ _ e] at hh ⊢; exact hi.held_lt h hh
      · intro h hh
        by_cases e : h = g
        · subst e; simpa [upd_same] using hnd.1
        · simp only [upd_other _ _ _ _ e] at hh ⊢
          have := hi.held_free h hh
          rw [hp] at this
          exact fun hm => this (List.mem_cons_of_mem _ hm)
      · intro a b ha hb hab
        by_cases ea : a = g <;> by_cases eb : b = g
        · rw [ea, eb]
        · subst ea
          simp only [upd_other _ _ _ _ eb] at hb hab
          simp only [upd_same] at hab
          exact absurd (hab ▸ (by simp [hp] : id ∈ s.pool)) (hi.held_free b hb)
        · subst eb
          simp only [upd_other _ _ _ _ ea] at ha hab
          simp only [upd_same] at hab
          exact absurd (hab ▸ (by simp [hp] : id ∈ s.pool)) (hi.held_free a ha)
        · simp only [upd_other _ _ _ _ ea] at ha hab
          simp only [upd_other _ _ _ _ eb] at hb hab
          exact hi.held_distinct a b ha hb hab
      · intro h hh
        by_cases e : h = g
        · subst e; simp [upd_same] at hh
        · simp only [upd_other _ _ _ _ e] at hh ⊢; exact hi.written h hh
      · intro h hh
        by_cases e : h = g
        · subst e; simp [upd_same] at hh
        · simp only [upd_other _ _ _ _ e] at hh ⊢; exact hi.result h hh
    · rename_i hp
      refine ⟨?_, by simp [hp], ?_, ?_, ?_, ?_, ?_⟩
      · intro x hx; simp [hp] at hx
      · intro h hh
        by_cases e : h = g
        · subst e; simp [upd_same]
        · simp only [upd_other _ _ _ _ e] at hh ⊢
          have := hi.held_lt h hh; simp; omega
      · intro h _; simp [hp]
      · intro a b ha hb hab
        by_cases ea : a = g <;> by_cases eb : b = g
        · rw [ea, eb]
        · subst ea
          simp only [upd_other _ _ _ _ eb] at hb hab
          simp only [upd_same] at hab
          have := hi.held_lt b hb; omega
        · subst eb
          simp only [upd_other _ _ _ _ ea] at ha hab
          simp only [upd_same] at hab
          have := hi.held_lt a ha; omega
        · simp only [upd_other _ _ _ _ ea] at ha hab
          simp only [upd_other _ _ _ _ eb] at hb hab
          exact hi.held_distinct a b ha hb hab
      · intro h hh
        by_cases e : h = g
        · subst e; simp [upd_same] at hh
        · simp only [upd_other _ _ _ _ e] at hh ⊢
          have h2 : holds (s.gs h) := by simp [holds, hh]
          have := hi.held_lt h h2
          rw [List.getElem?_append_left this]; exact hi.written h hh
      · intro h hh
        by_cases e : h = g
        · subst e; simp [upd_same] at hh
        · simp only [upd_other _ _ _ _ e] at hh ⊢; exact hi.result h hh
  · -- write
    rename_i hpc
    have hg : holds (s.gs g) := by simp [holds, hpc]
    have hlt := hi.held_lt g hg
    refine ⟨?_, hi.pool_nodup, ?_, ?_, ?_, ?_, ?_⟩
    · intro x hx; simpa using hi.pool_lt x hx
    · intro h hh
      by_cases e : h = g
      · subst e; simpa [upd_same] using hlt
      · simp only [upd_other _ _ _ _ e] at hh ⊢; simpa using hi.held_lt h hh
    · intro h hh
      by_cases e : h = g
      · subst e; simpa [upd_same] using hi.held_free h hg
      · simp only [upd_other _ _ _ _ e] at hh ⊢; exact hi.held_free h hh
    · intro a b ha hb hab
      by_cases ea : a = g <;> by_cases eb : b = g
      · rw [ea, eb]
      · subst ea
        simp only [upd_other _ _ _ _ eb] at hb hab
        simp only [upd_same] at hab
        exact hi.held_distinct a b hg hb hab
      · subst eb
        simp only [upd_other _ _ _ _ ea] at ha hab
        simp only [upd_same] at hab
        exact hi.held_distinct a b ha hg hab
      · simp only [upd_other _ _ _ _ ea] at ha hab
        simp only [upd_other _ _ _ _ eb] at hb hab
        exact hi.held_distinct a b ha hb hab
    · intro h hh
      by_cases e : h = g
      · subst e; simp [upd_same, hlt]
      · simp only [upd_other _ _ _ _ e] at hh ⊢
        have h2 : holds (s.gs h) := by simp [holds, hh]
        have hne : (s.gs g).buf ≠ (s.gs h).buf := fun hb => e (hi.held_distinct g h hg h2 hb).symm
        rw [List.getElem?_set_ne hne]; exact hi.written h hh
    · intro h hh
      by_cases e : h = g
      · subst e; simp [upd_same] at hh
      · simp only [upd_other _ _ _ _ e] at hh ⊢; exact hi.result h hh
  · -- copy out
    rename_i hpc
    have hg : holds (s.gs g) := by simp [holds, hpc]
    refine ⟨hi.pool_lt, hi.pool_nodup, ?_, ?_, ?_, ?_, ?_⟩
    · intro h hh
      by_cases e : h = g
      · subst e; simpa [upd_same] using hi.held_lt h hg
      · simp only [upd_other _ _ _ _ e] at hh ⊢; exact hi.held_lt h hh
    · intro h hh
      by_cases e : h = g
      · subst e; simpa [upd_same] using hi.held_free h hg
      · simp only [upd_other _ _ _ _ e] at hh ⊢; exact hi.held_free h hh
    · intro a b ha hb hab
      by_cases ea : a = g <;> by_cases eb : b = g
      · rw [ea, eb]
      · subst ea
        simp only [upd_other _ _ _ _ eb] at hb hab
        simp only [upd_same] at hab
        exact hi.held_distinct a b hg hb hab
      · subst eb
        simp only [upd_other _ _ _ _ ea] at ha hab
        simp only [upd_same] at hab
        exact hi.held_distinct a b ha hg hab
      · simp only [upd_other _ _ _ _ ea] at ha hab
        simp only [upd_other _ _ _ _ eb] at hb hab
        exact hi.held_distinct a b ha hb hab
    · intro h hh
      by_cases e : h = g
      · subst e; simp [upd_same] at hh
      · simp only [upd_other _ _ _ _ e] at hh ⊢; exact hi.written h hh
    · intro h hh
      by_cases e : h = g
      · subst e; simpa [upd_same] using hi.written h hpc
      · simp only [upd_other _ _ _ _ e] at hh ⊢; exact hi.result h hh
  · -- put
    rename_i hpc
    have hg : holds (s.gs g) := by simp [holds, hpc]
    have hres := hi.result g (by omega)
    refine ⟨?_, ?_, ?_, ?_, ?_, ?_, ?_⟩
    · intro x hx
      rcases List.mem_cons.1 hx with rfl | hx
      · exact hi.held_lt g hg
      · exact hi.pool_lt x hx
    · exact List.nodup_cons.2 ⟨hi.held_free g hg, hi.pool_nodup⟩
    · intro h hh
      by_cases e : h = g
      · subst e; simp [upd_same, holds] at hh
      · simp only [upd_other _ _ _ _ e] at hh ⊢; exact hi.held_lt h hh
    · intro h hh
      by_cases e : h = g
      · subst e; simp [upd_same, holds] at hh
      · simp only [upd_other _ _ _ _ e] at hh ⊢
        intro hm
        rcases List.mem_cons.1 hm with hm | hm
        · exact e (hi.held_distinct h g hh hg hm)
        · exact hi.held_free h hh hm
    · intro a b ha hb hab
      by_cases ea : a = g
      · subst ea; simp [upd_same, holds] at ha
      · by_cases eb : b = g
        · subst eb; simp [upd_same, holds] at hb
        · simp only [upd_other _ _ _ _ ea] at ha hab
          simp only [upd_other _ _ _ _ eb] at hb hab
          exact hi.held_distinct a b ha hb hab
    · intro h hh
      by_cases e : h = g
      · subst e; simp [upd_same] at hh
      · simp only [upd_other _ _ _ _ e] at hh ⊢; exact hi.written h hh
    · intro h hh
      by_cases e : h = g
      · subst e; simpa [upd_same] using hres
      · simp only [upd_other _ _ _ _ e] at hh ⊢; exact hi.result h hh
  · exact hi

theorem run_inv (inp : Nat → List Nat) (sched : List Nat) : ∀ s, Inv inp s → Inv inp (run inp s sched) := by
  induction sched with
  | nil => intro s h; exact h
  | cons g gs ih => intro s h; exact ih _ (step_inv inp s h g)

/-- **under every schedule** a goroutine that has copied its result out (and any that has finished) holds
exactly its own text -/
theorem result_is_own (inp : Nat → List Nat) (sched : List Nat) (g : Nat)
    (h : 3 ≤ ((run inp {} sched).gs g).pc) : ((run inp {} sched).gs g).res = some (inp g) :=
  (run_inv inp sched {} (inv_init inp)).result g h

/-! ### the pinned variant: the pooled buffer itself is the result -/
/-- step 2 records the buffer id instead of copying; the caller reads the buffer later -/
def readPinned (s : PS) (g : Nat) : Option (List Nat) := s.bufs[(s.gs g).buf]?

/-- goroutine 0 finishes, goroutine 1 reuses the buffer: what goroutine 0 holds now reads as 1's text -/
theorem pinned_overwritten :
    let inp : Nat → List Nat := fun g => [g + 7]
    let s := run inp {} [0, 0, 0, 0, 1, 1]
    (s.gs 0).pc = 4 ∧ readPinned s 0 = some [8] := by decide

end PoolRace
