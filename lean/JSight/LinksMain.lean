import JSight.LinksComplete
import JSight.UsedProofs
/-!
C09 (a): the statements about the link check, assembled.
-/
namespace LK

instance : DecidableEq (Except Err Unit)
  | .ok _, .ok _ => isTrue rfl
  | .error a, .error b => if h : a = b then isTrue (by rw [h]) else isFalse (fun e => h (by cases e; rfl))
  | .ok _, .error _ => isFalse (fun e => by cases e)
  | .error _, .ok _ => isFalse (fun e => by cases e)

/-- the order parameter only ever holds or-shortcut nodes of the added types -/
def OrdOK (g : G) (ord : List (List String)) : Prop := ∀ l ∈ ord, l ∈ orNodes g

theorem orNodes_ordOK (g : G) : OrdOK g (orNodes g) := fun _ h => h
theorem nil_ordOK (g : G) : OrdOK g [] := fun _ h => by simp at h

/-- the verdict is `OK` or `Type "n" not found`: no other error of the compile pipeline comes first -/
def OnlyMissing (g : G) (ord : List (List String)) : Prop :=
  ∀ e, linkCheck g ord = .error e → ∃ n, e = .missing n

instance (r : Except Err Unit) : Decidable (∀ e, r = .error e → ∃ n, e = Err.missing n) :=
  match r with
  | .ok _ => isTrue (fun e h => by cases h)
  | .error (.missing n) => isTrue (fun e h => by cases h; exact ⟨n, rfl⟩)
  | .error .allOfRecursion => isFalse (fun h => by obtain ⟨n, hn⟩ := h _ rfl; cases hn)
  | .error (.allOfNotObject _) => isFalse (fun h => by obtain ⟨n, hn⟩ := h _ rfl; cases hn)
  | .error .addpConflict => isFalse (fun h => by obtain ⟨n, hn⟩ := h _ rfl; cases hn)
  | .error (.dupKey _) => isFalse (fun h => by obtain ⟨n, hn⟩ := h _ rfl; cases hn)
  | .error .incorrectUserType => isFalse (fun h => by obtain ⟨n, hn⟩ := h _ rfl; cases hn)
  | .error (.jsonTypeRecursion _) => isFalse (fun h => by obtain ⟨n, hn⟩ := h _ rfl; cases hn)
  | .error (.keyNotString _) => isFalse (fun h => by obtain ⟨n, hn⟩ := h _ rfl; cases hn)
  | .error .fuel => isFalse (fun h => by obtain ⟨n, hn⟩ := h _ rfl; cases hn)

instance (g : G) (ord : List (List String)) : Decidable (OnlyMissing g ord) := by
  unfold OnlyMissing; infer_instance

theorem links_names_missing (g : G) (ord : List (List String)) (hord : OrdOK g ord) (n : String)
    (h : linkCheck g ord = .error (.missing n)) : Refs g n ∧ ¬ InTable g n :=
  linkCheckF_sound g (fuelOf g) ord hord n h

theorem links_ok_resolved (g : G) (ord : List (List String)) (h : linkCheck g ord = .ok ()) : Resolved g :=
  linkCheckF_complete g (fuelOf g) ord () h

theorem links_iff (g : G) (ord : List (List String)) (hord : OrdOK g ord) (hno : OnlyMissing g ord) :
    linkCheck g ord = .ok () ↔ Resolved g := by
  constructor
  · exact links_ok_resolved g ord
  · intro hres
    cases h : linkCheck g ord with
    | ok u => rfl
    | error e =>
      obtain ⟨n, rfl⟩ := hno e h
      obtain ⟨hr, hnt⟩ := links_names_missing g ord hord n h
      exact absurd (hres n hr) hnt

/-- with no other error in the way: Check fails naming a missing type iff some referenced type was not added -/
theorem links_fails_iff (g : G) (ord : List (List String)) (hord : OrdOK g ord) (hno : OnlyMissing g ord) :
    (∃ n, linkCheck g ord = .error (.missing n)) ↔ ¬ Resolved g := by
  constructor
  · rintro ⟨n, h⟩ hres
    obtain ⟨hr, hnt⟩ := links_names_missing g ord hord n h
    exact hnt (hres n hr)
  · intro hnr
    cases h : linkCheck g ord with
    | ok u => exact absurd (links_ok_resolved g ord h) hnr
    | error e =>
      obtain ⟨n, rfl⟩ := hno e h
      exact ⟨n, rfl⟩

/-- the statement at full strength (no hypothesis about other errors) -/
def links_full : Prop :=
  ∀ (g : G) (ord : List (List String)), OrdOK g ord → ((∃ n, linkCheck g ord = .error (.missing n)) ↔ ¬ Resolved g)

/-- `{ // {allOf: "@A"} "b": @M }` with `@A = {} // {allOf: "@A"}`: the `allOf` recursion (703) is met before `@M` -/
def witness703 : G :=
  { root := .obj ["@A"] none [("b", false, .ref ["@M"])], types := [("@A", .obj ["@A"] none [])] }

theorem witness703_verdict : linkCheck witness703 [] = .error .allOfRecursion := by decide

theorem links_full_false : ¬ links_full := by
  intro h
  have h1 := (h witness703 [] (nil_ordOK _)).2 (by
    intro hres
    have : InTable witness703 "@M" := hres "@M" (Or.inl (.prop _ _ _ "b" false (.ref ["@M"]) "@M" (by simp) (.ref _ _ (by simp))))
    obtain ⟨b, hb⟩ := this
    have hnone : lookup witness703 "@M" = none := by decide
    rw [hnone] at hb
    cases hb)
  obtain ⟨n, hn⟩ := h1
  rw [witness703_verdict] at hn
  cases hn

end LK
