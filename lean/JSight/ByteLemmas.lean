/-! Facts about all 256 bytes, proved by kernel evaluation over `List.range 256`. -/
namespace Bytes

theorem all_range (p : Nat → Bool) (n : Nat) (h : (List.range n).all p = true) : ∀ i, i < n → p i = true := by
  intro i hi
  exact List.all_eq_true.1 h i (List.mem_range.2 hi)

/-- a Boolean predicate that evaluates to `true` on `UInt8.ofNat 0 … 255` holds for every byte -/
theorem forall_uint8 (p : UInt8 → Bool) (h : (List.range 256).all (fun n => p (UInt8.ofNat n)) = true) :
    ∀ c : UInt8, p c = true := by
  intro c
  have := all_range (fun n => p (UInt8.ofNat n)) 256 h c.toNat c.toNat_lt
  simpa using this

end Bytes
