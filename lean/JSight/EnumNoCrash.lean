import JSight.EnumNoCrashStep
/-!
No-crash theorem for the enum-rule scanner model, part 2: `shiftFound`, `next`, `events`, `lengthLoop`
(including sufficiency of all fuel parameters).

Loop condition `C data B s`: either `Inv s` (see EnumNoCrashStep) and
`|finds| + 4 * (size - index) + 4 ≤ B`, or the tail phase (`finds = []`, `size ≤ index`, `|stack| ≤ B`).
Each successful `next` lowers `B` by one; `next` itself needs fuel `> size - index`.
-/
set_option linter.unusedSimpArgs false
set_option linter.unusedVariables false
namespace EnumScan
open SchemaScan (Cls classify)

/-! ### stage 1: one `dispatch` from a quiescent invariant state, then all the queued `shiftFound`s -/

theorem inv_len {st : St} {ret : List St} {ty finds : List LexT} (h : inv st ret ty finds = true) :
    finds.length ≤ 4 := by
  unfold inv at h
  simp only [Bool.and_eq_true, decide_eq_true_eq] at h
  exact h.1

theorem inv_cons {st : St} {ret : List St} {ty : List LexT} {t : LexT} {rest : List LexT}
    (h : inv st ret ty (t :: rest) = true) : ∃ ty', popTy ty t = some ty' ∧ inv st ret ty' rest = true := by
  unfold inv at h ⊢
  simp only [Bool.and_eq_true, decide_eq_true_eq, drainTy, List.length_cons] at h
  obtain ⟨hl, hd⟩ := h
  cases hp : popTy ty t with
  | none => simp [hp] at hd
  | some ty' =>
    refine ⟨ty', rfl, ?_⟩
    simp only [hp] at hd
    simp only [Bool.and_eq_true, decide_eq_true_eq]
    exact ⟨by omega, hd⟩

theorem shift_cons {s : Sc} {t : LexT} {rest : List LexT} (hq : Inv s) (hfs : s.finds = t :: rest) :
    ∃ s' ev, shiftFound s = .ok (some (s', ev)) ∧ Inv s' ∧ s'.index = s.index ∧ s'.finds = rest := by
  unfold Inv at hq
  rw [hfs] at hq
  obtain ⟨ty', hp, hi⟩ := inv_cons hq
  obtain ⟨s', ev, h1, h2, h3, h4, h5, h6, _⟩ := processFound_ok { s with finds := rest } t ty' hp
  refine ⟨s', ev, ?_, ?_, h6, h5⟩
  · unfold shiftFound
    rw [hfs]
    simp only [h1, Functor.map, Except.map]
  · unfold Inv
    rw [h2, h3, h4, h5]
    exact hi

theorem shift_nil {s : Sc} (hfs : s.finds = []) : shiftFound s = .ok none := by
  unfold shiftFound
  rw [hfs]
  rfl

/-! ### stage 2/3: `next`, `events`, `lengthLoop` -/

/-- the `processTail` part of `next` -/
def tailE (data : Array Cls) (s : Sc) : M (Sc × Ev) := do
  if s.stack.isEmpty then throw .eos
  let s := { s with index := s.index + 1 }
  match stackTy s 0 with
  | some .litB => if s.unf then throw (.unexpectedEOF (data.size - 1)) else processFound s .litE
  | some .inlAnnB => processFound s .inlAnnE
  | some .inlTxtB => processFound s .inlTxtE
  | some .mlAnnB => processFound s .mlAnnE
  | some .mlTxtB => processFound s .mlTxtE
  | _ => throw (.unexpectedEOF (data.size - 1))

theorem next_succ (content : Array UInt8) (data : Array Cls) (fuel : Nat) (s : Sc) :
    next content data (fuel + 1) s = (do
      if let some r ← shiftFound s then return r
      if s.index < data.size then
        let c := data[s.index]!
        let s := { s with index := s.index + 1 }
        let s ← dispatch content 8 s c data[s.index]?
        if let some r ← shiftFound s then return r
        next content data fuel s
      else tailE data s) := by
  rfl

def TailOut (data : Array Cls) (s : Sc) (r : M (Sc × Ev)) : Prop :=
  match r with
  | .ok (s', _) => s'.finds = [] ∧ data.size ≤ s'.index ∧ s'.stack.length + 1 = s.stack.length
  | .error e => e.isCrash = false

theorem tailE_spec (data : Array Cls) (s : Sc) (hf : s.finds = []) (hi : data.size ≤ s.index) :
    TailOut data s (tailE data s) := by
  obtain ⟨step, ret, stack, finds, index, ann, unf, lc, htr, uq⟩ := s
  simp only at hf hi
  subst hf
  unfold tailE
  cases stack with
  | nil => rfl
  | cons pb rest =>
    obtain ⟨p, b⟩ := pb
    cases p <;> cases unf <;>
      simp [TailOut, stackTy, processFound, LexT.isOpening, bind, Except.bind, pure, Except.pure, throw, throwThe,
        MonadExceptOf.throw, Err.isCrash] <;> omega

theorem qs_len {st : St} {ret : List St} {ty : List LexT} (hs : qs st ret ty = true) : ty.length ≤ 3 := by
  cases st <;>
  first
  | (obtain ⟨r, _, hr, rfl⟩ := qs_ann rfl hs
     rcases hr with rfl | rfl | rfl | rfl <;> simp [base])
  | (simp [qs, lit3] at hs
     obtain ⟨_, hs⟩ := hs
     first
     | (subst hs; simp)
     | (rcases hs with rfl | rfl <;> simp))

theorem Inv_stack_len {s : Sc} (hq : Inv s) (hf : s.finds = []) : s.stack.length ≤ 3 := by
  have := qs_len (Inv_quiescent hq hf)
  simpa [tys] using this

/-- loop condition with the bound `B` on the number of events still to come -/
def C (data : Array Cls) (B : Nat) (s : Sc) : Prop :=
  (Inv s ∧ s.finds.length + 4 * (data.size - s.index) + 4 ≤ B)
  ∨ (s.finds = [] ∧ data.size ≤ s.index ∧ s.stack.length ≤ B)

def NextOut (data : Array Cls) (B : Nat) (r : M (Sc × Ev)) : Prop :=
  match r with
  | .ok (s', _) => 1 ≤ B ∧ C data (B - 1) s'
  | .error e => e.isCrash = false

theorem tail_next {data : Array Cls} {B : Nat} {s : Sc} (hf : s.finds = []) (hi : data.size ≤ s.index)
    (hB : s.stack.length ≤ B) : NextOut data B (tailE data s) := by
  have := tailE_spec data s hf hi
  unfold TailOut at this
  unfold NextOut
  cases h : tailE data s with
  | error e => rw [h] at this; exact this
  | ok x =>
    obtain ⟨s', ev⟩ := x
    rw [h] at this
    simp only at this ⊢
    exact ⟨by omega, Or.inr ⟨this.1, this.2.1, by omega⟩⟩

theorem next_spec (content : Array UInt8) (data : Array Cls) :
    ∀ (nf : Nat) (s : Sc) (B : Nat), data.size - s.index < nf → C data B s →
      NextOut data B (next content data nf s) := by
  intro nf
  induction nf with
  | zero => intro s B h; omega
  | succ nf ih =>
    intro s B hnf hC
    rw [next_succ]
    rcases hC with ⟨hq, hB⟩ | ⟨hf, hi, hB⟩
    · cases hfs : s.finds with
      | cons t rest =>
        obtain ⟨s', ev, h1, h2, h3, h4⟩ := shift_cons hq hfs
        simp only [h1, bind, Except.bind, pure, Except.pure]
        rw [hfs] at hB
        simp only [List.length_cons] at hB
        refine ⟨by omega, Or.inl ⟨h2, ?_⟩⟩
        rw [h4, h3]
        omega
      | nil =>
        simp only [shift_nil hfs, bind, Except.bind]
        by_cases hlt : s.index < data.size
        · simp only [hlt, if_true]
          have hg : Good { s with index := s.index + 1 }
              (dispatch content 8 { s with index := s.index + 1 } data[s.index]! data[s.index + 1]?) :=
            good_dispatch (f := 6) (s := { s with index := s.index + 1 }) hq hfs
          simp only [hfs] at hg
          generalize dispatch content 8 _ _ _ = r at hg ⊢
          cases r with
          | error e => exact hg
          | ok s2 =>
            obtain ⟨hq2, hi2⟩ := hg
            simp only at hi2 ⊢
            cases hfs2 : s2.finds with
            | cons t rest =>
              obtain ⟨s', ev, h1, h2, h3, h4⟩ := shift_cons hq2 hfs2
              simp only [h1, pure, Except.pure]
              have hl := inv_len hq2
              rw [hfs2] at hl
              simp only [List.length_cons] at hl
              rw [hfs] at hB
              simp only [List.length_nil] at hB
              refine ⟨by omega, Or.inl ⟨h2, ?_⟩⟩
              rw [h4, h3, hi2]
              omega
            | nil =>
              simp only [shift_nil hfs2]
              rw [hfs] at hB
              simp only [List.length_nil] at hB
              refine ih s2 B (by omega) (Or.inl ⟨hq2, ?_⟩)
              rw [hfs2, hi2]
              simp only [List.length_nil]
              omega
        · simp only [hlt, if_false]
          exact tail_next hfs (by omega) (by have := Inv_stack_len hq hfs; omega)
    · have hn : ¬ s.index < data.size := by omega
      simp only [shift_nil hf, bind, Except.bind, hn, if_false]
      exact tail_next hf hi hB

theorem events_spec (content : Array UInt8) (data : Array Cls) :
    ∀ (fuel : Nat) (s : Sc) (acc : List Ev) (B : Nat), B < fuel → C data B s →
      ∀ e, events content data fuel s acc = .error e → e.isCrash = false := by
  intro fuel
  induction fuel with
  | zero => intro s acc B h; omega
  | succ fuel ih =>
    intro s acc B hB hC e he
    have hn := next_spec content data (2 * data.size + 16) s B (by omega) hC
    unfold events at he
    unfold NextOut at hn
    split at he
    · cases he
    · rename_i e' _ heq
      rw [heq] at hn
      cases he
      exact hn
    · rename_i s' ev heq
      rw [heq] at hn
      exact ih s' _ (B - 1) (by omega) hn.2 e he

theorem lengthLoop_spec (content : Array UInt8) (data : Array Cls) :
    ∀ (fuel : Nat) (s : Sc) (len : Nat) (B : Nat), B < fuel → C data B s →
      ∀ e, lengthLoop content data fuel s len = .error e → e.isCrash = false := by
  intro fuel
  induction fuel with
  | zero => intro s acc B h; omega
  | succ fuel ih =>
    intro s len B hB hC e he
    have hn := next_spec content data (2 * data.size + 16) s B (by omega) hC
    unfold lengthLoop at he
    unfold NextOut at hn
    split at he
    · cases he
    · rename_i e' _ heq
      rw [heq] at hn
      cases he
      exact hn
    · rename_i s' ev heq
      rw [heq] at hn
      exact ih s' _ (B - 1) (by omega) hn.2 e he

theorem Inv_init : Inv {} := by unfold Inv; decide
theorem Inv_init_len : Inv { lengthComputing := true } := by unfold Inv; decide

/-- the enum-rule scanner model never ends in a crash-kind error (`.other _`: empty stack, incorrect ending of a
lexical event, or exhaustion of any of the fuel parameters), whatever the bytes -/
theorem scanAll_no_crash (bs : List UInt8) : ∀ e, scanAll bs = .error e → e.isCrash = false := by
  intro e he
  unfold scanAll at he
  refine events_spec _ _ _ {} [] (4 * ((bs.map classify).toArray.size) + 4) (by omega) (Or.inl ⟨Inv_init, ?_⟩) e he
  simp

theorem length_no_crash (bs : List UInt8) : ∀ e, length bs = .error e → e.isCrash = false := by
  intro e he
  unfold length at he
  simp only [bind, Except.bind] at he
  split at he
  · rename_i e' heq
    cases he
    refine lengthLoop_spec _ _ _ { lengthComputing := true } 0 (4 * ((bs.map classify).toArray.size) + 4) (by omega)
      (Or.inl ⟨Inv_init_len, ?_⟩) _ heq
    simp
  · cases he

end EnumScan

#print axioms EnumScan.good_dispatch
#print axioms EnumScan.next_spec
#print axioms EnumScan.scanAll_no_crash
#print axioms EnumScan.length_no_crash
