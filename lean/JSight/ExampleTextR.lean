import JSight.ExampleText
/-!
C15, text level, WITH RULES (model): `exampleBuilder.Build` (`notations/jschema/example.go`) on the loader's node table
of an ANNOTATED schema text.

What the builder reads of a node (`example.go`):
* the node's Go type: `*LiteralNode` ↦ `BasisLexEventOfSchemaForNode().Value()` — the literal token, WHATEVER constraints
  the node carries (`min`, `max`, `minLength`, `maxLength`, `regex`, `const`, `nullable`, `optional`, `type` — also
  `type: "@t"` —, `precision`, `exclusiveMinimum` / `Maximum`, `enum`, `or`, …: none is consulted);
* `*ObjectNode` / `*ArrayNode`: `node.Constraint(TypesListConstraintType) != nil` ↦ `ErrUserTypeFound`. The loader puts
  that constraint on a node for an `or` rule (`ruleLoader.ruleValue`, case `"or"`); `type: "@t"` on a container is a
  compile error (`ErrInvalidChildNodeTogetherWithTypeReference`) before the builder runs. Every other constraint of a
  container (`minItems`, `maxItems`, `additionalProperties`, `nullable`, `optional`, `type`, …) is not consulted;
* the children of the node AFTER compilation: `CompileAllOf` copies the properties of the named types into an object
  that carries `allOf` — the only compile step that changes the node tree;
* `*MixedValueNode` (type shortcut in value position), key shortcuts: the type table.

So on the node table: a literal emits its token whatever its rules; a container emits brackets around its children
unless one of its rule names is `or` or `allOf`; shortcuts stay outside the text-level fragment (answer `none`, they are
modelled on the abstract schema by `EXK.build`). `exBuildR` extends `exBuild` (`exBuildR_extends`).

`Example()` compiles and checks the schema first (`Schema.compile`): a rule that `Compile` / `Check` rejects makes the
call return that error instead. The text-level model has the scanner's and the loader's errors, not the checker's: its
answer reads "the bytes `Example()` returns whenever `Check` accepts the schema" (tie `c15-text`, stream T: the real
`Check()` verdict decides which of the two is compared).
-/
namespace Loader

/-- rule name as the loader reads it (`TrimSpaces().Unquote()`), or the synthesised name -/
def ruleNameOf (src : Array UInt8) : Sum (Nat × Nat) String → List UInt8
  | .inl sp => nameOf src sp
  | .inr s => s.toUTF8.toList

/-- `or` -/
def nmOr : List UInt8 := [111, 114]
/-- `allOf` -/
def nmAllOf : List UInt8 := [97, 108, 108, 79, 102]

/-- the rule names that change what the builder does at a container -/
def changesContainer (name : List UInt8) : Bool := name == nmOr || name == nmAllOf

/-- `exampleBuilder.Build` on node `i` of the table, rules included; `none` = outside the modelled fragment -/
def exBuildR (src : Array UInt8) (nodes : Array Node) : Nat → Nat → Option (List UInt8)
  | 0, _ => none
  | fuel + 1, i =>
    match nodes[i]? with
    | none => none
    | some nd =>
      match nd.kind with
      | .lit => nd.value.map fun sp => slice src sp.1 sp.2
      | .mixed => none
      | .arr =>
        if nd.rules.any (fun r => changesContainer (ruleNameOf src r)) then none
        else (nd.children.mapM (exBuildR src nodes fuel)).map fun parts => 91 :: (joinB parts ++ [93])
      | .obj =>
        if nd.rules.any (fun r => changesContainer (ruleNameOf src r)) then none
        else if nd.keys.length != nd.children.length || nd.keys.any (·.2.2) then none
        else
          ((nd.keys.zip nd.children).mapM fun kc =>
            (exBuildR src nodes fuel kc.2).map fun ex => slice src kc.1.1 kc.1.2.1 ++ 58 :: ex).map
            fun parts => 123 :: (joinB parts ++ [125])

/-- schema text → example bytes: scanner model, loader model, builder (rules included) -/
def exampleTextR (bs : List UInt8) : Except String (List UInt8) :=
  match loadText bs with
  | .error e => .error e
  | .ok st =>
    match st.root with
    | none => .error "EMPTY"
    | some r =>
      match exBuildR bs.toArray st.nodes (st.nodes.size + 1) r with
      | some out => .ok out
      | none => .error "UNSUPPORTED"

end Loader
