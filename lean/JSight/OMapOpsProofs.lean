import JSight.OMapOps
import JSight.OMapProofs
/-! C19: every operation sequence on the generated ordered map behaves like the reference list. -/
namespace OMap
variable {κ ν : Type} [DecidableEq κ]

omit [DecidableEq κ] in
theorem see_order (m : M κ ν) : m.see m.order = m.entries := rfl

omit [DecidableEq κ] in
theorem filterMap_congr' {α β : Type} (l : List α) (f g : α → Option β) (h : ∀ x ∈ l, f x = g x) :
    l.filterMap f = l.filterMap g := by
  induction l with
  | nil => rfl
  | cons a l ih =>
    have ha := h a (by simp)
    have := ih (fun x hx => h x (by simp [hx]))
    simp only [List.filterMap_cons, ha, this]

theorem wf_update (m : M κ ν) (h : WF m) (k : κ) (f : ν → ν) : WF (m.update k f) := by
  unfold M.update
  cases hk : m.data k with
  | none => simpa using h
  | some v =>
    refine ⟨h.nodup, ?_, h.size⟩
    intro x
    by_cases hx : x = k
    · subst hx; simp [(h.dom x), hk]
    · simp [hx, h.dom x]

theorem entries_update (m : M κ ν) (h : WF m) (k : κ) (f : ν → ν) :
    (m.update k f).entries = Ref.update m.entries k f := by
  unfold M.update
  cases hk : m.data k with
  | none =>
    simp only
    unfold Ref.update
    symm
    have : ∀ e ∈ m.entries, (fun e : κ × ν => if e.1 = k then (e.1, f e.2) else e) e = id e := by
      intro e he
      have := mem_entries_fst m he
      by_cases hx : e.1 = k
      · rw [hx, hk] at this; simp at this
      · simp [hx]
    rw [List.map_congr_left this, List.map_id]
  | some v =>
    simp only [M.entries, Ref.update]
    rw [List.map_filterMap]
    apply filterMap_congr'
    intro x _
    by_cases hx : x = k
    · subst hx; simp [hk]
    · cases hd : m.data x <;> simp [hx, hd]

theorem wf_mapVals (m : M κ ν) (h : WF m) (f : κ → ν → ν) : WF (m.mapVals f) := by
  refine ⟨h.nodup, ?_, h.size⟩
  intro x
  simp only [M.mapVals]
  by_cases hx : x ∈ m.order
  · simp [hx, (h.dom x).1 hx]
  · have : m.data x = none := by
      cases hd : m.data x with
      | none => rfl
      | some v => exact absurd ((h.dom x).2 (by simp [hd])) hx
    simp [hx, this]

theorem entries_mapVals (m : M κ ν) (f : κ → ν → ν) : (m.mapVals f).entries = Ref.mapVals m.entries f := by
  simp only [M.entries, M.mapVals, Ref.mapVals]
  rw [List.map_filterMap]
  apply filterMap_congr'
  intro x hx
  cases hd : m.data x <;> simp [hx, hd]

theorem get_ref (m : M κ ν) (h : WF m) (k : κ) : Ref.get m.entries k = m.data k := by
  unfold Ref.get
  cases hf : m.entries.find? (·.1 == k) with
  | none =>
    simp only [Option.map_none]
    cases hd : m.data k with
    | none => rfl
    | some v =>
      exfalso
      have hk : k ∈ m.order := (h.dom k).2 (by simp [hd])
      have : (k, v) ∈ m.entries := by
        simp only [M.entries, List.mem_filterMap]
        exact ⟨k, hk, by simp [hd]⟩
      have := List.find?_eq_none.1 hf _ this
      simp at this
  | some e =>
    have he := List.mem_of_find?_eq_some hf
    have hk := List.find?_some hf
    simp only [beq_iff_eq] at hk
    obtain ⟨_, hd⟩ := mem_entries_fst m he
    simp [← hk, hd]

theorem step_refines (m : M κ ν) (h : WF m) (op : Op κ ν) :
    WF (m.step op).1 ∧ (m.step op).1.entries = (Ref.step m.entries op).1 ∧ (m.step op).2 = (Ref.step m.entries op).2 := by
  cases op with
  | set k v => exact ⟨wf_set m h k v, entries_set m h k v, rfl⟩
  | update k f => exact ⟨wf_update m h k f, entries_update m h k f, rfl⟩
  | delete k => exact ⟨wf_delete m h k, entries_delete m h k, rfl⟩
  | filter p =>
    obtain ⟨w, e, t⟩ := filter_refines m h p
    refine ⟨w, e, ?_⟩
    simp only [M.step, Ref.step, t, see_order]
  | map f => exact ⟨wf_mapVals m h f, entries_mapVals m f, by simp only [M.step, Ref.step, see_order]⟩
  | find p => exact ⟨h, rfl, by simp only [M.step, Ref.step, see_order]⟩
  | each => exact ⟨h, rfl, by simp only [M.step, Ref.step, see_order]⟩
  | get k => exact ⟨h, rfl, by simp only [M.step, Ref.step, get_ref m h k]⟩
  | has k => exact ⟨h, rfl, by simp only [M.step, Ref.step, has_iff_ref m h k]⟩
  | len => exact ⟨h, rfl, by simp only [M.step, Ref.step, len_eq m h]⟩

theorem run_refines (ops : List (Op κ ν)) : ∀ (m : M κ ν), WF m →
    WF (m.run ops).1 ∧ (m.run ops).1.entries = (Ref.run m.entries ops).1 ∧ (m.run ops).2 = (Ref.run m.entries ops).2 := by
  induction ops with
  | nil => intro m h; exact ⟨h, rfl, rfl⟩
  | cons op ops ih =>
    intro m h
    obtain ⟨w, e, o⟩ := step_refines m h op
    obtain ⟨w', e', o'⟩ := ih (m.step op).1 w
    simp only [M.run, Ref.run]
    rw [e] at e' o'
    exact ⟨w', e', by rw [o, o']⟩

end OMap
