import JSight.BridgeCK3Tree
/-!
Bridge (A)∩(C), fourth part: **key shortcuts whose type is an alias** (`{@k: 1}` with `@k = @s`, `@k = @a | @b`):
(A)'s `Compile.actualRoot` and (C)'s `CK.actualRoot` / `CK.actualLoop` (`actualRootTypeVisiting`) give the same root type
through alias chains of any length, cycles included (`actual_agree`), whenever each side has `|table| + 2` units of fuel
minus the length of the path walked so far — which `Compile.checkFuel` and `CK.Env.fuel` provide: (A)'s silent
"out of fuel = mixed" branch is unreachable (`actualA_fuel_enough`), (C)'s `crash "actualRootType"` too.
-/
namespace BridgeCK
open Compile

/-- the common JSON type of a list of root types (`len(types) == 1` in `actualRootTypeVisiting`), `mixed` otherwise -/
def same : List CK.JT → CK.JT
  | [] => .mixed
  | x :: xs => if xs.all (· == x) then x else .mixed

/-- (A)'s answer read as (C)'s: `none` = mixed -/
def normJ : Option JT → CK.JT
  | none => .mixed
  | some j => jtOf j

theorem jtOf_inj (a b : JT) (h : jtOf a = jtOf b) : a = b := by cases a <;> cases b <;> first | rfl | cases h

theorem same_of_all (x : CK.JT) : (l : List CK.JT) → l ≠ [] → (∀ y ∈ l, y = x) → same l = x
  | [], h, _ => absurd rfl h
  | a :: l, _, h => by
    have ha : a = x := h a List.mem_cons_self
    subst ha
    have : l.all (· == a) = true := List.all_eq_true.2 fun y hy => by
      rw [h y (List.mem_cons_of_mem _ hy)]; exact beq_self_eq_true _
    simp only [same, this, if_true]

theorem same_of_ne (a b : CK.JT) (l : List CK.JT) (ha : a ∈ l) (hb : b ∈ l) (hne : a ≠ b) : same l = .mixed := by
  cases l with
  | nil => cases ha
  | cons x xs =>
    simp only [same]
    split
    · rename_i hall
      rw [List.all_eq_true] at hall
      have e : ∀ y ∈ x :: xs, y = x := by
        intro y hy
        rcases List.mem_cons.1 hy with e | hy
        · exact e
        · exact eq_of_beq (hall y hy)
      exact absurd ((e a ha).trans (e b hb).symm) hne
    · rfl

theorem same_mem_mixed (l : List CK.JT) (h : CK.JT.mixed ∈ l) : same l = .mixed := by
  cases l with
  | nil => rfl
  | cons x xs =>
    simp only [same]
    split
    · rename_i hall
      rw [List.all_eq_true] at hall
      rcases List.mem_cons.1 h with e | hy
      · exact e.symm
      · exact (eq_of_beq (hall _ hy)).symm
    · rfl

theorem same_congr (l l' : List CK.JT) (h : ∀ y, y ∈ l ↔ y ∈ l') : same l = same l' := by
  cases l with
  | nil =>
    cases l' with
    | nil => rfl
    | cons a _ => exact absurd ((h a).2 List.mem_cons_self) (by simp)
  | cons x xs =>
    have hne' : l' ≠ [] := by
      intro e; subst e
      exact absurd ((h x).1 List.mem_cons_self) (by simp)
    by_cases hall : ∀ y ∈ x :: xs, y = x
    · rw [same_of_all x _ (by simp) hall, same_of_all x l' hne' (fun y hy => hall y ((h y).2 hy))]
    · have : ∃ y, y ∈ x :: xs ∧ y ≠ x := by
        apply Classical.byContradiction
        intro hcon
        apply hall
        intro y hy
        apply Classical.byContradiction
        intro hyx
        exact hcon ⟨y, hy, hyx⟩
      obtain ⟨y, hy, hyx⟩ := this
      rw [same_of_ne y x _ hy List.mem_cons_self hyx,
        same_of_ne y x l' ((h y).1 hy) ((h x).1 List.mem_cons_self) hyx]

theorem eraseDups_ne_nil (a : CK.JT) (l : List CK.JT) : (a :: l).eraseDups ≠ [] := by
  rw [List.eraseDups_cons]; simp

/-- the end of `actualRootTypeVisiting`'s loop: `len(types) == 1` over the set = all root types collected are the same -/
theorem end_same : (seen : List CK.JT) →
    (if seen.eraseDups.length == 1 then seen.head? else some CK.JT.mixed) = some (same seen)
  | [] => by simp [same]
  | x :: xs => by
    rw [List.eraseDups_cons]
    by_cases hall : xs.all (· == x) = true
    · have hf : xs.filter (fun b => !b == x) = [] := by
        rw [List.filter_eq_nil_iff]
        intro y hy
        rw [List.all_eq_true] at hall
        simp [hall y hy]
      simp [hf, same, hall]
    · have hf : xs.filter (fun b => !b == x) ≠ [] := by
        intro e
        rw [List.filter_eq_nil_iff] at e
        apply hall
        rw [List.all_eq_true]
        intro y hy
        have := e y hy
        simpa using this
      cases hfl : xs.filter (fun b => !b == x) with
      | nil => exact absurd hfl hf
      | cons b bs =>
        have := eraseDups_ne_nil b bs
        cases he : (b :: bs).eraseDups with
        | nil => exact absurd he this
        | cons c cs => simp [same, hall]

/-- (C)'s loop over the names of a type shortcut: early exits (a name on the path, an undefined name) answer `mixed`,
which is what the collected set would give -/
theorem actualLoop_same (rec : List CK.Name → CK.Info → Option CK.JT) (env : CK.Env) (vis : List CK.Name)
    (w : String → CK.JT) : (names : List String) → (seen : List CK.JT) →
    (∀ m ∈ names, (vis.contains (name m) = true ∧ w m = .mixed) ∨
      (vis.contains (name m) = false ∧ env.lookup (name m) = none ∧ w m = .mixed) ∨
      (vis.contains (name m) = false ∧ ∃ t, env.lookup (name m) = some t ∧ rec (name m :: vis) t.info = some (w m))) →
    CK.actualLoop rec env vis (names.map name) seen seen.head? = some (same (seen ++ names.map w))
  | [], seen, _ => by
    simp only [List.map_nil, List.append_nil, CK.actualLoop]
    exact end_same seen
  | m :: ms, seen, h => by
    simp only [List.map_cons, CK.actualLoop]
    rcases h m List.mem_cons_self with ⟨h1, h2⟩ | ⟨h1, h2, h3⟩ | ⟨h1, t, h2, h3⟩
    · simp only [h1, if_true]
      rw [same_mem_mixed]
      simp [h2]
    · simp only [h1, Bool.false_eq_true, if_false, h2]
      rw [same_mem_mixed]
      simp [h3]
    · simp only [h1, Bool.false_eq_true, if_false, h2, h3]
      have ih := actualLoop_same rec env vis w ms (w m :: seen) (fun x hx => h x (List.mem_cons_of_mem _ hx))
      simp only [List.head?_cons] at ih
      rw [ih]
      congr 1
      apply same_congr
      intro y
      simp only [List.mem_append, List.mem_cons, List.cons_append]
      constructor
      · rintro (h | h | h)
        · exact Or.inr (Or.inl h)
        · exact Or.inl h
        · exact Or.inr (Or.inr h)
      · rintro (h | h | h)
        · exact Or.inr (Or.inl h)
        · exact Or.inl h
        · exact Or.inr (Or.inr h)

/-- the end of (A)'s `actualRoot` on a type shortcut -/
theorem normA : (rs : List (Option JT)) →
    normJ (match rs with
      | [] => none
      | r :: rest => if rs.any (·.isNone) then none else if rest.all (· == r) then r else none) = same (rs.map normJ)
  | [] => rfl
  | r :: rest => by
    simp only []
    by_cases hany : (r :: rest).any (·.isNone) = true
    · simp only [hany, if_true, normJ]
      rw [same_mem_mixed]
      obtain ⟨x, hx, hn⟩ := List.any_eq_true.1 hany
      cases x with
      | some _ => cases hn
      | none => exact List.mem_map.2 ⟨none, hx, rfl⟩
    · simp only [hany, Bool.false_eq_true, if_false]
      have hsome : ∀ x ∈ r :: rest, ∃ j, x = some j := by
        intro x hx
        cases x with
        | some j => exact ⟨j, rfl⟩
        | none => exact absurd (List.any_eq_true.2 ⟨none, hx, rfl⟩) hany
      by_cases hall : rest.all (· == r) = true
      · simp only [hall, if_true]
        rw [same_of_all (normJ r) _ (by simp)]
        intro y hy
        obtain ⟨x, hx, rfl⟩ := List.mem_map.1 hy
        rcases List.mem_cons.1 hx with e | hx
        · rw [e]
        · rw [eq_of_beq (List.all_eq_true.1 hall x hx)]
      · simp only [hall, Bool.false_eq_true, if_false, normJ]
        have : ∃ y, y ∈ rest ∧ y ≠ r := by
          apply Classical.byContradiction
          intro hcon
          apply hall
          rw [List.all_eq_true]
          intro y hy
          apply Classical.byContradiction
          intro hyx
          exact hcon ⟨y, hy, fun e => hyx (by rw [e]; exact beq_self_eq_true _)⟩
        obtain ⟨y, hy, hyr⟩ := this
        obtain ⟨j1, e1⟩ := hsome y (List.mem_cons_of_mem _ hy)
        obtain ⟨j2, e2⟩ := hsome r List.mem_cons_self
        subst e1; subst e2
        exact (same_of_ne (jtOf j1) (jtOf j2) _ (List.mem_map.2 ⟨some j1, List.mem_cons_of_mem _ hy, rfl⟩)
          (List.mem_map.2 ⟨some j2, List.mem_cons_self, rfl⟩)
          (fun e => hyr (by rw [jtOf_inj _ _ e]))).symm

/-- a path of pairwise different defined names is not longer than the table -/
theorem nodup_length_le : (vis L : List String) → vis.Nodup → (∀ v ∈ vis, v ∈ L) → vis.length ≤ L.length
  | [], _, _, _ => Nat.zero_le _
  | v :: vs, L, hnd, hsub => by
    have hv : v ∈ L := hsub v List.mem_cons_self
    rw [List.nodup_cons] at hnd
    have ih := nodup_length_le vs (L.erase v) hnd.2 (fun x hx =>
      (List.mem_erase_of_ne (fun e => hnd.1 (by rw [← e]; exact hx))).2 (hsub x (List.mem_cons_of_mem _ hx)))
    rw [List.length_erase_of_mem hv] at ih
    have : 0 < L.length := List.length_pos_of_mem hv
    simp only [List.length_cons]
    omega

theorem lookup_some_mem (ts : Types) (n : String) (h : (lookupT ts n).isSome = true) : n ∈ ts.map (·.1) := by
  unfold lookupT at h
  cases hf : ts.find? (·.1 == n) with
  | none => rw [hf] at h; cases h
  | some t =>
    have h1 := List.mem_of_find?_eq_some hf
    have h2 := List.find?_some hf
    have : t.1 = n := eq_of_beq h2
    exact List.mem_map.2 ⟨t, h1, this⟩

theorem path_le (ts : Types) (vis : List String) (hnd : vis.Nodup) (hv : ∀ v ∈ vis, (lookupT ts v).isSome = true) :
    vis.length ≤ ts.length := by
  have := nodup_length_le vis (ts.map (·.1)) hnd (fun v h => lookup_some_mem ts v (hv v h))
  simpa using this

/-- (C)'s `actualRootTypeVisiting` on a type root that is not a type shortcut: its own JSON type, any path -/
theorem actualC_head (env : CK.Env) (f : Nat) (vis : List CK.Name) (cn : CN) (hh : headOK cn = true)
    (hk : keyHead cn = true) :
    ∃ j, cn.jt = some j ∧ CK.actualRoot env (f + 1) vis (dumpNode cn).hd.info = some (jtOf j) := by
  by_cases hnr : notRef cn = true
  · obtain ⟨j, hj, hjt, hnk, _⟩ := head_plain cn hh hnr
    refine ⟨j, hj, ?_⟩
    unfold CK.actualRoot
    rw [hjt, hnk]
    by_cases hm : jtOf j = CK.JT.mixed
    · simp [hm]
    · simp [hm]
  · cases cn with
    | ref names nul jt ex os =>
      refine ⟨jt, rfl, ?_⟩
      have hm : (jtOf jt != CK.JT.mixed) = true := by
        simp only [keyHead] at hk
        cases jt <;> first | rfl | simp at hk
      unfold CK.actualRoot
      simp only [dumpNode, CK.Node.hd, hm, if_true]
    | lit _ _ => simp [notRef] at hnr
    | any _ _ => simp [notRef] at hnr
    | arr _ _ _ => simp [notRef] at hnr
    | obj _ _ _ _ => simp [notRef] at hnr

section
variable (ts : Types) (env : CK.Env)

/-- **`actualRootType` agrees in the two models**, through alias chains of any length, or-shortcuts and cycles: with
`|table| + 2` units of fuel minus the path walked on each side, (C) answers (never out of fuel) and its answer is (A)'s,
`none` read as `mixed` -/
theorem actual_agree (hE : EnvRelN ts env) (hT : ∀ n cn, lookupT ts n = some cn → headOK cn = true) :
    (fA fC : Nat) → (vis : List String) → (n : String) → (cn : CN) → lookupT ts n = some cn →
    vis.Nodup → (∀ v ∈ vis, nameOK v ∧ (lookupT ts v).isSome = true) →
    ts.length + 2 ≤ fA + vis.length → ts.length + 2 ≤ fC + vis.length →
    CK.actualRoot env fC (vis.map name) (dumpNode cn).hd.info = some (normJ (Compile.actualRoot ts fA vis n))
  | 0, _, vis, _, _, _, hnd, hv, hA, _ => by
    have := path_le ts vis hnd (fun v h => (hv v h).2)
    omega
  | _ + 1, 0, vis, _, _, _, hnd, hv, _, hC => by
    have := path_le ts vis hnd (fun v h => (hv v h).2)
    omega
  | a + 1, c + 1, vis, n, cn, hl, hnd, hv, hA, hC => by
    have hlen := path_le ts vis hnd (fun v h => (hv v h).2)
    have hh := hT n cn hl
    by_cases hk : keyHead cn = true
    · obtain ⟨j, hj, hc⟩ := actualC_head env c (vis.map name) cn hh hk
      rw [hc]
      have : Compile.actualRoot ts (a + 1) vis n = cn.jt := by
        unfold Compile.actualRoot
        rw [hl]
        cases cn with
        | ref names nul jt ex os =>
          simp only [keyHead] at hk
          simp only [hk, if_true, CN.jt]
        | lit _ _ => rfl
        | any _ _ => rfl
        | arr _ _ _ => rfl
        | obj _ _ _ _ => rfl
      rw [this, hj]
      rfl
    · cases cn with
      | lit _ _ => exact absurd rfl hk
      | any _ _ => exact absurd rfl hk
      | arr _ _ _ => exact absurd rfl hk
      | obj _ _ _ _ => exact absurd rfl hk
      | ref names nul jt ex os =>
        have hm : jt = .mixed := by
          cases jt <;> first | rfl | exact absurd rfl hk
        subst hm
        have hb : ∀ m ∈ names, nameOK m := by
          simpa [headOK] using hh
        obtain ⟨a', rfl⟩ : ∃ a', a = a' + 1 := ⟨a - 1, by omega⟩
        let g : String → Option JT := fun m =>
          if vis.contains m then none else Compile.actualRoot ts (a' + 1) (m :: vis) m
        have hAeq : Compile.actualRoot ts (a' + 1 + 1) vis n =
            (match names.map g with
              | [] => none
              | r :: rest => if (names.map g).any (·.isNone) then none else if rest.all (· == r) then r else none) := by
          conv => lhs; unfold Compile.actualRoot
          rw [hl]
          rfl
        rw [hAeq, normA, List.map_map]
        have hCeq : CK.actualRoot env (c + 1) (vis.map name) (dumpNode (.ref names nul .mixed ex os)).hd.info =
            CK.actualLoop (CK.actualRoot env c) env (vis.map name) (names.map name) [] none := by
          conv => lhs; unfold CK.actualRoot
          simp [dumpNode, CK.Node.hd, jtOf, nkOfJT]
        rw [hCeq]
        have := actualLoop_same (CK.actualRoot env c) env (vis.map name) (normJ ∘ g) names [] ?_
        · simpa using this
        · intro m hm
          have hmb := hb m hm
          have hcont : (vis.map name).contains (name m) = vis.contains m :=
            contains_name vis m (fun x hx => (hv x hx).1.1) hmb.1
          rw [hcont]
          cases hvc : vis.contains m with
          | true => exact Or.inl ⟨rfl, by simp only [Function.comp, g, hvc, if_true, normJ]⟩
          | false =>
            refine Or.inr ?_
            cases hlm : lookupT ts m with
            | none =>
              refine Or.inl ⟨rfl, by rw [hE m hmb, hlm]; rfl, ?_⟩
              simp only [Function.comp, g, hvc, Bool.false_eq_true, if_false]
              unfold Compile.actualRoot
              rw [hlm]
              rfl
            | some cm =>
              refine Or.inr ⟨rfl, (dumpNode cm).hd, by rw [hE m hmb, hlm]; rfl, ?_⟩
              have hnd' : (m :: vis).Nodup := by
                rw [List.nodup_cons]
                exact ⟨by simpa using hvc, hnd⟩
              have ih := actual_agree hE hT (a' + 1) c (m :: vis) m cm hlm hnd'
                (fun v h => by
                  rcases List.mem_cons.1 h with e | h
                  · subst e; exact ⟨hmb, by rw [hlm]; rfl⟩
                  · exact hv v h)
                (by simp only [List.length_cons]; omega) (by simp only [List.length_cons]; omega)
              simp only [List.map_cons] at ih
              rw [ih]
              simp only [Function.comp, g, hvc, Bool.false_eq_true, if_false]

/-- **(A)'s fuel is enough for `actualRootType`**: from `|table| + 2` units on, the answer no longer depends on the
fuel — the silent branch `| 0, _, _ => none` ("out of fuel = mixed") is never what decides -/
theorem actualA_fuel_enough (hE : EnvRelN ts env) (hT : ∀ n cn, lookupT ts n = some cn → headOK cn = true)
    (f1 f2 : Nat) (h1 : ts.length + 2 ≤ f1) (h2 : ts.length + 2 ≤ f2) (n : String) :
    normJ (Compile.actualRoot ts f1 [] n) = normJ (Compile.actualRoot ts f2 [] n) := by
  cases hl : lookupT ts n with
  | none =>
    obtain ⟨a, rfl⟩ : ∃ a, f1 = a + 1 := ⟨f1 - 1, by omega⟩
    obtain ⟨b, rfl⟩ : ∃ b, f2 = b + 1 := ⟨f2 - 1, by omega⟩
    unfold Compile.actualRoot
    rw [hl]
  | some cn =>
    have e1 := actual_agree ts env hE hT f1 (ts.length + 2) [] n cn hl List.nodup_nil (by simp) (by simpa using h1) (by simp)
    have e2 := actual_agree ts env hE hT f2 (ts.length + 2) [] n cn hl List.nodup_nil (by simp) (by simpa using h2) (by simp)
    rw [e1] at e2
    exact Option.some.inj e2

theorem normJ_str (r : Option JT) : (normJ r != CK.JT.string) = (r != some JT.str) := by
  cases r with
  | none => rfl
  | some j => cases j <;> rfl

/-- `ensureShortcutKeysAreValid`, key by key, the type of a key ANY entry of the table (aliases, or-shortcuts, cycles) -/
theorem keys_agree_k (hE : EnvRelN ts env) (hT : ∀ n cn, lookupT ts n = some cn → headOK cn = true) (f : Nat)
    (hf : ts.length + 2 ≤ f + 1) (hlen : ts.length ≤ env.types.length) :
    (props : List (String × Bool × Bool × Bool × CN)) →
    (∀ p ∈ props, p.2.1 = true → nameOK ("@" ++ p.1)) →
    CK.keysErr env (dumpKeys props) =
      (props.find? (fun p => p.2.1 && ((lookupT ts ("@" ++ p.1)).isNone
          || Compile.actualRoot ts (f + 1) [] ("@" ++ p.1) != some .str))).map
        (fun p => CK.Panic.doc (if (lookupT ts ("@" ++ p.1)).isNone then 1302 else 1304) 0 0)
  | [], _ => rfl
  | (k, short, r, o, x) :: xs, h => by
    have ih := keys_agree_k hE hT f hf hlen xs (fun p hp => h p (List.mem_cons_of_mem _ hp))
    cases short with
    | false => simp [dumpKeys, CK.keysErr, ih]
    | true =>
      have hb := h (k, true, r, o, x) List.mem_cons_self rfl
      simp only at hb
      simp only [dumpKeys, CK.keysErr, if_true, Bool.not_true, Bool.false_eq_true, if_false, hE _ hb, List.find?_cons,
        Bool.true_and]
      cases hl : lookupT ts ("@" ++ k) with
      | none => simp [lexBranch, hl]
      | some cn =>
        have hc := actual_agree ts env hE hT (f + 1) env.fuel [] ("@" ++ k) cn hl List.nodup_nil (by simp)
          (by simpa using hf) (by simp only [CK.Env.fuel, List.length_nil]; omega)
        simp only [List.map_nil] at hc
        rw [Option.map_some]
        simp only [hc, normJ_str, Option.isNone_some, Bool.false_or]
        cases (Compile.actualRoot ts (f + 1) [] ("@" ++ k) != some JT.str)
        · simpa using ih
        · simp [lexBranch, hl]

end

end BridgeCK
