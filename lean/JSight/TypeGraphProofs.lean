import JSight.TypeGraph
namespace TG

-- if no visited type is `rec`-inhabited, every `rec`-inhabited position passes the inner (path-only) test
mutual
theorem inner_of_step (g : G) (rec : N → Bool) (visited : List String)
    (hrec : ∀ t body, t ∈ visited → lookup g t = some body → rec body = false)
    (n : N) (h : inhStep g rec n = true) : checkInner visited n = true := by
  cases n with
  | scalar => simp [checkInner]
  | arr => simp [checkInner]
  | ref names =>
    simp only [inhStep, List.any_eq_true] at h
    obtain ⟨t, ht, hb⟩ := h
    cases hl : lookup g t with
    | none => simp [hl] at hb
    | some body =>
      simp only [hl] at hb
      have hnv : t ∉ visited := by
        intro hv
        have := hrec t body hv hl
        rw [this] at hb
        exact absurd hb (by simp)
      simp only [checkInner, Bool.or_eq_true, Bool.not_eq_true']
      left
      rw [List.all_eq_false]
      exact ⟨t, ht, by simpa using hnv⟩
  | obj props =>
    simp only [inhStep] at h
    simp only [checkInner]
    exact inner_props_of_step g rec visited hrec props h
theorem inner_props_of_step (g : G) (rec : N → Bool) (visited : List String)
    (hrec : ∀ t body, t ∈ visited → lookup g t = some body → rec body = false)
    (ps : List (Bool × N)) (h : inhStepProps g rec ps = true) : checkInnerProps visited ps = true := by
  cases ps with
  | nil => simp [checkInnerProps]
  | cons p ps =>
    obtain ⟨opt, n⟩ := p
    simp only [inhStepProps, Bool.and_eq_true, Bool.or_eq_true] at h
    simp only [checkInnerProps, Bool.and_eq_true, Bool.or_eq_true]
    refine ⟨?_, inner_props_of_step g rec visited hrec ps h.2⟩
    rcases h.1 with ho | hn
    · exact Or.inl ho
    · exact Or.inr (inner_of_step g rec visited hrec n hn)
end

theorem inh_zero_or_succ (g : G) (d : Nat) : ∃ rec, inh g d = inhStep g rec ∧
    (∀ body, rec body = true → ∃ d', d' < d ∧ inh g d' body = true) := by
  cases d with
  | zero => exact ⟨fun _ => false, rfl, by intro b h; simp at h⟩
  | succ d => exact ⟨inh g d, rfl, fun body h => ⟨d, Nat.lt_succ_self d, h⟩⟩

/-- Lemma A: an inhabited type body passes the inner test under the path `[T, root]` -/
theorem inner_of_inh (g : G) (hroot : lookup g g.rootName = none) (T : String) (bodyT : N)
    (hT : lookup g T = some bodyT) :
    ∀ d, inh g d bodyT = true → checkInner [T, g.rootName] bodyT = true := by
  intro d
  induction d using Nat.strongRecOn with
  | _ d ih =>
    intro h
    by_cases hsm : ∃ d', d' < d ∧ inh g d' bodyT = true
    · obtain ⟨d', hlt, hd'⟩ := hsm
      exact ih d' hlt hd'
    · obtain ⟨rec, hrecEq, hrecSmall⟩ := inh_zero_or_succ g d
      rw [hrecEq] at h
      apply inner_of_step g rec [T, g.rootName] _ bodyT h
      intro t body hv hl
      simp only [List.mem_cons, List.mem_nil_iff, or_false] at hv
      rcases hv with hv | hv
      · subst hv
        rw [hT] at hl
        have hbody : bodyT = body := Option.some.inj hl
        subst hbody
        cases hb : rec bodyT with
        | false => rfl
        | true =>
          exfalso
          exact hsm (hrecSmall bodyT hb)
      · subst hv
        rw [hroot] at hl
        exact absurd hl (by simp)

mutual
theorem outer_of_step (g : G) (hroot : lookup g g.rootName = none) (rec : N → Bool)
    (hrec : ∀ body, rec body = true → ∃ d, inh g d body = true)
    (n : N) (h : inhStep g rec n = true) : checkOuter g [g.rootName] n = true := by
  cases n with
  | scalar => simp [checkOuter]
  | arr => simp [checkOuter]
  | ref names =>
    simp only [inhStep, List.any_eq_true] at h
    obtain ⟨t, ht, hb⟩ := h
    cases hl : lookup g t with
    | none => simp [hl] at hb
    | some body =>
      simp only [hl] at hb
      obtain ⟨d, hd⟩ := hrec body hb
      have hne : t ≠ g.rootName := by
        intro e
        rw [e, hroot] at hl
        exact absurd hl (by simp)
      have hct : checkType g [g.rootName] t = true := by
        unfold checkType
        have : ([g.rootName].contains t) = false := by simpa using hne
        simp only [this, Bool.false_eq_true, if_false, hl]
        exact inner_of_inh g hroot t body hl d hd
      simp only [checkOuter, Bool.or_eq_true, Bool.not_eq_true']
      left
      rw [List.all_eq_false]
      exact ⟨t, ht, by simp [hct]⟩
  | obj props =>
    simp only [inhStep] at h
    simp only [checkOuter]
    exact outer_props_of_step g hroot rec hrec props h
theorem outer_props_of_step (g : G) (hroot : lookup g g.rootName = none) (rec : N → Bool)
    (hrec : ∀ body, rec body = true → ∃ d, inh g d body = true)
    (ps : List (Bool × N)) (h : inhStepProps g rec ps = true) : checkOuterProps g [g.rootName] ps = true := by
  cases ps with
  | nil => simp [checkOuterProps]
  | cons p ps =>
    obtain ⟨opt, n⟩ := p
    simp only [inhStepProps, Bool.and_eq_true, Bool.or_eq_true] at h
    simp only [checkOuterProps, Bool.and_eq_true, Bool.or_eq_true]
    refine ⟨?_, outer_props_of_step g hroot rec hrec ps h.2⟩
    rcases h.1 with ho | hn
    · exact Or.inl ho
    · exact Or.inr (outer_of_step g hroot rec hrec n hn)
end

/-- C09 (one direction, all graphs): the recursion check never rejects a schema that has a finite
inhabitant.  (`hroot`: the root schema's file name is not the name of an added type.) -/
theorem C09_never_rejects_legal (g : G) (hroot : lookup g g.rootName = none)
    (h : Inhabited g g.root) : check g = true := by
  obtain ⟨d, hd⟩ := h
  obtain ⟨rec, hrecEq, hrecSmall⟩ := inh_zero_or_succ g d
  rw [hrecEq] at hd
  exact outer_of_step g hroot rec (fun body hb => by
    obtain ⟨d', _, h'⟩ := hrecSmall body hb
    exact ⟨d', h'⟩) g.root hd

/-- the converse fails on the pinned tree: a required cycle through two types is accepted -/
def cycle2 : G :=
  { types := [("@r", .obj [(false, .ref ["@s"])]), ("@s", .obj [(false, .ref ["@r"])])],
    root := .ref ["@r"], rootName := "root" }

theorem cycle2_uninhabited_bodies : ∀ d,
    inh cycle2 d (.obj [(false, .ref ["@s"])]) = false ∧ inh cycle2 d (.obj [(false, .ref ["@r"])]) = false := by
  intro d
  induction d with
  | zero => exact ⟨by decide, by decide⟩
  | succ d ih =>
    constructor
    · show inhStep cycle2 (inh cycle2 d) _ = false
      simp only [inhStep, inhStepProps, List.any_cons, List.any_nil, Bool.or_false, Bool.false_or, Bool.and_true]
      have : lookup cycle2 "@s" = some (.obj [(false, .ref ["@r"])]) := by simp [lookup, cycle2, List.find?]
      simp only [this, ih.2]
    · show inhStep cycle2 (inh cycle2 d) _ = false
      simp only [inhStep, inhStepProps, List.any_cons, List.any_nil, Bool.or_false, Bool.false_or, Bool.and_true]
      have : lookup cycle2 "@r" = some (.obj [(false, .ref ["@s"])]) := by simp [lookup, cycle2, List.find?]
      simp only [this, ih.1]

/-- the full property fails on the pinned tree: `check` accepts a schema that has no inhabitant -/
theorem C09_full_false : check cycle2 = true ∧ ¬ Inhabited cycle2 cycle2.root := by
  refine ⟨by decide, ?_⟩
  rintro ⟨d, hd⟩
  have hr : lookup cycle2 "@r" = some (.obj [(false, .ref ["@s"])]) := by simp [lookup, cycle2, List.find?]
  cases d with
  | zero => exact absurd hd (by decide)
  | succ d =>
    have : inh cycle2 (d + 1) cycle2.root = inh cycle2 d (.obj [(false, .ref ["@s"])]) := by
      show inhStep cycle2 (inh cycle2 d) (.ref ["@r"]) = _
      simp only [inhStep, List.any_cons, List.any_nil, Bool.or_false, hr]
    rw [this, (cycle2_uninhabited_bodies d).1] at hd
    exact absurd hd (by simp)

end TG

#print axioms TG.C09_never_rejects_legal
