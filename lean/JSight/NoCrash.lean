import JSight.SimTrailing
/-! C07.2 / C06 for the JSON scanner model: no input makes it reach a Go runtime panic
("Reading from empty stack", "Incorrect ending of the lexical event"): every outcome is acceptance,
`Invalid character`, `Unexpected end of file` or `Empty JSON`. -/
open JsonScan
namespace Sim
open Rfc (Ctx RSt RCfg Num)

def Err.isCrash : Err → Bool
  | .crash _ => true
  | _ => false

theorem atEof_no_crash (m : Cfg) : ∀ e, atEof m = .error e → Err.isCrash e = false := by
  intro e h
  unfold atEof at h
  split at h
  · split at h <;> simp at h; subst h; rfl
  · split at h <;> simp at h; subst h; rfl
  · simp at h; subst h; rfl

theorem run_no_crash (allow : Bool) {m : Cfg} {r : RCfg} (hR : R r m) (cs : List Cls) :
    ∀ e, run allow m cs = .error e → Err.isCrash e = false := by
  induction cs generalizing m r with
  | nil => intro e h; exact atEof_no_crash m e (by simpa [run] using h)
  | cons c cs ih =>
    intro e h
    cases allow with
    | false =>
      rcases sim_step hR c with ⟨m', r', hf, _, hR'⟩ | ⟨ctx, hf, _⟩
      · simp only [run, hf, bind, Except.bind] at h
        exact ih hR' e h
      · simp only [run, hf, bind, Except.bind] at h
        cases h; rfl
    | true =>
      rcases sim_stepT hR c with ⟨m', r', hf, _, hR'⟩ | ⟨hf, _, _⟩ | ⟨ctx, hf, _, _⟩
      · simp only [run, hf, bind, Except.bind] at h
        exact ih hR' e h
      · simp [run, hf, bind, Except.bind, pure, Except.pure] at h
      · simp only [run, hf, bind, Except.bind] at h
        cases h; rfl

/-- the JSON scanner model never panics with a non-library error, whatever the bytes -/
theorem C07_json_no_crash (allow : Bool) (bs : List UInt8) :
    ∀ e, run allow Cfg.init (bs.map classify) = .error e → Err.isCrash e = false :=
  run_no_crash allow R.root _

end Sim

#print axioms Sim.C07_json_no_crash
