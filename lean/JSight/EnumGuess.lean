import JSight.EnumRouteEq
import JSight.NumberTotal
import JSight.ByteLemmas
/-!
C18: every scalar token of the enum grammar (string, number without exponent, `true` / `false` / `null`) is known to
both type guessers — `GuessSchemaType` (for `Values()`) and `json.Guess(...).JsonType()` (for `NewEnumItem`):
`guessable_gtok`. With it `named_eq_inline` holds for every item list of the grammar without a side condition
(`named_eq_inline_grammar`).
-/
set_option linter.unusedSimpArgs false
set_option linter.unusedVariables false
namespace EnumRoute
open SchemaScan (Cls classify)
open RulesF (Bytes)

/-! ### bytes and classes -/

theorem cls_quote (c : UInt8) : (classify c == .quote) = (c == 34) := by
  have := Bytes.forall_uint8 (fun c => (classify c == .quote) == (c == 34)) (by decide +kernel) c
  simpa using this

/-- a byte of a number token (classes minus, zero, d19, dot): what `toCh` makes of it, and what it is not -/
def numCh (c : UInt8) : Num.Ch :=
  if c == 45 then .minus else if c == 46 then .dot else .d (c.toNat - 48)

theorem cls_num (c : UInt8) (h : classify c = .minus ∨ classify c = .zero ∨ classify c = .d19 ∨ classify c = .dot) :
    RulesF.toCh [c] = [numCh c] ∧ c ≠ 34 ∧ c ≠ 101 ∧ c ≠ 69 ∧ c ≠ 116 ∧ c ≠ 102 ∧ c ≠ 110 ∧
      (classify c = .minus → c = 45) ∧ (classify c = .dot → c = 46) ∧ (classify c = .zero → c = 48) ∧
      (classify c = .d19 → 49 ≤ c.toNat ∧ c.toNat ≤ 57) ∧ (classify c ≠ .dot → c ≠ 46) := by
  have := Bytes.forall_uint8 (fun c =>
    !(classify c == .minus || classify c == .zero || classify c == .d19 || classify c == .dot) ||
      ((RulesF.toCh [c] == [numCh c]) && c != 34 && c != 101 && c != 69 && c != 116 && c != 102 && c != 110 &&
        (!(classify c == .minus) || c == 45) && (!(classify c == .dot) || c == 46) && (!(classify c == .zero) || c == 48) &&
        (!(classify c == .d19) || (decide (49 ≤ c.toNat) && decide (c.toNat ≤ 57))) && ((classify c == .dot) || c != 46)))
    (by decide +kernel) c
  have hc : (classify c == .minus || classify c == .zero || classify c == .d19 || classify c == .dot) = true := by
    rcases h with h | h | h | h <;> simp [h]
  simp only [hc, Bool.not_true, Bool.false_or, Bool.and_eq_true, bne_iff_ne, ne_eq, beq_iff_eq, Bool.or_eq_true,
    Bool.not_eq_true', decide_eq_true_eq, beq_eq_false_iff_ne] at this
  obtain ⟨⟨⟨⟨⟨⟨⟨⟨⟨⟨⟨a1, a2⟩, a3⟩, a4⟩, a5⟩, a6⟩, a7⟩, a8⟩, a9⟩, a10⟩, a11⟩, a12⟩ := this
  refine ⟨a1, a2, a3, a4, a5, a6, a7, ?_, ?_, ?_, ?_, ?_⟩
  · intro h; rcases a8 with h' | h'; exact absurd h h'; exact h'
  · intro h; rcases a9 with h' | h'; exact absurd h h'; exact h'
  · intro h; rcases a10 with h' | h'; exact absurd h h'; exact h'
  · intro h; rcases a11 with h' | h'; exact absurd h h'; exact h'
  · intro h; rcases a12 with h' | h'; exact absurd h' h; exact h'

theorem cls_word (c : UInt8) :
    (classify c = .lt → c = 116) ∧ (classify c = .lr → c = 114) ∧ (classify c = .lu → c = 117) ∧
    (classify c = .le → c = 101) ∧ (classify c = .lf → c = 102) ∧ (classify c = .la → c = 97) ∧
    (classify c = .ll → c = 108) ∧ (classify c = .ls → c = 115) ∧ (classify c = .ln → c = 110) := by
  have := Bytes.forall_uint8 (fun c =>
    (!(classify c == .lt) || c == 116) && (!(classify c == .lr) || c == 114) && (!(classify c == .lu) || c == 117) &&
    (!(classify c == .le) || c == 101) && (!(classify c == .lf) || c == 102) && (!(classify c == .la) || c == 97) &&
    (!(classify c == .ll) || c == 108) && (!(classify c == .ls) || c == 115) && (!(classify c == .ln) || c == 110))
    (by decide +kernel) c
  simp only [Bool.and_eq_true, Bool.or_eq_true, Bool.not_eq_true', beq_eq_false_iff_ne, ne_eq, beq_iff_eq] at this
  obtain ⟨⟨⟨⟨⟨⟨⟨⟨b1, b2⟩, b3⟩, b4⟩, b5⟩, b6⟩, b7⟩, b8⟩, b9⟩ := this
  refine ⟨?_, ?_, ?_, ?_, ?_, ?_, ?_, ?_, ?_⟩ <;> intro h
  · rcases b1 with h' | h'; exact absurd h h'; exact h'
  · rcases b2 with h' | h'; exact absurd h h'; exact h'
  · rcases b3 with h' | h'; exact absurd h h'; exact h'
  · rcases b4 with h' | h'; exact absurd h h'; exact h'
  · rcases b5 with h' | h'; exact absurd h h'; exact h'
  · rcases b6 with h' | h'; exact absurd h h'; exact h'
  · rcases b7 with h' | h'; exact absurd h h'; exact h'
  · rcases b8 with h' | h'; exact absurd h h'; exact h'
  · rcases b9 with h' | h'; exact absurd h h'; exact h'

/-- the bytes of a class list of words -/
theorem bytes_of_word (t : Bytes) (w : List Cls) (bs : Bytes) (h : t.map classify = w)
    (hw : ∀ (i : Nat) (c : UInt8) (k : Cls), t[i]? = some c → w[i]? = some k → bs[i]? = some c) (hl : bs.length = w.length) :
    t = bs := by
  apply List.ext_getElem?
  intro i
  have hlen : t.length = w.length := by rw [← h, List.length_map]
  rcases Nat.lt_or_ge i t.length with hi | hi
  · have h1 : t[i]? = some t[i] := List.getElem?_eq_getElem hi
    have h2 : w[i]? = some w[i] := List.getElem?_eq_getElem (by omega)
    rw [hw i _ _ h1 h2, h1]
  · rw [List.getElem?_eq_none hi, List.getElem?_eq_none (by omega)]

theorem word_true (t : Bytes) (h : t.map classify = [.lt, .lr, .lu, .le]) : t = [116, 114, 117, 101] := by
  simp only [List.map_eq_cons_iff, List.map_eq_nil_iff] at h
  obtain ⟨a, _, rfl, h1, b, _, rfl, h2, c, _, rfl, h3, d, _, rfl, h4, rfl⟩ := h
  rw [(cls_word a).1 h1, (cls_word b).2.1 h2, (cls_word c).2.2.1 h3, (cls_word d).2.2.2.1 h4]

theorem word_false (t : Bytes) (h : t.map classify = [.lf, .la, .ll, .ls, .le]) : t = [102, 97, 108, 115, 101] := by
  simp only [List.map_eq_cons_iff, List.map_eq_nil_iff] at h
  obtain ⟨a, _, rfl, h1, b, _, rfl, h2, c, _, rfl, h3, d, _, rfl, h4, e, _, rfl, h5, rfl⟩ := h
  rw [(cls_word a).2.2.2.2.1 h1, (cls_word b).2.2.2.2.2.1 h2, (cls_word c).2.2.2.2.2.2.1 h3,
    (cls_word d).2.2.2.2.2.2.2.1 h4, (cls_word e).2.2.2.1 h5]

theorem word_null (t : Bytes) (h : t.map classify = [.ln, .lu, .ll, .ll]) : t = [110, 117, 108, 108] := by
  simp only [List.map_eq_cons_iff, List.map_eq_nil_iff] at h
  obtain ⟨a, _, rfl, h1, b, _, rfl, h2, c, _, rfl, h3, d, _, rfl, h4, rfl⟩ := h
  rw [(cls_word a).2.2.2.2.2.2.2.2 h1, (cls_word b).2.2.1 h2, (cls_word c).2.2.2.2.2.2.1 h3,
    (cls_word d).2.2.2.2.2.2.1 h4]

/-! ### numbers -/

def IsNumCls (c : Cls) : Prop := c = .minus ∨ c = .zero ∨ c = .d19 ∨ c = .dot

theorem numTok_cls (nt : EnumScan.NumTok) (wf : nt.WF) : ∀ c ∈ nt.render, IsNumCls c := by
  intro c hc
  have hd : ∀ (ds : List Cls), EnumScan.IsDigits ds → ∀ x ∈ ds, IsNumCls x := by
    intro ds hds x hx
    have := hds x hx
    cases x <;> simp [Cls.isDigit] at this <;> simp [IsNumCls]
  simp only [EnumScan.NumTok.render, List.mem_append] at hc
  rcases hc with (hc | hc) | hc
  · split at hc
    · simp at hc; subst hc; exact Or.inl rfl
    · cases hc
  · rcases wf.int with hz | ⟨ds, hi, hds⟩
    · rw [hz] at hc; simp at hc; subst hc; exact Or.inr (Or.inl rfl)
    · rw [hi] at hc
      simp only [List.mem_cons] at hc
      rcases hc with rfl | hc
      · exact Or.inr (Or.inr (Or.inl rfl))
      · exact hd ds hds c hc
  · unfold EnumScan.NumTok.tail at hc
    cases hf : nt.frac with
    | none => rw [hf] at hc; cases hc
    | some p =>
      obtain ⟨d, ds⟩ := p
      rw [hf] at hc
      obtain ⟨g1, g2⟩ := wf.frac d ds hf
      simp only [List.mem_cons] at hc
      rcases hc with rfl | rfl | hc
      · exact Or.inr (Or.inr (Or.inr rfl))
      · exact hd [c] (by intro x hx; simp at hx; subst hx; exact g1) c (by simp)
      · exact hd ds g2 c hc

theorem toCh_num (t : Bytes) (h : ∀ c ∈ t, IsNumCls (classify c)) : RulesF.toCh t = t.map numCh := by
  induction t with
  | nil => rfl
  | cons c cs ih =>
    have h1 := (cls_num c (h c (by simp))).1
    have e : RulesF.toCh (c :: cs) = RulesF.toCh [c] ++ RulesF.toCh cs := by simp [RulesF.toCh]
    rw [e, h1, ih (fun x hx => h x (by simp [hx]))]
    rfl

theorem num_flags (t : Bytes) (h : ∀ c ∈ t, IsNumCls (classify c)) :
    RulesF.hasExp t = false ∧ Unquote.inQuotes t = false ∧ (t == RulesF.sTrue) = false ∧ (t == RulesF.sFalse) = false ∧
      (t == RulesF.sNull) = false ∧ t ≠ [123] ∧ t ≠ [91] := by
  have hne : ∀ (c : UInt8), c ∈ t → c ≠ 34 ∧ c ≠ 101 ∧ c ≠ 69 ∧ c ≠ 116 ∧ c ≠ 102 ∧ c ≠ 110 := by
    intro c hc
    have := cls_num c (h c hc)
    exact ⟨this.2.1, this.2.2.1, this.2.2.2.1, this.2.2.2.2.1, this.2.2.2.2.2.1, this.2.2.2.2.2.2.1⟩
  have hbr : ∀ (c : UInt8), c ∈ t → c ≠ 123 ∧ c ≠ 91 := by
    intro c hc
    have hcl := h c hc
    have e1 : classify 123 = .lbrace := by decide
    have e2 : classify 91 = .lbrack := by decide
    refine ⟨?_, ?_⟩ <;> intro e <;> subst e
    · rw [e1] at hcl; simp [IsNumCls] at hcl
    · rw [e2] at hcl; simp [IsNumCls] at hcl
  refine ⟨?_, ?_, ?_, ?_, ?_, ?_, ?_⟩
  · unfold RulesF.hasExp
    rw [List.any_eq_false]
    intro c hc
    have := hne c hc
    simp [this.2.1, this.2.2.1]
  · unfold Unquote.inQuotes
    cases t with
    | nil => simp
    | cons c cs =>
      have := (hne c (by simp)).1
      simp [this]
  · cases t with
    | nil => rfl
    | cons c cs =>
      have := (hne c (by simp)).2.2.2.1
      simp [RulesF.sTrue, this]
  · cases t with
    | nil => rfl
    | cons c cs =>
      have := (hne c (by simp)).2.2.2.2.1
      simp [RulesF.sFalse, this]
  · cases t with
    | nil => rfl
    | cons c cs =>
      have := (hne c (by simp)).2.2.2.2.2
      simp [RulesF.sNull, this]
  · intro e; subst e; exact (hbr 123 (by simp)).1 rfl
  · intro e; subst e; exact (hbr 91 (by simp)).2 rfl

/-- an integer token is a numeral `json.NewNumber` recognises -/
theorem int_number (t : Bytes) (nt : EnumScan.NumTok) (wf : nt.WF) (ht : t.map classify = nt.render) (hf : nt.frac = none) :
    (RulesF.number t).isSome = true ∧ RulesF.hasDot t = false := by
  have hcls : ∀ c ∈ t, IsNumCls (classify c) := by
    intro c hc
    exact numTok_cls nt wf _ (by rw [← ht]; exact List.mem_map_of_mem hc)
  have hnodot : ∀ c ∈ t, classify c ≠ .dot := by
    intro c hc hd
    have hm : Cls.dot ∈ nt.render := by rw [← ht, ← hd]; exact List.mem_map_of_mem hc
    simp only [EnumScan.NumTok.render, EnumScan.NumTok.tail, hf, List.append_nil, List.mem_append] at hm
    rcases hm with hm | hm
    · split at hm <;> simp at hm
    · rcases wf.int with hz | ⟨ds, hi, hds⟩
      · rw [hz] at hm; simp at hm
      · rw [hi] at hm
        simp only [List.mem_cons] at hm
        rcases hm with hm | hm
        · cases hm
        · have := hds _ hm; simp [Cls.isDigit] at this
  refine ⟨?_, ?_⟩
  · unfold RulesF.number
    rw [toCh_num t hcls]
    -- the numeral
    have hrender : nt.render = (if nt.neg then [Cls.minus] else []) ++ nt.int := by
      simp [EnumScan.NumTok.render, EnumScan.NumTok.tail, hf]
    -- split `t` along the sign
    have key : ∀ (body : Bytes), body.map classify = nt.int →
        ∃ (h0 : Nat) (tl : List Nat), body.map numCh = Num.Ch.d h0 :: tl.map Num.Ch.d ∧ (h0 = 0 → tl = []) := by
      intro body hb
      have hdig : ∀ c ∈ body, numCh c = Num.Ch.d (c.toNat - 48) ∧ (classify c = .zero ∨ classify c = .d19) := by
        intro c hc
        have hm : classify c ∈ nt.int := by rw [← hb]; exact List.mem_map_of_mem hc
        have hz : classify c = .zero ∨ classify c = .d19 := by
          rcases wf.int with hz | ⟨ds, hi, hds⟩
          · rw [hz] at hm; simp at hm; exact Or.inl hm
          · rw [hi] at hm
            simp only [List.mem_cons] at hm
            rcases hm with hm | hm
            · exact Or.inr hm
            · have := hds _ hm
              cases hcc : classify c <;> rw [hcc] at this <;> simp [Cls.isDigit] at this <;> simp
        have hn := cls_num c (by rcases hz with h | h <;> simp [h])
        refine ⟨?_, hz⟩
        have h45 : c ≠ 45 := by
          intro e; subst e; rcases hz with h | h <;> revert h <;> decide
        have h46 : c ≠ 46 := hn.2.2.2.2.2.2.2.2.2.2.2 (by rcases hz with h | h <;> simp [h])
        simp [numCh, h45, h46]
      cases body with
      | nil =>
        rcases wf.int with hz | ⟨ds, hi, _⟩
        · rw [hz] at hb; cases hb
        · rw [hi] at hb; cases hb
      | cons c cs =>
        refine ⟨c.toNat - 48, cs.map (fun x => x.toNat - 48), ?_, ?_⟩
        · simp only [List.map_cons, List.map_map, List.cons.injEq]
          refine ⟨(hdig c (by simp)).1, ?_⟩
          apply List.map_congr_left
          intro x hx
          exact (hdig x (by simp [hx])).1
        · intro h0
          rcases wf.int with hz | ⟨ds, hi, _⟩
          · rw [hz] at hb
            simp only [List.map_cons, List.cons.injEq, List.map_eq_nil_iff] at hb
            rw [hb.2]; rfl
          · rw [hi] at hb
            simp only [List.map_cons, List.cons.injEq] at hb
            have := (cls_num c (Or.inr (Or.inr (Or.inl hb.1)))).2.2.2.2.2.2.2.2.2.2.1 hb.1
            omega
    cases hneg : nt.neg with
    | false =>
      rw [hrender, hneg] at ht
      simp only [Bool.false_eq_true, if_false, List.nil_append] at ht
      obtain ⟨h0, tl, hb, hw⟩ := key t ht
      rw [hb]
      have := Num.scan_total ⟨false, h0, tl, none, none⟩ hw (by intro h; exact h.2.2 rfl)
      simpa [Num.Numeral.render, Num.fracChars, Num.expChars] using this
    | true =>
      rw [hrender, hneg] at ht
      simp only [if_true] at ht
      cases t with
      | nil => cases ht
      | cons m body =>
        simp only [List.map_cons, List.cons_append, List.nil_append, List.cons.injEq] at ht
        obtain ⟨hm, hbody⟩ := ht
        obtain ⟨h0, tl, hb, hw⟩ := key body hbody
        have h45 : m = 45 := (cls_num m (Or.inl hm)).2.2.2.2.2.2.2.1 hm
        simp only [List.map_cons, hb]
        have := Num.scan_total ⟨true, h0, tl, none, none⟩ hw (by intro h; exact h.2.2 rfl)
        simpa [Num.Numeral.render, Num.fracChars, Num.expChars, numCh, h45] using this
  · unfold RulesF.hasDot
    rw [List.any_eq_false]
    intro c hc
    have hn := cls_num c (hcls c hc)
    have := hn.2.2.2.2.2.2.2.2.2.2.2 (hnodot c hc)
    simp [this]

/-- a number token with a fraction contains the decimal point -/
theorem frac_hasDot (t : Bytes) (nt : EnumScan.NumTok) (ht : t.map classify = nt.render) (d : Cls) (ds : List Cls)
    (hf : nt.frac = some (d, ds)) : RulesF.hasDot t = true := by
  have hm : Cls.dot ∈ t.map classify := by
    rw [ht]; simp [EnumScan.NumTok.render, EnumScan.NumTok.tail, hf]
  simp only [List.mem_map] at hm
  obtain ⟨c, hc, hcd⟩ := hm
  have h46 : c = 46 := (cls_num c (Or.inr (Or.inr (Or.inr hcd)))).2.2.2.2.2.2.2.2.1 hcd
  unfold RulesF.hasDot
  rw [List.any_eq_true]
  exact ⟨c, hc, by simp [h46]⟩

/-! ### every token of the grammar -/

theorem inQuotes_of_string (t : Bytes) (b : List Cls) (h : t.map classify = .quote :: (b ++ [.quote])) :
    Unquote.inQuotes t = true := by
  have hlen : t.length = b.length + 2 := by
    have := congrArg List.length h
    simpa using this
  have hhead : t.head? = some 34 := by
    cases t with
    | nil => cases h
    | cons c cs =>
      simp only [List.map_cons, List.cons.injEq] at h
      have := cls_quote c
      rw [h.1] at this
      have hc : c = 34 := by simpa using this.symm
      subst hc
      rfl
  have hlast : t.getLast? = some 34 := by
    have hl : (t.map classify).getLast? = some .quote := by
      rw [h, show Cls.quote :: (b ++ [Cls.quote]) = (Cls.quote :: b) ++ [Cls.quote] from rfl]
      exact List.getLast?_concat
    rw [List.getLast?_map] at hl
    cases hg : t.getLast? with
    | none => rw [hg] at hl; cases hl
    | some c =>
      rw [hg] at hl
      simp only [Option.map_some, Option.some.injEq] at hl
      have := cls_quote c
      rw [hl] at this
      have hc : c = 34 := by simpa using this.symm
      rw [hc]
  unfold Unquote.inQuotes
  simp [hhead, hlast]
  omega

/-- **every scalar token of the enum grammar is known to both type guessers** -/
theorem guessable_gtok (t : Bytes) (h : EnumScan.GTok (t.map classify)) : Guessable t := by
  have htok := h.isTok
  generalize hk : t.map classify = tk at h
  cases h with
  | str b hb => exact guessable_quoted t (inQuotes_of_string t b hk) htok
  | wtrue => rw [word_true t hk]; exact ⟨by decide +kernel, by decide +kernel⟩
  | wfalse => rw [word_false t hk]; exact ⟨by decide +kernel, by decide +kernel⟩
  | wnull => rw [word_null t hk]; exact ⟨by decide +kernel, by decide +kernel⟩
  | num nt wf =>
    have hcls : ∀ c ∈ t, IsNumCls (classify c) := by
      intro c hc
      exact numTok_cls nt wf _ (by rw [← hk]; exact List.mem_map_of_mem hc)
    obtain ⟨f1, f2, f3, f4, f5, f6, f7⟩ := num_flags t hcls
    have htrim := trim_tok t htok
    cases hf : nt.frac with
    | some p =>
      obtain ⟨d, ds⟩ := p
      have hdot := frac_hasDot t nt hk d ds hf
      refine ⟨?_, ?_⟩
      · simp [guessSchemaType, f2, isIntegerTok, isFloatTok, hdot, f1]
      · unfold RulesF.enumItem
        rw [htrim]
        simp [RulesF.kindOfTok, f2, f3, f4, f5, hdot, f1]
    | none =>
      obtain ⟨hnum, hdot⟩ := int_number t nt wf hk hf
      obtain ⟨n, hn⟩ := Option.isSome_iff_exists.mp hnum
      refine ⟨?_, ?_⟩
      · simp only [guessSchemaType, f2, Bool.false_eq_true, if_false, isIntegerTok, isFloatTok, hdot, Bool.false_and, hn]
        by_cases he : n.exp = 0 <;> simp [he]
      · unfold RulesF.enumItem
        rw [htrim]
        simp only [RulesF.kindOfTok, f2, Bool.false_eq_true, if_false, f3, f4, Bool.or_self, f5, hdot, Bool.false_and, hn]
        by_cases he : n.exp = 0 <;> simp [he]

/-- **named enum rule = inline list, for every item list of the grammar** (no side condition on the tokens) -/
theorem named_eq_inline_grammar (pre : Bytes) (ws0 post : EnumScan.LayB) (items : List EnumScan.ItemC)
    (a : SchemaScan.Ann) (ha : a.isAnn = true) (ex s1 s2 : Bytes) (e : BEObj) (s3 tl : Bytes)
    (hpre : EnumScan.IsWsB pre) (hws0 : ws0.Valid) (hpost : post.Valid) (hv : EnumScan.GValidItemsC items)
    (hnd : (items.map EnumScan.itemKeyC).Nodup) (hiv : InlineValid a ex s1 s2 e s3 tl)
    (hsame : e.items.map (·.2.1) = items.map (·.2.1)) (name : Bytes) (pos : Nat) :
    ∃ vs cA cB,
      ruleValues (EnumScan.renderEnumC pre ws0 items post) = .ok vs ∧
      appendValues pos { ruleName := name } vs = .ok cA ∧
      routeInline (inlineText a ex s1 s2 e s3 tl) = .ok [cB] ∧
      proj cA = projToks (items.map (·.2.1)) ∧ proj cB = projToks (items.map (·.2.1)) ∧
      cA.items.map (·.src) = items.map (·.2.1) ∧ cB.items.map (·.src) = items.map (·.2.1) ∧
      ∀ d, enumOK cA d = enumOK cB d :=
  named_eq_inline pre ws0 post items a ha ex s1 s2 e s3 tl hpre hws0 hpost hv.valid hnd hiv hsame
    (fun it hit => guessable_gtok it.2.1 (hv it hit).2.1) name pos

end EnumRoute

#print axioms EnumRoute.guessable_gtok
#print axioms EnumRoute.named_eq_inline_grammar
