import JSight.LinksBasics
/-!
C09 (a), soundness: whenever the link check reports `Type "n" not found`, `n` is referenced (by the root or by a
type of the table) and is not in the table.
-/
namespace LK

def NamesOK (g : G) (l : List String) : Prop := ∀ n ∈ l, Refs g n
def CNamesOK (g : G) (c : List CItem) : Prop := ∀ ci ∈ c, NamesOK g ci.names
def SInv (g : G) (st : St) : Prop := ∀ name c, st.compiled.lookup name = some c → CNamesOK g c
def ItemsOK (g : G) (items : List Item) : Prop := ∀ it ∈ items, ∀ n, it.Mentions n → Refs g n

/-- what a `missing` verdict has to satisfy -/
def Bad (g : G) (m : String) : Prop := Refs g m ∧ ¬ InTable g m

def PtSound (g : G) (pt : String → St → Except Err (List CItem × St)) : Prop :=
  ∀ name st, SInv g st →
    (∀ c st', pt name st = .ok (c, st') → SInv g st' ∧ CNamesOK g c) ∧
    (∀ m, pt name st = .error (.missing m) → ¬ InTable g m ∧ (m = name ∨ Refs g m))

theorem namesOK_append {g : G} {a b : List String} : NamesOK g (a ++ b) ↔ NamesOK g a ∧ NamesOK g b := by
  unfold NamesOK
  constructor
  · intro h; exact ⟨fun n hn => h n (by simp [hn]), fun n hn => h n (by simp [hn])⟩
  · rintro ⟨h1, h2⟩ n hn
    rcases List.mem_append.1 hn with hn | hn
    · exact h1 n hn
    · exact h2 n hn

/-! ### `extendWith` -/

theorem copyKeys_mem : ∀ (pkeys acc r : List (String × Bool)), copyKeys acc pkeys = .ok r →
    ∀ k, k ∈ r ↔ k ∈ acc ∨ k ∈ pkeys
  | [], acc, r, h => by
    simp only [copyKeys, Except.ok.injEq] at h
    subst h; simp
  | p :: ps, acc, r, h => by
    unfold copyKeys at h
    by_cases hc : acc.contains p = true
    · rw [if_pos hc] at h; cases h
    · rw [if_neg hc] at h
      intro k
      rw [copyKeys_mem ps (acc ++ [p]) r h k]
      simp only [List.mem_append, List.mem_cons, List.not_mem_nil, or_false]
      constructor
      · rintro ((h1 | h1) | h1)
        · exact Or.inl h1
        · exact Or.inr (Or.inl h1)
        · exact Or.inr (Or.inr h1)
      · rintro (h1 | h1 | h1)
        · exact Or.inl (Or.inl h1)
        · exact Or.inl (Or.inr h1)
        · exact Or.inr h1

theorem copyKeys_noMiss : ∀ (pkeys acc : List (String × Bool)) (m : String), copyKeys acc pkeys ≠ .error (.missing m)
  | [], acc, m => by simp [copyKeys]
  | p :: ps, acc, m => by
    unfold copyKeys
    by_cases hc : acc.contains p = true
    · rw [if_pos hc]; intro h; cases h
    · rw [if_neg hc]; exact copyKeys_noMiss ps (acc ++ [p]) m

theorem mergeAddp_cases (pa a r : Option String) (h : mergeAddp pa a = .ok r) : r = a ∨ r = pa := by
  cases pa with
  | none => simp only [mergeAddp, Except.ok.injEq] at h; exact Or.inl h.symm
  | some x =>
    cases a with
    | none => simp only [mergeAddp, Except.ok.injEq] at h; exact Or.inr h.symm
    | some y =>
      simp only [mergeAddp] at h
      by_cases e : x = y
      · rw [if_pos e] at h; simp only [Except.ok.injEq] at h; exact Or.inl h.symm
      · rw [if_neg e] at h; cases h

theorem mergeAddp_noMiss (pa a : Option String) (m : String) : mergeAddp pa a ≠ .error (.missing m) := by
  cases pa with
  | none => simp [mergeAddp]
  | some x =>
    cases a with
    | none => simp [mergeAddp]
    | some y =>
      simp only [mergeAddp]
      by_cases e : x = y
      · rw [if_pos e]; intro h; cases h
      · rw [if_neg e]; intro h; cases h

def AccOK (g : G) (acc : List (String × Bool) × Option String) : Prop :=
  NamesOK g (shortcuts acc.1 ++ acc.2.toList)

theorem extendWith_sound (g : G) (name : String) (acc : List (String × Bool) × Option String) (pc : List CItem)
    (hacc : AccOK g acc) (hpc : CNamesOK g pc) :
    (∀ r, extendWith name acc pc = .ok r → AccOK g r) ∧ ∀ m, extendWith name acc pc ≠ .error (.missing m) := by
  unfold extendWith
  cases pc with
  | nil => exact ⟨fun r h => (by cases h), fun m h => by cases h⟩
  | cons ci rest =>
    cases ci with
    | lit jt ms => exact ⟨fun r h => (by cases h), fun m h => by cases h⟩
    | ref ns => exact ⟨fun r h => (by cases h), fun m h => by cases h⟩
    | arr => exact ⟨fun r h => (by cases h), fun m h => by cases h⟩
    | obj pkeys paddp =>
      have hp : NamesOK g (shortcuts pkeys ++ paddp.toList) := hpc (.obj pkeys paddp) List.mem_cons_self
      have hp' := namesOK_append.1 hp
      have ha' := namesOK_append.1 hacc
      simp only
      cases hm : mergeAddp paddp acc.2 with
      | error e =>
        refine ⟨fun r h => (by cases h), fun m h => ?_⟩
        simp only [Except.error.injEq] at h
        subst h
        exact mergeAddp_noMiss _ _ _ hm
      | ok addp' =>
        simp only
        cases hk : copyKeys acc.1 pkeys with
        | error e =>
          refine ⟨fun r h => (by cases h), fun m h => ?_⟩
          simp only [Except.error.injEq] at h
          subst h
          exact copyKeys_noMiss _ _ _ hk
        | ok keys' =>
          refine ⟨fun r h => ?_, fun m h => by cases h⟩
          simp only [Except.ok.injEq] at h
          subst h
          apply namesOK_append.2
          constructor
          · intro n hn
            have := (copyKeys_mem pkeys acc.1 keys' hk (n, true)).1 ((mem_shortcuts _ _).1 hn)
            rcases this with h1 | h1
            · exact ha'.1 n ((mem_shortcuts _ _).2 h1)
            · exact hp'.1 n ((mem_shortcuts _ _).2 h1)
          · rcases mergeAddp_cases _ _ _ hm with e | e
            · simp only [e]; exact ha'.2
            · simp only [e]; exact hp'.2

theorem extendAll_sound (g : G) (pt : String → St → Except Err (List CItem × St)) (hpt : PtSound g pt) :
    ∀ (ao : List String) (acc : List (String × Bool) × Option String) (st : St),
      NamesOK g ao → AccOK g acc → SInv g st →
      (∀ r st', extendAll pt ao acc st = .ok (r, st') → SInv g st' ∧ AccOK g r) ∧
      (∀ m, extendAll pt ao acc st = .error (.missing m) → Bad g m)
  | [], acc, st, _, hacc, hst => by
    simp only [extendAll]
    exact ⟨fun r st' h => (by cases h; exact ⟨hst, hacc⟩), fun m h => (by cases h)⟩
  | p :: ps, acc, st, hao, hacc, hst => by
    unfold extendAll
    have hp := hpt p st hst
    cases h1 : pt p st with
    | error e =>
      refine ⟨fun r st' h => (by cases h), fun m h => ?_⟩
      simp only [Except.error.injEq] at h
      subst h
      obtain ⟨hnt, hor⟩ := hp.2 m h1
      rcases hor with rfl | hr
      · exact ⟨hao m List.mem_cons_self, hnt⟩
      · exact ⟨hr, hnt⟩
    | ok res =>
      obtain ⟨pc, st1⟩ := res
      obtain ⟨hst1, hpc⟩ := hp.1 pc st1 h1
      simp only
      have hx := extendWith_sound g p acc pc hacc hpc
      cases h2 : extendWith p acc pc with
      | error e =>
        refine ⟨fun r st' h => (by cases h), fun m h => ?_⟩
        simp only [Except.error.injEq] at h
        subst h
        exact absurd h2 (hx.2 m)
      | ok acc1 =>
        simp only
        exact extendAll_sound g pt hpt ps acc1 st1 (fun n hn => hao n (List.mem_cons_of_mem _ hn)) (hx.1 acc1 h2) hst1

theorem inherited_ok (g : G) (st : St) (hst : SInv g st) : ∀ ps, CNamesOK g (inherited st ps)
  | [] => by intro ci h; simp [inherited] at h
  | p :: ps => by
    intro ci h
    simp only [inherited, List.mem_append] at h
    rcases h with h | h
    · cases hl : st.compiled.lookup p with
      | none => simp [hl] at h
      | some c =>
        simp only [hl, Option.getD_some] at h
        exact hst p c hl ci (List.mem_of_mem_tail h)
    · exact inherited_ok g st hst ps ci h

theorem cnamesOK_cons {g : G} {ci : CItem} {c : List CItem} (h1 : NamesOK g ci.names) (h2 : CNamesOK g c) :
    CNamesOK g (ci :: c) := by
  intro x hx
  rcases List.mem_cons.1 hx with rfl | hx
  · exact h1
  · exact h2 x hx

theorem cnamesOK_append {g : G} {a b : List CItem} (h1 : CNamesOK g a) (h2 : CNamesOK g b) : CNamesOK g (a ++ b) := by
  intro x hx
  rcases List.mem_append.1 hx with hx | hx
  · exact h1 x hx
  · exact h2 x hx

theorem itemsOK_tail {g : G} {it : Item} {items : List Item} (h : ItemsOK g (it :: items)) : ItemsOK g items :=
  fun x hx => h x (List.mem_cons_of_mem _ hx)

theorem processItems_sound (g : G) (pt : String → St → Except Err (List CItem × St)) (hpt : PtSound g pt) :
    ∀ (items : List Item) (st : St), ItemsOK g items → SInv g st →
      (∀ c st', processItems pt items st = .ok (c, st') → SInv g st' ∧ CNamesOK g c) ∧
      (∀ m, processItems pt items st = .error (.missing m) → Bad g m)
  | [], st, _, hst => by
    simp only [processItems]
    exact ⟨fun c st' h => (by cases h; exact ⟨hst, fun ci h => by simp at h⟩), fun m h => (by cases h)⟩
  | .lit jt ms :: rest, st, hit, hst => by
    have ih := processItems_sound g pt hpt rest st (itemsOK_tail hit) hst
    have hn : NamesOK g (CItem.lit jt ms).names := fun n hn => hit _ List.mem_cons_self n (Or.inr hn)
    simp only [processItems]
    cases h1 : processItems pt rest st with
    | error e =>
      refine ⟨fun c st' h => (by cases h), fun m h => ?_⟩
      simp only [Except.error.injEq] at h; subst h; exact ih.2 m h1
    | ok res =>
      obtain ⟨out, st1⟩ := res
      refine ⟨fun c st' h => ?_, fun m h => by cases h⟩
      simp only [Except.ok.injEq, Prod.mk.injEq] at h
      obtain ⟨rfl, rfl⟩ := h
      exact ⟨(ih.1 out st1 h1).1, cnamesOK_cons hn (ih.1 out st1 h1).2⟩
  | .ref names :: rest, st, hit, hst => by
    have ih := processItems_sound g pt hpt rest st (itemsOK_tail hit) hst
    have hn : NamesOK g (CItem.ref names).names := fun n hn => hit _ List.mem_cons_self n (Or.inr hn)
    simp only [processItems]
    cases h1 : processItems pt rest st with
    | error e =>
      refine ⟨fun c st' h => (by cases h), fun m h => ?_⟩
      simp only [Except.error.injEq] at h; subst h; exact ih.2 m h1
    | ok res =>
      obtain ⟨out, st1⟩ := res
      refine ⟨fun c st' h => ?_, fun m h => by cases h⟩
      simp only [Except.ok.injEq, Prod.mk.injEq] at h
      obtain ⟨rfl, rfl⟩ := h
      exact ⟨(ih.1 out st1 h1).1, cnamesOK_cons hn (ih.1 out st1 h1).2⟩
  | .arr :: rest, st, hit, hst => by
    have ih := processItems_sound g pt hpt rest st (itemsOK_tail hit) hst
    have hn : NamesOK g (CItem.arr).names := fun n hn => by simp [CItem.names] at hn
    simp only [processItems]
    cases h1 : processItems pt rest st with
    | error e =>
      refine ⟨fun c st' h => (by cases h), fun m h => ?_⟩
      simp only [Except.error.injEq] at h; subst h; exact ih.2 m h1
    | ok res =>
      obtain ⟨out, st1⟩ := res
      refine ⟨fun c st' h => ?_, fun m h => by cases h⟩
      simp only [Except.ok.injEq, Prod.mk.injEq] at h
      obtain ⟨rfl, rfl⟩ := h
      exact ⟨(ih.1 out st1 h1).1, cnamesOK_cons hn (ih.1 out st1 h1).2⟩
  | .obj keys addp ao :: rest, st, hit, hst => by
    have hao : NamesOK g ao := fun n hn => hit _ List.mem_cons_self n (Or.inl hn)
    have hacc : AccOK g (keys, addp) := fun n hn => hit _ List.mem_cons_self n (Or.inr hn)
    have hx := extendAll_sound g pt hpt ao (keys, addp) st hao hacc hst
    simp only [processItems]
    cases h0 : extendAll pt ao (keys, addp) st with
    | error e =>
      refine ⟨fun c st' h => (by cases h), fun m h => ?_⟩
      simp only [Except.error.injEq] at h; subst h; exact hx.2 m h0
    | ok res0 =>
      obtain ⟨acc, st1⟩ := res0
      obtain ⟨hst1, hacc1⟩ := hx.1 acc st1 h0
      have ih := processItems_sound g pt hpt rest st1 (itemsOK_tail hit) hst1
      simp only
      cases h1 : processItems pt rest st1 with
      | error e =>
        refine ⟨fun c st' h => (by cases h), fun m h => ?_⟩
        simp only [Except.error.injEq] at h; subst h; exact ih.2 m h1
      | ok res =>
        obtain ⟨out, st2⟩ := res
        refine ⟨fun c st' h => ?_, fun m h => by cases h⟩
        simp only [Except.ok.injEq, Prod.mk.injEq] at h
        obtain ⟨rfl, rfl⟩ := h
        exact ⟨(ih.1 out st2 h1).1, cnamesOK_cons hacc1 (ih.1 out st2 h1).2⟩
  | .inh ps :: rest, st, hit, hst => by
    have ih := processItems_sound g pt hpt rest st (itemsOK_tail hit) hst
    simp only [processItems]
    cases h1 : processItems pt rest st with
    | error e =>
      refine ⟨fun c st' h => (by cases h), fun m h => ?_⟩
      simp only [Except.error.injEq] at h; subst h; exact ih.2 m h1
    | ok res =>
      obtain ⟨out, st1⟩ := res
      refine ⟨fun c st' h => ?_, fun m h => by cases h⟩
      simp only [Except.ok.injEq, Prod.mk.injEq] at h
      obtain ⟨rfl, rfl⟩ := h
      exact ⟨(ih.1 out st1 h1).1, cnamesOK_append (inherited_ok g st hst ps) (ih.1 out st1 h1).2⟩

theorem itemsOK_type (g : G) (t : String) (body : N) (hl : lookup g t = some body) : ItemsOK g (flat body) :=
  fun it hit n hn => refs_of_flat_type g t body hl it hit n hn

theorem itemsOK_root (g : G) : ItemsOK g (flat g.root) :=
  fun it hit n hn => refs_of_flat_root g it hit n hn

theorem processType_sound (g : G) : ∀ f, PtSound g (processType g f)
  | 0 => by
    intro name st _
    simp only [processType]
    exact ⟨fun c st' h => (by cases h), fun m h => by cases h⟩
  | f + 1 => by
    intro name st hst
    have ih := processType_sound g f
    unfold processType
    by_cases hp : st.processing.contains name = true
    · rw [if_pos hp]
      exact ⟨fun c st' h => (by cases h), fun m h => by cases h⟩
    · rw [if_neg hp]
      cases hl : lookup g name with
      | none =>
        refine ⟨fun c st' h => (by cases h), fun m h => ?_⟩
        simp only [Except.error.injEq, Err.missing.injEq] at h
        subst h
        exact ⟨notInTable_of_none g _ hl, Or.inl rfl⟩
      | some body =>
        simp only
        cases hc : st.compiled.lookup name with
        | some c =>
          refine ⟨fun c' st' h => ?_, fun m h => by cases h⟩
          simp only [Except.ok.injEq, Prod.mk.injEq] at h
          obtain ⟨rfl, rfl⟩ := h
          exact ⟨hst, hst name c hc⟩
        | none =>
          simp only
          have hst0 : SInv g { st with processing := name :: st.processing } := hst
          have hx := processItems_sound g (processType g f) ih (flat body) _ (itemsOK_type g name body hl) hst0
          cases h1 : processItems (processType g f) (flat body) { st with processing := name :: st.processing } with
          | error e =>
            refine ⟨fun c st' h => (by cases h), fun m h => ?_⟩
            simp only [Except.error.injEq] at h; subst h
            have := hx.2 m h1
            exact ⟨this.2, Or.inr this.1⟩
          | ok res =>
            obtain ⟨c, st1⟩ := res
            obtain ⟨hst1, hc1⟩ := hx.1 c st1 h1
            refine ⟨fun c' st' h => ?_, fun m h => by cases h⟩
            simp only [Except.ok.injEq, Prod.mk.injEq] at h
            obtain ⟨rfl, rfl⟩ := h
            refine ⟨?_, hc1⟩
            intro x cx hxl
            simp only [List.lookup_cons] at hxl
            cases hb : (x == name) with
            | true =>
              simp only [hb] at hxl
              cases hxl; exact hc1
            | false =>
              simp only [hb] at hxl
              exact hst1 x cx hxl

theorem processNames_sound (g : G) (pt : String → St → Except Err (List CItem × St)) (hpt : PtSound g pt) :
    ∀ (names : List String) (st : St), (∀ n ∈ names, InTable g n) → SInv g st →
      (∀ st', processNames pt names st = .ok st' → SInv g st') ∧
      (∀ m, processNames pt names st = .error (.missing m) → Bad g m)
  | [], st, _, hst => by
    simp only [processNames]
    exact ⟨fun st' h => (by cases h; exact hst), fun m h => (by cases h)⟩
  | n :: ns, st, hn, hst => by
    unfold processNames
    have hp := hpt n st hst
    cases h1 : pt n st with
    | error e =>
      refine ⟨fun st' h => (by cases h), fun m h => ?_⟩
      simp only [Except.error.injEq] at h; subst h
      obtain ⟨hnt, hor⟩ := hp.2 m h1
      rcases hor with rfl | hr
      · exact absurd (hn m List.mem_cons_self) hnt
      · exact ⟨hr, hnt⟩
    | ok res =>
      obtain ⟨c, st1⟩ := res
      simp only
      exact processNames_sound g pt hpt ns st1 (fun x hx => hn x (List.mem_cons_of_mem _ hx)) (hp.1 c st1 h1).1

theorem compileAllOf_sound (g : G) (fuel : Nat) :
    (∀ rootC st, compileAllOf g fuel = .ok (rootC, st) → SInv g st ∧ CNamesOK g rootC) ∧
    (∀ m, compileAllOf g fuel = .error (.missing m) → Bad g m) := by
  unfold compileAllOf
  have hpt := processType_sound g fuel
  have h0 : SInv g ⟨[], []⟩ := by intro name c h; simp at h
  have hx := processItems_sound g _ hpt (flat g.root) ⟨[], []⟩ (itemsOK_root g) h0
  cases h1 : processItems (processType g fuel) (flat g.root) ⟨[], []⟩ with
  | error e =>
    refine ⟨fun c st' h => (by cases h), fun m h => ?_⟩
    simp only [Except.error.injEq] at h; subst h; exact hx.2 m h1
  | ok res =>
    obtain ⟨rootC, st⟩ := res
    obtain ⟨hst, hrc⟩ := hx.1 rootC st h1
    simp only
    have hy := processNames_sound g _ hpt (sortedNames g) st (fun n hn => (mem_sortedNames g n).1 hn) hst
    cases h2 : processNames (processType g fuel) (sortedNames g) st with
    | error e =>
      refine ⟨fun c st' h => (by cases h), fun m h => ?_⟩
      simp only [Except.error.injEq] at h; subst h; exact hy.2 m h2
    | ok st' =>
      refine ⟨fun c st'' h => ?_, fun m h => by cases h⟩
      simp only [Except.ok.injEq, Prod.mk.injEq] at h
      obtain ⟨rfl, rfl⟩ := h
      exact ⟨hy.1 st' h2, hrc⟩

/-! ### `CheckRootSchema` -/

theorem mustAll_sound (g : G) : ∀ (names : List String) (m : String), NamesOK g names →
    mustAll g names = .error (.missing m) → Bad g m
  | [], m, _, h => by simp [mustAll] at h
  | n :: ns, m, hn, h => by
    unfold mustAll at h
    cases hl : lookup g n with
    | none =>
      simp only [hl, Except.error.injEq, Err.missing.injEq] at h
      subst h
      exact ⟨hn _ List.mem_cons_self, notInTable_of_none g _ hl⟩
    | some b =>
      simp only [hl] at h
      exact mustAll_sound g ns m (fun x hx => hn x (List.mem_cons_of_mem _ hx)) h

theorem mustAll_only_missing (g : G) : ∀ (names : List String) (e : Err), mustAll g names = .error e → ∃ m, e = .missing m
  | [], e, h => by simp [mustAll] at h
  | n :: ns, e, h => by
    unfold mustAll at h
    cases hl : lookup g n with
    | none => simp only [hl, Except.error.injEq] at h; exact ⟨n, h.symm⟩
    | some b => simp only [hl] at h; exact mustAll_only_missing g ns e h

/-- the names at the root of a type of the table are references of the graph -/
theorem root_refs_lit (g : G) (t : String) (jt : JT) (tl : TL) (e : Option String) (hl : lookup g t = some (.lit jt tl e)) :
    NamesOK g (userNames tl.members) := by
  intro n hn
  refine Or.inr ⟨t, _, hl, ?_⟩
  cases tl with
  | none => simp [TL.members, userNames] at hn
  | typ x =>
    have : n = x := by simpa [TL.members, userNames] using hn
    subst this; exact .litType jt n e
  | orr ms => exact .litOr jt ms n e ((mem_userNames' ms n).1 hn)

theorem root_refs_ref (g : G) (t : String) (names : List String) (hl : lookup g t = some (.ref names)) :
    NamesOK g names :=
  fun n hn => Or.inr ⟨t, _, hl, .ref names n hn⟩

def RecSoundC (g : G) (rec : List String → N → List JT → Except Err (List JT)) : Prop :=
  ∀ found body al m, (∃ t, lookup g t = some body) → rec found body al = .error (.missing m) → Bad g m

theorem userNames_cons_user (n : String) (ms : List Mem) : userNames (.user n :: ms) = n :: userNames ms := rfl
theorem userNames_cons_builtin (j : JT) (ms : List Mem) : userNames (.builtin j :: ms) = userNames ms := rfl

theorem collectNames_sound (g : G) (rec : List String → N → List JT → Except Err (List JT)) (hrec : RecSoundC g rec) :
    ∀ (ms : List Mem) (found : List String) (al : List JT) (m : String), NamesOK g (userNames ms) →
      collectNames g rec found ms al = .error (.missing m) → Bad g m
  | [], found, al, m, _, h => by simp [collectNames] at h
  | .builtin jt :: ms, found, al, m, hn, h => by
    simp only [collectNames] at h
    exact collectNames_sound g rec hrec ms found (jt :: al) m hn h
  | .user n :: ms, found, al, m, hn, h => by
    unfold collectNames at h
    by_cases hf : found.contains n = true
    · rw [if_pos hf] at h; cases h
    · rw [if_neg hf] at h
      cases hl : lookup g n with
      | none =>
        simp only [hl, Except.error.injEq, Err.missing.injEq] at h
        subst h
        exact ⟨hn _ (by simp [userNames]), notInTable_of_none g _ hl⟩
      | some body =>
        simp only [hl] at h
        cases h1 : rec (n :: found) body al with
        | error e =>
          simp only [h1, Except.error.injEq] at h
          subst h
          exact hrec _ _ _ m ⟨n, hl⟩ h1
        | ok al1 =>
          simp only [h1] at h
          exact collectNames_sound g rec hrec ms found al1 m (fun x hx => hn x (by simp [userNames, hx])) h

theorem collectRoot_sound (g : G) (f : Nat) : RecSoundC g (collectRoot g f) := by
  induction f with
  | zero =>
    intro found body al m ⟨t, hl⟩ h
    cases body with
    | ref names =>
      simp only [collectRoot] at h
      cases h1 : mustAll g names with
      | error e =>
        simp only [h1, Except.error.injEq] at h
        subst h
        exact mustAll_sound g names m (root_refs_ref g t names hl) h1
      | ok u => simp [h1] at h
    | arr items => simp [collectRoot] at h
    | obj ao ap ps => simp [collectRoot] at h
    | lit jt tl e =>
      unfold collectRoot at h
      cases hm : tl.members with
      | nil => simp [hm] at h
      | cons x xs => simp [hm] at h
  | succ f' ih =>
    intro found body al m ⟨t, hl⟩ h
    cases body with
    | ref names =>
      simp only [collectRoot] at h
      cases h1 : mustAll g names with
      | error e =>
        simp only [h1, Except.error.injEq] at h
        subst h
        exact mustAll_sound g names m (root_refs_ref g t names hl) h1
      | ok u => simp [h1] at h
    | arr items => simp [collectRoot] at h
    | obj ao ap ps => simp [collectRoot] at h
    | lit jt tl e =>
      have hn := root_refs_lit g t jt tl e hl
      unfold collectRoot at h
      cases hm : tl.members with
      | nil => simp [hm] at h
      | cons x xs =>
        simp only [hm] at h
        rw [hm] at hn
        exact collectNames_sound g _ ih (x :: xs) found al m hn h

def RecSoundB (g : G) (rec : N → List String → Except Err (List String)) : Prop :=
  ∀ body added m, (∃ t, lookup g t = some body) → rec body added = .error (.missing m) → Bad g m

theorem buildNames_sound (g : G) (rec : N → List String → Except Err (List String)) (hrec : RecSoundB g rec) :
    ∀ (ms : List Mem) (added : List String) (m : String), NamesOK g (userNames ms) →
      buildNames g rec ms added = .error (.missing m) → Bad g m
  | [], added, m, _, h => by simp [buildNames] at h
  | .builtin jt :: ms, added, m, hn, h => by
    simp only [buildNames] at h
    exact buildNames_sound g rec hrec ms added m hn h
  | .user n :: ms, added, m, hn, h => by
    have hn' : NamesOK g (userNames ms) := fun x hx => hn x (by simp [userNames, hx])
    unfold buildNames at h
    by_cases hf : added.contains n = true
    · rw [if_pos hf] at h
      exact buildNames_sound g rec hrec ms added m hn' h
    · rw [if_neg hf] at h
      cases hl : lookup g n with
      | none =>
        simp only [hl, Except.error.injEq, Err.missing.injEq] at h
        subst h
        exact ⟨hn _ (by simp [userNames]), notInTable_of_none g _ hl⟩
      | some body =>
        simp only [hl] at h
        cases h1 : rec body (n :: added) with
        | error e =>
          simp only [h1, Except.error.injEq] at h
          subst h
          exact hrec _ _ m ⟨n, hl⟩ h1
        | ok a1 =>
          simp only [h1] at h
          exact buildNames_sound g rec hrec ms a1 m hn' h

theorem userNames_map_user (ns : List String) : userNames (ns.map Mem.user) = ns := by
  induction ns with
  | nil => rfl
  | cons x xs ih => simp [userNames, ih]

theorem buildRoot_sound (g : G) (f : Nat) : RecSoundB g (buildRoot g f) := by
  induction f with
  | zero =>
    intro body added m ⟨t, hl⟩ h
    cases body with
    | arr items => simp [buildRoot] at h
    | obj ao ap ps => simp [buildRoot] at h
    | ref names =>
      unfold buildRoot at h
      cases names with
      | nil => simp at h
      | cons x xs => simp at h
    | lit jt tl e =>
      unfold buildRoot at h
      cases hm : tl.members with
      | nil => simp [hm] at h
      | cons x xs => simp [hm] at h
  | succ f' ih =>
    intro body added m ⟨t, hl⟩ h
    cases body with
    | arr items => simp [buildRoot] at h
    | obj ao ap ps => simp [buildRoot] at h
    | ref names =>
      have hn := root_refs_ref g t names hl
      unfold buildRoot at h
      cases names with
      | nil => simp at h
      | cons x xs =>
        simp only at h
        exact buildNames_sound g _ ih _ added m (by rw [userNames_map_user]; exact hn) h
    | lit jt tl e =>
      have hn := root_refs_lit g t jt tl e hl
      unfold buildRoot at h
      cases hm : tl.members with
      | nil => simp [hm] at h
      | cons x xs =>
        simp only [hm] at h
        rw [hm] at hn
        exact buildNames_sound g _ ih (x :: xs) added m hn h

theorem actualNames_noMiss (g : G) (rec : List String → N → Except Err JT)
    (hrec : ∀ vis body m, rec vis body ≠ .error (.missing m)) :
    ∀ (tns vis : List String) (acc : List JT) (m : String), actualNames g rec vis tns acc ≠ .error (.missing m)
  | [], vis, acc, m => by simp [actualNames]
  | tn :: tns, vis, acc, m => by
    unfold actualNames
    by_cases hv : vis.contains tn = true
    · rw [if_pos hv]; intro h; cases h
    · rw [if_neg hv]
      cases hl : lookup g tn with
      | none => intro h; cases h
      | some body =>
        simp only
        cases h1 : rec (tn :: vis) body with
        | error e =>
          simp only
          intro h
          simp only [Except.error.injEq] at h
          subst h
          exact hrec _ _ m h1
        | ok tt => exact actualNames_noMiss g rec hrec tns vis (tt :: acc) m

theorem actualType_noMiss (g : G) : ∀ (f : Nat) (vis : List String) (body : N) (m : String),
    actualType g f vis body ≠ .error (.missing m)
  | f, vis, .lit jt tl e, m => by cases f <;> simp [actualType]
  | f, vis, .arr items, m => by cases f <;> simp [actualType]
  | f, vis, .obj ao ap ps, m => by cases f <;> simp [actualType]
  | 0, vis, .ref names, m => by simp [actualType]
  | f + 1, vis, .ref names, m => by
    unfold actualType
    have := actualNames_noMiss g (actualType g f) (fun v b m => actualType_noMiss g f v b m) names vis [] m
    cases h1 : actualNames g (actualType g f) vis names [] with
    | error e =>
      simp only
      intro h
      simp only [Except.error.injEq] at h
      subst h
      exact this h1
    | ok r =>
      cases r with
      | none => intro h; cases h
      | some acc =>
        cases acc with
        | nil => intro h; cases h
        | cons t ts =>
          simp only
          by_cases hb : ts.all (· == t) = true
          · rw [if_pos hb]; intro h; cases h
          · rw [if_neg hb]; intro h; cases h

theorem checkKeys_sound (g : G) (fuel : Nat) : ∀ (keys : List (String × Bool)) (m : String), NamesOK g (shortcuts keys) →
    checkKeys g fuel keys = .error (.missing m) → Bad g m
  | [], m, _, h => by simp [checkKeys] at h
  | (k, false) :: ks, m, hn, h => by
    simp only [checkKeys] at h
    exact checkKeys_sound g fuel ks m (fun x hx => hn x (by
      rw [mem_shortcuts] at hx ⊢; exact List.mem_cons_of_mem _ hx)) h
  | (k, true) :: ks, m, hn, h => by
    have hn' : NamesOK g (shortcuts ks) := fun x hx => hn x (by
      rw [mem_shortcuts] at hx ⊢; exact List.mem_cons_of_mem _ hx)
    unfold checkKeys at h
    cases hl : lookup g k with
    | none =>
      simp only [hl, Except.error.injEq, Err.missing.injEq] at h
      subst h
      exact ⟨hn _ ((mem_shortcuts _ _).2 List.mem_cons_self), notInTable_of_none g _ hl⟩
    | some body =>
      simp only [hl] at h
      cases h1 : actualType g fuel [] body with
      | error e =>
        simp only [h1, Except.error.injEq] at h
        subst h
        exact absurd h1 (actualType_noMiss g fuel [] body m)
      | ok t =>
        simp only [h1] at h
        by_cases ht : t = .str
        · rw [if_pos ht] at h; exact checkKeys_sound g fuel ks m hn' h
        · rw [if_neg ht] at h; cases h

theorem checkItem_sound (g : G) (fuel : Nat) (ci : CItem) (m : String) (hn : NamesOK g ci.names)
    (h : checkItem g fuel ci = .error (.missing m)) : Bad g m := by
  cases ci with
  | arr => simp [checkItem] at h
  | ref names => exact mustAll_sound g names m hn h
  | lit jt ms =>
    cases ms with
    | nil => simp [checkItem] at h
    | cons x xs =>
      simp only [checkItem] at h
      cases h1 : collectNames g (collectRoot g fuel) [] (x :: xs) [] with
      | error e =>
        simp only [h1, Except.error.injEq] at h
        subst h
        exact collectNames_sound g _ (collectRoot_sound g fuel) (x :: xs) [] [] m hn h1
      | ok al =>
        simp only [h1] at h
        by_cases hc : al.contains jt = true
        · rw [if_pos hc] at h
          cases h2 : buildNames g (buildRoot g fuel) (x :: xs) [] with
          | error e =>
            simp only [h2, Except.error.injEq] at h
            subst h
            exact buildNames_sound g _ (buildRoot_sound g fuel) (x :: xs) [] m hn h2
          | ok a => simp [h2] at h
        · rw [if_neg hc] at h; cases h
  | obj keys addp =>
    have hn' := namesOK_append.1 hn
    simp only [checkItem] at h
    cases h1 : checkKeys g fuel keys with
    | error e =>
      simp only [h1, Except.error.injEq] at h
      subst h
      exact checkKeys_sound g fuel keys m hn'.1 h1
    | ok u =>
      simp only [h1] at h
      cases addp with
      | none => simp at h
      | some a =>
        simp only at h
        cases hl : lookup g a with
        | none =>
          simp only [hl, Except.error.injEq, Err.missing.injEq] at h
          subst h
          exact ⟨hn'.2 _ (by simp), notInTable_of_none g _ hl⟩
        | some b => simp [hl] at h

theorem checkList_sound (g : G) (fuel : Nat) : ∀ (c : List CItem) (m : String), CNamesOK g c →
    checkList g fuel c = .error (.missing m) → Bad g m
  | [], m, _, h => by simp [checkList] at h
  | ci :: cs, m, hc, h => by
    unfold checkList at h
    cases h1 : checkItem g fuel ci with
    | error e =>
      simp only [h1, Except.error.injEq] at h
      subst h
      exact checkItem_sound g fuel ci m (hc ci List.mem_cons_self) h1
    | ok u =>
      simp only [h1] at h
      exact checkList_sound g fuel cs m (fun x hx => hc x (List.mem_cons_of_mem _ hx)) h

theorem checkOrNodes_sound (g : G) : ∀ (ord : List (List String)) (m : String), (∀ l ∈ ord, NamesOK g l) →
    checkOrNodes g ord = .error (.missing m) → Bad g m
  | [], m, _, h => by simp [checkOrNodes] at h
  | l :: ls, m, ho, h => by
    unfold checkOrNodes at h
    cases h1 : mustAll g l with
    | error e =>
      simp only [h1, Except.error.injEq] at h
      subst h
      exact mustAll_sound g l m (ho l List.mem_cons_self) h1
    | ok u =>
      simp only [h1] at h
      exact checkOrNodes_sound g ls m (fun x hx => ho x (List.mem_cons_of_mem _ hx)) h

theorem naive_names (items : List Item) : ∀ ci ∈ naive items, ∃ it ∈ items, ∀ n ∈ ci.names, n ∈ it.checkNames := by
  induction items with
  | nil => intro ci h; simp [naive] at h
  | cons it rest ih =>
    intro ci h
    cases it with
    | lit jt ms =>
      simp only [naive, List.mem_cons] at h
      rcases h with rfl | h
      · exact ⟨_, List.mem_cons_self, fun n hn => hn⟩
      · obtain ⟨x, hx, hh⟩ := ih ci h; exact ⟨x, List.mem_cons_of_mem _ hx, hh⟩
    | ref ns =>
      simp only [naive, List.mem_cons] at h
      rcases h with rfl | h
      · exact ⟨_, List.mem_cons_self, fun n hn => hn⟩
      · obtain ⟨x, hx, hh⟩ := ih ci h; exact ⟨x, List.mem_cons_of_mem _ hx, hh⟩
    | arr =>
      simp only [naive, List.mem_cons] at h
      rcases h with rfl | h
      · exact ⟨_, List.mem_cons_self, fun n hn => hn⟩
      · obtain ⟨x, hx, hh⟩ := ih ci h; exact ⟨x, List.mem_cons_of_mem _ hx, hh⟩
    | obj keys addp ao =>
      simp only [naive, List.mem_cons] at h
      rcases h with rfl | h
      · exact ⟨_, List.mem_cons_self, fun n hn => hn⟩
      · obtain ⟨x, hx, hh⟩ := ih ci h; exact ⟨x, List.mem_cons_of_mem _ hx, hh⟩
    | inh ps =>
      simp only [naive] at h
      obtain ⟨x, hx, hh⟩ := ih ci h; exact ⟨x, List.mem_cons_of_mem _ hx, hh⟩

theorem compiledOf_ok (g : G) (st : St) (hst : SInv g st) (n : String) : CNamesOK g (compiledOf g st n) := by
  unfold compiledOf
  cases hl : st.compiled.lookup n with
  | some c => exact hst n c hl
  | none =>
    simp only
    cases hb : lookup g n with
    | none => intro ci hci; simp at hci
    | some body =>
      intro ci hci x hx
      obtain ⟨it, hit, hh⟩ := naive_names (flat body) ci hci
      exact refs_of_flat_type g n body hb it hit x (Or.inr (hh x hx))

theorem checkTypes_sound (g : G) (fuel : Nat) (st : St) (hst : SInv g st) : ∀ (names : List String) (m : String),
    checkTypes g fuel st names = .error (.missing m) → Bad g m
  | [], m, h => by simp [checkTypes] at h
  | n :: ns, m, h => by
    unfold checkTypes at h
    cases h1 : checkList g fuel (compiledOf g st n) with
    | error e =>
      simp only [h1, Except.error.injEq] at h
      subst h
      exact checkList_sound g fuel _ m (compiledOf_ok g st hst n) h1
    | ok u =>
      simp only [h1] at h
      exact checkTypes_sound g fuel st hst ns m h

theorem mem_orNodesOf : ∀ (items : List Item) (l : List String), l ∈ orNodesOf items → Item.ref l ∈ items
  | [], l, h => by simp [orNodesOf] at h
  | .ref [] :: rest, l, h => by
    simp only [orNodesOf] at h; exact List.mem_cons_of_mem _ (mem_orNodesOf rest l h)
  | .ref [a] :: rest, l, h => by
    simp only [orNodesOf] at h; exact List.mem_cons_of_mem _ (mem_orNodesOf rest l h)
  | .ref (a :: b :: cs) :: rest, l, h => by
    simp only [orNodesOf, List.mem_cons] at h
    rcases h with rfl | h
    · exact List.mem_cons_self
    · exact List.mem_cons_of_mem _ (mem_orNodesOf rest l h)
  | .lit _ _ :: rest, l, h => by
    simp only [orNodesOf] at h; exact List.mem_cons_of_mem _ (mem_orNodesOf rest l h)
  | .arr :: rest, l, h => by
    simp only [orNodesOf] at h; exact List.mem_cons_of_mem _ (mem_orNodesOf rest l h)
  | .obj _ _ _ :: rest, l, h => by
    simp only [orNodesOf] at h; exact List.mem_cons_of_mem _ (mem_orNodesOf rest l h)
  | .inh _ :: rest, l, h => by
    simp only [orNodesOf] at h; exact List.mem_cons_of_mem _ (mem_orNodesOf rest l h)

theorem orNodes_ok (g : G) (l : List String) (h : l ∈ orNodes g) : NamesOK g l := by
  unfold orNodes at h
  obtain ⟨t, _, hl⟩ := List.mem_flatMap.1 h
  cases hb : lookup g t with
  | none => simp [hb] at hl
  | some body =>
    simp only [hb] at hl
    intro n hn
    exact refs_of_flat_type g t body hb _ (mem_orNodesOf _ l hl) n (Or.inr hn)

/-- **soundness of the link check**: a reported missing type is referenced and is not in the table -/
theorem linkCheckF_sound (g : G) (fuel : Nat) (ord : List (List String)) (hord : ∀ l ∈ ord, l ∈ orNodes g) (m : String)
    (h : linkCheckF g fuel ord = .error (.missing m)) : Refs g m ∧ ¬ InTable g m := by
  unfold linkCheckF at h
  have hc := compileAllOf_sound g fuel
  cases h1 : compileAllOf g fuel with
  | error e =>
    simp only [h1, Except.error.injEq] at h
    subst h
    exact hc.2 m h1
  | ok res =>
    obtain ⟨rootC, st⟩ := res
    obtain ⟨hst, hrc⟩ := hc.1 rootC st h1
    simp only [h1] at h
    unfold checkRootSchema at h
    cases h2 : checkList g fuel rootC with
    | error e =>
      simp only [h2, Except.error.injEq] at h
      subst h
      exact checkList_sound g fuel rootC m hrc h2
    | ok u =>
      simp only [h2] at h
      cases h3 : checkOrNodes g ord with
      | error e =>
        simp only [h3, Except.error.injEq] at h
        subst h
        exact checkOrNodes_sound g ord m (fun l hl => orNodes_ok g l (hord l hl)) h3
      | ok u2 =>
        simp only [h3] at h
        exact checkTypes_sound g fuel st hst (sortedNames g) m h

end LK
