import JSight.BridgeCR2Tail
/-!
Bridge (A)∩(B), second part: `tail_plain` — from `allowedConstraintCheck` to `checkCompatibilityOfConstraints` on a
node without types list and without `any` ((A): `bAllowed … bFinish` + the compatibility flag).
-/
namespace BridgeCR
open Compile
open Loader (NK)

/-- (B) from `allowedConstraintCheck` to the end -/
def tailB (c : CR.Ctx) (m : CR.CMap) : Except CR.Code Unit :=
  CR.allowedConstraintCheck m >>= fun m => CR.anyConstraint c m >>= fun m => CR.exclusiveMinimumConstraint m >>= fun m =>
  CR.exclusiveMaximumConstraint m >>= fun m => CR.checkPairConstraints m >>= fun m => CR.optionalConstraints c m >>= fun m =>
  CR.emptyArray c m >>= fun m => CR.allOfStep c m >>= fun m => CR.checkCompat c m

/-! ### the compatibility table -/

theorem tab (jt : JT) (rn : CR.RName) (hj : jt ≠ .mixed) (h1 : rn ≠ .exclusiveMinimum) (h2 : rn ≠ .exclusiveMaximum) :
    incompatible jt (rbytes rn) = !CR.compat rn.ct (cjt jt) := by
  cases jt <;> cases rn <;> first | exact absurd rfl hj | exact absurd rfl h1 | exact absurd rfl h2 | decide +kernel

theorem tab_ex (jt : JT) : incompatible jt (rbytes .exclusiveMinimum) = false ∧
    incompatible jt (rbytes .exclusiveMaximum) = false := by cases jt <;> decide +kernel

def plain10 : List CR.RName :=
  [.minLength, .maxLength, .min, .max, .precision, .optional, .additionalProperties, .nullable, .const, .enum]

theorem classify (rn : CR.RName) (g1 : rn ≠ .allOf) (g2 : rn ≠ .regex) (g3 : rn ≠ .minItems) (g4 : rn ≠ .maxItems) :
    rn ∈ plain10 ∨ rn = .type ∨ rn = .or ∨ rn = .exclusiveMinimum ∨ rn = .exclusiveMaximum := by
  cases rn <;> simp_all [plain10]

section
variable {frs : List Rule} {fmt : Option RulesF.Fmt} {m : CR.CMap}

theorem has7_plain (R : Rel5 frs fmt m) (G : Good frs) (hor : hasRule frs "or" = false) (rn : CR.RName)
    (h : rn ∈ plain10) : (m7of m).has rn.ct = hn frs (rbytes rn) := by
  rw [m7of_has, has5 R G hor]
  simp only [plain10, List.mem_cons, List.mem_nil_iff, or_false] at h
  rcases h with rfl | rfl | rfl | rfl | rfl | rfl | rfl | rfl | rfl | rfl <;>
    simp [has5f, CR.RName.ct, hasRule_hn, rbytes, sb_minLength, sb_maxLength, sb_min, sb_max, sb_precision, sb_optional,
      sb_additionalProperties, sb_nullable, sb_const, sb_enum]

theorem hn_of_mem (r : Rule) (hr : r ∈ frs) : hn frs r.name = true := by
  unfold hn
  rw [List.any_eq_true]
  exact ⟨r, hr, by simp⟩

theorem compat_key (R : Rel5 frs fmt m) (G : Good frs) (hor : hasRule frs "or" = false)
    {kind : NK} {jt : JT} {nch : Nat} {isProp : Bool} {c : CR.Ctx} (C : CtxOK kind jt nch isProp c)
    (hf : fmt = none ∨ fmt = some .uuid ∨ fmt = some .date) :
    CR.CT.all.all (fun k => !(m7of m).has k || CR.compat k c.jt)
      = !((frs.any fun r => incompatible jt r.name) || (fmt.isSome && jt != .str)) := by
  rw [Bool.eq_iff_iff, CR.all_iff, C.jtc]
  constructor
  · intro h
    rw [Bool.not_eq_true', Bool.or_eq_false_iff]
    constructor
    · rw [List.any_eq_false]
      intro r hr
      obtain ⟨rn, e, g1, g2, g3, g4⟩ := G.known r hr
      rw [e]
      rcases classify rn g1 g2 g3 g4 with hp | rfl | rfl | rfl | rfl
      · have h1 : rn ≠ .exclusiveMinimum := by intro e; subst e; simp [plain10] at hp
        have h2 : rn ≠ .exclusiveMaximum := by intro e; subst e; simp [plain10] at hp
        rw [tab jt rn C.jtm h1 h2]
        have hk := h rn.ct
        rw [has7_plain R G hor rn hp, ← e, hn_of_mem r hr] at hk
        simpa using hk
      · rw [tab jt _ C.jtm (by decide) (by decide)]; simp [CR.compat, CR.RName.ct]
      · rw [tab jt _ C.jtm (by decide) (by decide)]; simp [CR.compat, CR.RName.ct]
      · simp [(tab_ex jt).1]
      · simp [(tab_ex jt).2]
    · have hu := h .uuid
      have hd := h .date
      rw [m7of_has, has5 R G hor] at hu hd
      rcases hf with rfl | rfl | rfl
      · rfl
      · cases jt <;> simp [has5f, CR.compat, cjt] at hu ⊢
      · cases jt <;> simp [has5f, CR.compat, cjt] at hd ⊢
  · intro h k
    rw [Bool.not_eq_true', Bool.or_eq_false_iff] at h
    obtain ⟨hA, hF⟩ := h
    have plainc : ∀ rn, rn ∈ plain10 → (!(m7of m).has rn.ct || CR.compat rn.ct (cjt jt)) = true := by
      intro rn hp
      rw [has7_plain R G hor rn hp]
      cases hh : hn frs (rbytes rn) with
      | false => rfl
      | true =>
        unfold hn at hh
        rw [List.any_eq_true] at hh
        obtain ⟨r, hr, e⟩ := hh
        have e' : r.name = rbytes rn := by simpa using e
        have := List.any_eq_false.1 hA r hr
        rw [e'] at this
        have h1 : rn ≠ .exclusiveMinimum := by intro e; subst e; simp [plain10] at hp
        have h2 : rn ≠ .exclusiveMaximum := by intro e; subst e; simp [plain10] at hp
        rw [tab jt rn C.jtm h1 h2] at this
        simpa using this
    cases k
    case minLength => exact plainc .minLength (by simp [plain10])
    case maxLength => exact plainc .maxLength (by simp [plain10])
    case min => exact plainc .min (by simp [plain10])
    case max => exact plainc .max (by simp [plain10])
    case precision => exact plainc .precision (by simp [plain10])
    case optional => exact plainc .optional (by simp [plain10])
    case additionalProperties => exact plainc .additionalProperties (by simp [plain10])
    case nullable => exact plainc .nullable (by simp [plain10])
    case const => exact plainc .const (by simp [plain10])
    case enum => exact plainc .enum (by simp [plain10])
    case uuid =>
      rw [m7of_has, has5 R G hor]
      rcases hf with rfl | rfl | rfl
      · simp [has5f]
      · cases jt <;> simp [has5f, CR.compat, cjt] at hF ⊢
      · simp [has5f]
    case date =>
      rw [m7of_has, has5 R G hor]
      rcases hf with rfl | rfl | rfl
      · simp [has5f]
      · simp [has5f]
      · cases jt <;> simp [has5f, CR.compat, cjt] at hF ⊢
    all_goals (rw [m7of_has, has5 R G hor]; simp [has5f])

theorem compat_agree (R : Rel5 frs fmt m) (G : Good frs) (hor : hasRule frs "or" = false)
    {kind : NK} {jt : JT} {nch : Nat} {isProp : Bool} {c : CR.Ctx} (C : CtxOK kind jt nch isProp c)
    (hf : fmt = none ∨ fmt = some .uuid ∨ fmt = some .date) :
    CR.checkCompat c (m7of m) =
      if ((frs.any fun r => incompatible jt r.name) || (fmt.isSome && jt != .str)) then .error 1117 else .ok () := by
  unfold CR.checkCompat
  rw [compat_key R G hor C hf]
  simp only [C.notMixed, C.notMV, decide_false, Bool.or_self, Bool.false_eq_true, if_false]
  cases ((frs.any fun r => incompatible jt r.name) || (fmt.isSome && jt != .str)) <;> simp

/-! ### `optional`, `additionalProperties` -/

theorem boolRule_optional (G : Good frs) : (boolRule frs "optional").isSome = hasRule frs "optional" := by
  rw [← findRule_isSome]
  unfold boolRule
  cases hf : findRule frs "optional" with
  | none => rfl
  | some r =>
    obtain ⟨nm, hm⟩ := findRule_name hf
    have := (G.valid r hm).1 (by rw [nm, sb_optional])
    simp only [Option.isSome_some]
    rw [parseBool_val]
    exact this

theorem parseAdd_of_valid (G : Good frs) (r : Rule) (hf : findRule frs "additionalProperties" = some r) :
    ∃ add, parseAdd (r.val.getD []) = .ok add := by
  obtain ⟨nm, hm⟩ := findRule_name hf
  have := (G.valid r hm).2.1 (by rw [nm, sb_additionalProperties])
  rw [addPropsOK_eq, ← parseAdd_ok] at this
  cases hp : parseAdd (r.val.getD []) with
  | ok a => exact ⟨a, rfl⟩
  | error e => rw [hp] at this; simp [okE] at this

theorem exMinNext_has (m : CR.CMap) (k : CR.CT) :
    (CR.exMinNext m).has k = if k = .exclusiveMinimum then false else m.has k := by
  unfold CR.CMap.has
  rw [CR.exMinNext_apply]
  by_cases h1 : k = .exclusiveMinimum
  · simp [h1]
  · simp only [h1, if_false]
    split
    · rename_i h; rw [CR.setEx_isSome, h.1]
    · rfl

theorem m7_min (R : Rel5 frs fmt m) : m7of m .min =
    if (boolRule frs "exclusiveMinimum" == some true) then CR.setEx (mapOf frs .min) else mapOf frs .min := by
  rw [m7of_apply]
  simp only [reduceCtorEq, false_or, if_false, false_and, true_and]
  rw [R.plain .exclusiveMinimum (by decide) (by decide) (by decide), R.plain .min (by decide) (by decide) (by decide)]
  by_cases h : mapOf frs .exclusiveMinimum = some (.flag true)
  · rw [if_pos h, if_pos ((flag_true frs _ _ ct_exMin (fun _ => rfl)).1 h)]
  · rw [if_neg h, if_neg (fun x => h ((flag_true frs _ _ ct_exMin (fun _ => rfl)).2 x))]

theorem m7_max (R : Rel5 frs fmt m) : m7of m .max =
    if (boolRule frs "exclusiveMaximum" == some true) then CR.setEx (mapOf frs .max) else mapOf frs .max := by
  rw [m7of_apply]
  simp only [reduceCtorEq, false_or, if_false, true_and, false_and]
  rw [R.plain .exclusiveMaximum (by decide) (by decide) (by decide), R.plain .max (by decide) (by decide) (by decide)]
  by_cases h : mapOf frs .exclusiveMaximum = some (.flag true)
  · rw [if_pos h, if_pos ((flag_true frs _ _ ct_exMax (fun _ => rfl)).1 h)]
  · rw [if_neg h, if_neg (fun x => h ((flag_true frs _ _ ct_exMax (fun _ => rfl)).2 x))]

theorem m7_other (R : Rel5 frs fmt m) (k : CR.CT) (h1 : k ≠ .exclusiveMaximum) (h2 : k ≠ .exclusiveMinimum) (h3 : k ≠ .max)
    (h4 : k ≠ .min) (h5 : k ≠ .type) (h6 : k ≠ .uuid) (h7 : k ≠ .date) : m7of m k = mapOf frs k := by
  rw [m7of_apply]
  simp only [h1, h2, h3, h4, false_or, if_false, false_and]
  exact R.plain k h5 h6 h7

theorem none_of_has {m : CR.CMap} {k : CR.CT} (h : m.has k = false) : m k = none := (CR.has_false_iff m k).1 h

/-- **the end of `compileNode`** on a node without types list and without `any` -/
theorem tail_plain (R : Rel5 frs fmt m) (G : Good frs) (hor : hasRule frs "or" = false)
    {kind : NK} {jt : JT} {nch : Nat} {isProp : Bool} {c : CR.Ctx} (C : CtxOK kind jt nch isProp c)
    (hf : fmt = none ∨ fmt = some .uuid ∨ fmt = some .date) :
    Agree (outA (bAllowed frs jt isProp nch false fmt none false)) (tailB c m) := by
  have H := has5 R G hor
  -- (B), step by step
  have hb1 : CR.allowedConstraintCheck m =
      if fmt.isSome && (hasRule frs "minLength" || hasRule frs "maxLength") then .error 1117 else .ok m := by
    unfold CR.allowedConstraintCheck CR.hasFormat
    simp only [H, has5f]
    rcases hf with rfl | rfl | rfl <;> simp
  have hb2 : CR.anyConstraint c m = .ok m := by
    unfold CR.anyConstraint
    simp [H, has5f]
  have hb3 : CR.exclusiveMinimumConstraint m =
      if hasRule frs "exclusiveMinimum" && !hasRule frs "min" then .error 1109 else .ok (CR.exMinNext m) := by
    rw [exMin_exc]; simp only [H, has5f]
  have hb4 : CR.exclusiveMaximumConstraint (CR.exMinNext m) =
      if hasRule frs "exclusiveMaximum" && !hasRule frs "max" then .error 1110 else .ok (m7of m) := by
    rw [exMax_exc]; simp only [exMinNext_has, H, has5f, reduceCtorEq, if_false]; rfl
  have hb5 : CR.checkPairConstraints (m7of m) =
      CR.pairNum (m7of m .min) (m7of m .max) >>= fun _ =>
      CR.pairNat (mapOf frs .minLength) (mapOf frs .maxLength) >>= fun _ => .ok (m7of m) := by
    unfold CR.checkPairConstraints
    rw [m7_other R .minLength (by decide) (by decide) (by decide) (by decide) (by decide) (by decide) (by decide),
      m7_other R .maxLength (by decide) (by decide) (by decide) (by decide) (by decide) (by decide) (by decide)]
    have e1 : m7of m .minItems = none := none_of_has (by rw [m7of_has, H]; simp [has5f])
    have e2 : m7of m .maxItems = none := none_of_has (by rw [m7of_has, H]; simp [has5f])
    rw [e1, e2]
    cases CR.pairNum (m7of m .min) (m7of m .max) with
    | error e => rfl
    | ok u =>
      cases CR.pairNat (mapOf frs .minLength) (mapOf frs .maxLength) with
      | error e => rfl
      | ok u => rfl
  have hb6 : CR.optionalConstraints c (m7of m) =
      if hasRule frs "optional" && !isProp then .error 1101 else .ok (m7of m) := by
    unfold CR.optionalConstraints
    rw [m7of_has, H, C.prop]
    simp [has5f]
  have hb7 : CR.emptyArray c (m7of m) = .ok (m7of m) := by
    have e1 : m7of m .minItems = none := none_of_has (by rw [m7of_has, H]; simp [has5f])
    have e2 : m7of m .maxItems = none := none_of_has (by rw [m7of_has, H]; simp [has5f])
    unfold CR.emptyArray
    rw [e1, e2]
    simp [CR.countNonZero]
  have hb8 : CR.allOfStep c (m7of m) = .ok (m7of m) := by
    have e1 : m7of m .allOf = none := none_of_has (by rw [m7of_has, H]; simp [has5f])
    unfold CR.allOfStep
    rw [e1]
  have hb9 := compat_agree R G hor C hf
  -- the last stage of (A)
  have hfin : Agree (outA (bOptional frs jt isProp false fmt none false (boolRule frs "exclusiveMinimum" == some true)
      (boolRule frs "exclusiveMaximum" == some true)))
      (CR.optionalConstraints c (m7of m) >>= fun m => CR.emptyArray c m >>= fun m => CR.allOfStep c m >>= fun m => CR.checkCompat c m) := by
    rw [hb6]
    unfold bOptional
    simp only [boolRule_optional G]
    cases hc : (hasRule frs "optional" && !isProp)
    · simp only [Bool.false_eq_true, if_false, bind_ok, hb7, hb8, hb9]
      have hfinish : ∀ add lits, outA (bFinish frs jt (boolRule frs "optional") false fmt none false lits add) =
          if ((frs.any fun r => incompatible jt r.name) || (fmt.isSome && jt != .str)) then .error (.code 1117 0) else .ok () := by
        intro add lits
        rcases hf with rfl | rfl | rfl <;> simp [bFinish, outA, pure, Except.pure]
      cases hfa : findRule frs "additionalProperties" with
      | none =>
        simp only [hfinish]
        cases ((frs.any fun r => incompatible jt r.name) || (fmt.isSome && jt != .str)) <;> simp [Agree]
      | some r =>
        obtain ⟨add, hadd⟩ := parseAdd_of_valid G r hfa
        simp only [hadd, hfinish]
        cases ((frs.any fun r => incompatible jt r.name) || (fmt.isSome && jt != .str)) <;> simp [Agree]
    · simp [outA, Agree, bind_err, throw, throwThe, MonadExceptOf.throw]
  unfold tailB bAllowed
  rw [hb1]
  simp only [Bool.false_and, Bool.false_eq_true, if_false, outA_ite]
  cases h1 : (fmt.isSome && (hasRule frs "minLength" || hasRule frs "maxLength"))
  · simp only [Bool.false_eq_true, if_false, bind_ok, hb2, hb3]
    cases h2 : (hasRule frs "exclusiveMinimum" && !hasRule frs "min")
    · simp only [Bool.false_eq_true, if_false, bind_ok, hb4]
      cases h3 : (hasRule frs "exclusiveMaximum" && !hasRule frs "max")
      · simp only [Bool.false_eq_true, if_false, bind_ok, hb5, bPairs]
        have := pairNum_agree frs (boolRule frs "exclusiveMinimum" == some true) (boolRule frs "exclusiveMaximum" == some true)
          (m7of m .min) (m7of m .max) (m7_min R) (m7_max R) _ _
          (pairNat_agree frs G _ _ hfin)
        simpa [bind_assoc, bind_ok] using this
      · simp [outA, Agree, bind_err, throw, throwThe, MonadExceptOf.throw]
    · simp [outA, Agree, bind_err, throw, throwThe, MonadExceptOf.throw]
  · simp [outA, Agree, bind_err, throw, throwThe, MonadExceptOf.throw]

end

end BridgeCR
